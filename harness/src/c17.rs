//! C17 — every invocation ends in success or a diagnosed error, never a panic: the statistic x shape grid (degenerate and
//! zero-length shapes included) in-process and through the binary, the view / fold options on degenerate shapes, empty and
//! very short inputs, absurd declared shapes, option values at and beyond their bounds, contradictory sample lists, and a
//! mutation stream over valid text / npy / VCF / BCF inputs.
use crate::{c13, cli, create, io, proto::*, rng::Rng, shapes, stat, vcf, Ctx};
use sfs_core::Scs;

fn cls(o: &cli::Out) -> String {
    let class = cli::class(o);
    let panic = if class == "PANIC" { format!("|panic={}", o.stderr.lines().find(|l| l.contains("panicked")).unwrap_or("").replace('\t', " ")) } else { String::new() };
    format!("{class}|{}|{}|{}{panic}", o.code, if o.stdout.is_empty() { "noout" } else { "out" }, if o.stderr.trim().is_empty() { "noerr" } else { "err" })
}

fn split_args(s: &str) -> Vec<String> { if s == "-" || s.is_empty() { vec![] } else { s.split(' ').map(|x| x.to_string()).collect() } }

pub fn eval(ctx: &Ctx, op: &str, a: &[&str]) -> Option<String> {
    match op {
        // pn.calc kind shape bits : one statistic in-process (a panic is caught by the harness and reported as PANIC(..))
        "pn.calc" => {
            let scs = match Scs::new(parse_bits(a[2]), parse_nats(a[1])) { Ok(s) => s, Err(_) => return Some("NOSPECTRUM".into()) };
            Some(stat::calc(a[0], &scs))
        }
        // pn.fold shape bits fill : in-process fold
        "pn.fold" => {
            let scs = match Scs::new(parse_bits(a[1]), parse_nats(a[0])) { Ok(s) => s, Err(_) => return Some("NOSPECTRUM".into()) };
            let f = scs.fold().into_spectrum(0.0);
            Some(format!("OK {}", f.inner().as_slice().len()))
        }
        // pn.spec cmd kinds stdin-hex : spectrum-consuming subcommand whose outcome class the model predicts
        "pn.spec" => {
            let mut args = vec![a[0].to_string()];
            if a[0] == "stat" { args.push("-s".into()); args.push(a[1].to_string()); } else { args.extend(split_args(a[1])); }
            Some(cls(&cli::run_sfs(&ctx.sfs_bin, &args, &parse_hex(a[2]))))
        }
        // pn.any cmd args stdin-hex : any invocation; only the outcome class matters
        "pn.any" => {
            let mut args = vec![a[0].to_string()]; args.extend(split_args(a[1]));
            Some(cls(&cli::run_sfs(&ctx.sfs_bin, &args, &parse_hex(a[2]))))
        }
        // pn.input cmd pathGiven envSet : `Input::new`'s refusal rule (stdin is a pipe here, never a terminal)
        "pn.input" => {
            use std::io::Write as _;
            let data = b"#SHAPE=<3>\n1 2 3\n";
            let path = format!("{}/tmp/pninput-{:?}.sfs", ctx.work, std::thread::current().id()).replace(['(', ')'], "");
            std::fs::create_dir_all(format!("{}/tmp", ctx.work)).ok();
            std::fs::write(&path, data).ok()?;
            let mut c = std::process::Command::new(&ctx.sfs_bin);
            c.arg(a[0]); if a[0] == "stat" { c.args(["-s", "sum"]); }
            if a[1] == "1" { c.arg(&path); }
            c.env_remove("SFS_ALLOW_STDIN").env("RUST_BACKTRACE", "0");
            if a[2] == "1" { c.env("SFS_ALLOW_STDIN", "1"); }
            c.stdin(std::process::Stdio::piped()).stdout(std::process::Stdio::piped()).stderr(std::process::Stdio::piped());
            let mut child = c.spawn().ok()?;
            { let mut si = child.stdin.take()?; let _ = si.write_all(data); }
            let o = child.wait_with_output().ok()?;
            let _ = std::fs::remove_file(&path);
            let out = cli::Out { code: o.status.code().unwrap_or(-1), stdout: o.stdout, stderr: String::from_utf8_lossy(&o.stderr).into_owned() };
            Some(cls(&out))
        }
        // pn.view shape bits rm kp ps pi mk nm : view options on (degenerate) shapes, class only
        "pn.view" => {
            let r = c13::eval(ctx, "c13.view", a)?;
            Some(if r.starts_with("OK ") { "OK".into() } else if r.starts_with("ERR ") { r } else { r })
        }
        _ => None,
    }
}

fn text_spec(shape: &[usize], data: &[f64]) -> Vec<u8> {
    format!("#SHAPE=<{}>\n{}\n", shape.iter().map(|x| x.to_string()).collect::<Vec<_>>().join("/"), data.iter().map(|x| format!("{x:.3}")).collect::<Vec<_>>().join(" ")).into_bytes()
}

fn mutate(rng: &mut Rng, base: &[u8], other: &[u8], texty: bool) -> Vec<u8> {
    let mut b = base.to_vec();
    let n = b.len().max(1);
    for _ in 0..rng.range(1, 3) {
        let len = b.len();
        if len == 0 { break; }
        match rng.below(if texty { 10 } else { 8 }) {
            0 => { let i = rng.below(len as u64) as usize; b[i] ^= 1 << rng.below(8); }
            1 => { let i = rng.below(len as u64) as usize; b[i] = rng.next() as u8; }
            2 => { let i = rng.below(len as u64) as usize; let l = rng.range(1, 8.min(len as u64 - i as u64).max(1)) as usize; b.drain(i..(i + l).min(len)); }
            3 => { let i = rng.below(len as u64) as usize; let l = rng.range(1, 16) as usize; let seg: Vec<u8> = b[i..(i + l).min(len)].to_vec(); let j = rng.below(len as u64) as usize; for (k, x) in seg.into_iter().enumerate() { b.insert(j + k, x); } }
            4 => { let k = rng.below(len as u64) as usize; b.truncate(k); }
            5 => { if !other.is_empty() { let i = rng.below(other.len() as u64) as usize; let l = rng.range(1, 32) as usize; let seg = &other[i..(i + l).min(other.len())]; let j = rng.below(len as u64 + 1) as usize; for (k, x) in seg.iter().enumerate() { b.insert(j + k, *x); } } }
            6 => { let i = rng.below(len as u64) as usize; for k in i..(i + 4).min(len) { b[k] = 0xff; } }
            7 => { let i = rng.below(len as u64) as usize; for k in i..(i + 8).min(len) { b[k] = 0; } }
            8 => { // a huge number where a digit was
                if let Some(i) = (0..len).map(|k| (k + rng.below(n as u64) as usize) % len).find(|k| b[*k].is_ascii_digit()) {
                    let big = *rng.pick(&["18446744073709551615", "18446744073709551616", "99999999999999999999999999", "4294967296", "-1", "1e400", "2147483648", "9223372036854775808"]);
                    b.splice(i..i + 1, big.bytes());
                }
            }
            _ => { let i = rng.below(len as u64) as usize; let c = *rng.pick(&[b'\n', b'\t', b' ', b'/', b',', b'=', b'.', b'<', b'>', b'#', b'|', b':', b';']); b.insert(i, c); }
        }
    }
    b
}

pub fn gen(ctx: &Ctx, rng: &mut Rng, out: &mut Vec<String>) {
    let t = ctx.tier_thorough;
    // (a) the full grid statistic(14) x shapes with 1..4 axes of length 0..4, in-process
    let mut grid: Vec<Vec<usize>> = Vec::new();
    for d in 1..=4usize {
        let mut idx = vec![0usize; d];
        loop {
            grid.push(idx.clone());
            let mut k = d; let mut done = true;
            while k > 0 { k -= 1; if idx[k] < 4 { idx[k] += 1; done = false; break; } else { idx[k] = 0; } }
            if done { break; }
        }
    }
    for (si, shape) in grid.iter().enumerate() {
        if !t && shape.len() == 4 && si % 5 != 0 { continue; }
        let n: usize = shape.iter().product();
        let data: Vec<f64> = (0..n).map(|j| match (si + j) % 9 { 0 => 0.0, _ => (1 + (j * 7 + si) % 13) as f64 }).collect();
        for k in stat::KINDS { out.push(format!("pn.calc\t{k}\t{}\t{}", nats(shape), bits(&data))); }
        out.push(format!("pn.fold\t{}\t{}\tzero", nats(shape), bits(&data)));
        // through the binary: text input (zero-element spectra cannot be carried by the harness' npy writer's reader on the other side either way)
        if t || si % 7 == 0 || n <= 2 {
            let input = text_spec(shape, &data);
            for k in stat::KINDS { if t || (si + k.len()) % 3 == 0 || n <= 2 { out.push(format!("pn.spec\tstat\t{k}\t{}", hex(&input))); } }
            for fill in ["nan", "zero", "minus-one", "inf"] { if t || fill == "zero" || n <= 1 { out.push(format!("pn.spec\tfold\t--fill {fill}\t{}", hex(&input))); } }
            out.push(format!("pn.spec\tview\t-\t{}", hex(&input)));
            out.push(format!("pn.spec\tview\t-O npy\t{}", hex(&input)));
            out.push(format!("pn.any\tview\t--mask-monomorphic -n\t{}", hex(&input)));
        }
        // zero-element spectra (some axis of length zero): every single-axis marginalization, the keep form, projection and their
        // combination, through the binary on text input
        if n == 0 && shape.len() >= 2 {
            let input = text_spec(shape, &data);
            for ax in 0..shape.len() {
                out.push(format!("pn.any\tview\t--marginalize-remove {ax}\t{}", hex(&input)));
                out.push(format!("pn.any\tview\t--marginalize-keep {ax} -O npy\t{}", hex(&input)));
                if t || ax == 0 { out.push(format!("pn.any\tview\t-m {ax} --mask-monomorphic -n\t{}", hex(&input))); }
            }
            let ones: Vec<String> = shape.iter().map(|v| (*v).min(1).to_string()).collect();
            out.push(format!("pn.any\tview\t--project-shape {}\t{}", ones.join(","), hex(&input)));
            out.push(format!("pn.any\tfold\t--fill zero -O npy\t{}", hex(&input)));
        }
        // view options on degenerate shapes (all elements >= 1 so that the harness' npy input is readable)
        if n >= 1 && (t || si % 3 == 0) {
            let d = shape.len();
            let rm = if d > 1 { format!("S{}", rng.below(d as u64)) } else { "N".into() };
            let ps: Vec<usize> = shape.iter().enumerate().filter(|(i, _)| rm == "N" || *i != rm[1..].parse::<usize>().unwrap()).map(|(_, v)| rng.range(1, *v as u64) as usize).collect();
            for (m, p, mk, nm) in [(false, false, true, true), (true, false, true, false), (false, true, false, true), (true, true, true, true)] {
                out.push(format!("pn.view\t{}\t{}\t{}\tN\t{}\tN\t{}\t{}", nats(shape), bits(&data), if m { rm.clone() } else { "N".into() },
                    if p { format!("S{}", nats(&if m { ps.clone() } else { shape.iter().map(|v| rng.range(1, *v as u64) as usize).collect() })) } else { "N".into() }, mk as u8, nm as u8));
            }
        }
    }
    // every axis length 2..=260 (thorough 600) once, projected down to two chromosomes and to one less than it has, with all mass in
    // the last cell / spread evenly: sizes on and around powers of two, table ends, cache capacities
    for n in 2..=(if t { 600usize } else { 260 }) {
        let mut last = vec![0.0; n]; last[n - 1] = 5.0;
        out.push(format!("pn.view\t{n}\t{}\tN\tN\tS3\tN\t0\t0", bits(&last)));
        if n % 4 == 1 || t { out.push(format!("pn.view\t{n}\t{}\tN\tN\tS{}\tN\t0\t1", bits(&vec![1.0; n]), n - 1)); }
    }
    // Input::new: path argument vs piped stdin vs SFS_ALLOW_STDIN
    for cmd in ["view", "fold", "stat"] { for p in ["0", "1"] { for e in ["0", "1"] { out.push(format!("pn.input\t{cmd}\t{p}\t{e}")); } } }
    // (b) empty and very short inputs, to all four subcommands
    let shorts: Vec<Vec<u8>> = vec![vec![], b"#".to_vec(), b"#S".to_vec(), b"#SHAP".to_vec(), b"#SHAPE".to_vec(), b"#SHAPE=".to_vec(), b"\x93".to_vec(), b"\x93NUMP".to_vec(), b"\x93NUMPY".to_vec(),
        b"\x93NUMPY\x01".to_vec(), b"\x93NUMPY\x01\x00".to_vec(), b"\x93NUMPY\x01\x00\x00".to_vec(), b"\n".to_vec(), b"\x1f".to_vec(), b"\x1f\x8b".to_vec(), b"\x1f\x8b\x08".to_vec(), b"BCF".to_vec(), b"BCF\x02\x02".to_vec(),
        b"##".to_vec(), b"##fileformat=VCFv4.2\n".to_vec(), b"#CHROM\tPOS\n".to_vec(), b"#SHAPE=<>\n".to_vec(), b"#SHAPE=<1>".to_vec(), b"#SHAPE=<1>\n".to_vec(), b"#SHAPE=<a>\n1\n".to_vec(), b"#SHAPE=</>\n1\n".to_vec(), b"#SHAPE=<1//1>\n1\n".to_vec()];
    for s in &shorts {
        for (cmd, args) in [("view", "-"), ("fold", "-"), ("stat", "-s sum"), ("stat", "-s d-fu-li"), ("create", "-")] { out.push(format!("pn.any\t{cmd}\t{args}\t{}", hex(s))); }
    }
    // (c) absurd declared shapes
    for sh in ["4294967296/4294967296", "0/4294967296/4294967296", "4294967296/4294967296/0", "18446744073709551615", "18446744073709551616", "18446744073709551615/2", "9223372036854775808/2", "0", "0/0", "1/0/3",
               // zero-element spectra whose other axes sit at the limits of usize (the product fits: these are valid, empty arrays)
               "18446744073709551615/1/0", "0/18446744073709551615", "18446744073709551615/0", "9223372036854775808/0/1", "0/9223372036854775807/2", "1/0/18446744073709551615/1",
               "1/1/1/1/1/1/1/1/1/1/1/1/1/1/1/1/1/1/1/1/10", "3/3", "1", "2"] {
        let body = if sh == "3/3" { "1 2 3 4 5 6 7 8 9" } else if sh == "1" { "5" } else if sh == "2" { "5 6" } else if sh.ends_with("/10") { "1 2 3 4 5 6 7 8 9 10" } else { "" };
        let input = format!("#SHAPE=<{sh}>\n{body}\n");
        for (cmd, args) in [("view", "-"), ("view", "-O npy"), ("view", "--mask-monomorphic"), ("view", "-n"), ("fold", "-"), ("stat", "-s sum"), ("stat", "-s s"), ("stat", "-s pi"), ("stat", "-s fst"), ("stat", "-s d-tajima"), ("stat", "-s d-fu-li"), ("stat", "-s king")] {
            out.push(format!("pn.any\t{cmd}\t{args}\t{}", hex(input.as_bytes())));
        }
    }
    // npy files declaring absurd shapes (also products that still fit usize: nothing may be allocated or multiplied out before the data is checked)
    for shape_s in ["(1152921504606846976,)", "(2305843009213693952,)", "(3, 576460752303423488)", "(17592186044416,)", "(4294967296, 4294967296)", "(1152921504606846976, 0)", "(0, 4294967296, 4294967296)",
                    "(18446744073709551615,)", "(9223372036854775807, 2)", "(1, 1, 1, 1, 1, 1, 1, 1, 4611686018427387904)"] {
        for (descr, body_len) in [("<f8", 16usize), ("<i2", 6), ("|u1", 3), (">f4", 0)] {
            let d = format!("{{'descr': '{descr}', 'fortran_order': False, 'shape': {shape_s}, }}");
            let file = io::frame(1, 0, &d, &vec![0u8; body_len], rng, true);
            for (cmd, args) in [("view", "-"), ("fold", "-"), ("stat", "-s sum")] { out.push(format!("pn.any\t{cmd}\t{args}\t{}", hex(&file))); }
        }
    }
    // npy headers declaring degenerate shapes (zero axes as numpy writes a scalar, an empty axis list, a zero-length axis, one
    // element) x every statistic separately (each has its own shape / dimension error message) and the view / fold options
    for (shape_s, body_len) in [("()", 8usize), ("()", 0), ("(,)", 8), ("(0,)", 0), ("(1,)", 8), ("(1, 1)", 8), ("(0, 0)", 0)] {
        let d = format!("{{'descr': '<f8', 'fortran_order': False, 'shape': {shape_s}, }}");
        let mut body = vec![0u8; body_len]; if body_len == 8 { body.copy_from_slice(&7.0f64.to_le_bytes()); }
        let file = io::frame(1, 0, &d, &body, rng, true);
        for k in stat::KINDS { out.push(format!("pn.any\tstat\t-s {k}\t{}", hex(&file))); }
        for (cmd, args) in [("view", "-"), ("view", "-O npy"), ("view", "--mask-monomorphic -n"), ("view", "-m 0"), ("view", "--project-shape 1"), ("fold", "-"), ("fold", "--fill nan -O npy"), ("stat", "-s sum,s,pi")] {
            out.push(format!("pn.any\t{cmd}\t{args}\t{}", hex(&file)));
        }
    }
    for input in ["#SHAPE=<>\n7\n", "#SHAPE=<>\n\n", "#SHAPE=</>\n7\n", "#SHAPE=< >\n7\n"] {
        for k in stat::KINDS { out.push(format!("pn.any\tstat\t-s {k}\t{}", hex(input.as_bytes()))); }
        for (cmd, args) in [("view", "-"), ("view", "-O npy"), ("fold", "-"), ("view", "--mask-monomorphic")] { out.push(format!("pn.any\t{cmd}\t{args}\t{}", hex(input.as_bytes()))); }
    }
    // npy headers with huge axes / long headers
    {
        let mut many_axes = String::from("#SHAPE=<"); many_axes.push_str(&vec!["1"; if t { 22000 } else { 300 }].join("/")); many_axes.push_str(">\n7\n");
        out.push(format!("pn.any\tview\t-O npy\t{}", hex(many_axes.as_bytes())));
        out.push(format!("pn.any\tfold\t-\t{}", hex(many_axes.as_bytes())));
    }
    // (d) option values at and beyond their bounds
    let ok33 = text_spec(&[3, 3], &[1., 2., 3., 4., 5., 6., 7., 8., 9.]);
    for (cmd, args) in [("view", "--precision 65535"), ("view", "--precision 65536"), ("view", "--precision 4294967296"), ("view", "--precision 18446744073709551616"), ("view", "--precision -1"),
                        ("fold", "--precision 65535"), ("fold", "--precision 65536"), ("stat", "-s sum --precision 65535"), ("stat", "-s sum --precision 65536"), ("stat", "-s sum,s --precision 1,2,3"),
                        ("view", "-p 9223372036854775808,1"), ("view", "-p 9223372036854775807,1"), ("view", "-p 18446744073709551615,1"), ("view", "-p 18446744073709551616,1"), ("view", "-p 0,0"), ("view", "-p 1"),
                        ("view", "--project-shape 0,0"), ("view", "--project-shape 18446744073709551615,1"), ("view", "--project-shape 4,1"), ("view", "-m 18446744073709551615"), ("view", "-m 18446744073709551616"),
                        ("view", "-m 0,0"), ("view", "-m 0,1"), ("view", "-M 7"), ("view", "-M 0,1"), ("view", "-m 0 -M 1"), ("view", "-m"), ("view", "-O xyz"), ("stat", "-s nope"), ("stat", "-"), ("fold", "--fill 3"),
                        ("stat", "-s sum -d ab"), ("stat", "-s sum -d \u{e9}"), ("stat", "-s king,r0,r1,f2,fst,pi-xy,s,sum -H"), ("stat", "-s f3 -H")] {
        out.push(format!("pn.any\t{cmd}\t{args}\t{}", hex(&ok33)));
    }
    // (d') axis lists of every form (ascending, descending, adjacent and non-adjacent repeats, out of range, all axes, more than all)
    //      against spectra of one to six axes
    for d in 1..=6usize {
        let shape: Vec<usize> = (0..d).map(|k| 2 + (k % 2)).collect();
        let n: usize = shape.iter().product();
        let input = text_spec(&shape, &(0..n).map(|x| (x % 13) as f64 + 1.0).collect::<Vec<_>>());
        let last = d - 1;
        let mut lists: Vec<String> = vec!["0,1,0".into(), "1,0,1".into(), "0,2,0".into(), format!("{last},0,{last}"), format!("0,{last},0"), "0,1,2,0".into(), "2,1,0".into(), "0,0,1".into(), "1,1".into(),
            format!("{last}"), format!("{d}"), format!("0,{d}"), (0..d).map(|x| x.to_string()).collect::<Vec<_>>().join(","), (0..=d).map(|x| x.to_string()).collect::<Vec<_>>().join(","), "3,1".into(), "1,3,1".into(), "2,0,3,0".into()];
        lists.dedup();
        for l in &lists {
            for flag in ["-m", "-M"] {
                if !t && flag == "-M" && l.len() > 5 && d % 2 == 0 { continue; }
                out.push(format!("pn.any\tview\t{flag} {l} -O npy\t{}", hex(&input)));
            }
        }
    }
    // (d'') npy headers the parser refuses (structured element types, as numpy writes them) that carry characters of two, three and four
    //       bytes at every offset from 60 to 100: a diagnostic that quotes or shortens the header must not cut a character in half
    for ch in ["\u{e9}", "\u{20ac}", "\u{1f9ec}"] {
        for k in 0..(if t { 44usize } else { 24 }) {
            if !t && k % 2 == 1 && ch != "\u{e9}" { continue; }
            let d = format!("{{'descr': [('contig', '<U8'), ('allele_count', '<i8'), ('alleles', '<i8'), ('{}fr{ch}quence', '<f8')], 'fortran_order': False, 'shape': (3,), }}", "x".repeat(k));
            let file = io::frame(3, 0, &d, &[0u8; 24], rng, true);
            let (cmd, args) = [("view", "-"), ("fold", "-"), ("stat", "-s sum"), ("view", "-O npy")][k % 4];
            out.push(format!("pn.any\t{cmd}\t{args}\t{}", hex(&file)));
        }
    }
    // … and text headers with such characters around the shape (the text header error quotes the line)
    for ch in ["\u{e9}", "\u{20ac}", "\u{1f9ec}"] { for k in [0usize, 1, 2, 3, 70, 77, 78, 79, 80] {
        let input = format!("#SHAPE=<3/{}{ch}{ch}x>\n1 2 3\n", "9".repeat(k));
        out.push(format!("pn.any\tview\t-\t{}", hex(input.as_bytes())));
        let input2 = format!("#SHAPE=<3>\n1 {}{ch}{ch} 3\n", "7".repeat(k));
        out.push(format!("pn.any\tstat\t-s sum\t{}", hex(input2.as_bytes())));
    } }
    // (e) create: contradictory / odd sample lists, projections and thread counts on a valid call set
    let cs = vcf::CallSet { cols: vec!["s0".into(), "s1".into(), "s2".into()], extras: false, wide: 0,
        recs: vec![vcf::Record { contig: "1".into(), pos: 5, gts: vec!["0/1".into(), "1/1".into(), "./.".into()], corrupt: None }, vcf::Record { contig: "1".into(), pos: 9, gts: vec!["0|0".into(), "0/1".into(), "1/1".into()], corrupt: None }] };
    let vtext = vcf::vcf_text(&cs);
    for args in ["-s s0=A,,s2=B", "-s ,s0=A", "-s s0=A,,s1=B,,s2=C", "-s s0,,s2", "-s s0=A,,s2=B --project-shape 3,3", "-s s0=,s1=X,s2", "-s s0=A,s1=B,s0=B", "-s s0=A,s1=B,s2=C,s0=C,s1=C", "-s s0,s0,s0", "-s s0=A,s0", "-s =A", "-s s0=", "-s ,", "-s s9", "-s s0=A=B", "-s", "-S /nonexistent/file", "-p 1", "-p 0", "-p 9223372036854775808",
                 "-p 1,1", "--project-shape 0", "--project-shape 8", "--project-shape 18446744073709551615", "-p 1 --strict", "-t 0", "-t 1", "-t 18446744073709551615", "-t -1", "--precision 65536", "--precision 0 -p 1",
                 "-s s0=A,s1=B -p 1", "-s s0=A,s1=B -p 1,1,1", "-s s0=A,s1=B --project-shape 1,1", "--strict"] {
        out.push(format!("pn.any\tcreate\t{args}\t{}", hex(&vtext)));
    }
    // (f) mutation stream over valid inputs
    let (sh_a, da_a) = (vec![3usize, 3], (0..9).map(|x| x as f64 + 0.5).collect::<Vec<_>>());
    let text_a = text_spec(&sh_a, &da_a);
    let text_b = text_spec(&[7], &[5., 1., 0., 2., 0., 1., 9.]);
    let npy_a = crate::npy::write_f8(&[2, 3, 2], &(0..12).map(|x| x as f64).collect::<Vec<_>>());
    let npy_b = crate::npy::write_f8(&[5], &[1., 2., 3., 4., 5.]);
    let mut big_cs = vcf::CallSet { cols: (0..4).map(|i| format!("s{i}")).collect(), extras: true, wide: 0, recs: vec![] };
    for r in 0..12 { big_cs.recs.push(vcf::Record { contig: if r < 6 { "chr1".into() } else { "chr2".into() }, pos: 100 + r, corrupt: None,
        gts: (0..4).map(|c| ["0/0", "0/1", "1|1", "./.", "1/0"][(r + c) % 5].to_string()).collect() }); }
    let vcf_a = vcf::vcf_text(&big_cs);
    let bcf_a = create::container_bytes(&big_cs, "rawbcf", 0).unwrap_or_default();
    // BCF whose records carry a different number of samples than the header names (n_sample and the GT vector wider or narrower):
    // the header of a 5-column BCF rewritten to name 4 (and 3) samples, and a 4-column one to name 5; plain and BGZF
    {
        let mut cs5 = big_cs.clone(); cs5.extras = false; cs5.cols.push("s4".into()); for r in cs5.recs.iter_mut() { r.gts.push("0/1".into()); }
        let mut cs4 = big_cs.clone(); cs4.extras = false;
        let rewrite = |bcf: &[u8], from: &str, to: &str| -> Option<Vec<u8>> {
            let hl = u32::from_le_bytes(bcf.get(5..9)?.try_into().ok()?) as usize;
            let text = String::from_utf8(bcf.get(9..9 + hl)?.to_vec()).ok()?;
            if !text.contains(from) { return None; }
            let t2 = text.replacen(from, to, 1);
            let mut o = bcf[..5].to_vec(); o.extend((t2.len() as u32).to_le_bytes()); o.extend(t2.as_bytes()); o.extend_from_slice(&bcf[9 + hl..]); Some(o)
        };
        let b5 = vcf::raw_bcf_simple(&cs5).unwrap_or_default(); let b4 = vcf::raw_bcf_simple(&cs4).unwrap_or_default();
        let mut variants: Vec<Vec<u8>> = Vec::new();
        for (b, from, to) in [(&b5, "\ts3\ts4\n", "\ts3\n"), (&b5, "\ts2\ts3\ts4\n", "\ts2\n"), (&b4, "\ts3\n", "\ts3\ts4\n"), (&b4, "\ts0\ts1\ts2\ts3\n", "\ts0\n")] {
            if let Some(v) = rewrite(b, from, to) { variants.push(vcf::bgzf(&v, &[], false)); variants.push(v); }
        }
        for v in &variants { for args in ["-", "-s s0=A,s3=B", "-s s0", "-p 1", "--strict"] { out.push(format!("pn.any\tcreate\t{args}\t{}", hex(v))); } }
    }
    let nmut = if t { 50000 } else { 2400 };
    let stat_args = ["-s sum", "-s s", "-s pi,theta", "-s d-tajima", "-s d-fu-li", "-s f2,fst,pi-xy", "-s king,r0,r1", "-s f3", "-s f4"];
    for i in 0..nmut {
        match i % 8 {
            0 | 1 => { let m = mutate(rng, if i % 16 < 8 { &text_a } else { &text_b }, &text_b, true);
                let (cmd, args) = match i % 5 { 0 => ("view", "-"), 1 => ("fold", "-"), 2 => ("view", "-O npy -n"), 3 => ("view", "--mask-monomorphic"), _ => ("stat", *rng.pick(&stat_args)) };
                out.push(format!("pn.any\t{cmd}\t{args}\t{}", hex(&m))); }
            2 | 3 => { let m = mutate(rng, if i % 16 < 8 { &npy_a } else { &npy_b }, &npy_b, false);
                let (cmd, args) = match i % 5 { 0 => ("view", "-"), 1 => ("fold", "-"), 2 => ("view", "-m 0"), 3 => ("view", "--project-shape 1,1,1"), _ => ("stat", *rng.pick(&stat_args)) };
                out.push(format!("pn.any\t{cmd}\t{args}\t{}", hex(&m))); }
            4 | 5 => { let m = mutate(rng, &vcf_a, &text_a, true);
                let args = *rng.pick(&["-", "-s s0=A,s1=A,s2=B", "-p 1", "--strict", "-s s0,s3 --project-shape 3"]);
                out.push(format!("pn.any\tcreate\t{args}\t{}", hex(&m))); }
            6 => { let m = mutate(rng, &bcf_a, &vcf_a, false);
                let args = *rng.pick(&["-", "-s s0=A,s1=A,s2=B", "-p 1"]);
                out.push(format!("pn.any\tcreate\t{args}\t{}", hex(&m))); }
            _ => { // BGZF: the decompressed payload is mutated and re-wrapped in valid blocks
                let base = if i % 16 < 8 { &vcf_a } else { &bcf_a };
                let m = mutate(rng, base, &vcf_a, i % 16 < 8);
                let cut = if m.is_empty() { vec![] } else { vec![rng.below(m.len() as u64) as usize] };
                out.push(format!("pn.any\tcreate\t-\t{}", hex(&vcf::bgzf(&m, &cut, i % 3 == 0)))); }
        }
    }
    let _ = (io::err_kind, shapes::random_shape);
}
