//! Spawning the real `sfs` binary built from /repo.
use std::io::Write;
use std::process::{Command, Stdio};

pub struct Out { pub code: i32, pub stdout: Vec<u8>, pub stderr: String }

/// log verbosity of a run: a function of the invocation (so that a case replays identically), spread over none / -v / -vv / -vvv —
/// neither stdout nor the exit status may depend on it
pub fn with_verbosity(args: &[String], stdin_len: usize) -> Vec<String> {
    use std::hash::{Hash, Hasher};
    if args.is_empty() || args.iter().any(|a| a.starts_with("-v") || a.starts_with("-q") || a == "--verbose" || a == "--quiet") { return args.to_vec(); }
    let mut h = std::collections::hash_map::DefaultHasher::new();
    // file names differ from run to run: hash the options only
    for a in args { if !a.contains('/') { a.hash(&mut h); } }
    stdin_len.hash(&mut h);
    // quiet flags as well, wherever no info-level line is read back (every command but a non-strict `create`, whose summary of skipped
    // sites is an info line): errors are reported whatever the verbosity
    let quiet_ok = args[0] != "create" || args.iter().any(|a| a == "--strict");
    let flag = if quiet_ok { ["", "-q", "-v", "-vv", "-vvv", "-qq", ""][(h.finish() % 7) as usize] } else { ["", "", "-v", "-vv", "-vvv"][(h.finish() % 5) as usize] };
    let mut out = args.to_vec();
    if !flag.is_empty() { out.insert(1, flag.to_string()); }
    out
}

pub fn run_sfs(bin: &str, args: &[String], stdin: &[u8]) -> Out {
    let args = &with_verbosity(args, stdin.len());
    let mut child = Command::new(bin)
        .args(args)
        .env("SFS_ALLOW_STDIN", "1").env("RUST_BACKTRACE", "0")
        .stdin(Stdio::piped()).stdout(Stdio::piped()).stderr(Stdio::piped())
        .spawn().expect("spawn sfs");
    let mut si = child.stdin.take().unwrap();
    let data = stdin.to_vec();
    let w = std::thread::spawn(move || { let _ = si.write_all(&data); });
    let out = child.wait_with_output().expect("wait sfs");
    let _ = w.join();
    Out { code: out.status.code().unwrap_or(-1), stdout: out.stdout, stderr: String::from_utf8_lossy(&out.stderr).into_owned() }
}

/// bytes the process has read so far (`rchar` of /proc/<pid>/io)
fn rchar(pid: u32) -> Option<u64> {
    let s = std::fs::read_to_string(format!("/proc/{pid}/io")).ok()?;
    s.lines().find_map(|l| l.strip_prefix("rchar: ").and_then(|v| v.trim().parse().ok()))
}

/// wait until the process is blocked in a `read` on descriptor 0 (/proc/<pid>/syscall: `<nr> 0x0 …`); false when it has gone, /proc
/// cannot be read, or the wait times out
fn wait_reading_stdin(pid: u32, max_ms: u128) -> bool {
    let nr = if cfg!(target_arch = "aarch64") { "63 0x0 " } else { "0 0x0 " };
    let t0 = std::time::Instant::now();
    while t0.elapsed().as_millis() < max_ms {
        match std::fs::read_to_string(format!("/proc/{pid}/syscall")) {
            Ok(s) => { if s.starts_with(nr) { return true; } }
            Err(_) => return false,
        }
        std::thread::sleep(std::time::Duration::from_millis(1));
    }
    false
}

/// like `run_sfs`, the input arriving on stdin in two pieces with a pause in between (the first `read` ends after `k` bytes)
pub fn run_sfs_split(bin: &str, args: &[String], stdin: &[u8], k: usize) -> Out {
    let args = &with_verbosity(args, stdin.len());
    let mut child = Command::new(bin)
        .args(args)
        .env("SFS_ALLOW_STDIN", "1").env("RUST_BACKTRACE", "0")
        .stdin(Stdio::piped()).stdout(Stdio::piped()).stderr(Stdio::piped())
        .spawn().expect("spawn sfs");
    let mut si = child.stdin.take().unwrap();
    let data = stdin.to_vec(); let k = k.min(data.len());
    let pid = child.id();
    let w = std::thread::spawn(move || {
        // no timing assumptions (the machine may be busy): the first burst is written once the child sits in `read(0, …)`, the second once
        // it has taken the first and sits there again (or has gone); where /proc cannot be read, fall back to pauses
        if wait_reading_stdin(pid, 5000) {
            let r0 = rchar(pid).unwrap_or(0);
            let _ = si.write_all(&data[..k]); let _ = si.flush();
            let t0 = std::time::Instant::now();
            while t0.elapsed().as_millis() < 5000 { match rchar(pid) { Some(r) if r < r0 + k as u64 => std::thread::sleep(std::time::Duration::from_millis(1)), _ => break } }
            let _ = wait_reading_stdin(pid, 5000);
        } else {
            std::thread::sleep(std::time::Duration::from_millis(40));
            let _ = si.write_all(&data[..k]); let _ = si.flush();
            std::thread::sleep(std::time::Duration::from_millis(120));
        }
        let _ = si.write_all(&data[k..]);
    });
    let out = child.wait_with_output().expect("wait sfs");
    let _ = w.join();
    Out { code: out.status.code().unwrap_or(-1), stdout: out.stdout, stderr: String::from_utf8_lossy(&out.stderr).into_owned() }
}

/// outcome class of a process: OK / ERR (diagnosed, exit != 0, no panic) / PANIC
pub fn class(o: &Out) -> &'static str {
    if o.stderr.contains("panicked at") || o.code == 101 || o.code == -1 { "PANIC" } else if o.code == 0 { "OK" } else { "ERR" }
}

/// map the CLI's error text to the model's error tags
pub fn err_tag(stderr: &str) -> String {
    let s = stderr;
    let first_num = |after: &str| -> String {
        s.find(after).map(|i| s[i + after.len()..].chars().take_while(|c| c.is_ascii_digit()).collect()).unwrap_or_default()
    };
    if s.contains("with duplicate axis") { format!("marg-dup {}", first_num("duplicate axis ")) }
    else if s.contains("cannot marginalize axis") { format!("marg-oob {}", first_num("marginalize axis ")) }
    else if s.contains("cannot marginalize a total of") { format!("marg-many {}", first_num("a total of ")) }
    else if s.contains("cannot project from count") { format!("proj-invalid {}", first_num("in dimension ")) }
    else if s.contains("one number of dimensions") { "proj-dims".into() }
    else if s.contains("to or from shape zero") { "proj-zero".into() }
    else if s.contains("cannot project empty counts") { "proj-empty".into() }
    else { format!("other:{}", s.lines().last().unwrap_or("").chars().take(80).collect::<String>()) }
}
