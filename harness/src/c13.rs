//! C13 — `sfs view` option pipeline through the real binary, single invocation vs chained single-option
//! invocations with lossless npy in between.
use crate::{cli, npy, proto::*, rng::Rng, shapes, Ctx};

#[derive(Clone, Default)]
struct Opts { remove: Option<Vec<usize>>, keep: Option<Vec<usize>>, pshape: Option<Vec<usize>>, pind: Option<Vec<usize>>, mask: bool, norm: bool }

fn enc(o: &Opts) -> String {
    let l = |x: &Option<Vec<usize>>| match x { Some(v) => format!("S{}", nats(v)), None => "N".into() };
    format!("{}\t{}\t{}\t{}\t{}\t{}", l(&o.remove), l(&o.keep), l(&o.pshape), l(&o.pind), o.mask as u8, o.norm as u8)
}
fn dec(a: &[&str]) -> Opts {
    let l = |s: &str| if s == "N" { None } else { Some(parse_nats(&s[1..])) };
    Opts { remove: l(a[0]), keep: l(a[1]), pshape: l(a[2]), pind: l(a[3]), mask: a[4] == "1", norm: a[5] == "1" }
}
fn csv(v: &[usize]) -> String { v.iter().map(|x| x.to_string()).collect::<Vec<_>>().join(",") }
fn args_of(o: &Opts) -> Vec<String> {
    let mut a = vec!["view".to_string(), "-O".into(), "npy".into()];
    if let Some(v) = &o.remove { a.push("-m".into()); a.push(csv(v)); }
    if let Some(v) = &o.keep { a.push("-M".into()); a.push(csv(v)); }
    if let Some(v) = &o.pshape { a.push("--project-shape".into()); a.push(csv(v)); }
    if let Some(v) = &o.pind { a.push("-p".into()); a.push(csv(v)); }
    if o.mask { a.push("--mask-monomorphic".into()); }
    if o.norm { a.push("-n".into()); }
    a
}
fn render(o: &cli::Out) -> String {
    match cli::class(o) {
        "OK" => match npy::read_f8(&o.stdout) { Some((s, d)) => format!("OK {}|{}", nats(&s), bits(&d)), None => "OK unparsable-npy".into() },
        "ERR" => format!("ERR {}{}", cli::err_tag(&o.stderr), if o.stdout.is_empty() { "" } else { " +stdout" }),
        _ => format!("PANIC({})", o.stderr.lines().next().unwrap_or("").replace('\t', " ")),
    }
}

pub fn eval(ctx: &Ctx, op: &str, a: &[&str]) -> Option<String> {
    let shape = parse_nats(a[0]);
    let data = parse_bits(a[1]);
    let o = dec(&a[2..8]);
    let input = npy::write_f8(&shape, &data);
    match op {
        "c13.view" => Some(render(&cli::run_sfs(&ctx.sfs_bin, &args_of(&o), &input))),
        // the same, the spectrum arriving on stdin in two bursts (the first one a[8] bytes — shorter than the magic string, inside the header):
        // what a pipeline stage sees when the stage before it writes in pieces
        "c13.views" => Some(render(&cli::run_sfs_split(&ctx.sfs_bin, &args_of(&o), &input, a[8].parse().ok()?))),
        // the same as text at precision a[8]: `sfs view [options] --precision p`
        "c13.viewtext" => {
            let mut args = args_of(&o);
            args.retain(|x| x != "-O" && x != "npy");
            args.push("--precision".into()); args.push(a[8].to_string());
            let out = cli::run_sfs(&ctx.sfs_bin, &args, &input);
            Some(match cli::class(&out) {
                "OK" => format!("OK {}", String::from_utf8_lossy(&out.stdout).replace('\n', "\\n")),
                "ERR" => format!("ERR {}", cli::err_tag(&out.stderr)),
                _ => format!("PANIC({})", out.stderr.lines().next().unwrap_or("").replace('\t', " ")),
            })
        }
        "c13.chain" => {
            // marginalize > project > mask > normalize as separate invocations, npy in between
            let stages = [
                Opts { remove: o.remove.clone(), keep: o.keep.clone(), ..Default::default() },
                Opts { pshape: o.pshape.clone(), pind: o.pind.clone(), ..Default::default() },
                Opts { mask: o.mask, ..Default::default() },
                Opts { norm: o.norm, ..Default::default() },
            ];
            let mut cur = input;
            let mut last = None;
            for st in stages.iter() {
                let out = cli::run_sfs(&ctx.sfs_bin, &args_of(st), &cur);
                if cli::class(&out) != "OK" { return Some(render(&out)); }
                cur = out.stdout.clone();
                last = Some(out);
            }
            Some(render(&last.unwrap()))
        }
        _ => None,
    }
}

pub fn gen(ctx: &Ctx, rng: &mut Rng, out: &mut Vec<String>) {
    // text output longer than any block or buffer a writer is likely to use (value lines of 64 KiB, 128 KiB and more): the plain view
    // reproduces the input, with and without an option that leaves the number of entries alone
    for (i, (shape, p)) in [(vec![21usize, 21, 21], 6usize), (vec![9500], 5), (vec![130, 130], 6), (vec![1300], 60)].into_iter().enumerate() {
        if !ctx.tier_thorough && i >= 2 { continue; }
        let n: usize = shape.iter().product();
        let data: Vec<f64> = (0..n).map(|j| ((j * 7 + i) % 211) as f64 + if j % 3 == 0 { 0.5 } else { 0.0 }).collect();
        for (mask, norm) in [(false, false), (true, false), (false, true)] {
            if !ctx.tier_thorough && norm && i == 1 { continue; }
            let o = Opts { mask, norm, ..Default::default() };
            out.push(format!("c13.viewtext\t{}\t{}\t{}\t{p}", nats(&shape), bits(&data), enc(&o)));
        }
    }
    // text with 16-18 significant digits and whole numbers beyond 2^40 handed from one `view` to the next (text -> npy -> text at the same
    // precision reproduces the text; `view` of such text prints it back)
    for (i, p) in [17usize, 16, 18, 6, 9].into_iter().enumerate() {
        let data = vec![0.23333333333333334f64, 0.18888888888888888, 0.1, 0.7, 1000000000001.0, 600000000007.0, 0.30000000000000004, 9007199254740993.0, 4503599627370497.5, 123456789.12345679];
        out.push(format!("io.t2n2t\t2,5\t{}\t{p}", bits(&data)));
        if i < 3 { out.push(format!("io.textrt\t10\t{}\t{p}", bits(&data))); }
    }
    // normalisation (and masking + normalisation) of spectra with more than 2^16 entries, as npy
    for (i, shape) in [vec![257usize, 257], vec![65537], vec![100001]].into_iter().enumerate() {
        if !ctx.tier_thorough && i == 2 { continue; }
        let n: usize = shape.iter().product();
        let data: Vec<f64> = (0..n).map(|j| ((j * 13 + i) % 97) as f64 + if j + 300 > n { 50.0 } else { 0.0 }).collect();
        for mask in [false, true] { let o = Opts { mask, norm: true, ..Default::default() }; out.push(format!("c13.view\t{}\t{}\t{}", nats(&shape), bits(&data), enc(&o))); }
    }
    let nspec = if ctx.tier_thorough { 400 } else { 40 };
    for si in 0..nspec {
        let shape = if si < 6 { vec![vec![3], vec![2, 3], vec![3, 3, 2], vec![2, 2, 3, 2], vec![1, 4], vec![5, 1, 2]][si].clone() }
                    else { shapes::random_shape(rng, 1, 4, 1, 6, 300) };
        let d = shape.len();
        let n: usize = shape.iter().product();
        // non-negative counts, a few zeros
        let mut data: Vec<f64> = (0..n).map(|_| if rng.chance(1, 6) { 0.0 } else { rng.range(1, 200) as f64 }).collect();
        // a fifth of the inputs are already on frequency scale (dyadic fractions summing to exactly one, non-zero corners: what an
        // earlier `view -n` produced), another tenth sum to one only after masking, another tenth are all zero except the corners
        match si % 10 {
            3 | 8 => {
                let mut w: Vec<u64> = (0..n).map(|_| if rng.chance(1, 4) { 0 } else { rng.range(1, 9) }).collect();
                w[0] = w[0].max(1); w[n - 1] = w[n - 1].max(1);
                let tot: u64 = w.iter().sum(); let k = 1024 / tot.max(1);
                // scale to integers summing to 1024, the remainder goes to the first cell
                let mut v: Vec<u64> = w.iter().map(|x| x * k).collect(); let s2: u64 = v.iter().sum(); v[0] += 1024 - s2;
                data = v.iter().map(|x| *x as f64 / 1024.0).collect();
            }
            5 if n > 2 => {
                let inner: f64 = data[1..n - 1].iter().sum();
                if inner > 0.0 { let c = 256.0 / inner; for x in data[1..n - 1].iter_mut() { *x = (*x * c).round() / 256.0; } let s2: f64 = data[1..n - 1].iter().sum(); data[1] += 1.0 - s2; data[0] = 0.5; data[n - 1] = 0.25; }
            }
            7 => { for x in data.iter_mut() { *x = 0.0; } data[0] = 3.0; data[n - 1] = 1.0; }
            // monomorphic cells that dwarf everything else (2^53, 1e18, 1e300) next to small interior counts: masking then normalising
            // must give the interior fractions, whatever the grand total was
            1 | 6 if n > 2 => { let big = [9007199254740992.0f64, 1e18, 1e300, 4503599627370496.0][si % 4]; data[0] = big; data[n - 1] = if si % 3 == 0 { big } else { 7.0 }; for x in data[1..n - 1].iter_mut() { *x = (*x).min(9.0); } if data[1..n - 1].iter().all(|x| *x == 0.0) { data[1] = 1.0; } }
            _ => {}
        }
        for subset in 0u32..16 {
            let mut o = Opts::default();
            let mut cur_shape = shape.clone();
            if subset & 1 != 0 {
                // admissible marginalization set (sometimes inadmissible: error stream)
                let bad = rng.chance(1, 12);
                let k = if d == 1 { if bad { 1 } else { 0 } } else { rng.range(1, (d - 1) as u64) as usize };
                let mut axes: Vec<usize> = (0..d).collect(); rng.shuffle(&mut axes); axes.truncate(k);
                if bad && d > 1 { axes.push(if rng.chance(1, 2) { axes[0] } else { d + rng.below(2) as usize }); }
                if axes.is_empty() { /* 1-D: nothing admissible; skip the option */ }
                else if rng.chance(1, 2) {
                    let keep: Vec<usize> = { let mut kk: Vec<usize> = (0..d).filter(|i| !axes.contains(i)).collect(); rng.shuffle(&mut kk); kk };
                    if !bad && !keep.is_empty() {
                        cur_shape = (0..d).filter(|i| keep.contains(i)).map(|i| shape[i]).collect();
                        // the keep list is a set: an axis named twice (adjacent or not), or an axis the spectrum does not have, changes nothing
                        let mut keep = keep;
                        match rng.below(5) { 0 => { let k0 = keep[0]; keep.push(k0); } 1 => { let kl = *keep.last().unwrap(); keep.insert(0, kl); } 2 => { keep.push(d + rng.below(3) as usize); } _ => {} }
                        o.keep = Some(keep);
                    }
                    else { o.remove = Some(axes.clone()); if !bad { cur_shape = (0..d).filter(|i| !axes.contains(i)).map(|i| shape[i]).collect(); } }
                } else {
                    o.remove = Some(axes.clone());
                    if !bad { cur_shape = (0..d).filter(|i| !axes.contains(i)).map(|i| shape[i]).collect(); }
                }
            }
            if subset & 2 != 0 {
                let bad = rng.chance(1, 12);
                if rng.chance(1, 2) && cur_shape.iter().all(|v| v % 2 == 1) {
                    let ind: Vec<usize> = cur_shape.iter().map(|v| { let m = (v - 1) / 2; if bad { m + 1 } else { rng.range(0, m as u64) as usize } }).collect();
                    o.pind = Some(ind);
                } else {
                    let mut t: Vec<usize> = cur_shape.iter().map(|v| rng.range(1, *v as u64) as usize).collect();
                    if bad { match rng.below(3) { 0 => { t[0] = cur_shape[0] + 1; } 1 => { t.push(1); } _ => { t[0] = 0; } } }
                    o.pshape = Some(t);
                }
            }
            o.mask = subset & 4 != 0;
            o.norm = subset & 8 != 0;
            let line = format!("{}\t{}\t{}", nats(&shape), bits(&data), enc(&o));
            out.push(format!("c13.view\t{line}"));
            if subset.count_ones() >= 2 || ctx.tier_thorough { out.push(format!("c13.chain\t{line}")); }
            if (si + subset as usize) % 8 == 3 { out.push(format!("c13.views\t{line}\t{}", [1usize, 2, 3, 5, 7, 64, 129][(si / 2 + subset as usize) % 7])); }
            if (si + subset as usize) % 4 == 0 { out.push(format!("c13.viewtext\t{line}\t{}", *rng.pick(&[0usize, 1, 3, 6, 12, 15]))); }
        }
    }
}
