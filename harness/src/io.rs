//! Spectrum I/O cases shared by C07, C15, C16, C18 (and C17): the real npy / text writers and readers in-process,
//! over whole buffers, chunk-scheduled / failing `BufRead`s and short-writing / failing `Write`s, the genotype
//! reader over a chunk-scheduled stream (hook `build_from_bufread`), and the `sfs` binary on pipes and files.
use crate::{cli, create, proto::*, rng::Rng, shapes, vcf, Ctx};
use sfs_core::spectrum::io::{read, verif_detect_format, verif_read_text, write, Format};
use sfs_core::{Array, Input, Scs};
use std::io::{self, BufRead, Read, Write};

// ---------- readers / writers with a schedule ----------

/// hands out the data according to a chunk schedule; fails once `fail_at` bytes have been delivered
pub struct ChunkRd { pub data: Vec<u8>, pub pos: usize, pub sched: Vec<usize>, pub k: usize, pub cur_end: usize, pub fail_at: Option<usize> }
impl ChunkRd {
    pub fn new(data: Vec<u8>, sched: Vec<usize>, fail_at: Option<usize>) -> Self { ChunkRd { data, pos: 0, sched, k: 0, cur_end: 0, fail_at } }
}
impl Read for ChunkRd {
    fn read(&mut self, buf: &mut [u8]) -> io::Result<usize> {
        let n = { let a = self.fill_buf()?; let n = a.len().min(buf.len()); buf[..n].copy_from_slice(&a[..n]); n };
        self.consume(n);
        Ok(n)
    }
}
/// the kind of an injected failure varies with the offset (a caller must treat every kind as a failure)
fn injected_kind(pos: usize) -> io::ErrorKind {
    [io::ErrorKind::Other, io::ErrorKind::BrokenPipe, io::ErrorKind::ConnectionReset, io::ErrorKind::PermissionDenied, io::ErrorKind::TimedOut,
     io::ErrorKind::WouldBlock, io::ErrorKind::ConnectionAborted][pos % 7]
}
impl BufRead for ChunkRd {
    fn fill_buf(&mut self) -> io::Result<&[u8]> {
        if self.pos < self.cur_end { return Ok(&self.data[self.pos..self.cur_end]); }
        if self.fail_at == Some(self.pos) { return Err(io::Error::new(injected_kind(self.pos), "injected read failure")); }
        if self.pos >= self.data.len() { return Ok(&[]); }
        let remaining = self.data.len() - self.pos;
        let mut c = self.sched.get(self.k).copied().unwrap_or(remaining).max(1).min(remaining);
        self.k += 1;
        if let Some(f) = self.fail_at { if f > self.pos { c = c.min(f - self.pos); } }
        self.cur_end = self.pos + c;
        Ok(&self.data[self.pos..self.cur_end])
    }
    fn consume(&mut self, n: usize) { self.pos += n; }
}

/// accepts a scheduled number of bytes per `write`; fails once `fail_at` bytes have been accepted
pub struct ShortWr { pub out: Vec<u8>, pub sched: Vec<usize>, pub k: usize, pub fail_at: Option<usize> }
impl Write for ShortWr {
    fn write(&mut self, buf: &[u8]) -> io::Result<usize> {
        if self.fail_at == Some(self.out.len()) {
            return if buf.is_empty() { Ok(0) } else { Err(io::Error::new(injected_kind(self.out.len()), "injected write failure")) };
        }
        let mut c = self.sched.get(self.k).copied().unwrap_or(buf.len()).max(1).min(buf.len());
        self.k += 1;
        if let Some(f) = self.fail_at { c = c.min(f - self.out.len()); }
        self.out.extend_from_slice(&buf[..c]);
        Ok(c)
    }
    fn flush(&mut self) -> io::Result<()> { Ok(()) }
    // a sink with native scatter/gather support: the per-call limit applies to the buffers taken together (first buffer whole and
    // part of the second, …), which is what line-buffered stdout, sockets and files do
    fn write_vectored(&mut self, bufs: &[io::IoSlice<'_>]) -> io::Result<usize> {
        let total: usize = bufs.iter().map(|b| b.len()).sum();
        if self.fail_at == Some(self.out.len()) {
            return if total == 0 { Ok(0) } else { Err(io::Error::new(injected_kind(self.out.len()), "injected write failure")) };
        }
        let mut c = self.sched.get(self.k).copied().unwrap_or(total).max(1).min(total);
        self.k += 1;
        if let Some(f) = self.fail_at { c = c.min(f - self.out.len()); }
        let mut left = c;
        for b in bufs { let n = left.min(b.len()); self.out.extend_from_slice(&b[..n]); left -= n; if left == 0 { break; } }
        Ok(c)
    }
}

pub fn err_kind(e: &io::Error) -> String {
    match e.kind() {
        io::ErrorKind::UnexpectedEof => "eof".into(),
        io::ErrorKind::InvalidData | io::ErrorKind::InvalidInput => "invalid".into(),
        io::ErrorKind::Other | io::ErrorKind::WriteZero | io::ErrorKind::BrokenPipe | io::ErrorKind::ConnectionReset | io::ErrorKind::PermissionDenied
        | io::ErrorKind::TimedOut | io::ErrorKind::WouldBlock | io::ErrorKind::ConnectionAborted => "io".into(),
        k => format!("other:{k:?}"),
    }
}

fn render_arr(a: &Array<f64>) -> String { format!("{}|{}", nats(a.shape()), bits(a.as_slice())) }
fn render_scs(s: &Scs) -> String { render_arr(s.inner()) }

fn parse_sched(s: &str) -> Vec<usize> { parse_nats(s) }
fn parse_fail(s: &str) -> Option<usize> { if s == "N" { None } else { s.parse().ok() } }

fn mk_scs(shape: &[usize], data: &[f64]) -> Option<Scs> { Scs::new(data.to_vec(), shape.to_vec()).ok() }

fn tmp_path(ctx: &Ctx, a: &[&str], ext: &str) -> String {
    use std::hash::{Hash, Hasher};
    let mut h = std::collections::hash_map::DefaultHasher::new();
    a.hash(&mut h); std::thread::current().id().hash(&mut h); ext.hash(&mut h);
    std::fs::create_dir_all(format!("{}/tmp", ctx.work)).ok();
    // file names say nothing about file contents: the extension rotates over conventional ones (whatever format the file holds),
    // an upper-case one, a double one, none that means anything
    let hv = h.finish();
    let ext = [ext, "npy", "txt", "sfs", "NPY", "saf.npy", "npy.txt", "gz"][(hv % 8) as usize];
    format!("{}/tmp/io{:016x}.{ext}", ctx.work, hv)
}

fn cli_render(o: &cli::Out) -> String {
    let class = cli::class(o);
    let panic = if class == "PANIC" { format!("|panic={}", o.stderr.lines().find(|l| l.contains("panicked")).unwrap_or("").replace('\t', " ")) } else { String::new() };
    format!("{class}|{}|{}{panic}", o.code, hex(&o.stdout))
}

fn fmt_args(s: &str) -> Vec<String> { if s == "-" || s.is_empty() { vec![] } else { s.split(' ').map(|x| x.to_string()).collect() } }

pub fn eval(ctx: &Ctx, op: &str, a: &[&str]) -> Option<String> {
    match op {
        // write::Builder (npy) into a Vec, then Array::read_npy of what was written
        "io.npyrt" => {
            let (shape, data) = (parse_nats(a[0]), parse_bits(a[1]));
            let scs = match mk_scs(&shape, &data) { Some(s) => s, None => return Some("NOSPECTRUM".into()) };
            let mut buf = Vec::new();
            match write::Builder::default().set_format(Format::Npy).write(&mut buf, &scs) {
                Err(e) => Some(format!("WERR {}|{}", err_kind(&e), hex(&buf))),
                Ok(()) => match Array::read_npy(&buf[..]) {
                    Ok(arr) => Some(format!("OK {}|{}", hex(&buf), render_arr(&arr))),
                    Err(e) => Some(format!("RERR {}|{}", err_kind(&e), hex(&buf))),
                },
            }
        }
        // write::Builder (text, precision p), then the text reader on what was written
        "io.textrt" => {
            let (shape, data, p) = (parse_nats(a[0]), parse_bits(a[1]), a[2].parse::<usize>().ok()?);
            let scs = match mk_scs(&shape, &data) { Some(s) => s, None => return Some("NOSPECTRUM".into()) };
            let mut buf = Vec::new();
            match write::Builder::default().set_format(Format::Text).set_precision(p).write(&mut buf, &scs) {
                Err(e) => Some(format!("WERR {}", err_kind(&e))),
                Ok(()) => match verif_read_text(&mut &buf[..]) {
                    Ok(s) => Some(format!("OK {}|{}", hex(&buf), render_scs(&s))),
                    Err(e) => Some(format!("RERR {}|{}", err_kind(&e), hex(&buf))),
                },
            }
        }
        "io.npyread" | "io.npread3" => {
            let bytes = parse_hex(a[0]);
            Some(match Array::read_npy(&bytes[..]) { Ok(arr) => format!("OK {}", render_arr(&arr)), Err(e) => format!("ERR {}", err_kind(&e)) })
        }
        "io.textread" => {
            let bytes = parse_hex(a[0]);
            Some(match verif_read_text(&mut &bytes[..]) { Ok(s) => format!("OK {}", render_scs(&s)), Err(e) => format!("ERR {}", err_kind(&e)) })
        }
        // the real read::Builder (read_to_end + Format::detect + reader) on a file
        "io.specread" => {
            let bytes = parse_hex(a[0]);
            let path = tmp_path(ctx, a, "spec");
            std::fs::write(&path, &bytes).ok()?;
            let r = read::Builder::default().set_input(Input::Path(path.clone().into())).read();
            let _ = std::fs::remove_file(&path);
            Some(match r { Ok(s) => format!("OK {}", render_scs(&s)), Err(e) => format!("ERR {}", err_kind(&e)) })
        }
        "io.detect" => {
            let bytes = parse_hex(a[0]);
            Some(match verif_detect_format(&bytes) { Some(Format::Npy) => "N".into(), Some(Format::Text) => "T".into(), None => "-".into() })
        }
        // std: `{:.p}` and `f64::from_str`
        "io.fmt" => {
            let (v, p) = (parse_bits(a[0]), a[1].parse::<usize>().ok()?);
            Some(hex(format!("{:.*}", p, v[0]).as_bytes()))
        }
        "io.parse" => {
            let s = String::from_utf8(parse_hex(a[0])).ok()?;
            Some(match s.parse::<f64>() { Ok(v) => format!("OK {:016x}", v.to_bits()), Err(_) => "ERR".into() })
        }
        // readers over a chunk-scheduled / failing BufRead
        "io.rdnpy" => {
            let rd = ChunkRd::new(parse_hex(a[0]), parse_sched(a[1]), parse_fail(a[2]));
            Some(match Array::read_npy(rd) { Ok(arr) => format!("OK {}", render_arr(&arr)), Err(e) => format!("ERR {}", err_kind(&e)) })
        }
        "io.rdtext" => {
            let mut rd = ChunkRd::new(parse_hex(a[0]), parse_sched(a[1]), parse_fail(a[2]));
            Some(match verif_read_text(&mut rd) { Ok(s) => format!("OK {}", render_scs(&s)), Err(e) => format!("ERR {}", err_kind(&e)) })
        }
        // write::Builder into a short-writing / failing writer:  fmt shape bits p sched fail
        "io.wr" => {
            let (shape, data, p) = (parse_nats(a[1]), parse_bits(a[2]), a[3].parse::<usize>().ok()?);
            let scs = match mk_scs(&shape, &data) { Some(s) => s, None => return Some("NOSPECTRUM".into()) };
            let mut w = ShortWr { out: Vec::new(), sched: parse_sched(a[4]), k: 0, fail_at: parse_fail(a[5]) };
            let b = write::Builder::default().set_format(if a[0] == "npy" { Format::Npy } else { Format::Text }).set_precision(p);
            Some(match b.write(&mut w, &scs) { Ok(()) => format!("OK {}", hex(&w.out)), Err(e) => format!("ERR {}", err_kind(&e)) })
        }
        // genotype reader over a chunk-scheduled stream (hook): container layout extras cols samples project records sched fail
        "io.geno" => Some(eval_geno(a)),
        // the binary: cmd args stdin-hex  (args separated by single spaces)
        "io.cmd" => {
            let mut args = vec![a[0].to_string()];
            args.extend(fmt_args(a[1]));
            let o = cli::run_sfs(&ctx.sfs_bin, &args, &parse_hex(a[2]));
            Some(cli_render(&o))
        }
        // the same with stdin delivering the bytes in two bursts, the first one `k` bytes long (a producer that pauses: the reader's first
        // `read` returns short, the rest arrives later):  io.cmds cmd args hexbytes k
        "io.cmds" => {
            let mut args = vec![a[0].to_string()];
            args.extend(fmt_args(a[1]));
            let o = cli::run_sfs_split(&ctx.sfs_bin, &args, &parse_hex(a[2]), a[3].parse().ok()?);
            Some(cli_render(&o))
        }
        // the same with the input given as a PATH to a regular file (no stdin):  io.cmdp cmd args hexbytes
        "io.cmdp" => {
            let path = tmp_path(ctx, a, "inp");
            std::fs::write(&path, parse_hex(a[2])).ok()?;
            let mut args = vec![a[0].to_string()];
            args.extend(fmt_args(a[1]));
            args.push(path.clone());
            let o = cli::run_sfs(&ctx.sfs_bin, &args, &[]);
            let _ = std::fs::remove_file(&path);
            Some(cli_render(&o))
        }
        // writing to a device that fails every write:  io.devfull cmd args shape bits   (`-o /dev/full`)
        "io.devfull" => {
            let input = crate::npy::write_f8(&parse_nats(a[2]), &parse_bits(a[3]));
            let mut args = vec![a[0].to_string()]; args.extend(fmt_args(a[1]));
            args.push("-o".into()); args.push("/dev/full".into());
            if !std::path::Path::new("/dev/full").exists() { return Some("NO-DEV-FULL".into()); }
            Some(cli_render(&cli::run_sfs(&ctx.sfs_bin, &args, &input)))
        }
        // stdout is a pipe whose reading end is already closed (EPIPE on the first write):  io.epipe cmd args shape bits
        "io.epipe" => {
            use std::io::Write as _;
            use std::process::{Command, Stdio};
            let input = crate::npy::write_f8(&parse_nats(a[2]), &parse_bits(a[3]));
            let mut args = vec![a[0].to_string()]; args.extend(fmt_args(a[1]));
            let mut child = Command::new(&ctx.sfs_bin).args(&args).env("SFS_ALLOW_STDIN", "1").env("RUST_BACKTRACE", "0")
                .stdin(Stdio::piped()).stdout(Stdio::piped()).stderr(Stdio::piped()).spawn().ok()?;
            drop(child.stdout.take());                     // close the reading end before the child has anything to write
            let mut si = child.stdin.take()?;
            let _ = si.write_all(&input); drop(si);
            let o = child.wait_with_output().ok()?;
            let stderr = String::from_utf8_lossy(&o.stderr).into_owned();
            let code = o.status.code().unwrap_or(-1);
            let class = if stderr.contains("panicked at") || code == 101 || code == -1 { "PANIC" } else if code == 0 { "OK" } else { "ERR" };
            Some(format!("{class}|{code}"))
        }
        // stdout is a regular file that cannot grow beyond `limit` bytes (RLIMIT_FSIZE, SIGXFSZ ignored: the write that crosses the limit
        // is cut short or fails with EFBIG — a full disk, a quota):  io.fsize fmt p shape bits limit
        "io.fsize" => {
            use std::io::Write as _;
            use std::process::{Command, Stdio};
            let input = crate::npy::write_f8(&parse_nats(a[2]), &parse_bits(a[3]));
            let path = tmp_path(ctx, a, "lim");
            let script = "import resource,signal,os,sys\nL=int(sys.argv[1])\nsignal.signal(signal.SIGXFSZ, signal.SIG_IGN)\nfd=os.open(sys.argv[2], os.O_WRONLY|os.O_CREAT|os.O_TRUNC, 0o644)\nos.dup2(fd,1)\nresource.setrlimit(resource.RLIMIT_FSIZE,(L,L))\nos.execv(sys.argv[3], sys.argv[3:])\n";
            let mut child = match Command::new("python3").arg("-c").arg(script).arg(a[4]).arg(&path).arg(&ctx.sfs_bin)
                .args(["view", "-O", a[0], "--precision", a[1]]).env("SFS_ALLOW_STDIN", "1").env("RUST_BACKTRACE", "0")
                .stdin(Stdio::piped()).stdout(Stdio::null()).stderr(Stdio::piped()).spawn() { Ok(c) => c, Err(_) => return Some("NO-PYTHON".into()) };
            let mut si = child.stdin.take()?;
            let _ = si.write_all(&input); drop(si);
            let o = child.wait_with_output().ok()?;
            let stderr = String::from_utf8_lossy(&o.stderr).into_owned();
            let code = o.status.code().unwrap_or(-1);
            let written = std::fs::read(&path).unwrap_or_default();
            let _ = std::fs::remove_file(&path);
            if stderr.contains("Traceback") { return Some("NO-PYTHON".into()); }
            let class = if stderr.contains("panicked at") || code == 101 || code == -1 { "PANIC" } else if code == 0 { "OK" } else { "ERR" };
            Some(format!("{class}|{code}|{}", hex(&written)))
        }
        // the same limit on a regular file given with `-o PATH` (a full disk / quota under the output file):  io.fsizeo cmd fmt p shape bits limit
        "io.fsizeo" => {
            use std::io::Write as _;
            use std::process::{Command, Stdio};
            let input = crate::npy::write_f8(&parse_nats(a[3]), &parse_bits(a[4]));
            let path = tmp_path(ctx, a, "olim");
            let _ = std::fs::remove_file(&path);
            let script = "import resource,signal,os,sys\nL=int(sys.argv[1])\nsignal.signal(signal.SIGXFSZ, signal.SIG_IGN)\nresource.setrlimit(resource.RLIMIT_FSIZE,(L,L))\nos.execv(sys.argv[2], sys.argv[2:])\n";
            let mut cmdargs: Vec<String> = vec![a[0].to_string()];
            if a[0] == "view" { cmdargs.extend(["-O".to_string(), a[1].to_string()]); }
            cmdargs.extend(["--precision".to_string(), a[2].to_string(), "-o".to_string(), path.clone()]);
            let mut child = match Command::new("python3").arg("-c").arg(script).arg(a[5]).arg(&ctx.sfs_bin).args(&cmdargs).env("SFS_ALLOW_STDIN", "1").env("RUST_BACKTRACE", "0")
                .stdin(Stdio::piped()).stdout(Stdio::piped()).stderr(Stdio::piped()).spawn() { Ok(c) => c, Err(_) => return Some("NO-PYTHON".into()) };
            let mut si = child.stdin.take()?;
            let _ = si.write_all(&input); drop(si);
            let o = child.wait_with_output().ok()?;
            let stderr = String::from_utf8_lossy(&o.stderr).into_owned();
            let code = o.status.code().unwrap_or(-1);
            let written = std::fs::read(&path).ok();
            let _ = std::fs::remove_file(&path);
            if stderr.contains("Traceback") { return Some("NO-PYTHON".into()); }
            let class = if stderr.contains("panicked at") || code == 101 || code == -1 { "PANIC" } else if code == 0 { "OK" } else { "ERR" };
            Some(format!("{class}|{code}|{}|{}", match &written { Some(w) => hex(w), None => "NOFILE".into() }, if o.stdout.is_empty() { "-" } else { "+stdout" }))
        }
        // history of an output path: write a long result to PATH, then a shorter one to the same PATH, read PATH back
        //   io.overwrite fmt p shape1 bits1 shape2 bits2
        "io.overwrite" => {
            let path = tmp_path(ctx, a, "over");
            let mut last = None;
            for (sh, bs) in [(a[2], a[3]), (a[4], a[5])] {
                let input = crate::npy::write_f8(&parse_nats(sh), &parse_bits(bs));
                let args = vec!["view".to_string(), "-O".into(), a[0].to_string(), "--precision".into(), a[1].to_string(), "-o".into(), path.clone()];
                let o = cli::run_sfs(&ctx.sfs_bin, &args, &input);
                if cli::class(&o) != "OK" { let _ = std::fs::remove_file(&path); return Some(format!("WRITE {}", cli_render(&o))); }
                last = Some(std::fs::read(&path).unwrap_or_default());
            }
            let content = last?;
            let o = cli::run_sfs(&ctx.sfs_bin, &["view".to_string(), "-O".into(), "npy".into(), path.clone()], &[]);
            let _ = std::fs::remove_file(&path);
            Some(format!("FILE {}|{}", hex(&content), cli_render(&o)))
        }
        // two-stage: `sfs view <stage1 args>` on an npy input carrying the exact bits, to a pipe or a file, then stage 2 reads it
        //   io.pipe stage1args transport stage2cmd stage2args shape bits
        "io.pipe" => {
            let (shape, data) = (parse_nats(a[4]), parse_bits(a[5]));
            let input = crate::npy::write_f8(&shape, &data);
            let mut args1 = vec!["view".to_string()]; args1.extend(fmt_args(a[0]));
            let path = tmp_path(ctx, a, "mid");
            if a[1] == "file" { args1.push("-o".into()); args1.push(path.clone()); }
            let o1 = cli::run_sfs(&ctx.sfs_bin, &args1, &input);
            if cli::class(&o1) != "OK" { let _ = std::fs::remove_file(&path); return Some(format!("STAGE1 {}", cli_render(&o1))); }
            let mid = if a[1] == "file" { std::fs::read(&path).unwrap_or_default() } else { o1.stdout.clone() };
            let mut args2 = vec![a[2].to_string()]; args2.extend(fmt_args(a[3]));
            let o2 = if a[1] == "file" { args2.push(path.clone()); cli::run_sfs(&ctx.sfs_bin, &args2, &[]) }
                     else if a[1] == "fifo" {
                         // the spectrum reaches the second command through a named pipe given as its input PATH (`sfs view <(…)`)
                         let fifo = format!("{path}.fifo"); let _ = std::fs::remove_file(&fifo);
                         if !std::process::Command::new("mkfifo").arg(&fifo).status().map(|s| s.success()).unwrap_or(false) { return Some("NO-FIFO".into()); }
                         let (f2, data) = (fifo.clone(), mid.clone());
                         std::thread::spawn(move || { use std::io::Write; if let Ok(mut f) = std::fs::OpenOptions::new().write(true).open(&f2) { let _ = f.write_all(&data); } });
                         args2.push(fifo.clone());
                         let o = cli::run_sfs(&ctx.sfs_bin, &args2, &[]);
                         let _ = std::fs::remove_file(&fifo); o
                     }
                     else if let Some(k) = a[1].strip_prefix("split") { cli::run_sfs_split(&ctx.sfs_bin, &args2, &mid, k.parse().unwrap_or(1)) }
                     else { cli::run_sfs(&ctx.sfs_bin, &args2, &mid) };
            let _ = std::fs::remove_file(&path);
            Some(format!("MID {}|{}", hex(&mid), cli_render(&o2)))
        }
        // text(p) -> npy -> text(p):   io.t2n2t shape bits p
        "io.t2n2t" => {
            let (shape, data, p) = (parse_nats(a[0]), parse_bits(a[1]), a[2]);
            let input = crate::npy::write_f8(&shape, &data);
            let pa = |extra: &[&str]| -> Vec<String> { let mut v = vec!["view".to_string(), "--precision".into(), p.to_string()]; v.extend(extra.iter().map(|s| s.to_string())); v };
            let o0 = cli::run_sfs(&ctx.sfs_bin, &pa(&[]), &input);
            if cli::class(&o0) != "OK" { return Some(format!("STAGE0 {}", cli_render(&o0))); }
            let o1 = cli::run_sfs(&ctx.sfs_bin, &pa(&["-O", "npy"]), &o0.stdout);
            if cli::class(&o1) != "OK" { return Some(format!("STAGE1 {}", cli_render(&o1))); }
            let o2 = cli::run_sfs(&ctx.sfs_bin, &pa(&[]), &o1.stdout);
            if cli::class(&o2) != "OK" { return Some(format!("STAGE2 {}", cli_render(&o2))); }
            Some(format!("OK {}|{}", hex(&o0.stdout), hex(&o2.stdout)))
        }
        // numpy loads what sfs wrote:  io.npload shape bits
        "io.npload" => {
            let (shape, data) = (parse_nats(a[0]), parse_bits(a[1]));
            let scs = match mk_scs(&shape, &data) { Some(s) => s, None => return Some("NOSPECTRUM".into()) };
            let path = tmp_path(ctx, a, "npy");
            let mut buf = Vec::new();
            if let Err(e) = write::Builder::default().set_format(Format::Npy).write(&mut buf, &scs) { return Some(format!("WERR {}", err_kind(&e))); }
            std::fs::write(&path, &buf).ok()?;
            let out = std::process::Command::new("python3-vt").arg(format!("{}/../tools/npy_oracle.py", ctx.work)).arg("load").arg(&path).output();
            let _ = std::fs::remove_file(&path);
            match out {
                Ok(o) if o.status.success() => Some(String::from_utf8_lossy(&o.stdout).trim().to_string()),
                Ok(o) => Some(format!("NUMPY-REJECTS {}", String::from_utf8_lossy(&o.stderr).lines().last().unwrap_or("").replace('\t', " "))),
                Err(_) => Some("NO-NUMPY".into()),
            }
        }
        _ => None,
    }
}

fn eval_geno(a: &[&str]) -> String {
    use sfs_core::input::{genotype, site::{self, reader::builder::{Project, Samples}, Site}, sample::{Population, Sample}, ReadStatus};
    let (container, layout) = (a[0], a[1].parse::<u64>().unwrap_or(0));
    let cs = vcf::CallSet { cols: a[3].split(',').map(|s| s.to_string()).collect(), recs: create::parse_records(a[6]), extras: a[2] == "1", wide: 0 };
    let bytes = match create::container_bytes(&cs, container, layout) { Some(b) => b, None => return "UNBUILDABLE".into() };
    let sched = parse_sched(a[7]);
    // failure offsets are given in per-mille of the stream length (the request does not know the container size)
    let fail = if a[8] == "N" { None } else { a[8].parse::<usize>().ok().map(|pm| (bytes.len() * pm / 1000).min(bytes.len())) };
    let rd = ChunkRd::new(bytes, sched, fail);
    let r = match genotype::reader::Builder::default().build_from_bufread(rd) { Ok(r) => r, Err(e) => return format!("ERR open {}", err_kind(&e)) };
    let mut b = site::reader::Builder::default();
    if let Some((_, items)) = create::parse_samples(a[4]) {
        b = b.set_samples(Some(Samples::List(items.into_iter().map(|(k, v)| (Sample::from(k), Population::from(v))).collect())));
    }
    if let Some((ind, v)) = create::parse_project(a[5]) { b = b.set_project(Some(if ind { Project::Individuals(v) } else { Project::Shape(v.into()) })); }
    let mut reader = match b.build(r) { Ok(r) => r, Err(e) => return format!("ERR build {}", create::build_err_tag_typed(&e)) };
    let mut scs = reader.create_zero_scs();
    let (mut sites, mut skipped) = (0usize, 0usize);
    loop {
        match reader.read_site() {
            ReadStatus::Read(Site::Standard(c)) => { scs[c] += 1.0; }
            ReadStatus::Read(Site::Projected(p)) => { p.add_unchecked(&mut scs); }
            ReadStatus::Read(Site::InsufficientData) => { skipped += 1; }
            ReadStatus::Error(_) => return format!("ERR read {sites}"),
            ReadStatus::Done => break,
        }
        sites += 1;
    }
    format!("OK {}|{}|{}|{}", nats(scs.shape()), bits(scs.inner().as_slice()), sites, skipped)
}

// ---------- generators ----------

const SPECIALS: [u64; 22] = [
    0x0000000000000000, 0x8000000000000000, 0x3ff0000000000000, 0xbff0000000000000, 0x0000000000000001, 0x800fffffffffffff,
    0x0010000000000000, 0x7fefffffffffffff, 0xffefffffffffffff, 0x7ff0000000000000, 0xfff0000000000000, 0x7ff8000000000000,
    0x7ff8000000000001, 0xfff8000000000000, 0x7ff0000000000001, 0x7fffffffffffffff, 0x3fe8000000000000, 0x3fb999999999999a,
    0x3fe0000000000000, 0x4004000000000000, 0x3f50624dd2f1a9fc, 0x7fe1ccf385ebc8a0,
];

/// a value of one of the classes the property names
pub fn value(rng: &mut Rng) -> f64 {
    match rng.below(10) {
        0 => f64::from_bits(*rng.pick(&SPECIALS)),
        1 => f64::from_bits(rng.next()),                                   // anything (often huge / tiny / NaN payloads)
        2 => rng.range(0, 100000) as f64,                                  // counts
        3 => -(rng.range(0, 1000) as f64) / 8.0,                            // negative dyadic
        4 => (rng.range(0, 2000) as f64 + 0.5) / 10f64.powi(rng.range(0, 6) as i32), // ties and near-ties of decimal rounding
        5 => f64::from_bits(rng.below(1 << 52)),                           // subnormal
        6 => f64::from_bits(0x7fe0000000000000 | rng.below(1 << 52)),      // huge
        7 => (rng.range(1, 999999) as f64) * 10f64.powi(rng.range(0, 20) as i32 - 10), // few significant digits
        8 => rng.range(0, 1 << 20) as f64 / (1u64 << rng.range(0, 40)) as f64,
        _ => f64::from_bits(0x3ff0000000000000 | rng.below(1 << 52)) * 10f64.powi(rng.range(0, 30) as i32 - 15),
    }
}
pub fn finite_value(rng: &mut Rng) -> f64 { loop { let v = value(rng); if v.is_finite() { return v; } } }

fn spec(rng: &mut Rng, dmax: usize, lmax: usize, maxel: usize) -> (Vec<usize>, Vec<f64>) {
    let shape = shapes::random_shape(rng, 1, dmax, 1, lmax, maxel);
    let n: usize = shape.iter().product();
    let data = (0..n).map(|_| value(rng)).collect();
    (shape, data)
}

fn sched(rng: &mut Rng, len: usize) -> Vec<usize> {
    match rng.below(6) {
        0 => vec![1; len + 2],
        1 => vec![],
        2 => { let f = rng.range(1, (len as u64).max(1)) as usize; vec![f] }
        3 => (0..len + 2).map(|_| rng.range(1, 9) as usize).collect(),
        4 => { let mut v = vec![rng.range(1, 40) as usize]; v.extend((0..len).map(|_| rng.log_range(1, 4096) as usize)); v }
        _ => (0..len + 2).map(|_| rng.range(1, 3) as usize).collect(),
    }
}

fn token_pool() -> Vec<&'static str> {
    vec!["0", "1", "-1", "+1", "1.", ".5", "-.5", ".", "", "1e5", "1E5", "1e+5", "1e-5", "1e", "e5", "1.5e3", "1.5e", "1.5e+", "inf", "-inf", "+inf", "Inf", "INF",
         "infinity", "-Infinity", "infinit", "nan", "NaN", "-nan", "+NaN", "nane", "0x10", "1_0", "1,0", "1 0", " 1", "1 ", "--1", "+-1", "1.2.3", "1e1e1", "0.1", "0.2", "0.3",
         "0.30000000000000004", "4.9e-324", "2.4703282292062327e-324", "2.4703282292062328e-324", "1.7976931348623157e308", "1.7976931348623158e308", "1.7976931348623159e308",
         "1e309", "1e-400", "1e400", "-1e400", "9007199254740993", "9007199254740992.5", "0.000000000000000000000000000000000000001", "123456789012345678901234567890",
         "1e0000000000000000000001", "1e-0000000000000000000001", "0e99999999999999999999", "1e99999999999999999999", "1e-99999999999999999999", "00012", "-0", "-0.0", "+0.0e0",
         "2.2250738585072011e-308", "2.2250738585072014e-308", "8.5", "0.5", "1.5", "2.5", "0.125", "0.375"]
}

pub fn gen_c07(ctx: &Ctx, rng: &mut Rng, out: &mut Vec<String>) {
    let t = ctx.tier_thorough;
    // (a) in-process round trips
    // more decimals than a double has significant digits (18, 20, 25, 40, 100, 400): values far below one keep their leading zeros
    for (pi, p) in [18usize, 19, 20, 25, 40, 100, 400].into_iter().enumerate() {
        if !t && pi % 2 == 1 { continue; }
        let data = vec![1e-20f64, 1.5e-19, 0.001, 0.0625, 0.25, 0.6875, 4.9e-324, 1e-300, 123456.789, 0.1];
        out.push(format!("io.textrt\t2,5\t{}\t{p}", bits(&data)));
        out.push(format!("io.t2n2t\t2,5\t{}\t{p}", bits(&data)));
    }
    // text longer than any block or buffer a writer is likely to use (value lines of 64 KiB and beyond)
    for (bi, (shape, p)) in [(vec![21usize, 21, 21], 6usize), (vec![9500], 5), (vec![1300], 60), (vec![70, 70, 3], 9)].into_iter().enumerate() {
        if !t && bi >= 2 { continue; }
        let n: usize = shape.iter().product();
        let data: Vec<f64> = (0..n).map(|j| ((j * 11 + bi) % 257) as f64 * 0.25).collect();
        out.push(format!("io.textrt\t{}\t{}\t{}", nats(&shape), bits(&data), p));
    }
    for i in 0..(if t { 3000 } else { 220 }) {
        let (shape, data) = if i == 0 { (vec![2, 1, 3], SPECIALS[..6].iter().map(|b| f64::from_bits(*b)).collect()) } else { spec(rng, 6, 4, 120) };
        out.push(format!("io.npyrt\t{}\t{}", nats(&shape), bits(&data)));
        let p = if i % 3 == 0 { rng.range(0, 17) } else { *rng.pick(&[0u64, 1, 2, 6, 6, 15, 17]) };
        out.push(format!("io.textrt\t{}\t{}\t{}", nats(&shape), bits(&data), p));
    }
    // shapes whose npy header is exactly a multiple of 64 bytes before padding (and its neighbours), and spectra with more than
    // 8192 values (not a multiple of 8192): written, read back, and through the binary to a pipe and a file
    let mut special: Vec<Vec<usize>> = Vec::new();
    for last in [1usize, 10, 100] { for d in [20usize, 21, 22] { let mut sh = vec![1; d - 1]; sh.push(last); special.push(sh); } }
    special.push(vec![2, 2, 2, 2, 2, 2, 2, 2, 2, 2, 1, 1, 1, 1, 1, 1, 1, 1, 1, 1, 10]);
    for sh in [vec![101usize, 101], vec![21, 21, 21], vec![8193], vec![8192], vec![16385]] { special.push(sh); }
    for (i, sh) in special.iter().enumerate() {
        let n: usize = sh.iter().product();
        let data: Vec<f64> = (0..n).map(|j| ((j * 7 + i) % 1013) as f64 + 0.25).collect();
        out.push(format!("io.npyrt\t{}\t{}", nats(sh), bits(&data)));
        if t || i % 2 == 0 || n > 8192 {
            for (transport, cmd2, args2) in [("pipe", "view", "-O npy"), ("file", "stat", "-s sum --precision 17")] {
                out.push(format!("io.pipe\t-O npy --precision 6\t{transport}\t{cmd2}\t{args2}\t{}\t{}", nats(sh), bits(&data)));
            }
        }
    }
    // (b) std formatting / parsing, value by value
    for _ in 0..(if t { 50000 } else { 2500 }) {
        let v = value(rng);
        out.push(format!("io.fmt\t{:016x}\t{}", v.to_bits(), rng.range(0, 17)));
    }
    for p in [18u64, 25, 40, 100, 400, 1100] { for b in [0x0000000000000001u64, 0x3ff0000000000000, 0x7fefffffffffffff, 0x3fb999999999999a] { out.push(format!("io.fmt\t{b:016x}\t{p}")); } }
    for tok in token_pool() { out.push(format!("io.parse\t{}", hex(tok.as_bytes()))); }
    for _ in 0..(if t { 20000 } else { 1500 }) {
        // what a writer prints, a shortest round-trip representation, and decimal strings near rounding boundaries
        let v = finite_value(rng);
        let s = match rng.below(4) { 0 => format!("{:.*}", rng.range(0, 17) as usize, v), 1 => format!("{v}"), 2 => format!("{v:e}"), _ => format!("{:.*e}", rng.range(0, 20) as usize, v) };
        out.push(format!("io.parse\t{}", hex(s.as_bytes())));
    }
    // (c) format detection on prefixes
    for pre in [&b""[..], b"#", b"#SHAP", b"#SHAPE", b"#SHAPE=<1>\n1\n", b"\x93NUMP", b"\x93NUMPY", b"\x93NUMPY\x01\x00", b"NUMPY", b" #SHAPE", b"#shape=<1>", b"\x93numpy", b"##fileformat"] {
        out.push(format!("io.detect\t{}", hex(pre)));
    }
    // (d) the binary: every writer x format x transport x reader
    let n_cli = if t { 400 } else { 40 };
    for i in 0..n_cli {
        let (shape, data) = spec(rng, 6, 3, 40);
        let p = *rng.pick(&[0u64, 1, 6, 15, 17]);
        let fmt = if i % 2 == 0 { "npy" } else { "text" };
        let transport = if (i / 2) % 2 == 0 { "pipe" } else { "file" };
        let (cmd2, args2) = match (i / 4) % 3 { 0 => ("view", "-O npy"), 1 => ("fold", "--precision 17"), _ => ("stat", "-s sum --precision 17") };
        out.push(format!("io.pipe\t-O {fmt} --precision {p}\t{transport}\t{cmd2}\t{args2}\t{}\t{}", nats(&shape), bits(&data)));
    }
    // the reader gets the file through a named pipe given as its input PATH (process substitution): not a regular file, no size
    for (i, (fmt, cmd2, args2)) in [("npy", "view", "-O npy"), ("text", "view", "-O npy"), ("npy", "fold", "--precision 17"), ("text", "stat", "-s sum --precision 17"), ("npy", "stat", "-s sum --precision 17"), ("text", "fold", "--precision 17")].into_iter().enumerate() {
        if !t && i >= 4 { continue; }
        let (shape, data) = spec(rng, 3, 4, 30);
        out.push(format!("io.pipe\t-O {fmt} --precision 6\tfifo\t{cmd2}\t{args2}\t{}\t{}", nats(&shape), bits(&data)));
    }
    // the reader's stdin delivers the file in two pieces with a pause: a first read that ends inside the header, at the header's end,
    // inside a value (odd offsets), at a value boundary; npy and text
    for (i, k) in [1usize, 6, 10, 127, 128, 129, 131, 136, 141, 151, 199].into_iter().enumerate() {
        if !t && i % 2 == 1 && k != 141 { continue; }
        let data: Vec<f64> = (0..9).map(|j| if j == 2 { 3.25 } else { j as f64 + 0.5 }).collect();
        let (cmd2, args2) = [("view", "-O npy"), ("fold", "--precision 17"), ("stat", "-s sum --precision 17")][i % 3];
        out.push(format!("io.pipe\t-O npy --precision 6\tsplit{k}\t{cmd2}\t{args2}\t3,3\t{}", bits(&data)));
        if i % 4 == 0 { out.push(format!("io.pipe\t-O text --precision 6\tsplit{k}\t{cmd2}\t{args2}\t3,3\t{}", bits(&data))); }
    }
    // larger spectra through real pipes: values whose bytes contain 0x0a (stdout is line buffered), more than a pipe buffer of data
    for (i, side) in [21usize, 40, 64].into_iter().enumerate() {
        let n = side * side;
        // the position of the last 0x0a byte decides what a line-buffered stdout does with the rest: first value only / middle / everywhere
        let last_nl = match i { 0 => 0, 1 => n / 2, _ => n - 1 };
        let data: Vec<f64> = (0..n).map(|j| if j == last_nl || (i == 2 && j % 5 == 0) { 3.25 } else { (j % 7) as f64 }).collect();
        for (fmt, transport, cmd2, args2) in [("npy", "pipe", "view", "-O npy"), ("npy", "file", "view", "-O npy"), ("text", "pipe", "view", "-O npy"), ("npy", "pipe", "stat", "-s sum --precision 17")] {
            out.push(format!("io.pipe\t-O {fmt} --precision 6\t{transport}\t{cmd2}\t{args2}\t{side},{side}\t{}", bits(&data)));
        }
    }
    // spectra of more than 128 integer counts whose bytes contain no 0x0a at all, written as npy to a pipe and to a file: the bytes
    // must be the same through every sink (a line-buffered stdout that finds no newline passes writes through in pieces)
    for (i, (r, c)) in [(13usize, 21usize), (9, 15), (30, 30), (129, 1), (1, 200)].into_iter().enumerate() {
        if !t && i >= 3 { continue; }
        let data: Vec<f64> = (0..r * c).map(|j| (j % 7) as f64).collect();
        for (transport, cmd2, args2) in [("pipe", "view", "-O npy"), ("file", "view", "-O npy"), ("pipe", "stat", "-s sum --precision 17")] {
            out.push(format!("io.pipe\t-O npy --precision 6\t{transport}\t{cmd2}\t{args2}\t{r},{c}\t{}", bits(&data)));
        }
    }
    // an output path that already holds a longer file: the second, shorter result must replace it completely
    for i in 0..(if t { 40 } else { 8 }) {
        let (s1, d1) = { let sh = shapes::random_shape(rng, 2, 3, 3, 5, 200); let n: usize = sh.iter().product(); (sh, (0..n).map(|_| finite_value(rng)).collect::<Vec<f64>>()) };
        let (s2, d2) = { let sh = shapes::random_shape(rng, 1, 2, 1, 3, 9); let n: usize = sh.iter().product(); (sh, (0..n).map(|_| finite_value(rng)).collect::<Vec<f64>>()) };
        let fmt = if i % 2 == 0 { "text" } else { "npy" };
        out.push(format!("io.overwrite\t{fmt}\t{}\t{}\t{}\t{}\t{}", rng.range(0, 9), nats(&s1), bits(&d1), nats(&s2), bits(&d2)));
    }
    // (e) text -> npy -> text at the same precision
    for _ in 0..(if t { 300 } else { 40 }) {
        let shape = shapes::random_shape(rng, 1, 3, 1, 4, 30);
        let n: usize = shape.iter().product();
        let p = rng.range(0, 12);
        let data: Vec<f64> = (0..n).map(|_| match rng.below(4) {
            0 => rng.range(0, 999999) as f64,
            1 => (rng.range(0, 99999999) as f64) / 10f64.powi(p as i32),
            2 => finite_value(rng),
            _ => rng.range(0, 999) as f64 / 1000.0 }).collect();
        out.push(format!("io.t2n2t\t{}\t{}\t{}", nats(&shape), bits(&data), p));
    }
    // (f) every byte value at the two ends of the npy payload, through the real `read::Builder` (format detection included): the file the
    // writer produces for a spectrum whose last entry has most significant byte `b` and whose first entry has least significant byte `b`
    // (all finite; the second-highest byte keeps the exponent away from 0x7ff) — a reader that "tidies" its input (trims blanks or line
    // ends, stops at a NUL or a ^Z) only shows on the handful of values whose bytes look like such characters
    for b in 0u64..256 {
        let last = f64::from_bits(b << 56 | 0x35 << 48 | 0x4a3b_2c1d_0e0f);
        let first = f64::from_bits(0x3ff4_5566_7788_9900 | b);
        for data in [vec![first, 2.5, last], vec![last]] {
            let mut buf = Vec::new();
            if write::Builder::default().set_format(Format::Npy).write(&mut buf, &Scs::new(data.clone(), vec![data.len()]).unwrap()).is_ok() {
                out.push(format!("io.specread\t{}", hex(&buf)));
            }
        }
    }
}

/// shapes whose header dictionary length covers every residue modulo 64 (axes of length 1 plus one of 1 / 10 / 100)
fn residue_shapes() -> Vec<Vec<usize>> {
    let mut v = Vec::new();
    for d in 1..=23usize { for last in [1usize, 10, 100] { let mut s = vec![1; d - 1]; s.push(last); v.push(s); } }
    v
}

fn put_le(out: &mut Vec<u8>, v: u64, w: usize) { out.extend_from_slice(&v.to_le_bytes()[..w]); }

/// a header dict in a random spelling; `family` = inside the family the grammar theorem covers
fn dict_spelling(rng: &mut Rng, descr: &str, fortran: bool, shape: &[usize], family: bool) -> String {
    let q = if rng.chance(1, 2) { '\'' } else { '"' };
    let sp = |rng: &mut Rng| " ".repeat(if rng.chance(1, 2) { 0 } else { rng.range(1, 3) as usize });
    let (bc, ac, bm, am) = (sp(rng), sp(rng), sp(rng), sp(rng));
    let comma = format!("{bm},{am}");
    let tuple = { let mut s = String::from("("); s.push_str(&shape.iter().map(|x| x.to_string()).collect::<Vec<_>>().join(&comma)); if shape.len() == 1 || rng.chance(1, 2) { s.push_str(&comma); } s.push(')'); s };
    let mut es = vec![format!("{q}descr{q}{bc}:{ac}{q}{descr}{q}"), format!("{q}fortran_order{q}{bc}:{ac}{}", if fortran { "True" } else { "False" }), format!("{q}shape{q}{bc}:{ac}{tuple}")];
    rng.shuffle(&mut es);
    let mut s = format!("{{{}{}", sp(rng), es.join(&comma));
    if rng.chance(1, 2) { s.push_str(&comma); }
    s.push_str(&sp(rng)); s.push('}');
    if family { return s; }
    // outside the family: one defect
    match rng.below(12) {
        0 => s.replace("descr", "desc"),
        1 => s.replace("False", "false").replace("True", "true"),
        2 => s.replace(':', "="),
        3 => s.replacen(q, "", 2),
        4 => format!("{s} trailing garbage"),
        5 => s.replace('{', ""),
        6 => s.replace('}', ""),
        7 => s.replace('(', "[").replace(')', "]"),
        8 => { let e = format!("{comma}{q}extra{q}: 1"); s.replacen('}', &format!("{e}}}"), 1) }
        9 => s.replace(' ', "\t"),
        10 => format!("{s}\n{s}"),
        _ => s.replacen(&format!("{q}shape{q}"), &format!("{q}shape{q}{bc}:{ac}(7,){comma}{q}shape{q}"), 1),
    }
}

pub fn frame(major: u8, minor: u8, dict: &str, body: &[u8], rng: &mut Rng, pad: bool) -> Vec<u8> {
    let w = if major == 1 { 2 } else { 4 };
    let mut d = dict.as_bytes().to_vec();
    if pad { let total = 8 + w + d.len() + 1; let padn = (64 - total % 64) % 64 + if rng.chance(1, 4) { 64 } else { 0 }; d.extend(std::iter::repeat(b' ').take(padn)); d.push(b'\n'); }
    let mut out = b"\x93NUMPY".to_vec(); out.push(major); out.push(minor);
    put_le(&mut out, d.len() as u64, w);
    out.extend(d); out.extend_from_slice(body);
    out
}

const TYPES: [(&str, usize); 10] = [("f4", 4), ("f8", 8), ("i1", 1), ("i2", 2), ("i4", 4), ("i8", 8), ("u1", 1), ("u2", 2), ("u4", 4), ("u8", 8)];

fn boundary_bytes(rng: &mut Rng, w: usize) -> Vec<u8> {
    let v: u64 = match rng.below(8) {
        0 => 0, 1 => u64::MAX, 2 => 1, 3 => 1u64 << (8 * w - 1), 4 => (1u64 << (8 * w - 1)).wrapping_sub(1),
        5 => if w == 8 { (1u64 << 53) + rng.range(0, 3) } else { rng.next() },
        6 => if w == 8 { u64::MAX - rng.below(3000) } else { rng.next() },
        _ => rng.next(),
    };
    v.to_le_bytes()[..w].to_vec()
}

pub fn gen_c15(ctx: &Ctx, rng: &mut Rng, out: &mut Vec<String>) {
    let t = ctx.tier_thorough;
    // writer: every residue of the header length modulo 64, zero-length axes, larger shapes; and numpy loading the result
    for (i, s) in residue_shapes().into_iter().enumerate() {
        let n: usize = s.iter().product();
        let data: Vec<f64> = (0..n).map(|j| if (i + j) % 7 == 0 { value(rng) } else { j as f64 }).collect();
        out.push(format!("io.npyrt\t{}\t{}", nats(&s), bits(&data)));
        if t || i % 3 == 0 { out.push(format!("io.npload\t{}\t{}", nats(&s), bits(&data))); }
    }
    for s in [vec![0usize], vec![2, 0], vec![0, 3, 1], vec![1], vec![4294967296usize, 0]] { out.push(format!("io.npyrt\t{}\t-", nats(&s))); }
    // every value count 1..=70 and every power of two up to 2^14 with its neighbours: block / buffer / chunk sizes of any writer
    {
        let mut counts: Vec<usize> = (1..=70).collect();
        for e in 7..=14u32 { for dlt in [-1i64, 0, 1] { counts.push((((1u64 << e) as i64) + dlt) as usize); } }
        for (i, n) in counts.into_iter().enumerate() {
            if !t && n > 70 && i % 2 == 1 && n != 8193 && n != 4097 { continue; }
            let data: Vec<f64> = (0..n).map(|j| ((j * 7 + i) % 251) as f64 * 0.5).collect();
            out.push(format!("io.npyrt\t{n}\t{}", bits(&data)));
        }
    }
    // more values than any internal block or buffer of the writer is likely to hold, in counts that are not a multiple of a power of two
    for (i, s) in [vec![101usize, 101], vec![21, 21, 21], vec![8193], vec![8192], vec![16385], vec![3, 4099]].into_iter().enumerate() {
        let n: usize = s.iter().product();
        let data: Vec<f64> = (0..n).map(|j| ((j * 13 + i) % 997) as f64 - 3.5).collect();
        out.push(format!("io.npyrt\t{}\t{}", nats(&s), bits(&data)));
        if i % 2 == 0 || t { out.push(format!("io.npload\t{}\t{}", nats(&s), bits(&data))); }
    }
    for _ in 0..(if t { 400 } else { 40 }) {
        let (shape, data) = spec(rng, 6, 5, 300);
        out.push(format!("io.npyrt\t{}\t{}", nats(&shape), bits(&data)));
        if rng.chance(1, 4) { out.push(format!("io.npload\t{}\t{}", nats(&shape), bits(&data))); }
    }
    // valid npy files of several element types arriving on stdin in two pieces, the first of 1..7 bytes (inside the magic string, inside the
    // version / length bytes), and through a named pipe: the format is recognised and the values read whatever the first read delivers
    for (i, (shape, data)) in [(vec![2usize, 3], vec![0.0f64, 1.0, 2.0, 3.0, 4.0, 5.0]), (vec![5], vec![1.5, 0.0, -2.0, 0.25, 1024.5])].into_iter().enumerate() {
        for k in [1usize, 2, 3, 5, 6, 7, 9, 11] {
            if !t && (k + i) % 2 == 0 && k > 3 { continue; }
            out.push(format!("io.pipe\t-O npy\tsplit{k}\tview\t--precision 4\t{}\t{}", nats(&shape), bits(&data)));
            if k <= 3 { out.push(format!("io.pipe\t-O text --precision 3\tsplit{k}\tview\t-O npy\t{}\t{}", nats(&shape), bits(&data))); }
        }
        out.push(format!("io.pipe\t-O npy\tfifo\tstat\t-s sum --precision 6\t{}\t{}", nats(&shape), bits(&data)));
    }
    // an npy file written to a path that already holds a longer file (npy or text): what is read back is the second spectrum only
    for i in 0..(if t { 30 } else { 6 }) {
        let (s1, d1) = { let sh = shapes::random_shape(rng, 2, 3, 3, 6, 300); let n: usize = sh.iter().product(); (sh, (0..n).map(|j| (j % 11) as f64 + 0.5).collect::<Vec<f64>>()) };
        let (s2, d2) = { let sh = shapes::random_shape(rng, 1, 2, 1, 3, 9); let n: usize = sh.iter().product(); (sh, (0..n).map(|j| (j * 3 + i) as f64).collect::<Vec<f64>>()) };
        out.push(format!("io.overwrite\tnpy\t{}\t{}\t{}\t{}\t{}", 3 + i % 6, nats(&s1), bits(&d1), nats(&s2), bits(&d2)));
    }
    // reader: numpy-written files (dtype x byte order x version), with numpy's own conversion to float64 as third opinion
    let tools = format!("{}/../tools/npy_oracle.py", ctx.work);
    let o = std::process::Command::new("python3-vt").arg(&tools).arg("gen").arg(ctx.seed.to_string()).arg(if t { "thorough" } else { "quick" }).output();
    match o {
        Ok(o) if o.status.success() => for l in String::from_utf8_lossy(&o.stdout).lines() { if !l.trim().is_empty() { out.push(format!("io.npread3\t{l}")); } },
        _ => eprintln!("warning: numpy oracle unavailable; numpy-written files are not part of this run"),
    }
    // reader: synthesized headers — the full matrix type x byte order char x version x spelling, boundary values
    for (ti, (ty, w)) in TYPES.iter().enumerate() {
        for en in ['<', '>', '|'] {
            for major in [1u8, 2, 3] {
                let reps = if t { 6 } else { 2 };
                for r in 0..reps {
                    let shape = shapes::random_shape(rng, 1, 3, 1, 3, 12);
                    let n: usize = shape.iter().product();
                    let mut body = Vec::new();
                    for _ in 0..n { body.extend(boundary_bytes(rng, *w)); }
                    let family = r != 1;
                    let d = dict_spelling(rng, &format!("{en}{ty}"), false, &shape, family);
                    let pad = !(r == 0 && ti % 2 == 0);
                    let file = frame(major, (r % 2) as u8, &d, &body, rng, pad);
                    out.push(format!("io.npyread\t{}", hex(&file)));
                    // the same file through a buffered reader whose chunks are not aligned to the item size
                    if family {
                        let sc: Vec<usize> = match r % 3 { 0 => vec![file.len() - body.len() + 3, 5, 7, 3], 1 => vec![50, 21, 9, 50, 21, 9, 50, 21, 9], _ => vec![1; file.len()] };
                        out.push(format!("io.rdnpy\t{}\t{}\tN", hex(&file), nats(&sc)));
                    }
                }
            }
        }
    }
    // rejected: Fortran order, unsupported descr, bad versions, count mismatches
    for descr in ["<f2", "|b1", "<c8", "<c16", "<U3", "|O", "|S4", "<M8[ns]", "=f8", "f8", "<f", "<f88", "<F8", "[('a', '<f8')]", "<i3", "<u16", ""] {
        let d = dict_spelling(rng, descr, false, &[2], true);
        out.push(format!("io.npyread\t{}", hex(&frame(1, 0, &d, &[0u8; 16], rng, true))));
    }
    // wrong magic (six or more bytes present), and text where npy is expected
    for (i, m) in [&b"\x93NUMPX"[..], b"\x92NUMPY", b"NUMPY\x93", b"\x93numpy", b"#SHAPE", b"\x00\x00\x00\x00\x00\x00"].iter().enumerate() {
        let d = dict_spelling(rng, "<f8", false, &[1], true);
        let mut f = frame(1, 0, &d, &[0u8; 8], rng, true);
        f[..6].copy_from_slice(m);
        out.push(format!("io.npyread\t{}", hex(&f)));
        if i < 2 { out.push(format!("io.specread\t{}", hex(&f))); }
    }
    // a header dict too long for the v1.0 length field: the writer must return an error (in-process, one value)
    out.push(format!("io.npyrt\t{}\t3ff0000000000000", nats(&vec![1usize; 21900])));
    out.push(format!("io.npyrt\t{}\t3ff0000000000000", nats(&vec![1usize; 21800])));
    for major in [0u8, 4, 255] { let d = dict_spelling(rng, "<f8", false, &[1], true); out.push(format!("io.npyread\t{}", hex(&frame(major, 0, &d, &[0u8; 8], rng, true)))); }
    for _ in 0..(if t { 60 } else { 12 }) {
        let shape = shapes::random_shape(rng, 1, 3, 1, 3, 12);
        let n: usize = shape.iter().product();
        let (ty, w) = *rng.pick(&TYPES);
        let fortran = rng.chance(1, 2);
        let d = dict_spelling(rng, &format!("<{ty}"), fortran, &shape, true);
        let m = match rng.below(3) { 0 => n, 1 => n + 1, _ => n.saturating_sub(1) };
        let body: Vec<u8> = (0..m * w).map(|_| rng.next() as u8).collect();
        out.push(format!("io.npyread\t{}", hex(&frame(*rng.pick(&[1u8, 2, 3]), 0, &d, &body, rng, true))));
    }
    for shape_s in ["()", "(,)", "(-1,)", "(18446744073709551616,)", "(18446744073709551615,)", "(4294967296, 4294967296)", "(1.0,)", "(1, (2,))", "( 1,)", "(1 ,)"] {
        let d = format!("{{'descr': '<f8', 'fortran_order': False, 'shape': {shape_s}, }}");
        out.push(format!("io.npyread\t{}", hex(&frame(1, 0, &d, &[0u8; 8], rng, true))));
    }
}

fn valid_files(ctx: &Ctx, rng: &mut Rng, n: usize) -> Vec<(Vec<usize>, Vec<f64>, Vec<u8>)> {
    let _ = ctx;
    let mut v = Vec::new();
    for i in 0..n {
        let (shape, data) = if i == 0 { (vec![1], vec![1.0]) } else if i == 1 { (vec![0], vec![]) } else if i == 2 { (vec![2, 3], (0..6).map(|x| x as f64).collect()) } else { spec(rng, 4, 3, 14) };
        let scs = Scs::new(data.clone(), shape.clone()).unwrap();
        let mut buf = Vec::new();
        write::Builder::default().set_format(Format::Npy).write(&mut buf, &scs).unwrap();
        v.push((shape, data, buf));
    }
    v
}

pub fn gen_c16(ctx: &Ctx, rng: &mut Rng, out: &mut Vec<String>) {
    let t = ctx.tier_thorough;
    let files = valid_files(ctx, rng, if t { 200 } else { 20 });
    let cmds = [("view", "-"), ("fold", "-"), ("stat", "-s sum")];
    for (fi, (_, _, f)) in files.iter().enumerate() {
        out.push(format!("io.npyread\t{}", hex(f)));
        for n in 0..f.len() {
            out.push(format!("io.npyread\t{}", hex(&f[..n])));
            // through the real read::Builder (detection included) and the binary at a sample of offsets
            let boundary = n < 12 || n + 1 >= f.len() || (n >= 128 && (n - 128) % 8 <= 1) || n % 29 == 0;
            if boundary && (t || fi < 6) {
                out.push(format!("io.specread\t{}", hex(&f[..n])));
                let (c, a) = cmds[(n + fi) % 3];
                out.push(format!("io.cmd\t{c}\t{a}\t{}", hex(&f[..n]))); out.push(format!("io.cmdp\t{c}\t{a}\t{}", hex(&f[..n]))); out.push(format!("io.cmdp\tview\t-O npy\t{}", hex(&f[..n])));
            }
        }
        for e in 1..=16usize {
            for zeros in [true, false] {
                let mut g = f.clone();
                g.extend((0..e).map(|_| if zeros { 0u8 } else { rng.next() as u8 }));
                out.push(format!("io.npyread\t{}", hex(&g)));
                if (e == 1 || e == 8 || e == 16) && (t || fi < 6) {
                    out.push(format!("io.specread\t{}", hex(&g)));
                    let (c, a) = cmds[(e + fi) % 3];
                    out.push(format!("io.cmd\t{c}\t{a}\t{}", hex(&g))); out.push(format!("io.cmdp\t{c}\t{a}\t{}", hex(&g))); out.push(format!("io.cmdp\tview\t-O npy\t{}", hex(&g)));
                    // … and arriving in two bursts that split exactly where the valid file ends (a short read is not the end of the input)
                    if fi < 4 || t { out.push(format!("io.cmds\t{c}\t{a}\t{}\t{}", hex(&g), f.len())); }
                }
            }
        }
        // a cut file whose first burst ends inside the magic string / the header / a value
        if fi < 3 || t { for k in [3usize, 9, 131] { if f.len() > k + 9 { let (c, a) = cmds[(k + fi) % 3]; out.push(format!("io.cmds\t{c}\t{a}\t{}\t{k}", hex(&f[..f.len() - 3]))); } } }
    }
    // files the reader refuses for what their header SAYS (Fortran order; element types it does not read) although they are otherwise
    // well-formed: whole, cut at every item boundary, with whole items appended — refused in every form, never read as a spectrum
    for (hi, (descr, isz, shape_s, n)) in [("<f8", 8usize, "(2, 3)", 6usize), ("<f8", 8, "(3, 2, 2)", 12), ("<f4", 4, "(4, 4)", 16), ("<i2", 2, "(2, 5)", 10), ("<c16", 16, "(3,)", 3), ("|b1", 1, "(4,)", 4), ("<f8", 8, "(1, 5)", 5)].into_iter().enumerate() {
        let fortran = hi < 4 || hi == 6;
        let d = format!("{{'descr': '{descr}', 'fortran_order': {}, 'shape': {shape_s}, }}", if fortran { "True" } else { "False" });
        let body: Vec<u8> = (0..n * isz).map(|j| if isz == 8 && j % 8 == 7 { 0x40 } else if isz == 8 && j % 8 == 6 { (j / 8) as u8 * 16 } else { (j % 3) as u8 }).collect();
        let f = frame(1, 0, &d, &body, rng, true);
        let hl = f.len() - body.len();
        let mut forms: Vec<Vec<u8>> = vec![f.clone()];
        for k in 0..n { forms.push(f[..hl + k * isz].to_vec()); }
        for e in [1usize, 2, n] { let mut g = f.clone(); g.extend(std::iter::repeat(0u8).take(e * isz)); forms.push(g); }
        for (k, g) in forms.iter().enumerate() {
            out.push(format!("io.npyread\t{}", hex(g)));
            if t || k % 2 == 0 || k + 4 > forms.len() {
                let (c, a) = cmds[(k + hi) % 3];
                out.push(format!("io.cmd\t{c}\t{a}\t{}", hex(g))); out.push(format!("io.cmdp\t{c}\t{a}\t{}", hex(g)));
            }
        }
    }
    // large files whose value count sits on and around powers of two (block / buffer sizes a reader may use internally):
    // extensions by a partial value, whole values, a whole second copy; truncations at a few offsets
    for (li, shape) in [vec![64usize, 64], vec![4096], vec![8192], vec![128, 32], vec![4095], vec![4097], vec![1024], vec![2048], vec![3, 4096]].into_iter().enumerate() {
        if !t && li >= 4 { continue; }
        let n: usize = shape.iter().product();
        let data: Vec<f64> = (0..n).map(|j| ((j * 31 + li) % 509) as f64).collect();
        let scs = Scs::new(data, shape).unwrap();
        let mut f = Vec::new();
        write::Builder::default().set_format(Format::Npy).write(&mut f, &scs).unwrap();
        out.push(format!("io.npyread\t{}", hex(&f)));
        for (k, e) in [1usize, 3, 7, 8, 9, 16, 64, 4096].into_iter().enumerate() {
            if !t && ![1, 8, 9, 4096].contains(&e) { continue; }
            let mut g = f.clone(); g.extend((0..e).map(|j| if k % 2 == 0 { 0u8 } else { (j * 37 + 11) as u8 }));
            out.push(format!("io.npyread\t{}", hex(&g)));
            if e == 1 || e == 8 { out.push(format!("io.specread\t{}", hex(&g))); let (c, a) = cmds[(k + li) % 3]; out.push(format!("io.cmd\t{c}\t{a}\t{}", hex(&g))); out.push(format!("io.cmdp\t{c}\t{a}\t{}", hex(&g))); out.push(format!("io.cmdp\tview\t-O npy\t{}", hex(&g))); }
        }
        let mut twice = f.clone(); twice.extend_from_slice(&f);
        out.push(format!("io.npyread\t{}", hex(&twice)));
        out.push(format!("io.cmd\tview\t-\t{}", hex(&twice)));
        for cut in [1usize, 8, 9, 4096, 8 * 1024, f.len() - 128 - 8 * (n / 2)] { if !t && cut > 9 && cut != 4096 { continue; } if cut < f.len() { out.push(format!("io.npyread\t{}", hex(&f[..f.len() - cut]))); } }
    }
    // text: token removal / insertion, shape edits
    for fi in 0..(if t { 120 } else { 25 }) {
        let shape = if fi == 0 { vec![3] } else { shapes::random_shape(rng, 1, 4, 1, 4, 24) };
        let n: usize = shape.iter().product();
        let toks: Vec<String> = (0..n).map(|_| format!("{:.*}", rng.range(0, 6) as usize, finite_value(rng).abs().min(1e9))).collect();
        let render = |shape: &[usize], toks: &[String]| format!("#SHAPE=<{}>\n{}\n", shape.iter().map(|x| x.to_string()).collect::<Vec<_>>().join("/"), toks.join(" "));
        let mut variants: Vec<String> = vec![render(&shape, &toks)];
        for i in 0..n { let mut tk = toks.clone(); tk.remove(i); variants.push(render(&shape, &tk)); }
        for i in 0..=n { let mut tk = toks.clone(); tk.insert(i, "7".into()); variants.push(render(&shape, &tk)); }
        for ax in 0..shape.len() {
            for f in [0usize, 1, 2, 3] {
                let mut s = shape.clone();
                s[ax] = match f { 0 => s[ax] + 1, 1 => s[ax].saturating_sub(1), 2 => s[ax] * 2, _ => s[ax] + (1usize << 32) };
                variants.push(render(&s, &toks));
            }
            let mut s = shape.clone(); s.remove(ax); if !s.is_empty() { variants.push(render(&s, &toks)); }
            let mut s = shape.clone(); s.insert(ax, 2); variants.push(render(&s, &toks));
            let mut s = shape.clone(); s.insert(ax, 1); variants.push(render(&s, &toks));
        }
        variants.push(render(&[4294967296, 4294967296], &toks));
        variants.push(render(&[4294967296, 4294967296, 0], &[]));
        variants.push(render(&[0, 4294967296, 4294967296], &[]));
        variants.push(format!("#SHAPE=<{}>\n", shape[0]));
        variants.push(format!("#SHAPE=<{}>", shape[0]));
        variants.push(render(&shape, &toks).replace(' ', "\n"));
        variants.push(render(&shape, &toks).replace(' ', "\t  "));
        if n > 0 { let mut tk = toks.clone(); tk[n / 2] = "x1".into(); variants.push(render(&shape, &tk)); }
        // spellings other tools / platforms produce: CRLF line ends, no final newline, blank lines, leading / trailing blanks, a
        // header with blanks, upper / lower case, a second header line, a byte-order mark, values in exponent / signed / bare-dot form
        let base = render(&shape, &toks);
        variants.push(base.replace('\n', "\r\n"));
        variants.push(base.trim_end().to_string());
        variants.push(base.replace('\n', "\n\n"));
        variants.push(format!(" {base}")); variants.push(format!("\n{base}")); variants.push(format!("{base} \n \n"));
        variants.push(base.replace("#SHAPE=<", "#SHAPE = <")); variants.push(base.replace("#SHAPE=<", "#shape=<")); variants.push(base.replace("#SHAPE=", "#SHAPE:"));
        variants.push(format!("{}{base}", base.lines().next().unwrap_or("").to_string() + "\n"));
        variants.push(format!("\u{feff}{base}"));
        variants.push(base.replace('>', ">  # comment"));
        if n > 0 {
            for alt in ["1e0", "+1", "1.", ".5", "1E2", "1e-400", "1e400", "-0", "0x10", "1_000", "١", "1,5", "inf", "-inf", "NaN", "nan", "Infinity", "1e", "--1", "1e+2"] {
                let mut tk = toks.clone(); tk[(n - 1) / 2] = alt.into(); variants.push(render(&shape, &tk));
            }
        }
        for (vi, v) in variants.iter().enumerate() {
            out.push(format!("io.textread\t{}", hex(v.as_bytes())));
            if vi % 4 == 0 && (t || fi < 8) {
                out.push(format!("io.specread\t{}", hex(v.as_bytes())));
                let (c, a) = cmds[(vi / 4 + fi) % 3];
                out.push(format!("io.cmd\t{c}\t{a}\t{}", hex(v.as_bytes())));
            }
        }
        // a valid text spectrum followed by more tokens / a second spectrum, the addition arriving in a second burst (and a first burst
        // that ends inside the header line)
        if fi < 6 || t {
            let (c, a) = cmds[fi % 3];
            for extra in ["7\n", " 1 2\n", base.as_str()] { out.push(format!("io.cmds\t{c}\t{a}\t{}\t{}", hex(format!("{base}{extra}").as_bytes()), base.len())); }
            out.push(format!("io.cmds\t{c}\t{a}\t{}\t{}", hex(base.as_bytes()), 3 + fi % 4));
        }
    }
}

pub fn gen_c18(ctx: &Ctx, rng: &mut Rng, out: &mut Vec<String>) {
    let t = ctx.tier_thorough;
    let files = valid_files(ctx, rng, if t { 30 } else { 6 });
    for (fi, (shape, data, f)) in files.iter().enumerate() {
        // first-chunk length enumerated exhaustively, later chunks random down to one byte
        for first in 1..=f.len().min(600) {
            let mut s = vec![first];
            match first % 3 { 0 => {} , 1 => s.extend(std::iter::repeat(1).take(f.len())), _ => s.extend((0..f.len()).map(|_| rng.range(1, 11) as usize)) }
            out.push(format!("io.rdnpy\t{}\t{}\tN", hex(f), nats(&s)));
        }
        // failure at every byte offset (including "fails instead of reporting end of file")
        for k in 0..=f.len() {
            out.push(format!("io.rdnpy\t{}\t{}\t{k}", hex(f), nats(&sched(rng, f.len()))));
        }
        // damaged files over chunked readers: same verdict as the whole-buffer reader
        for _ in 0..20 { let n = rng.below(f.len() as u64) as usize; out.push(format!("io.rdnpy\t{}\t{}\tN", hex(&f[..n]), nats(&sched(rng, n)))); }
        // text reader
        let mut tb = Vec::new();
        write::Builder::default().set_format(Format::Text).set_precision(rng.range(0, 8) as usize).write(&mut tb, &Scs::new(data.clone(), shape.clone()).unwrap()).unwrap();
        for first in 1..=tb.len().min(if t { 600 } else { 120 }) {
            let mut s = vec![first]; if first % 2 == 0 { s.extend(std::iter::repeat(1).take(tb.len())); }
            out.push(format!("io.rdtext\t{}\t{}\tN", hex(&tb), nats(&s)));
        }
        for k in 0..=tb.len() { if t || k % 2 == 0 || k + 3 > tb.len() { out.push(format!("io.rdtext\t{}\t{}\t{k}", hex(&tb), nats(&sched(rng, tb.len())))); } }
        // the same with a header line the reader refuses (a letter inside the shape; no closing bracket): the header is parsed before the
        // rest is read, so a failure behind the header line is never reached, one inside it is
        for variant in 0..2 {
            let mut bad = tb.clone();
            if let Some(pos) = bad.iter().position(|b| *b == b'<') { if variant == 0 { bad[pos + 1] = b'x'; } else if let Some(gt) = bad.iter().position(|b| *b == b'>') { bad.remove(gt); } }
            for k in 0..=bad.len() { if t || fi < 2 || k % 3 == 0 || k < 24 { out.push(format!("io.rdtext\t{}\t{}\t{k}", hex(&bad), nats(&sched(rng, bad.len())))); } }
            out.push(format!("io.rdtext\t{}\t{}\tN", hex(&bad), nats(&sched(rng, bad.len()))));
        }
        // … and with a value the reader refuses behind a good header
        { let mut bad = tb.clone(); let l = bad.len(); if l > 2 { bad[l - 2] = b'z'; } for k in 0..=bad.len() { if t || k % 4 == 0 || k + 4 > l { out.push(format!("io.rdtext\t{}\t{}\t{k}", hex(&bad), nats(&sched(rng, bad.len())))); } } }
        // writers: short writes (1..7 bytes per call) and failure at every offset
        for fmt in ["npy", "text"] {
            let p = rng.range(0, 9);
            let total = if fmt == "npy" { f.len() } else { let mut b = Vec::new(); write::Builder::default().set_format(Format::Text).set_precision(p as usize).write(&mut b, &Scs::new(data.clone(), shape.clone()).unwrap()).unwrap(); b.len() };
            for acc in 1..=7usize { out.push(format!("io.wr\t{fmt}\t{}\t{}\t{p}\t{}\tN", nats(shape), bits(data), nats(&vec![acc; total + 2]))); }
            out.push(format!("io.wr\t{fmt}\t{}\t{}\t{p}\t{}\tN", nats(shape), bits(data), nats(&sched(rng, total))));
            for k in 0..=total + 1 { if t || fi < 3 || k % 3 == 0 { out.push(format!("io.wr\t{fmt}\t{}\t{}\t{p}\t{}\t{k}", nats(shape), bits(data), nats(&sched(rng, total)))); } }
        }
    }
    // output to a path on a device that fails every write (`-o /dev/full`): small outputs (inside any buffer) and larger ones
    for (si, side) in [1usize, 2, 3, 8, 40, 70].into_iter().enumerate() {
        let n = side * side;
        let data: Vec<f64> = (0..n).map(|j| (j % 11) as f64).collect();
        for (cmd, args) in [("view", "-O text"), ("view", "-O npy"), ("fold", "--fill zero")] {
            if !t && si % 2 == 1 && cmd == "fold" { continue; }
            out.push(format!("io.devfull\t{cmd}\t{args}\t{side},{side}\t{}", bits(&data)));
            // … and to a pipe whose reader is gone (EPIPE instead of ENOSPC)
            if si % 2 == 0 || t { out.push(format!("io.epipe\t{cmd}\t{args}\t{side},{side}\t{}", bits(&data))); }
        }
        if si % 3 == 0 { out.push(format!("io.epipe\tstat\t-s sum\t{side},{side}\t{}", bits(&data))); }
    }
    // npy versions 2.0 / 3.0 with a header longer than 65535 bytes (the case the 4-byte length field exists for) through readers that
    // hand the stream over in pieces: whatever is in the reader's buffer after the preamble, the header is read in full
    for (vi, major) in [2u8, 3].into_iter().enumerate() {
        if !t && vi == 1 { continue; }
        let dict = "{'descr': '<f8', 'fortran_order': False, 'shape': (5,), }";
        let mut d = dict.as_bytes().to_vec();
        let target = 65588 + 64 * vi;
        d.extend(std::iter::repeat(b' ').take(target - 1 - d.len())); d.push(b'\n');
        let mut f = b"\x93NUMPY".to_vec(); f.push(major); f.push(0); f.extend((d.len() as u32).to_le_bytes()); f.extend(&d);
        for v in [25.0f64, 8.0, 4.0, 2.0, 1.0] { f.extend(v.to_le_bytes()); }
        let l = f.len();
        for sc in [vec![], vec![8192; l / 8192 + 2], vec![4096; l / 4096 + 2], vec![13, l], vec![100, 8192, l], vec![12, l], vec![65536, l], vec![65548, 7, 7, 7, 7, 7, 7], vec![1000; l / 1000 + 2], vec![11, 1, 1, 1, l]] {
            out.push(format!("io.rdnpy\t{}\t{}\tN", hex(&f), nats(&sc)));
        }
        for k in [0usize, 5, 11, 12, 13, 4096, 65547, l - 41, l - 40, l - 1, l] { out.push(format!("io.rdnpy\t{}\t{}\t{k}", hex(&f), nats(&vec![8192; l / 8192 + 2]))); }
    }
    // stdout is a file that cannot grow beyond a limit (disk full / quota): the limit inside the header, inside the values, inside the
    // last bytes (which a buffered writer hands over only when it is flushed), at and beyond the full length
    for (si, n) in [3usize, 20, 200, 1100].into_iter().enumerate() {
        let data: Vec<f64> = (0..n).map(|j| ((j * 7 + si) % 23) as f64 + if j % 5 == 0 { 0.5 } else { 0.0 }).collect();
        for fmt in ["npy", "text"] {
            let p = 2 + si;
            let total = if fmt == "npy" { 128 + 8 * n } else { let mut b = Vec::new(); write::Builder::default().set_format(Format::Text).set_precision(p).write(&mut b, &Scs::new(data.clone(), vec![n]).unwrap()).unwrap(); b.len() };
            let mut limits: Vec<usize> = vec![0, 1, 64, 127, 128, 129, 136, total / 2, total - 25, total - 9, total - 8, total - 7, total - 2, total - 1, total, total + 1, total + 100];
            if total > 1024 { limits.extend([1023, 1024, 1025, total - 1024, total - 1023, total - 600]); }
            limits.retain(|l| *l <= total + 100); limits.sort(); limits.dedup();
            for (li, l) in limits.into_iter().enumerate() { if t || si < 2 || li % 2 == 0 || l + 30 > total { out.push(format!("io.fsize\t{fmt}\t{p}\t{n}\t{}\t{l}", bits(&data))); } }
        }
    }
    // a named pipe given as the input PATH carrying more than 64 KiB of plain VCF (and of BGZF VCF): everything behind the detection
    // prefix must arrive as it does from a regular file
    {
        let ncols = 4; let nrec = if t { 5000 } else { 2600 };
        let recs: Vec<String> = (0..nrec).map(|r| format!("1~{}~{}", r + 1, (0..ncols).map(|c| if r < nrec / 3 { ["0/1", "0|1", "1/0", "0/1"][c] } else { ["1/1", "1|1", "0/1", "1/1"][(c + r) % 4] }).collect::<Vec<_>>().join(","))).collect();
        let cols = "s0,s1,s2,s3";
        for (container, transport) in [("vcf", "fifo20"), ("vcf", "fifo70000"), ("vcfgz", "fifo1"), ("vcf", "path"), ("vcf", "stdin")] {
            out.push(format!("c12.cli\t{container}\t{transport}\t4\t0\t0\t{cols}\tN\tN\t0\t-\t{}", recs.join(";")));
        }
    }
    // the same with the output going to a regular file named by `-o`: a write that fails part-way must fail the run (whatever is done
    // about the partial file afterwards)
    for (si, n) in [3usize, 200, 3001].into_iter().enumerate() {
        let data: Vec<f64> = (0..n).map(|j| ((j * 5 + si) % 19) as f64 + 0.25).collect();
        for (cmd, fmt) in [("view", "npy"), ("view", "text")] {
            let total = if fmt == "npy" { 128 + 8 * n } else { let mut b = Vec::new(); write::Builder::default().set_format(Format::Text).set_precision(6).write(&mut b, &Scs::new(data.clone(), vec![n]).unwrap()).unwrap(); b.len() };
            for l in [0usize, 100, total / 2, 8192, total.saturating_sub(5), total + 4096] {
                if l == 8192 && total < 9000 { continue; }
                out.push(format!("io.fsizeo\t{cmd}\t{fmt}\t6\t{n}\t{}\t{l}", bits(&data)));
            }
        }
    }
    // a call set larger than the 64 KiB detection prefix: chunk boundaries before, at and after offset 65536
    {
        let ncols = 4usize;
        let nrec = if t { 6000 } else { 2500 };
        let mut g = crate::creategen::Gen { rng: &mut *rng };
        let assign: Vec<Option<usize>> = vec![Some(0), Some(1), Some(0), None];
        let mut recs = Vec::new();
        for r in 0..nrec { recs.push((format!("chr{}", 1 + r * 3 / nrec), 100 + 3 * r, crate::creategen::record(&mut g, &assign, [85, 10, 5, 0], false, false))); }
        let recs_s = crate::creategen::records_str(&recs);
        let colss = crate::creategen::cols(ncols).join(",");
        for container in ["vcf", "rawbcf", "bcf", "vcfgz"] {
            let base = format!("io.geno\t{container}\t0\t0\t{colss}\ts:s0=A,s1=B,s2=A\tN\t{recs_s}");
            for sc in [vec![], vec![65536], vec![65535], vec![65537], vec![1], vec![27, 65509], vec![8192; 40], vec![4096, 61440, 1], vec![100000], vec![70000, 5], vec![65536, 1, 1, 1], vec![30000, 30000, 30000]] {
                out.push(format!("{base}\t{}\tN", nats(&sc)));
            }
            for pm in [100usize, 500, 900, 999, 1000] { out.push(format!("{base}\t{}\t{pm}", nats(&[50000usize, 50000]))); }
        }
    }
    // genotype reader over chunk-scheduled streams: vcf / vcf.gz / bcf / raw bcf
    let ncs = if t { 12 } else { 3 };
    for ci in 0..ncs {
        let ncols = rng.range(2, 5) as usize;
        let nrec = if ci == 0 { 3 } else { rng.range(2, 40) as usize };
        let mut g = crate::creategen::Gen { rng: &mut *rng };
        let assign = g.assignment(ncols, if ci % 2 == 0 { 1 } else { 2 }, 20);
        let mut recs = Vec::new();
        for r in 0..nrec { recs.push((format!("chr{}", 1 + r * 2 / nrec.max(1)), 100 + 7 * r, crate::creategen::record(&mut g, &assign, [80, 15, 5, 0], false, false))); }
        let order: Vec<usize> = (0..ncols).filter(|c| assign[*c].is_some()).collect();
        let sl = if order.is_empty() || ci % 3 == 0 { "N".to_string() } else { crate::creategen::samples_arg(&order, &assign, None, false) };
        let proj = if ci % 3 == 1 { let sizes = crate::creategen::pop_sizes(&order, &assign); if sl == "N" { format!("shape:{}", 2 * ncols - 1) } else { format!("shape:{}", sizes.iter().map(|n| (2 * n).max(1).to_string()).collect::<Vec<_>>().join(",")) } } else { "N".to_string() };
        let recs_s = crate::creategen::records_str(&recs);
        let colss = crate::creategen::cols(ncols).join(",");
        for container in ["vcf", "vcfgz", "bcf", "rawbcf"] {
            let layout = 1 + (ci as u64 % 3);
            let base = format!("io.geno\t{container}\t{layout}\t{}\t{colss}\t{sl}\t{proj}\t{recs_s}", ci % 2);
            // first chunk exhaustively 1..=limit, then typical pipe sizes
            let limit = if t { 600 } else { 150 };
            for first in 1..=limit {
                let mut s = vec![first];
                match first % 4 { 0 => {}, 1 => s.extend(std::iter::repeat(1).take(200)), 2 => s.extend((0..400).map(|_| g.rng.range(1, 9) as usize)), _ => s.extend((0..100).map(|_| g.rng.log_range(1, 70000) as usize)) }
                out.push(format!("{base}\t{}\tN", nats(&s)));
            }
            for first in [4096usize, 8192, 65535, 65536, 65537] { out.push(format!("{base}\t{first}\tN")); }
            out.push(format!("{base}\t{}\tN", nats(&vec![1; 3000])));
            // the real binary reading a named pipe given as the input path (not the stdin route, not the hook): first write of 1 / 2 / 3 / 19 / 27 bytes
            for first in [1usize, 2, 3, 19, 27] {
                if !t && (first + ci) % 2 == 1 { continue; }
                out.push(format!("c12.cli\t{container}\tfifo{first}\t4\t{layout}\t{}\t{colss}\t{sl}\t{proj}\t0\t{}\t{recs_s}", ci % 2, if proj == "N" { "-" } else { "6" }));
            }
            // failures (per-mille offsets of the container)
            for pm in (0..=1000).step_by(if t { 10 } else { 50 }) { out.push(format!("{base}\t{}\t{pm}", nats(&sched(g.rng, 50)))); }
        }
    }
}
