//! Line protocol helpers: `op \t arg \t ... \t => \t result`.
pub fn nats(xs: &[usize]) -> String {
    if xs.is_empty() { "-".into() } else { xs.iter().map(|x| x.to_string()).collect::<Vec<_>>().join(",") }
}
pub fn parse_nats(s: &str) -> Vec<usize> {
    if s == "-" || s.is_empty() { vec![] } else { s.split(',').map(|x| x.parse().expect("nat")).collect() }
}
pub fn bits(xs: &[f64]) -> String {
    if xs.is_empty() { "-".into() } else { xs.iter().map(|x| format!("{:016x}", x.to_bits())).collect::<Vec<_>>().join(",") }
}
pub fn parse_bits(s: &str) -> Vec<f64> {
    if s == "-" || s.is_empty() { vec![] } else { s.split(',').map(|x| f64::from_bits(u64::from_str_radix(x, 16).expect("hex"))).collect() }
}
pub fn hex(bytes: &[u8]) -> String {
    if bytes.is_empty() { return "-".into(); }
    let mut s = String::with_capacity(bytes.len() * 2);
    for b in bytes { s.push_str(&format!("{:02x}", b)); }
    s
}
pub fn parse_hex(s: &str) -> Vec<u8> {
    if s == "-" { return vec![]; }
    (0..s.len() / 2).map(|i| u8::from_str_radix(&s[2 * i..2 * i + 2], 16).expect("hex")).collect()
}
/// run `f`, mapping a panic to the string `PANIC`
pub fn guarded<F: FnOnce() -> String + std::panic::UnwindSafe>(f: F) -> String {
    match std::panic::catch_unwind(f) {
        Ok(s) => s,
        Err(e) => {
            let msg = if let Some(s) = e.downcast_ref::<&str>() { s.to_string() } else if let Some(s) = e.downcast_ref::<String>() { s.clone() } else { "?".into() };
            format!("PANIC({})", msg.replace(['\t', '\n'], " "))
        }
    }
}
