//! `sfs create` cases shared by C01, C02, C08, C09, C10, C11, C12: in-process site reader over an in-memory
//! genotype reader (`<prop>.mem`) and the real binary on generated VCF / BCF / BGZF files (`<prop>.cli`, `c12.same`).
use crate::{cli, proto::*, vcf::{self, CallSet, Record}, Ctx};
use sfs_core::input::{genotype::{self, Genotype, Skipped}, sample::{Population, Sample}, site::{self, reader::builder::{Project, Samples}, Site}, ReadStatus};

// ---------- request encoding ----------
// cols        : a,b,c
// samples     : N | s:<item,item> | S:<item,item>   (item = name or name=pop; S = via --samples-file)
// project     : N | shape:a,b | ind:a,b
// records     : contig~pos~gt,gt,gt ; ...     (gt strings for .cli; codes 0 1 2 m x p for .mem)   corrupt: contig~pos~!kind

const LATIN1_MARK: &str = "\u{1}latin1";
pub const CRLF_MARK: &str = "\u{1}crlf";
const CRLF_NOEND_MARK: &str = "\u{1}crlfnoend";
pub const FIFO_MARK: &str = "\u{1}fifo";
pub fn parse_samples(s: &str) -> Option<(bool, Vec<(String, Option<String>)>)> {
    if s == "N" { return None; }
    // `s:` inline list, `S:` samples file, `F:` samples file that is a named pipe (marked by a sentinel item)
    // `R:` samples file with Windows line endings (every line ends in CR LF), `Q:` the same without line ending after the last line
    // `L:` samples file whose LAST line carries a byte that is not valid UTF-8 (a Latin-1 export): the file cannot be read, the run fails
    let file = s.starts_with("S:") || s.starts_with("F:") || s.starts_with("R:") || s.starts_with("Q:") || s.starts_with("L:");
    let body = &s[2..];
    let mut items: Vec<(String, Option<String>)> = if body.is_empty() { vec![] } else {
        body.split(',').map(|it| match it.split_once('=') { Some((k, v)) => (k.to_string(), Some(v.to_string())), None => (it.to_string(), None) }).collect()
    };
    if s.starts_with("F:") { items.push((FIFO_MARK.to_string(), None)); }
    if s.starts_with("R:") { items.push((CRLF_MARK.to_string(), None)); }
    if s.starts_with("Q:") { items.push((CRLF_NOEND_MARK.to_string(), None)); }
    if s.starts_with("L:") { items.push((LATIN1_MARK.to_string(), None)); }
    Some((file, items))
}

pub fn parse_project(s: &str) -> Option<(bool, Vec<usize>)> {
    if s == "N" { None } else if let Some(r) = s.strip_prefix("shape:") { Some((false, parse_nats(r))) } else { Some((true, parse_nats(&s[4..]))) }
}

pub fn parse_records(s: &str) -> Vec<Record> {
    if s == "-" || s.is_empty() { return vec![]; }
    s.split(';').map(|r| {
        let f: Vec<&str> = r.splitn(3, '~').collect();
        let (gts, corrupt) = if let Some(k) = f[2].strip_prefix('!') { (vec![], Some(k.to_string())) } else { (f[2].split(',').map(|x| x.to_string()).collect(), None) };
        Record { contig: f[0].to_string(), pos: f[1].parse().unwrap(), gts, corrupt }
    }).collect()
}

// ---------- in-process ----------
struct MemReader { samples: Vec<Sample>, recs: Vec<Vec<genotype::Result>>, sites: Vec<(String, usize)>, pos: usize }
impl genotype::Reader for MemReader {
    // contig and position of the record read last, as the VCF / BCF readers report them (positions may repeat)
    fn current_contig(&self) -> &str { if self.pos == 0 { "mem" } else { &self.sites[self.pos - 1].0 } }
    fn current_position(&self) -> usize { if self.pos == 0 { 0 } else { self.sites[self.pos - 1].1 } }
    fn read_genotypes(&mut self) -> ReadStatus<Vec<genotype::Result>> {
        if self.pos < self.recs.len() { self.pos += 1; ReadStatus::Read(self.recs[self.pos - 1].clone()) } else { ReadStatus::Done }
    }
    fn samples(&self) -> &[Sample] { &self.samples }
}
fn code_to_result(c: &str) -> genotype::Result {
    match c {
        "0" => genotype::Result::Genotype(Genotype::Zero), "1" => genotype::Result::Genotype(Genotype::One), "2" => genotype::Result::Genotype(Genotype::Two),
        "m" => genotype::Result::Skipped(Skipped::Missing), "x" => genotype::Result::Skipped(Skipped::Multiallelic),
        _ => genotype::Result::Error(genotype::Error::PloidyError),
    }
}

/// `<prop>.mem cols samples project records` -> `OK shape|bits|sites|skipped|kinds` / `ERR build <kind>` / `ERR genotype <record index>`
pub fn eval_mem(a: &[&str]) -> Option<String> {
    let cols: Vec<String> = a[0].split(',').map(|s| s.to_string()).collect();
    let samples = parse_samples(a[1]);
    let project = parse_project(a[2]);
    let recs = parse_records(a[3]);
    let mem = MemReader { samples: cols.iter().map(Sample::from).collect(), pos: 0, sites: recs.iter().map(|r| (r.contig.clone(), r.pos)).collect(),
        recs: recs.iter().map(|r| r.gts.iter().map(|g| code_to_result(g)).collect()).collect() };
    let mut b = site::reader::Builder::default();
    if let Some((_, items)) = samples {
        b = b.set_samples(Some(Samples::List(items.into_iter().map(|(k, v)| (Sample::from(k), Population::from(v))).collect())));
    }
    if let Some((ind, v)) = project { b = b.set_project(Some(if ind { Project::Individuals(v) } else { Project::Shape(v.into()) })); }
    let mut reader = match b.build(Box::new(mem)) {
        Ok(r) => r,
        Err(e) => {
            return Some(format!("ERR build {}", build_err_tag_typed(&e)));
        }
    };
    let mut scs = reader.create_zero_scs();
    let (mut sites, mut skipped) = (0usize, 0usize);
    let mut kinds = String::new();
    loop {
        match reader.read_site() {
            ReadStatus::Read(Site::Standard(c)) => { scs[c] += 1.0; kinds.push('S'); }
            ReadStatus::Read(Site::Projected(p)) => { p.add_unchecked(&mut scs); kinds.push('P'); }
            ReadStatus::Read(Site::InsufficientData) => { skipped += 1; kinds.push('I'); }
            ReadStatus::Error(_) => return Some(format!("ERR genotype {sites}")),
            ReadStatus::Done => break,
        }
        sites += 1;
    }
    Some(format!("OK {}|{}|{}|{}|{}", nats(scs.shape()), bits(scs.inner().as_slice()), sites, skipped, if kinds.is_empty() { "-".into() } else { kinds }))
}

/// the first `'contig:position'` (or `contig:position` after "site") in an error text, whatever the words around it
fn quoted_site(stderr: &str) -> Option<String> {
    for line in stderr.lines().rev() {
        let b: Vec<char> = line.chars().collect();
        let mut i = 0;
        while i < b.len() {
            if b[i] == '\'' || b[i] == '"' || b[i] == '`' {
                let q = b[i];
                if let Some(len) = b[i + 1..].iter().position(|c| *c == q) {
                    let inner: String = b[i + 1..i + 1 + len].iter().collect();
                    if let Some((c, p)) = inner.rsplit_once(':') { if !c.is_empty() && !p.is_empty() && p.chars().all(|d| d.is_ascii_digit()) { return Some(inner); } }
                    i += len + 2; continue;
                }
            }
            i += 1;
        }
    }
    None
}

/// the builder's error by its VARIANT and fields (in-process cases), not by the wording of its message
pub fn build_err_tag_typed(e: &site::reader::builder::Error) -> String {
    use sfs_core::spectrum::ProjectionError as P;
    use site::reader::builder::Error as E;
    match e {
        E::EmptySamplesMap => "empty".into(),
        E::UnknownSample { sample } => format!("unknown {}", sample.trim()),
        E::Projection(P::UnequalDimensions { .. }) => "proj-dims".into(),
        E::Projection(P::InvalidProjection { dimension, .. }) => format!("proj-invalid {dimension}"),
        E::Projection(P::Zero) => "proj-zero".into(),
        E::Projection(P::Empty) => "proj-empty".into(),
        other => build_err_tag(&other.to_string()),
    }
}

pub fn build_err_tag(s: &str) -> String {
    if s.contains("empty samples mapping") { "empty".into() }
    else if let Some(r) = s.strip_prefix("unknown sample ") { format!("unknown {}", r.trim()) }
    else if s == "unknown sample" { "unknown ".into() }     // the empty sample name (the caller trims the line)
    else if s.contains("one number of dimensions") { "proj-dims".into() }
    else if s.contains("cannot project from count") {
        let d: String = s.rsplit("dimension ").next().unwrap_or("").chars().take_while(|c| c.is_ascii_digit()).collect();
        format!("proj-invalid {d}")
    }
    else if s.contains("shape zero") { "proj-zero".into() }
    else { format!("other:{}", s.chars().take(60).collect::<String>()) }
}

// ---------- CLI ----------
pub struct CliSpec<'a> { pub container: &'a str, pub transport: &'a str, pub threads: usize, pub layout: u64 }

fn bgzf_end_of(layout: u64) -> vcf::BgzfEnd { match (layout / 4) % 3 { 0 => vcf::BgzfEnd::Marker, 1 => vcf::BgzfEnd::None, _ => vcf::BgzfEnd::StoredEmpty } }

/// Layout numbers: `layout % 4` the block partition, `(layout / 4) % 3` how a BGZF stream ends, and `(layout / 12) % 4` a variant of the
/// stream's two ends: 1 = the VCF text does not end in a newline and a block boundary falls inside (and right before the end of) its
/// last line; 2 = the BGZF stream starts with an empty block; 3 = the first BGZF block holds two bytes only.
pub fn container_bytes(cs: &CallSet, container: &str, layout: u64) -> Option<Vec<u8>> {
    let variant = (layout / 12) % 4;
    let mut text = vcf::vcf_text(cs);
    if variant == 1 && !cs.recs.is_empty() && text.last() == Some(&b'\n') { text.pop(); }
    let ends = |data: &[u8], mut c: Vec<usize>, is_text: bool| -> Vec<usize> {
        if variant == 1 && is_text { let l = data.len(); let last_line = data.iter().rposition(|b| *b == b'\n').map(|p| p + 1).unwrap_or(0); c.push(last_line + (l - last_line) / 2); c.push(l.saturating_sub(1)); c.push(l.saturating_sub(2)); }
        if variant == 3 { c.push(2); }
        c
    };
    let lead = |mut out: Vec<u8>| -> Vec<u8> { if variant == 2 { let mut o = vcf::bgzf_block(&[]); o.append(&mut out); o } else { out } };
    let mut r = crate::rng::Rng::new(layout);
    let cuts = |len: usize, r: &mut crate::rng::Rng| -> Vec<usize> {
        match layout % 4 {
            0 => vec![],                                                                    // one block (<= 60 kB pieces)
            1 => (0..len).filter(|i| *i > 0 && text.get(*i - 1) == Some(&b'\n') || false).collect(), // one line per block (vcf); for bcf falls back to random below
            2 => (0..1 + len / 37).map(|_| r.below(len.max(1) as u64) as usize).collect(), // random cuts, also mid-line
            _ => (1..len).step_by(1 + len / 9).collect(),
        }
    };
    match container {
        "vcf" => Some(text),
        // layouts 4..7 repeat 0..3 without the end-of-file marker block (4, 5) or with an empty stored block in its place (6, 7)
        "vcfgz" => { let c = ends(&text, cuts(text.len(), &mut r), true); Some(lead(vcf::bgzf_end(&text, &c, layout % 2 == 0, bgzf_end_of(layout)))) }
        "rawbcf" => raw_bcf(cs, &text),
        "bcf" => { let raw = raw_bcf(cs, &text)?; let c: Vec<usize> = if layout % 4 == 1 { (0..1 + raw.len() / 23).map(|_| r.below(raw.len().max(1) as u64) as usize).collect() } else { cuts(raw.len(), &mut r) }; let c = ends(&raw, c, false); Some(lead(vcf::bgzf_end(&raw, &c, layout % 2 == 1, bgzf_end_of(layout)))) }
        _ => None,
    }
}

/// raw BCF: noodles' writer for uniform-ploidy call sets with extra fields, the hand-written encoder otherwise
fn raw_bcf(cs: &CallSet, text: &[u8]) -> Option<Vec<u8>> {
    let ploidy = |g: &str| g.matches(|c| c == '/' || c == '|').count();
    let uniform = cs.recs.iter().all(|r| r.gts.windows(2).all(|w| ploidy(&w[0]) == ploidy(&w[1])));
    if (cs.extras || cs.wide % 2 == 1) && uniform && cs.wide < 1000 { vcf::to_raw_bcf(text).or_else(|| vcf::raw_bcf_simple(cs)) } else { vcf::raw_bcf_simple(cs) }
}

fn create_args(samples: &Option<(bool, Vec<(String, Option<String>)>)>, project: &Option<(bool, Vec<usize>)>, strict: bool, precision: Option<usize>, threads: usize,
               work: &str, uniq: &str, files: &mut Vec<String>) -> Vec<String> {
    let mut args = vec!["create".to_string()];
    if let Some((file, items)) = samples {
        if *file {
            let path = format!("{work}/tmp/{uniq}.samples");
            let fifo = items.iter().any(|(k, _)| k == FIFO_MARK);
            let crlf = items.iter().any(|(k, _)| k == CRLF_MARK); let crlf_noend = items.iter().any(|(k, _)| k == CRLF_NOEND_MARK);
            let latin1 = items.iter().any(|(k, _)| k == LATIN1_MARK);
            let is_mark = |k: &str| k == FIFO_MARK || k == CRLF_MARK || k == CRLF_NOEND_MARK || k == LATIN1_MARK;
            let mut body: String = items.iter().filter(|(k, _)| !is_mark(k)).map(|(k, v)| match v { Some(p) => format!("{k}\t{p}\n"), None => format!("{k}\n") }).collect();
            if crlf || crlf_noend { body = body.replace('\n', "\r\n"); }
            if crlf_noend && body.ends_with("\r\n") { body.truncate(body.len() - 2); }
            if fifo {
                // the samples file is a named pipe (as with `-S <(cut -f1,2 meta.tsv)`): not a regular file, readable once
                let _ = std::fs::remove_file(&path);
                if std::process::Command::new("mkfifo").arg(&path).status().map(|s| s.success()).unwrap_or(false) {
                    let p2 = path.clone();
                    // write-only open blocks until the reader has opened the pipe; the writer is detached (a run that never opens the list must not hang the harness)
                    std::thread::spawn(move || { use std::io::Write; if let Ok(mut f) = std::fs::OpenOptions::new().write(true).open(&p2) { let _ = f.write_all(body.as_bytes()); } });
                } else { std::fs::write(&path, body).unwrap(); }
            } else if latin1 {
                // the byte 0xE9 in front of the last line's first tab (or line end)
                let mut bytes = body.clone().into_bytes();
                let start = bytes[..bytes.len().saturating_sub(1)].iter().rposition(|b| *b == b'\n').map(|p| p + 1).unwrap_or(0);
                let at = bytes[start..].iter().position(|b| *b == b'\t' || *b == b'\n').map(|p| start + p).unwrap_or(bytes.len());
                bytes.insert(at, 0xE9);
                std::fs::write(&path, bytes).unwrap();
            } else { std::fs::write(&path, body).unwrap(); }
            files.push(path.clone());
            args.push("-S".into()); args.push(path);
        } else {
            args.push("-s".into());
            args.push(items.iter().map(|(k, v)| match v { Some(p) => format!("{k}={p}"), None => k.clone() }).collect::<Vec<_>>().join(","));
        }
    }
    if let Some((ind, v)) = project {
        args.push(if *ind { "-p".into() } else { "--project-shape".into() });
        args.push(v.iter().map(|x| x.to_string()).collect::<Vec<_>>().join(","));
    }
    if strict { args.push("--strict".into()); }
    if let Some(p) = precision { args.push("--precision".into()); args.push(p.to_string()); }
    if threads != 4 { args.push("-t".into()); args.push(threads.to_string()); }
    args
}

pub fn canon(o: &cli::Out) -> String {
    let class = cli::class(o);
    let summary = o.stderr.find("Skipped ").and_then(|i| {
        let rest = &o.stderr[i + 8..];
        let end = rest.find(" sites")?; Some(rest[..end].to_string())
    }).unwrap_or_else(|| {
        // a summary in a wording this harness does not know (a line that mentions skipping and carries numbers): reported as such, so that
        // the comparison can say "not checkable" instead of "wrong"
        // (the LAST such line that is not a per-site / per-sample message: the summary comes at the end of the run)
        match o.stderr.lines().filter(|l| l.to_ascii_lowercase().contains("skip") && l.chars().any(|c| c.is_ascii_digit()) && !l.contains("Skipping s")).last() {
            Some(l) => { let l = l.split(']').last().unwrap_or(l); format!("?{}", l.chars().map(|c| if c.is_ascii_digit() || c == '/' { c } else { ' ' }).collect::<String>().split_whitespace().collect::<Vec<_>>().join(",")) }
            None => "-".into(),
        }
    });
    let site_after = |pat: &str| -> Option<String> { o.stderr.find(pat).map(|i| { let r = &o.stderr[i + pat.len()..]; r[..r.find('\'').unwrap_or(0)].to_string() }) };
    let (errkind, errsite) = if let Some(s) = site_after("encountered genotype error at site '") { ("genotype".to_string(), s) }
        else if let Some(s) = site_after("genotype at site '") { ("strict".to_string(), s) }
        else if let (true, Some(site)) = (class == "ERR", quoted_site(&o.stderr)) { ("site?".to_string(), site) }   // an error naming a site, in a wording this harness does not know
        else if class == "ERR" { (format!("build:{}", build_err_tag(o.stderr.lines().last().unwrap_or("").trim())), "-".to_string()) }
        else { ("-".to_string(), "-".to_string()) };
    let out = if o.stdout.is_empty() { "-".to_string() } else { String::from_utf8_lossy(&o.stdout).replace('\n', "\\n").replace('\t', "\\t") };
    let panic = if class == "PANIC" { format!("|panic={}", o.stderr.lines().find(|l| l.contains("panicked")).unwrap_or("").replace('\t', " ")) } else { String::new() };
    format!("{class}|out={out}|summary={summary}|errkind={errkind}|errsite={errsite}{panic}")
}

/// run the binary once for a call set
pub fn run_create(ctx: &Ctx, cs: &CallSet, spec: &CliSpec, samples: &Option<(bool, Vec<(String, Option<String>)>)>, project: &Option<(bool, Vec<usize>)>,
                  strict: bool, precision: Option<usize>, uniq: &str) -> Option<cli::Out> {
    std::fs::create_dir_all(format!("{}/tmp", ctx.work)).ok();
    let bytes = container_bytes(cs, spec.container, spec.layout)?;
    let mut files = Vec::new();
    let mut args = create_args(samples, project, strict, precision, spec.threads, &ctx.work, uniq, &mut files);
    let out = if spec.transport == "path" {
        let ext = match spec.container { "vcf" => "vcf", "vcfgz" => "vcf.gz", _ => "bcf" };
        let path = format!("{}/tmp/{uniq}.{ext}", ctx.work);
        std::fs::write(&path, &bytes).unwrap(); files.push(path.clone());
        args.push(path);
        cli::run_sfs(&ctx.sfs_bin, &args, &[])
    } else if let Some(k) = spec.transport.strip_prefix("fifo") {
        // a named pipe given as the input path: the first write delivers `k` bytes, the rest follows after a pause
        let k: usize = k.parse().unwrap_or(1).min(bytes.len());
        let path = format!("{}/tmp/{uniq}.fifo", ctx.work);
        let _ = std::fs::remove_file(&path);
        if !std::process::Command::new("mkfifo").arg(&path).status().map(|s| s.success()).unwrap_or(false) { return None; }
        files.push(path.clone());
        args.push(path.clone());
        let data = bytes.clone();
        // opened read+write so that the open never blocks; the writer is detached (a reader that never opens the pipe must not hang the harness)
        std::thread::spawn(move || {
            use std::io::Write;
            if let Ok(mut f) = std::fs::OpenOptions::new().read(true).write(true).open(&path) {
                std::thread::sleep(std::time::Duration::from_millis(60));
                let _ = f.write_all(&data[..k]); let _ = f.flush();
                std::thread::sleep(std::time::Duration::from_millis(160));
                let _ = f.write_all(&data[k..]);
            }
        });
        cli::run_sfs(&ctx.sfs_bin, &args, &[])
    } else { cli::run_sfs(&ctx.sfs_bin, &args, &bytes) };
    for f in files { let _ = std::fs::remove_file(f); }
    Some(out)
}

fn uniq_of(a: &[&str]) -> String {
    use std::hash::{Hash, Hasher};
    let mut h = std::collections::hash_map::DefaultHasher::new();
    a.hash(&mut h); std::thread::current().id().hash(&mut h);
    format!("c{:016x}", h.finish())
}

/// `<prop>.cli container transport threads layout extras cols samples project strict precision records`
pub fn eval_cli(ctx: &Ctx, a: &[&str]) -> Option<String> {
    let spec = CliSpec { container: a[0], transport: a[1], threads: a[2].parse().ok()?, layout: a[3].parse().ok()? };
    let cs = CallSet { cols: a[5].split(',').map(|s| s.to_string()).collect(), recs: parse_records(a[10]), extras: a[4] == "1", wide: a[4].strip_prefix('w').and_then(|x| x.parse().ok()).unwrap_or(0) };
    let samples = parse_samples(a[6]);
    let project = parse_project(a[7]);
    let precision = if a[9] == "-" { None } else { a[9].parse().ok() };
    match run_create(ctx, &cs, &spec, &samples, &project, a[8] == "1", precision, &uniq_of(a)) {
        Some(o) => Some(canon(&o)),
        None => Some("UNBUILDABLE".into()),
    }
}

/// `ct.create container cols samples project strict precision records hexbytes` : the binary on exactly these bytes (stdin)
pub fn eval_bytes(ctx: &Ctx, a: &[&str]) -> Option<String> {
    let bytes = parse_hex(a[7]);
    let samples = parse_samples(a[2]);
    let project = parse_project(a[3]);
    let precision = if a[5] == "-" { None } else { a[5].parse().ok() };
    std::fs::create_dir_all(format!("{}/tmp", ctx.work)).ok();
    let mut files = Vec::new();
    let args = create_args(&samples, &project, a[4] == "1", precision, 4, &ctx.work, &uniq_of(a), &mut files);
    let o = cli::run_sfs(&ctx.sfs_bin, &args, &bytes);
    for f in files { let _ = std::fs::remove_file(f); }
    Some(canon(&o))
}

/// the request line of a byte-level case for a call set in a given container and BGZF layout
pub fn bytes_case(cs: &CallSet, container: &str, layout: u64, cols: &str, samples: &str, project: &str, strict: &str, precision: &str, records: &str) -> Option<String> {
    let bytes = container_bytes(cs, container, layout)?;
    Some(format!("ct.create\t{container}\t{cols}\t{samples}\t{project}\t{strict}\t{precision}\t{records}\t{}", hex(&bytes)))
}

/// `c12.same extras cols samples project strict precision records` : all containers x transports x threads x layouts x repeats
/// `<p>.mass nsamples npops nrec project missing-per-mille seed` — a call set far larger than the model is run on (tens of thousands of
/// records, up to dozens of samples): `sfs create` with projection through the binary; reported are the number of records, the number
/// of sites the summary says were skipped and the mass of the printed spectrum (precision 9). By the conservation theorem of C10 the
/// three are tied whatever the records are: mass + skipped = records.
pub fn eval_mass(ctx: &Ctx, a: &[&str]) -> Option<String> {
    let (ns, np, nrec): (usize, usize, usize) = (a[0].parse().ok()?, a[1].parse().ok()?, a[2].parse().ok()?);
    let proj = a[3]; let miss: u64 = a[4].parse().ok()?; let seed: u64 = a[5].parse().ok()?;
    let mut rng = crate::rng::Rng::new(seed);
    let mut text = String::with_capacity(nrec * (ns * 4 + 30));
    text.push_str("##fileformat=VCFv4.3\n##contig=<ID=1,length=100000000>\n##FORMAT=<ID=GT,Number=1,Type=String,Description=\"Genotype\">\n#CHROM\tPOS\tID\tREF\tALT\tQUAL\tFILTER\tINFO\tFORMAT");
    for i in 0..ns { text.push_str(&format!("\ts{i}")); }
    text.push('\n');
    for r in 0..nrec {
        text.push_str(&format!("1\t{}\t.\tA\tC\t.\t.\t.\tGT", r + 1));
        // the ALT frequency of a record varies, so that the (called, ALT) configurations spread out
        let f = rng.below(1000);
        for _ in 0..ns {
            text.push('\t');
            if rng.below(1000) < miss { text.push_str("./."); } else {
                let x = (rng.below(1000) < f) as u8; let y = (rng.below(1000) < f) as u8;
                text.push((b'0' + x) as char); text.push(if rng.chance(1, 2) { '/' } else { '|' }); text.push((b'0' + y) as char);
            }
        }
        text.push('\n');
    }
    let mut args = vec!["create".to_string(), "--precision".into(), "9".into()];
    if np > 1 { args.push("-s".into()); args.push((0..ns).map(|i| format!("s{i}=P{}", i * np / ns)).collect::<Vec<_>>().join(",")); }
    if let Some(p) = proj.strip_prefix("ind:") { args.push("-p".into()); args.push(p.to_string()); }
    else if let Some(p) = proj.strip_prefix("shape:") { args.push("--project-shape".into()); args.push(p.to_string()); }
    let o = cli::run_sfs(&ctx.sfs_bin, &args, text.as_bytes());
    let class = cli::class(&o);
    if class != "OK" { return Some(format!("{class}|{}", o.stderr.lines().last().unwrap_or("").replace('\t', " "))); }
    let out = String::from_utf8_lossy(&o.stdout);
    let mut lines = out.lines();
    let header = lines.next().unwrap_or("").to_string();
    let mass: f64 = lines.next().unwrap_or("").split_whitespace().filter_map(|t| t.parse::<f64>().ok()).sum();
    // the summary's first number is the number of skipped sites (no summary line: none skipped)
    // (the summary line — "Skipped K/N sites …" — rather than the per-site messages "Skipping site …" that precede it; a wording that
    //  is not known falls back to the LAST line that mentions skipping)
    let summary_line = o.stderr.lines().find(|l| l.contains("Skipped ")).or_else(|| o.stderr.lines().filter(|l| l.to_ascii_lowercase().contains("skip") && !l.contains("Skipping s")).last());
    let skipped: String = match summary_line {
        Some(l) => { let i = l.to_ascii_lowercase().find("skip").unwrap_or(0); l[i..].chars().skip_while(|c| !c.is_ascii_digit()).take_while(|c| c.is_ascii_digit()).collect() }
        None => "0".into(),
    };
    Some(format!("OK|{nrec}|{}|{:016x}|{header}", if skipped.is_empty() { "?".into() } else { skipped }, mass.to_bits()))
}

pub fn eval_same(ctx: &Ctx, a: &[&str]) -> Option<String> {
    let cs = CallSet { cols: a[1].split(',').map(|s| s.to_string()).collect(), recs: parse_records(a[6]), extras: a[0] == "1", wide: a[0].strip_prefix('w').and_then(|x| x.parse().ok()).unwrap_or(0) };
    let samples = parse_samples(a[2]);
    let project = parse_project(a[3]);
    let precision = if a[5] == "-" { None } else { a[5].parse().ok() };
    let thorough = ctx.tier_thorough;
    let threads: &[usize] = if thorough { &[1, 2, 3, 4, 8, 16] } else { &[1, 3, 16] };
    let layouts: &[u64] = if thorough { &[0, 1, 2, 3, 6, 5, 11, 12, 13, 14, 18, 24, 25, 26, 31, 36, 37, 38, 46] } else { &[1, 5, 10, 14, 25, 38] };
    let repeats = if thorough { 3 } else { 2 };
    let mut first: Option<(String, String)> = None;
    let mut n = 0;
    let u = uniq_of(a);
    for container in ["vcf", "vcfgz", "bcf", "rawbcf"] {
        for transport in ["path", "stdin"] {
            for &t in threads {
                for &l in layouts {
                    if (container == "vcf" || container == "rawbcf") && (l != layouts[0] || (t != threads[0] && t != 16)) { continue; }
                    for rep in 0..repeats {
                        let spec = CliSpec { container, transport, threads: t, layout: l };
                        let o = match run_create(ctx, &cs, &spec, &samples, &project, a[4] == "1", precision, &format!("{u}{rep}")) { Some(o) => o, None => return Some("UNBUILDABLE".into()) };
                        let key = format!("{}|{}", cli::class(&o), String::from_utf8_lossy(&o.stdout));
                        n += 1;
                        match &first {
                            None => first = Some((key, format!("{container}/{transport}/t{t}/l{l}"))),
                            Some((k, w)) => if *k != key {
                                return Some(format!("DIFF {container}/{transport}/t{t}/l{l}/rep{rep} vs {w}: [{}] vs [{}]", key.replace('\n', "\\n").chars().take(300).collect::<String>(), k.replace('\n', "\\n").chars().take(300).collect::<String>()));
                            }
                        }
                    }
                }
            }
        }
    }
    // a named pipe as the input path, the writer pausing after the first 1 / 2 / 20 bytes (small call sets only: the pipe must hold the rest)
    for (ci, container) in ["vcf", "vcfgz", "bcf", "rawbcf"].into_iter().enumerate() {
        let len = container_bytes(&cs, container, layouts[0]).map(|b| b.len()).unwrap_or(usize::MAX);
        if len > 60000 { continue; }
        let first_len = [1usize, 2, 20, 1][ci];
        let tr = format!("fifo{first_len}");
        let spec = CliSpec { container, transport: &tr, threads: 4, layout: layouts[0] };
        let o = match run_create(ctx, &cs, &spec, &samples, &project, a[4] == "1", precision, &format!("{u}f{ci}")) { Some(o) => o, None => continue };
        let key = format!("{}|{}", cli::class(&o), String::from_utf8_lossy(&o.stdout));
        n += 1;
        if let Some((k, w)) = &first { if *k != key {
            return Some(format!("DIFF {container}/{tr} vs {w}: [{}] vs [{}]", key.replace('\n', "\\n").chars().take(300).collect::<String>(), k.replace('\n', "\\n").chars().take(300).collect::<String>()));
        } }
    }
    let (k, _) = first?;
    Some(format!("SAME {n} {}", k.replace('\n', "\\n")))
}
