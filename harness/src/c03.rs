//! C03 — projection: `Spectrum::project` in-process (whole operator on exhaustive small shapes, unit vectors and
//! random data) and single coefficients `hypergeometric_pmf` at sizes up to several thousand chromosomes.
use crate::{proto::*, rng::Rng, shapes, Ctx};
use sfs_core::{spectrum::ProjectionError, utils::hypergeometric_pmf, Scs};

pub fn eval(op: &str, a: &[&str]) -> Option<String> {
    match op {
        // c03.project shape databits toShape
        "c03.project" => {
            let scs = Scs::new(parse_bits(a[1]), parse_nats(a[0])).ok()?;
            Some(match scs.project(parse_nats(a[2])) {
                Ok(s) => format!("OK {}|{}", nats(s.shape()), bits(s.inner().as_slice())),
                Err(ProjectionError::Empty) => "ERR empty".into(),
                Err(ProjectionError::InvalidProjection { dimension, from, to }) => format!("ERR invalid {dimension} {from} {to}"),
                Err(ProjectionError::UnequalDimensions { from, to }) => format!("ERR dims {from} {to}"),
                Err(ProjectionError::Zero) => "ERR zero".into(),
            })
        }
        // c03.two shape databits mid to : project in two steps on the implementation
        "c03.two" => {
            let scs = Scs::new(parse_bits(a[1]), parse_nats(a[0])).ok()?;
            let r = scs.project(parse_nats(a[2])).ok().and_then(|m| m.project(parse_nats(a[3])).ok());
            Some(match r { Some(s) => format!("OK {}|{}", nats(s.shape()), bits(s.inner().as_slice())), None => "ERR".into() })
        }
        // c03.row shape srcIndex toShape : one row of the operator (unit vector at srcIndex), any size
        "c03.row" => {
            let shape = parse_nats(a[0]); let idx = parse_nats(a[1]);
            let n: usize = shape.iter().product();
            let mut flat = 0usize; for (i, s) in idx.iter().zip(shape.iter()) { flat = flat * s + i; }
            // optional fourth field: the weight of the source cell (default 1)
            let w = if a.len() > 3 { f64::from_bits(u64::from_str_radix(a[3], 16).ok()?) } else { 1.0 };
            let mut unit = vec![0.0; n]; *unit.get_mut(flat)? = w;
            let scs = Scs::new(unit, shape).ok()?;
            Some(match scs.project(parse_nats(a[2])) {
                Ok(s) => format!("OK {}|{}", nats(s.shape()), bits(s.inner().as_slice())),
                Err(e) => format!("ERR {e}"),
            })
        }
        // c03.pmf N K n k
        "c03.pmf" => {
            let v: Vec<u64> = a.iter().map(|x| x.parse().unwrap()).collect();
            Some(format!("{:016x}", hypergeometric_pmf(v[0], v[1], v[2], v[3]).to_bits()))
        }
        _ => None,
    }
}

pub fn gen(ctx: &Ctx, rng: &mut Rng, out: &mut Vec<String>) {
    // operator rows whose far tail lies many orders of magnitude below the rest (1e-13 … 1e-40): every coefficient is compared with
    // its own exact value, not only with the scale of the row
    for (n, k, m) in [(100usize, 50usize, 40usize), (100, 10, 60), (90, 40, 40), (200, 100, 30), (60, 30, 50), (300, 20, 100)] {
        out.push(format!("c03.row\t{}\t{}\t{}", n + 1, k, m + 1));
    }
    // finite entries whose TOTAL is not finite in binary64 (2^1023 + 2^1023): every projected entry is a finite mixture
    {
        let h = f64::from_bits(0x7fe0000000000000); let q = f64::from_bits(0x7fd0000000000000);
        out.push(format!("c03.project\t3\t{}\t2", bits(&[h, h, 0.0])));
        out.push(format!("c03.project\t3\t{}\t2", bits(&[h, q, h])));
        out.push(format!("c03.project\t3,3\t{}\t2,2", bits(&[q, 0.0, q, 0.0, q, 0.0, q, 0.0, q])));
        out.push(format!("c03.project\t5\t{}\t3", bits(&[h, 0.0, q, 0.0, h])));
    }
    // call histories on one spectrum object (queries, in-place edits, clones, replacement by its own fold / marginal / projection)
    crate::stat::gen_hist(rng, if ctx.tier_thorough { 600 } else { 60 }, 4, out);
    // whole operator: every admissible target of every shape in the grid
    let mut shp = if ctx.tier_thorough { let mut s = shapes::all_shapes(1, 3, 1, 7); s.extend(shapes::all_shapes(4, 4, 1, 3)); s }
                  else { let mut s = shapes::all_shapes(1, 2, 1, 7); s.extend(shapes::all_shapes(3, 3, 1, 3)); s.extend(shapes::all_shapes(4, 4, 1, 2)); s };
    shp.sort(); shp.dedup();
    shp.sort_by_key(|s| (s.iter().product::<usize>(), s.len()));
    for s in &shp {
        let n: usize = s.iter().product();
        let d = s.len();
        let targets: Vec<Vec<usize>> = {
            let all = all_targets(s);
            if all.len() <= 40 || ctx.tier_thorough { all } else { let mut t = all; rng.shuffle(&mut t); t.truncate(40); t.push(s.clone()); t }
        };
        let data = shapes::prime_data(rng, n);
        for t in &targets {
            out.push(format!("c03.project\t{}\t{}\t{}", nats(s), bits(&data), nats(t)));
        }
        // unit vectors: single rows of the operator
        for _ in 0..3.min(n) {
            let f = rng.below(n as u64) as usize;
            let mut unit = vec![0.0; n]; unit[f] = 1.0;
            let t = rng.pick(&targets).clone();
            out.push(format!("c03.project\t{}\t{}\t{}", nats(s), bits(&unit), nats(&t)));
        }
        // two-step vs direct
        if n > 1 {
            let mid: Vec<usize> = s.iter().map(|v| rng.range(1, *v as u64) as usize).collect();
            let to: Vec<usize> = mid.iter().map(|v| rng.range(1, *v as u64) as usize).collect();
            out.push(format!("c03.two\t{}\t{}\t{}\t{}", nats(s), bits(&data), nats(&mid), nats(&to)));
        }
        // rejected targets
        let mut big = s.clone(); let ax = rng.below(d as u64) as usize; big[ax] += 1;
        out.push(format!("c03.project\t{}\t{}\t{}", nats(s), bits(&data), nats(&big)));
        // larger in one axis only — every axis in turn, the others smaller or equal (a whole-vector comparison would accept some)
        if d > 1 {
            for ax2 in 0..d {
                let mut mixed: Vec<usize> = s.iter().map(|v| if *v > 1 { v - 1 } else { *v }).collect();
                mixed[ax2] = s[ax2] + 1 + rng.below(3) as usize;
                out.push(format!("c03.project\t{}\t{}\t{}", nats(s), bits(&data), nats(&mixed)));
            }
        }
        let mut zero = s.clone(); zero[ax] = 0;
        out.push(format!("c03.project\t{}\t{}\t{}", nats(s), bits(&data), nats(&zero)));
        let mut longer = s.clone(); longer.push(1);
        out.push(format!("c03.project\t{}\t{}\t{}", nats(s), bits(&data), nats(&longer)));
        if d > 1 { out.push(format!("c03.project\t{}\t{}\t{}", nats(s), bits(&data), nats(&s[..d - 1]))); }
    }
    // whole rows of the operator at hundreds to thousands of chromosomes (source entry in the middle of the range, target
    // near half the source and small): mass of a row must stay 1 where single binomials leave the f64 range
    let rows: &[(usize, usize, usize)] = if ctx.tier_thorough {
        &[(400, 200, 200), (1100, 550, 550), (1100, 200, 275), (1200, 600, 600), (1200, 400, 300), (1500, 750, 700), (2000, 1000, 1000), (2000, 200, 900), (4000, 200, 2000), (4000, 2000, 1777)]
    } else { &[(400, 200, 200), (1100, 550, 550), (1200, 600, 600), (1200, 200, 300), (2000, 700, 1000)] };
    for &(n, m, k) in rows {
        out.push(format!("c03.row\t{}\t{}\t{}", n + 1, k, m + 1));
    }
    out.push(format!("c03.row\t{},{}\t{},{}\t{},{}", 1101, 3, 540, 1, 551, 2));
    // the same rows with source cells on other scales (frequencies, tiny and huge masses): the operator is linear
    for (j, &(n, m, k)) in [(1029usize, 514usize, 500usize), (1000, 500, 333), (400, 200, 200), (170, 85, 60), (60, 30, 30)].iter().enumerate() {
        for w in [3e-14f64, 5e-16, 1e-300, 1e300, 0.25] { if !ctx.tier_thorough && j >= 2 && w != 3e-14 { continue; } out.push(format!("c03.row\t{}\t{}\t{}\t{:016x}", n + 1, k, m + 1, w.to_bits())); }
    }
    // every source size 1..=260 (thorough 600) once: the rows of the extreme and the middle source entries, projected to two chromosomes
    for n in 1..=(if ctx.tier_thorough { 600usize } else { 260 }) {
        for k in [0, n / 2, n] { out.push(format!("c03.row\t{}\t{}\t{}", n + 1, k, n.min(2) + 1)); }
        if n % 8 == 0 { out.push(format!("c03.row\t{}\t{}\t{}", n + 1, n, n)); }
    }
    // single coefficients at large sizes (the factorial table ends at 170; binomials leave f64 range near 1030)
    let sizes: &[u64] = if ctx.tier_thorough { &[1, 2, 3, 50, 169, 170, 171, 172, 340, 341, 500, 1029, 1030, 1031, 2000, 5000] }
                        else { &[1, 2, 3, 169, 170, 171, 172, 500, 1029, 1030, 2000, 5000] };
    let probes = if ctx.tier_thorough { 400 } else { 120 };
    for &big_n in sizes {
        for i in 0..probes {
            let k = rng.range(0, big_n);
            let m = match i % 5 { 0 => big_n, 1 => rng.range(1, big_n), 2 => (big_n / 2).max(1), 3 => rng.range(1, big_n.min(40)), _ => rng.range(1, big_n) };
            // observed around the mode most of the time, anywhere otherwise
            let mode = (m as u128 * k as u128 / big_n as u128) as u64;
            let kk = if i % 4 == 3 { rng.range(0, m) } else { (mode + rng.below(7)).saturating_sub(3).min(m) };
            out.push(format!("c03.pmf\t{big_n}\t{k}\t{m}\t{kk}"));
        }
    }
}

fn all_targets(s: &[usize]) -> Vec<Vec<usize>> {
    let mut out = vec![vec![]];
    for &v in s {
        let mut next = Vec::new();
        for p in &out { for t in 1..=v { let mut q: Vec<usize> = p.clone(); q.push(t); next.push(q); } }
        out = next;
    }
    out
}
