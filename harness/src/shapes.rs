//! Shape enumeration shared by the array-level properties.
use crate::rng::Rng;

/// all shapes with `dmin..=dmax` axes and lengths `lmin..=lmax`, smallest first
pub fn all_shapes(dmin: usize, dmax: usize, lmin: usize, lmax: usize) -> Vec<Vec<usize>> {
    let mut out = Vec::new();
    for d in dmin..=dmax {
        let mut cur = vec![lmin; d];
        'outer: loop {
            out.push(cur.clone());
            let mut ax = d;
            loop {
                if ax == 0 { break 'outer; }
                ax -= 1;
                if cur[ax] < lmax {
                    cur[ax] += 1;
                    for a in ax + 1..d { cur[a] = lmin; }
                    break;
                }
            }
        }
    }
    out.sort_by_key(|s| (s.iter().product::<usize>(), s.len()));
    out
}

pub fn random_shape(rng: &mut Rng, dmin: usize, dmax: usize, lmin: usize, lmax: usize, max_elems: usize) -> Vec<usize> {
    loop {
        let d = rng.range(dmin as u64, dmax as u64) as usize;
        let s: Vec<usize> = (0..d).map(|_| rng.range(lmin as u64, lmax as u64) as usize).collect();
        if s.iter().product::<usize>() <= max_elems { return s; }
    }
}

/// distinct "prime-ish" data so that any mis-addressed cell changes a sum; exactly representable
pub fn prime_data(rng: &mut Rng, n: usize) -> Vec<f64> {
    let mut v = Vec::with_capacity(n);
    let mut x: u64 = 1 + rng.below(5);
    for _ in 0..n { x += 1 + rng.below(7); v.push((x * 2 + 1) as f64); }
    v
}

/// dyadic values (exact sums) mixed with the values a "sparse" or "positive-only" shortcut mishandles: negatives, `-0.0`, zeros, and —
/// when `specials` — NaN and the two infinities (their propagation through a sum does not depend on the order of the terms)
pub fn signed_data(rng: &mut Rng, n: usize, specials: bool) -> Vec<f64> {
    (0..n).map(|_| {
        let k = rng.below(4097) as i64 - 2048;
        match rng.below(16) {
            0 | 1 => 0.0,
            2 => -0.0,
            3 if specials => f64::NAN,
            4 if specials => f64::INFINITY,
            5 if specials => f64::NEG_INFINITY,
            6 | 7 | 8 => -((k.abs() + 1) as f64) / 4.0,
            _ => k as f64 / 4.0,
        }
    }).collect()
}

/// random dyadic values (multiples of 1/4, |v| <= 512): sums, halves and small products are exact in f64
pub fn dyadic_data(rng: &mut Rng, n: usize) -> Vec<f64> {
    (0..n).map(|_| {
        let k = rng.below(4097) as i64 - 2048;
        if rng.chance(1, 8) { 0.0 } else { k as f64 / 4.0 }
    }).collect()
}
