//! Statistics cases (C06, C14, part of C17): the 14 statistics in-process on arbitrary spectra, through the binary,
//! on spectra created from genotypes, and the metamorphic relations (fold, swap, scale, monomorphic entries, f2
//! decompositions) evaluated on the implementation itself.
use crate::{cli, create, proto::*, rng::Rng, shapes, Ctx};
use sfs_core::array::Axis;
use sfs_core::Scs;

pub const KINDS: [&str; 14] = ["d-fu-li", "d-tajima", "f2", "f3", "f4", "fst", "pi", "pi-xy", "king", "r0", "r1", "s", "sum", "theta"];

/// the error of a statistic by its VARIANT (dimension / shape), with the two dimension counts taken from the derived Debug form
/// (`DimensionError { expected: 4, actual: 1 }`) — not from the wording of its message, which a maintainer may change
fn render_stat_err(e: &sfs_core::spectrum::StatisticError) -> String {
    use sfs_core::spectrum::StatisticError as E;
    match e {
        E::DimensionError(d) => {
            let dbg = format!("{d:?}");
            let nums: Vec<String> = dbg.split(|c: char| !c.is_ascii_digit()).filter(|s| !s.is_empty()).map(|s| s.to_string()).collect();
            format!("ERR dim {} {}", nums.first().cloned().unwrap_or_default(), nums.get(1).cloned().unwrap_or_default())
        }
        E::ShapeError(_) => "ERR shape".into(),
    }
}

fn render_err(e: &str) -> String {
    if let Some(t) = e.strip_prefix("\u{1}") { return t.to_string(); }
    format!("ERR other:{}", e.chars().take(60).collect::<String>())
}

/// `Statistic::calculate` re-done on the library API (the binary's own dispatch is exercised by `st.cli`)
pub fn calc(kind: &str, scs: &Scs) -> String {
    let r: Result<f64, String> = match kind {
        "d-fu-li" => scs.d_fu_li().map_err(|e| format!("\u{1}{}", render_stat_err(&e))),
        "d-tajima" => scs.d_tajima().map_err(|e| format!("\u{1}{}", render_stat_err(&e))),
        "f2" => scs.clone().into_normalized().f2().map_err(|e| format!("\u{1}{}", render_stat_err(&e))),
        "f3" => scs.clone().into_normalized().f3().map_err(|e| format!("\u{1}{}", render_stat_err(&e))),
        "f4" => scs.clone().into_normalized().f4().map_err(|e| format!("\u{1}{}", render_stat_err(&e))),
        "fst" => scs.clone().into_normalized().fst().map_err(|e| format!("\u{1}{}", render_stat_err(&e))),
        "king" => scs.king().map_err(|e| format!("\u{1}{}", render_stat_err(&e))),
        "pi" => scs.pi().map_err(|e| format!("\u{1}{}", render_stat_err(&e))),
        "pi-xy" => scs.pi_xy().map_err(|e| format!("\u{1}{}", render_stat_err(&e))),
        "r0" => scs.r0().map_err(|e| format!("\u{1}{}", render_stat_err(&e))),
        "r1" => scs.r1().map_err(|e| format!("\u{1}{}", render_stat_err(&e))),
        "s" => Ok(scs.segregating_sites()),
        "sum" => Ok(scs.sum()),
        "theta" => scs.theta_watterson().map_err(|e| format!("\u{1}{}", render_stat_err(&e))),
        _ => Err("unknown statistic".into()),
    };
    match r { Ok(v) => format!("{:016x}", v.to_bits()), Err(e) => render_err(&e) }
}

fn transpose2(shape: &[usize], data: &[f64]) -> (Vec<usize>, Vec<f64>) {
    let (r, c) = (shape[0], shape[1]);
    let mut out = vec![0.0; data.len()];
    for i in 0..r { for j in 0..c { out[j * r + i] = data[i * c + j]; } }
    (vec![c, r], out)
}

fn f2_of(scs: &Scs, keep: [usize; 2]) -> Result<f64, String> {
    let d = scs.dimensions();
    let rm: Vec<Axis> = (0..d).filter(|a| !keep.contains(a)).map(Axis).collect();
    let m = scs.marginalize(&rm).map_err(|e| e.to_string())?;
    let m = if keep[0] > keep[1] { let (s, dd) = transpose2(m.shape(), m.inner().as_slice()); Scs::new(dd, s).map_err(|e| e.to_string())? } else { m };
    m.into_normalized().f2().map_err(|e| e.to_string())
}

/// `hist.scs shape bits ops` — a call history on one spectrum object (see `handleHist` in the Lean driver)
pub fn eval_hist(a: &[&str]) -> Option<String> {
    let shape = parse_nats(a[0]);
    let mut s = Scs::new(parse_bits(a[1]), shape.clone()).ok()?;
    let render = |x: &Scs| format!("{}|{}", nats(x.shape()), bits(x.inner().as_slice()));
    let unflat = |shape: &[usize], mut f: usize| -> Vec<usize> { let mut idx = vec![0; shape.len()]; for (k, n) in shape.iter().enumerate().rev() { idx[k] = f % n; f /= n; } idx };
    let mut out: Vec<String> = Vec::new();
    for op in a[2].split(';') {
        let f: Vec<&str> = op.split(':').collect();
        let tok = match f[0] {
            "sum" => format!("{:016x}", s.sum().to_bits()),
            "stat" => calc(f[1], &s),
            "set" => { let idx = unflat(s.shape(), f[1].parse().ok()?); s[idx] = f64::from_bits(u64::from_str_radix(f[2], 16).ok()?); "-".into() }
            "setm" => { let i: usize = f[1].parse().ok()?; s.inner_mut().as_mut_slice()[i] = f64::from_bits(u64::from_str_radix(f[2], 16).ok()?); "-".into() }
            "norm" => { s.normalize(); "-".into() }
            "clone" => { s = s.clone(); "-".into() }
            // the object is overwritten in place from another spectrum of another shape (`Clone::clone_from`)
            "clonefrom" => {
                let sh = parse_nats(f[1]); let k: usize = f[2].parse().ok()?; let n: usize = sh.iter().product();
                let other = Scs::new((0..n).map(|i| (1 + (i * k) % 17) as f64).collect::<Vec<_>>(), sh).ok()?;
                s.clone_from(&other); "-".into()
            }
            "fold" => render(&s.fold().into_spectrum(f64::from_bits(u64::from_str_radix(f[1], 16).ok()?))),
            "refold" => { s = s.fold().into_spectrum(0.0); "-".into() }
            "marg" | "remarg" => match s.marginalize(&parse_nats(f[1]).into_iter().map(Axis).collect::<Vec<_>>()) {
                Ok(m) => if f[0] == "remarg" { s = m; "-".into() } else { render(&m) }, Err(_) => "ERR".into() },
            "proj" | "reproj" => match s.project(parse_nats(f[1])) {
                Ok(m) => if f[0] == "reproj" { s = m; "-".into() } else { render(&m) }, Err(_) => "ERR".into() },
            _ => return None,
        };
        out.push(tok);
    }
    Some(out.join(";"))
}

/// random call histories on one spectrum object: queries interleaved with in-place edits, normalisation, clones and
/// replacements of the object by its own fold / marginal / projection
pub fn gen_hist(rng: &mut Rng, n: usize, dmax: usize, out: &mut Vec<String>) {
    for i in 0..n {
        let d = 1 + i % dmax;
        let mut shape = shapes::random_shape(rng, d, d, 2, if d <= 2 { 8 } else { 4 }, 200);
        if i % 9 == 0 && d == 2 { shape = vec![3, 3]; }
        let len: usize = shape.iter().product();
        let data = counts(rng, len, 1);
        let mut cur = shape.clone();
        let mut ops: Vec<String> = Vec::new();
        let nops = 4 + rng.below(9) as usize;
        for _ in 0..nops {
            let curlen: usize = cur.iter().product();
            let ks = applicable(cur.len(), &cur);
            let k = *rng.pick(&ks);
            match rng.below(14) {
                0 | 1 => ops.push("sum".into()),
                2 | 3 | 4 => ops.push(format!("stat:{k}")),
                5 | 6 => { let rc = rng.below(curlen as u64) as usize; let cell = *rng.pick(&[0usize, curlen - 1, rc]); ops.push(format!("{}:{cell}:{:016x}", if rng.chance(2, 3) { "set" } else { "setm" }, (rng.range(0, 5000) as f64).to_bits())); }
                7 => if rng.chance(1, 2) { ops.push("clone".into()); } else {
                    let nd = cur.len();
                    let mut sh = shapes::random_shape(rng, nd, nd, 2, if nd <= 2 { 7 } else { 4 }, 200);
                    if sh == cur && nd > 1 && sh[0] != sh[1] { sh.swap(0, 1); }
                    ops.push(format!("clonefrom:{}:{}", nats(&sh), 1 + rng.below(11))); cur = sh;
                },
                8 => ops.push(format!("fold:{:016x}", [0.0f64, -1.0, f64::NAN][rng.below(3) as usize].to_bits())),
                9 => if cur.len() > 1 { let ax = rng.below(cur.len() as u64) as usize; if rng.chance(1, 3) { ops.push(format!("remarg:{ax}")); cur.remove(ax); } else { ops.push(format!("marg:{ax}")); } } else { ops.push("sum".into()); },
                10 => { let t: Vec<usize> = cur.iter().map(|v| rng.range(1, *v as u64) as usize).collect(); if rng.chance(1, 3) { ops.push(format!("reproj:{}", nats(&t))); cur = t; } else { ops.push(format!("proj:{}", nats(&t))); } }
                11 => ops.push("refold".into()),
                12 => if rng.chance(1, 3) { ops.push("norm".into()); } else { ops.push(format!("stat:{k}")); },
                _ => { ops.push("sum".into()); ops.push(format!("set:0:{:016x}", (rng.range(1, 900) as f64).to_bits())); ops.push(format!("stat:{k}")); }
            }
        }
        out.push(format!("hist.scs\t{}\t{}\t{}", nats(&shape), bits(&data), ops.join(";")));
    }
}

pub fn eval(ctx: &Ctx, op: &str, a: &[&str]) -> Option<String> {
    match op {
        // st.mem kinds shape bits
        "st.calc" => {
            let scs = match Scs::new(parse_bits(a[2]), parse_nats(a[1])) { Ok(s) => s, Err(_) => return Some("NOSPECTRUM".into()) };
            Some(a[0].split(',').map(|k| calc(k, &scs)).collect::<Vec<_>>().join(";"))
        }
        // st.cli kinds precision shape bits   (the binary on an npy input carrying the exact bits)
        "st.cmd" => {
            let input = crate::npy::write_f8(&parse_nats(a[2]), &parse_bits(a[3]));
            let args = vec!["stat".to_string(), "-s".into(), a[0].to_string(), "--precision".into(), a[1].to_string()];
            let o = cli::run_sfs(&ctx.sfs_bin, &args, &input);
            let class = cli::class(&o);
            let panic = if class == "PANIC" { format!("|panic={}", o.stderr.lines().find(|l| l.contains("panicked")).unwrap_or("").replace('\t', " ")) } else { String::new() };
            Some(format!("{class}|{}|{}{panic}", o.code, String::from_utf8_lossy(&o.stdout).replace('\n', "\\n")))
        }
        // st.cmd2 kinds precisions header delim shape bits : the full option surface of `sfs stat` (header row, delimiter, one precision per statistic)
        "st.cmd2" => {
            let input = crate::npy::write_f8(&parse_nats(a[4]), &parse_bits(a[5]));
            let mut args = vec!["stat".to_string(), "-s".into(), a[0].to_string(), "--precision".into(), a[1].to_string()];
            if a[2] == "1" { args.push("-H".into()); }
            if a[3] != "-" { args.push("-d".into()); args.push(String::from_utf8(parse_hex(a[3])).ok()?); }
            let o = cli::run_sfs(&ctx.sfs_bin, &args, &input);
            Some(format!("{}|{}|{}", cli::class(&o), o.code, hex(&o.stdout)))
        }
        // st.rel relation kind shape bits param -> value on x ; value on T(x)
        "st.rel" => {
            let (rel, kind, shape, data) = (a[0], a[1], parse_nats(a[2]), parse_bits(a[3]));
            let scs = Scs::new(data.clone(), shape.clone()).ok()?;
            let v1 = calc(kind, &scs);
            let v2 = match rel {
                "fold" => calc(kind, &scs.fold().into_spectrum(0.0)),
                "foldcli" => {
                    // `sfs fold --fill zero | sfs stat`
                    let input = crate::npy::write_f8(&shape, &data);
                    let o1 = cli::run_sfs(&ctx.sfs_bin, &["fold".into(), "--fill".into(), "zero".into(), "--precision".into(), "17".into()], &input);
                    if cli::class(&o1) != "OK" { return Some(format!("{v1};STAGE1 {}", cli::class(&o1))); }
                    let o2 = cli::run_sfs(&ctx.sfs_bin, &["stat".into(), "-s".into(), kind.into(), "--precision".into(), "15".into()], &o1.stdout);
                    format!("T{}", String::from_utf8_lossy(&o2.stdout).trim())
                }
                "swap" => { let (s, d) = transpose2(&shape, &data); calc(kind, &Scs::new(d, s).ok()?) }
                "scale" => { let c = f64::from_bits(u64::from_str_radix(a[4], 16).ok()?); calc(kind, &Scs::new(data.iter().map(|x| x * c).collect::<Vec<_>>(), shape.clone()).ok()?) }
                "mono" => {
                    let p = parse_bits(a[4]);
                    let mut d = data.clone(); let n = d.len(); d[0] = p[0]; d[n - 1] = p[1];
                    calc(kind, &Scs::new(d, shape.clone()).ok()?)
                }
                // call history on ONE spectrum object: total queried, then the two monomorphic cells overwritten in place through
                // `IndexMut`, then the statistic (anything cached by the first call must not survive the edit)
                "monoip" => {
                    let p = parse_bits(a[4]);
                    let mut s2 = scs.clone();
                    let _ = s2.sum(); let _ = calc(kind, &s2);
                    let first: Vec<usize> = vec![0; shape.len()]; let last: Vec<usize> = shape.iter().map(|v| v - 1).collect();
                    s2[first] = p[0]; s2[last] = p[1];
                    calc(kind, &s2)
                }
                "f3f2" => match (f2_of(&scs, [0, 1]), f2_of(&scs, [0, 2]), f2_of(&scs, [1, 2])) {
                    (Ok(ab), Ok(ac), Ok(bc)) => format!("{:016x}", (0.5 * (ab + ac - bc)).to_bits()),
                    _ => "ERR".into(),
                },
                "f4f2" => match (f2_of(&scs, [0, 3]), f2_of(&scs, [1, 2]), f2_of(&scs, [0, 2]), f2_of(&scs, [1, 3])) {
                    (Ok(ad), Ok(bc), Ok(ac), Ok(bd)) => format!("{:016x}", (0.5 * (ad + bc - ac - bd)).to_bits()),
                    _ => "ERR".into(),
                },
                _ => return None,
            };
            Some(format!("{v1};{v2}"))
        }
        // st.harm p lo hi : `utils::p_harmonic(n, p)` for every n in lo..=hi
        "st.harm" => {
            let (p, lo, hi) = (a[0].parse::<u32>().ok()?, a[1].parse::<u64>().ok()?, a[2].parse::<u64>().ok()?);
            Some((lo..=hi).map(|n| format!("{:016x}", (if p == 1 { sfs_core::utils::harmonic(n) } else { sfs_core::utils::p_harmonic(n, p) }).to_bits())).collect::<Vec<_>>().join(";"))
        }
        // st.geno kinds cols samples records  : create in-process from genotype codes, then the statistics
        "st.geno" => {
            let r = create::eval_mem(&[a[1], a[2], "N", a[3]])?;
            let body = r.strip_prefix("OK ")?;
            let f: Vec<&str> = body.split('|').collect();
            let scs = Scs::new(parse_bits(f[1]), parse_nats(f[0])).ok()?;
            Some(format!("{}|{}", f[0], a[0].split(',').map(|k| calc(k, &scs)).collect::<Vec<_>>().join(";")))
        }
        // st.genocli kinds cols samples records : the binaries: `sfs create | sfs stat --precision 12`
        "st.genocli" => {
            let cs = crate::vcf::CallSet { cols: a[1].split(',').map(|s| s.to_string()).collect(), recs: create::parse_records(a[3]), extras: a[1].split(',').count() % 2 == 1, wide: 0 };
            let spec = create::CliSpec { container: "vcf", transport: "stdin", threads: 4, layout: 0 };
            let o1 = create::run_create(ctx, &cs, &spec, &create::parse_samples(a[2]), &None, false, None, "stgeno")?;
            if cli::class(&o1) != "OK" { return Some(format!("STAGE1 {}", cli::class(&o1))); }
            let o2 = cli::run_sfs(&ctx.sfs_bin, &["stat".into(), "-s".into(), a[0].into(), "--precision".into(), "12".into()], &o1.stdout);
            Some(format!("{}|{}|{}", cli::class(&o2), o2.code, String::from_utf8_lossy(&o2.stdout).replace('\n', "\\n")))
        }
        _ => None,
    }
}

// ---------- generators ----------

fn counts(rng: &mut Rng, n: usize, zero_p: u64) -> Vec<f64> {
    (0..n).map(|_| if rng.chance(zero_p, 10) { 0.0 } else { rng.range(1, 500) as f64 }).collect()
}

fn applicable(d: usize, shape: &[usize]) -> Vec<&'static str> {
    let mut k = vec!["s", "sum"];
    match d { 1 => k.extend(["pi", "theta", "d-tajima", "d-fu-li"]), 2 => k.extend(["f2", "fst", "pi-xy"]), 3 => k.push("f3"), 4 => k.push("f4"), _ => {} }
    if shape == [3, 3] { k.extend(["king", "r0", "r1"]); }
    k
}

pub fn gen_c06(ctx: &Ctx, rng: &mut Rng, out: &mut Vec<String>) {
    let t = ctx.tier_thorough;
    // (a) estimator level: 1-D count spectra, n from 3 to several hundred (binomials leave the factorial table at n = 171)
    let mut ns: Vec<usize> = vec![3, 4, 5, 6, 7, 10, 25, 63, 64, 100, 169, 170, 171, 172, 200, 400];
    for _ in 0..(if t { 400 } else { 40 }) { ns.push(rng.log_range(3, if t { 900 } else { 500 }) as usize); }
    // … and every n from 3 to 260 once (thorough: to 700): sizes on and around powers of two, table ends, series cut-offs
    let listed = ns.len();
    for n in 3..=(if t { 700usize } else { 260 }) { if !ns.contains(&n) { ns.push(n); } }
    for (j, n) in ns.into_iter().enumerate() {
        let zp = if rng.chance(1, 3) { 6 } else { 1 };
        let data = counts(rng, n + 1, zp);
        // the two D statistics are costly in exact arithmetic: in the sweep every fifth size carries them
        let kinds = if j < listed || n % 5 == 0 || n <= 40 { "pi,theta,d-tajima,d-fu-li,s,sum" } else { "pi,theta,s,sum" };
        out.push(format!("st.calc\t{kinds}\t{}\t{}", n + 1, bits(&data)));
    }
    // (a2) the harmonic sums behind theta and the D statistics, for EVERY n up to 12288 (thorough: 40000): tables, cut-offs and
    //      series expansions may start or end anywhere (n = 2 x a cohort size, a power of two, ...)
    {
        let top: u64 = if t { 40000 } else { 12288 };
        let mut lo = 0u64;
        while lo <= top { let hi = (lo + 1023).min(top); out.push(format!("st.harm\t1\t{lo}\t{hi}")); out.push(format!("st.harm\t2\t{lo}\t{hi}")); lo = hi + 1; }
        out.push("st.harm\t3\t0\t300".to_string());
    }
    // (a3) spectra with more entries than any block or buffer a summation is likely to use (1024, 2048, 4096 and off-by-some)
    for (i, shape) in [vec![1024usize], vec![1025], vec![1500], vec![2047], vec![2049], vec![4100], vec![5009], vec![33, 33], vec![32, 32], vec![40, 30], vec![11, 11, 11], vec![6, 6, 6, 6], vec![7, 6, 5, 5]].into_iter().enumerate() {
        let n: usize = shape.iter().product();
        let data = counts(rng, n, if i % 2 == 0 { 1 } else { 5 });
        let kinds = match shape.len() { 1 => "s,sum,pi", 2 => "s,sum,f2,fst,pi-xy", 3 => "s,sum,f3", _ => "s,sum,f4" };
        out.push(format!("st.calc\t{kinds}\t{}\t{}", nats(&shape), bits(&data)));
        if i % 3 == 0 || t { out.push(format!("st.cmd\t{kinds}\t12\t{}\t{}", nats(&shape), bits(&data))); }
    }
    // (a3') … and beyond 2^16 entries
    for (i, shape) in [vec![65537usize], vec![100001], vec![257, 257]].into_iter().enumerate() {
        if !t && i == 1 { continue; }
        let n: usize = shape.iter().product();
        let data = counts(rng, n, 3);
        let kinds = if shape.len() == 1 { "s,sum" } else { "s,sum,f2" };
        out.push(format!("st.calc\t{kinds}\t{}\t{}", nats(&shape), bits(&data)));
        out.push(format!("st.cmd\tsum,s\t9\t{}\t{}", nats(&shape), bits(&data)));
    }
    // (a3'') printing precisions beyond the decimal exponent range of binary64 (309 and more decimals), alone and inside a list
    {
        let shape = vec![7usize]; let data = vec![1.0f64, 1.0, 0.0, 2.0, 0.0, 0.0, 1.0];
        for p in [17usize, 18, 100, 308, 309, 320, 400, 1000] { if t || p % 3 != 0 { out.push(format!("st.cmd\ts,sum,pi\t{p}\t{}\t{}", nats(&shape), bits(&data))); } }
        for precs in ["6,400,6", "320,0,2", "0,0,309"] { out.push(format!("st.cmd2\ts,sum,pi\t{precs}\t1\t-\t{}\t{}", nats(&shape), bits(&data))); }
    }
    // (a3b) call sets that are almost entirely monomorphic (an all-sites VCF of a low-diversity region: 7e5 … 1e9 invariant sites next to a
    //       handful of variants): every statistic is as well defined as on the variants alone
    for (i, mono) in [700000.0f64, 1e7, 1e9, 3e9].into_iter().enumerate() {
        if !t && i == 2 { continue; }
        let shape = vec![9usize, 9];
        let mut data = vec![0.0f64; 81];
        data[0] = mono; data[80] = (i as f64) * 1000.0;
        for (q, v) in [(1usize, 1.0f64), (9, 1.0), (10, 1.0), (20, 2.0), (47, 1.0)] { data[q] = v; }
        out.push(format!("st.calc\ts,sum,f2,fst,pi-xy\t{}\t{}", nats(&shape), bits(&data)));
        out.push(format!("st.cmd\tfst,f2,pi-xy,s\t9\t{}\t{}", nats(&shape), bits(&data)));
        let mut d1 = vec![0.0f64; 17]; d1[0] = mono; d1[1] = 2.0; d1[2] = 1.0; d1[5] = 1.0;
        out.push(format!("st.calc\tpi,theta,d-tajima,s,sum\t17\t{}", bits(&d1)));
    }
    // (a4) theta at 2 x the size of well-known panels (n = 5008: 1000 Genomes), sparse spectra
    for n in [5008usize, 4096, 1024, 2504] {
        // (the exact-rational model evaluates the harmonic number once per element: n = 5008 costs minutes and is left to the thorough
        //  tier; the harmonic sums themselves are swept for every n above)
        if !t && n != 1024 { continue; }
        let mut data = vec![0.0f64; n + 1];
        for k in [1usize, 2, 3, 7, n / 3, n / 2, n - 1] { data[k] = 1.0 + (k % 5) as f64; }
        data[0] = 1000.0;
        out.push(format!("st.calc\ttheta,s,sum\t{}\t{}", n + 1, bits(&data)));
    }
    // (b) all 14 statistics on spectra of every dimensionality, unequal axis lengths; wrong dimensionality gives the error
    for i in 0..(if t { 1500 } else { 160 }) {
        let shape = match i % 8 { 0 => vec![3, 3], 1 => shapes::random_shape(rng, 1, 1, 2, 40, 100), 2 | 3 => shapes::random_shape(rng, 2, 2, 2, 12, 200),
            4 => shapes::random_shape(rng, 3, 3, 2, 6, 250), 5 => shapes::random_shape(rng, 4, 4, 2, 5, 400), _ => shapes::random_shape(rng, 1, 4, 2, 7, 300) };
        let n: usize = shape.iter().product();
        let data = counts(rng, n, if i % 5 == 0 { 4 } else { 1 });
        out.push(format!("st.calc\t{}\t{}\t{}", KINDS.join(","), nats(&shape), bits(&data)));
        if i % 4 == 0 {
            let ks = applicable(shape.len(), &shape);
            out.push(format!("st.cmd\t{}\t{}\t{}\t{}", ks.join(","), *rng.pick(&[12usize, 6, 15]), nats(&shape), bits(&data)));
        }
    }
    // (b') the option surface of `sfs stat`: header row, delimiter, one precision for all / one per statistic / a wrong number of them,
    //      a statistic that does not apply in first / middle / last position
    for i in 0..(if t { 400 } else { 60 }) {
        let shape = match i % 4 { 0 => vec![3, 3], 1 => shapes::random_shape(rng, 1, 1, 3, 30, 100), 2 => shapes::random_shape(rng, 2, 2, 2, 8, 100), _ => shapes::random_shape(rng, 3, 4, 2, 4, 200) };
        let n: usize = shape.iter().product();
        let data = counts(rng, n, 1);
        let mut ks: Vec<&str> = applicable(shape.len(), &shape);
        rng.shuffle(&mut ks);
        ks.truncate(rng.range(1, 5) as usize);
        if i % 5 == 4 { let bad = *rng.pick(&["f4", "king", "pi", "fst"]); let pos = rng.below(ks.len() as u64 + 1) as usize; ks.insert(pos, bad); }
        let nprec = match i % 6 { 0 => 1, 1 | 2 => ks.len(), 3 => ks.len() + 1, 4 => 2, _ => 1 };
        let precs: Vec<String> = (0..nprec).map(|_| rng.range(0, 15).to_string()).collect();
        let delim = match i % 4 { 0 => "-".to_string(), 1 => hex(b"\t"), 2 => hex(b";"), _ => hex(b" ") };
        out.push(format!("st.cmd2\t{}\t{}\t{}\t{delim}\t{}\t{}", ks.join(","), precs.join(","), (i % 3 != 0) as u8, nats(&shape), bits(&data)));
    }
    // (c) genotype level: call sets -> create -> statistics, against the definitions evaluated on the genotypes
    for i in 0..(if t { 1500 } else { 150 }) {
        let npops = 1 + i % 4;
        let ncols = rng.range(npops as u64, (npops as u64 * 4).min(9)) as usize + if i % 3 == 0 { 1 } else { 0 };
        let two_ind = i % 10 == 9;       // two individuals -> 3x3: KING, R0, R1
        let (npops, ncols) = if two_ind { (2, 2 + (i / 10) % 2) } else { (npops, ncols) };
        let mut g = crate::creategen::Gen { rng: &mut *rng };
        // every twentieth call set: one population holding all of an odd number of columns (pooled, no sample list, INFO-rich VCF)
        let force_pooled = npops == 1 && i % 20 == 0 && !two_ind;
        let ncols = if force_pooled { 3 + 2 * ((i / 20) % 2) } else { ncols };
        let mut assign = if force_pooled { vec![Some(0); ncols] } else { g.assignment(ncols, npops, if ncols > npops { 15 } else { 0 }) };
        if two_ind { assign = vec![Some(0), Some(1)]; assign.resize(ncols, None); }
        // every population needs at least one sample
        for p in 0..npops { if !assign.iter().any(|a| *a == Some(p)) { if let Some(slot) = assign.iter().position(|a| a.is_none()).or(Some(p % ncols)) { assign[slot] = Some(p); } } }
        let nrec = g.rng.range(1, if t { 200 } else { 60 }) as usize;
        let mut recs = Vec::new();
        // two thirds of the call sets: positions repeat (split multiallelic sites, a SNP next to an indel) and the second contig starts at the
        // position where the first one ended — every record is a site of its own
        for r in 0..nrec {
            let (contig, pos) = if i % 3 == 0 { ("chr1", 10 + r) } else { (if 2 * r < nrec { "chr1" } else { "chr2" }, 10 + ((r + if 2 * r < nrec { 0 } else { nrec % 2 + 1 }) / 2) % 9) };
            recs.push((contig.to_string(), pos, crate::creategen::record(&mut g, &assign, [88, 8, 4, 0], false, true)));
        }
        let order: Vec<usize> = { let mut o: Vec<usize> = (0..ncols).filter(|c| assign[*c].is_some()).collect(); g.rng.shuffle(&mut o); o };
        // one population holding every column: no sample list at all (all samples pooled), as often as a list
        let pooled = npops == 1 && assign.iter().all(|a| a.is_some()) && i % 2 == 0;
        let sl = if pooled { "N".to_string() } else { crate::creategen::samples_arg(&order, &assign, None, false) };
        let sizes = crate::creategen::pop_sizes(&order, &assign);
        let shape: Vec<usize> = sizes.iter().map(|n| 2 * n + 1).collect();
        let ks = applicable(shape.len(), &shape);
        let line = format!("{}\t{}\t{}\t{}", ks.join(","), crate::creategen::cols(ncols).join(","), sl, crate::creategen::records_str(&recs));
        out.push(format!("st.geno\t{line}"));
        if i % 5 == 0 {
            // the same through the binaries (GT strings instead of codes)
            let recs_cli: Vec<(String, usize, Vec<String>)> = recs.iter().map(|(c, p, gs)| (c.clone(), *p, gs.iter().enumerate().map(|(j, x)| match x.as_str() { "0" => "0/0", "1" => "0|1", "2" => "1/1", "m" => "./.", "x" => ["0/2", "0/10", "2/1", "1|12"][(j + *p) % 4], _ => "0" }.to_string()).collect())).collect();
            out.push(format!("st.genocli\t{}\t{}\t{}\t{}", ks.join(","), crate::creategen::cols(ncols).join(","), sl, crate::creategen::records_str(&recs_cli)));
        }
    }
}

pub fn gen_c14(ctx: &Ctx, rng: &mut Rng, out: &mut Vec<String>) {
    let t = ctx.tier_thorough;
    let nspec = if t { 3000 } else { 200 };
    for i in 0..nspec {
        let d = 1 + i % 4;
        let shape = if i % 11 == 0 { vec![3, 3] } else { loop { let s = shapes::random_shape(rng, d, d, 2, if d <= 2 { 9 } else { 5 }, 400); if d == 1 || s.windows(2).any(|w| w[0] != w[1]) || rng.chance(1, 5) { break s; } } };
        let d = shape.len();
        let n: usize = shape.iter().product();
        let data = counts(rng, n, 1);
        let sh = nats(&shape); let bs = bits(&data);
        let ks = applicable(d, &shape);
        for k in &ks {
            // fold with fill zero: everything but sum, d-fu-li
            if !["sum", "d-fu-li"].contains(k) { out.push(format!("st.rel\tfold\t{k}\t{sh}\t{bs}\t-")); if i % 10 == 0 { out.push(format!("st.rel\tfoldcli\t{k}\t{sh}\t{bs}\t-")); } }
            // monomorphic entries: everything but sum, f2, f3, f4
            if !["sum", "f2", "f3", "f4"].contains(k) { out.push(format!("st.rel\tmono\t{k}\t{sh}\t{bs}\t{}", bits(&[rng.range(0, 100000) as f64, rng.range(0, 100000) as f64]))); }
            // … and the count-based ones with a monomorphic cell at 2^53 and beyond (a total that swallows the polymorphic counts)
            if i % 2 == 0 && ["s", "pi", "theta", "d-tajima", "pi-xy"].contains(k) { out.push(format!("st.rel\tmono\t{k}\t{sh}\t{bs}\t{}", bits(&[[9007199254740992.0f64, 1e18][i % 2], [3e9f64, 9007199254740992.0][(i / 2) % 2]]))); }
            // monomorphic entries that dwarf everything else (1e18, 2^62: far above 2^53) — the frequency-based statistics must not notice
            if i % 4 == 1 && ["fst", "king", "r0", "r1"].contains(k) { out.push(format!("st.rel\tmono\t{k}\t{sh}\t{bs}\t{}", bits(&[[1e18f64, 4611686018427387904.0][i % 2], [3e17f64, 1e18][(i / 2) % 2]]))); }
            // the same edit made in place on a spectrum whose total and statistic were already queried (every statistic: the value after
            // the edit must be the statistic of the edited spectrum)
            if i % 3 == 0 { out.push(format!("st.rel\tmonoip\t{k}\t{sh}\t{bs}\t{}", bits(&[rng.range(0, 100000) as f64, rng.range(0, 100000) as f64]))); }
            // scaling
            // constants across the whole binary64 range; the two D statistics square the number of segregating sites, so they stay within
            // a range where that square is finite (their scale behaviour is not part of the property anyway)
            let c = if k.starts_with("d-") { *rng.pick(&[2.0f64, 0.5, 3.0, 0.1, 1000.0, 7.25, 1e-3, 1e-18, 1e-24, 1e100]) }
                    else { *rng.pick(&[2.0f64, 0.5, 3.0, 0.1, 1000.0, 7.25, 1e-3, 1e-18, 1e-24, 1e-100, 1e-290, 1e100, 1e280, 8.673617379884035e-19]) };
            out.push(format!("st.rel\tscale\t{k}\t{sh}\t{bs}\t{:016x}", c.to_bits()));
            // … and a power of two that lifts the total to just below the top of the binary64 range: the total, S, pi and theta of the scaled
            // spectrum are all finite (each is at most the total) — an evaluation that sums before it normalises overflows here
            if i % 3 == 0 && ["sum", "s", "pi", "theta"].contains(k) {
                let tot: f64 = data.iter().sum();
                if tot > 0.0 { let c = 2f64.powi(1023 - tot.log2().ceil() as i32); out.push(format!("st.rel\tscale\t{k}\t{sh}\t{bs}\t{:016x}", c.to_bits())); }
            }
            // swapping the two populations
            if d == 2 && ["f2", "fst", "pi-xy", "king", "r0", "r1"].contains(k) { out.push(format!("st.rel\tswap\t{k}\t{sh}\t{bs}\t-")); }
        }
        // the same transformations observed through one `sfs stat` invocation computing every applicable statistic together, in a
        // random order (statistics sharing an invocation share the runner's preprocessing: normalisation, precision, column order)
        if i % 4 == 0 && ks.len() > 1 {
            let mut order: Vec<&str> = ks.clone(); rng.shuffle(&mut order);
            let c = *rng.pick(&[4.0f64, 0.25, 10.0]);
            let scaled: Vec<f64> = data.iter().map(|x| x * c).collect();
            let mut mono = data.clone(); mono[0] = rng.range(0, 100000) as f64; mono[n - 1] = rng.range(0, 100000) as f64;
            for dd in [&data, &scaled, &mono] { out.push(format!("st.cmd\t{}\t{}\t{sh}\t{}", order.join(","), *rng.pick(&[12usize, 15]), bits(dd))); }
            // pairs (a count-based next to a frequency-based statistic), both orders
            if d == 2 {
                for pair in [["pi-xy", "f2"], ["fst", "pi-xy"], ["sum", "fst"], ["f2", "s"]] {
                    if pair.iter().all(|k| ks.contains(k)) { for dd in [&data, &scaled] { out.push(format!("st.cmd\t{}\t12\t{sh}\t{}", pair.join(","), bits(dd))); } }
                }
            }
        }
        if d == 3 { out.push(format!("st.rel\tf3f2\tf3\t{sh}\t{bs}\t-")); }
        if d == 4 { out.push(format!("st.rel\tf4f2\tf4\t{sh}\t{bs}\t-")); }
    }
    // the same relations on spectra with more entries than any block or buffer a summation is likely to use
    for (i, shape) in [vec![1025usize], vec![1500], vec![2049], vec![4100], vec![33, 33], vec![40, 30], vec![11, 11, 11], vec![6, 6, 6, 6]].into_iter().enumerate() {
        if !t && i % 2 == 1 && shape.len() == 1 { continue; }
        let n: usize = shape.iter().product();
        let data = counts(rng, n, 1);
        let sh = nats(&shape); let bs = bits(&data);
        let ks: Vec<&str> = match shape.len() { 1 => vec!["s", "sum", "pi"], 2 => vec!["s", "sum", "f2", "fst", "pi-xy"], 3 => vec!["s", "sum", "f3"], _ => vec!["s", "sum", "f4"] };
        for k in &ks {
            if !["sum"].contains(k) { out.push(format!("st.rel\tfold\t{k}\t{sh}\t{bs}\t-")); }
            if !["sum", "f2", "f3", "f4"].contains(k) { out.push(format!("st.rel\tmono\t{k}\t{sh}\t{bs}\t{}", bits(&[rng.range(0, 100000) as f64, rng.range(0, 100000) as f64]))); }
            out.push(format!("st.rel\tmonoip\t{k}\t{sh}\t{bs}\t{}", bits(&[rng.range(0, 100000) as f64, rng.range(0, 100000) as f64])));
            out.push(format!("st.rel\tscale\t{k}\t{sh}\t{bs}\t{:016x}", (*rng.pick(&[2.0f64, 0.5, 3.0, 1e-3])).to_bits()));
        }
        out.push(format!("st.cmd\t{}\t12\t{sh}\t{bs}", ks.join(",")));
    }
    gen_hist(rng, if t { 1500 } else { 150 }, 4, out);
}
