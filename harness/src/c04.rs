//! C04 — marginalization: all axis subsets in all orders on exhaustive small shapes, error streams.
use crate::{proto::*, rng::Rng, shapes, Ctx};
use sfs_core::{array::Axis, spectrum::MarginalizationError, Scs};

pub fn marg_result(r: Result<Scs, MarginalizationError>) -> String {
    match r {
        Ok(s) => format!("OK {}|{}", nats(s.shape()), bits(s.inner().as_slice())),
        Err(MarginalizationError::DuplicateAxis { axis }) => format!("ERR dup {axis}"),
        Err(MarginalizationError::AxisOutOfBounds { axis, dimensions }) => format!("ERR oob {axis} {dimensions}"),
        Err(MarginalizationError::TooManyAxes { axes, dimensions }) => format!("ERR many {axes} {dimensions}"),
    }
}

pub fn eval(_ctx: &Ctx, op: &str, a: &[&str]) -> Option<String> {
    match op {
        // c04.marg shape databits axes
        "c04.marg" => {
            let scs = Scs::new(parse_bits(a[1]), parse_nats(a[0])).ok()?;
            let axes: Vec<Axis> = parse_nats(a[2]).into_iter().map(Axis).collect();
            Some(marg_result(scs.marginalize(&axes)))
        }
        // c04.step shape databits axes : remove the axes one at a time in the given order (re-indexing), implementation only
        "c04.step" => {
            let mut scs = Scs::new(parse_bits(a[1]), parse_nats(a[0])).ok()?;
            let mut axes = parse_nats(a[2]);
            for i in 0..axes.len() {
                let ax = axes[i];
                scs = match scs.marginalize(&[Axis(ax)]) { Ok(s) => s, Err(e) => return Some(marg_result(Err(e))) };
                for later in axes.iter_mut().skip(i + 1) { if *later > ax { *later -= 1; } }
            }
            Some(marg_result(Ok(scs)))
        }
        _ => None,
    }
}

fn permutations(xs: &[usize]) -> Vec<Vec<usize>> {
    if xs.len() <= 1 { return vec![xs.to_vec()]; }
    let mut out = Vec::new();
    for i in 0..xs.len() {
        let mut rest = xs.to_vec(); let x = rest.remove(i);
        for mut p in permutations(&rest) { p.insert(0, x); out.push(p); }
    }
    out
}

pub fn gen(ctx: &Ctx, rng: &mut Rng, out: &mut Vec<String>) {
    // call histories on one spectrum object (queries, in-place edits, clones, replacement by its own fold / marginal / projection)
    crate::stat::gen_hist(rng, if ctx.tier_thorough { 600 } else { 60 }, 4, out);
    let mut shp = if ctx.tier_thorough {
        let mut s = shapes::all_shapes(1, 4, 1, 4);
        s.extend(shapes::all_shapes(5, 5, 1, 3));
        for _ in 0..400 { s.push(shapes::random_shape(rng, 2, 5, 1, 6, 4000)); }
        s
    } else {
        let mut s = shapes::all_shapes(1, 3, 1, 4);
        s.extend(shapes::all_shapes(4, 4, 1, 2));
        for _ in 0..40 { s.push(shapes::random_shape(rng, 2, 5, 1, 6, 1500)); }
        s
    };
    // size sweeps: one long axis next to short ones (every length up to 130, thorough 400), and 6-8 short axes
    let top = if ctx.tier_thorough { 400 } else { 130 };
    for n in 5..=top { if n % 2 == 1 || n <= 40 || ctx.tier_thorough { shp.push(vec![n, 2]); shp.push(vec![2, n]); if n % 5 == 0 { shp.push(vec![2, n, 3]); } } }
    // … and a few much longer axes (recursive / block-wise summation schemes only show beyond a few hundred views)
    for n in [257usize, 258, 300, 401, 513, 640, 1025, 2049] { shp.push(vec![n, 2]); shp.push(vec![3, n]); if n % 2 == 1 { shp.push(vec![2, n, 2]); } }
    let mut wide: Vec<Vec<usize>> = Vec::new();
    for d in 6..=8usize { wide.push(vec![2; d]); wide.push((0..d).map(|k| 1 + (k % 3) % 2 + (k == 1) as usize).collect()); }
    shp.sort(); shp.dedup();
    shp.sort_by_key(|s| (s.iter().product::<usize>(), s.len()));
    // one 5-axis shape of unequal lengths gets every ordered axis list (the sort + shift logic only shows at >= 4 named axes)
    let full5 = vec![2usize, 1, 3, 2, 2];
    shp.push(full5.clone());
    for s in &shp {
        let d = s.len();
        let n: usize = s.iter().product();
        let data = shapes::prime_data(rng, n);
        let sh = nats(s); let db = bits(&data);
        // all subsets (incl. the full set = TooManyAxes) in all orders
        for mask in 1u32..(1 << d) {
            let subset: Vec<usize> = (0..d).filter(|i| mask >> i & 1 == 1).collect();
            let perms = if subset.len() <= 3 || ctx.tier_thorough || *s == full5 { permutations(&subset) } else {
                let mut p = vec![subset.clone()];
                for _ in 0..4 { let mut q = subset.clone(); rng.shuffle(&mut q); p.push(q); }
                p
            };
            for p in perms {
                out.push(format!("c04.marg\t{sh}\t{db}\t{}", nats(&p)));
                if p.len() >= 2 && p.len() < d { out.push(format!("c04.step\t{sh}\t{db}\t{}", nats(&p))); }
            }
        }
        // the same sums over entries that are not counts: negative and zero entries, `-0.0`, and (every other shape) NaN / ±inf — a residual
        // or difference spectrum; a summation that skips "empty" cells or keeps only positive ones is exact on counts and wrong here
        if d >= 2 && n <= 4200 {
            for round in 0..2 {
                let data = shapes::signed_data(rng, n, round == 1);
                let db = bits(&data);
                for mask in 1u32..(1 << d) - 1 {
                    if d > 3 && !ctx.tier_thorough && rng.below(3) != 0 { continue; }
                    let mut subset: Vec<usize> = (0..d).filter(|i| mask >> i & 1 == 1).collect();
                    if round == 1 { rng.shuffle(&mut subset); }
                    out.push(format!("c04.marg\t{sh}\t{db}\t{}", nats(&subset)));
                    if subset.len() >= 2 { out.push(format!("c04.step\t{sh}\t{db}\t{}", nats(&subset))); }
                }
            }
        }
        // error streams: duplicates (incl. duplicate of an out-of-range axis), out of range, too many, mixtures
        let a0 = rng.below(d as u64) as usize;
        out.push(format!("c04.marg\t{sh}\t{db}\t{}", nats(&[a0, a0])));
        out.push(format!("c04.marg\t{sh}\t{db}\t{}", nats(&[d])));
        out.push(format!("c04.marg\t{sh}\t{db}\t{}", nats(&[d + 3, a0])));
        out.push(format!("c04.marg\t{sh}\t{db}\t{}", nats(&[a0, d, a0])));
        out.push(format!("c04.marg\t{sh}\t{db}\t{}", nats(&[d, d])));
        out.push(format!("c04.marg\t{sh}\t{db}\t{}", nats(&[usize::MAX, a0])));
        let mut seq: Vec<usize> = (0..d + 1).collect(); rng.shuffle(&mut seq);
        out.push(format!("c04.marg\t{sh}\t{db}\t{}", nats(&seq)));
        out.push(format!("c04.marg\t{sh}\t{db}\t-"));
    }
    // the command line: `sfs view -m AXES` and `-M KEEP` (the keep list is a set: any order, an axis named twice adjacent or not,
    // an axis the spectrum does not have) on shapes of 2-5 axes; compared with the model's `viewRun`
    for (i, s) in shp.iter().filter(|s| s.len() >= 2 && s.iter().product::<usize>() <= 400).enumerate() {
        if !ctx.tier_thorough && i % 3 != 0 && *s != full5 { continue; }
        let d = s.len(); let n: usize = s.iter().product();
        let data = shapes::prime_data(rng, n);
        let l = |v: &[usize]| format!("S{}", nats(v));
        for rep in 0..(if *s == full5 { 12 } else { 3 }) {
            let k = rng.range(1, (d - 1) as u64) as usize;
            let mut axes: Vec<usize> = (0..d).collect(); rng.shuffle(&mut axes); axes.truncate(k);
            out.push(format!("c13.view\t{}\t{}\t{}\tN\tN\tN\t0\t0", nats(s), bits(&data), l(&axes)));
            let mut keep: Vec<usize> = (0..d).filter(|a| !axes.contains(a)).collect(); rng.shuffle(&mut keep);
            match rep % 4 { 0 => {} 1 => { let k0 = keep[0]; keep.push(k0); } 2 => { let kl = *keep.last().unwrap(); keep.insert(0, kl); keep.push(kl); } _ => { keep.push(d + rep); let k0 = keep[0]; keep.insert(1, k0); } }
            out.push(format!("c13.view\t{}\t{}\tN\t{}\tN\tN\t0\t0", nats(s), bits(&data), l(&keep)));
        }
        // duplicates in the remove list (adjacent, non-adjacent) are refused
        let a0 = rng.below(d as u64) as usize; let a1 = (a0 + 1) % d;
        out.push(format!("c13.view\t{}\t{}\t{}\tN\tN\tN\t0\t0", nats(s), bits(&data), l(&[a0, a1, a0])));
        out.push(format!("c13.view\t{}\t{}\t{}\tN\tN\tN\t0\t0", nats(s), bits(&data), l(&[a0, a0])));
    }
    // 6-8 axes: a dozen random axis sets each, in two orders
    for s in &wide {
        let d = s.len(); let n: usize = s.iter().product();
        let data = shapes::prime_data(rng, n);
        for _ in 0..12 {
            let k = rng.range(1, (d - 1) as u64) as usize;
            let mut axes: Vec<usize> = (0..d).collect(); rng.shuffle(&mut axes); axes.truncate(k);
            out.push(format!("c04.marg\t{}\t{}\t{}", nats(s), bits(&data), nats(&axes)));
            axes.reverse();
            out.push(format!("c04.step\t{}\t{}\t{}", nats(s), bits(&data), nats(&axes)));
        }
    }
}
