//! Call-set construction: VCF text, BCF via noodles' writer, BGZF via a small block writer with chosen block boundaries.
use std::io::Write;

#[derive(Clone, Debug)]
pub struct Record { pub contig: String, pub pos: usize, pub gts: Vec<String>, pub corrupt: Option<String> }

#[derive(Clone, Debug)]
pub struct CallSet { pub cols: Vec<String>, pub recs: Vec<Record>, pub extras: bool, pub wide: usize }

fn max_allele(gts: &[String]) -> usize {
    gts.iter().flat_map(|g| g.split(|c| c == '/' || c == '|')).filter_map(|a| a.parse::<usize>().ok()).max().unwrap_or(0)
}

/// REF allele of record `i`: one base, except every seventh record, which carries a long reference allele (16 / 130 / 300 bases:
/// beyond the inline length of a BCF typed string, beyond its 8-bit length, far beyond)
pub fn ref_allele(i: usize) -> String {
    if i % 7 == 3 { "ACGT".repeat(100)[..[16usize, 130, 300][(i / 7) % 3]].to_string() } else { "A".to_string() }
}

pub fn vcf_text(cs: &CallSet) -> Vec<u8> {
    let mut s = String::new();
    s.push_str("##fileformat=VCFv4.3\n");
    if cs.extras {
        // header lines real tools add: provenance, reference, filters, symbolic alleles, command lines
        s.push_str("##fileDate=20240917\n##source=harness\n##reference=file:///ref/genome.fa\n");
        s.push_str("##FILTER=<ID=q10,Description=\"Quality below 10\">\n##FILTER=<ID=s50,Description=\"Less than 50% of samples have data\">\n");
        s.push_str("##ALT=<ID=DEL,Description=\"Deletion\">\n##bcftools_viewCommand=view -Oz -o calls.vcf.gz in.bcf; Date=Tue Sep 17 10:00:00 2024\n");
    }
    let mut contigs: Vec<&str> = Vec::new();
    for r in &cs.recs { if !contigs.contains(&r.contig.as_str()) { contigs.push(&r.contig); } }
    if contigs.is_empty() { contigs.push("1"); }
    // `wide` in 2000..2999: every dictionary line carries an `IDX` attribute as bcftools / htslib write them — here with the contig indices
    // in REVERSE order of appearance, FORMAT/GT ahead of the INFO lines with the highest index, the INFO indices descending
    let idxmode = cs.wide >= 2000;
    if idxmode {
        let ni = cs.wide - 2000;
        s.push_str("##FILTER=<ID=PASS,Description=\"All filters passed\",IDX=0>\n");
        for (j, c) in contigs.iter().enumerate() { s.push_str(&format!("##contig=<ID={c},length=100000000,IDX={}>\n", contigs.len() - 1 - j)); }
        s.push_str(&format!("##FORMAT=<ID=GT,Number=1,Type=String,Description=\"Genotype\",IDX={}>\n", ni + 1));
        for k in 0..ni { s.push_str(&format!("##INFO=<ID=X{k},Number=1,Type=Integer,Description=\"d{k}\",IDX={}>\n", ni - k)); }
    }
    if !idxmode { for c in &contigs { s.push_str(&format!("##contig=<ID={c},length=100000000>\n")); } }
    // `wide` dummy INFO definitions ahead of FORMAT/GT push GT's index in the BCF string dictionary up (past 127: a 16-bit key)
    // (`wide` >= 1000: the `wide - 1000` definitions FOLLOW the FORMAT/GT line instead — GT then has dictionary index 1 whatever comes later)
    let (before, after) = if idxmode { (0, 0) } else if cs.wide >= 1000 { (0, cs.wide - 1000) } else { (cs.wide, 0) };
    for k in 0..before { s.push_str(&format!("##INFO=<ID=X{k},Number=1,Type=Integer,Description=\"d{k}\">\n")); }
    if !idxmode { s.push_str("##FORMAT=<ID=GT,Number=1,Type=String,Description=\"Genotype\">\n"); }
    for k in 0..after { s.push_str(&format!("##INFO=<ID=X{k},Number=1,Type=Integer,Description=\"d{k}\">\n")); }
    if cs.extras {
        s.push_str("##INFO=<ID=DP,Number=1,Type=Integer,Description=\"Depth\">\n");
        s.push_str("##INFO=<ID=AF,Number=A,Type=Float,Description=\"Frequency\">\n");
        s.push_str("##INFO=<ID=AC,Number=A,Type=Integer,Description=\"Allele count in genotypes\">\n");
        s.push_str("##INFO=<ID=AN,Number=1,Type=Integer,Description=\"Total number of alleles in called genotypes\">\n");
        s.push_str("##FORMAT=<ID=DP,Number=1,Type=Integer,Description=\"Depth\">\n");
        s.push_str("##FORMAT=<ID=GQ,Number=1,Type=Integer,Description=\"Quality\">\n");
    }
    s.push_str("#CHROM\tPOS\tID\tREF\tALT\tQUAL\tFILTER\tINFO\tFORMAT");
    for c in &cs.cols { s.push('\t'); s.push_str(c); }
    s.push('\n');
    for (i, r) in cs.recs.iter().enumerate() {
        let ma = max_allele(&r.gts);
        let alts = ["C", "G", "T", "CA", "CAA", "CAAA", "CT", "CTT", "CTTT", "CG", "CGG", "CGGG"];
        let alt = if ma == 0 && i % 3 == 0 { ".".to_string() } else { alts[..ma.max(1).min(alts.len())].join(",") };
        // records at positions 5 mod 11 spell their first ALT allele `*` (the overlapping-deletion allele of joint callers): an allele like
        // any other as far as counting goes
        let alt = if r.pos % 11 == 5 && alt != "." { let mut parts: Vec<&str> = alt.split(',').collect(); parts[0] = "*"; parts.join(",") } else { alt };
        // INFO carries summary fields as real call sets do; AC / AN are present on single-ALT records and are NOT kept in step with
        // the genotypes (stale after filtering / masking): nothing but the GT columns may decide a site
        let info = if cs.extras {
            if ma <= 1 && alt != "." { format!("AC={};AN={};DP=17;AF=0.25", (i * 3 + 1) % (2 * cs.cols.len() + 1), 2 * cs.cols.len()) } else { "DP=17".to_string() }
        } else { ".".to_string() };
        // a record whose samples all read `@` has no GT key at all (FORMAT DP only): every sample is missing
        let nogt = !r.gts.is_empty() && r.gts.iter().all(|g| g == "@");
        let fmt = if nogt { "DP" } else if cs.extras { "GT:DP:GQ" } else { "GT" };
        match r.corrupt.as_deref() {
            Some("badpos") => { s.push_str(&format!("{}\tx{}\t.\t{}\t{}\t.\t.\t{}\t{}", r.contig, r.pos, ref_allele(i), alt, info, fmt)); }
            // a position beyond the machine word: refused ("invalid position")
            Some("bigpos") => { s.push_str(&format!("{}\t18446744073709551616\t.\t{}\t{}\t.\t.\t{}\t{}", r.contig, ref_allele(i), alt, info, fmt)); for _ in 0..cs.cols.len() { s.push_str("\t0/1"); } s.push('\n'); continue; }
            Some("trunc") => { s.push_str(&format!("{}\t{}\t.\tA\n", r.contig, r.pos)); continue; }
            // an empty line in the body (a stray line end from a concatenation or an editor): not a record — refused, reported at the
            // site of the record before it (the request names that site)
            Some("blank") => { s.push('\n'); continue; }
            // a record that is complete but for ONE site-level column the VCF grammar refuses (ID / QUAL / FILTER / INFO): the reader
            // reports the error at this site; the sample columns that follow are well-formed and differ from the previous record's
            Some(k @ ("dupinfo" | "badinfo" | "badqual" | "dupid" | "dupfilter")) => {
                let (id, qual, filter, inf) = match k { "dupinfo" => (".", ".", ".", "DP=17;DP=17"), "badinfo" => (".", ".", ".", "DP=7.5"), "badqual" => (".", "abc", ".", "."), "dupid" => ("rs1;rs1", ".", ".", "."), _ => (".", ".", "q10;q10", ".") };
                s.push_str(&format!("{}\t{}\t{id}\tA\tC\t{qual}\t{filter}\t{inf}\tGT", r.contig, r.pos));
                for j in 0..cs.cols.len() { s.push('\t'); s.push_str(["1/1", "0/1", "1|1", "0/0"][(i + j) % 4]); }
                s.push('\n'); continue;
            }
            _ => { s.push_str(&format!("{}\t{}\t.\t{}\t{}\t.\t.\t{}\t{}", r.contig, r.pos, ref_allele(i), alt, info, fmt)); }
        }
        for (j, g) in r.gts.iter().enumerate() {
            s.push('\t');
            if nogt { s.push_str(&format!("{}", 3 + (i + j) % 20)); continue; }
            s.push_str(g);
            if cs.extras { s.push_str(&format!(":{}:{}", 3 + (i + j) % 20, 10 + (i * 7 + j) % 80)); }
        }
        s.push('\n');
    }
    s.into_bytes()
}

/// re-encode VCF text as uncompressed BCF with noodles' own writer; None if noodles cannot parse a record
pub fn to_raw_bcf(vcf: &[u8]) -> Option<Vec<u8>> {
    let mut rdr = noodles_vcf::Reader::new(vcf);
    let header = rdr.read_header().ok()?;
    let mut out = Vec::new();
    {
        let mut w = noodles_bcf::Writer::from(&mut out);
        w.write_header(&header).ok()?;
        for rec in rdr.records(&header) { let rec = rec.ok()?; w.write_record(&header, &rec).ok()?; }
    }
    Some(out)
}

pub fn bgzf_block(payload: &[u8]) -> Vec<u8> {
    use flate2::{write::DeflateEncoder, Compression, Crc};
    let mut enc = DeflateEncoder::new(Vec::new(), Compression::default());
    enc.write_all(payload).unwrap();
    let cdata = enc.finish().unwrap();
    let mut crc = Crc::new(); crc.update(payload);
    let bsize = (cdata.len() + 25) as u16;
    let mut b = vec![0x1f, 0x8b, 8, 4, 0, 0, 0, 0, 0, 0xff, 6, 0, b'B', b'C', 2, 0];
    b.extend(bsize.to_le_bytes()); b.extend(cdata); b.extend(crc.sum().to_le_bytes()); b.extend((payload.len() as u32).to_le_bytes());
    b
}

/// BGZF with caller-chosen cut points (sorted, each < 60000 apart is the caller's job), optional empty blocks, EOF block
/// how a BGZF stream ends: the canonical empty block, no marker at all (legal: the marker is a convention), or an empty block in
/// another valid encoding (a stored DEFLATE block)
#[derive(Clone, Copy, PartialEq)]
pub enum BgzfEnd { Marker, None, StoredEmpty }

pub fn bgzf_stored_empty_block() -> Vec<u8> {
    use flate2::Crc;
    let cdata = [0x01u8, 0x00, 0x00, 0xff, 0xff];
    let crc = Crc::new();
    let mut b = vec![0x1f, 0x8b, 8, 4, 0, 0, 0, 0, 0, 0xff, 6, 0, b'B', b'C', 2, 0];
    b.extend(((cdata.len() + 25) as u16).to_le_bytes()); b.extend(cdata); b.extend(crc.sum().to_le_bytes()); b.extend(0u32.to_le_bytes());
    b
}

pub fn bgzf_end(data: &[u8], cuts: &[usize], empties: bool, end: BgzfEnd) -> Vec<u8> {
    let mut out = bgzf(data, cuts, empties);
    let marker = bgzf_block(&[]);
    if end != BgzfEnd::Marker && out.ends_with(&marker) {
        out.truncate(out.len() - marker.len());
        if end == BgzfEnd::StoredEmpty { out.extend(bgzf_stored_empty_block()); }
    }
    out
}

pub fn bgzf(data: &[u8], cuts: &[usize], empties: bool) -> Vec<u8> {
    let mut out = vec![]; let mut s = 0;
    let mut pts: Vec<usize> = cuts.iter().copied().filter(|c| *c > 0 && *c < data.len()).collect();
    pts.sort(); pts.dedup();
    // never exceed the BGZF payload limit
    let mut all = Vec::new(); let mut last = 0;
    for p in pts.into_iter().chain(std::iter::once(data.len())) {
        while p - last > 60000 { last += 60000; all.push(last); }
        if p > last && p < data.len() { all.push(p); last = p; }
    }
    for (i, c) in all.iter().enumerate() {
        out.extend(bgzf_block(&data[s..*c])); s = *c;
        if empties && i % 3 == 1 { out.extend(bgzf_block(&[])); }
    }
    out.extend(bgzf_block(&data[s..]));
    out.extend(bgzf_block(&[]));
    out
}

// ---------- hand-written raw BCF (GT only) ----------
// noodles-bcf 0.32's *writer* mis-pads GT vectors of mixed ploidy (the end-of-vector padding is emitted once per
// allele instead of once per sample), so mixed-ploidy records are encoded here directly after the BCF2.2 specification.

fn typed_int_small(out: &mut Vec<u8>, v: i8) { out.push(0x11); out.push(v as u8); }
fn typed_string(out: &mut Vec<u8>, s: &[u8]) {
    if s.is_empty() { out.push(0x07); return; }
    if s.len() < 15 { out.push(((s.len() as u8) << 4) | 0x07); } else { out.push(0xF7); typed_int_small_or_16(out, s.len()); }
    out.extend_from_slice(s);
}
fn typed_int_small_or_16(out: &mut Vec<u8>, v: usize) {
    if v < 127 { out.push(0x11); out.push(v as u8); } else { out.push(0x12); out.extend_from_slice(&(v as i16).to_le_bytes()); }
}

/// GT string -> BCF allele values ((allele+1)<<1 | phased); "." allele = 0
fn gt_values(gt: &str) -> Option<Vec<i32>> {
    let mut out = Vec::new();
    let mut phased = false;
    let mut cur = String::new();
    let push = |cur: &str, phased: bool, out: &mut Vec<i32>| -> Option<()> {
        let v: i32 = if cur == "." { 0 } else { let a: i32 = cur.parse().ok()?; if a > 1_000_000 { return None; } (a + 1) << 1 };
        out.push(v | if phased { 1 } else { 0 }); Some(())
    };
    for c in gt.chars() {
        if c == '/' || c == '|' { push(&cur, phased, &mut out)?; cur.clear(); phased = c == '|'; } else { cur.push(c); }
    }
    push(&cur, phased, &mut out)?;
    Some(out)
}

pub fn raw_bcf_simple(cs: &CallSet) -> Option<Vec<u8>> {
    if cs.recs.iter().any(|r| r.corrupt.is_some() || r.gts.iter().any(|g| g == "@")) { return None; }
    let mut contigs: Vec<&str> = Vec::new();
    for r in &cs.recs { if !contigs.contains(&r.contig.as_str()) { contigs.push(&r.contig); } }
    if contigs.is_empty() { contigs.push("1"); }
    let idxmode = cs.wide >= 2000;
    let mut text = String::from("##fileformat=VCFv4.3\n");
    if idxmode {
        let ni = cs.wide - 2000;
        text.push_str("##FILTER=<ID=PASS,Description=\"All filters passed\",IDX=0>\n");
        for (j, c) in contigs.iter().enumerate() { text.push_str(&format!("##contig=<ID={c},length=100000000,IDX={}>\n", contigs.len() - 1 - j)); }
        text.push_str(&format!("##FORMAT=<ID=GT,Number=1,Type=String,Description=\"Genotype\",IDX={}>\n", ni + 1));
        for k in 0..ni { text.push_str(&format!("##INFO=<ID=X{k},Number=1,Type=Integer,Description=\"d{k}\",IDX={}>\n", ni - k)); }
    } else {
        text.push_str("##FILTER=<ID=PASS,Description=\"All filters passed\">\n");
        for c in &contigs { text.push_str(&format!("##contig=<ID={c},length=100000000>\n")); }
    }
    let (before, after) = if idxmode { (0, 0) } else if cs.wide >= 1000 { (0, cs.wide - 1000) } else { (cs.wide, 0) };
    for k in 0..before { text.push_str(&format!("##INFO=<ID=X{k},Number=1,Type=Integer,Description=\"d{k}\">\n")); }
    if !idxmode { text.push_str("##FORMAT=<ID=GT,Number=1,Type=String,Description=\"Genotype\">\n"); }
    for k in 0..after { text.push_str(&format!("##INFO=<ID=X{k},Number=1,Type=Integer,Description=\"d{k}\">\n")); }
    text.push_str("#CHROM\tPOS\tID\tREF\tALT\tQUAL\tFILTER\tINFO\tFORMAT");
    for c in &cs.cols { text.push('\t'); text.push_str(c); }
    text.push('\n');
    let mut out = Vec::new();
    out.extend_from_slice(b"BCF\x02\x02");
    out.extend_from_slice(&((text.len() + 1) as u32).to_le_bytes());
    out.extend_from_slice(text.as_bytes()); out.push(0);
    for (i, r) in cs.recs.iter().enumerate() {
        let ma = max_allele(&r.gts);
        let alts = ["C", "G", "T", "CA", "CAA", "CAAA", "CT", "CTT", "CTTT", "CG", "CGG", "CGGG"];
        let nalt = ma.max(1).min(alts.len());
        let mut shared = Vec::new();
        let cpos = contigs.iter().position(|c| *c == r.contig)?;
        shared.extend_from_slice(&((if idxmode { contigs.len() - 1 - cpos } else { cpos }) as i32).to_le_bytes());
        shared.extend_from_slice(&((r.pos as i32) - 1).to_le_bytes());
        shared.extend_from_slice(&(ref_allele(i).len() as i32).to_le_bytes());
        shared.extend_from_slice(&0x7F80_0001u32.to_le_bytes());
        shared.extend_from_slice(&((((1 + nalt) as u32) << 16) | 0).to_le_bytes());
        shared.extend_from_slice(&((1u32 << 24) | cs.cols.len() as u32).to_le_bytes());
        typed_string(&mut shared, b"");                 // ID missing
        typed_string(&mut shared, ref_allele(i).as_bytes());
        for a in &alts[..nalt] { typed_string(&mut shared, a.as_bytes()); }
        shared.push(0x00);                                // FILTER: empty vector
        let mut indiv = Vec::new();
        typed_int_small_or_16(&mut indiv, if idxmode { cs.wide - 2000 + 1 } else { 1 + before });    // FORMAT key: GT's dictionary index (PASS = 0, then the INFO ids), in the smallest integer type that holds it
        let enc: Vec<Vec<i32>> = r.gts.iter().map(|g| gt_values(g)).collect::<Option<_>>()?;
        let maxlen = enc.iter().map(|e| e.len()).max().unwrap_or(1);
        // the smallest integer type that holds every value of the record (as bcftools and htslib choose it): int8 up to allele 62,
        // int16 up to 16382, int32 beyond
        let top = enc.iter().flatten().copied().max().unwrap_or(0);
        let ty: u8 = if top <= 127 { 1 } else if top <= 32767 { 2 } else { 3 };
        if maxlen < 15 { indiv.push(((maxlen as u8) << 4) | ty); } else { return None; }
        for e in &enc {
            for k in 0..maxlen {
                match (ty, e.get(k)) {
                    (1, Some(v)) => indiv.push(*v as u8), (1, None) => indiv.push(0x81),
                    (2, Some(v)) => indiv.extend_from_slice(&(*v as i16).to_le_bytes()), (2, None) => indiv.extend_from_slice(&[0x01, 0x80]),
                    (_, Some(v)) => indiv.extend_from_slice(&v.to_le_bytes()), (_, None) => indiv.extend_from_slice(&[0x01, 0x00, 0x00, 0x80]),
                }
            }
        }
        out.extend_from_slice(&(shared.len() as u32).to_le_bytes());
        out.extend_from_slice(&(indiv.len() as u32).to_le_bytes());
        out.extend(shared); out.extend(indiv);
    }
    Some(out)
}
