//! Call-set construction: VCF text, BCF via noodles' writer, BGZF via a small block writer with chosen block boundaries.
use std::io::Write;

#[derive(Clone, Debug)]
pub struct Record { pub contig: String, pub pos: usize, pub gts: Vec<String>, pub corrupt: Option<String> }

#[derive(Clone, Debug)]
pub struct CallSet { pub cols: Vec<String>, pub recs: Vec<Record>, pub extras: bool }

fn max_allele(gts: &[String]) -> usize {
    gts.iter().flat_map(|g| g.split(|c| c == '/' || c == '|')).filter_map(|a| a.parse::<usize>().ok()).max().unwrap_or(0)
}

pub fn vcf_text(cs: &CallSet) -> Vec<u8> {
    let mut s = String::new();
    s.push_str("##fileformat=VCFv4.3\n");
    let mut contigs: Vec<&str> = Vec::new();
    for r in &cs.recs { if !contigs.contains(&r.contig.as_str()) { contigs.push(&r.contig); } }
    if contigs.is_empty() { contigs.push("1"); }
    for c in &contigs { s.push_str(&format!("##contig=<ID={c},length=100000000>\n")); }
    s.push_str("##FORMAT=<ID=GT,Number=1,Type=String,Description=\"Genotype\">\n");
    if cs.extras {
        s.push_str("##INFO=<ID=DP,Number=1,Type=Integer,Description=\"Depth\">\n");
        s.push_str("##INFO=<ID=AF,Number=A,Type=Float,Description=\"Frequency\">\n");
        s.push_str("##FORMAT=<ID=DP,Number=1,Type=Integer,Description=\"Depth\">\n");
        s.push_str("##FORMAT=<ID=GQ,Number=1,Type=Integer,Description=\"Quality\">\n");
    }
    s.push_str("#CHROM\tPOS\tID\tREF\tALT\tQUAL\tFILTER\tINFO\tFORMAT");
    for c in &cs.cols { s.push('\t'); s.push_str(c); }
    s.push('\n');
    for (i, r) in cs.recs.iter().enumerate() {
        let ma = max_allele(&r.gts);
        let alts = ["C", "G", "T", "CA", "CAA", "CAAA", "CT", "CTT", "CTTT", "CG", "CGG", "CGGG"];
        let alt = if ma == 0 && i % 3 == 0 { ".".to_string() } else { alts[..ma.max(1).min(alts.len())].join(",") };
        let info = if cs.extras { if ma <= 1 { "DP=17;AF=0.25".to_string() } else { "DP=17".to_string() } } else { ".".to_string() };
        let fmt = if cs.extras { "GT:DP:GQ" } else { "GT" };
        match r.corrupt.as_deref() {
            Some("badpos") => { s.push_str(&format!("{}\tx{}\t.\tA\t{}\t.\t.\t{}\t{}", r.contig, r.pos, alt, info, fmt)); }
            Some("trunc") => { s.push_str(&format!("{}\t{}\t.\tA\n", r.contig, r.pos)); continue; }
            _ => { s.push_str(&format!("{}\t{}\t.\tA\t{}\t.\t.\t{}\t{}", r.contig, r.pos, alt, info, fmt)); }
        }
        for (j, g) in r.gts.iter().enumerate() {
            s.push('\t'); s.push_str(g);
            if cs.extras { s.push_str(&format!(":{}:{}", 3 + (i + j) % 20, 10 + (i * 7 + j) % 80)); }
        }
        s.push('\n');
    }
    s.into_bytes()
}

/// re-encode VCF text as uncompressed BCF with noodles' own writer; None if noodles cannot parse a record
pub fn to_raw_bcf(vcf: &[u8]) -> Option<Vec<u8>> {
    let mut rdr = noodles_vcf::Reader::new(vcf);
    let header = rdr.read_header().ok()?;
    let mut out = Vec::new();
    {
        let mut w = noodles_bcf::Writer::from(&mut out);
        w.write_header(&header).ok()?;
        for rec in rdr.records(&header) { let rec = rec.ok()?; w.write_record(&header, &rec).ok()?; }
    }
    Some(out)
}

pub fn bgzf_block(payload: &[u8]) -> Vec<u8> {
    use flate2::{write::DeflateEncoder, Compression, Crc};
    let mut enc = DeflateEncoder::new(Vec::new(), Compression::default());
    enc.write_all(payload).unwrap();
    let cdata = enc.finish().unwrap();
    let mut crc = Crc::new(); crc.update(payload);
    let bsize = (cdata.len() + 25) as u16;
    let mut b = vec![0x1f, 0x8b, 8, 4, 0, 0, 0, 0, 0, 0xff, 6, 0, b'B', b'C', 2, 0];
    b.extend(bsize.to_le_bytes()); b.extend(cdata); b.extend(crc.sum().to_le_bytes()); b.extend((payload.len() as u32).to_le_bytes());
    b
}

/// BGZF with caller-chosen cut points (sorted, each < 60000 apart is the caller's job), optional empty blocks, EOF block
pub fn bgzf(data: &[u8], cuts: &[usize], empties: bool) -> Vec<u8> {
    let mut out = vec![]; let mut s = 0;
    let mut pts: Vec<usize> = cuts.iter().copied().filter(|c| *c > 0 && *c < data.len()).collect();
    pts.sort(); pts.dedup();
    // never exceed the BGZF payload limit
    let mut all = Vec::new(); let mut last = 0;
    for p in pts.into_iter().chain(std::iter::once(data.len())) {
        while p - last > 60000 { last += 60000; all.push(last); }
        if p > last && p < data.len() { all.push(p); last = p; }
    }
    for (i, c) in all.iter().enumerate() {
        out.extend(bgzf_block(&data[s..*c])); s = *c;
        if empties && i % 3 == 1 { out.extend(bgzf_block(&[])); }
    }
    out.extend(bgzf_block(&data[s..]));
    out.extend(bgzf_block(&[]));
    out
}
