//! C05 — folding: implementation result on exact (dyadic) data, plus the idempotence and
//! polarity relations evaluated on the implementation directly.
use crate::{proto::*, rng::Rng, shapes, Ctx};
use sfs_core::Scs;

fn fill_value(s: &str) -> f64 {
    match s { "nan" => f64::NAN, "zero" => 0.0, "minus-one" => -1.0, "inf" => f64::INFINITY, _ => panic!("fill") }
}

/// `c05.big shape k` — a spectrum too large for the list-based model (data `x[i] = 1 + (i * k) % 7`, small integers: every sum is exact):
/// the fold is checked through what the C05 theorems say about ANY fold — mass is kept (fill 0), entries beyond the midpoint carry the
/// fill, folding twice changes nothing, folding the mirrored spectrum gives the same result.
fn eval_big(a: &[&str]) -> Option<String> {
    let shape = parse_nats(a[0]); let k: usize = a[1].parse().ok()?;
    let n: usize = shape.iter().product();
    let data: Vec<f64> = (0..n).map(|i| 1.0 + ((i * k) % 7) as f64).collect();
    let mass_in: f64 = data.iter().sum();
    let scs = Scs::new(data.clone(), shape.clone()).ok()?;
    let f = scs.fold().into_spectrum(0.0);
    let fs = f.inner().as_slice();
    let mass_out: f64 = fs.iter().sum();
    let total: usize = shape.iter().map(|v| v - 1).sum();
    // allele count of flat index i (row-major)
    let count = |mut i: usize| -> usize { let mut c = 0; for v in shape.iter().rev() { c += i % v; i /= v; } c };
    let past_nonzero = (0..n).filter(|&i| 2 * count(i) > total && fs[i] != 0.0).count();
    let low_wrong = (0..n).filter(|&i| 2 * count(i) < total && fs[i] != data[i] + data[n - 1 - i]).count();
    let f2 = f.fold().into_spectrum(0.0);
    let idem = f2.inner().as_slice() == fs;
    let mut rev = data.clone(); rev.reverse();
    let fr = Scs::new(rev, shape.clone()).ok()?.fold().into_spectrum(0.0);
    let mirror = fr.inner().as_slice() == fs;
    Some(format!("{:016x}|{:016x}|{past_nonzero}|{low_wrong}|{}|{}", mass_in.to_bits(), mass_out.to_bits(), idem as u8, mirror as u8))
}

pub fn eval(op: &str, a: &[&str]) -> Option<String> {
    if op == "c05.big" { return eval_big(a); }
    let shape = parse_nats(a[0]);
    let data = parse_bits(a[1]);
    match op {
        "c05.fold" => {
            let scs = Scs::new(data, shape).ok()?;
            let f = scs.fold().into_spectrum(fill_value(a[2]));
            Some(format!("{}|{}", nats(f.shape()), bits(f.inner().as_slice())))
        }
        "c05.fold2" => {
            let scs = Scs::new(data, shape).ok()?;
            let f = scs.fold().into_spectrum(0.0).fold().into_spectrum(0.0);
            Some(format!("{}|{}", nats(f.shape()), bits(f.inner().as_slice())))
        }
        "c05.foldrev" => {
            let mut d = data; d.reverse();
            let scs = Scs::new(d, shape).ok()?;
            let f = scs.fold().into_spectrum(fill_value(a[2]));
            Some(format!("{}|{}", nats(f.shape()), bits(f.inner().as_slice())))
        }
        _ => None,
    }
}

pub fn gen(ctx: &Ctx, rng: &mut Rng, out: &mut Vec<String>) {
    // entries at the top of the binary64 range on the diagonal (2^1023 and 1.5 * 2^1023: the average of a mirror pair, and of the centre
    // entry with itself, is finite and representable although the pair's sum is not), small entries everywhere else
    {
        let h1 = f64::from_bits(0x7fe0000000000000); let h2 = f64::from_bits(0x7fe8000000000000); let h3 = f64::from_bits(0x7fd0000000000000);
        let cases: Vec<(Vec<usize>, Vec<f64>)> = vec![
            (vec![5], vec![1.0, 2.0, h2, 3.0, 4.0]), (vec![3], vec![0.5, h1, 0.25]), (vec![3, 3], vec![1.0, 2.0, h1, 3.0, h2, 4.0, h2, 5.0, 6.0]),
            (vec![3, 3], vec![0.0, 0.0, h2, 0.0, h3, 0.0, h2, 0.0, 0.0]), (vec![2, 2], vec![1.0, h1, h1, 2.0]), (vec![2, 3, 2], { let mut d = vec![1.0; 12]; d[3] = h1; d[8] = h2; d[4] = h3; d[7] = h3; d }),
        ];
        for (sh, d) in cases { for f in ["zero", "nan", "minus-one", "inf"] { out.push(format!("c05.fold\t{}\t{}\t{}", nats(&sh), bits(&d), f)); } out.push(format!("c05.fold2\t{}\t{}", nats(&sh), bits(&d))); }
    }
    // spectra whose total allele count passes 2^16 and 2^17 (narrow integer types for counts): 1-D and very unbalanced 2-D
    for (i, sh) in [vec![65537usize], vec![131071], vec![131073], vec![140001], vec![2, 131071], vec![131072, 2], vec![3, 70001], vec![300, 500]].into_iter().enumerate() {
        if !ctx.tier_thorough && i % 2 == 0 && i != 2 { continue; }
        out.push(format!("c05.big\t{}\t{}", nats(&sh), 3 + i));
    }
    // call histories on one spectrum object (queries, in-place edits, clones, replacement by its own fold / marginal / projection)
    crate::stat::gen_hist(rng, if ctx.tier_thorough { 600 } else { 60 }, 4, out);
    let mut shp = if ctx.tier_thorough { shapes::all_shapes(1, 4, 1, 7) } else {
        let mut s = shapes::all_shapes(1, 4, 1, 4);
        s.extend(shapes::all_shapes(1, 2, 5, 7));
        for _ in 0..60 { s.push(shapes::random_shape(rng, 1, 4, 1, 7, 2500)); }
        s
    };
    // size sweeps: every 1-axis length up to 300 (thorough 700), two-axis shapes with one long axis, and shapes with 5-8 short axes
    let top = if ctx.tier_thorough { 700 } else { 300 };
    for n in 8..=top { if n <= 64 || n % 3 == 0 || ctx.tier_thorough { shp.push(vec![n]); } }
    for n in 8..=(top / 3) { if n % 2 == 1 || ctx.tier_thorough { shp.push(vec![n, 2]); shp.push(vec![2, n]); shp.push(vec![3, n]); } }
    for d in 5..=8usize { shp.push(vec![2; d]); let mut m = vec![2; d]; m[d / 2] = 1; m[0] = 3; shp.push(m); shp.push((0..d).map(|k| 1 + (k % 3)).collect()); }
    shp.sort(); shp.dedup();
    shp.sort_by_key(|s| (s.iter().product::<usize>(), s.len()));
    let fills = ["nan", "zero", "minus-one", "inf"];
    for (i, s) in shp.iter().enumerate() {
        let n: usize = s.iter().product();
        let mut data = shapes::dyadic_data(rng, n);
        // special values in a minority of inputs
        if i % 7 == 3 && n > 0 {
            let k = rng.below(n as u64) as usize;
            data[k] = *rng.pick(&[f64::NAN, f64::INFINITY, f64::NEG_INFINITY]);
        }
        if ctx.tier_thorough || i % 4 == 0 {
            for f in fills { out.push(format!("c05.fold\t{}\t{}\t{}", nats(s), bits(&data), f)); }
        } else {
            out.push(format!("c05.fold\t{}\t{}\t{}", nats(s), bits(&data), fills[i % 4]));
        }
        out.push(format!("c05.fold2\t{}\t{}", nats(s), bits(&data)));
        out.push(format!("c05.foldrev\t{}\t{}\t{}", nats(s), bits(&data), fills[(i + 1) % 4]));
    }
}
