//! Correspondence harness: generates cases, runs the real sfs code on them (in-process, or the
//! `sfs` binary for CLI-level cases) and prints one protocol line per case for the Lean driver.
mod proto;
mod rng;
mod shapes;
mod c19;
mod c05;
mod c04;
mod vcf;
mod create;
mod creategen;
mod c03;
mod c13;
mod npy;
mod cli;
mod io;
mod stat;
mod c17;

use std::io::{BufRead, Write};

pub struct Ctx {
    pub tier_thorough: bool,
    pub seed: u64,
    pub sfs_bin: String,
    pub work: String,
}

fn eval_line(ctx: &Ctx, line: &str) -> String {
    let fields: Vec<&str> = line.split('\t').collect();
    let op = fields[0];
    let args = &fields[1..];
    let ctxp = std::panic::AssertUnwindSafe(ctx);
    let argv: Vec<String> = args.iter().map(|s| s.to_string()).collect();
    let opn = op.to_string();
    proto::guarded(move || {
        let a: Vec<&str> = argv.iter().map(|s| s.as_str()).collect();
        let r = match opn.split('.').next().unwrap_or("") {
            "c19" => c19::eval(&opn, &a),
            "c05" => c05::eval(&opn, &a),
            "c04" => c04::eval(*ctxp, &opn, &a),
            "c03" => c03::eval(&opn, &a),
            "c13" => c13::eval(*ctxp, &opn, &a),
            "io" => io::eval(*ctxp, &opn, &a),
            "st" => stat::eval(*ctxp, &opn, &a),
            "pn" => c17::eval(*ctxp, &opn, &a),
            "ct" => create::eval_bytes(*ctxp, &a),
            "hist" => if opn == "hist.arr" { c19::eval_hist(&a) } else { stat::eval_hist(&a) },
            p @ ("c01" | "c02" | "c08" | "c09" | "c10" | "c11" | "c12") => {
                let _ = p;
                if opn.ends_with(".mem") { create::eval_mem(&a) }
                else if opn.ends_with(".cli") { create::eval_cli(*ctxp, &a) }
                else if opn.ends_with(".same") { create::eval_same(*ctxp, &a) }
                else if opn.ends_with(".mass") { create::eval_mass(*ctxp, &a) }
                else { None }
            }
            _ => None,
        };
        r.unwrap_or_else(|| "BAD-OP".to_string())
    })
}

/// evaluate all requests on a pool of threads, results in request order
fn eval_all(ctx: &Ctx, reqs: &[String]) -> Vec<String> {
    let nthreads = std::thread::available_parallelism().map(|n| n.get()).unwrap_or(4).min(16);
    let next = std::sync::atomic::AtomicUsize::new(0);
    let results: Vec<std::sync::Mutex<Option<String>>> = reqs.iter().map(|_| std::sync::Mutex::new(None)).collect();
    std::thread::scope(|s| {
        for _ in 0..nthreads {
            s.spawn(|| loop {
                let i = next.fetch_add(1, std::sync::atomic::Ordering::SeqCst);
                if i >= reqs.len() { break; }
                let r = eval_line(ctx, &reqs[i]);
                *results[i].lock().unwrap() = Some(r);
            });
        }
    });
    results.into_iter().map(|m| m.into_inner().unwrap().unwrap_or_else(|| "NO-RESULT".into())).collect()
}

fn main() {
    std::panic::set_hook(Box::new(|_| {}));
    let argv: Vec<String> = std::env::args().collect();
    let mode = argv.get(1).map(|s| s.as_str()).unwrap_or("");
    let ctx = Ctx {
        tier_thorough: argv.get(3).map(|s| s == "thorough").unwrap_or(false),
        seed: argv.get(4).and_then(|s| s.parse().ok()).unwrap_or(0),
        sfs_bin: std::env::var("SFS_BIN").unwrap_or_else(|_| "/verif/work/target-repo/debug/sfs".into()),
        work: std::env::var("VERIF_WORK").unwrap_or_else(|_| "/verif/work".into()),
    };
    let stdout = std::io::stdout();
    let mut out = std::io::BufWriter::new(stdout.lock());
    match mode {
        "run" | "gen" => {
            let prop = argv.get(2).expect("property").to_lowercase();
            let mut rng = rng::Rng::new(ctx.seed);
            let mut reqs: Vec<String> = Vec::new();
            match prop.as_str() {
                "c19" => c19::gen(&ctx, &mut rng, &mut reqs),
                "c05" => c05::gen(&ctx, &mut rng, &mut reqs),
                "c04" => c04::gen(&ctx, &mut rng, &mut reqs),
                "c01" => creategen::gen_c01(&ctx, &mut rng, &mut reqs),
                "c02" => creategen::gen_c02(&ctx, &mut rng, &mut reqs),
                "c08" => creategen::gen_c08(&ctx, &mut rng, &mut reqs),
                "c09" => creategen::gen_c09(&ctx, &mut rng, &mut reqs),
                "c10" => creategen::gen_c10(&ctx, &mut rng, &mut reqs),
                "c11" => creategen::gen_c11(&ctx, &mut rng, &mut reqs),
                "c12" => creategen::gen_c12(&ctx, &mut rng, &mut reqs),
                "c03" => c03::gen(&ctx, &mut rng, &mut reqs),
                "c13" => c13::gen(&ctx, &mut rng, &mut reqs),
                "c17" => c17::gen(&ctx, &mut rng, &mut reqs),
                "c06" => stat::gen_c06(&ctx, &mut rng, &mut reqs),
                "c14" => stat::gen_c14(&ctx, &mut rng, &mut reqs),
                "c07" => io::gen_c07(&ctx, &mut rng, &mut reqs),
                "c15" => io::gen_c15(&ctx, &mut rng, &mut reqs),
                "c16" => io::gen_c16(&ctx, &mut rng, &mut reqs),
                "c18" => io::gen_c18(&ctx, &mut rng, &mut reqs),
                _ => { eprintln!("unknown property {prop}"); std::process::exit(2); }
            }
            if mode == "gen" { for r in &reqs { writeln!(out, "{r}").unwrap(); } }
            else { for (r, res) in reqs.iter().zip(eval_all(&ctx, &reqs)) { writeln!(out, "{r}\t=>\t{res}").unwrap(); } }
        }
        "eval" => {
            let stdin = std::io::stdin();
            let mut reqs = Vec::new();
            for line in stdin.lock().lines() {
                let line = line.unwrap();
                let req = match line.find("\t=>\t") { Some(i) => line[..i].to_string(), None => line.clone() };
                if req.trim().is_empty() || req.starts_with('#') { continue; }
                reqs.push(req);
            }
            for (r, res) in reqs.iter().zip(eval_all(&ctx, &reqs)) { writeln!(out, "{r}\t=>\t{res}").unwrap(); }
        }
        _ => { eprintln!("usage: sfs-harness run|gen <prop> <quick|thorough> <seed> | eval < requests"); std::process::exit(2); }
    }
}
