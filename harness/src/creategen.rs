//! Case generators for the `sfs create` properties.
use crate::{rng::Rng, Ctx};

const GT_CALLED: &[&str] = &["0/0", "0/1", "1/0", "1/1", "0|0", "0|1", "1|0", "1|1"];
const GT_MISSING: &[&str] = &["./.", ".|.", "./0", "1/.", ".", ".|1"];
const GT_MULTI: &[&str] = &["0/2", "2/1", "2/2", "3/0", "1|2", "2|0", "0/10", "1|12", "10/1", "0|11"];
// allele indices past one byte (256, 257: 0 and 1 when cut down to eight bits), past two bytes; VCF text only (in BCF any index above 62
// needs an int16 GT vector, which runs into the dependency's known defect F18)
const GT_WIDE: &[&str] = &["0/256", "256/0", "257|0", "256/256", "1/257", "257/257", "0/65536", "65537/65536", "0/63", "4294967296/0", "4294967297|4294967297"];
pub fn needs_wide(gt: &str) -> bool { gt.split(|c| c == '/' || c == '|').any(|a| a.parse::<u64>().map(|v| v > 62).unwrap_or(false)) }
/// replace some multiallelic genotypes of a VCF-bound call set by ones with very large allele indices
pub fn widen(rng: &mut Rng, recs: &mut [(String, usize, Vec<String>)]) {
    for r in recs.iter_mut() { for g in r.2.iter_mut() { if GT_MULTI.contains(&g.as_str()) && rng.chance(1, 2) { *g = rng.pick(GT_WIDE).to_string(); } } }
    // and one called genotype per call set, so that the wide alleles also stand where a count would otherwise be
    if let Some(r) = recs.last_mut() { if let Some(g) = r.2.iter_mut().find(|g| GT_CALLED.contains(&g.as_str())) { *g = rng.pick(GT_WIDE).to_string(); } }
}
const GT_PLOIDY: &[&str] = &["0", "1", "0/0/1", "1|1|1", "0/1/1/0"];

pub struct Gen<'a> { pub rng: &'a mut Rng }

impl<'a> Gen<'a> {
    /// population assignment: for each column either None (not listed) or a population label index
    pub fn assignment(&mut self, ncols: usize, npops: usize, p_unselected: u64) -> Vec<Option<usize>> {
        loop {
            let a: Vec<Option<usize>> = (0..ncols).map(|_| if self.rng.chance(p_unselected, 100) { None } else { Some(self.rng.below(npops as u64) as usize) }).collect();
            if a.iter().any(|x| x.is_some()) { return a; }
        }
    }
    pub fn gt_cli(&mut self, class: u64) -> &'static str {
        match class { 0 => *self.rng.pick(GT_CALLED), 1 => *self.rng.pick(GT_MISSING), 2 => *self.rng.pick(GT_MULTI), _ => *self.rng.pick(GT_PLOIDY) }
    }
    pub fn gt_mem(&mut self, class: u64) -> &'static str {
        match class { 0 => *self.rng.pick(&["0", "1", "1", "2"]), 1 => "m", 2 => "x", _ => "p" }
    }
}

/// noodles' BCF writer cannot encode a wholly missing GT field: spell it `./.` in BCF containers
pub fn bcf_safe(_recs: &mut [(String, usize, Vec<String>)]) { /* the hand-written BCF encoder spells `.` as one missing allele, as bcftools does */ }

pub fn cols(n: usize) -> Vec<String> { (0..n).map(|i| format!("s{i}")).collect() }
pub fn pop_name(i: usize) -> String { ["A", "B", "C", "D", "E"][i % 5].to_string() }

/// sample list string from an assignment, in the given listing order; label `unnamed` index = usize::MAX means no label
pub fn samples_arg(order: &[usize], assign: &[Option<usize>], unnamed_pop: Option<usize>, via_file: bool) -> String {
    let items: Vec<String> = order.iter().filter_map(|&c| assign[c].map(|p| if Some(p) == unnamed_pop { format!("s{c}") } else { format!("s{c}={}", pop_name(p)) })).collect();
    format!("{}:{}", if via_file { "S" } else { "s" }, items.join(","))
}

/// like `samples_arg`, with caller-chosen sample names and population labels (C09: names and labels with blanks,
/// punctuation, shared first words, an empty label)
pub fn samples_arg_styled(order: &[usize], assign: &[Option<usize>], unnamed_pop: Option<usize>, via_file: bool, names: &[String], labels: &[String]) -> String {
    let items: Vec<String> = order.iter().filter_map(|&c| assign[c].map(|p| if Some(p) == unnamed_pop { names[c].clone() } else { format!("{}={}", names[c], labels[p]) })).collect();
    format!("{}:{}", if via_file { "S" } else { "s" }, items.join(","))
}

const STYLED_LABELS: &[&str] = &["East Africa", "East Asia", "East", "East  Africa", "West-1", "a.b", "x:y", "p|q", "#h", "A B C", "A B", "A", "pop 1", "pop 2", "\u{e9}t\u{e9}", ""];

pub fn records_str(recs: &[(String, usize, Vec<String>)]) -> String {
    if recs.is_empty() { return "-".into(); }
    recs.iter().map(|(c, p, g)| format!("{c}~{p}~{}", g.join(","))).collect::<Vec<_>>().join(";")
}

/// population sizes (number of listed samples) in first-appearance order of labels for the given listing order
pub fn pop_sizes(order: &[usize], assign: &[Option<usize>]) -> Vec<usize> {
    let mut labels: Vec<usize> = Vec::new(); let mut sizes: Vec<usize> = Vec::new();
    for &c in order { if let Some(p) = assign[c] { match labels.iter().position(|l| *l == p) { Some(i) => sizes[i] += 1, None => { labels.push(p); sizes.push(1); } } } }
    sizes
}

/// a random record: per-column class drawn with the given weights (called, missing, multi, ploidy), with the pattern
/// "only an unselected sample is missing / erroneous" forced when `force_unselected_bad`
pub fn record(g: &mut Gen, assign: &[Option<usize>], w: [u64; 4], force_unselected_bad: bool, mem: bool) -> Vec<String> {
    // a caller that asks for no ploidy errors (weight 0) gets none from the structured records either
    record_opts(g, assign, w, force_unselected_bad, mem, w[3] > 0)
}

/// `record` with the say on whether the odd column of a no-ALT record may be a reference call of another ploidy
pub fn record_opts(g: &mut Gen, assign: &[Option<usize>], w: [u64; 4], force_unselected_bad: bool, mem: bool, odd_ploidy: bool) -> Vec<String> {
    let tot: u64 = w.iter().sum();
    // one record in eight is FIXED within every population (all of its samples homozygous for the same allele, REF or ALT drawn per
    // population: fixed differences between populations, sites fixed for ALT everywhere) — the records a "nothing to sample here"
    // shortcut singles out; unselected columns stay arbitrary
    if !force_unselected_bad && g.rng.chance(1, 8) {
        let alt: Vec<bool> = (0..8).map(|_| g.rng.chance(1, 2)).collect();
        return assign.iter().map(|a| match a {
            Some(p) => (if mem { if alt[*p % 8] { "2" } else { "0" } } else if alt[*p % 8] { *g.rng.pick(&["1/1", "1|1"]) } else { *g.rng.pick(&["0/0", "0|0"]) }).to_string(),
            None => { let cands: Vec<u64> = (0..3u64).filter(|c| *c == 0 || w[*c as usize] > 0).collect(); let class = *g.rng.pick(&cands); (if mem { g.gt_mem(class) } else { g.gt_cli(class) }).to_string() }
        }).collect();
    }
    // … and one in twelve has no ALT allele at all (the VCF writer spells ALT `.`): homozygous reference calls with one odd column —
    // missing, partly missing, or a reference call of another ploidy (`0`, `0/0/0`): what a "nothing to count here" shortcut skips
    if !force_unselected_bad && w[1] > 0 && g.rng.chance(1, 12) {
        let odd = g.rng.below(assign.len() as u64) as usize;
        let odd_gt: &'static str = if mem { *g.rng.pick(&["m", "m", "p"]) } else { *g.rng.pick(&[".", "./.", "0/.", "./0", ".|.", "./.", "0", "0/0/0"]) };
        let odd_gt = if !odd_ploidy && ["p", "0", "0/0/0"].contains(&odd_gt) { if mem { "m" } else { "./." } } else { odd_gt };
        return (0..assign.len()).map(|c| if c == odd { odd_gt.to_string() } else if mem { "0".to_string() } else { g.rng.pick(&["0/0", "0|0"]).to_string() }).collect();
    }
    assign.iter().map(|a| {
        let mut class = { let mut x = g.rng.below(tot); let mut c = 0; for (i, wi) in w.iter().enumerate() { if x < *wi { c = i as u64; break; } x -= wi; } c };
        if force_unselected_bad { class = if a.is_none() { 1 + g.rng.below(3) } else { 0 }; }
        if a.is_some() && class == 3 && !g.rng.chance(1, 6) { class = 0; }   // ploidy errors in selected columns abort the run: keep them rare
        (if mem { g.gt_mem(class) } else { g.gt_cli(class) }).to_string()
    }).collect()
}

pub fn gen_c01(ctx: &Ctx, rng: &mut Rng, out: &mut Vec<String>) {
    gen_wide_output("c01", out);
    let mut g = Gen { rng };
    // exhaustive small scope (in-process): all maps of 3 columns into <= 2 populations x all records over {0,1,2,m}^3
    let codes = ["0", "1", "2", "m"];
    for m in 1..27usize {
        let assign: Vec<Option<usize>> = (0..3).map(|i| match (m / 3usize.pow(i)) % 3 { 0 => None, k => Some(k - 1) }).collect();
        let order: Vec<usize> = (0..3).collect();
        let sl = samples_arg(&order, &assign, None, false);
        let mut recs = Vec::new();
        for r in 0..64usize { recs.push(("1".to_string(), r + 1, (0..3).map(|i| codes[(r >> (2 * i)) & 3].to_string()).collect::<Vec<_>>())); }
        // one case with all 64 records and 64 single-record cases would be redundant with C11's additivity theorem; emit the batch and 8 singles
        out.push(format!("c01.mem\ts0,s1,s2\t{sl}\tN\t{}", records_str(&recs)));
        for r in (0..64).step_by(9) { out.push(format!("c01.mem\ts0,s1,s2\t{sl}\tN\t{}", records_str(&recs[r..r + 1]))); }
    }
    let (nmem, ncli) = if ctx.tier_thorough { (3000, 400) } else { (300, 50) };
    for i in 0..nmem + ncli {
        let mem = i < nmem;
        let npops = g.rng.range(1, 4) as usize;
        let ncols = g.rng.range(2, if ctx.tier_thorough { 40 } else { 12 }) as usize;
        let assign = g.assignment(ncols, npops, 30);
        let mut order: Vec<usize> = (0..ncols).collect(); g.rng.shuffle(&mut order);
        let unnamed = if g.rng.chance(1, 3) { Some(g.rng.below(npops as u64) as usize) } else { None };
        let all = i % 9 == 0;   // no sample list: every column, one unnamed population
        // a third of the CLI call sets: sample names and population labels with blanks and punctuation (what a samples file must
        // carry through untouched: only the first tab of a line separates name from label)
        let styled = !mem && i % 3 == 1;
        let names: Vec<String> = if styled { (0..ncols).map(|j| match j % 4 { 0 => format!("s{j} x"), 1 => format!("NA {j}"), 2 => format!("s{j}.b-1"), _ => format!("s{j}") }).collect() } else { cols(ncols) };
        let labels: Vec<String> = if styled { ["East Africa", "East Asia", "East", "A B C", "pop 1"].iter().map(|l| l.to_string()).collect() } else { (0..5).map(pop_name).collect() };
        let sl = if all { "N".to_string() } else { samples_arg_styled(&order, &assign, unnamed, !mem && g.rng.chance(1, 2), &names, &labels) };
        let eff_assign: Vec<Option<usize>> = if all { vec![Some(0); ncols] } else { assign.clone() };
        let nrec = g.rng.range(1, if ctx.tier_thorough { 300 } else { 30 }) as usize;
        let mut recs = Vec::new();
        // positions repeat (a multiallelic site split over several records, a SNP and an indel at one position): a third of
        // the records share contig and position with their predecessor
        let mut pos = 10;
        for r in 0..nrec {
            let force = g.rng.chance(1, 10);
            let contig = if r * 2 < nrec { "1" } else { "chrX" };
            if !g.rng.chance(1, 3) { pos += 3; }
            recs.push((contig.to_string(), pos, record(&mut g, &eff_assign, [70, 12, 8, 10], force, mem)));
        }
        // CLI cases: the first record is monomorphic REF with one selected sample missing — the VCF writer of the harness spells
        // such a record without ALT allele (`.`): it must be skipped like any other incomplete record
        if !mem && i % 2 == 0 {
            if let Some(sel) = eff_assign.iter().position(|a| a.is_some()) {
                let mut g: Vec<String> = vec!["0/0".to_string(); ncols]; g[sel] = if i % 4 == 0 { "./.".into() } else { ".".into() };
                recs[0].2 = g;
            }
        }
        let c = names.join(",");
        if mem { out.push(format!("c01.mem\t{c}\t{sl}\tN\t{}", records_str(&recs))); }
        else {
            let container = ["vcf", "vcf", "bcf", "vcfgz", "rawbcf"][i % 5];
            if container.contains("bcf") { bcf_safe(&mut recs); } else if i % 2 == 1 { widen(g.rng, &mut recs); }
            // the BGZF containers in varying block layouts, including the ends of the stream (text without final newline cut inside its last
            // line, a leading empty block, a two-byte first block)
            let layout = [0u64, 14, 25, 38, 1, 13, 26, 37][(i / 5) % 8];
            out.push(format!("c01.cli\t{container}\tpath\t4\t{layout}\t{}\t{c}\t{sl}\tN\t0\t{}\t{}", (i % 2), if i % 4 == 0 { "3" } else { "-" }, records_str(&recs)));
            // the same call set under --strict, with the genotypes of the listed samples made complete: whatever the unlisted samples
            // carry (missing, multiallelic, other ploidy) the run succeeds with the same spectrum
            if i % 3 == 0 && !all {
                let mut strict_recs = recs.clone();
                for r in strict_recs.iter_mut() { for (k, a) in eff_assign.iter().enumerate() { if a.is_some() && !["0/0", "0/1", "1/0", "1/1", "0|0", "0|1", "1|0", "1|1"].contains(&r.2[k].as_str()) { r.2[k] = "0|1".into(); } else if a.is_none() && k % 2 == 0 { r.2[k] = ["./.", "1/2", ".", "0/0/1"][(k / 2 + r.1) % 4].into(); } } }
                out.push(format!("c01.cli\t{container}\tpath\t4\t{layout}\t{}\t{c}\t{sl}\tN\t1\t-\t{}", (i % 2), records_str(&strict_recs)));
            }
            // byte level (the model decodes the container itself); sample lists given by file are left to the `.cli` form
            if i % 3 == 0 && !sl.starts_with("S:") {
                let rs = records_str(&recs);
                let cs = crate::vcf::CallSet { cols: names.clone(), recs: crate::create::parse_records(&rs), extras: i % 2 == 1, wide: 0 };
                if let Some(l) = crate::create::bytes_case(&cs, container, [0u64, 1, 2, 3, 14, 25, 38, 13][(i / 3) % 8], &c, &sl, "N", "0", "-", &rs) { out.push(l); }
            }
        }
    }
}

/// ten populations of one sample each: 3^10 = 59049 cells, a value line of more than 64 KiB at precision 0
pub fn gen_wide_output(p: &str, out: &mut Vec<String>) {
    let cols: Vec<String> = (0..10).map(|i| format!("s{i}")).collect();
    let sl = format!("s:{}", (0..10).map(|i| format!("s{i}=P{i}")).collect::<Vec<_>>().join(","));
    let recs = "1~5~0/0,0/0,0/0,0/0,0/0,0/0,0/0,0/0,0/0,0/0;1~6~0/1,0/0,1/1,0/0,0/0,0/1,0/0,0/0,0/0,1/0;1~7~0/1,0/0,1/1,0/0,0/0,0/1,0/0,0/0,0/0,1/0;1~8~1/1,1/1,1/1,1/1,1/1,1/1,1/1,1/1,1/1,1/1;1~9~1/1,0|1,1/1,1/1,0/0,1/1,./.,1/1,1/1,1/1;2~4~1/1,1/1,0/1,1/1,1/1,1/0,1/1,1/1,1/1,0/1";
    out.push(format!("{p}.cli\tvcf\tstdin\t4\t0\t0\t{}\t{sl}\tN\t0\t-\t{recs}", cols.join(",")));
}

pub fn gen_c08(ctx: &Ctx, rng: &mut Rng, out: &mut Vec<String>) {
    // every GT string over alleles {., 0, 1, 2, 3, 10} x separators {/,|} x ploidy 1..3
    let alleles = [".", "0", "1", "2", "3", "10"];
    let mut gts: Vec<String> = Vec::new();
    for a in alleles { gts.push(a.to_string()); }
    for a in alleles { for s in ["/", "|"] { for b in alleles { gts.push(format!("{a}{s}{b}")); } } }
    let mut tri: Vec<String> = Vec::new();
    for a in alleles { for s in ["/", "|"] { for b in alleles { for t in ["/", "|"] { for c in alleles { tri.push(format!("{a}{s}{b}{t}{c}")); } } } } }
    if !ctx.tier_thorough {
        // quick: every triploid string over {., 0, 1} (all-missing, partly missing, called), 40 of the others
        let core: Vec<String> = tri.iter().filter(|g| g.chars().all(|c| ".01/|".contains(c))).cloned().collect();
        let mut rest: Vec<String> = tri.iter().filter(|g| !g.chars().all(|c| ".01/|".contains(c))).cloned().collect();
        rng.shuffle(&mut rest); rest.truncate(40);
        tri = core; tri.extend(rest);
    }
    gts.extend(tri);
    for g in ["./././.", ".|.|.|.", "0/0/0/0", "./0/./1", "././././."] { gts.push(g.to_string()); }
    for g in ["0/255", "255/0", "0/2147483648", "1/62", "62|1", "0/256", "256/0", "256/256", "257/0", "1|257", "257/257", "256/257", "0/512", "0/65536", "65537/0", "65537|65537", "4294967296/0", "4294967297/4294967297"] { gts.push(g.to_string()); }
    // the edges of the GT grammar (VCF text only): a separator in front of the first allele (VCF 4.4), `+` in front of an index, indices at
    // and beyond the machine word, empty alleles, lone separators
    for g in ["|0/1", "/0/1", "|1|1", "|.", "/.", "|./.", "0/+1", "+1/+1", "+0|+0", "0/18446744073709551615", "18446744073709551616/0", "0/18446744073709551616", "99999999999999999999999/1",
              "0//1", "0/", "/", "|", "0|", "||0", "++1/0", "0/-1", "-0/0", "0/1/", "|0", "/1", "|0/1/1"] { gts.push(g.to_string()); }
    let vcf_only = |gt: &str| needs_wide(gt) || gt.contains('+') || gt.contains('-') || gt.starts_with('/') || gt.starts_with('|') || gt.ends_with('/') || gt.ends_with('|') || gt.contains("//") || gt.contains("||") || gt.len() > 20;
    for (gi, gt) in gts.iter().enumerate() {
        // every other string: the record after it sits at the same contig and position (a site split over two records, a SNP next to an
        // indel) — the classification of a genotype does not depend on where its record is
        let tail = if gi % 2 == 1 { "chr2~77~0/1,1/1;chr2~77~1/1,0/1;chr2~78~0/0,0/1" } else { "chr2~78~0/1,1/1" };
        for (sel, sl) in [("selected", "s:s0=A"), ("unselected", "s:s1=A"), ("both", "N")] {
            for container in ["vcf", "bcf"] {
                // BCF cannot carry allele indices that need int16 without hitting the dependency's known defect (F18): keep <= 10 there (all listed are)
                if container == "bcf" && vcf_only(gt) { continue; }
                if !ctx.tier_thorough && sel == "both" && container == "bcf" { continue; }
                // a second record after it shows that a ploidy error really stops the run and that nothing leaks
                out.push(format!("c08.cli\t{container}\tpath\t4\t0\t0\ts0,s1\t{sl}\tN\t0\t-\tchr2~77~{gt},0/1;{tail}"));
            }
        }
        // byte level: the GT string inside real VCF text / BCF int8 vectors, decoded by the container model
        for container in ["vcf", "rawbcf", "vcfgz"] {
            if container == "rawbcf" && vcf_only(gt) { continue; }
            if !ctx.tier_thorough && container == "vcfgz" && gt.len() > 3 { continue; }
            let rs = format!("chr2~77~{gt},0/1;{tail}");
            let cs = crate::vcf::CallSet { cols: cols(2), recs: crate::create::parse_records(&rs), extras: false, wide: 0 };
            if let Some(l) = crate::create::bytes_case(&cs, container, 2, "s0,s1", "s:s0=A", "N", "0", "-", &rs) { out.push(l); }
        }
        // in a run with projection as well (precision fixed)
        if gt.len() <= 3 { out.push(format!("c08.cli\tvcf\tstdin\t4\t0\t0\ts0,s1\ts:s0=A,s1=A\tshape:3\t0\t4\tchr2~77~{gt},0/1;chr2~78~0/1,1/1")); }
    }
    // a record in which EVERY sample has the same other ploidy (chrY, MT: the BCF GT vector is then narrower / wider than that of the
    // records before it), after and before ordinary diploid records; selected, unselected, all columns; VCF, BCF and byte level
    for (k, odd) in ["0,1", "1,1", "0,.", "0/0/1,0/1/1", "./././.,0/1/0/1", "1,0"].into_iter().enumerate() {
        for order in 0..3 {
            let recs = match order { 0 => format!("chr2~10~0/1,1/1;chrY~5~{odd}"), 1 => format!("chr2~10~0/1,1/1;chr2~11~1|1,0/0;chrY~5~{odd};chr2~12~0/1,0/1"), _ => format!("chrY~5~{odd};chr2~10~0/1,1/1") };
            for sl in ["s:s0=A", "s:s1=A", "N"] {
                if !ctx.tier_thorough && (k + order) % 2 == 1 && sl != "N" { continue; }
                for container in ["vcf", "bcf", "rawbcf"] { out.push(format!("c08.cli\t{container}\tpath\t4\t0\t0\ts0,s1\t{sl}\tN\t0\t-\t{recs}")); }
                let cs = crate::vcf::CallSet { cols: cols(2), recs: crate::create::parse_records(&recs), extras: false, wide: 0 };
                if let Some(l) = crate::create::bytes_case(&cs, "rawbcf", 0, "s0,s1", sl, "N", "0", "-", &recs) { out.push(l); }
            }
        }
    }
    // the error must name the record's contig also when the BCF header numbers its contigs by `IDX` attributes that differ from the
    // order of the lines (and a skipped site in strict mode likewise)
    for (k, recs) in ["chrA~10~0/1,1/1;chrA~30~0,0/1;chrB~5~0/1,0/1", "chrB~7~0/1,0/0;chrA~30~0/0/1,0/1", "chrA~10~0/1,1/1;chrB~5~./.,0/1;chrB~6~1,1"].into_iter().enumerate() {
        for container in ["bcf", "rawbcf", "vcf"] {
            for (sl, strict) in [("s:s0=A", "0"), ("N", "0"), ("s:s0=A", "1")] {
                if !ctx.tier_thorough && (k + strict.len()) % 2 == 1 && sl == "N" { continue; }
                out.push(format!("c08.cli\t{container}\tpath\t4\t0\tw{}\ts0,s1\t{sl}\tN\t{strict}\t-\t{recs}", 2000 + k));
            }
        }
    }
    // two and three selected columns: every ordered combination of (called, missing, multiallelic, not diploid) — a ploidy error must
    // abort the run wherever it stands relative to a skipped genotype; with and without projection, 1 and 2 populations
    let classes = ["0/1", "./.", "1/2", "0", "0/0/1", "."];
    for a in classes { for b in classes { for c in ["1/1", "./.", "0|1|1"] {
        for (sl, proj) in [("s:s0=A,s1=A,s2=A", "N"), ("s:s0=A,s1=B,s2=A", "N"), ("s:s0=A,s1=A,s2=A", "shape:3"), ("s:s0=A,s2=B", "N")] {
            if !ctx.tier_thorough && proj != "N" && c != "1/1" { continue; }
            out.push(format!("c08.cli\tvcf\tstdin\t4\t0\t0\ts0,s1,s2\t{sl}\t{proj}\t0\t{}\tchr3~5~{a},{b},{c};chr3~6~0/1,1/1,0/0", if proj == "N" { "-" } else { "4" }));
        }
    } } }
}

pub fn gen_c09(ctx: &Ctx, rng: &mut Rng, out: &mut Vec<String>) {
    // an EMPTY population label (`a=`, or `a<TAB>` in a samples file) is a label like any other and not the same as no label at all;
    // an empty ITEM of the list (`a=X,,b=Y`, a blank line in the file) names the sample `` — which no input has
    for (k, sl) in ["a=,b=X,c", "c,a=,b=X", "a=,c=", "a=E,b=X,c", "a=,b=,c", "a,b=,c=", "a=X,,b=Y", ",a=X", "a=X,b=Y,", "a=X,,b=Y,,c=Z", "a,,c"].into_iter().enumerate() {
        let recs = "1~5~0/1,1/1,0/0;1~6~1/1,0/1,0/1;1~7~0/0,0/1,1/1;2~3~0|1,0|0,1|1";
        for via in ["s", "S"] {
            if !ctx.tier_thorough && via == "S" && k % 2 == 1 { continue; }
            out.push(format!("c09.cli\tvcf\tpath\t4\t0\t0\ta,b,c\t{via}:{sl}\tN\t0\t-\t{recs}"));
            if k % 3 == 0 { out.push(format!("c09.cli\tvcf\tstdin\t4\t0\t0\ta,b,c\t{via}:{sl}\tshape:2,2,2\t0\t6\t{recs}")); }
        }
    }
    let mut g = Gen { rng };
    let n = if ctx.tier_thorough { 1500 } else { 150 };
    for i in 0..n {
        let npops = g.rng.range(1, 4) as usize;
        let ncols = g.rng.range(2, 9) as usize;
        let assign = g.assignment(ncols, npops, 35);
        let unnamed = if g.rng.chance(1, 2) { Some(g.rng.below(npops as u64) as usize) } else { None };
        let nrec = g.rng.range(1, 12) as usize;
        let recs: Vec<(String, usize, Vec<String>)> = (0..nrec).map(|r| ("7".to_string(), 100 + r, record(&mut g, &assign, [80, 12, 8, 0], false, false))).collect();
        // every fifth call set: the unlisted columns carry genotypes of other ploidy (haploid males on chrX, triploid calls) — an
        // unlisted sample must never decide anything
        let mut recs = recs;
        if i % 5 == 2 { for r in recs.iter_mut() { for (c, a) in assign.iter().enumerate() { if a.is_none() { r.2[c] = ["1", "0", "0/0/1", "./././.", "1|1|0"][(c + r.1) % 5].to_string(); } } } }
        // every sixth call set: one record in which a listed sample is missing (or multiallelic) and another listed sample is not diploid —
        // the run fails at that record whichever of the two columns comes first (and however the list or the columns are permuted)
        if i % 6 == 4 {
            let listed: Vec<usize> = assign.iter().enumerate().filter(|(_, a)| a.is_some()).map(|(k, _)| k).collect();
            if listed.len() >= 2 {
                let (a, b) = if i % 12 == 4 { (listed[0], listed[listed.len() - 1]) } else { (listed[listed.len() - 1], listed[0]) };
                let mut gts: Vec<String> = vec!["0/1".to_string(); ncols];
                gts[a] = ["./.", "1/2", "."][(i / 6) % 3].to_string(); gts[b] = ["1", "0/0/1", "0|1|1"][(i / 12) % 3].to_string();
                let at = (i / 6) % (recs.len() + 1);
                recs.insert(at, ("7".to_string(), 500 + at, gts));
            }
        }
        let base_order: Vec<usize> = (0..ncols).collect();
        // a third of the call sets use sample names and labels with blanks / punctuation (never `,` tab or newline, which
        // delimit the list syntax; `=` only inside labels): distinct labels sharing their first word, a label that is a prefix of another, an empty label
        let styled = i % 3 == 1;
        let c: Vec<String> = if styled { (0..ncols).map(|j| match j % 4 { 0 => format!("s{j} x"), 1 => format!("NA {j}"), 2 => format!("s{j}.b-1"), _ => format!("s{j}") }).collect() } else { cols(ncols) };
        let labels: Vec<String> = if styled {
            let mut pool: Vec<&str> = STYLED_LABELS.to_vec(); g.rng.shuffle(&mut pool);
            if i % 2 == 1 { pool.retain(|l| !l.is_empty()); }
            let mut l: Vec<String> = pool.into_iter().take(5).map(|l| l.to_string()).collect();
            // only the FIRST `=` of a `--samples` item separates name from label: labels that contain the character themselves
            if i % 2 == 0 { l[0] = "K=1".into(); l[1] = "K=2".into(); l[2] = "a=b=".into(); }
            l
        } else { (0..5).map(pop_name).collect() };
        let samples_arg = |order: &[usize], assign: &[Option<usize>], unnamed: Option<usize>, via_file: bool| samples_arg_styled(order, assign, unnamed, via_file, &c, &labels);
        // (a) the list as given, inline and via file
        for via_file in [false, true] {
            out.push(format!("c09.cli\tvcf\tpath\t4\t0\t0\t{}\t{}\tN\t0\t-\t{}", c.join(","), samples_arg(&base_order, &assign, unnamed, via_file), records_str(&recs)));
        }
        // … and via a samples file that is a named pipe (what `-S <(…)` gives): same content, not a regular file
        if i % 4 == 0 { out.push(format!("c09.cli\tvcf\tpath\t4\t0\t0\t{}\t{}\tN\t0\t-\t{}", c.join(","), samples_arg(&base_order, &assign, unnamed, true).replacen("S:", "F:", 1), records_str(&recs))); }
        // … and via a samples file with Windows line endings (CR LF after every line; CR LF between the lines only)
        if i % 4 == 1 { out.push(format!("c09.cli\tvcf\tpath\t4\t0\t0\t{}\t{}\tN\t0\t-\t{}", c.join(","), samples_arg(&base_order, &assign, unnamed, true).replacen("S:", "R:", 1), records_str(&recs))); }
        if i % 4 == 3 { out.push(format!("c09.cli\tvcf\tpath\t4\t0\t0\t{}\t{}\tN\t0\t-\t{}", c.join(","), samples_arg(&base_order, &assign, unnamed, true).replacen("S:", "Q:", 1), records_str(&recs))); }
        // … and one whose last line carries a byte that is not valid UTF-8: no list can be read from it, the run must fail
        if i % 6 == 2 { out.push(format!("c09.cli\tvcf\tpath\t4\t0\t0\t{}\t{}\tN\t0\t-\t{}", c.join(","), samples_arg(&base_order, &assign, unnamed, true).replacen("S:", "L:", 1), records_str(&recs))); }
        // (b) permuted list entries (labels may change first-appearance order: axes permute; the model follows)
        for _ in 0..3 {
            let mut o = base_order.clone(); g.rng.shuffle(&mut o);
            out.push(format!("c09.cli\tvcf\tpath\t4\t0\t0\t{}\t{}\tN\t0\t-\t{}", c.join(","), samples_arg(&o, &assign, unnamed, g.rng.chance(1, 2)), records_str(&recs)));
        }
        // (c) permuted input columns (names and genotypes together)
        for _ in 0..3 {
            let mut perm = base_order.clone(); g.rng.shuffle(&mut perm);
            let pc: Vec<String> = perm.iter().map(|&j| c[j].clone()).collect();
            let mut precs: Vec<(String, usize, Vec<String>)> = recs.iter().map(|(a, b, gts)| (a.clone(), *b, perm.iter().map(|&j| gts[j].clone()).collect())).collect();
            if i % 3 == 0 { bcf_safe(&mut precs); }
            out.push(format!("c09.cli\t{}\tpath\t4\t0\t0\t{}\t{}\tN\t0\t-\t{}", if i % 3 == 0 { "bcf" } else { "vcf" }, pc.join(","), samples_arg(&base_order, &assign, unnamed, false), records_str(&precs)));
        }
        // (d) errors: a listed sample absent from the input, an empty list, a sample listed twice with different labels
        if i % 5 == 0 {
            let mut sl = samples_arg(&base_order, &assign, unnamed, false); sl.push_str(",ghost=A");
            out.push(format!("c09.cli\tvcf\tpath\t4\t0\t0\t{}\t{}\tN\t0\t-\t{}", c.join(","), sl, records_str(&recs)));
            out.push(format!("c09.cli\tvcf\tpath\t4\t0\t0\t{}\tS:\tN\t0\t-\t{}", c.join(","), records_str(&recs)));
            let first = base_order.iter().find(|&&j| assign[j].is_some()).unwrap();
            let mut sl2 = samples_arg(&base_order, &assign, unnamed, false); sl2.push_str(&format!(",{}=Z", c[*first]));
            out.push(format!("c09.cli\tvcf\tpath\t4\t0\t0\t{}\t{}\tN\t0\t-\t{}", c.join(","), sl2, records_str(&recs)));
        }
    }
}

/// the eight site kinds of C11 for a 2-population map (a,b in pop 0; c in pop 1) with target (2,2)
fn kind_record(kind: usize, mem: bool) -> Vec<String> {
    let v: [&str; 4] = match kind {
        0 => ["1", "2", "0", "x"],          // complete on the selected samples (projectable, totals 4,2 -> Projected)
        1 => ["1", "m", "2", "0"],          // partially missing, exactly sufficient (totals 2,2 -> Standard)
        2 => ["x", "1", "1", "0"],          // multiallelic in one sample, exactly sufficient
        3 => ["m", "m", "1", "0"],          // insufficient in population 0
        4 => ["2", "2", "m", "0"],          // insufficient in population 1
        6 => ["m", "x", "m", "0"],          // every selected sample uncalled (nothing is counted at all)
        7 => ["x", "m", "x", "m"],          // every sample uncalled
        8 => ["@", "@", "@", "@"],          // the record has no GT key at all (FORMAT DP only): every sample missing (CLI / VCF only)
        9 => ["2", "2", "0", "x"],          // a fixed difference: population 0 fixed for ALT, population 1 for REF (complete, totals 4,2)
        10 => ["2", "2", "2", "0"],         // fixed for ALT everywhere
        11 => ["0", "0", "2", "m"],         // the other fixed difference
        _ => ["0", "1", "2", "m"],          // complete, different counts
    };
    if mem { v.iter().map(|s| if *s == "@" { "m".to_string() } else { s.to_string() }).collect() } else {
        v.iter().map(|s| match *s { "0" => "0/0", "1" => "0|1", "2" => "1/1", "m" => "./.", "@" => "@", _ => "1/2" }.to_string()).collect()
    }
}

pub fn gen_c11(ctx: &Ctx, rng: &mut Rng, out: &mut Vec<String>) {
    let cols4 = "a,b,c,d";
    let sl = "s:a=P,b=P,c=Q";
    // every ordered pair (predecessor kind, successor kind), with and without projection
    for p in (0..12).filter(|k| *k != 8) { for s in (0..12).filter(|k| *k != 8) {
        for proj in ["N", "shape:3,3", "shape:5,3", "ind:1,0"] {
            let recs = vec![("1".to_string(), 1, kind_record(p, true)), ("1".to_string(), 2, kind_record(s, true))];
            out.push(format!("c11.mem\t{cols4}\t{sl}\t{proj}\t{}", records_str(&recs)));
            // the same pair at one contig and position
            let recs = vec![("1".to_string(), 7, kind_record(p, true)), ("1".to_string(), 7, kind_record(s, true))];
            out.push(format!("c11.mem\t{cols4}\t{sl}\t{proj}\t{}", records_str(&recs)));
        }
    } }
    gen_c11_cohorts(ctx, rng, out);
    let nseq = if ctx.tier_thorough { 1000 } else { 120 };
    let nperm = if ctx.tier_thorough { 20 } else { 5 };
    for i in 0..nseq {
        let len = rng.range(2, 12) as usize;
        let kinds: Vec<usize> = (0..len).map(|_| [0usize, 1, 2, 3, 4, 5, 6, 7, 9, 10, 11][rng.below(11) as usize]).collect();
        let proj = *rng.pick(&["N", "shape:3,3", "shape:5,3", "shape:4,2", "shape:1,1", "ind:2,1", "ind:1,1"]);
        // odd sequences: runs of records sharing contig and position (every permutation / split then moves records in and out of such runs)
        let mk = |ks: &[usize], mem: bool| -> String { records_str(&ks.iter().enumerate().map(|(j, k)| ("1".to_string(), if i % 2 == 1 { 1 + j / 3 } else { j + 1 }, kind_record(*k, mem))).collect::<Vec<_>>()) };
        out.push(format!("c11.mem\t{cols4}\t{sl}\t{proj}\t{}", mk(&kinds, true)));
        // every split point
        for cut in 1..len {
            out.push(format!("c11.mem\t{cols4}\t{sl}\t{proj}\t{}", mk(&kinds[..cut], true)));
            out.push(format!("c11.mem\t{cols4}\t{sl}\t{proj}\t{}", mk(&kinds[cut..], true)));
        }
        for _ in 0..nperm { let mut k = kinds.clone(); rng.shuffle(&mut k); out.push(format!("c11.mem\t{cols4}\t{sl}\t{proj}\t{}", mk(&k, true))); }
        if i % 4 == 0 {
            let mut k = kinds.clone(); rng.shuffle(&mut k);
            out.push(format!("c11.cli\tvcf\tstdin\t4\t0\t0\t{cols4}\t{sl}\t{proj}\t0\t{}\t{}", if proj == "N" { "-" } else { "6" }, mk(&kinds, false)));
            // the same stream with records that have no GT key spliced in after the first, in the middle and at the end (VCF text, plain and BGZF)
            let mut with_nogt = kinds.clone(); with_nogt.insert(1, 8); with_nogt.insert(with_nogt.len() / 2 + 1, 8); with_nogt.push(8);
            out.push(format!("c11.cli\t{}\tstdin\t4\t2\t{}\t{cols4}\t{sl}\t{proj}\t0\t{}\t{}", if i % 8 == 0 { "vcf" } else { "vcfgz" }, (i / 4) % 2, if proj == "N" { "-" } else { "6" }, mk(&with_nogt, false)));
            out.push(format!("c11.cli\tbcf\tpath\t2\t2\t0\t{cols4}\t{sl}\t{proj}\t0\t{}\t{}", if proj == "N" { "-" } else { "6" }, mk(&k, false)));
            // the same stream with one record spliced in whose INFO / ID / QUAL / FILTER column the VCF grammar refuses: the run stops
            // there with an error, whatever the neighbouring records hold
            if i % 8 == 4 {
                let bad = ["!dupinfo", "!badinfo", "!badqual", "!dupid", "!dupfilter"][(i / 8) % 5];
                for at in [0usize, 1, len] {
                    let mut recs: Vec<(String, usize, Vec<String>)> = kinds.iter().enumerate().map(|(j, k)| ("1".to_string(), j + 1, kind_record(*k, false))).collect();
                    recs.insert(at.min(recs.len()), ("1".to_string(), 500 + at, vec![bad.to_string()]));
                    out.push(format!("c11.cli\tvcf\tstdin\t4\t0\t0\t{cols4}\t{sl}\t{proj}\t0\t{}\t{}", if proj == "N" { "-" } else { "6" }, records_str(&recs)));
                }
            }
        }
    }
}

/// C11, cohorts: one population of 90-130 samples with projection, records whose called totals (> 170 chromosomes: beyond
/// every precomputed table) go up and down along the stream — whole, every split point, permutations
fn gen_c11_cohorts(ctx: &Ctx, rng: &mut Rng, out: &mut Vec<String>) {
    let nseq = if ctx.tier_thorough { 12 } else { 3 };
    for i in 0..nseq {
        let n = 90 + (rng.below(41) as usize);
        let m = 2 * (40 + rng.below(40) as usize);
        let nrec = 3 + rng.below(4) as usize;
        let recs: Vec<(String, usize, Vec<String>)> = (0..nrec).map(|r| {
            let missing = [8usize, 3, 0, 5, 1, 9, 2][(r + i) % 7].min(n - 86);
            let mut gts: Vec<String> = (0..n).map(|_| ["0", "1", "1", "2"][rng.below(4) as usize].to_string()).collect();
            for k in 0..missing { let j = (k * 7 + r) % n; gts[j] = "m".into(); }
            ("1".to_string(), 1 + r, gts)
        }).collect();
        let c = cols(n).join(",");
        let proj = format!("shape:{}", m + 1);
        out.push(format!("c11.mem\t{c}\tN\t{proj}\t{}", records_str(&recs)));
        for cut in 1..nrec {
            out.push(format!("c11.mem\t{c}\tN\t{proj}\t{}", records_str(&recs[..cut])));
            out.push(format!("c11.mem\t{c}\tN\t{proj}\t{}", records_str(&recs[cut..])));
        }
        for _ in 0..3 { let mut p = recs.clone(); rng.shuffle(&mut p); out.push(format!("c11.mem\t{c}\tN\t{proj}\t{}", records_str(&p))); }
        let mut rev = recs.clone(); rev.reverse();
        out.push(format!("c11.mem\t{c}\tN\t{proj}\t{}", records_str(&rev)));
    }
}

/// runs far larger than the model is evaluated on: the conservation law mass + skipped = records on the binary's own output
/// (more than 2^16 projected records in one run; thousands of distinct (called, ALT) configurations across two populations)
pub fn gen_mass(ctx: &Ctx, p: &str, out: &mut Vec<String>) {
    out.push(format!("{p}.mass\t2\t1\t70002\tind:1\t0\t7"));
    out.push(format!("{p}.mass\t40\t2\t{}\tind:3,3\t60\t11", if ctx.tier_thorough { 60000 } else { 30000 }));
    if ctx.tier_thorough { out.push(format!("{p}.mass\t12\t3\t140000\tshape:3,4,2\t100\t13")); out.push(format!("{p}.mass\t3\t1\t200000\tN\t50\t17")); }
}

pub fn gen_c10(ctx: &Ctx, rng: &mut Rng, out: &mut Vec<String>) {
    gen_boundary_blank("c10", ctx.tier_thorough, out);
    gen_mass(ctx, "c10", out);
    // large cohorts under projection through the binary: every counted record must still weigh exactly one
    for n in [540usize, 600] {
        if !ctx.tier_thorough && n != 600 { continue; }
        let het = vec!["0/1".to_string(); n].join(",");
        let mut r3: Vec<String> = vec!["1/1".to_string(); n]; r3[0] = "./.".into();
        let mut r4: Vec<String> = (0..n).map(|j| if j % 2 == 0 { "0/0" } else { "1|1" }.to_string()).collect(); r4[1] = "0|1".into();
        let r5: Vec<String> = (0..n).map(|j| if j < 3 * n / 4 { "./." } else { "0/1" }.to_string()).collect();
        out.push(format!("c10.cli\tvcf\tstdin\t4\t0\t0\t{}\tN\tshape:{}\t0\t12\t1~100~{het};1~200~{};1~300~{};1~500~{}", cols(n).join(","), n + 1, r3.join(","), r4.join(","), r5.join(",")));
    }
    let mut g = Gen { rng };
    let nstreams = if ctx.tier_thorough { 400 } else { 40 };
    for i in 0..nstreams {
        let ncols = g.rng.range(2, 6) as usize;
        let npops = g.rng.range(1, 2) as usize;
        let assign = g.assignment(ncols, npops, 25);
        let order: Vec<usize> = (0..ncols).collect();
        let sl = samples_arg(&order, &assign, None, false);
        let sizes = pop_sizes(&order, &assign);
        let len = g.rng.range(1, 8) as usize;
        // half of the streams repeat positions: consecutive records (counted or skipped) at the same contig and position
        let rep = i % 2 == 1;
        let base: Vec<(String, usize, Vec<String>)> = (0..len).map(|r| (if rep { if r * 2 < len { "1" } else { "2" } } else if r % 2 == 0 { "1" } else { "2" }.to_string(), if rep { 5 + r / 3 } else { 5 + r }, record(&mut g, &assign, [75, 15, 10, 0], false, false))).collect();
        let proj = if i % 3 == 0 { format!("shape:{}", sizes.iter().map(|n| (1 + g.rng.range(0, 2 * *n as u64)).to_string()).collect::<Vec<_>>().join(",")) } else { "N".to_string() };
        let c = cols(ncols).join(",");
        for strict in [0, 1] {
            if strict == 1 && proj != "N" { continue; }   // clap: --strict conflicts with projection
            out.push(format!("c10.cli\tvcf\tpath\t4\t0\t0\t{c}\t{sl}\t{proj}\t{strict}\t{}\t{}", if proj == "N" { "-" } else { "6" }, records_str(&base)));
            // a fault at every position 0..=len: ploidy error in a selected column, a skipped site, a corrupt line
            for pos in 0..=len {
                for fault in 0..4 {
                    if !ctx.tier_thorough && (pos + fault + i) % 2 == 1 { continue; }
                    let sel = assign.iter().position(|a| a.is_some()).unwrap();
                    let mut recs = base.clone();
                    let mut gts: Vec<String> = assign.iter().map(|_| "0/1".to_string()).collect();
                    let ins = match fault {
                        0 => {                                                                          // not diploid in a selected column …
                            let sels: Vec<usize> = assign.iter().enumerate().filter(|(_, a)| a.is_some()).map(|(k, _)| k).collect();
                            let bad = sels[(pos + i) % sels.len()];
                            gts[bad] = if (pos + i) % 2 == 0 { "1".into() } else { "0/0/1".into() };
                            // … standing before or after a selected sample that is missing / multiallelic at the same site
                            if sels.len() > 1 && (pos + i) % 3 != 0 { let other = sels[(pos + i + 1) % sels.len()]; gts[other] = if pos % 2 == 0 { "./.".into() } else { "1/2".into() }; }
                            ("9".to_string(), 900 + pos, gts) }
                        1 => { gts[sel] = "./.".into();                                                  // would be skipped …
                               // … in the repeating streams at the position of its predecessor (which may be skipped as well)
                               if rep && pos > 0 { (base[pos - 1].0.clone(), base[pos - 1].1, gts) } else { ("9".to_string(), 900 + pos, gts) } }
                        2 => ("9".to_string(), 900 + pos, vec![["!badpos", "!dupinfo", "!badqual", "!badinfo"][(pos + i) % 4].to_string()]),
                        _ => ("9".to_string(), 900 + pos, vec![["!trunc", "!dupid", "!dupfilter", "!bigpos"][(pos + i / 2) % 4].to_string()]),
                    };
                    recs.insert(pos, ins);
                    out.push(format!("c10.cli\tvcf\t{}\t4\t0\t0\t{c}\t{sl}\t{proj}\t{strict}\t{}\t{}", if fault % 2 == 0 { "path" } else { "stdin" }, if proj == "N" { "-" } else { "6" }, records_str(&recs)));
                    // byte level too (the container model knows repeated ID / FILTER / INFO-key entries, not the typing of INFO / QUAL values)
                    let rs0 = records_str(&recs);
                    if (pos + fault + i) % 3 == 0 && !rs0.contains("!badinfo") && !rs0.contains("!badqual") {
                        let rs = records_str(&recs);
                        let cs = crate::vcf::CallSet { cols: cols(ncols), recs: crate::create::parse_records(&rs), extras: false, wide: 0 };
                        let container = if fault >= 2 || i % 2 == 0 { "vcf" } else { "rawbcf" };
                        if let Some(l) = crate::create::bytes_case(&cs, container, 0, &c, &sl, &proj, &strict.to_string(), if proj == "N" { "-" } else { "6" }, &rs) { out.push(l); }
                    }
                }
            }
        }
    }
}

/// An empty line in the body of plain VCF text, placed so that its line feed is the LAST byte of a buffer the reader fills (the 64 KiB
/// detection prefix; one and two 8 KiB `BufReader` fills behind it) and, as a control, in the middle of a buffer: wherever it stands,
/// the run fails and nothing is written — a decision taken on the bytes that happen to be buffered only shows at those offsets.
pub fn gen_boundary_blank(prop: &str, thorough: bool, out: &mut Vec<String>) {
    let nrec = 2600usize;
    let gts = |r: usize| -> Vec<String> { (0..4).map(|c| ["0/1", "0|1", "1/1", "0/0", "1|0"][(r + c) % 5].to_string()).collect() };
    let base: Vec<(String, usize, Vec<String>)> = (0..nrec).map(|r| ("chr1".to_string(), r + 1, gts(r))).collect();
    let targets: &[usize] = if thorough { &[65536, 65536 + 8192, 65536 + 16384, 70001, 32768] } else { &[65536, 65536 + 8192, 70001] };
    for (ti, target) in targets.iter().enumerate() {
        let plain = crate::vcf::vcf_text(&crate::vcf::CallSet { cols: cols(4), recs: crate::create::parse_records(&records_str(&base)), extras: false, wide: 0 });
        // offsets just behind each line feed; the last one not beyond target - 1, and the number of records in front of it
        let mut ends: Vec<usize> = Vec::new(); for (j, b) in plain.iter().enumerate() { if *b == b'\n' { ends.push(j + 1); } }
        let header_lines = plain.split(|b| *b == b'\n').take_while(|l| l.first() == Some(&b'#')).count();
        let Some(li) = ends.iter().rposition(|e| *e <= target - 1) else { continue };
        if li + 1 <= header_lines { continue; }
        let d = target - 1 - ends[li];
        let nbefore = li + 1 - header_lines;
        let mut names = cols(4); names[0] = format!("s0{}", "x".repeat(d));
        let mut recs = base.clone();
        recs.insert(nbefore, ("chr1".to_string(), nbefore, vec!["!blank".to_string()]));
        let sl = format!("s:{}=A,s2=A,s3=B", names[0]);
        for (transport, strict) in [("path", "0"), ("stdin", "0"), ("path", "1")] {
            if !thorough && ti > 0 && strict == "1" { continue; }
            out.push(format!("{prop}.cli\tvcf\t{transport}\t4\t0\t0\t{}\t{sl}\tN\t{strict}\t-\t{}", names.join(","), records_str(&recs)));
        }
    }
}

pub fn gen_c02(ctx: &Ctx, rng: &mut Rng, out: &mut Vec<String>) {
    gen_mass(ctx, "c02", out);
    // the operator rows `create` applies, with far tails many orders of magnitude below the rest: every coefficient against its own exact value
    for (n, k, m) in [(100usize, 50usize, 40usize), (90, 40, 40), (60, 30, 50)] { out.push(format!("c03.row\t{}\t{}\t{}", n + 1, k, m + 1)); }
    let mut g = Gen { rng };
    // exhaustive: 2 populations, sizes <= 2, every target m_j in 0..2n_j, all missingness patterns of one record (in-process)
    for n0 in 1..=2usize { for n1 in 1..=2usize {
        let ncols = n0 + n1;
        let assign: Vec<Option<usize>> = (0..ncols).map(|i| Some(if i < n0 { 0 } else { 1 })).collect();
        let order: Vec<usize> = (0..ncols).collect();
        let sl = samples_arg(&order, &assign, None, false);
        for m0 in 0..=2 * n0 { for m1 in 0..=2 * n1 {
            let codes = ["0", "1", "2", "m"];
            let mut recs = Vec::new();
            for r in 0..4usize.pow(ncols as u32) { recs.push(("1".to_string(), r + 1, (0..ncols).map(|i| codes[(r >> (2 * i)) & 3].to_string()).collect::<Vec<_>>())); }
            out.push(format!("c02.mem\t{}\t{sl}\tshape:{},{}\t{}", cols(ncols).join(","), m0 + 1, m1 + 1, records_str(&recs)));
            if m0 % 2 == 0 && m1 % 2 == 0 { out.push(format!("c02.mem\t{}\t{sl}\tind:{},{}\t{}", cols(ncols).join(","), m0 / 2, m1 / 2, records_str(&recs[..16.min(recs.len())]))); }
        } }
    } }
    let (nmem, ncli) = if ctx.tier_thorough { (3000, 400) } else { (300, 50) };
    for i in 0..nmem + ncli {
        let mem = i < nmem;
        let npops = g.rng.range(1, 4) as usize;
        let ncols = g.rng.range(2, 12) as usize;
        let assign = g.assignment(ncols, npops, 25);
        let mut order: Vec<usize> = (0..ncols).collect(); g.rng.shuffle(&mut order);
        let sl = samples_arg(&order, &assign, None, false);
        let sizes = pop_sizes(&order, &assign);
        // admissible target most of the time; boundary and inadmissible ones otherwise
        let kind = g.rng.below(10);
        let mut target: Vec<usize> = sizes.iter().map(|n| 1 + g.rng.range(0, 2 * *n as u64) as usize).collect();
        match kind { 0 => { target[0] = 2 * sizes[0] + 2; } 1 => { target.push(1); } 2 => { let k = g.rng.below(target.len() as u64) as usize; target[k] = 0; } 3 => { target = sizes.iter().map(|n| 2 * n + 1).collect(); } _ => {} }
        let ind_ok = target.iter().all(|t| t % 2 == 1);
        let proj = if ind_ok && g.rng.chance(1, 2) { format!("ind:{}", target.iter().map(|t| ((t - 1) / 2).to_string()).collect::<Vec<_>>().join(",")) } else { format!("shape:{}", target.iter().map(|t| t.to_string()).collect::<Vec<_>>().join(",")) };
        let nrec = g.rng.range(1, 25) as usize;
        let recs: Vec<(String, usize, Vec<String>)> = (0..nrec).map(|r| ("1".to_string(), 1 + (2 * r) / 3, record(&mut g, &assign, [70, 20, 10, 0], false, mem))).collect();
        let c = cols(ncols).join(",");
        let mut recs = recs;
        if !mem && i % 2 == 1 { bcf_safe(&mut recs); }
        if mem { out.push(format!("c02.mem\t{c}\t{sl}\t{proj}\t{}", records_str(&recs))); }
        else { out.push(format!("c02.cli\t{}\tpath\t4\t0\t0\t{c}\t{sl}\t{proj}\t0\t{}\t{}", ["vcf", "bcf"][i % 2], ["0", "1", "6", "15", "-"][i % 5], records_str(&recs))); }
    }
    // five to eight populations (one or two samples each): sequences of projected sites that agree on the counts of some
    // populations and differ in others, in every position (leading, middle, trailing)
    let nwide = if ctx.tier_thorough { 120 } else { 24 };
    for i in 0..nwide {
        let npops = 5 + (i % 4);
        let per: Vec<usize> = (0..npops).map(|_| 1 + g.rng.below(2) as usize).collect();
        let ncols: usize = per.iter().sum();
        let mut assign: Vec<Option<usize>> = Vec::new();
        for (p, n) in per.iter().enumerate() { for _ in 0..*n { assign.push(Some(p)); } }
        let order: Vec<usize> = (0..ncols).collect();
        let sl = samples_arg(&order, &assign, None, false);
        let target: Vec<usize> = per.iter().map(|n| 1 + g.rng.range(1, 2 * *n as u64 - 1).max(1) as usize).collect();
        let proj = format!("shape:{}", target.iter().map(|t| t.to_string()).collect::<Vec<_>>().join(","));
        // a base record, then variants that change the genotypes of exactly one population
        let base = record(&mut g, &assign, [100, 0, 0, 0], false, true);
        let mut recs: Vec<(String, usize, Vec<String>)> = vec![("1".to_string(), 1, base.clone())];
        for v in 0..(2 * npops) {
            let pchg = v % npops;
            let mut r = base.clone();
            for (c, a) in assign.iter().enumerate() { if *a == Some(pchg) { let cl = if g.rng.chance(1, 5) { 1 } else { 0 }; r[c] = g.gt_mem(cl).to_string(); } }
            recs.push(("1".to_string(), 2 + v, r));
        }
        out.push(format!("c02.mem\t{}\t{sl}\t{proj}\t{}", cols(ncols).join(","), records_str(&recs)));
    }
    // one population of 1..=140 samples (thorough 300), every size once: all samples homozygous ALT / REF / one missing, projected to
    // one individual — cohort sizes on and around powers of two and table ends
    for n in 1..=(if ctx.tier_thorough { 300usize } else { 140 }) {
        let rec = |kind: usize| -> String { (0..n).map(|j| match kind { 0 => "2", 1 => if j == 0 && n > 1 { "m" } else { "2" }, _ => if j % 2 == 0 { "2" } else { "0" } }).collect::<Vec<_>>().join(",") };
        out.push(format!("c02.mem\t{}\tN\tshape:3\t1~1~{};1~2~{};1~3~{}", cols(n).join(","), rec(0), rec(1), rec(2)));
    }
    // every sample heterozygous (ALT count = half of all chromosomes) projected to half the cohort: the lower end of the support has
    // a probability below the smallest binary64 number once the cohort passes ~520 samples
    for n in [100usize, 400, 500, 520, 540, 560, 600, 700] {
        if !ctx.tier_thorough && ![100, 520, 540, 600].contains(&n) { continue; }
        let het = vec!["1".to_string(); n].join(",");
        let mut mixed: Vec<String> = vec!["1".to_string(); n]; mixed[0] = "m".into(); mixed[1] = "2".into();
        out.push(format!("c02.mem\t{}\tN\tshape:{}\t1~1~{het};1~2~{}", cols(n).join(","), n + 1, mixed.join(",")));
    }
    // cohorts of hundreds of samples, one record each (this is where binomials leave the f64 range)
    let cohort_sizes: &[usize] = if ctx.tier_thorough { &[90, 300, 520, 600, 1500, 3000] } else { &[90, 300, 520, 600] };
    for &n in cohort_sizes {
        for rep in 0..3 {
            let assign: Vec<Option<usize>> = vec![Some(0); n];
            let gts = record(&mut g, &assign, [if rep == 0 { 100 } else { 90 }, if rep == 0 { 0 } else { 10 }, 0, 0], false, true);
            let m = match rep { 0 => 2 * n, 1 => n, _ => 1 + g.rng.range(1, n as u64) as usize };
            out.push(format!("c02.mem\t{}\tN\tshape:{}\t1~1~{}", cols(n).join(","), m + 1, gts.join(",")));
        }
        // targets at the edge of the f64 range: the smallest m with C(t, m) > f64::MAX and its neighbours (and the mirrored ones),
        // where the denominator binomial overflows while the numerator binomials near the mode are still finite
        let t = 2 * n;
        let ln_choose = |t: usize, m: usize| -> f64 { (1..=m).map(|i| ((t - m + i) as f64 / i as f64).ln()).sum() };
        if let Some(m0) = (1..=t / 2).find(|&m| ln_choose(t, m) > 709.78) {
            let assign: Vec<Option<usize>> = vec![Some(0); n];
            for (j, m) in [m0 - 1, m0, m0 + 1, m0 + 7, t - m0, t - m0 - 3].into_iter().enumerate() {
                let gts = record(&mut g, &assign, [if j % 2 == 0 { 100 } else { 99 }, if j % 2 == 0 { 0 } else { 1 }, 0, 0], false, true);
                out.push(format!("c02.mem\t{}\tN\tshape:{}\t1~1~{}", cols(n).join(","), m + 1, gts.join(",")));
            }
        }
    }
}

pub fn gen_c12(ctx: &Ctx, rng: &mut Rng, out: &mut Vec<String>) {
    let mut g = Gen { rng };
    let n = if ctx.tier_thorough { 60 } else { 12 };
    for i in 0..n {
        let npops = g.rng.range(1, 3) as usize;
        let ncols = g.rng.range(2, 10) as usize;
        let assign = g.assignment(ncols, npops, 20);
        let order: Vec<usize> = (0..ncols).collect();
        let sl = if i % 4 == 0 { "N".to_string() } else { samples_arg(&order, &assign, None, i % 3 == 0) };
        let sizes = pop_sizes(&order, &assign);
        let nrec = if i % 5 == 4 { g.rng.range(500, 3000) as usize } else { g.rng.range(1, 60) as usize };
        let bad_last = i % 6 == 5;
        let mut recs: Vec<(String, usize, Vec<String>)> = (0..nrec).map(|r| (if r < nrec / 2 { "1" } else { "2" }.to_string(), 1 + (2 * r) / 3, record_opts(&mut g, &assign, [80, 12, 8, 0], false, false, true))).collect();
        if bad_last { let k = assign.iter().position(|a| a.is_some() || sl == "N").unwrap_or(0); let last = recs.len() - 1; recs[last].2[k] = "0/0/1".into(); }
        let proj = if i % 2 == 0 && sl != "N" { format!("shape:{}", sizes.iter().map(|n| (1 + g.rng.range(1, 2 * *n as u64)).to_string()).collect::<Vec<_>>().join(",")) } else { "N".to_string() };
        bcf_safe(&mut recs);
        // a quarter of the call sets carry 126 / 197 / 266 further INFO definitions ahead of FORMAT/GT in the header: GT's index in the
        // BCF string dictionary then needs the largest 8-bit value, a 16-bit key below 256 and one above
        // ... and every eighth call set declares INFO fields AFTER FORMAT/GT (header lines come in any order; the dictionary follows the
        // order of appearance)
        // ... and every eighth one writes `IDX` attributes on every dictionary line (as bcftools does), out of line order
        let wide = if i % 4 == 3 { 126 + (i % 3) * 70 + (i % 3) / 2 } else if i % 8 == 5 { 1001 + (i % 3) * 2 } else if i % 8 == 1 { 2000 + (i % 5) } else { 0 };
        let ex = if wide > 0 { format!("w{wide}") } else { (i % 2).to_string() };
        out.push(format!("c12.same\t{ex}\t{}\t{sl}\t{proj}\t0\t{}\t{}", cols(ncols).join(","), if proj == "N" { "-" } else { "6" }, records_str(&recs)));
        // byte level: the same call set in each container, the model decoding the very bytes handed to the binary
        if nrec <= 200 {
            let rs = records_str(&recs);
            let cs = crate::vcf::CallSet { cols: cols(ncols), recs: crate::create::parse_records(&rs), extras: wide == 0 && i % 2 == 1, wide };
            for (ci, container) in ["vcf", "vcfgz", "bcf", "rawbcf"].into_iter().enumerate() {
                if let Some(l) = crate::create::bytes_case(&cs, container, [0u64, 1, 2, 3, 14, 25, 38, 13, 26, 37][(i + ci) % 10], &cols(ncols).join(","), &sl, &proj, "0", if proj == "N" { "-" } else { "6" }, &rs) { out.push(l); }
            }
        }
    }
    // a projected run whose sites fall into hundreds of distinct (called, ALT) classes, printed with 17 decimals: the last bit of every
    // entry must not depend on the thread count, the container or the block layout
    for rep in 0..(if ctx.tier_thorough { 3 } else { 1 }) {
        let ncols = 14; let nrec = 1500 + 700 * rep;
        let assign: Vec<Option<usize>> = vec![Some(0); ncols];
        let recs: Vec<(String, usize, Vec<String>)> = (0..nrec).map(|r| {
            let f = g.rng.below(100);
            ("1".to_string(), 1 + r, (0..ncols).map(|_| if g.rng.below(100) < 12 { "./.".to_string() } else { let a = (g.rng.below(100) < f) as u8; let b = (g.rng.below(100) < f) as u8; format!("{a}{}{b}", if g.rng.chance(1, 2) { "/" } else { "|" }) }).collect())
        }).collect();
        let _ = &assign;
        out.push(format!("c12.same\t0\t{}\tN\tind:{}\t0\t17\t{}", cols(ncols).join(","), 4 + rep, records_str(&recs)));
    }
    // sample lists that repeat a sample (the later entry decides its population): a population may lose its only sample, the
    // remaining ones must keep first-appearance order in every run (hash-ordered containers must not reach the output)
    for (k, sl) in ["s:s0=A,s1=B,s2=C,s3=B,s0=B", "s:s0=A,s1=B,s2=C,s3=D,s4=C,s0=D,s1=D", "S:s2=X,s0=Y,s1=Z,s3=Z,s2=Z,s4=Y"].iter().enumerate() {
        if k == 2 && !ctx.tier_thorough { continue; }
        let assign: Vec<Option<usize>> = vec![Some(0); 5];
        let recs: Vec<(String, usize, Vec<String>)> = (0..25).map(|r| ("1".to_string(), 1 + r, record(&mut g, &assign, [92, 8, 0, 0], false, false))).collect();
        out.push(format!("c12.same\t0\t{}\t{sl}\tN\t0\t-\t{}", cols(5).join(","), records_str(&recs)));
    }
}
