//! Independent minimal NPY v1.0 writer/reader used as an oracle-side container (not sfs code).
pub fn write_f8(shape: &[usize], data: &[f64]) -> Vec<u8> {
    let shape_s = shape.iter().map(|x| x.to_string()).collect::<Vec<_>>().join(", ");
    let mut dict = format!("{{'descr': '<f8', 'fortran_order': False, 'shape': ({shape_s},), }}");
    let unpadded = 10 + dict.len();
    let pad = 64 - unpadded % 64;
    for _ in 0..pad - 1 { dict.push(' '); }
    dict.push('\n');
    let mut out = Vec::new();
    out.extend_from_slice(b"\x93NUMPY\x01\x00");
    out.extend_from_slice(&(dict.len() as u16).to_le_bytes());
    out.extend_from_slice(dict.as_bytes());
    for v in data { out.extend_from_slice(&v.to_le_bytes()); }
    out
}

/// parse an `<f8` C-order v1/v2 file: (shape, data)
pub fn read_f8(bytes: &[u8]) -> Option<(Vec<usize>, Vec<f64>)> {
    if bytes.len() < 10 || &bytes[..6] != b"\x93NUMPY" { return None; }
    let (hl, start) = if bytes[6] == 1 { (u16::from_le_bytes([bytes[8], bytes[9]]) as usize, 10) }
        else { if bytes.len() < 12 { return None; } (u32::from_le_bytes([bytes[8], bytes[9], bytes[10], bytes[11]]) as usize, 12) };
    if bytes.len() < start + hl { return None; }
    let dict = std::str::from_utf8(&bytes[start..start + hl]).ok()?;
    if !dict.contains("'<f8'") || !dict.contains("False") { return None; }
    let i = dict.find("'shape'")?;
    let rest = &dict[i..];
    let a = rest.find('(')?; let b = rest.find(')')?;
    let shape: Vec<usize> = rest[a + 1..b].split(',').filter_map(|t| { let t = t.trim(); if t.is_empty() { None } else { t.parse().ok() } }).collect();
    let body = &bytes[start + hl..];
    if body.len() % 8 != 0 { return None; }
    let data: Vec<f64> = body.chunks(8).map(|c| f64::from_le_bytes(c.try_into().unwrap())).collect();
    Some((shape, data))
}
