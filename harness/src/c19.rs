//! C19 — array / axis-view / iterator API: every call history is emitted and compared call by call.
use crate::{proto::*, rng::Rng, shapes, Ctx};
use sfs_core::array::{Array, Axis};

fn ramp(shape: &[usize]) -> Array<u64> {
    let n: usize = shape.iter().product();
    Array::new((0..n as u64).collect::<Vec<_>>(), shape.to_vec()).expect("ramp array")
}

/// `hist.arr shape values ops` — a call history on one array object (see `handleHistArr` in the Lean driver)
pub fn eval_hist(a: &[&str]) -> Option<String> {
    let mut arr: Array<f64> = Array::new(parse_nats(a[1]).into_iter().map(|v| v as f64).collect::<Vec<_>>(), parse_nats(a[0])).ok()?;
    let int = |v: f64| format!("{}", v as u64);
    let unflat = |shape: &[usize], mut f: usize| -> Vec<usize> { let mut idx = vec![0; shape.len()]; for (k, n) in shape.iter().enumerate().rev() { idx[k] = f % n; f /= n; } idx };
    let mut out: Vec<String> = Vec::new();
    for op in a[2].split(';') {
        let f: Vec<&str> = op.split(':').collect();
        let tok = match f[0] {
            "get" => match arr.get(parse_nats(f[1])) { Some(v) => format!("S{}", int(*v)), None => "N".into() },
            "set" => { let idx = unflat(arr.shape(), f[1].parse().ok()?); if f[1].parse::<usize>().ok()? % 2 == 0 { arr[idx] = f[2].parse::<u64>().ok()? as f64; } else { *arr.get_mut(idx)? = f[2].parse::<u64>().ok()? as f64; } "-".into() }
            "clone" => { arr = arr.clone(); "-".into() }
            // the object is overwritten in place from another array of (usually) another shape: `Clone::clone_from`, or a plain assignment
            // (`asg`) — everything derived from the shape must follow
            "clonefrom" | "asg" => {
                let sh = parse_nats(f[1]); let k: usize = f[2].parse().ok()?;
                let n: usize = sh.iter().product();
                let other: Array<f64> = Array::new((0..n).map(|i| ((i * k + 1) % 1000) as f64).collect::<Vec<_>>(), sh).ok()?;
                if f[0] == "clonefrom" { arr.clone_from(&other); } else { arr = other; }
                "-".into()
            }
            "view" => match arr.get_axis(Axis(f[1].parse().ok()?), f[2].parse().ok()?) {
                None => "NOVIEW".into(),
                Some(view) => { let mut it = view.iter(); let mut h = Vec::new();
                    for _ in 0..f[3].parse::<usize>().ok()? { let len = it.len(); let item = it.next(); h.push(format!("{}:{}", len, match item { Some(v) => format!("S{}", int(*v)), None => "N".into() })); }
                    h.join(",") }
            },
            // a view iterator advanced `k` times with next() and then drained through the provided methods that iterate internally
            // (count, sum, last, fold, for_each, max_by): each on its own iterator brought to the same position
            "vdrain" => match arr.get_axis(Axis(f[1].parse().ok()?), f[2].parse().ok()?) {
                None => "NOVIEW".into(),
                Some(view) => {
                    let k: usize = f[3].parse().ok()?;
                    let adv = || { let mut it = view.iter(); for _ in 0..k { it.next(); } it };
                    let len = adv().len();
                    let count = adv().count();
                    let sum: f64 = adv().copied().sum();
                    let last = adv().last().map(|v| int(*v)).unwrap_or_else(|| "N".into());
                    let fold = adv().fold(0u64, |acc, v| acc.wrapping_mul(31).wrapping_add(*v as u64) % 1_000_003);
                    let mut each = Vec::new(); adv().for_each(|v| each.push(int(*v)));
                    let maxv = adv().map(|v| *v as u64).max().map(|v| v.to_string()).unwrap_or_else(|| "N".into());
                    format!("{len},{count},{},{last},{fold},{},{maxv}", int(sum), each.join("/"))
                }
            },
            "axis" => { let mut it = arr.iter_axis(Axis(f[1].parse().ok()?)); let mut h = Vec::new();
                for _ in 0..f[2].parse::<usize>().ok()? { let len = it.len(); let item = it.next();
                    h.push(format!("{}:{}", len, match item { Some(v) => format!("S{}", v.iter().map(|x| int(*x)).collect::<Vec<_>>().join("/")), None => "N".into() })); }
                h.join(",") }
            "indices" => { let mut it = arr.iter_indices(); let mut h = Vec::new();
                for _ in 0..f[1].parse::<usize>().ok()? { let len = it.len(); let item = it.next();
                    h.push(format!("{}:{}", len, match item { Some(i) => format!("S{}", i.iter().map(|x| x.to_string()).collect::<Vec<_>>().join("/")), None => "N".into() })); }
                h.join(",") }
            "sum" | "resum" => { let r = arr.sum(Axis(f[1].parse().ok()?));
                if f[0] == "resum" { arr = r; "-".into() } else { format!("{}|{}", r.shape().iter().map(|x| x.to_string()).collect::<Vec<_>>().join("/"), r.as_slice().iter().map(|x| int(*x)).collect::<Vec<_>>().join("/")) } }
            _ => return None,
        };
        out.push(tok);
    }
    Some(out.join(";"))
}

fn gen_hist(rng: &mut Rng, n: usize, out: &mut Vec<String>) {
    for i in 0..n {
        let d = 1 + i % 6;
        let mut cur = shapes::random_shape(rng, d, d, 1, if d <= 2 { 7 } else if d <= 4 { 4 } else { 3 }, 400);
        let len: usize = cur.iter().product();
        let data: Vec<usize> = (0..len).map(|_| rng.range(0, 999) as usize).collect();
        let shape = cur.clone();
        let mut ops: Vec<String> = Vec::new();
        for _ in 0..(3 + rng.below(8)) {
            let curlen: usize = cur.iter().product();
            let ax = rng.below(cur.len() as u64) as usize;
            match rng.below(10) {
                0 | 1 => { let idx: Vec<usize> = cur.iter().map(|v| { let extra = if rng.chance(1, 8) { 1 } else { 0 }; rng.below(*v as u64 + extra) as usize }).collect(); ops.push(format!("get:{}", nats(&idx))); }
                2 | 3 => ops.push(format!("set:{}:{}", rng.below(curlen as u64), rng.range(0, 999))),
                4 => ops.push(format!("view:{ax}:{}:{}", rng.below(cur[ax] as u64), curlen / cur[ax] + 3)),
                5 => { let vlen = curlen / cur[ax]; ops.push(format!("vdrain:{ax}:{}:{}", rng.below(cur[ax] as u64), [0usize, 1, 1, 2, vlen / 2, vlen.saturating_sub(1), vlen, vlen + 1][rng.below(8) as usize])); }
                6 => ops.push(format!("axis:{ax}:{}", cur[ax] + 2)),
                7 => ops.push(format!("indices:{}", curlen.min(40) + 2)),
                8 => if cur.len() > 1 { if rng.chance(1, 2) { ops.push(format!("resum:{ax}")); cur.remove(ax); } else { ops.push(format!("sum:{ax}")); } } else { ops.push("clone".into()); },
                _ => if rng.chance(1, 2) { ops.push("clone".into()); } else {
                    // overwrite from an array of another shape (same or different number of axes), then carry on with the new shape
                    let nd = if rng.chance(2, 3) { cur.len() } else { 1 + rng.below(4) as usize };
                    let mut sh = shapes::random_shape(rng, nd, nd, 1, if nd <= 2 { 6 } else { 3 }, 200);
                    if sh == cur && sh.len() > 1 { sh.swap(0, 1); }
                    ops.push(format!("{}:{}:{}", if rng.chance(3, 4) { "clonefrom" } else { "asg" }, nats(&sh), 1 + rng.below(13)));
                    cur = sh;
                },
            }
        }
        out.push(format!("hist.arr\t{}\t{}\t{}", nats(&shape), nats(&data), ops.join(";")));
    }
}

pub fn eval(op: &str, a: &[&str]) -> Option<String> {
    match op {
        // c19.get shape idx
        "c19.get" => {
            let arr = ramp(&parse_nats(a[0]));
            Some(match arr.get(parse_nats(a[1])) { Some(v) => format!("S{v}"), None => "N".into() })
        }
        // c19.indices shape ncalls
        "c19.indices" => {
            let arr = ramp(&parse_nats(a[0]));
            let n: usize = a[1].parse().ok()?;
            let mut it = arr.iter_indices();
            let mut h = Vec::new();
            for _ in 0..n {
                let len = it.len();
                let item = it.next();
                h.push(format!("{}:{}", len, match item { Some(i) => format!("S{}", nats(&i)), None => "N".into() }));
            }
            Some(h.join(";"))
        }
        // c19.view shape axis pos ncalls
        "c19.view" => {
            let arr = ramp(&parse_nats(a[0]));
            let axis: usize = a[1].parse().ok()?;
            let pos: usize = a[2].parse().ok()?;
            let n: usize = a[3].parse().ok()?;
            match arr.get_axis(Axis(axis), pos) {
                None => Some("NOVIEW".into()),
                Some(view) => {
                    let mut it = view.iter();
                    let mut h = Vec::new();
                    for _ in 0..n {
                        let len = it.len();
                        let item = it.next();
                        h.push(format!("{}:{}", len, match item { Some(v) => format!("S{v}"), None => "N".into() }));
                    }
                    Some(h.join(";"))
                }
            }
        }
        // c19.axis shape axis ncalls
        "c19.axis" => {
            let arr = ramp(&parse_nats(a[0]));
            let axis: usize = a[1].parse().ok()?;
            let n: usize = a[2].parse().ok()?;
            let mut it = arr.iter_axis(Axis(axis));
            let mut h = Vec::new();
            for _ in 0..n {
                let len = it.len();
                let item = it.next();
                h.push(format!("{}:{}", len, match item {
                    Some(v) => format!("S{}", nats(&v.iter().map(|x| *x as usize).collect::<Vec<_>>())),
                    None => "N".into(),
                }));
            }
            Some(h.join(";"))
        }
        // c19.sum shape axis databits
        "c19.sum" => {
            let shape = parse_nats(a[0]);
            let axis: usize = a[1].parse().ok()?;
            let arr = Array::new(parse_bits(a[2]), shape).ok()?;
            let s = arr.sum(Axis(axis));
            Some(format!("{}|{}", nats(s.shape()), bits(s.as_slice())))
        }
        _ => None,
    }
}

pub fn gen(ctx: &Ctx, rng: &mut Rng, out: &mut Vec<String>) {
    // sums along an axis whose lanes (the product of the later axes) are longer than any tile or block and not a multiple of one
    for (k, (sh, ax)) in [(vec![3usize, 70, 70], 0usize), (vec![2, 4097], 0), (vec![2, 5000], 0), (vec![3, 4100], 0), (vec![2, 3, 1500], 1), (vec![4, 8193], 0), (vec![3, 70, 70], 1)].into_iter().enumerate() {
        if !ctx.tier_thorough && k >= 4 { continue; }
        let n: usize = sh.iter().product();
        let data: Vec<f64> = (0..n).map(|q| ((q * 7 + k) % 13) as f64 + 1.0).collect();
        out.push(format!("c19.sum\t{}\t{}\t{}", nats(&sh), ax, bits(&data)));
    }
    gen_hist(rng, if ctx.tier_thorough { 2000 } else { 200 }, out);
    // exhaustive small scope: quick 1-4 axes x lengths 1..3 plus 1-3 axes x 1..4; thorough 1-5 x 1..4 and 1-4 x 1..5
    let mut shp = if ctx.tier_thorough {
        let mut s = shapes::all_shapes(1, 5, 1, 4);
        s.extend(shapes::all_shapes(1, 4, 5, 5).into_iter());
        s.extend(shapes::all_shapes(1, 3, 1, 5).into_iter());
        s
    } else {
        let mut s = shapes::all_shapes(1, 4, 1, 3);
        s.extend(shapes::all_shapes(1, 3, 1, 4).into_iter());
        s
    };
    shp.sort(); shp.dedup();
    shp.sort_by_key(|s| (s.iter().product::<usize>(), s.len()));
    // random larger shapes with unequal lengths
    for _ in 0..(if ctx.tier_thorough { 200 } else { 30 }) {
        shp.push(shapes::random_shape(rng, 1, 5, 1, 7, 600));
    }
    // arrays without elements: every shape with 1-3 axes of length 0..3 that contains a zero-length axis — index iterators, axis
    // iterators, every axis view (positions inside the axis and one past it), axis sums
    for s in shapes::all_shapes(1, 3, 0, 3).into_iter().filter(|s| s.contains(&0)) {
        let d = s.len();
        out.push(format!("c19.indices\t{}\t3", nats(&s)));
        out.push(format!("c19.get\t{}\t{}", nats(&s), nats(&vec![0; d])));
        for ax in 0..d {
            out.push(format!("c19.axis\t{}\t{}\t{}", nats(&s), ax, s[ax] + 3));
            for pos in 0..=s[ax] { out.push(format!("c19.view\t{}\t{}\t{}\t3", nats(&s), ax, pos)); }
            out.push(format!("c19.sum\t{}\t{}\t-", nats(&s), ax));
        }
    }
    let big = usize::MAX;
    for s in &shp {
        let d = s.len();
        let n: usize = s.iter().product();
        out.push(format!("c19.indices\t{}\t{}", nats(s), n + 5));
        // get: every in-range index is covered by `indices`+model; here boundary and malformed requests
        let last: Vec<usize> = s.iter().map(|v| v - 1).collect();
        out.push(format!("c19.get\t{}\t{}", nats(s), nats(&last)));
        let rnd: Vec<usize> = s.iter().map(|v| rng.below(*v as u64) as usize).collect();
        out.push(format!("c19.get\t{}\t{}", nats(s), nats(&rnd)));
        for ax in 0..d {
            let mut o = rnd.clone(); o[ax] = s[ax];
            out.push(format!("c19.get\t{}\t{}", nats(s), nats(&o)));
        }
        let mut longer = rnd.clone(); longer.push(0);
        out.push(format!("c19.get\t{}\t{}", nats(s), nats(&longer)));
        out.push(format!("c19.get\t{}\t{}", nats(s), nats(&rnd[..d - 1])));
        let mut hugeidx = rnd.clone(); hugeidx[d - 1] = big;
        out.push(format!("c19.get\t{}\t{}", nats(s), nats(&hugeidx)));
        for ax in 0..d {
            out.push(format!("c19.axis\t{}\t{}\t{}", nats(s), ax, s[ax] + 4));
            for pos in 0..s[ax] {
                out.push(format!("c19.view\t{}\t{}\t{}\t{}", nats(s), ax, pos, n / s[ax] + 5));
            }
            out.push(format!("c19.view\t{}\t{}\t{}\t{}", nats(s), ax, s[ax], 3));
            out.push(format!("c19.view\t{}\t{}\t{}\t{}", nats(s), ax, big, 3));
            let data = shapes::prime_data(rng, n);
            out.push(format!("c19.sum\t{}\t{}\t{}", nats(s), ax, bits(&data)));
        }
        for ax in [d, d + 1, big] {
            out.push(format!("c19.axis\t{}\t{}\t{}", nats(s), ax, 3));
            out.push(format!("c19.view\t{}\t{}\t{}\t{}", nats(s), ax, 0, 3));
        }
    }
}
