//! C19 — array / axis-view / iterator API: every call history is emitted and compared call by call.
use crate::{proto::*, rng::Rng, shapes, Ctx};
use sfs_core::array::{Array, Axis};

fn ramp(shape: &[usize]) -> Array<u64> {
    let n: usize = shape.iter().product();
    Array::new((0..n as u64).collect::<Vec<_>>(), shape.to_vec()).expect("ramp array")
}

pub fn eval(op: &str, a: &[&str]) -> Option<String> {
    match op {
        // c19.get shape idx
        "c19.get" => {
            let arr = ramp(&parse_nats(a[0]));
            Some(match arr.get(parse_nats(a[1])) { Some(v) => format!("S{v}"), None => "N".into() })
        }
        // c19.indices shape ncalls
        "c19.indices" => {
            let arr = ramp(&parse_nats(a[0]));
            let n: usize = a[1].parse().ok()?;
            let mut it = arr.iter_indices();
            let mut h = Vec::new();
            for _ in 0..n {
                let len = it.len();
                let item = it.next();
                h.push(format!("{}:{}", len, match item { Some(i) => format!("S{}", nats(&i)), None => "N".into() }));
            }
            Some(h.join(";"))
        }
        // c19.view shape axis pos ncalls
        "c19.view" => {
            let arr = ramp(&parse_nats(a[0]));
            let axis: usize = a[1].parse().ok()?;
            let pos: usize = a[2].parse().ok()?;
            let n: usize = a[3].parse().ok()?;
            match arr.get_axis(Axis(axis), pos) {
                None => Some("NOVIEW".into()),
                Some(view) => {
                    let mut it = view.iter();
                    let mut h = Vec::new();
                    for _ in 0..n {
                        let len = it.len();
                        let item = it.next();
                        h.push(format!("{}:{}", len, match item { Some(v) => format!("S{v}"), None => "N".into() }));
                    }
                    Some(h.join(";"))
                }
            }
        }
        // c19.axis shape axis ncalls
        "c19.axis" => {
            let arr = ramp(&parse_nats(a[0]));
            let axis: usize = a[1].parse().ok()?;
            let n: usize = a[2].parse().ok()?;
            let mut it = arr.iter_axis(Axis(axis));
            let mut h = Vec::new();
            for _ in 0..n {
                let len = it.len();
                let item = it.next();
                h.push(format!("{}:{}", len, match item {
                    Some(v) => format!("S{}", nats(&v.iter().map(|x| *x as usize).collect::<Vec<_>>())),
                    None => "N".into(),
                }));
            }
            Some(h.join(";"))
        }
        // c19.sum shape axis databits
        "c19.sum" => {
            let shape = parse_nats(a[0]);
            let axis: usize = a[1].parse().ok()?;
            let arr = Array::new(parse_bits(a[2]), shape).ok()?;
            let s = arr.sum(Axis(axis));
            Some(format!("{}|{}", nats(s.shape()), bits(s.as_slice())))
        }
        _ => None,
    }
}

pub fn gen(ctx: &Ctx, rng: &mut Rng, out: &mut Vec<String>) {
    // exhaustive small scope: quick 1-4 axes x lengths 1..3 plus 1-3 axes x 1..4; thorough 1-5 x 1..4 and 1-4 x 1..5
    let mut shp = if ctx.tier_thorough {
        let mut s = shapes::all_shapes(1, 5, 1, 4);
        s.extend(shapes::all_shapes(1, 4, 5, 5).into_iter());
        s.extend(shapes::all_shapes(1, 3, 1, 5).into_iter());
        s
    } else {
        let mut s = shapes::all_shapes(1, 4, 1, 3);
        s.extend(shapes::all_shapes(1, 3, 1, 4).into_iter());
        s
    };
    shp.sort(); shp.dedup();
    shp.sort_by_key(|s| (s.iter().product::<usize>(), s.len()));
    // random larger shapes with unequal lengths
    for _ in 0..(if ctx.tier_thorough { 200 } else { 30 }) {
        shp.push(shapes::random_shape(rng, 1, 5, 1, 7, 600));
    }
    let big = usize::MAX;
    for s in &shp {
        let d = s.len();
        let n: usize = s.iter().product();
        out.push(format!("c19.indices\t{}\t{}", nats(s), n + 5));
        // get: every in-range index is covered by `indices`+model; here boundary and malformed requests
        let last: Vec<usize> = s.iter().map(|v| v - 1).collect();
        out.push(format!("c19.get\t{}\t{}", nats(s), nats(&last)));
        let rnd: Vec<usize> = s.iter().map(|v| rng.below(*v as u64) as usize).collect();
        out.push(format!("c19.get\t{}\t{}", nats(s), nats(&rnd)));
        for ax in 0..d {
            let mut o = rnd.clone(); o[ax] = s[ax];
            out.push(format!("c19.get\t{}\t{}", nats(s), nats(&o)));
        }
        let mut longer = rnd.clone(); longer.push(0);
        out.push(format!("c19.get\t{}\t{}", nats(s), nats(&longer)));
        out.push(format!("c19.get\t{}\t{}", nats(s), nats(&rnd[..d - 1])));
        let mut hugeidx = rnd.clone(); hugeidx[d - 1] = big;
        out.push(format!("c19.get\t{}\t{}", nats(s), nats(&hugeidx)));
        for ax in 0..d {
            out.push(format!("c19.axis\t{}\t{}\t{}", nats(s), ax, s[ax] + 4));
            for pos in 0..s[ax] {
                out.push(format!("c19.view\t{}\t{}\t{}\t{}", nats(s), ax, pos, n / s[ax] + 5));
            }
            out.push(format!("c19.view\t{}\t{}\t{}\t{}", nats(s), ax, s[ax], 3));
            out.push(format!("c19.view\t{}\t{}\t{}\t{}", nats(s), ax, big, 3));
            let data = shapes::prime_data(rng, n);
            out.push(format!("c19.sum\t{}\t{}\t{}", nats(s), ax, bits(&data)));
        }
        for ax in [d, d + 1, big] {
            out.push(format!("c19.axis\t{}\t{}\t{}", nats(s), ax, 3));
            out.push(format!("c19.view\t{}\t{}\t{}\t{}", nats(s), ax, 0, 3));
        }
    }
}
