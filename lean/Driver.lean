/-
`sfsmodel`: reads protocol lines `op \t args… \t => \t implementation-result`, evaluates the Lean model on the
same input and prints `ok \t tag` or `MISMATCH \t model=… \t line`. Exact rational arithmetic throughout.
-/
import SfsModel.Model.Index
import SfsModel.Model.Array
import SfsModel.Model.Spectrum
import SfsModel.Model.XR
import SfsModel.Driver.Proto
import SfsModel.Driver.Create
import SfsModel.Driver.Io
import SfsModel.Driver.Stat
import SfsModel.Driver.Panic
import SfsModel.Driver.Container
open Sfs Sfs.Drv

def half : XR := .fin (1 / 2)

def fillOf (s : String) : Option XR :=
  match s with
  | "nan" => some .nan | "zero" => some (.fin 0) | "minus-one" => some (.fin (-1)) | "inf" => some (.inf false)
  | _ => none

def margRender (r : Except MargErr (Arr XR)) (impl : String) (tag : String) : Verdict :=
  match r with
  | .ok a =>
    if impl.startsWith "OK " then cmpArr (impl.drop 3).toString a.shape a.data none tag
    else .bad s!"OK {showNats a.shape}|{showXRs a.data}"
  | .error (.duplicateAxis ax) => cmpStr impl s!"ERR dup {ax}" "err-dup"
  | .error (.axisOutOfBounds ax d) => cmpStr impl s!"ERR oob {ax} {d}" "err-oob"
  | .error (.tooManyAxes n d) => cmpStr impl s!"ERR many {n} {d}" "err-many"

def optNats (s : String) : Option (Option (List Nat)) :=
  if s == "N" then some none else (parseNats (s.drop 1).toString).map some

/-- a CLI error against the model's: equal, or an error whose wording the harness could not map to a kind (`ERR other:…`: the
    invocation is refused with a non-zero status, a diagnostic and nothing on stdout, which is all the properties ask of an
    inadmissible request — accepted under its own tag, so that the evidence shows how many cases were decided that way), or a real
    disagreement (a recognised kind that is not the model's, success, output next to the error) -/
def cmpCliErr (impl model tag : String) : Verdict :=
  if impl == model then .ok tag
  else if impl.startsWith "ERR other:" && !impl.endsWith "+stdout" then .ok (tag ++ "-wording-unknown")
  else .bad model

def viewErrRender : ViewErr → String
  | .marg (.duplicateAxis ax) => s!"ERR marg-dup {ax}"
  | .marg (.axisOutOfBounds ax _) => s!"ERR marg-oob {ax}"
  | .marg (.tooManyAxes n _) => s!"ERR marg-many {n}"
  | .proj (.invalidProjection d _ _) => s!"ERR proj-invalid {d}"
  | .proj (.unequalDimensions _ _) => "ERR proj-dims"
  | .proj .zero => "ERR proj-zero"
  | .proj .empty => "ERR proj-empty"

/-- `hist.arr shape values ops` — a call history on ONE array object (integer data): `get:<idx>`, `set:<flat>:<value>`,
    `view:<axis>:<pos>:<ncalls>`, `axis:<axis>:<ncalls>`, `indices:<ncalls>`, `sum:<axis>` (result returned),
    `resum:<axis>` (the object is replaced by its axis sum), `clone`. Every answer must be what the pure model functions
    return on the object's current contents. -/
def histArrStep (st : Arr Nat) (op : String) (tok : String) : Option (Arr Nat × Bool) :=
  match op.splitOn ":" with
  | ["get", ix] => do
    let idx ← parseNats ix
    pure (st, tok == (match st.get idx with | some v => s!"S{v}" | none => "N"))
  | ["set", f, v] => do
    let i ← f.toNat?; let x ← v.toNat?
    pure (⟨st.data.set i x, st.shape⟩, tok == "-")
  | ["clone"] => some (st, tok == "-")
  | ["clonefrom", sh, k] | ["asg", sh, k] => do
    let shape ← parseNats sh; let k ← k.toNat?
    pure (⟨(List.range (size shape)).map (fun i => (i * k + 1) % 1000), shape⟩, tok == "-")
  | ["view", ax, pos, n] => do
    let ax ← ax.toNat?; let pos ← pos.toNat?; let n ← n.toNat?
    match st.getAxis ax pos with
    | none => pure (st, tok == "NOVIEW")
    | some v => pure (st, tok == String.intercalate "," (history v.next v.len (fun (x : Nat) => toString x) n (ViewIter.init v)))
  | ["vdrain", ax, pos, k] => do
    let ax ← ax.toNat?; let pos ← pos.toNat?; let k ← k.toNat?
    match st.getAxis ax pos with
    | none => pure (st, tok == "NOVIEW")
    | some v =>
      -- what remains after `k` calls of next(): the view's elements from position k on, whatever method drains them
      let rest := v.toList.drop k
      let fold := rest.foldl (fun acc x => (acc * 31 + x) % 1000003) 0
      let last := match rest.getLast? with | some x => toString x | none => "N"
      let maxv := match rest.foldl (fun (m : Option Nat) x => match m with | some y => some (max x y) | none => some x) none with | some x => toString x | none => "N"
      pure (st, tok == s!"{rest.length},{rest.length},{rest.foldl (· + ·) 0},{last},{fold},{String.intercalate "/" (rest.map toString)},{maxv}")
  | ["axis", ax, n] => do
    let ax ← ax.toNat?; let n ← n.toNat?
    pure (st, tok == String.intercalate "," (history (st.axisNext ax) (st.axisLen ax) (fun (v : View Nat) => String.intercalate "/" (v.toList.map toString)) n 0))
  | ["indices", n] => do
    let n ← n.toNat?
    pure (st, tok == String.intercalate "," (history (indicesNext st.shape) (indicesLen st.shape) (fun l => String.intercalate "/" (l.map toString)) n 0))
  | ["sum", ax] | ["resum", ax] => do
    let ax ← ax.toNat?
    if ax ≥ st.shape.length then none else
    let r := st.sumAxis ax
    if op.startsWith "re" then pure (r, tok == "-")
    else pure (st, tok == s!"{String.intercalate "/" (r.shape.map toString)}|{String.intercalate "/" (r.data.map toString)}")
  | _ => none

def handleHistArr (a : List String) (impl : String) : Option Verdict :=
  match a with
  | [sh, vs, opss] => do
    let shape ← parseNats sh; let data ← parseNats vs
    let ops := opss.splitOn ";"
    let toks := impl.splitOn ";"
    if ops.length != toks.length then pure (.bad s!"{ops.length} answers expected") else
    let rec go (st : Arr Nat) (i : Nat) : List (String × String) → Option (Option (Nat × String))
      | [] => some none
      | (op, tok) :: rest =>
        match histArrStep st op tok with
        | none => none
        | some (st', ok) => if ok then go st' (i + 1) rest else some (some (i, op))
    match go ⟨data, shape⟩ 0 (ops.zip toks) with
    | none => none
    | some none => pure (.ok s!"histarr-d{shape.length}")
    | some (some (i, op)) => pure (.bad s!"call {i} ({op}) does not return what the model computes on the array's current contents")
  | _ => none

def handle (op : String) (a : List String) (impl : String) : Option Verdict :=
  match op, a with
  | "c19.get", [sh, ix] => do
    let shape ← parseNats sh; let idx ← parseNats ix
    let m := match (rampArr shape).get idx with | some v => s!"S{v}" | none => "N"
    pure (cmpStr impl m (if m == "N" then "get-none" else "get-some"))
  | "c19.indices", [sh, n] => do
    let shape ← parseNats sh; let n ← n.toNat?
    let h := history (indicesNext shape) (indicesLen shape) showNats n 0
    pure (cmpStr impl (String.intercalate ";" h) s!"indices-d{shape.length}")
  | "c19.view", [sh, ax, pos, n] => do
    let shape ← parseNats sh; let ax ← ax.toNat?; let pos ← pos.toNat?; let n ← n.toNat?
    match (rampArr shape).getAxis ax pos with
    | none => pure (cmpStr impl "NOVIEW" "noview")
    | some v =>
      let h := history v.next v.len (fun (x : Nat) => toString x) n (ViewIter.init v)
      pure (cmpStr impl (String.intercalate ";" h) s!"view-rem{v.shape.length}")
  | "c19.axis", [sh, ax, n] => do
    let shape ← parseNats sh; let ax ← ax.toNat?; let n ← n.toNat?
    let arr := rampArr shape
    let h := history (arr.axisNext ax) (arr.axisLen ax) (fun (v : View Nat) => showNats v.toList) n 0
    pure (cmpStr impl (String.intercalate ";" h) (if ax < shape.length then s!"axis-d{shape.length}" else "axis-out-of-range"))
  | "c19.sum", [sh, ax, bs] => do
    let shape ← parseNats sh; let ax ← ax.toNat?; let data ← parseBits bs
    let r := (⟨data, shape⟩ : Arr XR).sumAxis ax
    pure (cmpArr impl r.shape r.data none s!"sum-d{shape.length}")
  | "c05.fold", [sh, bs, f] => do
    let shape ← parseNats sh; let data ← parseBits bs; let fill ← fillOf f
    let T := shape.sum - shape.length
    pure (cmpArr impl shape (foldSpectrum half fill shape data) none
      (if T % 2 == 0 then s!"fold-diag-{f}" else s!"fold-nodiag-{f}"))
  | "c05.big", [sh, _k] => do
    -- a spectrum too large for the list-based model: the implementation's fold is held against what the C05 theorems state for every
    -- fold (fold_mass: the mass is kept with fill 0; fold_spec: the upper half is entry + mirror entry, everything beyond the midpoint
    -- is the fill; fold_idem; reverse_is_mirror) — all on small integer data, where binary64 sums are exact
    let shape ← parseNats sh
    match impl.splitOn "|" with
    | [mi, mo, past, low, idem, mirror] =>
      if mi == mo && past == "0" && low == "0" && idem == "1" && mirror == "1" then
        pure (.ok s!"fold-big-d{shape.length}-{if shape.foldl (· + ·) 0 > 131072 then "gt2p17" else "le2p17"}")
      else pure (.bad s!"mass kept ({mi}), nothing beyond the midpoint (0), entry + mirror below it (0 wrong), idempotent (1), mirror-invariant (1)")
    | _ => none
  | "c05.fold2", [sh, bs] => do
    let shape ← parseNats sh; let data ← parseBits bs
    let once := foldSpectrum half (.fin 0) shape data
    pure (cmpArr impl shape (foldSpectrum half (.fin 0) shape once) none "fold-twice")
  | "c05.foldrev", [sh, bs, f] => do
    let shape ← parseNats sh; let data ← parseBits bs; let fill ← fillOf f
    pure (cmpArr impl shape (foldSpectrum half fill shape data.reverse) none "fold-mirrored")
  | "c04.marg", [sh, bs, ax] => do
    let shape ← parseNats sh; let data ← parseBits bs; let axes ← parseNats ax
    pure (margRender (marginalize ⟨data, shape⟩ axes) impl
      (if isSortedLe axes then s!"marg-sorted-{axes.length}of{shape.length}" else s!"marg-unsorted-{axes.length}of{shape.length}"))
  | "c04.step", [sh, bs, ax] => do
    let shape ← parseNats sh; let data ← parseBits bs; let axes ← parseNats ax
    pure (margRender (marginalize ⟨data, shape⟩ axes) impl s!"marg-stepwise-{axes.length}of{shape.length}")
  | "c03.project", [sh, bs, ts] => do
    let shape ← parseNats sh; let data ← parseBits bs; let toShape ← parseNats ts
    match project (⟨data, shape⟩ : Arr XR) toShape with
    | .ok b =>
      if impl.startsWith "OK " then pure (cmpArr (impl.drop 3).toString b.shape b.data (some (sumAbs data))
        (if toShape == shape then "project-identity" else s!"project-d{shape.length}"))
      else pure (.bad s!"OK {showNats b.shape}|{showXRs b.data}")
    | .error .empty => pure (cmpStr impl "ERR empty" "project-err-empty")
    | .error (.invalidProjection d f t) => pure (cmpStr impl s!"ERR invalid {d} {f} {t}" "project-err-invalid")
    | .error (.unequalDimensions f t) => pure (cmpStr impl s!"ERR dims {f} {t}" "project-err-dims")
    | .error .zero => pure (cmpStr impl "ERR zero" "project-err-zero")
  | "c03.two", [sh, bs, _mid, ts] => do
    let shape ← parseNats sh; let data ← parseBits bs; let toShape ← parseNats ts
    match project (⟨data, shape⟩ : Arr XR) toShape with
    | .ok b =>
      if impl.startsWith "OK " then pure (cmpArr (impl.drop 3).toString b.shape b.data (some (sumAbs data)) "project-two-step")
      else pure (.bad s!"OK {showNats b.shape}|{showXRs b.data}")
    | .error _ => pure (cmpStr impl "ERR" "project-two-step-error")
  | "c03.row", sh :: ix :: ts :: wopt => do
    let shape ← parseNats sh; let idx ← parseNats ix; let toShape ← parseNats ts
    let w : XR ← match wopt with | [] => some (.fin 1) | [wb] => (parseHexNat wb).map f64OfBits | _ => none
    let wabs : Rat := match w with | .fin q => absRat q | _ => 1
    match projectionNew shape toShape with
    | .ok (pf, pt) =>
      let row : List XR := (projectIter pf idx pt).map (fun (x : XR) => x * w)
      if impl.startsWith "OK " then pure (cmpArrRel (impl.drop 3).toString toShape row (some wabs)
        s!"project-row-{if pf.any (· ≥ 1030) then "ge1030" else if pf.any (· > 170) then "171to1029" else "le170"}")
      else pure (.bad s!"OK {showNats toShape}|{showXRs row}")
    | .error _ => pure (if impl.startsWith "ERR" then .ok "project-row-error" else .bad "ERR")
  | "c03.pmf", [bn, bk, sn, sk] => do
    let N ← bn.toNat?; let K ← bk.toNat?; let n ← sn.toNat?; let k ← sk.toNat?
    let b ← parseHexNat impl
    let q : XR := hyper N K n k
    let v := f64OfBits b
    let floor : Rat := 1 / ((2 ^ 900 : Nat) : Rat)
    let sizeTag := if N ≤ 170 then "le170" else if N < 1030 then "171to1029" else "ge1030"
    if v.agrees q (some floor) then pure (.ok s!"pmf-{sizeTag}-{if q == XR.fin 0 then "zero" else "pos"}")
    else pure (.bad (q.render))
  | "c13.view", [sh, bs, rm, kp, ps, pi, mk, nm] | "c13.chain", [sh, bs, rm, kp, ps, pi, mk, nm] | "c13.views", [sh, bs, rm, kp, ps, pi, mk, nm, _] => do
    let shape ← parseNats sh; let data ← parseBits bs
    let rm ← optNats rm; let kp ← optNats kp; let ps ← optNats ps; let pi ← optNats pi
    let o : ViewOpts := { remove := rm, keep := kp, projectShape := ps, projectIndividuals := pi, mask := mk == "1", normalize := nm == "1" }
    let kind := (if op == "c13.chain" then "chain" else "view")
    let optTag := s!"{kind}-m{if rm.isSome || kp.isSome then 1 else 0}p{if ps.isSome || pi.isSome then 1 else 0}k{mk}n{nm}"
    match viewRun o (⟨data, shape⟩ : Arr XR) with
    | .ok b =>
      let floor : Rat := if o.normalize then 1 else sumAbs data
      if impl.startsWith "OK " then pure (cmpArr (impl.drop 3).toString b.shape b.data (some floor) optTag)
      else pure (.bad s!"OK {showNats b.shape}|{showXRs b.data}")
    | .error e => pure (cmpCliErr impl (viewErrRender e) s!"{kind}-error")
  | "c13.viewtext", [sh, bs, rm, kp, ps, pi, mk, nm, pr] => do
    let shape ← parseNats sh; let data ← parseBits bs; let p ← pr.toNat?
    let rm ← optNats rm; let kp ← optNats kp; let ps ← optNats ps; let pi ← optNats pi
    let o : ViewOpts := { remove := rm, keep := kp, projectShape := ps, projectIndividuals := pi, mask := mk == "1", normalize := nm == "1" }
    match viewRun o (⟨data, shape⟩ : Arr XR) with
    | .ok b =>
      let floor : Rat := if o.normalize then 1 else sumAbs data
      let finite := b.data.all XR.isFinite
      if !impl.startsWith "OK " then pure (.bad s!"OK {showNats b.shape}|{showXRs b.data}")
      else if !finite then pure (.ok "viewtext-nonfinite")
      else
        let text := unescape (impl.drop 3).toString
        if cmpTextNumeric text b.shape (b.data.map ratOfXR) p floor then pure (.ok s!"viewtext-p{p}-m{if rm.isSome || kp.isSome then 1 else 0}p{if ps.isSome || pi.isSome then 1 else 0}k{mk}n{nm}")
        else pure (.bad s!"text of {showNats b.shape}|{showXRs b.data} at precision {p}")
    | .error e => pure (cmpCliErr impl (viewErrRender e) "viewtext-error")
  | _, _ =>
    match op.splitOn "." with
    | [p, "mem"] => handleMem a impl p
    | [p, "cli"] => handleCli a impl p
    | [_, "mass"] =>
      -- a run far larger than the model is evaluated on: the binary's own figures against the conservation theorem of C10
      -- (`conservation`: mass + skipped = records for every call set, with or without projection)
      match impl.splitOn "|" with
      | ["OK", nrec, skipped, massBits, _header] =>
        match nrec.toNat?, skipped.toNat?, parseHexNat massBits with
        | some n, some k, some b =>
          match f64OfBits b with
          | .fin m =>
            let diff := m + (k : Rat) - (n : Rat)
            if absRat diff ≤ 1 / 100 then some (.ok s!"mass-{if n > 65536 then "gt2p16" else "le2p16"}-{if k > 0 then "skips" else "noskips"}")
            else some (.bad s!"mass + skipped = records ({n}); got mass {(XR.fin m).render} + {k}")
          | _ => some (.bad "finite mass")
        | _, none, _ => some (.differs "summary line not recognised")
        | _, _, _ => none
      | _ => some (.bad "OK|records|skipped|mass|header")
    | ["c12", "same"] => handleSame a impl
    | ["ct", "create"] => handleBytes a impl
    | ["hist", "scs"] => handleHist a impl
    | ["hist", "arr"] => handleHistArr a impl
    | ["io", _] => handleIo op a impl
    | ["st", _] => handleStat op a impl
    | ["pn", _] => handlePanic op a impl
    | _ => none

def processLine (line : String) : String :=
  let line := (line.dropRightWhile (fun c => c == '\n' || c == '\r'))
  match line.splitOn "\t=>\t" with
  | [req, impl] =>
    match req.splitOn "\t" with
    | op :: args =>
      match handle op args impl with
      | some (.ok tag) => s!"ok\t{tag}"
      | some (.bad m) => s!"MISMATCH\tmodel={(m.replace "\n" "\\n").replace "\t" "\\t"}\t{line}"
      | some (.differs m) => s!"DIFFERS\tmodel={(m.replace "\n" "\\n").replace "\t" "\\t"}\t{line}"
      | none => s!"BAD-LINE\t{line}"
    | [] => s!"BAD-LINE\t{line}"
  | _ => s!"BAD-LINE\t{line}"

partial def loop (h : IO.FS.Stream) (out : IO.FS.Stream) : IO Unit := do
  let line ← h.getLine
  if line.isEmpty then return ()
  out.putStrLn (processLine line)
  loop h out

def main (args : List String) : IO Unit := do
  let out ← IO.getStdout
  match args with
  | ["--emit", seed] =>
    -- requests generated by the model itself (container bytes written by the Lean encoders)
    for l in emitCases (seed.toNat?.getD 1) do out.putStrLn l
    out.flush
  | _ =>
    loop (← IO.getStdin) out
    out.flush
