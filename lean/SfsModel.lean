import SfsModel.Model.Index
import SfsModel.Model.Array
import SfsModel.Model.Spectrum
import SfsModel.Model.Create
import SfsModel.Model.Cli
import SfsModel.Model.IoModel
