/-
Driver side of the spectrum I/O cases (`io.*`, shared by C07, C15, C16, C17, C18): decode the request, run the
byte-level models (`writeNpy`, `readNpy`, `writeText`, `readText`, `readSpectrum`, the `Rd`/`Wr` schedule models,
`fmtFixed`, `parseF64`, `detectFormat`) and compare with what the implementation did. Everything is exact: bytes
against bytes, bit patterns against bit patterns.
-/
import SfsModel.Driver.Proto
import SfsModel.Model.Stdout
import SfsModel.Driver.Create
import SfsModel.Model.Text
import SfsModel.Model.IoModel
import SfsModel.Model.SpecCli
namespace Sfs.Drv
open Sfs

def parsePatterns (s : String) : Option (List Nat) :=
  if s == "-" || s == "" then some [] else (s.splitOn ",").mapM parseHexNat

def hexDigit (n : Nat) : Char := if n < 10 then Char.ofNat (48 + n) else Char.ofNat (87 + n)

def showHexBytes (b : List Nat) : String :=
  if b.isEmpty then "-" else String.ofList (b.flatMap (fun x => [hexDigit (x / 16 % 16), hexDigit (x % 16)]))

def pad16 (s : String) : String := String.ofList (List.replicate (16 - s.length) '0') ++ s

def showPattern (n : Nat) : String := pad16 (String.ofList (Nat.toDigits 16 n))

def showPatterns (l : List Nat) : String := if l.isEmpty then "-" else String.intercalate "," (l.map showPattern)

def errTag : IoErr → String
  | .eof => "eof" | .io => "io" | .invalid => "invalid"

def renderRead (r : Except IoErr (List Nat × List Nat)) : String :=
  match r with
  | .ok (s, b) => s!"OK {showNats s}|{showPatterns b}"
  | .error e => s!"ERR {errTag e}"

def readClass (r : Except IoErr (List Nat × List Nat)) : String :=
  match r with
  | .ok _ => "ok"
  | .error e => s!"err-{errTag e}"

/-- header info for tags: `v<major>-<endian><type>` of an npy byte string (best effort) -/
def npyInfo (bytes : List Nat) : String :=
  let major := bytes.getD 6 0
  let w := if major == 1 then 2 else 4
  let hl := ofLeBytes ((bytes.drop 8).take w)
  match parseNpyDict (bytesToChars ((bytes.drop (8 + w)).take hl)) with
  | some d => s!"v{major}-{match d.endian with | .little => "le" | .big => "be"}-{String.ofList d.ty.name}{if d.fortran then "-fortran" else ""}"
  | none => s!"v{major}-nodict"

def parseFail (s : String) : Option (Option Nat) := if s == "N" then some none else s.toNat?.map some

/-- digits from the first non-zero digit to the end of a printed token (0 when the token is zero / not numeric) -/
def sigDigits (tok : List Char) : Nat :=
  ((tok.filter Char.isDigit).dropWhile (· == '0')).length

def optArg (args : List String) (key : String) : Option String :=
  match args.dropWhile (· != key) with
  | _ :: v :: _ => some v
  | _ => none

def handleIo (op : String) (a : List String) (impl : String) : Option Verdict :=
  match op, a with
  | "io.npyrt", [sh, bs] => do
    let shape ← parseNats sh; let bits ← parsePatterns bs
    if checkedSize shape != some bits.length then pure (cmpStr impl "NOSPECTRUM" "npyrt-nospectrum") else
    let res := (10 + (npyDict shape).length) % 64
    match writeNpy shape bits with
    | .error _ => pure (if impl.startsWith "WERR invalid|" then .ok "npyrt-header-too-long" else .bad "WERR invalid")
    | .ok bytes =>
      let model := s!"OK {showHexBytes bytes}|{match readNpy bytes with | .ok (s, b) => s!"{showNats s}|{showPatterns b}" | .error e => s!"ERR {errTag e}"}"
      let special := bits.any (fun b => b / 2 ^ 52 % 2 ^ 11 == 2047)
      pure (cmpStr impl model s!"npyrt-res{res}-d{shape.length}{if special then "-special" else ""}{if bits.isEmpty then "-empty" else ""}")
  | "io.textrt", [sh, bs, p] => do
    let shape ← parseNats sh; let bits ← parsePatterns bs; let p ← p.toNat?
    if checkedSize shape != some bits.length then pure (cmpStr impl "NOSPECTRUM" "textrt-nospectrum") else
    let text := asciiBytes (writeText shape bits p)
    let model := s!"OK {showHexBytes text}|{match readText text with | .ok (s, b) => s!"{showNats s}|{showPatterns b}" | .error e => s!"ERR {errTag e}"}"
    pure (cmpStr impl model s!"textrt-p{p}-d{shape.length}")
  | "io.npyread", [hx] => do
    let bytes ← parseHexBytes hx
    let r := readNpy bytes
    pure (cmpRead impl (renderRead r) s!"npyread-{readClass r}-{npyInfo bytes}")
  | "io.npread3", [hx, nsh, nbs] => do
    let bytes ← parseHexBytes hx
    let r := readNpy bytes
    if nsh == "REJECT" then
      match r with
      | .error e => pure (cmpStr impl s!"ERR {errTag e}" s!"numpy-rejected-{npyInfo bytes}")
      | .ok _ => pure (.bad "model accepts a file that must be rejected")
    else
      let npShape ← parseNats nsh; let npBits ← parsePatterns nbs
      let numpy := s!"OK {showNats npShape}|{showPatterns npBits}"
      if renderRead r != numpy then pure (.bad s!"model {renderRead r} but numpy {numpy}")
      else pure (cmpStr impl numpy s!"numpy-{npyInfo bytes}")
  | "io.textread", [hx] => do
    let bytes ← parseHexBytes hx
    let r := readText bytes
    -- the text reader model is stated for ASCII input only: on other bytes it makes no prediction (the run must still end in OK or ERR)
    if !allAscii bytes then pure (if impl.startsWith "OK " || impl.startsWith "ERR " then .ok "textread-nonascii-unmodelled" else .bad "OK or ERR")
    else pure (cmpRead impl (renderRead r) s!"textread-{readClass r}")
  | "io.specread", [hx] => do
    let bytes ← parseHexBytes hx
    let r := readSpectrum bytes
    pure (cmpRead impl (renderRead r) s!"specread-{readClass r}")
  | "io.detect", [hx] => do
    let bytes ← parseHexBytes hx
    let m := match detectFormat bytes with | some .npy => "N" | some .text => "T" | none => "-"
    pure (cmpStr impl m s!"detect-{m}")
  | "io.fmt", [b, p] => do
    let b ← parseHexNat b; let p ← p.toNat?
    let cls := match f64OfBits b with | .fin _ => "fin" | .nan => "nan" | .inf _ => "inf"
    pure (cmpStr impl (showHexBytes (asciiBytes (fmtFixed b p))) s!"fmt-{cls}-p{if p ≤ 17 then toString p else "big"}")
  | "io.parse", [hx] => do
    let bytes ← parseHexBytes hx
    let m := match parseF64 (bytesToChars bytes) with | some b => s!"OK {showPattern b}" | none => "ERR"
    pure (cmpStr impl m (if m == "ERR" then "parse-err" else "parse-ok"))
  | "io.rdnpy", [hx, sc, fl] => do
    let bytes ← parseHexBytes hx; let sched ← parseNats sc; let fail ← parseFail fl
    let r := readNpyRd { data := bytes, sched := sched, avail := 0, failAt := fail }
    pure (cmpRead impl (renderRead r) s!"rdnpy-{if fail.isSome then "fail" else "sched"}-{readClass r}-first{if (sched.headD 0) == 0 then "all" else if sched.headD 0 < 10 then toString (sched.headD 0) else "ge10"}")
  | "io.rdtext", [hx, sc, fl] => do
    let bytes ← parseHexBytes hx; let sched ← parseNats sc; let fail ← parseFail fl
    let r := readTextRd { data := bytes, sched := sched, avail := 0, failAt := fail }
    pure (cmpRead impl (renderRead r) s!"rdtext-{if fail.isSome then "fail" else "sched"}-{readClass r}")
  | "io.wr", [fmt, sh, bs, p, sc, fl] => do
    let shape ← parseNats sh; let bits ← parsePatterns bs; let p ← p.toNat?; let sched ← parseNats sc; let fail ← parseFail fl
    if checkedSize shape != some bits.length then pure (cmpStr impl "NOSPECTRUM" "wr-nospectrum") else
    let w : Wr := { sched := sched, failAt := fail }
    let r := if fmt == "npy" then writeNpyWr shape bits w else writeTextWr shape bits p w
    let m := match r with | .ok w' => s!"OK {showHexBytes w'.out}" | .error e => s!"ERR {errTag e}"
    pure (cmpStr impl m s!"wr-{fmt}-{if fail.isSome then "fail" else "short"}-{match r with | .ok _ => "ok" | .error e => "err-" ++ errTag e}")
  | "io.cmd", [cmd, args, hx] | "io.cmdp", [cmd, args, hx] | "io.cmds", [cmd, args, hx, _] => do
    let bytes ← parseHexBytes hx
    match readSpectrum bytes with
    | .error e => pure (cmpStr impl "ERR|1|-" s!"cli-{cmd}-rejected-{errTag e}")
    | .ok (shape, bits) =>
      if cmd == "view" && args == "-" then
        pure (cmpStr impl s!"OK|0|{showHexBytes (asciiBytes (writeText shape bits 6))}" "cli-view-accepted")
      else if impl.startsWith "OK|0|" && impl != "OK|0|-" then pure (.ok s!"cli-{cmd}-accepted")
      else pure (.bad "OK|0|<non-empty stdout>")
  | "io.devfull", [cmd, _args, _sh, _bs] =>
    -- every write fails at offset 0: `Wr` with `failAt = some 0` makes both writers fail (C18.write_failure_surfaces_*)
    if impl == "NO-DEV-FULL" then some (.ok "devfull-unavailable")
    else if impl.startsWith "ERR|" && !(impl.startsWith "ERR|0|") then some (.ok s!"devfull-{cmd}-error") else some (.bad "ERR|<non-zero>|… (the write failure must surface)")
  | "io.epipe", [cmd, _args, _sh, _bs] =>
    -- the very first write fails (closed pipe): `Wr` with `failAt = some 0`; the failure must surface as a non-zero exit status
    if impl.startsWith "ERR|" && !(impl.startsWith "ERR|0") then some (.ok s!"epipe-{cmd}-error") else some (.bad "ERR|<non-zero> (the write failure must surface)")
  | "io.fsize", [fmt, pr, sh, bs, lim] => do
    -- stdout accepts `lim` bytes and then fails: the stdout model (`Model/Stdout.lean`: the writer's pieces through the line writer,
    -- then the flush) over a descriptor with `failAt = some lim` (C18.stdout_delivers / stdout_failure_surfaces): the run succeeds
    -- with the complete output when it fits, and ends with a non-zero status otherwise
    let p ← pr.toNat?; let shape ← parseNats sh; let bits ← parsePatterns bs; let l ← lim.toNat?
    if impl == "NO-PYTHON" then pure (.ok "fsize-unavailable") else
    match (if fmt == "npy" then npyPieces shape bits else some (textPieces shape bits p)) with
    | none => pure (.bad "model: cannot write")
    | some pieces =>
      let total := pieces.flatten.length
      match stdoutWrite pieces { failAt := some l } with
      | .ok w => pure (cmpStr impl s!"OK|0|{showHexBytes w.out}" s!"fsize-{fmt}-fits")
      | .error _ =>
        if impl.startsWith "ERR|" && !(impl.startsWith "ERR|0|") then
          pure (.ok s!"fsize-{fmt}-{if l < 128 then "cut-early" else if l + 24 < total then "cut-middle" else "cut-tail"}")
        else pure (.bad "ERR|<non-zero>|… (the output does not fit: the write failure must surface)")
  | "io.fsizeo", [cmd, fmt, pr, sh, bs, lim] => do
    -- `-o PATH` on a file that accepts `lim` bytes: the writer model over `Wr` with `failAt = some lim` (write_failure_surfaces_*): with
    -- room for everything the file holds exactly the output and the run succeeds; otherwise the run fails (nothing on stdout either way)
    let p ← pr.toNat?; let shape ← parseNats sh; let bits ← parsePatterns bs; let l ← lim.toNat?
    if impl == "NO-PYTHON" then pure (.ok "fsizeo-unavailable") else
    let outBits : List Nat := if cmd == "fold" then (foldSpectrum (XR.fin (1/2)) (.fin 0) shape (bits.map f64OfBits)).map (fun _ => 0) else bits
    let r := if fmt == "npy" then writeNpyWr shape bits { failAt := some l } else writeTextWr shape bits p { failAt := some l }
    match impl.splitOn "|" with
    | [cls, code, _file, so] =>
      if so != "-" then pure (.bad "nothing on stdout when -o is given") else
      if cmd == "fold" then
        -- the folded values are not recomputed here: only the verdict (room or not) is decided, by the length of the model's text
        let _ := outBits
        match r with
        | .ok _ => pure (if cls == "OK" && code == "0" then .ok "fsizeo-fold-fits" else .bad "OK|0")
        | .error _ => pure (if cls == "ERR" && code != "0" then .ok "fsizeo-fold-cut" else .bad "ERR|<non-zero> (the write failure must surface)")
      else
      match r with
      | .ok w => pure (cmpStr impl s!"OK|0|{showHexBytes w.out}|-" s!"fsizeo-{fmt}-fits")
      | .error _ => pure (if cls == "ERR" && code != "0" then .ok s!"fsizeo-{fmt}-cut" else .bad "ERR|<non-zero> (the write failure must surface)")
    | _ => none
  | "io.overwrite", [fmt, pr, _sh1, _bs1, sh2, bs2] => do
    let p ← pr.toNat?; let shape ← parseNats sh2; let bits ← parsePatterns bs2
    let fileE := if fmt == "npy" then writeNpy shape bits else .ok (asciiBytes (writeText shape bits p))
    match fileE with
    | .error _ => pure (.bad "model: cannot write")
    | .ok file =>
      match readSpectrum file with
      | .error e => pure (.bad s!"model rejects its own file: {errTag e}")
      | .ok (s', b') => match writeNpy s' b' with
        | .ok out => pure (cmpStr impl s!"FILE {showHexBytes file}|OK|0|{showHexBytes out}" s!"overwrite-{fmt}")
        | .error _ => pure (.bad "model: cannot write")
  | "io.pipe", [a1, transport, cmd2, a2, sh, bs] => do
    let shape ← parseNats sh; let bits ← parsePatterns bs
    let args1 := a1.splitOn " "
    let fmt := (optArg args1 "-O").getD "text"
    let p := ((optArg args1 "--precision").bind String.toNat?).getD 6
    let midE := if fmt == "npy" then writeNpy shape bits else .ok (asciiBytes (writeText shape bits p))
    match midE with
    | .error _ => pure (if impl.startsWith "STAGE1 ERR" then .ok "pipe-stage1-error" else .bad "STAGE1 ERR")
    | .ok mid =>
      match readSpectrum mid with
      | .error e => pure (.bad s!"model rejects what the model writer wrote: {errTag e}")
      | .ok (shape', bits') =>
        if shape' != shape then pure (.bad "model: shape changed in the round trip") else
        let tag := s!"pipe-{fmt}-{transport}-{cmd2}"
        if cmd2 == "view" && a2 == "-O npy" then
          match writeNpy shape' bits' with
          | .ok out => pure (cmpStr impl s!"MID {showHexBytes mid}|OK|0|{showHexBytes out}" tag)
          | .error _ => pure (.bad "model: cannot write")
        else
          let pre := s!"MID {showHexBytes mid}|OK|0|"
          if impl.startsWith pre && impl != pre ++ "-" then pure (.ok tag) else pure (.bad (pre ++ "<non-empty stdout>"))
  | "io.t2n2t", [sh, bs, p] => do
    let shape ← parseNats sh; let bits ← parsePatterns bs; let p ← p.toNat?
    let t0 := writeText shape bits p
    match readText (asciiBytes t0) with
    | .error e => pure (.bad s!"model rejects its own text: {errTag e}")
    | .ok (s1, b1) =>
      let t2 := writeText s1 b1 p
      let le15 := bits.all (fun b => sigDigits (fmtFixed b p) ≤ 15)
      if le15 && t2 != t0 then pure (.bad s!"property clause fails on the model: text -> npy -> text changes {String.ofList t0} into {String.ofList t2}")
      else pure (cmpStr impl s!"OK {showHexBytes (asciiBytes t0)}|{showHexBytes (asciiBytes t2)}"
        (if le15 then "t2n2t-le15" else if t2 == t0 then "t2n2t-gt15-same" else "t2n2t-gt15-differs"))
  | "io.npload", [sh, bs] => do
    let shape ← parseNats sh; let bits ← parsePatterns bs
    pure (cmpStr impl s!"OK {showNats shape}|{showPatterns bits}" s!"numpy-loads-res{(10 + (npyDict shape).length) % 64}")
  | "io.geno", [container, _layout, _extras, cs, ss, ps, rs, sc, fl] => do
    let cols := splitCsv cs
    let samples := decodeSamples ss false
    let project ← decodeProject ps
    let recs ← decodeRecords rs true
    let sched ← parseNats sc
    let first := if sched.headD 0 == 0 then "all" else if sched.headD 0 ≤ 27 then "le27" else if sched.headD 0 < 65536 then "lt64k" else "ge64k"
    let full : String := match buildSite samples project cols with
      | .error e => s!"ERR build {buildErrTag e}"
      | .ok cfg => match createRun (α := XR) cfg false recs with
        | .error _ => s!"ERR read {recs.findIdx (fun r => !(Spec.recOk cfg r))}"
        | .ok (scs, sites, skipped) => s!"OK {showNats cfg.outShape}|{showXRs scs}|{sites}|{skipped}"
    let numericOk : Bool := match buildSite samples project cols with
      | .ok cfg => match createRun (α := XR) cfg false recs with
        | .ok (scs, sites, skipped) =>
          if !impl.startsWith "OK " then false else
          match ((impl.drop 3).toString).splitOn "|" with
          | [sh, bs, si, sk] => match parseNats sh, parseBits bs with
            | some s, some d => s == cfg.outShape && allAgree d scs (if cfg.projectTo.isSome then some (recs.length : Rat) else none) &&
                si == toString sites && sk == toString skipped
            | _, _ => false
          | _ => false
        | .error _ => false
      | .error _ => false
    if fl == "N" then
      if numericOk || impl == full then pure (.ok s!"geno-{container}-sched-first{first}") else pure (.bad full)
    else
      -- a failing stream must not succeed with partial data: an error, or (failure at/after the last byte needed) the complete result
      if impl.startsWith "ERR " then pure (.ok s!"geno-{container}-fail-error")
      else if numericOk then pure (.ok s!"geno-{container}-fail-complete-data")
      else pure (.bad s!"ERR … (a failing stream may not yield partial data); complete result would be {full}")
  | _, _ => none

end Sfs.Drv
