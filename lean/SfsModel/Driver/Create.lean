/-
Driver side of the `sfs create` cases: decode the request, run the model (`buildSite`, `createRun`, `createCli`),
compare with the implementation's canonicalised result.
-/
import SfsModel.Driver.Proto
import SfsModel.Model.Create
import SfsModel.Model.Cli
import SfsModel.Spec.Create
namespace Sfs.Drv
open Sfs

def splitCsv (s : String) : List String := if s == "" then [] else s.splitOn ","

def parseItems (body : String) : List (String × Option String) :=
  (splitCsv body).map (fun it => match it.splitOn "=" with
    | [k] => (k, none)
    | k :: rest => (k, some (String.intercalate "=" rest))
    | [] => (it, none))

/-- sample list as the site reader builder receives it -/
def decodeSamples (s : String) (viaCli : Bool) : Option (List (String × Pop)) :=
  if s == "N" then none
  else
    let body := (s.drop 2).toString
    if !viaCli then
      some ((parseItems body).map (fun kv => (kv.1, match kv.2 with | some p => Pop.named p | none => Pop.unnamed)))
    else if s.startsWith "S:" || s.startsWith "F:" || s.startsWith "R:" || s.startsWith "Q:" then
      -- the harness writes one line per item: `name\tpop\n` / `name\n`; `R:` with CR LF line endings, `Q:` CR LF between the lines
      -- and nothing after the last one
      let content := String.join ((parseItems body).map (fun kv => match kv.2 with | some p => kv.1 ++ "\t" ++ p ++ "\n" | none => kv.1 ++ "\n"))
      let content := if s.startsWith "R:" || s.startsWith "Q:" then content.replace "\n" "\r\n" else content
      let content := if s.startsWith "Q:" && content.endsWith "\r\n" then (content.dropEnd 2).toString else content
      some (parseSamplesFile content.toList)
    else some (parseSamplesArg body.toList)

def decodeProject (s : String) : Option (Option (List Nat)) :=
  if s == "N" then some none
  else if s.startsWith "shape:" then (parseNats (s.drop 6).toString).map some
  else (parseNats (s.drop 4).toString).map (fun is => some (individualsToShape is))

def codeToGt (c : String) : GtRes :=
  match c with
  | "0" => .genotype 0 | "1" => .genotype 1 | "2" => .genotype 2
  | "m" => .skipped .missing | "x" => .skipped .multiallelic | _ => .ploidyError

/-- records; for CLI cases GT strings go through the model's GT grammar (unparsable = corrupt record) -/
def decodeRecords (s : String) (viaCli : Bool) : Option (List Rec) :=
  if s == "-" || s == "" then some [] else
  -- `prev`: the position the reader's record buffer holds when a line is parsed (1 at first, then the previous record's POS); a record
  -- whose POS column itself is unreadable (`!badpos`, `!bigpos`) is reported with it
  let step (acc : Option (List Rec × Nat)) (r : String) : Option (List Rec × Nat) := do
    let (done, prev) ← acc
    match r.splitOn "~" with
    | [c, p, g] =>
      let pos ← p.toNat?
      if g.startsWith "!" then
        let site := if viaCli && (g == "!badpos" || g == "!bigpos") then prev else pos
        pure (done ++ [Rec.corrupt c site], prev)
      else if !viaCli then pure (done ++ [Rec.gts c pos ((g.splitOn ",").map codeToGt)], pos)
      else match (g.splitOn ",").mapM (fun gt => if gt == "@" then some (GtRes.skipped .missing) else (parseGT gt.toList).map classifyField) with
        | some l => pure (done ++ [Rec.gts c pos l], pos)
        | none => pure (done ++ [Rec.corrupt c pos], pos)
    | _ => none
  ((s.splitOn ";").foldl step (some ([], 1))).map (·.1)

def buildErrTag : BuildErr → String
  | .emptySamplesMap => "empty"
  | .unknownSample s => s!"unknown {s}"
  | .projection (.unequalDimensions _ _) => "proj-dims"
  | .projection (.invalidProjection d _ _) => s!"proj-invalid {d}"
  | .projection .zero => "proj-zero"
  | .projection .empty => "proj-empty"

def kindOf (cfg : SiteCfg) (r : Rec) : Char :=
  match r with
  | .gts _ _ l => match Spec.siteSpec cfg l with
    | some (.standard _) => 'S' | some (.projected _ _) => 'P' | some .insufficient => 'I' | none => 'E'
  | .corrupt _ _ => 'E'

def ratOfXR : XR → Rat
  | .fin q => q
  | _ => 0

/-- `<prop>.mem cols samples project records` -/
def handleMem (a : List String) (impl : String) (p : String) : Option Verdict :=
  match a with
  | [cs, ss, ps, rs] => do
    let cols := splitCsv cs
    let samples := decodeSamples ss false
    let project ← decodeProject ps
    let recs ← decodeRecords rs false
    match buildSite samples project cols with
    | .error e => pure (cmpStr impl s!"ERR build {buildErrTag e}" s!"{p}-build-error")
    | .ok cfg =>
      match createRun (α := XR) cfg false recs with
      | .error _ =>
        let idx := recs.findIdx (fun r => !(Spec.recOk cfg r))
        pure (cmpStr impl s!"ERR genotype {idx}" s!"{p}-genotype-error")
      | .ok (scs, sites, skipped) =>
        let kinds := String.ofList (recs.map (kindOf cfg))
        let kinds := if kinds == "" then "-" else kinds
        let tol : Option Rat := if cfg.projectTo.isSome then some (recs.length : Rat) else none
        let modelS := s!"OK {showNats cfg.outShape}|{showXRs scs}|{sites}|{skipped}|{kinds}"
        if !impl.startsWith "OK " then pure (.bad modelS) else
        match ((impl.drop 3).toString).splitOn "|" with
        | [sh, bs, si, sk, kd] =>
          match parseNats sh, parseBits bs with
          | some s, some d =>
            let hasP := kinds.toList.contains 'P'
            let hasI := kinds.toList.contains 'I'
            let hasS := kinds.toList.contains 'S'
            let tag := s!"{p}-mem-{if cfg.projectTo.isSome then "proj" else "noproj"}-pops{cfg.outShape.length}-{if hasS then "S" else ""}{if hasP then "P" else ""}{if hasI then "I" else ""}"
            if s == cfg.outShape && allAgree d scs tol && si == toString sites && sk == toString skipped && kd == kinds then pure (.ok tag)
            else pure (.bad modelS)
          | _, _ => pure (.bad modelS)
        | _ => pure (.bad modelS)
  | _ => none

def unescape (s : String) : String := (s.replace "\\n" "\n").replace "\\t" "\t"

def lookupField (fields : List String) (key : String) : String :=
  match fields.find? (fun f => f.startsWith (key ++ "=")) with
  | some f => (f.drop (key.length + 1)).toString
  | none => "?"

/-- numeric comparison of printed text with exact model values: header line equal, each token within
    half a unit of the last printed decimal plus the 2^-30 relative float allowance -/
def cmpTextNumeric (implOut : String) (shape : List Nat) (vals : List Rat) (precision : Nat) (floor : Rat) : Bool :=
  match implOut.splitOn "\n" with
  | [hdr, line, ""] =>
    hdr == String.ofList (textHeader shape) &&
    (let toks := if line == "" then [] else line.splitOn " "
     toks.length == vals.length &&
     (List.zipWith (fun t q => match parseF64 t.toList with
        | some b => match f64OfBits b with
          | .fin v =>
            -- the token must be printed with exactly `precision` decimals
            let decOk := if precision == 0 then !(t.toList.contains '.') else ((t.splitOn ".").getD 1 "").length == precision
            decOk && decide (absRat (v - q) ≤ (1 : Rat) / (2 * ((10 ^ precision : Nat) : Rat)) + (absRat q + floor) / ((2 ^ 30 : Nat) : Rat))
          | _ => false
        | none => false) toks vals).all id)
  | _ => false

/-- model outcome of a create invocation in the harness's canonical form, and whether values need numeric comparison -/
def createExpected (a : CreateArgs) (cols : List String) (recs : List Rec) : CreateOut × Option SiteCfg :=
  (createCli a cols recs, (buildSite a.samples a.projectShape cols).toOption)

def firstBadIsCorrupt (cfg : SiteCfg) (strict : Bool) : List Rec → Bool
  | [] => false
  | .corrupt _ _ :: _ => true
  | .gts _ _ l :: rs => match Spec.siteSpec cfg l with
    | none => false
    | some .insufficient => if strict then false else firstBadIsCorrupt cfg strict rs
    | some _ => firstBadIsCorrupt cfg strict rs

/-- `<prop>.cli container transport threads layout extras cols samples project strict precision records` -/
def cliVerdict (container : String) (cols : List String) (recs : List Rec) (ss ps st pr : String) (impl : String) (p : String) : Option Verdict := do
    let samples := decodeSamples ss true
    let project ← decodeProject ps
    let precision := if pr == "-" then 6 else (pr.toNat?).getD 6
    let args : CreateArgs := { samples := samples, projectShape := project, precision := precision, strict := st == "1" }
    let (o, cfg?) := createExpected args cols recs
    let fields := impl.splitOn "|"
    let cls := fields.headD "?"
    let out := unescape (lookupField fields "out")
    let summary := lookupField fields "summary"
    let errkind := lookupField fields "errkind"
    let errsite := lookupField fields "errsite"
    let modelSummary := match o.summary with | some (k, n) => s!"{k}/{n}" | none => "-"
    let modelDescr := s!"code={o.code} summary={modelSummary} err={repr o.err} build={repr o.buildErr} out={String.ofList o.stdout}"
    if o.code == 0 then
      let effPrec := if project.isSome then precision else 0
      let outOk :=
        if project.isSome then
          match cfg? with
          | some cfg => match createRun (α := Rat) cfg args.strict recs with
            | .ok (scs, _, _) => cmpTextNumeric out cfg.outShape scs effPrec (recs.length : Rat)
            | .error _ => false
          | none => false
        else out == String.ofList o.stdout
      if cls == "OK" && outOk && summary == modelSummary && errkind == "-" then
        pure (.ok s!"{p}-cli-{container}-ok-{if project.isSome then "proj" else "noproj"}-{if o.summary.isSome then "skips" else "noskips"}")
      else if cls == "OK" && outOk && errkind == "-" && summary.startsWith "?" && o.summary.isSome then
        -- the run is right as far as stdout and status go; its summary line is worded in a way the harness does not know: accepted when
        -- the first number on it is the number of skipped sites (all C10 asks of it), not comparable otherwise
        let nums := (((summary.drop 1).toString.replace "/" ",").splitOn ",").filterMap String.toNat?
        if nums.head? == o.summary.map (·.1) then
          pure (.ok s!"{p}-cli-{container}-ok-{if project.isSome then "proj" else "noproj"}-skips-reworded")
        else pure (.differs s!"summary line not recognised (expected {modelSummary})")
      else pure (.bad modelDescr)
    else
      -- failing run: non-zero exit, diagnosed, and nothing on stdout
      let kindOk := match o.buildErr, o.err with
        | some e, _ => errkind == s!"build:{buildErrTag e}"
        | none, some (.genotypeError c pp) =>
          errkind == "genotype" &&
            (match cfg? with
             | some _ => errsite == s!"{c}:{pp}"
             | none => false)
        | none, some (.strict c pp) => errkind == "strict" && errsite == s!"{c}:{pp}"
        | none, none => false
      -- an error in a wording the harness does not know: a site-naming error is accepted when it names the right site (that is all the
      -- properties ask of it); an unrecognised build error cannot be compared
      let siteOnlyOk := errkind == "site?" && (match o.buildErr, o.err with
        | none, some (.genotypeError c pp) => (match cfg? with
            | some _ => errsite == s!"{c}:{pp}"
            | none => false)
        | none, some (.strict c pp) => errsite == s!"{c}:{pp}"
        | _, _ => false)
      if cls == "ERR" && out == "-" && kindOk then
        pure (.ok s!"{p}-cli-{container}-err-{match o.buildErr, o.err with | some _, _ => "build" | _, some (.strict _ _) => "strict" | _, some (.genotypeError _ _) => "genotype" | _, _ => "?"}")
      else if cls == "ERR" && out == "-" && siteOnlyOk then pure (.ok s!"{p}-cli-{container}-err-site-only")
      else if cls == "ERR" && out == "-" && o.buildErr.isSome && errkind.startsWith "build:other" then
        pure (.ok s!"{p}-cli-{container}-err-build-wording-unknown")
      else pure (.bad modelDescr)

def handleCli (a : List String) (impl : String) (p : String) : Option Verdict :=
  match a with
  | [container, _transport, _threads, _layout, _extras, cs, ss, ps, st, pr, rs] => do
    let recs ← decodeRecords rs true
    if ss.startsWith "L:" then
      -- a samples file that is not valid UTF-8 cannot be read (`read_to_string`): the run fails whatever the rest says, nothing on stdout
      let fields := impl.splitOn "|"
      if fields.headD "?" == "ERR" && lookupField fields "out" == "-" then pure (.ok s!"{p}-cli-{container}-err-samples-file-unreadable")
      else pure (.bad "ERR|out=-|… (the samples file is not valid UTF-8: no sample list can be taken from it)")
    else
    cliVerdict container (splitCsv cs) recs ss ps st pr impl p
  | _ => none

/-- `c12.same extras cols samples project strict precision records` -> `SAME n class|stdout` -/
def handleSame (a : List String) (impl : String) : Option Verdict :=
  match a with
  | [_extras, cs, ss, ps, st, pr, rs] => do
    let cols := splitCsv cs
    let samples := decodeSamples ss true
    let project ← decodeProject ps
    let recs ← decodeRecords rs true
    let precision := if pr == "-" then 6 else (pr.toNat?).getD 6
    let args : CreateArgs := { samples := samples, projectShape := project, precision := precision, strict := st == "1" }
    let (o, cfg?) := createExpected args cols recs
    let modelDescr := s!"SAME * {if o.code == 0 then "OK" else "ERR"}|{String.ofList o.stdout}"
    if !impl.startsWith "SAME " then pure (.bad modelDescr) else
    let rest := (impl.drop 5).toString
    let afterN := String.intercalate " " ((rest.splitOn " ").drop 1)
    match afterN.splitOn "|" with
    | cls :: outParts =>
      let out := unescape (String.intercalate "|" outParts)
      if o.code == 0 then
        let outOk := if project.isSome then
            match cfg? with
            | some cfg => match createRun (α := Rat) cfg args.strict recs with
              | .ok (scs, _, _) => cmpTextNumeric out cfg.outShape scs precision (recs.length : Rat)
              | .error _ => false
            | none => false
          else out == String.ofList o.stdout
        if cls == "OK" && outOk then pure (.ok s!"c12-same-ok-{if project.isSome then "proj" else "noproj"}") else pure (.bad modelDescr)
      else if cls == "ERR" && out == "" then pure (.ok "c12-same-err") else pure (.bad modelDescr)
    | [] => pure (.bad modelDescr)
  | _ => none

end Sfs.Drv
