/-
Protocol decoding/encoding for the correspondence driver (core Lean only).
-/
import SfsModel.Model.XR
import SfsModel.Model.Array
namespace Sfs.Drv
open Sfs

def parseNats (s : String) : Option (List Nat) :=
  if s == "-" || s == "" then some [] else (s.splitOn ",").mapM (·.toNat?)

def showNats (l : List Nat) : String :=
  if l.isEmpty then "-" else String.intercalate "," (l.map toString)

def hexVal (c : Char) : Option Nat :=
  if '0' ≤ c ∧ c ≤ '9' then some (c.toNat - '0'.toNat)
  else if 'a' ≤ c ∧ c ≤ 'f' then some (c.toNat - 'a'.toNat + 10)
  else if 'A' ≤ c ∧ c ≤ 'F' then some (c.toNat - 'A'.toNat + 10)
  else none

def parseHexNat (s : String) : Option Nat :=
  s.toList.foldl (fun acc c => match acc, hexVal c with
    | some a, some d => some (16 * a + d)
    | _, _ => none) (some 0)

/-- comma separated 16-hex-digit bit patterns -> exact values -/
def parseBits (s : String) : Option (List XR) :=
  if s == "-" || s == "" then some [] else (s.splitOn ",").mapM (fun h => (parseHexNat h).map f64OfBits)

/-- hex string -> bytes -/
def parseHexBytes (s : String) : Option (List Nat) :=
  if s == "-" then some [] else
  let rec go : List Char → Option (List Nat)
    | a :: b :: rest => match hexVal a, hexVal b, go rest with
      | some x, some y, some r => some ((16 * x + y) :: r)
      | _, _, _ => none
    | [] => some []
    | [_] => none
  go s.toList

def showXRs (l : List XR) : String :=
  if l.isEmpty then "-" else String.intercalate "," (l.map XR.render)

inductive Verdict where
  | ok (tag : String)
  /-- implementation and model disagree on an input, and the disagreement is a failure of the property -/
  | bad (model : String)
  /-- implementation and model disagree, but on this input the property itself still holds (e.g. both reject, with
      different error kinds): the correspondence no longer checks, no failing input -/
  | differs (model : String)

def allAgree (impl model : List XR) (scale : Option Rat) : Bool :=
  impl.length == model.length && (List.zipWith (fun a b => XR.agrees a b scale) impl model).all id

/-- every entry within one part in a million of its own exact value (entries whose exact value is zero or below 1e-290 are left to
    the absolute comparison): the far tails of a hypergeometric row are tiny but not zero -/
def allAgreeRel (impl model : List XR) : Bool :=
  impl.length == model.length && (List.zipWith (fun a b => match a, b with
    | .fin v, .fin r => if r == 0 || absRat r * ((10 ^ 290 : Nat) : Rat) < 1 then true else decide (absRat (v - r) * 1000000 ≤ absRat r)
    | _, _ => true) impl model).all id

/-- impl result `shape|bits` against a model array, absolutely (scale) and entry by entry relatively -/
def cmpArrRel (impl : String) (shape : List Nat) (data : List XR) (scale : Option Rat) (tag : String) : Verdict :=
  let modelS := s!"{showNats shape}|{showXRs data}"
  match impl.splitOn "|" with
  | [sh, bs] => match parseNats sh, parseBits bs with
    | some s, some d => if s == shape && allAgree d data scale && allAgreeRel d data then .ok tag else .bad modelS
    | _, _ => .bad modelS
  | _ => .bad modelS

/-- impl result `shape|bits` against a model array -/
def cmpArr (impl : String) (shape : List Nat) (data : List XR) (scale : Option Rat) (tag : String) : Verdict :=
  let modelS := s!"{showNats shape}|{showXRs data}"
  match impl.splitOn "|" with
  | [sh, bs] => match parseNats sh, parseBits bs with
    | some s, some d => if s == shape && allAgree d data scale then .ok tag else .bad modelS
    | _, _ => .bad modelS
  | _ => .bad modelS

def cmpStr (impl model tag : String) : Verdict := if impl == model then .ok tag else .bad model

/-- outcome of a reader / rejecting operation: equal, or both are errors of different kinds (the input is still
    rejected: the property holds on it), or a real disagreement -/
def cmpRead (impl model tag : String) : Verdict :=
  if impl == model then .ok tag
  else if impl.startsWith "ERR " && model.startsWith "ERR " then .differs model
  else .bad model

/-- call history with the reported remaining length before each call: `len:item;len:item;…` -/
def history {σ β} (next : σ → Option β × σ) (len : σ → Nat) (render : β → String) : Nat → σ → List String
  | 0, _ => []
  | n + 1, s =>
    let (x, s') := next s
    let item := match x with | some b => "S" ++ render b | none => "N"
    s!"{len s}:{item}" :: history next len render n s'

def rampArr (shape : List Nat) : Arr Nat := ⟨List.range (size shape), shape⟩

end Sfs.Drv
