/-
Driver side of the C17 cases (`pn.*`): outcome classes only. Where the model predicts the class (statistics on any shape,
fold, view with options, spectrum-consuming subcommands on a given input) the implementation must show exactly that
class; everywhere else it must end in success, or in a non-zero status with a diagnostic on stderr and nothing on
stdout — a panic never matches.
-/
import SfsModel.Driver.Proto
import SfsModel.Driver.Io
import SfsModel.Driver.Stat
import SfsModel.Model.SpecCli
namespace Sfs.Drv
open Sfs

def shapeClass (shape : List Nat) : String :=
  if shape.any (· == 0) then "zero-axis" else if size shape ≤ 2 then "tiny" else if shape.any (· ≤ 2) then "short-axis" else "regular"

def optNatsP (s : String) : Option (Option (List Nat)) :=
  if s == "N" then some none else (parseNats (s.drop 1).toString).map some

def handlePanic (op : String) (a : List String) (impl : String) : Option Verdict :=
  match op, a with
  | "pn.calc", [kn, sh, bs] => do
    let k ← kindOfName kn; let shape ← parseNats sh; let data ← parseBits bs
    if checkedSize shape != some data.length then pure (cmpStr impl "NOSPECTRUM" "pncalc-nospectrum") else
    match statCalc k (⟨data, shape⟩ : Arr XR) with
    | .error e => pure (cmpStr impl (errString e) s!"pncalc-{kn}-err-{shapeClass shape}")
    | .ok _ =>
      if impl.length == 16 && (parseHexNat impl).isSome then pure (.ok s!"pncalc-{kn}-value-{shapeClass shape}")
      else pure (.bad "<a value>")
  | "pn.fold", [sh, bs, _] => do
    let shape ← parseNats sh; let data ← parseBits bs
    if checkedSize shape != some data.length then pure (cmpStr impl "NOSPECTRUM" "pnfold-nospectrum") else
    pure (cmpStr impl s!"OK {size shape}" s!"pnfold-{shapeClass shape}")
  | "pn.spec", [cmd, arg, hx] => do
    let bytes ← parseHexBytes hx
    match readSpectrum bytes with
    | .error e => pure (cmpStr impl "ERR|1|noout|err" s!"pnspec-{cmd}-rejected-{errTag e}")
    | .ok (shape, bits) =>
      let arr : Arr XR := ⟨bits.map f64OfBits, shape⟩
      let expectOk : Bool :=
        if cmd == "stat" then match parseKinds arg with
          | some ks => ks.all (fun k => match statCalc k arr with | .ok _ => true | .error _ => false)
          | none => false
        else true
      if expectOk then pure (if impl.startsWith "OK|0|out|" then .ok s!"pnspec-{cmd}-ok-{shapeClass shape}" else .bad "OK|0|out|…")
      else pure (cmpStr impl "ERR|1|noout|err" s!"pnspec-{cmd}-staterror-{shapeClass shape}")
  | "pn.any", [cmd, _args, _hx] =>
    match impl.splitOn "|" with
    | ["OK", "0", _, _] => some (.ok s!"pnany-{cmd}-ok")
    | ["ERR", code, _, "err"] => if code != "0" then some (.ok s!"pnany-{cmd}-err") else some (.bad "OK|0 or ERR|<non-zero>|…|err")
    | _ => some (.bad "OK|0|… or ERR|<non-zero>|…|err  (never a panic; a failing run has a non-zero status and a diagnostic on stderr)")
  | "pn.input", [cmd, pg, es] =>
    match inputNew (pg == "1") false (es == "1") with
    | some sel => some (if impl.startsWith "OK|0|out|" then .ok s!"pninput-{cmd}-{if sel == .path then "path" else "stdin"}" else .bad "OK|0|out|…")
    | none => some (if impl.startsWith "ERR|1|noout|err" then .ok s!"pninput-{cmd}-refused" else .bad "ERR|1|noout|err")
  | "pn.view", [sh, bs, rm, kp, ps, pi, mk, nm] => do
    let shape ← parseNats sh; let data ← parseBits bs
    let rm ← optNatsP rm; let kp ← optNatsP kp; let ps ← optNatsP ps; let pi ← optNatsP pi
    let o : ViewOpts := { remove := rm, keep := kp, projectShape := ps, projectIndividuals := pi, mask := mk == "1", normalize := nm == "1" }
    match viewRun o (⟨data, shape⟩ : Arr XR) with
    | .ok _ => pure (cmpStr impl "OK" s!"pnview-ok-{shapeClass shape}")
    | .error _ => if impl.startsWith "ERR " && !impl.endsWith "+stdout" then pure (.ok s!"pnview-err-{shapeClass shape}") else pure (.bad "ERR …")
  | _, _ => none

end Sfs.Drv
