/-
Driver side of the byte-level `sfs create` cases (`ct.create`): the request carries the very bytes handed to the binary.
The model detects the container on them, decodes them (BGZF / inflate / VCF / BCF models), runs `createCli` on the decoded
call set and compares with the implementation's outcome. The call set in the harness's own notation is carried along and
compared with what the model decoded (a difference there means the byte-level model and the generator disagree, which is
reported as a correspondence break without a failing input).
-/
import SfsModel.Driver.Create
import SfsModel.Driver.Io
import SfsModel.Model.Container
namespace Sfs.Drv
open Sfs

def containerOfName : String → Option Container
  | "vcf" => some .vcf | "vcfgz" => some .vcfGz | "bcf" => some .bcfGz | "rawbcf" => some .bcfRaw | _ => none

/-- the canonical record list cut after its first corrupt record (reading stops there) -/
def cutAtCorrupt : List Rec → List Rec
  | [] => []
  | .corrupt c p :: _ => [.corrupt c p]
  | r :: rs => r :: cutAtCorrupt rs

def sameRec : Rec → Rec → Bool
  | .gts c p l, .gts c' p' l' => c == c' && p == p' && l == l'
  | .corrupt _ _, .corrupt _ _ => true
  | _, _ => false

def sameRecs (a b : List Rec) : Bool := a.length == b.length && (List.zipWith sameRec a b).all id

/-- `ct.create container cols samples project strict precision records hexbytes` -/
def handleBytes (a : List String) (impl : String) : Option Verdict :=
  match a with
  | [container, cs, ss, ps, st, pr, rs, hex] => do
    let bytes ← parseHexBytes hex
    let want ← containerOfName container
    let canon ← decodeRecords rs true
    -- (the peek model inflates whole BGZF members of the 64 KiB prefix; the implementation's decoder streams and can deliver the first
    --  three bytes from a member the prefix cuts short: when the model's peek fails although the stream decodes as the container it was
    --  built as, the case goes on with that container — the detection step itself is then not compared)
    let detected : Except IoErr Container := match detectContainer inflate3 (bytes.take 65536) with
      | .error e => if (decodeContainer want bytes).isSome then .ok want else .error e
      | .ok c => .ok c
    match detected with
    | .error _ => pure (.bad "model: gzip peek fails on this input")
    | .ok c =>
      if c ≠ want then pure (.bad s!"model detects {repr c}") else
      match decodeContainer c bytes with
      | none => pure (.differs "model: the byte-level decoder does not cover this input")
      | some (cols, recs) =>
        if cols ≠ splitCsv cs || !sameRecs recs (cutAtCorrupt canon) then
          pure (.differs s!"model decodes cols={cols} recs={repr recs}")
        else cliVerdict container cols recs ss ps st pr impl "ct"
  | _ => none

end Sfs.Drv

namespace Sfs.Drv
open Sfs

def hexOfByteList (l : List Nat) : String := String.ofList (l.flatMap (fun b => [hexDigit (b / 16), hexDigit (b % 16)]))

def containerName : Container → String
  | .vcf => "vcf" | .vcfGz => "vcfgz" | .bcfGz => "bcf" | .bcfRaw => "rawbcf"

/-- Requests whose input bytes are produced by the model's own encoders (`encodeContainer`): the implementation must read
    them as the call set they encode. `sfsmodel --emit` prints them; the runner feeds them to the harness. -/
def emitCases (seed : Nat) : List String :=
  let classes : List GtRes := [.genotype 0, .genotype 1, .genotype 2, .skipped .missing, .skipped .multiallelic, .ploidyError]
  let pick (i : Nat) : GtRes := classes.getD ((i * 7 + seed) % 5) (.genotype 0)      -- no ploidy errors in the bulk
  let colsets : List (List String) := [["s0"], ["s0", "s1", "s2"], ["a b", "NA-1", "x.y", "s3"]]
  let cases : List (Nat × List String × List String × List (String × Nat × List GtRes)) :=
    (List.range 9).map (fun i =>
      let cols := colsets.getD (i % 3) ["s0"]
      let contigs := if i % 2 == 0 then ["1", "chrX"] else ["scaffold_7"]
      let nrec := [0, 1, 2, 5, 40, 3, 7, 120, 11].getD i 1
      let recs := (List.range nrec).map (fun r =>
        (contigs.getD (if 2 * r < nrec then 0 else contigs.length - 1) "1", 1 + (2 * r) / 3 + 1000 * (i % 2),
         (List.range cols.length).map (fun c => if i == 5 && r == 2 && c == 0 then GtRes.ploidyError else pick (r * 3 + c + i))))
      ([1, 7, 100, 65280, 3, 64, 1000, 19, 5000].getD i 100, cols, contigs, recs))
  cases.flatMap (fun (blk, cols, contigs, recs) =>
    [Container.vcf, .vcfGz, .bcfGz, .bcfRaw].map (fun c =>
      let bytes := encodeContainer blk cols contigs recs c
      let rs := if recs.isEmpty then "-" else String.intercalate ";" (recs.map (fun r =>
        s!"{r.1}~{r.2.1}~{String.intercalate "," (r.2.2.map (fun g => String.ofList ((renderGt g).map Char.ofNat)))}"))
      s!"ct.create\t{containerName c}\t{String.intercalate "," cols}\tN\tN\t0\t-\t{rs}\t{hexOfByteList bytes}"))

end Sfs.Drv
