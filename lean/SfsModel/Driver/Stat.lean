/-
Driver side of the statistics cases (`st.*`, C06 / C14 / C17): the model statistics (`statCalc` at `XR`, exact rationals)
and the genotype-level / published definitions (`Spec.g*`, `Spec.pub*`) against the implementation's binary64 results.
The D statistics are compared without taking square roots.
-/
import SfsModel.Driver.Proto
import SfsModel.Driver.Create
import SfsModel.Model.Stat
import SfsModel.Spec.Stat
namespace Sfs.Drv
open Sfs

def kindOfName (s : String) : Option StatKind := StatKind.all.find? (fun k => k.name == s)

def two30 : Rat := ((2 ^ 30 : Nat) : Rat)

/-- decides `v · sqrt var ≥ L` for `var ≥ 0` -/
def geMulSqrt (v var L : Rat) : Bool :=
  if v ≥ 0 then (if L ≤ 0 then true else v * v * var ≥ L * L)
  else (if L > 0 then false else v * v * var ≤ L * L)

/-- `|v · sqrt var − num| ≤ tol`, with `v` known up to `± delta` -/
def dAgrees (v delta num var tol : Rat) : Bool :=
  geMulSqrt (v + delta) var (num - tol) && geMulSqrt (-(v - delta)) var (-(num + tol))

def xrAbs : XR → Rat
  | .fin q => absRat q
  | _ => 0

/-- Compare one implementation value (exact `v`, known up to `± delta` when it was printed) with a model value. -/
def valAgrees (impl : XR) (delta : Rat) (m : StatVal XR) (floor : Rat) (dscale : Rat) : Bool :=
  match m with
  | .nan => impl == .nan
  | .val q =>
    match impl, q with
    | .fin v, .fin r => decide (absRat (v - r) ≤ delta + (absRat r + floor) / two30)
    | .nan, .nan => true
    | .inf a, .inf b => a == b
    | _, _ => false
  | .d p =>
    match p.num, p.var with
    | .fin num, .fin var =>
      if var < 0 then impl == .nan
      else if var == 0 then (if num == 0 then impl == .nan else impl == .inf (decide (num < 0)))
      else match impl with
        | .fin v => dAgrees v delta num var ((absRat num + dscale) / two30)
        | _ => false
    | _, _ => !impl.isFinite     -- degenerate shapes: some non-finite class

/-- the mass of everything but the two monomorphic cells (first and last entry) -/
def sumAbsInner (data : List XR) : Rat := sumAbs (data.drop 1).dropLast

/-- scale of the defining sums, per statistic -/
def floorOf (k : StatKind) (data : List XR) : Rat :=
  match k with
  | .sum => sumAbs data
  -- S, pi and theta do not involve the monomorphic cells: the scale of their defining sums is the polymorphic mass alone (a huge
  -- monomorphic count must not buy tolerance)
  | .s | .pi | .theta => sumAbsInner data
  | .piXY => 2 * sumAbs data
  | .f2 | .f3 | .f4 => 1
  | .fst | .king | .r0 | .r1 => 8
  | _ => 0

/-- cancellation scale of a D numerator: |pi| + |theta| resp. (|theta| + |xi_1|)·a -/
def dScaleOf (k : StatKind) (data : List XR) : Rat :=
  match k with
  | .dTajima => xrAbs (statPi data) + xrAbs (statTheta data)
  | .dFuLi => (xrAbs (statTheta data) + xrAbs (data.getD 1 (.fin 0))) * xrAbs (harmonic (α := XR) (data.length - 1))
  | _ => 0

def errString : StatErr → String
  | .dimension e a => s!"ERR dim {e} {a}"
  | .shape _ => "ERR shape"

def renderVal : StatVal XR → String
  | .val q => q.render
  | .nan => "NaN"
  | .d p => s!"({p.num.render})/sqrt({p.var.render})"

/-- one in-process result (16 hex digits or an error tag) against the model -/
def cmpOne (k : StatKind) (a : Arr XR) (implTok : String) : Bool :=
  match statCalc k a with
  | .error e => implTok == errString e
  | .ok m => match parseHexNat implTok with
    | some b => implTok.length == 16 && valAgrees (f64OfBits b) 0 m (floorOf k a.data) (dScaleOf k a.data)
    | none => false

def modelOne (k : StatKind) (a : Arr XR) : String :=
  match statCalc k a with
  | .error e => errString e
  | .ok m => renderVal m

/-- printed token (precision `p`) against the model -/
def cmpPrinted (k : StatKind) (a : Arr XR) (tok : String) (p : Nat) : Bool :=
  match statCalc k a with
  | .error _ => false
  | .ok m => match parseF64 tok.toList with
    | some b => valAgrees (f64OfBits b) (1 / (2 * ((10 ^ p : Nat) : Rat))) m (floorOf k a.data) (dScaleOf k a.data)
    | none => false

def parseKinds (s : String) : Option (List StatKind) := (s.splitOn ",").mapM kindOfName

def transpose2 (shape : List Nat) (data : List XR) : List Nat × List XR :=
  let r := shape.getD 0 0; let c := shape.getD 1 0
  ([c, r], (List.range c).flatMap (fun j => (List.range r).map (fun i => data.getD (i * c + j) (.fin 0))))

def f2Of (a : Arr XR) (keep : Nat × Nat) : Option XR :=
  let d := a.shape.length
  let rm := (List.range d).filter (fun ax => ax != keep.1 && ax != keep.2)
  match marginalize a rm with
  | .ok m =>
    let m' : Arr XR := if keep.1 > keep.2 then (let t := transpose2 m.shape m.data; ⟨t.2, t.1⟩) else m
    some (statF2 (normalized m'))
  | .error _ => none

def xrHalf : XR := .fin (1 / 2)

def statValEq : StatVal XR → StatVal XR → Bool
  | .val a, .val b => a == b
  | .nan, .nan => true
  | .d p, .d q => p.num == q.num && p.var == q.var
  | _, _ => false

def scaleVal (c : XR) : StatVal XR → StatVal XR
  | .val a => .val (c * a)
  | v => v

def linearKinds : List StatKind := [.sum, .s, .pi, .piXY, .theta]
def scaleFreeKinds : List StatKind := [.f2, .f3, .f4, .fst, .king, .r0, .r1]

/-- genotype-level / published value of statistic `k` for the sites `ks` with `ns` chromosomes per population -/
def genoVal (k : StatKind) (ns : List Nat) (ks : List (List Nat)) : Option (StatVal XR) :=
  let n := ns.getD 0 0
  let xi : Nat → XR := fun i => (((ks.filter (· == [i])).length : Nat) : XR)
  match k with
  | .sum => some (.val (Spec.gSum ks))
  | .s => some (.val (Spec.gS ns ks))
  | .pi => if ns.length == 1 then some (.val (Spec.gPi n (ks.map (·.getD 0 0)))) else none
  | .theta => if ns.length == 1 then some (.val (Spec.pubThetaW n xi)) else none
  | .dTajima => if ns.length == 1 then some (.d (Spec.pubTajimaD n xi)) else none
  | .dFuLi => if ns.length == 1 then some (.d (Spec.pubFuLiD n xi)) else none
  | .piXY => if ns.length == 2 then some (.val (Spec.gPiXY n (ns.getD 1 0) ks)) else none
  | .f2 => if ns.length == 2 then some (.val (Spec.gF2 ns ks)) else none
  | .f3 => if ns.length == 3 then some (.val (Spec.gF3 ns ks)) else none
  | .f4 => if ns.length == 4 then some (.val (Spec.gF4 ns ks)) else none
  | .fst => if ns.length == 2 then some (.val (Spec.gFst ns ks)) else none
  | .king => if ns == [2, 2] then some (.val (Spec.gKing ks)) else none
  | .r0 => if ns == [2, 2] then some (.val (Spec.gR0 ks)) else none
  | .r1 => if ns == [2, 2] then some (.val (Spec.gR1 ks)) else none

def genoFloor (k : StatKind) (nsites : Nat) : Rat :=
  match k with
  | .s | .sum | .pi | .theta => nsites
  | .piXY => 2 * nsites
  | .f2 | .f3 | .f4 => 1
  | _ => 8

/-- `hist.scs shape bits ops` — a call history on ONE spectrum object: every query must return what the pure model
    functions return on the object's current contents (nothing cached by an earlier call may survive an edit, nothing an
    earlier call did may leak into a later one). Ops, `;`-separated:
    `sum`, `stat:<kind>`, `set:<flat>:<bits>` (IndexMut), `setm:<flat>:<bits>` (through `inner_mut`), `norm`, `clone`,
    `fold:<fill bits>`, `marg:<axes>`, `proj:<shape>` (results returned), `refold`, `remarg:<axes>`, `reproj:<shape>`
    (the object is replaced by the result). The implementation answers one token per op. -/
def histStep (st : Arr XR) (op : String) (tok : String) : Option (Arr XR × Bool) :=
  let xrHalf : XR := .fin (1 / 2)
  let cmpArrTok (t : String) (b : Arr XR) (scale : Rat) : Bool :=
    match t.splitOn "|" with
    | [sh, bs] => (match parseNats sh, parseBits bs with
      | some s, some d => s == b.shape && allAgree d b.data (some scale)
      | _, _ => false)
    | _ => false
  match op.splitOn ":" with
  | ["sum"] => match parseHexNat tok with
    | some b => some (st, (f64OfBits b).agrees (st.data.foldl (· + ·) (.fin 0)) (some (sumAbs st.data)))
    | none => some (st, false)
  | ["stat", kn] => (kindOfName kn).map (fun k => (st, cmpOne k st tok))
  | ["set", f, b] | ["setm", f, b] => do
    let i ← f.toNat?; let v ← parseHexNat b
    pure (⟨st.data.set i (f64OfBits v), st.shape⟩, tok == "-")
  | ["norm"] => some (⟨normalize st.data, st.shape⟩, tok == "-")
  | ["clone"] => some (st, tok == "-")
  | ["clonefrom", sh, k] => do
    let shape ← parseNats sh; let k ← k.toNat?
    pure (⟨(List.range (size shape)).map (fun i => XR.fin (((1 + (i * k) % 17 : Nat) : Int) : Rat)), shape⟩, tok == "-")
  | ["fold", fb] => do
    let v ← parseHexNat fb
    pure (st, cmpArrTok tok ⟨foldSpectrum xrHalf (f64OfBits v) st.shape st.data, st.shape⟩ (sumAbs st.data))
  | ["refold"] =>
    let b : Arr XR := ⟨foldSpectrum xrHalf (.fin 0) st.shape st.data, st.shape⟩
    some (b, tok == "-")
  | ["marg", ax] | ["remarg", ax] => do
    let axes ← parseNats ax
    match marginalize st axes with
    | .ok b => if op.startsWith "re" then pure (b, tok == "-") else pure (st, cmpArrTok tok b (sumAbs st.data))
    | .error _ => pure (st, tok == "ERR")
  | ["proj", sh] | ["reproj", sh] => do
    let t ← parseNats sh
    match project st t with
    | .ok b => if op.startsWith "re" then pure (b, tok == "-") else pure (st, cmpArrTok tok b (sumAbs st.data))
    | .error _ => pure (st, tok == "ERR")
  | _ => none

def handleHist (a : List String) (impl : String) : Option Verdict :=
  match a with
  | [sh, bs, opss] => do
    let shape ← parseNats sh; let data ← parseBits bs
    let ops := opss.splitOn ";"
    let toks := impl.splitOn ";"
    if ops.length != toks.length then pure (.bad s!"{ops.length} answers expected") else
    let rec go (st : Arr XR) (i : Nat) : List (String × String) → Option (Option (Nat × String))
      | [] => some none
      | (op, tok) :: rest =>
        match histStep st op tok with
        | none => none
        | some (st', ok) => if ok then go st' (i + 1) rest else some (some (i, op))
    match go ⟨data, shape⟩ 0 (ops.zip toks) with
    | none => none
    | some none => pure (.ok s!"hist-d{shape.length}-{if opss.contains "set" then "edit" else "read"}-{if (opss.splitOn "re").length > 1 then "replace" else "keep"}")
    | some (some (i, op)) => pure (.bad s!"call {i} ({op}) does not return what the model computes on the object's current contents")
  | _ => none

def handleStat (op : String) (a : List String) (impl : String) : Option Verdict :=
  match op, a with
  | "st.calc", [ks, sh, bs] => do
    let kinds ← parseKinds ks; let shape ← parseNats sh; let data ← parseBits bs
    if checkedSize shape != some data.length then pure (cmpStr impl "NOSPECTRUM" "stmem-nospectrum") else
    let arr : Arr XR := ⟨data, shape⟩
    let toks := impl.splitOn ";"
    let model := String.intercalate ";" (kinds.map (fun k => modelOne k arr))
    if toks.length == kinds.length && (List.zipWith (fun k t => cmpOne k arr t) kinds toks).all id then
      pure (.ok s!"stmem-d{shape.length}-{if shape == [3, 3] then "3x3" else if data.length ≤ 4 then "tiny" else if data.length ≤ 171 then "le171" else "gt171"}")
    else pure (.bad model)
  | "st.cmd", [ks, pr, sh, bs] => do
    let kinds ← parseKinds ks; let p ← pr.toNat?; let shape ← parseNats sh; let data ← parseBits bs
    let arr : Arr XR := ⟨data, shape⟩
    let model := String.intercalate "," (kinds.map (fun k => modelOne k arr))
    let anyErr := kinds.any (fun k => match statCalc k arr with | .error _ => true | .ok _ => false)
    if anyErr then pure (cmpStr impl "ERR|1|" "stcli-error") else
    match impl.splitOn "|" with
    | ["OK", "0", out] =>
      let line := (out.replace "\\n" "")
      let toks := line.splitOn ","
      if out.endsWith "\\n" && toks.length == kinds.length && (List.zipWith (fun k t => cmpPrinted k arr t p) kinds toks).all id then
        pure (.ok s!"stcli-d{shape.length}-p{p}")
      else pure (.bad model)
    | _ => pure (.bad model)
  | "st.cmd2", [ks, prs, hd, dl, sh, bs] => do
    let kinds ← parseKinds ks; let precs ← parseNats prs; let shape ← parseNats sh; let data ← parseBits bs
    let delim : Char ← if dl == "-" then some ',' else (parseHexBytes dl).bind (fun b => b.head?.map Char.ofNat)
    let arr : Arr XR := ⟨data, shape⟩
    match impl.splitOn "|" with
    | [cls, code, outHex] =>
      let out ← parseHexBytes outHex
      let outS := String.ofList (bytesToChars out)
      match statCli kinds precs (hd == "1") delim arr with
      | .usage => pure (if cls == "ERR" && code == "1" && out.isEmpty then .ok "stcmd2-usage" else .bad "ERR|1|- (usage error)")
      | .failed hdr _ =>
        let expectOut := match hdr with | some h => h ++ "\n" | none => ""
        pure (if cls == "ERR" && code == "1" && outS == expectOut then .ok s!"stcmd2-failed-{if hdr.isSome then "header-written" else "no-output"}"
              else .bad s!"ERR|1|{expectOut}")
      | .done hdr row =>
        let lines := outS.splitOn "\n"
        let (hdrOk, rowLine) : Bool × String := match hdr, lines with
          | some h, [l0, l1, ""] => (l0 == h, l1)
          | none, [l1, ""] => (true, l1)
          | _, _ => (false, "")
        let toks := rowLine.splitOn (String.singleton delim)
        let valsOk := toks.length == row.length && (List.zipWith (fun (t : String) (kvp : StatKind × (StatVal XR × Nat)) =>
            match parseF64 t.toList with
            | some b =>
              let p := kvp.2.2
              let decOk := if p == 0 then !(t.toList.contains '.') || !(f64OfBits b).isFinite else ((t.splitOn ".").getD 1 "").length == p || !(f64OfBits b).isFinite
              decOk && valAgrees (f64OfBits b) (1 / (2 * ((10 ^ p : Nat) : Rat))) kvp.2.1 (floorOf kvp.1 data) (dScaleOf kvp.1 data)
            | none => false) toks (kinds.zip row)).all id
        pure (if cls == "OK" && code == "0" && hdrOk && valsOk then .ok s!"stcmd2-done-{if hdr.isSome then "header" else "noheader"}-{if precs.length == 1 then "oneprec" else "precs"}"
              else .bad s!"OK|0|{hdr.getD ""} + {row.length} values")
    | _ => pure (.bad "CLASS|code|stdout")
  | "st.rel", [rel, kn, sh, bs, par] => do
    let k ← kindOfName kn; let shape ← parseNats sh; let data ← parseBits bs
    let arr : Arr XR := ⟨data, shape⟩
    let m1 := statCalc k arr
    -- the transformed input and the value the relation predicts from m1
    let (arr2?, expect) : Option (Arr XR) × (StatVal XR → Option (StatVal XR)) :=
      match rel with
      | "fold" | "foldcli" => (some ⟨foldSpectrum xrHalf (.fin 0) shape data, shape⟩, fun v => some v)
      | "swap" => (let t := transpose2 shape data; (some ⟨t.2, t.1⟩, fun v => some v))
      | "mono" => (match parseBits par with
          | some [p0, p1] => (some ⟨(data.set 0 p0).set (data.length - 1) p1, shape⟩, fun v => some v)
          | _ => (none, fun _ => none))
      | "monoip" => (match parseBits par with
          | some [p0, p1] => (some ⟨(data.set 0 p0).set (data.length - 1) p1, shape⟩,
              fun v => if k == .sum || k == .f2 || k == .f3 || k == .f4 then none else some v)
          | _ => (none, fun _ => none))
      | "scale" => (match parseHexNat par with
          | some cb => let c := f64OfBits cb
            (some ⟨data.map (fun x => c * x), shape⟩,
             fun v => if linearKinds.contains k then some (scaleVal c v) else if scaleFreeKinds.contains k then some v else none)
          | none => (none, fun _ => none))
      | _ => (none, fun _ => none)
    match rel with
    | "f3f2" | "f4f2" =>
      let combo : Option XR :=
        if rel == "f3f2" then do
          let ab ← f2Of arr (0, 1); let ac ← f2Of arr (0, 2); let bc ← f2Of arr (1, 2)
          pure (xrHalf * (ab + ac - bc))
        else do
          let ad ← f2Of arr (0, 3); let bc ← f2Of arr (1, 2); let ac ← f2Of arr (0, 2); let bd ← f2Of arr (1, 3)
          pure (xrHalf * (ad + bc - ac - bd))
      match m1, combo with
      | .ok v1, some c =>
        if !statValEq v1 (.val c) then pure (.bad s!"the decomposition fails on the model: {renderVal v1} vs {c.render}") else
        match impl.splitOn ";" with
        | [t1, t2] =>
          let ok2 := match parseHexNat t2 with
            | some b => valAgrees (f64OfBits b) 0 (.val c) 4 0
            | none => false
          if cmpOne k arr t1 && ok2 then pure (.ok s!"strel-{rel}") else pure (.bad s!"{renderVal v1};{c.render}")
        | _ => pure (.bad "two values")
      | _, _ => pure (.bad "model: statistic not applicable")
    | _ =>
      match arr2? with
      | none => none
      | some arr2 =>
        let m2 := statCalc k arr2
        match m1, m2 with
        | .ok v1, .ok v2 =>
          let relOk := match expect v1 with | some e => statValEq e v2 | none => true
          if !relOk then pure (.bad s!"the relation {rel} fails on the model for {kn}: {renderVal v1} vs {renderVal v2}") else
          match impl.splitOn ";" with
          | [t1, t2] =>
            let ok2 := if rel == "foldcli" then (t2.startsWith "T" && cmpPrinted k arr2 (t2.drop 1).toString 15) else cmpOne k arr2 t2
            if cmpOne k arr t1 && ok2 then pure (.ok s!"strel-{rel}-{kn}{if (expect v1).isNone then "-norelation" else ""}")
            else pure (.bad s!"{renderVal v1};{renderVal v2}")
          | _ => pure (.bad "two values")
        | _, _ => pure (.bad "model: statistic not applicable to this shape")
  | "st.harm", [ps, los, his] => do
    -- `p_harmonic(n, p)` for every n in lo..=hi: the model's value at `lo`, then one exact term added per step; the model's own
    -- `harmonicP hi p` closes the chain
    let p ← ps.toNat?; let lo ← los.toNat?; let hi ← his.toNat?
    let toks := impl.splitOn ";"
    if hi < lo || toks.length != hi + 1 - lo then pure (.bad s!"{hi + 1 - lo} values expected") else
    match harmonicP (α := XR) lo p with
    | .fin start =>
      let rec go (n : Nat) (acc : Rat) : List String → Option Nat × Rat
        | [] => (none, acc)
        | tk :: rest =>
          let ok := match parseHexNat tk with
            | some b => tk.length == 16 && (f64OfBits b).agrees (.fin acc) (some acc)
            | none => false
          if !ok then (some n, acc) else
          go (n + 1) (if n == 0 then acc else acc + 1 / (((n ^ p : Nat) : Int) : Rat)) rest
      match go lo start toks with
      | (some n, acc) => pure (.bad s!"n={n}: {(XR.fin acc).render}")
      | (none, _) =>
        if harmonicP (α := XR) hi p == .fin ((go lo start (toks.take (hi - lo))).2) then pure (.ok s!"harm-p{p}-{if hi ≤ 171 then "le171" else if hi ≤ 1024 then "le1024" else "gt1024"}")
        else pure (.bad "model: running sum and harmonicP disagree")
    | _ => pure (.bad "model: harmonicP not finite")
  | "st.geno", [ks, cs, ss, rs] | "st.genocli", [ks, cs, ss, rs] => do
    let kinds ← parseKinds ks
    let cols := splitCsv cs
    let viaCli := op == "st.genocli"
    let samples := decodeSamples ss viaCli
    let recs ← decodeRecords rs viaCli
    match buildSite samples none cols with
    | .error _ => pure (.bad "model: build error")
    | .ok cfg =>
      let ns := cfg.outShape.map (· - 1)
      let sites := Spec.sitesOf cfg recs
      let vals := kinds.map (fun k => (k, genoVal k ns sites))
      if vals.any (fun kv => kv.2.isNone) then pure (.bad "model: statistic not applicable") else
      let model := String.intercalate ";" (vals.map (fun kv => match kv.2 with | some v => renderVal v | none => "?"))
      let dsc (k : StatKind) : Rat := match k with
        | .dTajima | .dFuLi => 2 * (sites.length : Rat) * (1 + xrAbs (Spec.aN (α := XR) (ns.getD 0 0)))
        | _ => 0
      if !viaCli then
        match impl.splitOn "|" with
        | [sh, body] =>
          let toks := body.splitOn ";"
          if sh == showNats cfg.outShape && toks.length == kinds.length &&
             (List.zipWith (fun kv t => match kv.2, parseHexNat t with
                | some v, some b => t.length == 16 && valAgrees (f64OfBits b) 0 v (genoFloor kv.1 sites.length) (dsc kv.1)
                | _, _ => false) vals toks).all id
          then pure (.ok s!"stgeno-pops{ns.length}{if ns == [2, 2] then "-twoind" else ""}")
          else pure (.bad s!"{showNats cfg.outShape}|{model}")
        | _ => pure (.bad s!"{showNats cfg.outShape}|{model}")
      else
        match impl.splitOn "|" with
        | ["OK", "0", out] =>
          let toks := (out.replace "\\n" "").splitOn ","
          if toks.length == kinds.length &&
             (List.zipWith (fun kv t => match kv.2, parseF64 t.toList with
                | some v, some b => valAgrees (f64OfBits b) (1 / (2 * ((10 ^ 12 : Nat) : Rat))) v (genoFloor kv.1 sites.length) (dsc kv.1)
                | _, _ => false) vals toks).all id
          then pure (.ok s!"stgenocli-pops{ns.length}")
          else pure (.bad model)
        | _ => pure (.bad model)
  | _, _ => none

end Sfs.Drv
