/-
L1 — specification of `sfs create` in terms of the records only (no mutable state, no loops):
which (population, genotype) pairs are selected, when a record is complete, its per-population ALT counts and
called totals, the site it denotes and its contribution to the output spectrum.
Used by the property theorems C01, C02, C10, C11; core Lean only.
-/
import SfsModel.Model.Create
namespace Sfs.Spec
open Sfs

/-- The (population id, genotype result) pairs of the *selected* columns of one record. -/
def selected (map : List (String × Nat)) (cols : List String) (gts : List GtRes) : List (Nat × GtRes) :=
  (cols.zip gts).filterMap (fun cg => (lookupPop map cg.1).map (fun pid => (pid, cg.2)))

def hasPloidyError (sel : List (Nat × GtRes)) : Bool := sel.any (fun p => p.2 = .ploidyError)

/-- Every selected sample has a complete biallelic genotype. -/
def complete (sel : List (Nat × GtRes)) : Bool :=
  sel.all (fun p => match p.2 with | .genotype _ => true | _ => false)

def altOf : GtRes → Nat
  | .genotype k => k
  | _ => 0

def calledOf : GtRes → Nat
  | .genotype _ => 2
  | _ => 0

/-- ALT alleles carried by population `j` among the selected, called samples. -/
def altCounts (npop : Nat) (sel : List (Nat × GtRes)) : List Nat :=
  (List.range npop).map (fun j => ((sel.filter (fun p => p.1 = j)).map (fun p => altOf p.2)).sum)

/-- Called chromosomes of population `j` among the selected samples. -/
def calledTotals (npop : Nat) (sel : List (Nat × GtRes)) : List Nat :=
  (List.range npop).map (fun j => ((sel.filter (fun p => p.1 = j)).map (fun p => calledOf p.2)).sum)

/-- The site a record denotes, as a pure function of the record (`none` = ploidy error in a selected column). -/
def siteSpec (cfg : SiteCfg) (gts : List GtRes) : Option Site :=
  let sel := selected cfg.map cfg.cols gts
  let npop := numPops cfg.map
  if hasPloidyError sel then none
  else match cfg.projectTo with
    | none => if complete sel then some (.standard (altCounts npop sel)) else some .insufficient
    | some pt =>
      let t := calledTotals npop sel
      let a := altCounts npop sel
      if t = pt then some (.standard a)
      else if (List.zipWith (fun t m => decide (m ≤ t)) t pt).all id then some (.projected t a)
      else some .insufficient

/-- Contribution of a site to the output spectrum (flat, row-major over `cfg.outShape`). -/
def contribOfSite {α} [Mul α] [Div α] [NatCast α] [OfNat α 0] [OfNat α 1] (cfg : SiteCfg) : Option Site → List α
  | some (.standard c) =>
    (List.range (size cfg.outShape)).map (fun f => if flat cfg.outShape c = f ∧ InB cfg.outShape c then 1 else 0)
  | some (.projected t a) =>
    (List.range (size cfg.outShape)).map (fun f => projectValue t a (cfg.projectTo.getD []) (unflat cfg.outShape f))
  | _ => List.replicate (size cfg.outShape) 0

def contrib {α} [Mul α] [Div α] [NatCast α] [OfNat α 0] [OfNat α 1] (cfg : SiteCfg) (gts : List GtRes) : List α :=
  contribOfSite cfg (siteSpec cfg gts)

/-- Genotype lists of the records (a corrupt record has none). -/
def gtsOf : Rec → Option (List GtRes)
  | .gts _ _ l => some l
  | .corrupt _ _ => none

/-- A record the run can digest: parsed, and no ploidy error in a selected column. -/
def recOk (cfg : SiteCfg) (r : Rec) : Bool :=
  match r with
  | .gts _ _ l => (siteSpec cfg l).isSome
  | .corrupt _ _ => false

def recSkipped (cfg : SiteCfg) (r : Rec) : Bool :=
  match r with
  | .gts _ _ l => siteSpec cfg l = some .insufficient
  | .corrupt _ _ => false

def recContrib {α} [Mul α] [Div α] [NatCast α] [OfNat α 0] [OfNat α 1] (cfg : SiteCfg) (r : Rec) : List α :=
  match r with
  | .gts _ _ l => contrib cfg l
  | .corrupt _ _ => List.replicate (size cfg.outShape) 0

/-- Entrywise sum of the contributions of a list of records. -/
def sumContrib {α} [Add α] [Mul α] [Div α] [NatCast α] [OfNat α 0] [OfNat α 1] (cfg : SiteCfg) (recs : List Rec) : List α :=
  (List.range (size cfg.outShape)).map (fun f => (recs.map (fun r => (recContrib (α := α) cfg r).getD f 0)).foldr (· + ·) 0)

/-- Well-formed configuration, as `buildSite` produces it. -/
def CfgOk (cfg : SiteCfg) : Prop :=
  cfg.cols.Nodup ∧ (∀ p ∈ cfg.map, p.1 ∈ cfg.cols) ∧ (cfg.map.map (·.1)).Nodup ∧
  (∀ p ∈ cfg.map, p.2 < numPops cfg.map) ∧
  (∀ pt, cfg.projectTo = some pt → pt.length = numPops cfg.map)

/-- Well-formed record: aligned with the columns, genotype counts in 0..2 (what `classify` produces). -/
def RecWf (cfg : SiteCfg) (r : Rec) : Prop :=
  match r with
  | .gts _ _ l => l.length = cfg.cols.length ∧ ∀ k, GtRes.genotype k ∈ l → k ≤ 2
  | .corrupt _ _ => True

end Sfs.Spec
