/-
L1 — the statistics as they are *defined*: on the genotypes of a call set (per site: the per-population ALT allele
counts `k` among `ns` sampled chromosomes; sites with an incomplete selected genotype are not part of the call set,
see `Spec.siteSpec`), at the level of chromosomes where the definition speaks about pairs of chromosomes, and the
published estimator formulas (Watterson 1975, Tajima 1983/1989, Fu and Li 1993, Hudson / Bhatia et al. 2013, Waples et
al. 2019, Reich et al. 2009 / Peter 2016). Generic in the scalar; core Lean only.
-/
import SfsModel.Model.Stat
import SfsModel.Spec.Create
namespace Sfs.Spec
open Sfs

section
variable {α : Type} [Add α] [Sub α] [Mul α] [Div α] [NatCast α] [OfNat α 0] [OfNat α 1]

/-- Σ over a list. -/
def sumOver {β : Type} (l : List β) (f : β → α) : α := sumList (l.map f)

/-! ## chromosome level -/

/-- number of unordered pairs of entries of `c` (chromosomes of one sample set: `true` = ALT) that differ -/
def diffPairs : List Bool → Nat
  | [] => 0
  | a :: rest => (rest.filter (· != a)).length + diffPairs rest

/-- number of pairs (one chromosome from each list) that differ -/
def diffBetween (c d : List Bool) : Nat := (c.map (fun a => (d.filter (· != a)).length)).sum

def altCount (c : List Bool) : Nat := (c.filter id).length

/-! ## site level: `k` = ALT counts per population, `ns` = chromosomes per population -/

/-- A site is polymorphic in the sample if it is neither all-REF nor all-ALT over all populations. -/
def polymorphic (ns k : List Nat) : Bool := k != ns.map (fun _ => 0) && k != ns

/-- sample allele frequency of population `j` at a site -/
def pfreq (ns k : List Nat) (j : Nat) : α := ((k.getD j 0 : Nat) : α) / ((ns.getD j 0 : Nat) : α)

/-- `sum`: the number of sites. -/
def gSum (ks : List (List Nat)) : α := ((ks.length : Nat) : α)

/-- `S`: the number of polymorphic sites. -/
def gS (ns : List Nat) (ks : List (List Nat)) : α := (((ks.filter (polymorphic ns)).length : Nat) : α)

/-- `pi`: mean number of pairwise differences between the `n` sampled chromosomes, summed over sites:
    a site with `k` ALT alleles has `k (n - k)` differing pairs out of `C(n, 2)`. -/
def gPi (n : Nat) (ks : List Nat) : α :=
  sumOver ks (fun k => ((k * (n - k) : Nat) : α)) / ((n * (n - 1) / 2 : Nat) : α)

/-- `pi_xy`: mean number of differences between a chromosome of population 1 and one of population 2. -/
def gPiXY (n1 n2 : Nat) (ks : List (List Nat)) : α :=
  sumOver ks (fun k => ((k.getD 0 0 * (n2 - k.getD 1 0) + k.getD 1 0 * (n1 - k.getD 0 0) : Nat) : α)) / ((n1 * n2 : Nat) : α)

/-- f2(A, B): site average of `(p_A - p_B)²`. -/
def gF2 (ns : List Nat) (ks : List (List Nat)) : α :=
  sumOver ks (fun k => (pfreq ns k 0 - pfreq ns k 1) * (pfreq ns k 0 - pfreq ns k 1)) / gSum ks

/-- f3(A; B, C): site average of `(p_A - p_B)(p_A - p_C)`. -/
def gF3 (ns : List Nat) (ks : List (List Nat)) : α :=
  sumOver ks (fun k => (pfreq ns k 0 - pfreq ns k 1) * (pfreq ns k 0 - pfreq ns k 2)) / gSum ks

/-- f4(A, B; C, D): site average of `(p_A - p_B)(p_C - p_D)`. -/
def gF4 (ns : List Nat) (ks : List (List Nat)) : α :=
  sumOver ks (fun k => (pfreq ns k 0 - pfreq ns k 1) * (pfreq ns k 2 - pfreq ns k 3)) / gSum ks

/-- Hudson's per-site numerator (Bhatia et al. 2013, eq. 10) and denominator. -/
def hudsonNum (ns k : List Nat) : α :=
  let p1 : α := pfreq ns k 0; let p2 : α := pfreq ns k 1
  (p1 - p2) * (p1 - p2) - p1 * (1 - p1) / ((ns.getD 0 0 - 1 : Nat) : α) - p2 * (1 - p2) / ((ns.getD 1 0 - 1 : Nat) : α)

def hudsonDen (ns k : List Nat) : α :=
  let p1 : α := pfreq ns k 0; let p2 : α := pfreq ns k 1
  p1 * (1 - p2) + p2 * (1 - p1)

/-- Hudson's Fst as a ratio of sums over the polymorphic sites ("ratio of averages"). -/
def gFst (ns : List Nat) (ks : List (List Nat)) : α :=
  sumOver (ks.filter (polymorphic ns)) (hudsonNum ns) / sumOver (ks.filter (polymorphic ns)) (hudsonDen ns)

/-- number of sites at which individual 1 has genotype `a` and individual 2 genotype `b` (ALT counts 0, 1, 2) -/
def pairCount (ks : List (List Nat)) (a b : Nat) : α := (((ks.filter (· == [a, b])).length : Nat) : α)

/-- KING-robust kinship (Waples et al. 2019). -/
def gKing (ks : List (List Nat)) : α :=
  (pairCount ks 1 1 - ((2 : Nat) : α) * (pairCount ks 0 2 + pairCount ks 2 0)) /
    (pairCount ks 0 1 + pairCount ks 1 0 + ((2 : Nat) : α) * pairCount ks 1 1 + pairCount ks 1 2 + pairCount ks 2 1)

def gR0 (ks : List (List Nat)) : α := (pairCount ks 0 2 + pairCount ks 2 0) / pairCount ks 1 1

def gR1 (ks : List (List Nat)) : α :=
  pairCount ks 1 1 /
    sumList [pairCount ks 0 1, pairCount ks 0 2, pairCount ks 1 0, pairCount ks 1 2, pairCount ks 2 0, pairCount ks 2 1]

/-! ## published estimators on a count spectrum `ξ_0 … ξ_n` of `n` chromosomes -/

/-- `a_n = Σ_{i=1}^{n-1} 1/i`, `b_n = Σ_{i=1}^{n-1} 1/i²`. -/
def aN (n : Nat) : α := sumOver (List.range' 1 (n - 1)) (fun i => (1 : α) / ((i : Nat) : α))
def bN (n : Nat) : α := sumOver (List.range' 1 (n - 1)) (fun i => (1 : α) / (((i : Nat) : α) * ((i : Nat) : α)))

/-- segregating sites `S = Σ_{i=1}^{n-1} ξ_i` -/
def pubS (n : Nat) (xi : Nat → α) : α := sumOver (List.range' 1 (n - 1)) xi

/-- Watterson (1975): `θ_W = S / a_n`. -/
def pubThetaW (n : Nat) (xi : Nat → α) : α := pubS n xi / aN n

/-- Tajima (1983): `π = Σ_i i (n - i) ξ_i / C(n, 2)`. -/
def pubPi (n : Nat) (xi : Nat → α) : α :=
  sumOver (List.range' 1 (n - 1)) (fun i => ((i * (n - i) : Nat) : α) * xi i) / ((n * (n - 1) / 2 : Nat) : α)

/-- Tajima (1989): variance of `π - θ_W` is `e1 S + e2 S (S - 1)`. -/
def pubTajimaVar (n : Nat) (s : α) : α :=
  let a1 : α := aN n; let a2 : α := bN n
  let b1 : α := ((n + 1 : Nat) : α) / ((3 * (n - 1) : Nat) : α)
  let b2 : α := ((2 * (n * n + n + 3) : Nat) : α) / ((9 * n * (n - 1) : Nat) : α)
  let c1 : α := b1 - 1 / a1
  let c2 : α := b2 - ((n + 2 : Nat) : α) / (a1 * ((n : Nat) : α)) + a2 / (a1 * a1)
  let e1 : α := c1 / a1
  let e2 : α := c2 / (a1 * a1 + a2)
  e1 * s + e2 * s * (s - 1)

/-- Tajima's D = `(π - θ_W) / sqrt(Var)`. -/
def pubTajimaD (n : Nat) (xi : Nat → α) : DParts α :=
  ⟨pubPi n xi - pubThetaW n xi, pubTajimaVar n (pubS n xi)⟩

/-- Fu and Li (1993): `D = (S - a_n ξ_1) / sqrt(u_D S + v_D S²)`,
    `v_D = 1 + a_n²/(b_n + a_n²) (c_n - (n+1)/(n-1))`, `u_D = a_n - 1 - v_D`, `c_n = 2 (n a_n - 2 (n - 1)) / ((n-1)(n-2))`. -/
def pubFuLiD (n : Nat) (xi : Nat → α) : DParts α :=
  let a : α := aN n; let b : α := bN n
  let s : α := pubS n xi
  let c : α := (((2 : Nat) : α) * (((n : Nat) : α) * a - ((2 * (n - 1) : Nat) : α))) / ((((n - 1) * (n - 2) : Nat)) : α)
  let v : α := 1 + a * a / (b + a * a) * (c - ((n + 1 : Nat) : α) / ((n - 1 : Nat) : α))
  let u : α := a - 1 - v
  ⟨s - a * xi 1, u * s + v * (s * s)⟩

end
/-! ## from a call set to its sites -/

/-- The complete sites of a call set as per-population ALT count vectors (what `create` counts, see `Spec.siteSpec`). -/
def sitesOf (cfg : SiteCfg) (recs : List Rec) : List (List Nat) :=
  recs.filterMap (fun r => match r with
    | .gts _ _ l => match siteSpec cfg l with
      | some (.standard k) => some k
      | _ => none
    | .corrupt _ _ => none)

/-! ## the transformations of C14 -/

section
variable {α : Type} [Add α] [Sub α] [Mul α] [Div α] [NatCast α] [OfNat α 0] [OfNat α 1]

/-- `sfs fold --fill zero`. -/
def foldZero (a : Arr α) : Arr α := ⟨foldSpectrum ((1 : α) / ((2 : Nat) : α)) 0 a.shape a.data, a.shape⟩

/-- replace the two monomorphic entries (all-zero and all-maximum index: first and last in row-major order) -/
def setMono (a : Arr α) (p q : α) : Arr α := ⟨(a.data.set 0 p).set (a.data.length - 1) q, a.shape⟩

/-- swap the two populations of a 2-axis spectrum -/
def swapPops (a : Arr α) : Arr α :=
  let r := a.shape.getD 0 0; let c := a.shape.getD 1 0
  ⟨(List.range c).flatMap (fun j => (List.range r).map (fun i => a.data.getD (i * c + j) 0)), [c, r]⟩

/-- multiply every entry by `c` -/
def scaleBy (c : α) (a : Arr α) : Arr α := ⟨a.data.map (fun x => c * x), a.shape⟩

end

end Sfs.Spec
