/-
Well-formedness predicates for the container round-trip theorems of C12 (byte level): which call sets the plain encoders
of `Model/Container.lean` are specified for. Core Lean only.
-/
import SfsModel.Model.Container
namespace Sfs

/-- bytes -/
def IsBytes (l : List Nat) : Prop := ∀ b ∈ l, b < 256

/-- sample names: non-empty ASCII without tab, newline, carriage return -/
def WfName (s : String) : Prop := s ≠ "" ∧ ∀ c ∈ s.toList, c.toNat < 128 ∧ c ≠ '\t' ∧ c ≠ '\n' ∧ c ≠ '\r'

/-- contig names: non-empty, letters / digits / `_` / `.` -/
def WfContig (s : String) : Prop := s ≠ "" ∧ ∀ c ∈ s.toList, c.isAlphanum = true ∨ c = '_' ∨ c = '.'

def WfGt : GtRes → Prop
  | .genotype k => k ≤ 2
  | _ => True

/-- call sets the encoders are specified for -/
structure WfCallSet (cols contigs : List String) (recs : List (String × Nat × List GtRes)) : Prop where
  cols_ne : cols ≠ []
  cols_wf : ∀ c ∈ cols, WfName c
  cols_nodup : cols.Nodup                 -- a header naming a sample twice is refused by the parser
  contigs_wf : ∀ c ∈ contigs, WfContig c
  contigs_nodup : contigs.Nodup
  recs_wf : ∀ r ∈ recs, r.1 ∈ contigs ∧ 1 ≤ r.2.1 ∧ r.2.2.length = cols.length ∧ ∀ g ∈ r.2.2, WfGt g
  pos_fits : ∀ r ∈ recs, r.2.1 < 2 ^ 64       -- a position beyond the machine word is refused by the parser ("invalid position")

/-- sizes that fit the BCF length fields -/
structure FitsBcf (cols contigs : List String) (recs : List (String × Nat × List GtRes)) : Prop where
  ncols : cols.length < 2 ^ 24
  ncontigs : contigs.length < 2 ^ 31
  text : (headerText cols contigs).length + 1 < 2 ^ 32
  pos : ∀ r ∈ recs, r.2.1 < 2 ^ 31      -- the stored position `pos - 1` stays below `i32::MAX` (at which the reader overflows)

end Sfs
