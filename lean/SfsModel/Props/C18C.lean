/-
C18 (stdout) — what is written to standard output reaches the descriptor or the failure is reported: `write_to_stdout` goes through
stdout's line writer and flushes it (fix 9e7cf6d, defect F35). Property theorems only; the model is `Model/Stdout.lean`.
-/
import SfsModel.Model.Stdout
import SfsModel.Lemmas.StdoutWr
namespace Sfs.C18
open Sfs

/-- stdout_delivers: through a descriptor that never fails — whatever the lengths of its short writes — the flushed writer delivers
    exactly the concatenation of the pieces, for any sequence of `write_all` calls. -/
theorem stdout_delivers (pieces : List (List Nat)) (sched : List Nat) :
    ∃ w', stdoutWrite pieces { sched := sched, failAt := none } = .ok w' ∧ w'.out = pieces.flatten ∧ w'.failAt = none := by
  obtain ⟨w', he, ho, hf⟩ := stdoutWrite_none pieces { sched := sched, failAt := none } rfl
  exact ⟨w', he, by rw [ho]; rfl, hf⟩

/-- stdout_failure_surfaces: if the descriptor fails before every byte is through (at any offset, under any schedule of short
    writes), the flushed writer reports the I/O error — in particular when the failure lies in the tail that the line writer had
    still buffered when the last piece was written. -/
theorem stdout_failure_surfaces (pieces : List (List Nat)) (sched : List Nat) (k : Nat) (hk : k < pieces.flatten.length) :
    stdoutWrite pieces { sched := sched, failAt := some k } = .error .io :=
  stdoutWrite_fail pieces _ k rfl hk

/-- unflushed_tail_is_buffered: bytes without a line feed that fit the buffer do not reach the descriptor at all — which is why,
    without the final flush, a failing descriptor went unnoticed (F35). -/
theorem unflushed_tail_is_buffered (l : LineWr) (b : List Nat) (hnl : 10 ∉ b) (hlast : l.buf.getLast? ≠ some 10)
    (hfit : l.buf.length + b.length ≤ LineWr.cap) (hlt : b.length < LineWr.cap) :
    l.writeAll b = .ok { l with buf := l.buf ++ b } :=
  LineWr.writeAll_buffers l b hnl hlast hfit hlt

/-- The pieces of the stdout model are those of the npy writer … -/
theorem npy_pieces_are_the_writer (shape bits : List Nat) (w : Wr) (ps : List (List Nat)) (h : npyPieces shape bits = some ps) :
    writeNpyWr shape bits w = w.writePieces ps :=
  writeNpyWr_pieces shape bits w ps h

/-- … and of the text writer. -/
theorem text_pieces_are_the_writer (shape bits : List Nat) (p : Nat) (w : Wr) :
    writeTextWr shape bits p w = w.writePieces (textPieces shape bits p) :=
  writeTextWr_pieces shape bits p w

/-! non-vacuity, and the defect itself on a small instance: a line, then a tail of two bytes, the descriptor failing after four bytes —
    flushed: the error; unflushed: "success" with the line only -/
example : stdoutWrite [[1, 2, 10], [7, 8]] { failAt := some 4 } = .error .io ∧
    (∃ w, stdoutWriteUnflushed [[1, 2, 10], [7, 8]] { failAt := some 4 } = .ok w ∧ w.out = [1, 2, 10]) ∧
    (∃ w, stdoutWrite [[1, 2, 10], [7, 8]] { failAt := none } = .ok w ∧ w.out = [1, 2, 10, 7, 8]) :=
  ⟨rfl, ⟨_, rfl, rfl⟩, ⟨_, rfl, rfl⟩⟩

end Sfs.C18
