/-
C03 (extension) — projection commutes with marginalization: projecting every axis and then summing some axes out
equals summing them out first and projecting the remaining axes (because each hypergeometric row sums to one).
This is the relation between `sfs view --project-shape … | sfs view -m …` and `sfs view -m … --project-shape …`.
Property theorems only.
-/
import SfsModel.Props.C03
import SfsModel.Props.C04
import SfsModel.Lemmas.ProjMarg
namespace Sfs.C03
open Sfs

variable {α : Type} [Field α] [CharZero α]

/-- project_marginalize_comm. `toShape` is the target for all axes of `a`; the marginal is projected to the entries of
    `toShape` that belong to the remaining axes. -/
theorem project_marginalize_comm (a : Arr α) (hlen : a.data.length = size a.shape) (axes toShape : List Nat)
    (p pm m mp : Arr α)
    (h1 : project a toShape = .ok p) (h2 : marginalize p axes = .ok pm)
    (h3 : marginalize a axes = .ok m) (h4 : project m (C04.dropAxes axes toShape) = .ok mp) :
    pm = mp := by
  rw [C04.dropAxes_eq_dropIdx] at h4
  exact Sfs.pm_project_marginalize a hlen axes toShape p pm m mp h1 h2 h3 h4

/-! non-vacuity: shape 4x3x5 → project to 2x3x2, marginalize axis 1 -/
example :
    let a : Arr Rat := ⟨(List.range 60).map (fun (n : Nat) => ((n * n % 17 : Nat) : Rat)), [4, 3, 5]⟩
    ((project a [2, 3, 2]).toOption.bind (fun p => (marginalize p [1]).toOption)).map (·.data) =
    ((marginalize a [1]).toOption.bind (fun m => (project m [2, 2]).toOption)).map (·.data) ∧
    ((marginalize a [1]).toOption.bind (fun m => (project m [2, 2]).toOption)).isSome := by
  decide +kernel

end Sfs.C03
