/-
C01 — create counts every complete site once at its per-population ALT index.
Property theorems only. `α` is any field of characteristic zero.
-/
import SfsModel.Model.Create
import SfsModel.Spec.Create
import SfsModel.Lemmas.Create
import Mathlib.Algebra.Field.Basic
import Mathlib.Algebra.CharZero.Defs
namespace Sfs.C01
open Sfs Sfs.Spec

variable {α : Type} [Field α] [CharZero α]

/-- What `buildSite` returns is well formed (given distinct column names in the input header). -/
theorem buildSite_ok (samples : Option (List (String × Pop))) (project : Option (List Nat)) (cols : List String)
    (hnd : cols.Nodup) (cfg : SiteCfg) (h : buildSite samples project cols = .ok cfg) : CfgOk cfg := by
  exact Sfs.buildSite_ok samples project cols hnd cfg h

/-- shape_eq: without projection the output shape is `(2 n_1 + 1, …, 2 n_d + 1)`, `n_j` = number of listed
    samples of population `j`. -/
theorem shape_eq (samples : Option (List (String × Pop))) (cols : List String) (cfg : SiteCfg)
    (h : buildSite samples none cols = .ok cfg) :
    cfg.outShape = (List.range (numPops cfg.map)).map (fun j => 2 * (cfg.map.filter (fun p => p.2 = j)).length + 1) := by
  exact Sfs.buildSite_shape samples cols cfg h

/-- The ALT counts of a well-formed record are a valid index of the output (never the `expect` panic). -/
theorem alt_in_bounds (cfg : SiteCfg) (hc : CfgOk cfg) (hnp : cfg.projectTo = none) (gts : List GtRes)
    (hwf : RecWf cfg (.gts "" 0 gts)) :
    InB cfg.outShape (altCounts (numPops cfg.map) (selected cfg.map cfg.cols gts)) := by
  exact Sfs.alt_in_bounds cfg hc.1 hnp gts hwf.1 hwf.2

/-- run_eq_spec: entry `k` is exactly the number of records at which every selected sample has a complete biallelic
    genotype and population `j` carries `k_j` ALT alleles; nothing else contributes. -/
theorem run_eq_spec (cfg : SiteCfg) (hc : CfgOk cfg) (hnp : cfg.projectTo = none) (recs : List Rec)
    (hwf : ∀ r ∈ recs, RecWf cfg r) (hok : ∀ r ∈ recs, recOk cfg r = true) :
    ∃ scs, createRun (α := α) cfg false recs = .ok (scs, recs.length, (recs.filter (recSkipped cfg)).length) ∧
      scs.length = size cfg.outShape ∧
      ∀ k, InB cfg.outShape k →
        scs.getD (flat cfg.outShape k) 0 =
          (((recs.filter (fun r => match gtsOf r with
              | some l => complete (selected cfg.map cfg.cols l) ∧
                  altCounts (numPops cfg.map) (selected cfg.map cfg.cols l) = k
              | none => false)).length : Nat) : α) := by
  refine ⟨sumContrib cfg recs, createRun_spec cfg hc.2.2.2.2 false recs hok (fun h => by cases h),
    sumContrib_length cfg recs, ?_⟩
  intro k hk
  rw [sumContrib_noproj_getD cfg hc.1 hnp recs hwf hok k hk]
  rfl

/-- unselected_irrelevant: genotypes (even ploidy errors) of samples that were not selected never influence a site. -/
theorem unselected_irrelevant (cfg : SiteCfg) (gts gts' : List GtRes)
    (hl : gts.length = cfg.cols.length) (hl' : gts'.length = cfg.cols.length)
    (h : ∀ i, i < cfg.cols.length → (lookupPop cfg.map (cfg.cols.getD i "")).isSome →
          gts.getD i .ploidyError = gts'.getD i .ploidyError) :
    siteSpec cfg gts = siteSpec cfg gts' := by
  exact siteSpec_congr cfg gts gts' (selected_congr cfg.map cfg.cols gts gts' hl hl' h)

/-- incomplete_contributes_nothing: a record with a selected missing or multiallelic genotype adds nothing. -/
theorem incomplete_contributes_nothing (cfg : SiteCfg) (hnp : cfg.projectTo = none) (gts : List GtRes)
    (h : complete (selected cfg.map cfg.cols gts) = false) (f : Nat) :
    (contrib (α := α) cfg gts).getD f 0 = 0 := by
  apply contribOfSite_zero_getD
  rw [siteSpec_noproj cfg hnp gts, h]
  cases hasPloidyError (selected cfg.map cfg.cols gts) <;> simp

/-- The values are whole numbers: total mass is a count of records, at most the number of records. -/
theorem mass_le_records (cfg : SiteCfg) (hc : CfgOk cfg) (hnp : cfg.projectTo = none) (recs : List Rec)
    (hwf : ∀ r ∈ recs, RecWf cfg r) (hok : ∀ r ∈ recs, recOk cfg r = true) :
    ∃ scs n k, createRun (α := α) cfg false recs = .ok (scs, n, k) ∧
      scs.sum = ((recs.length - k : Nat) : α) ∧ k ≤ recs.length := by
  refine ⟨sumContrib cfg recs, recs.length, (recs.filter (recSkipped cfg)).length,
    createRun_spec cfg hc.2.2.2.2 false recs hok (fun h => by cases h),
    sumContrib_noproj_sum cfg hc.1 hnp recs hwf hok, List.length_filter_le _ _⟩

/-! non-vacuity: 2 populations of unequal size, 3 records, one skipped, an unselected ploidy error -/
example :
    let cfg : SiteCfg := ⟨[("a", 0), ("b", 1), ("c", 0)], ["a", "b", "c", "d"], none⟩
    createRun (α := Rat) cfg false
      [.gts "1" 1 [.genotype 1, .genotype 2, .genotype 0, .ploidyError], .gts "1" 2 [.genotype 1, .skipped .missing, .genotype 0, .genotype 0],
       .gts "1" 3 [.genotype 2, .genotype 0, .genotype 2, .genotype 0]]
      = .ok ([0, 0, 0, 0, 0, 1, 0, 0, 0, 0, 0, 0, 1, 0, 0], 3, 1) := by decide +kernel

end Sfs.C01
