/-
C13 — view = marginalize > project > mask > normalize, equal to chained single steps.
Property theorems only. `α` is any field of characteristic zero.
-/
import SfsModel.Model.Spectrum
import SfsModel.Lemmas.Index
import SfsModel.Lemmas.View
import Mathlib.Algebra.Field.Basic
import Mathlib.Algebra.CharZero.Defs
import Mathlib.Algebra.BigOperators.Group.List.Basic
namespace Sfs.C13
open Sfs

variable {α : Type} [Field α] [CharZero α]

/-- Bind for the view pipeline. -/
def andThen (r : Except ViewErr (Arr α)) (f : Arr α → Except ViewErr (Arr α)) : Except ViewErr (Arr α) :=
  match r with
  | .ok a => f a
  | .error e => .error e

/-- view_eq_chain: a single invocation with any combination of options equals four chained single-option
    invocations in the documented order marginalize > project > mask > normalize (absent options are no-ops). -/
theorem view_eq_chain (o : ViewOpts) (a : Arr α) :
    viewRun o a =
      andThen (andThen (andThen
        (viewRun { remove := o.remove, keep := o.keep } a)
        (viewRun { projectShape := o.projectShape, projectIndividuals := o.projectIndividuals }))
        (viewRun { mask := o.mask }))
        (viewRun { normalize := o.normalize }) := by
  rw [viewRun_eq_stages o a, viewRun_marg]
  cases margStage o.remove o.keep a with
  | error e => rfl
  | ok b =>
    simp only [andThen, viewRun_proj]
    cases projStage o.projectShape o.projectIndividuals b with
    | error e => rfl
    | ok c => simp only [viewRun_mask, viewRun_norm, finStage_split]

/-- `view` without options reproduces its input. -/
theorem view_noop (a : Arr α) : viewRun {} a = .ok a :=
  viewRun_noop a

/-- mask_spec: exactly the first and the last flat entry are zeroed, nothing else. -/
theorem mask_spec (x : List α) (i : Nat) (h : i < x.length) :
    (maskMonomorphic x)[i]? = if i = 0 ∨ i = x.length - 1 then some 0 else x[i]? :=
  maskMonomorphic_getElem? x i h

theorem mask_length (x : List α) : (maskMonomorphic x).length = x.length :=
  maskMonomorphic_length x

/-- The first flat entry is the all-zero index and the last one the all-maximum index. -/
theorem first_last_index (s : List Nat) (h : 0 < size s) :
    unflat s 0 = s.map (fun _ => 0) ∧ unflat s (size s - 1) = s.map (· - 1) :=
  ⟨unflat_zero_map s, unflat_last s h⟩

/-- normalize_spec: for a non-zero total the entries sum to one and all ratios are preserved. -/
theorem normalize_spec (x : List α) (h : x.sum ≠ 0) :
    (normalize x).sum = 1 ∧ (normalize x).length = x.length ∧
      ∀ i j, i < x.length → j < x.length →
        (normalize x).getD i 0 * x.getD j 0 = (normalize x).getD j 0 * x.getD i 0 :=
  ⟨normalize_sum x h, normalize_length x, fun i j _ _ => normalize_ratio x i j⟩

/-- `Spectrum::sum` (left fold) is the list sum. -/
theorem sumList_eq (x : List α) : sumList x = x.sum :=
  sumList_eq_sum x

/-! non-vacuity: 3-axis spectrum, all four options -/
example : (viewRun { remove := some [1], projectShape := some [2, 2], mask := true, normalize := true }
      (⟨(List.range 18).map (fun (n : Nat) => (n : Rat)), [3, 2, 3]⟩ : Arr Rat)).toOption.map (·.data)
    = some [0, (31 : Rat) / 102, (71 : Rat) / 102, 0] := by decide +kernel

end Sfs.C13
