/-
C12 — output depends only on call data, not container, transport, threads or run.  (partial: see DESIGN §8)
Proved here: the detection logic and that the result factors through the decoded call set, with the container codecs as
parameters; nothing in the model mentions thread counts, block layouts, transports or hash iteration order.
Explored (not proved): noodles' multithreaded BGZF reader, OS pipes, hash seeds — by the `c12.same` correspondence runs.
-/
import SfsModel.Model.Detect
import SfsModel.Lemmas.Samples
import SfsModel.Lemmas.IoModel
import SfsModel.Lemmas.Detect
namespace Sfs.C12
open Sfs

/-- detect_magic: gzip ⇔ the stream starts `1f 8b`; inside gzip, BCF ⇔ the payload starts "BCF"; uncompressed BCF ⇔ it
    starts "BCF"; everything else (a VCF starts "##fileformat") is plain VCF. -/
theorem detect_magic (inflate3 : List Nat → Option (List Nat)) (pfx : List Nat) :
    (gzipMagic.isPrefixOf pfx = true → ∀ b, inflate3 pfx = some b →
        detectContainer inflate3 pfx = .ok (if b = bcfMagic then .bcfGz else .vcfGz)) ∧
    (gzipMagic.isPrefixOf pfx = false → bcfMagic.isPrefixOf pfx = true → detectContainer inflate3 pfx = .ok .bcfRaw) ∧
    (gzipMagic.isPrefixOf pfx = false → bcfMagic.isPrefixOf pfx = false → detectContainer inflate3 pfx = .ok .vcf) := by
  exact ⟨fun hg b hb => detectContainer_gz inflate3 pfx b hg hb,
    fun hg hb => detectContainer_bcfRaw inflate3 pfx hg hb,
    fun hg hb => detectContainer_vcf inflate3 pfx hg hb⟩

/-- The prefix used for detection does not depend on how the stream is chunked (no failure injected). -/
theorem prefix_schedule_free (r : Rd) (h0 : r.avail = 0) (hf : r.failAt = none) :
    ∃ r', readPrefix r = .ok (r.data.take 65536, r') := by
  exact readPrefix_schedule_free r (Rd.ok_of_avail_zero r h0 hf)

/-- … and the reader is left right behind the prefix, so that chaining the prefix back in front reproduces the stream. -/
theorem prefix_then_rest (r : Rd) (h0 : r.avail = 0) (hf : r.failAt = none) :
    ∃ r', readPrefix r = .ok (r.data.take 65536, r') ∧ r'.data = r.data.drop 65536 ∧ r'.failAt = none ∧
      r'.avail ≤ r'.data.length := by
  obtain ⟨r', he, hok, hd⟩ := readPrefix_ok_rest r (Rd.ok_of_avail_zero r h0 hf)
  exact ⟨r', he, hd, hok.2, hok.1⟩

/-- create_schedule_free: over any chunk schedule (first chunk of one byte, one byte at a time, …) `sfs create` computes
    what it computes on the whole byte string: detection and decoding see the same bytes. -/
theorem create_schedule_free (inflate3 : List Nat → Option (List Nat)) (decode : Container → List Nat → Option CallSet)
    (a : CreateArgs) (data sched : List Nat) :
    createFromRd inflate3 decode a { data := data, sched := sched, avail := 0, failAt := none } =
      createFromBytes inflate3 decode a data := by
  obtain ⟨r', he, hok, hd⟩ :=
    readPrefix_ok_rest { data := data, sched := sched, avail := 0, failAt := none } (Rd.ok_of_avail_zero _ rfl rfl)
  obtain ⟨r'', he2, _⟩ := Rd.readToEnd_schedule_free (r'.data.length + 1) r' hok (Nat.lt_succ_self _)
  unfold createFromRd createFromBytes
  rw [he]
  dsimp only
  cases detectContainer inflate3 (List.take 65536 data) with
  | error e => rfl
  | ok c =>
    dsimp only
    rw [he2]
    dsimp only
    rw [hd]
    dsimp only
    rw [List.take_append_drop]

/-- Encoders of the four containers, abstractly: what they must satisfy. -/
structure Codec where
  inflate3 : List Nat → Option (List Nat)
  decode : Container → List Nat → Option CallSet
  encode : Container → CallSet → List Nat
  /-- decoding inverts encoding -/
  roundtrip : ∀ c cs, decode c (encode c cs) = some cs
  /-- a plain VCF starts with `##fileformat`, hence neither magic -/
  vcf_magic : ∀ cs, gzipMagic.isPrefixOf ((encode .vcf cs).take 65536) = false ∧ bcfMagic.isPrefixOf ((encode .vcf cs).take 65536) = false
  bcf_magic : ∀ cs, gzipMagic.isPrefixOf ((encode .bcfRaw cs).take 65536) = false ∧ bcfMagic.isPrefixOf ((encode .bcfRaw cs).take 65536) = true
  vcfgz_magic : ∀ cs, gzipMagic.isPrefixOf ((encode .vcfGz cs).take 65536) = true ∧
    ∃ b, inflate3 ((encode .vcfGz cs).take 65536) = some b ∧ b ≠ bcfMagic
  bcfgz_magic : ∀ cs, gzipMagic.isPrefixOf ((encode .bcfGz cs).take 65536) = true ∧
    inflate3 ((encode .bcfGz cs).take 65536) = some bcfMagic

/-- pipeline_factors: for all four containers the result of `sfs create` on the encoded bytes is the pure function
    `createCli` of the call set — identical across containers by construction. -/
theorem pipeline_factors (k : Codec) (a : CreateArgs) (c : Container) (cs : CallSet) :
    createFromBytes k.inflate3 k.decode a (k.encode c cs) = some (createCli a cs.1 cs.2) := by
  apply createFromBytes_of_detect _ _ a _ c cs _ (k.roundtrip c cs)
  cases c with
  | vcf => exact detectContainer_vcf _ _ (k.vcf_magic cs).1 (k.vcf_magic cs).2
  | bcfRaw => exact detectContainer_bcfRaw _ _ (k.bcf_magic cs).1 (k.bcf_magic cs).2
  | bcfGz => exact detectContainer_bcfGz _ _ (k.bcfgz_magic cs).1 (k.bcfgz_magic cs).2
  | vcfGz =>
    obtain ⟨hg, b, hb, hne⟩ := k.vcfgz_magic cs
    exact detectContainer_vcfGz _ _ b hg hb hne

theorem containers_agree (k : Codec) (a : CreateArgs) (c c' : Container) (cs : CallSet) :
    createFromBytes k.inflate3 k.decode a (k.encode c cs) = createFromBytes k.inflate3 k.decode a (k.encode c' cs) := by
  rw [pipeline_factors k a c cs, pipeline_factors k a c' cs]


/-- The same without assuming an encoder exists: whenever detection picks container `c` and the codec of `c` decodes the
    bytes to the call set `cs`, the outcome is `createCli` of `cs` — so two inputs (any containers, any block layout)
    that decode to the same call set give the same stdout, summary and exit status. -/
theorem pipeline_factors_decoded (inflate3 : List Nat → Option (List Nat)) (decode : Container → List Nat → Option CallSet)
    (a : CreateArgs) (bytes : List Nat) (c : Container) (cs : CallSet)
    (hdet : detectContainer inflate3 (bytes.take 65536) = .ok c) (hdec : decode c bytes = some cs) :
    createFromBytes inflate3 decode a bytes = some (createCli a cs.1 cs.2) := by
  simp [createFromBytes, hdet, hdec]

theorem same_calls_same_output (inflate3 : List Nat → Option (List Nat)) (decode : Container → List Nat → Option CallSet)
    (a : CreateArgs) (b b' : List Nat) (c c' : Container) (cs : CallSet)
    (hdet : detectContainer inflate3 (b.take 65536) = .ok c) (hdec : decode c b = some cs)
    (hdet' : detectContainer inflate3 (b'.take 65536) = .ok c') (hdec' : decode c' b' = some cs) :
    createFromBytes inflate3 decode a b = createFromBytes inflate3 decode a b' := by
  rw [pipeline_factors_decoded inflate3 decode a b c cs hdet hdec, pipeline_factors_decoded inflate3 decode a b' c' cs hdet' hdec']

/-- non-vacuity of the hypotheses of `same_calls_same_output`: a toy codec on two different byte strings. -/
example : ∃ (decode : Container → List Nat → Option CallSet) (b b' : List Nat) (cs : CallSet),
    b ≠ b' ∧ detectContainer (fun _ => some bcfMagic) (b.take 65536) = .ok .bcfGz ∧ decode .bcfGz b = some cs ∧
    detectContainer (fun _ => some bcfMagic) (b'.take 65536) = .ok .vcf ∧ decode .vcf b' = some cs :=
  ⟨fun _ _ => some (["s0"], []), [0x1f, 0x8b, 8], [35, 35], (["s0"], []), by decide, rfl, rfl, rfl, rfl⟩

/-- shape_by_lookup: the output shape reads the population sizes only by key; the order in which the sample map (or a
    hash map built from it) is iterated cannot reach the output. -/
theorem shape_by_lookup (m m' : List (String × Nat)) (hp : m.Perm m') :
    numPops m = numPops m' ∧ mapShape m = mapShape m' := by
  exact ⟨numPops_perm hp, mapShape_perm hp⟩

/-! non-vacuity -/
example : (detectContainer (fun _ => some bcfMagic) [0x1f, 0x8b, 8, 4]).toOption = some .bcfGz ∧
    (detectContainer (fun _ => none) [66, 67, 70, 2, 2]).toOption = some .bcfRaw ∧
    (detectContainer (fun _ => none) [35, 35, 102]).toOption = some .vcf := by decide

end Sfs.C12
