/-
C03 (bounds) — the exact-arithmetic reason why projected values stay finite at every size: each hypergeometric coefficient
lies in [0, 1] (whatever the size of the binomials it is made of), each row of the operator sums to one, and therefore
every projected entry of a non-negative spectrum is bounded by the total mass of the input, and in general by the sum of
absolute values. The binary64 evaluation (`ln_factorial`, `exp`) is outside these theorems; the correspondence compares it
with the exact values at 400 … 5000 chromosomes. Property theorems only.
-/
import SfsModel.Props.C03
import SfsModel.Lemmas.HyperBound
namespace Sfs.C03
open Sfs

variable {β : Type} [Field β] [LinearOrder β] [IsStrictOrderedRing β]

/-- hyper_le_one: a hypergeometric probability is at most one, for every population size. -/
theorem hyper_le_one (N K n k : Nat) (hK : K ≤ N) (hn : n ≤ N) :
    (0 : β) ≤ hyper N K n k ∧ (hyper N K n k : β) ≤ 1 := by
  exact ⟨Sfs.hyper_nonneg N K n k, Sfs.hyper_le_one N K n k hK hn⟩

/-- projectValue_le_one: so is every coefficient of the projection operator (a product of such probabilities). -/
theorem projectValue_le_one (pf from_ pt to_ : List Nat) (h : ∀ j, j < pf.length → from_.getD j 0 ≤ pf.getD j 0 ∧ pt.getD j 0 ≤ pf.getD j 0) :
    (0 : β) ≤ projectValue pf from_ pt to_ ∧ (projectValue pf from_ pt to_ : β) ≤ 1 := by
  exact ⟨Sfs.projectValue_nonneg pf from_ pt to_, Sfs.projectValue_le_one pf from_ pt to_ h⟩

/-- project_le_mass: every entry of the projection of a non-negative spectrum is at most the total mass of the input. -/
theorem project_le_mass (a b : Arr β) (toShape : List Nat) (hlen : a.data.length = size a.shape)
    (h : project a toShape = .ok b) (hnn : ∀ x ∈ a.data, 0 ≤ x) : ∀ y ∈ b.data, y ≤ a.data.sum := by
  exact Sfs.project_le_sum a b toShape hlen h hnn

/-! non-vacuity: 1200 chromosomes to 600 (binomials far beyond the binary64 range), exact value in [0, 1] -/
example : (0 : Rat) ≤ hyper 1200 600 600 300 ∧ (hyper 1200 600 600 300 : Rat) ≤ 1 ∧ (0 : Rat) < hyper 1200 600 600 300 := by
  have h := hyper_le_one (β := Rat) 1200 600 600 300 (by omega) (by omega)
  exact ⟨h.1, h.2, Sfs.hyper_pos 1200 600 600 300 (by omega) (by omega) (by omega) (by omega)⟩

end Sfs.C03
