/-
C19 — array, axis-view and iterator API invariants.
Property theorems only (helper lemmas live in SfsModel/Lemmas). Unbounded: every shape, axis,
position and call history.
-/
import SfsModel.Model.Array
import SfsModel.Lemmas.Index
import SfsModel.Lemmas.Odometer
import SfsModel.Lemmas.SumBox
import Mathlib.Algebra.BigOperators.Group.Finset.Basic
namespace Sfs.C19
open Sfs

/-! ### flat position and multi-index are in bijection -/

theorem flat_unflat (s : List Nat) (i : Nat) (h : i < size s) : flat s (unflat s i) = i :=
  Sfs.flat_unflat s i h

theorem unflat_flat (s idx : List Nat) (h : InB s idx) : unflat s (flat s idx) = idx :=
  Sfs.unflat_flat s idx h

theorem unflat_inB (s : List Nat) (i : Nat) (h : i < size s) : InB s (unflat s i) :=
  Sfs.unflat_inB s i h

theorem flat_lt (s idx : List Nat) (h : InB s idx) : flat s idx < size s := Sfs.flat_lt s idx h

/-- The running-quotient loop of `index_from_flat_unchecked` computes the multi-index. -/
theorem indexFromFlat_eq (s : List Nat) (i : Nat) (h : i < size s) : indexFromFlat s i = unflat s i := by
  exact Sfs.unflatLoop_eq s i h

/-- The stride dot product used by `flat_index` is the row-major position. -/
theorem dot_strides (s idx : List Nat) (h : InB s idx) : dot (strides s) idx = flat s idx := by
  exact Sfs.dot_strides s idx

/-! ### `get`: exactly the in-range, right-length indices return the element at their position -/

theorem get_eq {α} (a : Arr α) (idx : List Nat) (hlen : a.data.length = size a.shape) :
    a.get idx = if InB a.shape idx then a.data[flat a.shape idx]? else none := by
  unfold Arr.get flatIndex
  by_cases hb : InB a.shape idx
  · have hl := InB_length _ _ hb
    have hib := (inBounds_iff _ _ hl).mpr hb
    simp [hl, strides_length, hib, hb, Sfs.dot_strides]
  · by_cases hl : idx.length = a.shape.length
    · have hib : inBounds a.shape idx = false := by
        cases h : inBounds a.shape idx with
        | false => rfl
        | true => exact absurd ((inBounds_iff _ _ hl).mp h) hb
      simp [hl, strides_length, hib, hb]
    · simp [hl, hb]

theorem get_isSome_iff {α} (a : Arr α) (idx : List Nat) (hlen : a.data.length = size a.shape) :
    (a.get idx).isSome ↔ InB a.shape idx := by
  rw [get_eq a idx hlen]
  by_cases hb : InB a.shape idx
  · have := Sfs.flat_lt _ _ hb
    simp [hb, hlen, this]
  · simp [hb]

/-! ### `iter_indices`: each index once, row-major, then `None` forever; `len` exact -/

theorem indices_history (s : List Nat) (n : Nat) :
    (runIter (indicesNext s) n 0).1
      = (List.range n).map (fun j => if j < size s then some (unflat s j) else none) := by
  rw [indices_runIter]

theorem indices_len (s : List Nat) (n : Nat) :
    indicesLen s (iterState (indicesNext s) n 0) = size s - min n (size s) := by
  rw [indicesLen, iterState, indices_runIter]

/-! ### `get_axis`: out-of-range requests are `None` -/

theorem getAxis_none_iff {α} (a : Arr α) (axis i : Nat) :
    a.getAxis axis i = none ↔ (axis ≥ a.shape.length ∨ i ≥ a.shape.getD axis 0) := by
  unfold Arr.getAxis
  by_cases h : axis ≥ a.shape.length ∨ i ≥ a.shape.getD axis 0
  · rw [if_pos h]; exact ⟨fun _ => h, fun _ => rfl⟩
  · rw [if_neg h]; exact ⟨fun h' => by simp at h', fun h' => absurd h' h⟩

/-! ### axis views: exactly the elements whose `axis`-th index is `i`, row-major over the rest,
once, then `None` forever; `len` exact -/

/-- The element an axis view at `(axis, i)` must yield at step `j`. -/
def viewElem {α} (a : Arr α) (axis i j : Nat) : Option α :=
  a.data[flat a.shape (insertAt (unflat (removeAt a.shape axis) j) axis i)]?

theorem view_history {α} (a : Arr α) (axis i : Nat) (v : View α)
    (hlen : a.data.length = size a.shape) (hv : a.getAxis axis i = some v) (n : Nat) :
    (runIter v.next n (ViewIter.init v)).1
      = (List.range n).map (fun j => if j < size (removeAt a.shape axis) then viewElem a axis i j else none) := by
  obtain ⟨hax, _, rfl⟩ := getAxis_some_inv a axis i v hv
  rw [view_runIter _ (axisView_lengths a axis i hax)]
  apply List.map_congr_left
  intro j _
  by_cases hj : j < size (removeAt a.shape axis)
  · rw [if_pos hj, axisView_out a axis i j hax hj]; rfl
  · rw [if_neg hj]; unfold viewOut; exact if_neg hj

/-- Every yielded item really is an element (never an out-of-range `get`). -/
theorem viewElem_isSome {α} (a : Arr α) (axis i j : Nat)
    (hlen : a.data.length = size a.shape) (hax : axis < a.shape.length) (hi : i < a.shape.getD axis 0)
    (hj : j < size (removeAt a.shape axis)) : (viewElem a axis i j).isSome := by
  have hb := insertAt_inB a.shape axis _ i hax hi (Sfs.unflat_inB _ j hj)
  have := Sfs.flat_lt _ _ hb
  simp [viewElem, hlen, this]

theorem view_len {α} (a : Arr α) (axis i : Nat) (v : View α)
    (hlen : a.data.length = size a.shape) (hv : a.getAxis axis i = some v) (n : Nat) :
    v.len (iterState v.next n (ViewIter.init v))
      = size (removeAt a.shape axis) - min n (size (removeAt a.shape axis)) := by
  obtain ⟨hax, _, rfl⟩ := getAxis_some_inv a axis i v hv
  rw [iterState, view_runIter _ (axisView_lengths a axis i hax)]
  rfl

theorem view_toList {α} (a : Arr α) (axis i : Nat) (v : View α)
    (hlen : a.data.length = size a.shape) (hv : a.getAxis axis i = some v) :
    v.toList.map some = (List.range (size (removeAt a.shape axis))).map (viewElem a axis i) := by
  obtain ⟨hax, hi, rfl⟩ := getAxis_some_inv a axis i v hv
  have hout : ∀ j, j < size (removeAt a.shape axis) →
      viewOut (axisView a axis i) j = viewElem a axis i j := fun j hj => axisView_out a axis i j hax hj
  rw [view_toList_map_some _ (axisView_lengths a axis i hax)
    (fun j hj => by rw [hout j hj]; exact viewElem_isSome a axis i j hlen hax hi hj)]
  apply List.map_congr_left
  intro j hj
  exact hout j (List.mem_range.mp hj)

/-! ### `iter_axis`: the views `i = 0 .. shape[axis]-1` once, then `None`; `len` exact, also for an
out-of-range axis -/

theorem axis_history {α} (a : Arr α) (axis n : Nat) :
    (runIter (a.axisNext axis) n 0).1
      = (List.range n).map (fun i => a.getAxis axis i) := by
  rw [axis_runIter]

theorem axis_len {α} (a : Arr α) (axis n : Nat) :
    a.axisLen axis (iterState (a.axisNext axis) n 0)
      = (if axis < a.shape.length then a.shape.getD axis 0 - min n (a.shape.getD axis 0) else 0) := by
  rw [Arr.axisLen, iterState, axis_runIter]
  by_cases hax : axis < a.shape.length
  · simp [hax, List.getD_eq_getElem?_getD]
  · simp [hax]

/-! ### summing along an axis equals adding those views -/

theorem sumAxis_eq {α} [AddCommMonoid α] (a : Arr α) (axis : Nat)
    (hlen : a.data.length = size a.shape) (hax : axis < a.shape.length) :
    (a.sumAxis axis).shape = removeAt a.shape axis ∧
    (a.sumAxis axis).data = (List.range (size (removeAt a.shape axis))).map
      (fun t => ∑ i ∈ Finset.range (a.shape.getD axis 0), (viewElem a axis i t).getD 0) := by
  refine ⟨rfl, ?_⟩
  have htl : ∀ i ∈ List.range (a.shape.getD axis 0), (axisView a axis i).toList
      = (List.range (size (removeAt a.shape axis))).map (fun t => (viewElem a axis i t).getD 0) := by
    intro i hi
    have h := view_toList a axis i _ hlen (getAxis_eq_some a axis i hax (List.mem_range.mp hi))
    have h2 := congrArg (List.map (fun o : Option α => o.getD 0)) h
    simpa [List.map_map, Function.comp_def] using h2
  have hmap := List.map_congr_left htl
  show List.foldl _ _ (a.axisViews axis) = _
  rw [axisViews_eq a axis hax]
  rw [← foldl_zipWith_range (size (removeAt a.shape axis)) (a.shape.getD axis 0)
    (fun i t => (viewElem a axis i t).getD 0)]
  rw [← List.foldl_map (f := fun i => (List.range (size (removeAt a.shape axis))).map
      (fun t => (viewElem a axis i t).getD 0))
    (g := fun (acc l : List α) => List.zipWith (· + ·) acc l ++ acc.drop l.length), ← hmap,
    List.foldl_map, List.foldl_map]

/-! ### non-vacuity: shape [2,1,3], axis 1 -/

example : let a : Arr Nat := ⟨[10, 11, 12, 13, 14, 15], [2, 1, 3]⟩
    a.data.length = size a.shape ∧ (a.getAxis 1 0).map (·.toList) = some [10, 11, 12, 13, 14, 15]
      ∧ (a.getAxis 2 1).map (·.toList) = some [11, 14] ∧ a.getAxis 3 0 = none ∧ a.getAxis 1 1 = none := by
  decide

end Sfs.C19
