/-
C10 — every record is counted once or reported skipped; strict mode; no partial output.
Property theorems only. `α` is any field of characteristic zero.
-/
import SfsModel.Model.Create
import SfsModel.Model.Cli
import SfsModel.Spec.Create
import SfsModel.Lemmas.Create
import SfsModel.Lemmas.Hyper
import SfsModel.Lemmas.Conservation
import Mathlib.Algebra.Field.Basic
import Mathlib.Algebra.CharZero.Defs
namespace Sfs.C10
open Sfs Sfs.Spec

variable {α : Type} [Field α] [CharZero α]

/-- Each counted record contributes total weight exactly one (a unit entry, or a product of hypergeometric
    distributions each summing to one). -/
theorem site_weight_one (cfg : SiteCfg) (hc : CfgOk cfg) (gts : List GtRes) (hwf : RecWf cfg (.gts "" 0 gts))
    (s : Site) (h : siteSpec cfg gts = some s) (hs : s ≠ .insufficient) :
    (contrib (α := α) cfg gts).sum = 1 := by
  exact contrib_sum_one cfg hc gts hwf.1 hwf.2 s h hs

/-- conservation: mass of the output + number of skipped sites = number of records read. -/
theorem conservation (cfg : SiteCfg) (hc : CfgOk cfg) (recs : List Rec) (hwf : ∀ r ∈ recs, RecWf cfg r)
    (scs : List α) (n k : Nat) (h : createRun (α := α) cfg false recs = .ok (scs, n, k)) :
    scs.sum + (k : α) = (n : α) ∧ n = recs.length ∧ k ≤ n := by
  obtain ⟨hok, hres⟩ := createRun_ok_inv cfg hc.2.2.2.2 false recs _ h
  simp only [Prod.mk.injEq] at hres
  obtain ⟨rfl, rfl, rfl⟩ := hres
  have hle := List.length_filter_le (recSkipped cfg) recs
  refine ⟨?_, rfl, hle⟩
  rw [sumContrib_sum cfg hc recs hwf hok, ← Nat.cast_add, Nat.sub_add_cancel hle]

/-- The first record, in input order, at which a run must stop: a corrupt record or a ploidy error in a selected
    column always; in strict mode also the first site that would be skipped. -/
def firstStop (cfg : SiteCfg) (strict : Bool) : List Rec → Option RunErr
  | [] => none
  | .corrupt c p :: _ => some (.genotypeError c p)
  | .gts c p l :: rs =>
    match siteSpec cfg l with
    | none => some (.genotypeError c p)
    | some .insufficient => if strict then some (.strict c p) else firstStop cfg strict rs
    | some _ => firstStop cfg strict rs

/-- glue: the definition above is the one the helper library reasons about. -/
theorem firstStop_eq (cfg : SiteCfg) (strict : Bool) : ∀ recs, firstStop cfg strict recs = firstStopL cfg strict recs
  | [] => rfl
  | .corrupt _ _ :: _ => rfl
  | .gts c p l :: rs => by
    simp only [firstStop, firstStopL, firstStop_eq cfg strict rs]
    cases siteSpec cfg l with
    | none => rfl
    | some s => cases s <;> rfl

/-- A run fails exactly with the error of the first stopping record (naming its contig and position). -/
theorem run_error_iff (cfg : SiteCfg) (hc : CfgOk cfg) (strict : Bool) (recs : List Rec) :
    (∀ e, firstStop cfg strict recs = some e → createRun (α := α) cfg strict recs = .error e) ∧
    (firstStop cfg strict recs = none → ∃ r, createRun (α := α) cfg strict recs = .ok r) := by
  rw [firstStop_eq]
  obtain ⟨hA, hB⟩ := createRun_firstStop (α := α) cfg hc.2.2.2.2 strict recs
  exact ⟨hA, fun h => ⟨_, hB h⟩⟩

/-- strict_first: with `--strict` the run fails at the first record in input order that would be skipped (or at an
    earlier genotype error), and otherwise produces exactly the non-strict result, with nothing skipped. -/
theorem strict_first (cfg : SiteCfg) (hc : CfgOk cfg) (recs : List Rec) :
    createRun (α := α) cfg true recs =
      (match firstStop cfg true recs with
       | some e => .error e
       | none => createRun (α := α) cfg false recs) ∧
    (firstStop cfg true recs = none → ∀ scs n k, createRun (α := α) cfg false recs = .ok (scs, n, k) → k = 0) := by
  rw [firstStop_eq]
  refine ⟨?_, ?_⟩
  · cases hf : firstStopL cfg true recs with
    | some e => exact (createRun_firstStop (α := α) cfg hc.2.2.2.2 true recs).1 e hf
    | none => exact (createRun_strict_none (α := α) cfg hc.2.2.2.2 recs hf).1
  · intro hf scs n k h
    rw [(createRun_strict_none (α := α) cfg hc.2.2.2.2 recs hf).2] at h
    simp only [Except.ok.injEq, Prod.mk.injEq] at h
    exact h.2.2.symm

/-- all_or_nothing: the CLI writes a spectrum to stdout iff the run succeeded; a failing run exits non-zero
    with empty stdout. -/
theorem all_or_nothing (a : CreateArgs) (cols : List String) (recs : List Rec) :
    let o := createCli a cols recs
    (o.code = 0 ↔ o.stdout ≠ []) ∧ (o.code ≠ 0 → o.stdout = []) ∧ (o.code = 0 ∨ o.code = 1) := by
  simp only [createCli]
  cases hb : buildSite a.samples a.projectShape cols with
  | error e => simp
  | ok cfg =>
    cases hr : createRun (α := Rat) cfg a.strict recs with
    | error e => simp [hr]
    | ok r =>
      obtain ⟨scs, sites, skipped⟩ := r
      simp [hr, writeText_ne_nil]

/-- summary_line: the skipped/total summary is reported iff something was skipped, and carries the two counters
    of the run. -/
theorem summary_line (a : CreateArgs) (cols : List String) (recs : List Rec) (cfg : SiteCfg)
    (hb : buildSite a.samples a.projectShape cols = .ok cfg) (scs : List Rat) (n k : Nat)
    (h : createRun (α := Rat) cfg a.strict recs = .ok (scs, n, k)) :
    (createCli a cols recs).summary = (if k > 0 then some (k, n) else none) := by
  simp only [createCli, hb, h]

/-! non-vacuity: 5 records, 2 skipped -/
example :
    let cfg : SiteCfg := ⟨[("a", 0), ("b", 0)], ["a", "b"], none⟩
    (createRun (α := Rat) cfg false
      [.gts "1" 1 [.genotype 1, .genotype 2], .gts "1" 2 [.skipped .missing, .genotype 1], .gts "1" 3 [.genotype 0, .genotype 0],
       .gts "2" 1 [.genotype 2, .skipped .multiallelic], .gts "2" 5 [.genotype 1, .genotype 1]]).toOption.map (fun r => (r.1.foldl (· + ·) 0, r.2))
      = some (3, 5, 2) := by decide +kernel

end Sfs.C10
