/-
C16 (truncation / extension) — every strict prefix and every extension of a valid npy file is rejected.
Property theorems only.
-/
import SfsModel.Props.C07Npy
import SfsModel.Lemmas.NpyDamage
namespace Sfs.C16
open Sfs Sfs.C07

/-- prefix_rejected: every strict prefix of a file the npy writer produced is rejected — whether the cut falls inside the
    magic, the version, the header length, the dict, the padding, inside a value or exactly between two values. -/
theorem prefix_rejected (shape bits bytes : List Nat) (hwf : WfSpectrum shape bits)
    (hw : writeNpy shape bits = .ok bytes) (n : Nat) (hn : n < bytes.length) :
    ∃ e, readNpy (bytes.take n) = .error e := by
  obtain ⟨hne, hb, hsz, _⟩ := hwf
  obtain ⟨hd, hh, rfl⟩ := writeNpy_eq_ok shape bits bytes hw
  obtain ⟨L, pad, rfl, hL, _, _, hlt⟩ := npyHeader_layout shape hd hh
  exact readNpy_take_written shape bits hne hb L pad hL hlt hsz n hn

/-- extension_rejected: a valid file followed by any non-empty sequence of extra bytes is rejected (a partial value, or
    more values than the shape declares). -/
theorem extension_rejected (shape bits bytes extra : List Nat) (hwf : WfSpectrum shape bits)
    (hw : writeNpy shape bits = .ok bytes) (hne : extra ≠ []) :
    ∃ e, readNpy (bytes ++ extra) = .error e := by
  obtain ⟨hne', hb, hsz, _⟩ := hwf
  obtain ⟨hd, hh, rfl⟩ := writeNpy_eq_ok shape bits bytes hw
  obtain ⟨L, pad, rfl, hL, _, _, hlt⟩ := npyHeader_layout shape hd hh
  rw [List.append_assoc _ _ extra]
  refine readNpy_written_bad_body shape hne' hb L pad hL hlt bits.length hsz _ ?_
  have : 0 < extra.length := List.length_pos_iff.mpr hne
  rw [List.length_append, flatten_leBytes8_length]; omega

/-- The same through format auto-detection (what `view`, `fold` and `stat` call). -/
theorem damaged_npy_rejected (shape bits bytes : List Nat) (hwf : WfSpectrum shape bits)
    (hw : writeNpy shape bits = .ok bytes) :
    (∀ n, n < bytes.length → ∃ e, readSpectrum (bytes.take n) = .error e) ∧
    (∀ extra, extra ≠ [] → ∃ e, readSpectrum (bytes ++ extra) = .error e) := by
  obtain ⟨t, ht⟩ := writeNpy_magic shape bits bytes hw
  constructor
  · intro n hn
    exact readSpectrum_error_of_readNpy _ (ht ▸ npyMagic_take_head t n) (prefix_rejected shape bits bytes hwf hw n hn)
  · intro extra hne
    exact readSpectrum_error_of_readNpy _ (ht ▸ npyMagic_append_head t extra)
      (extension_rejected shape bits bytes extra hwf hw hne)

/-! non-vacuity: a 2x3 file; its prefix at a value boundary and a one-value extension are both rejected. -/
example : (readNpy (((writeNpy [2, 3] [1, 2, 3, 4, 5, 6]).toOption.getD []).take (128 + 40))).toOption = none ∧
    (readNpy (((writeNpy [2, 3] [1, 2, 3, 4, 5, 6]).toOption.getD []) ++ [0, 0, 0, 0, 0, 0, 0, 0])).toOption = none ∧
    (readNpy ((writeNpy [2, 3] [1, 2, 3, 4, 5, 6]).toOption.getD [])).toOption = some ([2, 3], [1, 2, 3, 4, 5, 6]) := by
  decide +kernel

end Sfs.C16
