/-
C14 (f2 decompositions) — for any 3- or 4-population spectrum, f3 and f4 equal the documented linear combinations of f2
values computed from its two-population marginals. Property theorems only.
-/
import SfsModel.Model.Stat
import SfsModel.Spec.Stat
import SfsModel.Props.C04
import SfsModel.Lemmas.StatDecomp
import Mathlib.Algebra.Field.Basic
import Mathlib.Algebra.CharZero.Defs
namespace Sfs.C14
open Sfs Sfs.Spec

variable {α : Type} [Field α] [CharZero α]

/-- A well-formed spectrum: one value per cell, every population has at least one chromosome. -/
def WfD (a : Arr α) : Prop := a.data.length = size a.shape ∧ ∀ v ∈ a.shape, 2 ≤ v

/-- f3(A; B, C) = ½ (f2(A, B) + f2(A, C) − f2(B, C)), each f2 computed (as `sfs view -m … | sfs stat -s f2` does) on the
    normalised two-population marginal. -/
theorem f3_from_f2 (a : Arr α) (h : WfD a) (h3 : a.shape.length = 3) (hs : sumList a.data ≠ 0) :
    ∃ mAB mAC mBC, marginalize a [2] = .ok mAB ∧ marginalize a [1] = .ok mAC ∧ marginalize a [0] = .ok mBC ∧
      statF3 (normalized a) =
        (statF2 (normalized mAB) + statF2 (normalized mAC) - statF2 (normalized mBC)) / 2 :=
  sd_f3_from_f2 a h.1 h3

/-- f4(A, B; C, D) = ½ (f2(A, D) + f2(B, C) − f2(A, C) − f2(B, D)). -/
theorem f4_from_f2 (a : Arr α) (h : WfD a) (h4 : a.shape.length = 4) (hs : sumList a.data ≠ 0) :
    ∃ mAD mBC mAC mBD, marginalize a [1, 2] = .ok mAD ∧ marginalize a [0, 3] = .ok mBC ∧
      marginalize a [1, 3] = .ok mAC ∧ marginalize a [0, 2] = .ok mBD ∧
      statF4 (normalized a) =
        (statF2 (normalized mAD) + statF2 (normalized mBC) - statF2 (normalized mAC) - statF2 (normalized mBD)) / 2 :=
  sd_f4_from_f2 a h.1 h4

/-! non-vacuity -/
example : (marginalize (⟨(List.range 24).map (fun (n : Nat) => (n : Rat)), [2, 3, 4]⟩ : Arr Rat) [1]).toOption.map (·.shape) = some [2, 4] := by
  decide +kernel

end Sfs.C14
