/-
C11 — a site's contribution is independent of earlier sites (additive, order-free).
Property theorems only. `α` is any field of characteristic zero.
-/
import SfsModel.Model.Create
import SfsModel.Spec.Create
import SfsModel.Lemmas.Create
import Mathlib.Algebra.Field.Basic
import Mathlib.Algebra.CharZero.Defs
namespace Sfs.C11
open Sfs Sfs.Spec

variable {α : Type} [Field α] [CharZero α]

/-- readSite_eq_spec: whatever the buffers hold from earlier records (any counts, totals, skipped list of the right
    length), `read_site` returns the pure function `siteSpec` of the current record: the explicit `reset` works. -/
theorem readSite_eq_spec (cfg : SiteCfg) (hc : CfgOk cfg) (st : SiteSt)
    (h1 : st.counts.length = numPops cfg.map) (h2 : st.totals.length = numPops cfg.map) (gts : List GtRes) :
    (readSite cfg st gts).1 = siteSpec cfg gts := by
  exact Sfs.readSite_eq_spec cfg hc.2.2.2.2 st h1 h2 gts

/-- The buffers keep their length, so the invariant holds along the whole run. -/
theorem readSite_lengths (cfg : SiteCfg) (st : SiteSt) (gts : List GtRes) :
    (readSite cfg st gts).2.counts.length = st.counts.length ∧ (readSite cfg st gts).2.totals.length = st.totals.length := by
  exact Sfs.readSite_lengths cfg st gts

/-- readSite_stateless: no state of one record leaks into the next. -/
theorem readSite_stateless (cfg : SiteCfg) (hc : CfgOk cfg) (st st' : SiteSt)
    (h1 : st.counts.length = numPops cfg.map) (h2 : st.totals.length = numPops cfg.map)
    (h1' : st'.counts.length = numPops cfg.map) (h2' : st'.totals.length = numPops cfg.map) (gts : List GtRes) :
    (readSite cfg st gts).1 = (readSite cfg st' gts).1 := by
  rw [Sfs.readSite_eq_spec cfg hc.2.2.2.2 st h1 h2 gts, Sfs.readSite_eq_spec cfg hc.2.2.2.2 st' h1' h2' gts]

/-- run_eq_sum: when every record is digestible, the created spectrum is the entrywise sum of the per-record
    contributions, every record is counted as a site, and the skipped counter counts the insufficient ones.
    (The projection scratch buffer is re-zeroed per record: `projectIter` starts from zeros.) -/
theorem run_eq_sum (cfg : SiteCfg) (hc : CfgOk cfg) (recs : List Rec)
    (hwf : ∀ r ∈ recs, RecWf cfg r) (hok : ∀ r ∈ recs, recOk cfg r = true) :
    createRun (α := α) cfg false recs
      = .ok (sumContrib cfg recs, recs.length, (recs.filter (recSkipped cfg)).length) := by
  exact createRun_spec cfg hc.2.2.2.2 false recs hok (fun h => by cases h)

/-- run_append: concatenation of record streams = element-wise sum of the parts. -/
theorem run_append (cfg : SiteCfg) (hc : CfgOk cfg) (a b : List Rec)
    (hwf : ∀ r ∈ a ++ b, RecWf cfg r) (hok : ∀ r ∈ a ++ b, recOk cfg r = true) :
    ∃ sa sb na nb ka kb,
      createRun (α := α) cfg false a = .ok (sa, na, ka) ∧ createRun (α := α) cfg false b = .ok (sb, nb, kb) ∧
      createRun (α := α) cfg false (a ++ b) = .ok (List.zipWith (· + ·) sa sb, na + nb, ka + kb) := by
  have ha := createRun_spec (α := α) cfg hc.2.2.2.2 false a (fun r hr => hok r (by simp [hr])) (fun h => by cases h)
  have hb := createRun_spec (α := α) cfg hc.2.2.2.2 false b (fun r hr => hok r (by simp [hr])) (fun h => by cases h)
  have hab := createRun_spec (α := α) cfg hc.2.2.2.2 false (a ++ b) hok (fun h => by cases h)
  refine ⟨_, _, _, _, _, _, ha, hb, ?_⟩
  rw [hab, sumContrib_append, List.length_append, List.filter_append, List.length_append]

/-- run_perm: any permutation of the records yields the same spectrum (exact in a field; in floating point up to
    summation order when projecting). -/
theorem run_perm (cfg : SiteCfg) (hc : CfgOk cfg) (a b : List Rec) (hp : a.Perm b)
    (hwf : ∀ r ∈ a, RecWf cfg r) (hok : ∀ r ∈ a, recOk cfg r = true) :
    createRun (α := α) cfg false a = createRun (α := α) cfg false b := by
  have ha := createRun_spec (α := α) cfg hc.2.2.2.2 false a hok (fun h => by cases h)
  have hb := createRun_spec (α := α) cfg hc.2.2.2.2 false b (fun r hr => hok r (hp.mem_iff.mpr hr)) (fun h => by cases h)
  rw [ha, hb, sumContrib_perm cfg a b hp, hp.length_eq, (hp.filter _).length_eq]

/-! non-vacuity: complete → partially missing → exactly sufficient → insufficient, with projection to (2,2) -/
example :
    let cfg : SiteCfg := ⟨[("a", 0), ("b", 1), ("c", 0)], ["a", "b", "c"], some [2, 2]⟩
    (createRun (α := Rat) cfg false
      [.gts "1" 1 [.genotype 1, .genotype 2, .genotype 0], .gts "1" 2 [.genotype 1, .genotype 1, .skipped .missing],
       .gts "1" 3 [.skipped .missing, .genotype 0, .genotype 2], .gts "1" 4 [.genotype 1, .skipped .multiallelic, .genotype 1]]).toOption.map
        (fun r => (r.2.1, r.2.2)) = some (4, 1) := by decide +kernel

end Sfs.C11
