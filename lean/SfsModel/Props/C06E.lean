/-
C06 (end to end) — `sfs create | sfs stat`: the spectrum travels from `create` to `stat` as text at precision 0. What
`stat` reads is exactly what `create` counted (integers below 2^53 survive `{:.0}` + `f64::from_str` bit for bit), so the
genotype-level theorems of `C06G` apply to the piped spectrum. Property theorems only.
-/
import SfsModel.Model.Cli
import SfsModel.Props.C07
import SfsModel.Props.C01
import SfsModel.Lemmas.IntText
namespace Sfs.C06
open Sfs Sfs.Spec

/-- A count below 2^53 is a binary64 value: its pattern decodes to the integer itself. -/
theorem count_is_exact (n : Nat) (hn : n < 2 ^ 53) : f64OfBits (f64BitsOfRat (n : Rat)) = .fin (n : Rat) := by
  exact it_value n hn

/-- … it is printed at precision 0 as its decimal digits … -/
theorem count_prints_as_integer (n : Nat) (hn : n < 2 ^ 53) : fmtFixed (f64BitsOfRat (n : Rat)) 0 = Nat.toDigits 10 n := by
  exact it_prints n hn

/-- … and read back to the same bit pattern. -/
theorem count_text_roundtrip (n : Nat) (hn : n < 2 ^ 53) :
    parseF64 (fmtFixed (f64BitsOfRat (n : Rat)) 0) = some (f64BitsOfRat (n : Rat)) := by
  exact it_roundtrip n hn

/-- create_stdout_reads_back: for a spectrum of counts (what `create` produces without projection, `C01.run_eq_spec`)
    the text `create` prints is read by `view` / `fold` / `stat` (auto-detected) as exactly that spectrum. -/
theorem create_stdout_reads_back (shape : List Nat) (counts : List Nat) (hne : shape ≠ [])
    (hb : ∀ v ∈ shape, v < 2 ^ 64) (hsz : checkedSize shape = some counts.length) (hc : ∀ c ∈ counts, c < 2 ^ 53) :
    readSpectrum (asciiBytes (writeText shape (counts.map (fun (c : Nat) => f64BitsOfRat (c : Rat))) 0)) =
      .ok (shape, counts.map (fun (c : Nat) => f64BitsOfRat (c : Rat))) := by
  have hwf : C07.WfSpectrum shape (counts.map (fun (c : Nat) => f64BitsOfRat (c : Rat))) := by
    refine ⟨hne, hb, by rw [List.length_map]; exact hsz, ?_⟩
    intro b hb'
    obtain ⟨c, hc', rfl⟩ := List.mem_map.1 hb'
    exact Nat.lt_trans (it_bits_lt c (hc c hc')) (by decide)
  obtain ⟨bits', hr, hm⟩ := C07.reads_what_it_writes_text shape _ 0 hwf
  have : bits' = counts.map (fun (c : Nat) => f64BitsOfRat (c : Rat)) := by
    apply it_map_some_inj
    rw [hm, List.map_map, List.map_map]
    apply List.map_congr_left
    intro c hc'
    exact count_text_roundtrip c (hc c hc')
  rw [hr, this]

/-! non-vacuity -/
example : (readSpectrum (asciiBytes (writeText [2, 3] ([4, 0, 17, 1, 9007199254740991, 2].map (fun (c : Nat) => f64BitsOfRat (c : Rat))) 0))).toOption
    = some ([2, 3], [4, 0, 17, 1, 9007199254740991, 2].map (fun (c : Nat) => f64BitsOfRat (c : Rat))) := by
  decide +kernel

end Sfs.C06
