/-
C05 — folding is mass-preserving, idempotent and symmetric under allele polarity.
Property theorems only. `α` is any field of characteristic zero (the driver runs the same definitions at `Rat`);
`half` is instantiated by `1/2`.
-/
import SfsModel.Model.Spectrum
import SfsModel.Lemmas.Index
import SfsModel.Lemmas.Fold
import Mathlib.Algebra.Field.Basic
import Mathlib.Algebra.CharZero.Defs
import Mathlib.Algebra.BigOperators.Group.Finset.Basic
namespace Sfs.C05
open Sfs

variable {α : Type} [Field α] [CharZero α]

/-- The code's running-quotient loop computes the index sum (total ALT count) of the entry. -/
theorem indexSumFromFlat_eq (shape : List Nat) (i : Nat) (h : i < size shape) :
    indexSumFromFlat shape i = (unflat shape i).sum :=
  indexSumFromFlat_eq_sum shape i h

/-- The code's flat partner `n - 1 - i` is the mirror entry (every `k_j ↦ n_j - k_j`). -/
theorem rev_is_mirror (shape : List Nat) (i : Nat) (h : i < size shape) :
    size shape - 1 - i = flat shape (mirror shape (unflat shape i)) :=
  rev_eq_flat_mirror shape i h

/-- fold_spec: with `T = Σ (len_j - 1)` the maximal total and `s` the entry's total:
    below half → itself plus mirror; on the `2s = T` diagonal → average of the pair; above → fill.
    Holds for every shape (odd sizes, length-1 axes, mixed dimensions). -/
theorem fold_spec (fill : α) (shape : List Nat) (x : List α) (hlen : x.length = size shape)
    (i : Nat) (h : i < size shape) :
    let k := unflat shape i
    let s := k.sum
    let T := shape.sum - shape.length
    let m := flat shape (mirror shape k)
    (foldSpectrum (1/2 : α) fill shape x)[i]? =
      some (if 2 * s < T then x.getD i 0 + x.getD m 0
            else if 2 * s = T then (x.getD i 0 + x.getD m 0) / 2
            else fill) := by
  intro k s T m
  rw [foldSpectrum_getElem? _ _ _ _ i h, foldCell_if, indexSumFromFlat_eq_sum shape i h,
    rev_eq_flat_mirror shape i h]

theorem fold_length (fill : α) (shape : List Nat) (x : List α) :
    (foldSpectrum (1/2 : α) fill shape x).length = size shape :=
  foldSpectrum_length _ _ _ _

/-- With fill 0 the total mass is preserved. -/
theorem fold_mass (shape : List Nat) (x : List α) (hlen : x.length = size shape) :
    (foldSpectrum (1/2 : α) 0 shape x).sum = x.sum :=
  foldSpectrum_mass shape x hlen

/-- With fill 0 folding twice equals folding once. -/
theorem fold_idem (shape : List Nat) (x : List α) (hlen : x.length = size shape) :
    foldSpectrum (1/2 : α) 0 shape (foldSpectrum (1/2 : α) 0 shape x) = foldSpectrum (1/2 : α) 0 shape x :=
  foldSpectrum_idem shape x

/-- Mirroring the input (swapping reference and alternate allele = reversing the flat data, by
    `rev_is_mirror`) does not change the folded spectrum, for every fill value. -/
theorem fold_polarity (fill : α) (shape : List Nat) (x : List α) (hlen : x.length = size shape) :
    foldSpectrum (1/2 : α) fill shape x.reverse = foldSpectrum (1/2 : α) fill shape x :=
  foldSpectrum_reverse fill shape x hlen

/-- The mirrored spectrum is the reversed data: entry at `k` of `x.reverse` is entry at `mirror k` of `x`. -/
theorem reverse_is_mirror (shape : List Nat) (x : List α) (hlen : x.length = size shape)
    (i : Nat) (h : i < size shape) :
    x.reverse[i]? = x[flat shape (mirror shape (unflat shape i))]? := by
  rw [← rev_eq_flat_mirror shape i h, List.getElem?_reverse (by omega), hlen]

/-! non-vacuity: shape [2,3,2], a non-symmetric, non-ramp vector -/
example : foldSpectrum (1/2 : Rat) 0 [2,3,2] [5,1,0,2,7,3,1,1,4,0,2,9]
    = [14, 3, 0, 3, 4, 0, 4, 4, 3, 0, 0, 0] := by decide +kernel

end Sfs.C05
