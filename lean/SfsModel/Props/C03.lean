/-
C03 — projection is exact hypergeometric down-sampling at every size; its laws hold.
Property theorems only. `α` is any field of characteristic zero (ordered where non-negativity is stated).
-/
import SfsModel.Model.Spectrum
import SfsModel.Lemmas.Index
import SfsModel.Lemmas.SumBox
import SfsModel.Lemmas.Hyper
import Mathlib.Algebra.Field.Basic
import Mathlib.Algebra.CharZero.Defs
import Mathlib.Algebra.Order.Field.Basic
import Mathlib.Algebra.BigOperators.Group.Finset.Basic
import Mathlib.Data.Nat.Choose.Basic
namespace Sfs.C03
open Sfs

variable {α : Type} [Field α] [CharZero α]

/-- The linear-time binomial of the executable model is the binomial coefficient. -/
theorem chooseFast_eq (n k : Nat) : chooseFast n k = Nat.choose n k := by
  exact Sfs.chooseFast_eq n k

/-- The model's pmf is the hypergeometric pmf `C(K,k) C(N-K,n-k) / C(N,n)` on `k ≤ n` and zero beyond. -/
theorem hyper_eq (N K n k : Nat) :
    (hyper N K n k : α) =
      if k ≤ n then ((Nat.choose K k * Nat.choose (N - K) (n - k) : Nat) : α) / ((Nat.choose N n : Nat) : α) else 0 := by
  exact Sfs.hyper_eq N K n k

/-- Vandermonde: the pmf sums to one over `k = 0..n`. -/
theorem hyper_sum_one (N K n : Nat) (hK : K ≤ N) (hn : n ≤ N) :
    ∑ k ∈ Finset.range (n + 1), (hyper N K n k : α) = 1 := by
  exact Sfs.hyper_sum_one N K n hK hn

/-- Down-sampling to the same size is the identity kernel. -/
theorem hyper_full (N K k : Nat) (hK : K ≤ N) :
    (hyper N K N k : α) = if k = K then 1 else 0 := by
  exact Sfs.hyper_full N K k hK

/-- The coefficient of the projection operator: product over axes of the pmfs. -/
def coeff (fromShape toShape : List Nat) (f t : Nat) : α :=
  projectValue (fromShape.map (· - 1)) (unflat fromShape f) (toShape.map (· - 1)) (unflat toShape t)

/-- `projectValue` is the product of the per-axis pmfs. -/
theorem projectValue_cons (n k m t : Nat) (ns ks ms ts : List Nat) :
    (projectValue (n :: ns) (k :: ks) (m :: ms) (t :: ts) : α) = hyper n k m t * projectValue ns ks ms ts := by
  rfl

/-- project_eq_spec: the code (odometer over the target with a reused buffer, accumulation weighted by the source entry)
    computes `y[t] = Σ_f x[f] · Π_j Hypergeom(t_j; n_j, f_j, m_j)` for every number of axes. -/
theorem project_eq_spec (a b : Arr α) (toShape : List Nat) (hlen : a.data.length = size a.shape)
    (h : project a toShape = .ok b) :
    b.shape = toShape ∧
    b.data = (List.range (size toShape)).map (fun t =>
      ∑ f ∈ Finset.range (size a.shape), a.data.getD f 0 * coeff a.shape toShape f t) := by
  obtain ⟨_, hs, hd⟩ := Sfs.project_spec a b toShape hlen h
  exact ⟨hs, hd⟩

/-- The projection iterator yields exactly one value per target entry, in row-major order. -/
theorem projectIter_eq (pf from_ pt : List Nat) (hl : from_.length = pt.length) (hl' : pf.length = pt.length) :
    (projectIter pf from_ pt : List α)
      = (List.range (size (pt.map (· + 1)))).map (fun t => projectValue pf from_ pt (unflat (pt.map (· + 1)) t)) := by
  exact Sfs.projectIter_eq pf from_ pt

/-- Validation: the projection succeeds exactly for targets of the same dimensionality, with no zero-length axis on
    either side and no axis larger than the source. -/
theorem project_ok_iff (a : Arr α) (toShape : List Nat) :
    (∃ b, project a toShape = .ok b) ↔
      (a.shape.length = toShape.length ∧ (∀ v ∈ a.shape, 0 < v) ∧ (∀ v ∈ toShape, 0 < v) ∧
        ∀ j, j < toShape.length → toShape.getD j 0 ≤ a.shape.getD j 0) := by
  exact Sfs.project_isOk_iff a toShape

theorem zero_is_error (a : Arr α) (toShape : List Nat) (h : 0 ∈ a.shape ∨ 0 ∈ toShape) :
    project a toShape = .error .zero := by
  exact project_of_error a toShape _ (projectionNew_zero a.shape toShape h)

theorem dimension_is_error (a : Arr α) (toShape : List Nat) (h0 : 0 ∉ a.shape) (h1 : 0 ∉ toShape)
    (hd : a.shape.length ≠ toShape.length) (hne : a.shape ≠ []) :
    project a toShape = .error (.unequalDimensions a.shape.length toShape.length) := by
  exact project_of_error a toShape _ (projectionNew_dimension a.shape toShape h0 h1 hd hne)

theorem larger_is_error (a : Arr α) (toShape : List Nat) (h0 : 0 ∉ a.shape) (h1 : 0 ∉ toShape)
    (hd : a.shape.length = toShape.length) (j : Nat) (hj : j < toShape.length)
    (hlt : a.shape.getD j 0 < toShape.getD j 0) (hfirst : ∀ i, i < j → toShape.getD i 0 ≤ a.shape.getD i 0) :
    project a toShape = .error (.invalidProjection j (a.shape.getD j 0 - 1) (toShape.getD j 0 - 1)) := by
  exact project_of_error a toShape _ (projectionNew_larger a.shape toShape h0 h1 hd j hj hlt hfirst)

/-- Total mass is preserved. -/
theorem project_mass (a b : Arr α) (toShape : List Nat) (hlen : a.data.length = size a.shape)
    (h : project a toShape = .ok b) : b.data.sum = a.data.sum := by
  exact Sfs.project_sum a b toShape hlen h

/-- Projecting to the same shape is the identity. -/
theorem project_id (a : Arr α) (hlen : a.data.length = size a.shape) (hpos : ∀ v ∈ a.shape, 0 < v) :
    project a a.shape = .ok a := by
  exact Sfs.project_self a hlen hpos

/-- Non-negativity is preserved (ordered field). -/
theorem project_nonneg {β : Type} [Field β] [LinearOrder β] [IsStrictOrderedRing β]
    (a b : Arr β) (toShape : List Nat) (hlen : a.data.length = size a.shape)
    (h : project a toShape = .ok b) (hnn : ∀ x ∈ a.data, 0 ≤ x) : ∀ y ∈ b.data, 0 ≤ y := by
  exact Sfs.project_nonneg a b toShape hlen h hnn

/-- ext: two-step down-sampling equals direct down-sampling (per axis). -/
theorem hyper_compose (N K n m k : Nat) (hK : K ≤ N) (hn : n ≤ N) (hm : m ≤ n) :
    ∑ j ∈ Finset.range (n + 1), (hyper N K n j : α) * hyper n j m k = hyper N K m k := by
  exact Sfs.hyper_compose N K n m k hK hn hm

/-- ext: projecting in two steps equals projecting directly. -/
theorem project_project (a b c d : Arr α) (mid toShape : List Nat) (hlen : a.data.length = size a.shape)
    (h1 : project a mid = .ok b) (h2 : project b toShape = .ok c) (h3 : project a toShape = .ok d) : c = d := by
  exact Sfs.project_twice a b c d mid toShape hlen h1 h2 h3

/-! non-vacuity: the 7 -> 3 ramp of the test-suite, exactly -/
example : (project (⟨[0, 1, 2, 3, 4, 5, 6, 7], [8]⟩ : Arr Rat) [4]).toOption.map (·.data)
    = some [(8 : Rat) / 5, (26 : Rat) / 5, (44 : Rat) / 5, (62 : Rat) / 5] := by
  decide +kernel

end Sfs.C03
