/-
C15 — npy output conforms to NPY 1.0; every supported numpy dtype is read exactly.
The property theorems live in `Props/C15Write.lean`, `Props/C15Grammar.lean` and `Props/C15Read.lean` (namespace `Sfs.C15`).
-/
import SfsModel.Props.C15Write
import SfsModel.Props.C15Grammar
import SfsModel.Props.C15Read
