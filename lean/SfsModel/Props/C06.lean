/-
C06 — statistics equal their definitions on genotypes and the published estimators.
The property theorems live in `Props/C06G.lean` (genotype level) and `Props/C06P.lean` (estimator formulas), namespace `Sfs.C06`.
-/
import SfsModel.Props.C06G
import SfsModel.Props.C06P
