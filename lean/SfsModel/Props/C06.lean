/-
C06 — statistics equal their definitions on genotypes and the published estimators.
The property theorems live in `Props/C06G.lean` (genotype level), `Props/C06P.lean` (estimator formulas) and
`Props/C06E.lean` (the spectrum survives the text pipe between `create` and `stat` exactly), namespace `Sfs.C06`.
-/
import SfsModel.Props.C06G
import SfsModel.Props.C06P
import SfsModel.Props.C06E
