/-
C07 (text half) — spectrum files round-trip through the plain text format; the tool reads what it writes.
Property theorems only.
-/
import SfsModel.Props.C07Npy
import SfsModel.Lemmas.TextRoundtrip
import SfsModel.Lemmas.TextValue
namespace Sfs.C07
open Sfs

/-- text_header_roundtrip. -/
theorem text_header_roundtrip (shape : List Nat) (hne : shape ≠ []) (hb : ∀ v ∈ shape, v < 2 ^ 64) :
    parseTextHeader (textHeader shape) = some shape := by
  exact parseTextHeader_textHeader shape hne hb

/-- A printed value never contains whitespace and is never empty, so … -/
theorem fmtFixed_token (b p : Nat) : fmtFixed b p ≠ [] ∧ ∀ c ∈ fmtFixed b p, isAsciiWs c = false := by
  exact fmtFixed_tok b p

/-- text_shape_tokens: … the reader splits the value line back into exactly one token per entry, in order. -/
theorem text_shape_tokens (shape bits : List Nat) (p : Nat) :
    ∃ line : List Char, writeText shape bits p = textHeader shape ++ ['\n'] ++ line ++ ['\n'] ∧
      splitWs (line ++ ['\n']) = bits.map (fun b => fmtFixed b p) := by
  exact writeText_tokens shape bits p (fun b => fmtFixed_tok b p)

/-- The number `fmtRatFixed` prints: `m / 10^p` with `m` the half-even rounding of `q·10^p`. -/
def roundedScaled (q : Rat) (p : Nat) : Nat :=
  let scaled := q.num.natAbs * 10 ^ p
  let qf := scaled / q.den
  let r := scaled % q.den
  if 2 * r > q.den then qf + 1 else if 2 * r < q.den then qf else (if qf % 2 = 1 then qf + 1 else qf)

/-- fmtFixed_error: the printed decimal is within half a unit of the p-th decimal of the exact value. -/
theorem fmtFixed_error (q : Rat) (hq : 0 ≤ q) (p : Nat) :
    absRat ((roundedScaled q p : Rat) / ((10 ^ p : Nat) : Rat) - q) ≤ 1 / (2 * ((10 ^ p : Nat) : Rat)) := by
  exact roundHE_error q hq p

/-- … and the printed characters spell exactly that number in the grammar the reader parses. -/
theorem fmtRatFixed_parses (q : Rat) (hq : 0 ≤ q) (p : Nat) :
    ∃ ip fp, splitDecimal (fmtRatFixed q p) = some (ip, fp, 0) ∧ fp.length = p ∧
      digitsVal (ip ++ fp) = roundedScaled q p := by
  have _ := hq
  exact splitDecimal_fmtScaled (roundedScaled q p) p

/-- text_value_roundtrip: re-reading a printed finite value yields the binary64 nearest to the printed decimal
    (sign kept), hence within `½·10^-p` (print) plus the rounding of the reader of the original. -/
theorem text_value_roundtrip (b p : Nat) (q : Rat) (hb : b < 2 ^ 64) (hf : f64OfBits b = .fin q) :
    parseF64 (fmtFixed b p) =
      some ((if f64Sign b then 2 ^ 63 else 0) +
        f64BitsOfRatNonneg ((roundedScaled (absRat q) p : Rat) / ((10 ^ p : Nat) : Rat))) := by
  have _ := hb
  exact parseF64_fmtFixed_fin b p q hf

/-- Special values survive the text format as classes. -/
theorem text_special_roundtrip (b p : Nat) :
    (f64OfBits b = .nan → ∃ b', parseF64 (fmtFixed b p) = some b' ∧ f64OfBits b' = .nan) ∧
    (∀ s, f64OfBits b = .inf s → ∃ b', parseF64 (fmtFixed b p) = some b' ∧ f64OfBits b' = .inf s) := by
  constructor
  · intro h
    rw [fmtFixed_nan b p h]
    exact ⟨_, parseF64_NaN, f64OfBits_qnan⟩
  · intro s h
    rw [fmtFixed_inf b p s h]
    cases s
    · exact ⟨_, parseF64_inf, f64OfBits_pinf⟩
    · exact ⟨_, parseF64_neg_inf, f64OfBits_ninf⟩

/-- The literal reading "the re-read double is within half a unit" is unattainable by any correct reader:
    at x = 0.75, p = 1 the printed "0.8" is not a double and the nearest double exceeds the bound. -/
theorem literal_bound_witness :
    fmtFixed 0x3fe8000000000000 1 = "0.8".toList ∧ parseF64 "0.8".toList = some 0x3fe999999999999a ∧
    (match f64OfBits 0x3fe999999999999a with
     | .fin y => decide (y - 3 / 4 > 1 / 20)
     | _ => false) = true := by
  decide +kernel

theorem detect_text (shape bits : List Nat) (p : Nat) :
    detectFormat (asciiBytes (writeText shape bits p)) = some .text := by
  unfold writeText textHeader
  simp only [List.append_assoc]
  exact detectFormat_text _


/-- The tool reads what it writes (text): same shape, every value re-read from its printed token. -/
theorem reads_what_it_writes_text (shape bits : List Nat) (p : Nat) (hwf : WfSpectrum shape bits) :
    ∃ bits', readSpectrum (asciiBytes (writeText shape bits p)) = .ok (shape, bits') ∧
      bits'.map some = bits.map (fun b => parseF64 (fmtFixed b p)) := by
  obtain ⟨hne, hb, hcs, _⟩ := hwf
  obtain ⟨bits', hr, hm⟩ := readText_writeText shape bits p hne hb hcs
  refine ⟨bits', ?_, hm⟩
  unfold readSpectrum
  rw [detect_text shape bits p]
  exact hr

end Sfs.C07
