/-
C17 — every invocation ends in success or a diagnosed error, never a panic.  (partial: see DESIGN §8)
In Rust the panics of sfs's own code can only come from slice / array indexing, `usize` subtraction and multiplication
(overflow checks are on in the profile the test suite runs), `unwrap` / `expect`, and formatting with an out-of-range
precision. The Lean model is total, so "no panic" is stated here operation by operation: for every such partial
operation in the transcribed code, the precondition it needs (index in range, minuend ≥ subtrahend, product below
2^64, `Some`) follows — for every shape and every input — from the validation the code performs before it.
Third-party parsing (noodles, clap, nom, flate2) is explored by the `pn.*` correspondence runs, not proved.
Property theorems only.
-/
import SfsModel.Model.Stat
import SfsModel.Model.Npy
import SfsModel.Model.Create
import SfsModel.Model.SpecCli
import SfsModel.Props.C19
import SfsModel.Lemmas.Guards
namespace Sfs.C17
open Sfs

/-! ## shapes: no `usize` overflow once `Array::new` accepted the shape (fixes 3fdf991, 004eece) -/

/-- products_fit: every product of a contiguous range of axis lengths — `Shape::elements`, every stride, the running
    quotient of `index_from_flat`, the shapes of axis views — fits 64 bits. -/
theorem products_fit (s : List Nat) (n : Nat) (h : checkedSize s = some n) (i j : Nat) :
    size ((s.drop i).take j) < 2 ^ 64 := by
  exact gd_products_fit s n h i j

theorem strides_fit (s : List Nat) (n : Nat) (h : checkedSize s = some n) : ∀ v ∈ strides s, v < 2 ^ 64 := by
  exact gd_strides_fit s n h

/-- The absurd declared shapes of the property are rejected by `Array::new`, not multiplied out. -/
theorem absurd_shapes_rejected :
    checkedSize [4294967296, 4294967296] = none ∧ checkedSize [0, 4294967296, 4294967296] = none ∧
    checkedSize [4294967296, 4294967296, 0] = none ∧ checkedSize [18446744073709551615, 2] = none := by
  decide

/-! ## indexing: a spectrum is only ever read at positions below its length -/

/-- `Index<[usize]>` / `flat_index`: in bounds ⇒ below the data length (the `expect` in `Index::index` cannot fire for
    the indices the statistics use, below). -/
theorem flat_index_in_range {α} (a : Arr α) (hlen : a.data.length = size a.shape) (idx : List Nat) (h : InB a.shape idx) :
    flat a.shape idx < a.data.length := by
  rw [hlen]; exact flat_lt a.shape idx h

/-- the cells `PiXY::from_spectrum_unchecked` visits (after `take(elements - 1).skip(1)`) -/
def pixyCells (shape : List Nat) (len : Nat) : List (Nat × Nat) :=
  let n1 := shape.getD 0 0 - 1
  let n2 := shape.getD 1 0 - 1
  (((List.range (n1 + 1)).flatMap (fun m1 => (List.range (n2 + 1)).map (fun m2 => (m1, m2)))).take (len - 1)).drop 1

/-- pixy_guards: for every 2-axis shape (zero-length axes included) each visited cell is a valid index, and the
    subtractions `n2 - m2`, `n1 - m1` do not underflow. -/
theorem pixy_guards {α} (a : Arr α) (hlen : a.data.length = size a.shape) (h2 : a.shape.length = 2) :
    ∀ m ∈ pixyCells a.shape a.data.length,
      m.1 ≤ a.shape.getD 0 0 - 1 ∧ m.2 ≤ a.shape.getD 1 0 - 1 ∧ InB a.shape [m.1, m.2] := by
  obtain ⟨data, shape⟩ := a
  match shape, h2 with
  | [x, y], _ =>
    intro m hm
    have := gd_pixy_cells x y data.length (by simpa [size] using hlen) m (by simpa [pixyCells] using hm)
    simpa [InB] using this

/-- kinship_guards: behind the `shape == [3, 3]` test all nine cells exist. -/
theorem kinship_guards {α} (a : Arr α) (hlen : a.data.length = size a.shape) (h33 : a.shape = [3, 3]) :
    ∀ r c, r < 3 → c < 3 → InB a.shape [r, c] ∧ 3 * r + c < a.data.length := by
  intro r c hr hc
  rw [hlen, h33]
  exact ⟨⟨hr, hc, trivial⟩, by simp only [size]; omega⟩

/-- theta_guards: in `estimate_unchecked` every visited class `i` satisfies `1 ≤ i < n`, so `n - i` (Tajima's weight)
    does not underflow and `binomial(n, 2)` is only used with `n ≥ 2`. -/
theorem theta_guards {α} (x : List α) : ∀ p ∈ interior (withIdx x), 1 ≤ p.1 ∧ p.1 < x.length - 1 ∧ 2 ≤ x.length - 1 := by
  exact fun p hp => gd_interior_withIdx x p hp

/-- fst_guards: behind the dimension test `shape[0]` and `shape[1]` exist; the frequencies iterator divides by
    `len - 1` only for axes of length ≥ 1 when there is at least one cell. -/
theorem fst_guards {α} (a : Arr α) (hlen : a.data.length = size a.shape) (h2 : a.shape.length = 2) (hne : a.data ≠ []) :
    a.shape[0]?.isSome ∧ a.shape[1]?.isSome ∧ ∀ v ∈ a.shape, 1 ≤ v := by
  refine ⟨?_, ?_, gd_axes_pos a hlen hne⟩ <;> simp [h2]

/-- dispatch_total: every statistic on every spectrum ends in a value or in one of the two diagnosed errors, and the
    error is exactly the dimension / shape mismatch. -/
theorem dispatch_total (k : StatKind) (a : Arr Rat) :
    (∃ v, statCalc k a = .ok v) ∨ (∃ e d, statCalc k a = .error (.dimension e d) ∧ d = a.shape.length ∧ e ≠ d) ∨
      (statCalc k a = .error (.shape a.shape) ∧ a.shape ≠ [3, 3]) := by
  cases k <;> simp only [statCalc, needDim, need33] <;> (try split) <;> simp_all <;> omega

/-! ## arithmetic in projection and the hypergeometric pmf -/

/-- hyper_guards: behind the zero test of `hypergeometric_pmf` (and with `successes ≤ size`, `draws ≤ size`, which
    projection validation establishes) none of `size - successes`, `draws - observed`, `n - k` in the binomials underflows. -/
theorem hyper_guards (N K n k : Nat) (hK : K ≤ N) (hn : n ≤ N) (h : ¬ (k > n ∨ k > K ∨ n - k > N - K)) :
    k ≤ n ∧ k ≤ K ∧ n - k ≤ N - K ∧ K ≤ N ∧ n ≤ N := by
  omega

/-- individuals_guard (fix f234794): `-p i` is turned into the shape `2 i + 1` with saturation, so an oversized value is
    rejected by the size validation instead of wrapping. -/
theorem individuals_guard (is : List Nat) : ∀ v ∈ individualsToShape is, v < 2 ^ 64 := by
  intro v hv
  simp only [individualsToShape, List.mem_map] at hv
  obtain ⟨i, _, rfl⟩ := hv
  omega

/-! ## writer -/

/-- writer_guards (fixes f9bbea1, 1c25a8d): the padding length is between 1 and 64, so `pad_len - 1` does not underflow
    and the newline has a slot; a header that does not fit the `u16` field is an error value, not an `expect`. -/
theorem writer_guards (shape : List Nat) :
    1 ≤ 64 - (10 + (npyDict shape).length) % 64 ∧ 64 - (10 + (npyDict shape).length) % 64 ≤ 64 ∧
    ((npyHeader shape).isNone ↔ 65536 ≤ (npyDict shape).length + (64 - (10 + (npyDict shape).length) % 64)) := by
  exact ⟨by omega, by omega, gd_npyHeader_isNone_iff shape⟩

/-! ## sample map -/

/-- map_shape_guard (fix fa861d1): population ids are contiguous, so `population_sizes[id]` exists for every
    `id < number_of_populations` — the `unwrap` in `Map::shape` cannot fail, whatever the sample list (repeated samples
    included). -/
theorem map_shape_guard (l : List (String × Pop)) :
    ∀ id, id < numPops (sampleMap l) → ∃ p ∈ sampleMap l, p.2 = id := by
  exact gd_map_shape_guard l

/-! ## input selection -/

/-- input_rule: `Input::new` refuses exactly the two contradictory situations, and only when `SFS_ALLOW_STDIN` is unset;
    otherwise a path wins over stdin. It never panics (no `unwrap` on the path). -/
theorem input_rule (p t e : Bool) :
    (inputNew p t e = none ↔ (e = false ∧ ((p = true ∧ t = false) ∨ (p = false ∧ t = true)))) ∧
    (∀ s, inputNew p t e = some s → (s = .path ↔ p = true)) := by
  cases p <;> cases t <;> cases e <;> decide

/-! non-vacuity -/
example : pixyCells [3, 2] 6 = [(0, 1), (1, 0), (1, 1), (2, 0)] ∧ pixyCells [0, 3] 0 = [] ∧ pixyCells [1, 1] 1 = [] := by decide

end Sfs.C17
