/-
C07 — spectrum files round-trip through text and npy; the tool reads what it writes.
The property theorems live in `Props/C07Npy.lean` (npy half) and `Props/C07Text.lean` (text half), both in namespace `Sfs.C07`.
-/
import SfsModel.Props.C07Npy
import SfsModel.Props.C07Text
