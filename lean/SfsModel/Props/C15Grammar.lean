/-
C15 (header grammar) — every spelling of the header dict numpy may produce is accepted; unsupported descr strings are not.
Property theorems only.
-/
import SfsModel.Model.Npy
import SfsModel.Lemmas.Bytes
import SfsModel.Lemmas.NpyGrammar
namespace Sfs.C15
open Sfs

/-! ## reader: header grammar -/

/-- How a header dict may be spelled (numpy's own spelling is `q = '\''`, `sp = 0 1 0 1`, `trailing = true`,
    `lead = 0`, `trail = 0`, and `(a, b)` / `(a,)` for the tuple). -/
structure Spelling where
  q : Char                 -- quote character
  beforeColon : Nat
  afterColon : Nat
  beforeComma : Nat
  afterComma : Nat
  trailing : Bool          -- comma after the last entry
  tupleTrailing : Bool     -- comma after the last tuple element
  lead : Nat               -- spaces after `{`
  trail : Nat              -- spaces before `}`

def sp (n : Nat) : List Char := List.replicate n ' '

def Spelling.comma (s : Spelling) : List Char := sp s.beforeComma ++ [','] ++ sp s.afterComma

def Spelling.entry (s : Spelling) (key value : List Char) : List Char :=
  [s.q] ++ key ++ [s.q] ++ sp s.beforeColon ++ [':'] ++ sp s.afterColon ++ value

def Spelling.tuple (s : Spelling) (shape : List Nat) : List Char :=
  ['('] ++ joinNats s.comma shape ++ (if s.tupleTrailing then s.comma else []) ++ [')']

def endianChar : Endian → Char
  | .little => '<'
  | .big => '>'

/-- The three entries in spelled form. -/
def Spelling.entries (s : Spelling) (d : NpyDict) : List (List Char) :=
  [s.entry "descr".toList ([s.q] ++ [endianChar d.endian] ++ d.ty.name ++ [s.q]),
   s.entry "fortran_order".toList (if d.fortran then "True".toList else "False".toList),
   s.entry "shape".toList (s.tuple d.shape)]

def joinChars (sep : List Char) : List (List Char) → List Char
  | [] => []
  | [a] => a
  | a :: rest => a ++ sep ++ joinChars sep rest

def Spelling.render (s : Spelling) (es : List (List Char)) : List Char :=
  ['{'] ++ sp s.lead ++ joinChars s.comma es ++ (if s.trailing then s.comma else []) ++ sp s.trail ++ ['}']

/-- grammar_accepts_numpy: both quote styles, any number of spaces around `:` and `,`, the three keys in any order,
    optional trailing commas (after the last entry and inside the tuple; the latter is mandatory in Python for one axis,
    which the hypothesis does not even need) — all read back as the same dictionary. Anything after `}` is ignored. -/
theorem grammar_accepts_numpy (s : Spelling) (d : NpyDict) (es : List (List Char)) (rest : List Char)
    (hq : s.q = '\'' ∨ s.q = '"') (hperm : es.Perm (s.entries d))
    (hne : d.shape ≠ []) (hb : ∀ v ∈ d.shape, v < 2 ^ 64) :
    parseNpyDict (s.render es ++ rest) = some d := by
  have hj : ∀ l : List (List Char), joinChars s.comma l = joinG s.comma l := by
    intro l
    induction l with
    | nil => rfl
    | cons a l ih => cases l with
      | nil => rfl
      | cons b l => show a ++ _ ++ joinChars _ (b :: l) = a ++ _ ++ joinG _ (b :: l); rw [ih]
  have hr : s.render es = renderG s.beforeComma s.afterComma s.trailing s.lead s.trail es := by
    unfold Spelling.render renderG; rw [hj]; rfl
  have hc : EndianOf (endianChar d.endian) d.endian := by
    unfold EndianOf endianChar; cases d.endian <;> simp
  rw [hr]
  exact parse_renderG s.q hq s.beforeColon s.afterColon s.beforeComma s.afterComma s.trailing s.tupleTrailing
    s.lead s.trail (endianChar d.endian) d hc es rest hperm hne hb

/-- `|` is accepted as a synonym of `<` (numpy spells one-byte types `|i1`, `|u1`). -/
theorem bar_is_little (t : NpyTy) (r : List Char) :
    pDescrValue ("'|".toList ++ t.name ++ '\'' :: r) = some ((.little, t), r) :=
  pDescrValue_hit '\'' (Or.inl rfl) '|' .little t (Or.inl ⟨Or.inr rfl, rfl⟩) r

/-- unsupported_descr_rejected: a quoted descr is accepted iff it is one byte-order character followed by exactly one of
    the ten supported type names (f2, b1, c8, c16, U…, O, structured dtypes … have no alternative in the grammar). -/
theorem descr_accepted_iff (body r : List Char) (e : Endian) (t : NpyTy)
    (hbody : body ≠ [] ∧ ∀ c ∈ body, c ≠ '\'') :
    pDescrValue ('\'' :: body ++ '\'' :: r) = some ((e, t), r) ↔
      ∃ c, body = c :: t.name ∧ ((c = '<' ∨ c = '|') ∧ e = .little ∨ c = '>' ∧ e = .big) :=
  pDescrValue_eq_some_iff '\'' (Or.inl rfl) body r e t hbody.1 hbody.2

/-! non-vacuity -/
example : (⟨'"', 2, 0, 1, 3, false, true, 1, 2⟩ : Spelling).render
    ((⟨'"', 2, 0, 1, 3, false, true, 1, 2⟩ : Spelling).entries ⟨.big, .u4, false, [3, 4]⟩) =
    "{ \"descr\"  :\">u4\" ,   \"fortran_order\"  :False ,   \"shape\"  :(3 ,   4 ,   )  }".toList := by decide +kernel

end Sfs.C15
