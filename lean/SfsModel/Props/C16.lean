/-
C16 — damaged spectrum files are rejected, never read as a different spectrum.
The property theorems live in `Props/C16Damage.lean` and `Props/C16Sound.lean` (namespace `Sfs.C16`).
-/
import SfsModel.Props.C16Damage
import SfsModel.Props.C16Sound
