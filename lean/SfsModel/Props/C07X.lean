/-
C07 (extension) — converting text to npy and back at the same precision reproduces the text whenever the printed values
have at most 15 significant digits: the nearest binary64 of a decimal `M / 10^p` with `M < 10^15` prints, at precision
`p`, as that same decimal. Property theorems only.
-/
import SfsModel.Props.C07Text
import SfsModel.Lemmas.Digits15
namespace Sfs.C07
open Sfs

/-- nearest_error: the binary64 nearest to a positive rational in the normal range is within relative error 2^-53. -/
theorem nearest_error (q : Rat) (hlo : (1 : Rat) / ((2 ^ 1022 : Nat) : Rat) ≤ q) (hhi : q < ((2 ^ 1023 : Nat) : Rat)) :
    ∃ v : Rat, f64OfBits (f64BitsOfRatNonneg q) = .fin v ∧ absRat (v - q) * ((2 ^ 53 : Nat) : Rat) ≤ q := by
  obtain ⟨v, h1, h2, _⟩ := d15_nearest q hlo hhi
  exact ⟨v, h1, h2⟩

/-- fifteen_digits_print_back: a decimal with at most 15 significant digits survives decimal → binary64 → decimal at the
    same precision (`p ≤ 300` keeps `10^-p` in the normal range). -/
theorem fifteen_digits_print_back (M p : Nat) (hM : M < 10 ^ 15) (hp : p ≤ 300) :
    fmtFixed (f64BitsOfRatNonneg ((M : Rat) / ((10 ^ p : Nat) : Rat))) p = fmtRatFixed ((M : Rat) / ((10 ^ p : Nat) : Rat)) p := by
  obtain ⟨h1, h2, _⟩ := d15_print_back M p hM hp
  rw [h1, h2]

/-- text_npy_text: for a finite value whose printed form at precision `p` has at most 15 significant digits, re-reading
    the printed token and printing the result again at the same precision gives the same token — text → npy → text is the
    identity on such spectra (npy transports the re-read pattern unchanged: `npy_roundtrip`). -/
theorem text_npy_text (x p : Nat) (q : Rat) (hx : x < 2 ^ 64) (hf : f64OfBits x = .fin q)
    (h15 : roundedScaled (absRat q) p < 10 ^ 15) (hp : p ≤ 300) (b' : Nat) (hb : parseF64 (fmtFixed x p) = some b') :
    fmtFixed b' p = fmtFixed x p := by
  rw [text_value_roundtrip x p q hx hf] at hb
  exact d15_text_npy_text x p q hf h15 hp b' (Option.some.inj hb).symm

/-! non-vacuity: 0.1 + 0.2 printed at precision 3 and 15; 1e-5 at precision 10 -/
example : (parseF64 (fmtFixed 0x3fd3333333333334 3)).map (fun b => fmtFixed b 3) = some (fmtFixed 0x3fd3333333333334 3) ∧
    (parseF64 (fmtFixed 0x3fd3333333333334 15)).map (fun b => fmtFixed b 15) = some (fmtFixed 0x3fd3333333333334 15) ∧
    fmtFixed 0x3fd3333333333334 15 = "0.300000000000000".toList := by
  decide +kernel

end Sfs.C07
