/-
C18 — results do not depend on how the byte stream is chunked; I/O errors surface.  (partial: see DESIGN §8)
Proved here, over the `std::io::{BufRead, Read, Write}` model of `Model/IoModel.lean`: sfs's own readers (npy, text,
the detection prefix) and writers (npy, text) for every chunk schedule and every failure offset.
Explored, not proved: noodles' VCF/BCF/BGZF readers under chunk schedules (`c18.*` correspondence runs).
Property theorems only.
-/
import SfsModel.Model.IoModel
import SfsModel.Model.Detect
import SfsModel.Lemmas.IoModel
import SfsModel.Lemmas.IoSchedule
namespace Sfs.C18
open Sfs

/-- A reader in its initial state: nothing buffered yet; any chunk schedule. -/
def Rd.fresh (data sched : List Nat) (failAt : Option Nat) : Rd := { data := data, sched := sched, avail := 0, failAt := failAt }

/-- readExact_schedule_free: whatever the chunk schedule, `read_exact(n)` returns the next `n` bytes and leaves the
    rest, or reports EOF when fewer than `n` remain. -/
theorem readExact_schedule_free (r : Rd) (h : Rd.Ok r) (n fuel : Nat) (hfuel : n ≤ fuel) :
    (n ≤ r.data.length → ∃ r', r.readExact fuel n = .ok (r.data.take n, r') ∧ Rd.Ok r' ∧ r'.data = r.data.drop n) ∧
    (r.data.length < n → r.readExact fuel n = .error .eof) := by
  exact Rd.readExact_ok fuel r h n hfuel

/-- readLine_schedule_free: `read_line` returns the bytes up to and including the first newline (or everything). -/
theorem readLine_schedule_free (r : Rd) (h : Rd.Ok r) (fuel : Nat) (hfuel : r.data.length < fuel) :
    ∃ r', r.readLine fuel =
        .ok (r.data.takeWhile (· ≠ 10) ++ (if (r.data.takeWhile (· ≠ 10)).length < r.data.length then [10] else []), r') ∧
      Rd.Ok r' ∧ r'.data = r.data.drop ((r.data.takeWhile (· ≠ 10)).length + 1) := by
  exact Rd.readLine_ok fuel r h hfuel

/-- readToEnd_schedule_free. -/
theorem readToEnd_schedule_free (r : Rd) (h : Rd.Ok r) (fuel : Nat) (hfuel : r.data.length < fuel) :
    ∃ r', r.readToEnd fuel = .ok (r.data, r') := by
  obtain ⟨r', he, _⟩ := Rd.readToEnd_schedule_free fuel r h hfuel
  exact ⟨r', he⟩

/-- readNpy_schedule_free: for every schedule of chunk lengths (down to one byte at a time, any first chunk), reading
    an npy stream gives exactly what reading the whole byte string gives — result or error. -/
theorem readNpy_schedule_free (data sched : List Nat) :
    readNpyRd (Rd.fresh data sched none) = readNpy data := by
  exact readNpyRd_ok (Rd.fresh data sched none) ⟨Nat.zero_le _, rfl⟩

/-- readText_schedule_free: the same for the text reader (`read_line` + `read_to_string`). -/
theorem readText_schedule_free (data sched : List Nat) :
    readTextRd (Rd.fresh data sched none) = readText data := by
  exact readTextRd_ok (Rd.fresh data sched none) ⟨Nat.zero_le _, rfl⟩

/-- detect_schedule_free (after fix 1c0411c): the bytes format/compression detection looks at are the first 64 KiB of
    the stream whatever the chunking — in particular whatever the length of the first chunk. -/
theorem detect_schedule_free (data sched : List Nat) (inflate3 : List Nat → Option (List Nat)) :
    ∃ r', readPrefix (Rd.fresh data sched none) = .ok (data.take 65536, r') ∧
      ∀ sched', ∃ r'', readPrefix (Rd.fresh data sched' none) = .ok (data.take 65536, r'') := by
  have key : ∀ s, ∃ r', readPrefix (Rd.fresh data s none) = .ok (data.take 65536, r') := fun s =>
    readPrefix_ok (Rd.fresh data s none) ⟨Nat.zero_le _, rfl⟩
  obtain ⟨r', he⟩ := key sched
  exact ⟨r', he, key⟩

/-- read_failure_surfaces (npy): if the underlying reader fails at any byte offset up to and including the end of the
    stream, the npy reader does not succeed — it never returns a spectrum built from partial data. -/
theorem read_failure_surfaces_npy (data sched : List Nat) (k : Nat) (hk : k ≤ data.length) :
    ∃ e, readNpyRd (Rd.fresh data sched (some k)) = .error e := by
  rcases readNpyRd_fail (Rd.fresh data sched (some k)) k ⟨rfl, Nat.zero_le _, hk⟩ with he | ⟨e, he, _⟩
  · exact ⟨_, he⟩
  · exact ⟨e, he⟩

/-- … and when the bytes before the failure are a prefix of a valid file, the error reported is the I/O error itself. -/
theorem read_failure_is_io_npy (data sched : List Nat) (k : Nat) (hk : k ≤ data.length) (s : List Nat × List Nat)
    (hvalid : readNpy data = .ok s) :
    readNpyRd (Rd.fresh data sched (some k)) = .error .io := by
  rcases readNpyRd_fail (Rd.fresh data sched (some k)) k ⟨rfl, Nat.zero_le _, hk⟩ with he | ⟨e, _, he⟩
  · exact he
  · rw [show (Rd.fresh data sched (some k)).data = data from rfl, hvalid] at he; cases he

/-- read_failure_surfaces (text): if the underlying reader fails at any byte offset up to and including the end of the stream,
    the text reader does not succeed. (The header line is parsed before the rest is read: a bad header line is reported as such
    when the failure lies behind it.) -/
theorem read_failure_surfaces_text (data sched : List Nat) (k : Nat) (hk : k ≤ data.length) :
    ∃ e, readTextRd (Rd.fresh data sched (some k)) = .error e := by
  rcases readTextRd_fail (Rd.fresh data sched (some k)) k ⟨rfl, Nat.zero_le _, hk⟩ with he | ⟨e, he, _⟩
  · exact ⟨_, he⟩
  · exact ⟨e, he⟩

/-- … and when the data is a valid text spectrum, the error reported is the I/O error itself. -/
theorem read_failure_is_io_text (data sched : List Nat) (k : Nat) (hk : k ≤ data.length) (s : List Nat × List Nat)
    (hvalid : readText data = .ok s) :
    readTextRd (Rd.fresh data sched (some k)) = .error .io := by
  rcases readTextRd_fail (Rd.fresh data sched (some k)) k ⟨rfl, Nat.zero_le _, hk⟩ with he | ⟨e, _, he⟩
  · exact he
  · rw [show (Rd.fresh data sched (some k)).data = data from rfl, hvalid] at he; cases he

/-- writeAll_schedule_free: through a writer that accepts only a few bytes per call, `write_all` delivers exactly the
    buffer. -/
theorem writeAll_schedule_free (w : Wr) (buf : List Nat) (hf : w.failAt = none) :
    ∃ w', w.writeAllOf buf = .ok w' ∧ w'.out = w.out ++ buf ∧ w'.failAt = none := by
  exact Wr.writeAll_none buf.length buf w hf (Nat.le_refl _)

/-- writeNpy_schedule_free: the npy writer produces the same bytes through any short-writing writer as in one piece
    (and fails the same way when the header does not fit). -/
theorem writeNpy_schedule_free (shape bits sched : List Nat) :
    (∀ bytes, writeNpy shape bits = .ok bytes →
      ∃ w', writeNpyWr shape bits { sched := sched } = .ok w' ∧ w'.out = bytes) ∧
    (∀ e, writeNpy shape bits = .error e → writeNpyWr shape bits { sched := sched } = .error e) := by
  obtain ⟨h1, h2⟩ := writeNpyWr_none shape bits { sched := sched } rfl
  refine ⟨fun bytes hb => ?_, h2⟩
  obtain ⟨w', he, ho⟩ := h1 bytes hb
  exact ⟨w', he, by rw [ho]; exact List.nil_append _⟩

/-- writeText_schedule_free. -/
theorem writeText_schedule_free (shape bits sched : List Nat) (p : Nat) :
    ∃ w', writeTextWr shape bits p { sched := sched } = .ok w' ∧ w'.out = asciiBytes (writeText shape bits p) := by
  obtain ⟨w', he, ho⟩ := writeTextWr_none shape bits p { sched := sched } rfl
  exact ⟨w', he, by rw [ho]; exact List.nil_append _⟩

/-- write_failure_surfaces: a writer failing at any offset before the last byte makes the operation fail. -/
theorem write_failure_surfaces_npy (shape bits sched bytes : List Nat) (k : Nat)
    (hw : writeNpy shape bits = .ok bytes) (hk : k < bytes.length) :
    writeNpyWr shape bits { sched := sched, failAt := some k } = .error .io := by
  exact writeNpyWr_fail shape bits bytes _ k rfl hw hk

theorem write_failure_surfaces_text (shape bits sched : List Nat) (p k : Nat)
    (hk : k < (writeText shape bits p).length) :
    writeTextWr shape bits p { sched := sched, failAt := some k } = .error .io := by
  exact writeTextWr_fail shape bits p k _ rfl hk

/-! non-vacuity: one byte at a time, and a first chunk of 7 bytes then 1, 2, 3 …; failure at offset 130 -/
example :
    let f := (writeNpy [2, 3] [1, 2, 3, 4, 5, 6]).toOption.getD []
    (readNpyRd (Rd.fresh f (List.replicate 300 1) none)).toOption = some ([2, 3], [1, 2, 3, 4, 5, 6]) ∧
    (readNpyRd (Rd.fresh f [7, 1, 2, 3, 50, 1] none)).toOption = some ([2, 3], [1, 2, 3, 4, 5, 6]) ∧
    (readNpyRd (Rd.fresh f [7, 1, 2, 3, 50, 1] (some 130))).toOption = none ∧
    (readNpyRd (Rd.fresh f [] (some f.length))).toOption = none := by
  decide +kernel

end Sfs.C18
