/-
C08 — genotype to allele-count classification is total and exact.
Property theorems only.
-/
import SfsModel.Model.Create
import SfsModel.Lemmas.Samples
namespace Sfs.C08
open Sfs

/-- classify_spec: a diploid genotype with both alleles in {0,1} contributes the number of its alleles equal to ALT
    allele 1; missing when either allele is `.`; multiallelic when both are present and one is ≥ 2. -/
theorem classify_spec (a b : Option Nat) :
    classify [a, b] =
      match a, b with
      | some x, some y =>
        if x ≤ 1 ∧ y ≤ 1 then .genotype ((if x = 1 then 1 else 0) + (if y = 1 then 1 else 0))
        else .skipped .multiallelic
      | _, _ => .skipped .missing := by
  cases a with
  | none => cases b <;> rfl
  | some x =>
    cases b with
    | none => rfl
    | some y =>
      simp only [classify]
      by_cases h : x ≤ 1 ∧ y ≤ 1
      · have hx : x = 0 ∨ x = 1 := by omega
        have hy : y = 0 ∨ y = 1 := by omega
        rcases hx with rfl | rfl <;> rcases hy with rfl | rfl <;> rfl
      · simp [h]

/-- Any other ploidy is a ploidy error, whatever the alleles are — except the single missing allele, which is how a wholly
    missing genotype is spelled in BCF (and `|.` in VCF text): that one is missing. -/
theorem classify_ploidy (l : List (Option Nat)) (h : l.length ≠ 2) (h1 : l ≠ [none]) : classify l = .ploidyError := by
  match l, h, h1 with
  | [], _, _ => rfl
  | [none], _, h1 => exact absurd rfl h1
  | [some _], _, _ => rfl
  | [_, _], h, _ => exact absurd rfl h
  | _ :: _ :: _ :: _, _, _ => rfl

theorem classify_single_missing : classify [none] = .skipped .missing := by
  rfl

/-- The classification never yields an allele count above two. -/
theorem classify_range (l : List (Option Nat)) (k : Nat) (h : classify l = .genotype k) : k ≤ 2 := by
  match l, h with
  | [], h => simp [classify] at h
  | [none], h => simp [classify] at h
  | [some _], h => simp [classify] at h
  | _ :: _ :: _ :: _, h => simp [classify] at h
  | [a, b], h =>
    rw [classify_spec] at h
    cases a <;> cases b <;> simp only at h <;> try contradiction
    split at h
    · injection h with h; subst h; split <;> split <;> omega
    · contradiction

/-- Phasing marks do not matter: replacing every `|` by `/` parses to the same alleles. -/
theorem parseGT_phasing (s : List Char) :
    parseGT (s.map (fun c => if c = '|' then '/' else c)) = parseGT s := by
  show parseGT (s.map unphase) = parseGT s
  unfold parseGT
  rw [stripLeadSep_map_unphase, splitGT_map_unphase]
  by_cases h : s = ['.']
  · rw [if_pos h, if_pos ((map_unphase_eq_dot s).2 h)]
  · rw [if_neg h, if_neg (fun h' => h ((map_unphase_eq_dot s).1 h'))]

/-- Rendering of an allele list with chosen separators (one separator per gap). -/
def renderAllele : Option Nat → List Char
  | none => ['.']
  | some n => Nat.toDigits 10 n

def renderGT : List (Option Nat) → List Char → List Char
  | [], _ => []
  | [a], _ => renderAllele a
  | a :: rest, sep :: seps => renderAllele a ++ sep :: renderGT rest seps
  | a :: rest, [] => renderAllele a ++ '/' :: renderGT rest []

private theorem renderGT_eq (al : List (Option Nat)) (seps : List Char) : renderGT al seps = gtStr al seps := by
  fun_induction renderGT al seps <;> simp [gtStr, *] <;> rfl

/-- parseGT_total: every GT string of the grammar alleles {., digits} x separators {/,|} x ploidy ≥ 1 parses to the
    allele list it spells (the lone `.` being the whole-field-missing spelling). -/
theorem parseGT_render (al : List (Option Nat)) (seps : List Char) (hne : al ≠ [])
    (hs : ∀ c ∈ seps, c = '/' ∨ c = '|') (hdot : al ≠ [none]) (hfit : ∀ n, some n ∈ al → n < 2 ^ 64) :
    parseGT (renderGT al seps) = some (some al) := by
  rw [renderGT_eq]
  exact parseGT_gtStr al seps hne hs hdot hfit

/-- … and an allele index that does not fit the machine word makes the whole GT string unparsable (the record is refused with
    "invalid allele"), wherever it stands. -/
theorem parseGT_index_overflow (al : List (Option Nat)) (seps : List Char) (hne : al ≠ [])
    (hs : ∀ c ∈ seps, c = '/' ∨ c = '|') (hbig : ∃ n, some n ∈ al ∧ 2 ^ 64 ≤ n) :
    parseGT (renderGT al seps) = none := by
  rw [renderGT_eq]
  exact parseGT_gtStr_big al seps hne hs hbig

/-- A phasing separator in front of the first allele (VCF 4.4) does not change how the genotype is classified. -/
theorem parseGT_leading_sep (c : Char) (hc : c = '/' ∨ c = '|') (s : List Char)
    (hs : ∀ d, s.head? = some d → d ≠ '/' ∧ d ≠ '|') :
    (parseGT (c :: s)).map classifyField = (parseGT s).map classifyField := by
  exact parseGT_cons_sep c hc s hs

/-- A `+` in front of an allele index is accepted (`usize::from_str`) and means the same index. -/
theorem parseAllele_plus (n : Nat) (h : n < 2 ^ 64) :
    parseAllele ('+' :: Nat.toDigits 10 n) = some (some n) ∧ parseAllele (Nat.toDigits 10 n) = some (some n) := by
  exact ⟨parseAllele_plus_toDigits n h, parseAllele_toDigits n h⟩

theorem parseGT_dot : parseGT ['.'] = some none := by
  rfl

/-- ploidy_aborts: the column loop aborts exactly when some selected column carries a ploidy error
    (columns and genotypes aligned). -/
theorem tally_none_iff (map : List (String × Nat)) (cols : List String) (gts : List GtRes) (st : SiteSt)
    (hl : cols.length = gts.length) :
    tally map cols gts st = none ↔
      ∃ i, i < cols.length ∧ (lookupPop map (cols.getD i "")).isSome ∧ gts.getD i (.skipped .missing) = .ploidyError := by
  exact tally_none_iff_aux map cols gts st hl

/-- … and then the run fails with an error naming that record's contig and position, never a spectrum. -/
theorem ploidy_aborts {α} [Add α] [Mul α] [Div α] [NatCast α] [OfNat α 0] [OfNat α 1]
    (cfg : SiteCfg) (strict : Bool) (st : RunSt α) (c : String) (p : Nat) (gts : List GtRes)
    (hl : cfg.cols.length = gts.length)
    (h : ∃ i, i < cfg.cols.length ∧ (lookupPop cfg.map (cfg.cols.getD i "")).isSome ∧ gts.getD i (.skipped .missing) = .ploidyError) :
    runStep cfg strict st (.gts c p gts) = .error (.genotypeError c p) := by
  have ht : ∀ s, tally cfg.map cfg.cols gts s = none := fun s => (tally_none_iff cfg.map cfg.cols gts s hl).2 h
  simp only [runStep, readSite, ht]

theorem error_stops_run {α} [Add α] [Mul α] [Div α] [NatCast α] [OfNat α 0] [OfNat α 1]
    (cfg : SiteCfg) (strict : Bool) (st : RunSt α) (r : Rec) (rs : List Rec) (e : RunErr)
    (h : runStep cfg strict st r = .error e) : runLoop cfg strict st (r :: rs) = .error e := by
  simp only [runLoop, h]

/-- A ploidy error (or anything else) in a column that is not selected is ignored. -/
theorem unselected_ignored (map : List (String × Nat)) (cols : List String) (gts gts' : List GtRes) (st : SiteSt)
    (hl : cols.length = gts.length) (hl' : cols.length = gts'.length)
    (h : ∀ i, i < cols.length → (lookupPop map (cols.getD i "")).isSome → gts.getD i .ploidyError = gts'.getD i .ploidyError) :
    tally map cols gts st = tally map cols gts' st := by
  exact tally_congr_selected map cols gts gts' st hl hl' h

/-! non-vacuity -/
example : classify [some 0, some 2] = .skipped .multiallelic ∧ classify [some 1, some 1] = .genotype 2
    ∧ classify [none, some 1] = .skipped .missing ∧ classify [some 1] = .ploidyError
    ∧ classify [some 0, some 1, some 1] = .ploidyError ∧ classify [none] = .skipped .missing ∧ classify [] = .ploidyError := by decide
example : parseGT "|0/1".toList = some (some [some 0, some 1]) ∧ parseGT "0/+1".toList = some (some [some 0, some 1])
    ∧ parseGT "0/18446744073709551616".toList = none ∧ parseGT "0//1".toList = none ∧ parseGT "|.".toList = some (some [none]) := by decide

end Sfs.C08
