/-
C16 (count mismatch, CLI) — whatever the readers accept has exactly the declared number of values; damaged text files and
overflowing shapes are rejected; a rejected input produces no output. Property theorems only.
-/
import SfsModel.Model.SpecCli
import SfsModel.Props.C07Text
import SfsModel.Lemmas.SpecSound
namespace Sfs.C16
open Sfs Sfs.C07

/-- count_mismatch_rejected (npy, any dtype, any header version): whatever is accepted has exactly as many values as the
    checked product of the declared shape, and the file's length is header + width × that count. -/
theorem npy_accept_sound (bytes : List Nat) (shape vals : List Nat) (h : readNpy bytes = .ok (shape, vals)) :
    checkedSize shape = some vals.length ∧ vals.length = size shape ∧ size shape < 2 ^ 64 ∧
      ∃ hdr w, w ∈ [1, 2, 4, 8] ∧ bytes.length = hdr + w * vals.length := by
  exact readNpy_accept bytes shape vals h

/-- count_mismatch_rejected (text): whatever is accepted has exactly one value per whitespace-separated token after the
    header line, and their number is the checked product of the declared shape. -/
theorem text_accept_sound (bytes : List Nat) (shape vals : List Nat) (h : readText bytes = .ok (shape, vals)) :
    checkedSize shape = some vals.length ∧ vals.length = size shape ∧
      (splitWs ((bytesToChars bytes).dropWhile (· ≠ '\n'))).length = vals.length := by
  exact readText_accept bytes shape vals h

/-- Removing or inserting value tokens: a text file carrying a different number of values than its header declares is
    rejected. -/
theorem text_token_count_rejected (shape bits bits' : List Nat) (p : Nat) (hwf : WfSpectrum shape bits)
    (hlen : bits'.length ≠ bits.length) :
    ∃ e, readSpectrum (asciiBytes (writeText shape bits' p)) = .error e := by
  obtain ⟨hne, hb, hcs, _⟩ := hwf
  simp only [readSpectrum, detect_text]
  refine readText_written_reject shape bits' p hne hb ?_
  rw [hcs]
  intro h
  exact hlen (Option.some.inj h).symm

/-- Editing the shape: the same values under a header whose (checked) product differs are rejected; this includes
    declared shapes whose true product does not fit 64 bits (fix 3fdf991: no wrap-around). -/
theorem text_shape_edit_rejected (shape shape' bits : List Nat) (p : Nat) (hwf : WfSpectrum shape bits)
    (hne : shape' ≠ []) (hb : ∀ v ∈ shape', v < 2 ^ 64) (hsz : checkedSize shape' ≠ some bits.length) :
    ∃ e, readSpectrum (asciiBytes (writeText shape' bits p)) = .error e := by
  have _ := hwf      -- (not needed: any value list under a header with a different checked product is rejected)
  simp only [readSpectrum, detect_text]
  exact readText_written_reject shape' bits p hne hb hsz

theorem overflow_is_none (shape : List Nat) (hpos : ∀ v ∈ shape, 0 < v) (h : 2 ^ 64 ≤ size shape) :
    checkedSize shape = none := by
  have _ := hpos     -- (not needed)
  exact checkedSize_none_of_le shape h

/-- A zero-length axis does not mask an overflow among the other axes (fix 004eece): the declared shape
    `<0/4294967296/4294967296>` is rejected although its product is 0. -/
theorem overflow_behind_zero_is_none (shape : List Nat) (h : 2 ^ 64 ≤ size (shape.map (fun v => max v 1))) :
    checkedSize shape = none :=
  checkedSize_none_of_nz shape h

example : checkedSize [0, 4294967296, 4294967296] = none ∧ checkedSize [4294967296, 4294967296, 0] = none ∧
    checkedSize [0, 3] = some 0 ∧ checkedSize [2, 3] = some 6 := by decide

/-- cli_no_output_on_reject: `view`, `fold` and `stat` read the whole input before anything is written: a rejected input
    gives exit status 1 and empty stdout. -/
theorem cli_no_output_on_reject (compute : List Nat × List Nat → Except (List Nat) (List Nat)) (bytes : List Nat) (e : IoErr)
    (h : readSpectrum bytes = .error e) :
    (specCli compute bytes).code = 1 ∧ (specCli compute bytes).stdout = [] := by
  simp only [specCli, h, and_self]

end Sfs.C16
