/-
C04 — marginalization is the array sum over the removed axes.
Property theorems only. `α` is any commutative additive monoid (instantiated by `Rat` in the driver).
-/
import SfsModel.Model.Spectrum
import SfsModel.Lemmas.Index
import SfsModel.Lemmas.Odometer
import SfsModel.Lemmas.SumBox
import SfsModel.Lemmas.Marginalize
import Mathlib.Algebra.BigOperators.Group.Finset.Basic
namespace Sfs.C04
open Sfs

variable {α : Type} [AddCommMonoid α]

/-- An index (or shape) with the positions listed in `A` deleted, the rest in original order. -/
def dropAxes {β} (A : List Nat) (l : List β) : List β :=
  (l.zipIdx.filter (fun p => !A.contains p.2)).map (·.1)

/-- glue: `dropAxes` is the `dropIdx` the helper lemmas are stated with (same body). -/
theorem dropAxes_eq_dropIdx {β} (A : List Nat) (l : List β) : dropAxes A l = Sfs.dropIdx A l := rfl

/-- marginalize_eq_spec: for a valid axis list (no duplicates, all in range, not all axes) in ANY order, the result
    lives over the remaining axes in their original order and entry `t` is the sum of all entries of the input whose
    index agrees with `t` on the remaining axes, i.e. the sum over all indices of the removed axes. -/
theorem marginalize_eq_spec (a : Arr α) (axes : List Nat)
    (hlen : a.data.length = size a.shape) (hnd : axes.Nodup)
    (hb : ∀ ax ∈ axes, ax < a.shape.length) (hl : axes.length < a.shape.length) :
    ∃ b, marginalize a axes = .ok b ∧ b.shape = dropAxes axes a.shape ∧
      b.data = (List.range (size (dropAxes axes a.shape))).map (fun t =>
        ∑ f ∈ Finset.range (size a.shape),
          if dropAxes axes (unflat a.shape f) = unflat (dropAxes axes a.shape) t then a.data.getD f 0 else 0) := by
  have h := (marginalize_isMarg a axes hlen hnd hb).1
  simp only [dropAxes_eq_dropIdx]
  exact ⟨_, marginalize_ok a axes hnd hb hl, h.1, h.2⟩

/-- The result does not depend on the order in which the axes are named. -/
theorem marginalize_perm (a : Arr α) (axes₁ axes₂ : List Nat) (hp : axes₁.Perm axes₂)
    (hnd : axes₁.Nodup) (hb : ∀ ax ∈ axes₁, ax < a.shape.length) :
    marginalize a axes₁ = marginalize a axes₂ := by
  have hnd₂ : axes₂.Nodup := hp.nodup hnd
  have hb₂ : ∀ ax ∈ axes₂, ax < a.shape.length := fun ax h => hb ax (hp.symm.subset h)
  by_cases hl : axes₁.length < a.shape.length
  · rw [marginalize_ok a axes₁ hnd hb hl, marginalize_ok a axes₂ hnd₂ hb₂ (hp.length_eq ▸ hl),
      sortNat_eq_of_perm hp]
  · have e₁ : marginalize a axes₁ = .error (.tooManyAxes axes₁.length a.shape.length) :=
      marginalize_too_many a axes₁ hnd hb (by omega)
    have e₂ : marginalize a axes₂ = .error (.tooManyAxes axes₂.length a.shape.length) :=
      marginalize_too_many a axes₂ hnd₂ hb₂ (by rw [← hp.length_eq]; omega)
    rw [e₁, e₂, hp.length_eq]

/-- Removing one axis first and then the others (re-indexed) equals removing them jointly;
    by induction any one-at-a-time order equals the joint removal. -/
theorem marginalize_stepwise (a : Arr α) (x : Nat) (rest : List Nat)
    (hlen : a.data.length = size a.shape) (hnd : (x :: rest).Nodup)
    (hb : ∀ ax ∈ x :: rest, ax < a.shape.length) (hl : (x :: rest).length < a.shape.length) (hr : rest ≠ []) :
    marginalize a (x :: rest) =
      (match marginalize a [x] with
       | .ok b => marginalize b (rest.map (fun y => if y > x then y - 1 else y))
       | .error e => .error e) :=
  marginalize_stepwise_aux a x rest hlen hnd hb hl hr

/-- Total mass is preserved. -/
theorem marginalize_mass (a b : Arr α) (axes : List Nat)
    (hlen : a.data.length = size a.shape) (h : marginalize a axes = .ok b) :
    b.data.sum = a.data.sum := by
  obtain ⟨hnd, hb, hl⟩ := marginalize_ok_inv a b axes h
  rw [marginalize_ok a axes hnd hb hl] at h
  cases h
  exact (marginalize_isMarg a axes hlen hnd hb).2

/-- `--marginalize-keep K` removes exactly the complement of `K`, sorted. -/
theorem keep_eq_remove_complement (dims : Nat) (keep : List Nat) :
    (∀ i, i ∈ keepToRemove dims keep ↔ (i < dims ∧ i ∉ keep)) ∧ (keepToRemove dims keep).Nodup
      ∧ isSortedLe (keepToRemove dims keep) = true := by
  refine ⟨fun i => ?_, ?_, ?_⟩
  · simp [keepToRemove]
  · exact List.nodup_range.filter _
  · rw [isSortedLe_iff]
    exact (List.pairwise_lt_range.imp (fun h => Nat.le_of_lt h)).filter _

/-! ### errors: duplicate, then out-of-range, then removing every axis -/

theorem duplicate_is_error (a : Arr α) (axes : List Nat) (h : ¬ axes.Nodup) :
    ∃ d, marginalize a axes = .error (.duplicateAxis d) ∧ 2 ≤ axes.count d := by
  cases hd : firstDuplicate axes with
  | none => exact absurd ((firstDuplicate_eq_none_iff axes).mp hd) h
  | some d =>
    refine ⟨d, ?_, firstDuplicate_some_count axes d hd⟩
    unfold marginalize
    rw [hd]

theorem out_of_range_is_error (a : Arr α) (axes : List Nat) (hnd : axes.Nodup)
    (h : ∃ ax ∈ axes, a.shape.length ≤ ax) :
    ∃ ax, marginalize a axes = .error (.axisOutOfBounds ax a.shape.length) ∧ ax ∈ axes ∧ a.shape.length ≤ ax := by
  cases hf : axes.find? (fun ax => decide (ax ≥ a.shape.length)) with
  | none =>
    obtain ⟨ax, hax, hle⟩ := h
    have := List.find?_eq_none.mp hf ax hax
    simp at this; omega
  | some ax =>
    refine ⟨ax, ?_, List.mem_of_find?_eq_some hf, by simpa using List.find?_some hf⟩
    unfold marginalize
    rw [(firstDuplicate_eq_none_iff axes).mpr hnd]
    simp only [hf]

theorem all_axes_is_error (a : Arr α) (axes : List Nat) (hnd : axes.Nodup)
    (hb : ∀ ax ∈ axes, ax < a.shape.length) (hl : a.shape.length ≤ axes.length) :
    marginalize a axes = .error (.tooManyAxes axes.length a.shape.length) :=
  marginalize_too_many a axes hnd hb hl

/-! non-vacuity: shape [2,3,4], axes [2,0] (unsorted, unequal lengths) -/
example : (marginalize (⟨List.range 24, [2, 3, 4]⟩ : Arr Nat) [2, 0]).toOption.map (fun b => (b.shape, b.data))
    = some ([3], [60, 92, 124]) := by decide

end Sfs.C04
