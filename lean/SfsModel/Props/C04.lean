/-
C04 — marginalization is the array sum over the removed axes.
Property theorems only. `α` is any commutative additive monoid (instantiated by `Rat` in the driver).
-/
import SfsModel.Model.Spectrum
import SfsModel.Lemmas.Index
import SfsModel.Lemmas.Odometer
import SfsModel.Lemmas.SumBox
import SfsModel.Lemmas.Marginalize
import Mathlib.Algebra.BigOperators.Group.Finset.Basic
namespace Sfs.C04
open Sfs

variable {α : Type} [AddCommMonoid α]

/-- An index (or shape) with the positions listed in `A` deleted, the rest in original order. -/
def dropAxes {β} (A : List Nat) (l : List β) : List β :=
  (l.zipIdx.filter (fun p => !A.contains p.2)).map (·.1)

/-- marginalize_eq_spec: for a valid axis list (no duplicates, all in range, not all axes) in ANY order, the result
    lives over the remaining axes in their original order and entry `t` is the sum of all entries of the input whose
    index agrees with `t` on the remaining axes, i.e. the sum over all indices of the removed axes. -/
theorem marginalize_eq_spec (a : Arr α) (axes : List Nat)
    (hlen : a.data.length = size a.shape) (hnd : axes.Nodup)
    (hb : ∀ ax ∈ axes, ax < a.shape.length) (hl : axes.length < a.shape.length) :
    ∃ b, marginalize a axes = .ok b ∧ b.shape = dropAxes axes a.shape ∧
      b.data = (List.range (size (dropAxes axes a.shape))).map (fun t =>
        ∑ f ∈ Finset.range (size a.shape),
          if dropAxes axes (unflat a.shape f) = unflat (dropAxes axes a.shape) t then a.data.getD f 0 else 0) := by
  sorry

/-- The result does not depend on the order in which the axes are named. -/
theorem marginalize_perm (a : Arr α) (axes₁ axes₂ : List Nat) (hp : axes₁.Perm axes₂)
    (hnd : axes₁.Nodup) (hb : ∀ ax ∈ axes₁, ax < a.shape.length) :
    marginalize a axes₁ = marginalize a axes₂ := by
  sorry

/-- Removing one axis first and then the others (re-indexed) equals removing them jointly;
    by induction any one-at-a-time order equals the joint removal. -/
theorem marginalize_stepwise (a : Arr α) (x : Nat) (rest : List Nat)
    (hlen : a.data.length = size a.shape) (hnd : (x :: rest).Nodup)
    (hb : ∀ ax ∈ x :: rest, ax < a.shape.length) (hl : (x :: rest).length < a.shape.length) (hr : rest ≠ []) :
    marginalize a (x :: rest) =
      (match marginalize a [x] with
       | .ok b => marginalize b (rest.map (fun y => if y > x then y - 1 else y))
       | .error e => .error e) := by
  sorry

/-- Total mass is preserved. -/
theorem marginalize_mass (a b : Arr α) (axes : List Nat)
    (hlen : a.data.length = size a.shape) (h : marginalize a axes = .ok b) :
    b.data.sum = a.data.sum := by
  sorry

/-- `--marginalize-keep K` removes exactly the complement of `K`, sorted. -/
theorem keep_eq_remove_complement (dims : Nat) (keep : List Nat) :
    (∀ i, i ∈ keepToRemove dims keep ↔ (i < dims ∧ i ∉ keep)) ∧ (keepToRemove dims keep).Nodup
      ∧ isSortedLe (keepToRemove dims keep) = true := by
  sorry

/-! ### errors: duplicate, then out-of-range, then removing every axis -/

theorem duplicate_is_error (a : Arr α) (axes : List Nat) (h : ¬ axes.Nodup) :
    ∃ d, marginalize a axes = .error (.duplicateAxis d) ∧ 2 ≤ axes.count d := by
  sorry

theorem out_of_range_is_error (a : Arr α) (axes : List Nat) (hnd : axes.Nodup)
    (h : ∃ ax ∈ axes, a.shape.length ≤ ax) :
    ∃ ax, marginalize a axes = .error (.axisOutOfBounds ax a.shape.length) ∧ ax ∈ axes ∧ a.shape.length ≤ ax := by
  sorry

theorem all_axes_is_error (a : Arr α) (axes : List Nat) (hnd : axes.Nodup)
    (hb : ∀ ax ∈ axes, ax < a.shape.length) (hl : a.shape.length ≤ axes.length) :
    marginalize a axes = .error (.tooManyAxes axes.length a.shape.length) := by
  sorry

/-! non-vacuity: shape [2,3,4], axes [2,0] (unsorted, unequal lengths) -/
example : (marginalize (⟨List.range 24, [2, 3, 4]⟩ : Arr Nat) [2, 0]).toOption.map (fun b => (b.shape, b.data))
    = some ([3], [60, 92, 124]) := by decide

end Sfs.C04
