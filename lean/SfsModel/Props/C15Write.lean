/-
C15 (writer half) — npy output conforms to NPY 1.0 for every shape.
Property theorems only. Bytes are `Nat`s below 256; f64 values are 64-bit patterns.
-/
import SfsModel.Model.Npy
import SfsModel.Lemmas.Bytes
import SfsModel.Lemmas.NpyRoundtrip
namespace Sfs.C15
open Sfs

/-! ## writer -/

/-- writer_layout: every file the writer produces is, for every shape, magic ++ version 1.0 ++ little-endian u16 header
    length `L` ++ the Python-literal dict ++ `pad` spaces ++ newline ++ one little-endian 8-byte pattern per value in
    row-major order, where `L` counts dict, padding and the newline, and the data starts at a multiple of 64 bytes. -/
theorem writer_layout (shape bits bytes : List Nat) (hw : writeNpy shape bits = .ok bytes) :
    ∃ L pad, bytes = npyMagic ++ [1, 0] ++ leBytes 2 L ++ asciiBytes (npyDict shape) ++ List.replicate pad 32 ++ [10]
        ++ (bits.map (leBytes 8)).flatten ∧
      L = (npyDict shape).length + pad + 1 ∧ (10 + L) % 64 = 0 ∧ pad < 64 ∧ L < 65536 := by
  obtain ⟨hd, hh, rfl⟩ := writeNpy_eq_ok shape bits bytes hw
  obtain ⟨L, pad, rfl, h⟩ := npyHeader_layout shape hd hh
  exact ⟨L, pad, rfl, h⟩

/-- The data offset (everything before the values) is a multiple of 64 and the values take exactly 8 bytes each. -/
theorem writer_data_offset (shape bits bytes : List Nat) (hw : writeNpy shape bits = .ok bytes) :
    8 * bits.length ≤ bytes.length ∧ (bytes.length - 8 * bits.length) % 64 = 0 ∧
      bytes.drop (bytes.length - 8 * bits.length) = (bits.map (leBytes 8)).flatten := by
  obtain ⟨L, pad, rfl, hL, h64, _, _⟩ := writer_layout shape bits bytes hw
  have hv := flatten_leBytes8_length bits
  generalize (bits.map (leBytes 8)).flatten = vals at hv ⊢
  generalize hhd : npyMagic ++ [1, 0] ++ leBytes 2 L ++ asciiBytes (npyDict shape) ++ List.replicate pad 32 ++ [10] = hd
  have hl : hd.length = 10 + L := by
    subst hhd
    simp only [List.length_append, npyMagic, List.length_cons, List.length_nil, leBytes_length, asciiBytes_length,
      List.length_replicate]
    omega
  have : (hd ++ vals).length - 8 * bits.length = hd.length := by simp only [List.length_append]; omega
  refine ⟨by simp only [List.length_append]; omega, by omega, ?_⟩
  rw [this]; exact List.drop_left' rfl

/-- The writer refuses (with an error, fix 1c25a8d) exactly when the padded header would not fit the v1.0 `u16` length field. -/
theorem writer_error_iff (shape bits : List Nat) :
    writeNpy shape bits = .error .invalid ↔
      65536 ≤ (npyDict shape).length + (64 - (10 + (npyDict shape).length) % 64) := by
  rw [← npyHeader_none_iff]
  unfold writeNpy
  split <;> simp_all

/-- The dict the writer emits is the literal NPY 1.0 dictionary and the header grammar reads it back as
    little-endian f8, C order, the exact shape tuple. -/
theorem writer_dict_parses (shape : List Nat) (hne : shape ≠ []) (hb : ∀ v ∈ shape, v < 2 ^ 64) :
    parseNpyDict (npyDict shape) = some ⟨.little, .f8, false, shape⟩ := by
  simpa using parseNpyDict_npyDict shape [] hne hb

/-! non-vacuity -/
example : (writeNpy [1, 1, 10] (List.replicate 10 0)).toOption.map List.length = some (128 + 80) := by decide +kernel

end Sfs.C15
