/-
C02 — create --project: hypergeometric down-sampling of every covered site.
Property theorems only. `α` is any field of characteristic zero.
-/
import SfsModel.Model.Create
import SfsModel.Spec.Create
import SfsModel.Lemmas.Create
import SfsModel.Lemmas.Hyper
import SfsModel.Lemmas.Projected
import Mathlib.Algebra.Field.Basic
import Mathlib.Algebra.CharZero.Defs
namespace Sfs.C02
open Sfs Sfs.Spec

variable {α : Type} [Field α] [CharZero α]

/-- site_classification: with a target of `m_j` chromosomes per population, a record with `t_j` called chromosomes
    (`a_j` of them ALT) among the selected samples is counted exactly (`t = m`), down-sampled (`t_j ≥ m_j` for all `j`),
    or contributes nothing (`t_j < m_j` for some `j`). The code's reader returns exactly this (C11.readSite_eq_spec). -/
theorem site_classification (cfg : SiteCfg) (pt : List Nat) (hp : cfg.projectTo = some pt)
    (hl : pt.length = numPops cfg.map) (gts : List GtRes)
    (hne : hasPloidyError (selected cfg.map cfg.cols gts) = false) :
    let t := calledTotals (numPops cfg.map) (selected cfg.map cfg.cols gts)
    let a := altCounts (numPops cfg.map) (selected cfg.map cfg.cols gts)
    siteSpec cfg gts =
      some (if t = pt then .standard a
            else if ∀ j, j < pt.length → pt.getD j 0 ≤ t.getD j 0 then .projected t a
            else .insufficient) := by
  intro t a
  exact siteSpec_proj cfg pt hp hl gts hne

/-- contribution_projected: a down-sampled site adds `Π_j Hypergeom(k_j; t_j, a_j, m_j)` to entry `k`. -/
theorem contribution_projected (cfg : SiteCfg) (pt t a : List Nat) (hp : cfg.projectTo = some pt) (k : List Nat)
    (hk : InB (pt.map (· + 1)) k) :
    (contribOfSite (α := α) cfg (some (.projected t a))).getD (flat (pt.map (· + 1)) k) 0 = projectValue t a pt k := by
  exact contribOfSite_projected_flat cfg pt t a hp k hk

/-- In the boundary case `t = m` the exact count is the same as the hypergeometric formula (which degenerates to an
    indicator), so `Standard` and `Projected` sites agree. -/
theorem exact_eq_projected (cfg : SiteCfg) (pt a : List Nat) (hp : cfg.projectTo = some pt)
    (hl : a.length = pt.length) (hle : ∀ j, j < pt.length → a.getD j 0 ≤ pt.getD j 0) :
    contribOfSite (α := α) cfg (some (.standard a)) = contribOfSite (α := α) cfg (some (.projected pt a)) := by
  exact contribOfSite_exact_eq_projected cfg pt a hp hl hle

/-- A record short in some population adds nothing. -/
theorem insufficient_contributes_nothing (cfg : SiteCfg) (f : Nat) :
    (contribOfSite (α := α) cfg (some .insufficient)).getD f 0 = 0 := by
  exact contribOfSite_zero_getD cfg _ (Or.inr rfl) f

/-- run_projected_eq_spec: the output has shape `(m_1+1, …, m_d+1)` and is the sum over records of their
    contributions. -/
theorem run_projected_eq_spec (cfg : SiteCfg) (hc : CfgOk cfg) (pt : List Nat) (hp : cfg.projectTo = some pt)
    (recs : List Rec) (hwf : ∀ r ∈ recs, RecWf cfg r) (hok : ∀ r ∈ recs, recOk cfg r = true) :
    cfg.outShape = pt.map (· + 1) ∧
    createRun (α := α) cfg false recs = .ok (sumContrib cfg recs, recs.length, (recs.filter (recSkipped cfg)).length) := by
  exact ⟨outShape_proj cfg pt hp, C11.run_eq_sum cfg hc recs hwf hok⟩

/-- individuals_eq_shape: `--project-individuals i` means `--project-shape 2i+1`. -/
theorem individuals_eq_shape (is : List Nat) (h : ∀ i ∈ is, i < 2 ^ 62) :
    individualsToShape is = is.map (fun i => 2 * i + 1) := by
  exact individualsToShape_eq is h

/-! ### builder decision logic: dimensionality, then first oversized axis, then zero -/

theorem unequal_dimensions_error (samples : Option (List (String × Pop))) (toShape : List Nat) (cols : List String)
    (cfg0 : SiteCfg) (h0 : buildSite samples none cols = .ok cfg0) (hd : (mapShape cfg0.map).length ≠ toShape.length) :
    buildSite samples (some toShape) cols =
      .error (.projection (.unequalDimensions (mapShape cfg0.map).length toShape.length)) := by
  rw [buildSite_some_of_none samples toShape cols cfg0 h0, if_pos hd]

theorem oversized_error (samples : Option (List (String × Pop))) (toShape : List Nat) (cols : List String)
    (cfg0 : SiteCfg) (h0 : buildSite samples none cols = .ok cfg0) (hd : (mapShape cfg0.map).length = toShape.length)
    (j : Nat) (hj : j < toShape.length) (hlt : (mapShape cfg0.map).getD j 0 < toShape.getD j 0)
    (hfirst : ∀ i, i < j → toShape.getD i 0 ≤ (mapShape cfg0.map).getD i 0) :
    buildSite samples (some toShape) cols =
      .error (.projection (.invalidProjection j ((mapShape cfg0.map).getD j 0) (toShape.getD j 0))) := by
  have hfs := firstSmaller_some (mapShape cfg0.map) toShape 0 j hd hj hlt hfirst
  rw [buildSite_some_of_none samples toShape cols cfg0 h0, if_neg (not_not.mpr hd), hfs, Nat.zero_add]

theorem zero_error (samples : Option (List (String × Pop))) (toShape : List Nat) (cols : List String)
    (cfg0 : SiteCfg) (h0 : buildSite samples none cols = .ok cfg0) (hd : (mapShape cfg0.map).length = toShape.length)
    (hle : ∀ i, i < toShape.length → toShape.getD i 0 ≤ (mapShape cfg0.map).getD i 0) (hz : 0 ∈ toShape) :
    buildSite samples (some toShape) cols = .error (.projection .zero) := by
  have hfs := (firstSmaller_none_iff (mapShape cfg0.map) toShape 0 hd).mpr hle
  rw [buildSite_some_of_none samples toShape cols cfg0 h0, if_neg (not_not.mpr hd), hfs,
    (countOfShape_none_iff toShape).mpr hz]

theorem admissible_ok (samples : Option (List (String × Pop))) (toShape : List Nat) (cols : List String)
    (cfg0 : SiteCfg) (h0 : buildSite samples none cols = .ok cfg0) (hd : (mapShape cfg0.map).length = toShape.length)
    (hle : ∀ i, i < toShape.length → toShape.getD i 0 ≤ (mapShape cfg0.map).getD i 0) (hz : 0 ∉ toShape) :
    buildSite samples (some toShape) cols = .ok ⟨cfg0.map, cfg0.cols, some (toShape.map (· - 1))⟩ := by
  have hfs := (firstSmaller_none_iff (mapShape cfg0.map) toShape 0 hd).mpr hle
  have hcs := (countOfShape_some_iff toShape _).mpr
    ⟨fun v hv => Nat.pos_of_ne_zero (fun e => hz (e ▸ hv)), rfl⟩
  rw [buildSite_some_of_none samples toShape cols cfg0 h0, if_neg (not_not.mpr hd), hfs, hcs]

/-- create_then_project (C03's last law): when no selected genotype is missing or multiallelic, projecting the
    spectrum created without projection equals creating with projection. -/
theorem create_then_project (cfg : SiteCfg) (hc : CfgOk cfg) (hnp : cfg.projectTo = none)
    (toShape pt : List Nat) (hpt : countOfShape toShape = some pt)
    (hd : (mapShape cfg.map).length = toShape.length)
    (hle : ∀ i, i < toShape.length → toShape.getD i 0 ≤ (mapShape cfg.map).getD i 0)
    (recs : List Rec) (hwf : ∀ r ∈ recs, RecWf cfg r)
    (hcomplete : ∀ r ∈ recs, ∃ c p l, r = .gts c p l ∧ hasPloidyError (selected cfg.map cfg.cols l) = false ∧
        complete (selected cfg.map cfg.cols l) = true)
    (scs scs' : List α) (n k n' k' : Nat)
    (h1 : createRun (α := α) cfg false recs = .ok (scs, n, k))
    (h2 : createRun (α := α) ⟨cfg.map, cfg.cols, some pt⟩ false recs = .ok (scs', n', k')) :
    project (⟨scs, mapShape cfg.map⟩ : Arr α) toShape = .ok ⟨scs', toShape⟩ := by
  exact create_then_project_full cfg hc hnp toShape pt hpt hd hle recs hwf hcomplete scs scs' n k n' k' h1 h2

/-! non-vacuity: one population short, one exactly sufficient -/
example :
    let cfg : SiteCfg := ⟨[("a", 0), ("b", 1), ("c", 0)], ["a", "b", "c"], some [2, 2]⟩
    siteSpec cfg [.genotype 1, .genotype 1, .skipped .missing] = some (.standard [1, 1]) ∧
    siteSpec cfg [.genotype 1, .skipped .missing, .genotype 2] = some .insufficient ∧
    siteSpec cfg [.genotype 1, .genotype 2, .genotype 2] = some (.projected [4, 2] [3, 2]) := by decide

end Sfs.C02
