/-
C14 (monomorphic entries, swapping, scaling) — the statistics other than sum and f2/f3/f4 do not depend on the two monomorphic entries;
f2, Fst, pi_xy, KING, R0, R1 are symmetric in the two populations; multiplying the spectrum by a non-zero constant leaves
f2, f3, f4, Fst, KING, R0, R1 unchanged and scales sum, S, pi, pi_xy, theta. Property theorems only.
-/
import SfsModel.Model.Stat
import SfsModel.Spec.Stat
import SfsModel.Lemmas.StatRel
import Mathlib.Algebra.Field.Basic
import Mathlib.Algebra.CharZero.Defs
namespace Sfs.C14
open Sfs Sfs.Spec

variable {α : Type} [Field α] [CharZero α]

/-- A well-formed spectrum: one value per cell, every population has at least one chromosome. -/
def Wf' (a : Arr α) : Prop := a.data.length = size a.shape ∧ ∀ v ∈ a.shape, 2 ≤ v

/-! ## the two monomorphic entries do not matter (except for sum, f2, f3, f4) -/

theorem mono_independent_S (a : Arr α) (h : Wf' a) (p q : α) : segregating (setMono a p q).data = segregating a.data := by
  exact sr_segregating_setMono a.data p q

theorem mono_independent_pi (a : Arr α) (h : Wf' a) (p q : α) : statPi (setMono a p q).data = statPi a.data := by
  exact sr_thetaEstimate_setMono _ a.data p q

theorem mono_independent_theta (a : Arr α) (h : Wf' a) (p q : α) : statTheta (setMono a p q).data = statTheta a.data := by
  exact sr_thetaEstimate_setMono _ a.data p q

theorem mono_independent_tajimaD (a : Arr α) (h : Wf' a) (p q : α) :
    (dTajima (setMono a p q).data).num = (dTajima a.data).num ∧ (dTajima (setMono a p q).data).var = (dTajima a.data).var := by
  simp only [setMono, sr_dTajima_setMono, and_self]

/-- (for a one-population spectrum of at least two chromosomes the singleton class is not a monomorphic entry) -/
theorem mono_independent_fuLiD (a : Arr α) (h : Wf' a) (h3 : 3 ≤ a.data.length) (p q : α) :
    (dFuLi (setMono a p q).data).map (fun d => (d.num, d.var)) = (dFuLi a.data).map (fun d => (d.num, d.var)) := by
  simp only [setMono, sr_dFuLi_setMono a.data p q h3]

theorem mono_independent_pixy (a : Arr α) (h : Wf' a) (h2 : a.shape.length = 2) (p q : α) :
    statPiXY (setMono a p q) = statPiXY a := by
  exact sr_statPiXY_setMono a h.1 h.2 h2 p q

theorem mono_independent_fst (a : Arr α) (h : Wf' a) (h2 : a.shape.length = 2) (p q : α)
    (hs : sumList a.data ≠ 0) (hs' : sumList (setMono a p q).data ≠ 0) :
    statFst (normalized (setMono a p q)) = statFst (normalized a) := by
  exact sr_statFst_setMono a p q hs hs'

theorem mono_independent_king (a : Arr α) (h : Wf' a) (h33 : a.shape = [3, 3]) (p q : α) :
    statKing (setMono a p q) = statKing a ∧ statR0 (setMono a p q) = statR0 a ∧ statR1 (setMono a p q) = statR1 a := by
  exact sr_king_setMono a (by rw [h.1, h33]; rfl) p q

/-! ## swapping the two populations -/

theorem swap_invariant_f2 (a : Arr α) (h : Wf' a) (h2 : a.shape.length = 2) :
    statF2 (normalized (swapPops a)) = statF2 (normalized a) := by
  exact sr_statF2_swap a h.1 h.2 h2

theorem swap_invariant_fst (a : Arr α) (h : Wf' a) (h2 : a.shape.length = 2) :
    statFst (normalized (swapPops a)) = statFst (normalized a) := by
  exact sr_statFst_swap a h.1 h.2 h2

theorem swap_invariant_pixy (a : Arr α) (h : Wf' a) (h2 : a.shape.length = 2) : statPiXY (swapPops a) = statPiXY a := by
  exact sr_statPiXY_swap a h.1 h.2 h2

theorem swap_invariant_king (a : Arr α) (h : Wf' a) (h33 : a.shape = [3, 3]) :
    statKing (swapPops a) = statKing a ∧ statR0 (swapPops a) = statR0 a ∧ statR1 (swapPops a) = statR1 a := by
  exact sr_king_swap a h33

/-! ## scaling by a non-zero constant -/

theorem scale_free (a : Arr α) (c : α) (hc : c ≠ 0) (hs : sumList a.data ≠ 0) :
    statF2 (normalized (scaleBy c a)) = statF2 (normalized a) ∧ statF3 (normalized (scaleBy c a)) = statF3 (normalized a) ∧
    statF4 (normalized (scaleBy c a)) = statF4 (normalized a) ∧ statFst (normalized (scaleBy c a)) = statFst (normalized a) ∧
    statKing (scaleBy c a) = statKing a ∧ statR0 (scaleBy c a) = statR0 a ∧ statR1 (scaleBy c a) = statR1 a := by
  rw [sr_normalized_scaleBy c hc a]
  exact ⟨rfl, rfl, rfl, rfl, sr_king_scale c hc a⟩

theorem scale_linear (a : Arr α) (c : α) :
    sumList (scaleBy c a).data = c * sumList a.data ∧ segregating (scaleBy c a).data = c * segregating a.data ∧
    statPi (scaleBy c a).data = c * statPi a.data ∧ statTheta (scaleBy c a).data = c * statTheta a.data ∧
    statPiXY (scaleBy c a) = c * statPiXY a := by
  exact sr_scale_linear c a

/-! non-vacuity -/
example : statFst (α := Rat) (normalized (swapPops ⟨[5, 1, 4, 2, 8, 3, 0, 7, 6, 9, 2, 1], [4, 3]⟩)) = statFst (normalized ⟨[5, 1, 4, 2, 8, 3, 0, 7, 6, 9, 2, 1], [4, 3]⟩) ∧
    statFst (α := Rat) (normalized ⟨[5, 1, 4, 2, 8, 3, 0, 7, 6, 9, 2, 1], [4, 3]⟩) ≠ 0 := by
  decide +kernel

end Sfs.C14
