/-
C07 (npy half) — spectrum files round-trip through npy; the tool reads what it writes.
Property theorems only. Values are binary64 bit patterns (`Nat` below 2^64): bit-identical means equal patterns.
-/
import SfsModel.Model.Text
import SfsModel.Lemmas.Bytes
import SfsModel.Lemmas.NpyRoundtrip
namespace Sfs.C07
open Sfs

/-- A spectrum as the writer sees it: non-empty shape, one pattern per element, where the element count is the
    *checked* product — exactly the `Array::new` invariant (`Arr.new?`) every constructible spectrum satisfies
    (the product of the non-zero lengths fits 64 bits; see `checkedSize`). The plain `size shape < 2^64 ∧
    bits.length = size shape` formulation is too weak: for shape `[2^63, 2^63, 0]`, `bits = []` the product is 0
    but `checked_elements` rejects it, so both readers reject what the writers would emit. -/
def WfSpectrum (shape bits : List Nat) : Prop :=
  shape ≠ [] ∧ (∀ v ∈ shape, v < 2 ^ 64) ∧ checkedSize shape = some bits.length ∧ ∀ b ∈ bits, b < 2 ^ 64

/-- npy_roundtrip: writing any spectrum and reading it back returns the same shape and bit-identical values
    (NaN payloads, infinities, signed zeros, subnormals included). -/
theorem npy_roundtrip (shape bits bytes : List Nat) (hwf : WfSpectrum shape bits)
    (hw : writeNpy shape bits = .ok bytes) : readNpy bytes = .ok (shape, bits) := by
  obtain ⟨hne, hb, hsz, hbits⟩ := hwf
  obtain ⟨hd, hh, rfl⟩ := writeNpy_eq_ok shape bits bytes hw
  obtain ⟨L, pad, rfl, hL, _, _, hlt⟩ := npyHeader_layout shape hd hh
  rw [readNpy_written shape hne hb L pad hL hlt,
    readValues_le_f8_flatten bits _ hbits (by rw [flatten_leBytes8_length]; omega)]
  simp only [hsz, if_true]

/-- The npy writer succeeds whenever the header dictionary fits the v1.0 length field. -/
theorem writeNpy_ok (shape bits : List Nat) (h : (npyDict shape).length + 64 < 65536) :
    ∃ bytes, writeNpy shape bits = .ok bytes := by
  obtain ⟨hd, hh⟩ := npyHeader_isSome shape h
  exact ⟨hd ++ (bits.map (leBytes 8)).flatten, by simp only [writeNpy, hh]⟩

/-- detect_exclusive: what either writer emits is detected as exactly that format. -/
theorem detect_npy (shape bits bytes : List Nat) (hw : writeNpy shape bits = .ok bytes) :
    detectFormat bytes = some .npy := by
  obtain ⟨hd, hh, rfl⟩ := writeNpy_eq_ok shape bits bytes hw
  obtain ⟨t, rfl⟩ := npyHeader_magic shape hd hh
  rw [List.append_assoc]; exact detectFormat_npyMagic _

/-- The tool reads what it writes (npy): auto-detection + reader return the spectrum written. -/
theorem reads_what_it_writes_npy (shape bits bytes : List Nat) (hwf : WfSpectrum shape bits)
    (hw : writeNpy shape bits = .ok bytes) : readSpectrum bytes = .ok (shape, bits) := by
  simp only [readSpectrum, detect_npy shape bits bytes hw, npy_roundtrip shape bits bytes hwf hw]

/-! non-vacuity: shape [2,1,3] with NaN, -0.0, a subnormal, 1e308, -inf -/
example : (readNpy ((writeNpy [2, 1, 3] [0x7ff8000000000001, 0x8000000000000000, 1, 0x7fe1ccf385ebc8a0, 0xfff0000000000000, 0x3ff0000000000000]).toOption.getD [])).toOption
    = some ([2, 1, 3], [0x7ff8000000000001, 0x8000000000000000, 1, 0x7fe1ccf385ebc8a0, 0xfff0000000000000, 0x3ff0000000000000]) := by
  decide +kernel

end Sfs.C07
