/-
C06 (command line) — `sfs stat` reports each requested statistic in the column it was asked for, computed on the spectrum
that was read: the i-th value of the row is the i-th statistic of `-s`, whatever else is requested in the same invocation
and in whatever order; the header row, if any, names the columns in the same order; a statistic computed in company has
the value it has alone. (What `statCli` transcribes: `Stat::run` + `Runner::run`, cli/src/stat.rs, cli/src/stat/runner.rs.)
Property theorems only.
-/
import SfsModel.Model.Stat
import SfsModel.Lemmas.StatCli
namespace Sfs.C06
open Sfs

variable {α : Type} [Add α] [Sub α] [Mul α] [Div α] [NatCast α] [OfNat α 0] [OfNat α 1]

/-- stat_row_order: the row has one entry per requested statistic, and entry i is `statCalc` of the i-th requested
    statistic on the spectrum, paired with the i-th precision (or the single common one). -/
theorem stat_row_order (kinds : List StatKind) (ps : List Nat) (header : Bool) (delim : Char) (a : Arr α)
    (hdr : Option String) (row : List (StatVal α × Nat)) (h : statCli kinds ps header delim a = .done hdr row) :
    row.length = kinds.length ∧
    ∀ i (hi : i < kinds.length), ∃ v, statCalc kinds[i] a = .ok v ∧ (row[i]?).map (·.1) = some v := by
  have hlen : row.length = kinds.length := by
    obtain ⟨ps', hl, _, _, hrow, _⟩ := statCli_done kinds ps header delim a hdr row h
    simp [hrow, hl]
  refine ⟨hlen, fun i hi => ?_⟩
  obtain ⟨_, hok, hcol⟩ := statCli_done_col kinds ps header delim a hdr row h i hi
  exact ⟨_, hok, hcol⟩

/-- stat_alone_or_in_company: a statistic that is part of a successful multi-statistic invocation has, in its column,
    exactly the value a single-statistic invocation reports. -/
theorem stat_alone_or_in_company (kinds : List StatKind) (ps : List Nat) (header : Bool) (delim : Char) (a : Arr α)
    (hdr : Option String) (row : List (StatVal α × Nat)) (h : statCli kinds ps header delim a = .done hdr row)
    (i : Nat) (hi : i < kinds.length) (p : Nat) :
    ∃ v, statCli [kinds[i]] [p] false delim a = .done none [(v, p)] ∧ (row[i]?).map (·.1) = some v := by
  obtain ⟨_, hok, hcol⟩ := statCli_done_col kinds ps header delim a hdr row h i hi
  refine ⟨statValOf a kinds[i], ?_, hcol⟩
  rw [statCli_single [kinds[i]] p delim a (by intro k hk; rw [List.mem_singleton.mp hk]; exact ⟨_, hok⟩)]
  rfl

/-- stat_header_order: the header row names the statistics in the requested order, separated by the delimiter. -/
theorem stat_header_order (kinds : List StatKind) (ps : List Nat) (delim : Char) (a : Arr α)
    (hdr : Option String) (row : List (StatVal α × Nat)) (h : statCli kinds ps true delim a = .done hdr row) :
    hdr = some (String.intercalate (String.singleton delim) (kinds.map StatKind.headerName)) := by
  obtain ⟨_, _, _, _, _, hh⟩ := statCli_done kinds ps true delim a hdr row h
  rw [hh]; rfl

/-- stat_permutation: requesting the same statistics in another order permutes the row accordingly. -/
theorem stat_permutation (kinds kinds' : List StatKind) (p : Nat) (delim : Char) (a : Arr α)
    (row row' : List (StatVal α × Nat)) (hp : kinds.Perm kinds')
    (h : statCli kinds [p] false delim a = .done none row) (h' : statCli kinds' [p] false delim a = .done none row') :
    row.Perm row' := by
  obtain ⟨_, _, _, hok, _, _⟩ := statCli_done kinds [p] false delim a none row h
  obtain ⟨_, _, _, hok', _, _⟩ := statCli_done kinds' [p] false delim a none row' h'
  rw [statCli_single kinds p delim a hok] at h
  rw [statCli_single kinds' p delim a hok'] at h'
  simp only [StatCliOut.done.injEq, true_and] at h h'
  rw [← h, ← h']
  exact hp.map _

/-! non-vacuity -/
example : ∃ row, statCli (α := Rat) [.sum, .s, .piXY, .f2] [6] false ',' ⟨[10, 4, 1, 3, 2, 0, 2, 0, 0], [3, 3]⟩ = .done none row ∧ row.length = 4 := by
  have hok : ∀ k ∈ [StatKind.sum, .s, .piXY, .f2], ∃ v, statCalc (α := Rat) k ⟨[10, 4, 1, 3, 2, 0, 2, 0, 0], [3, 3]⟩ = .ok v := by
    intro k hk
    simp only [List.mem_cons, List.not_mem_nil, or_false] at hk
    rcases hk with rfl | rfl | rfl | rfl <;> exact ⟨_, rfl⟩
  exact ⟨_, statCli_single _ 6 ',' _ hok, rfl⟩

end Sfs.C06
