/-
C18 (call sets) — I/O errors surface when a call set is read: in the model of `sfs create` over a stream
(`createFromRd`: read-ahead prefix, detection, then everything the reader still delivers, decode, run), a reader that fails
at any byte offset up to and including the end of the stream makes the whole operation fail — no spectrum is produced from
the bytes that arrived before the failure. Holds for any codecs, in particular the concrete ones of `Model/Container.lean`.
(The implementation reads lazily through noodles and may stop even earlier, at a genotype error; the correspondence
injects failures at per-mille offsets of every container and requires an error or — only when the failure lies behind
the last byte actually needed — the complete result.) Property theorems only.
-/
import SfsModel.Model.Container
import SfsModel.Lemmas.CreateFail
import SfsModel.Props.C18
import SfsModel.Props.C12B
namespace Sfs.C18
open Sfs

/-- create_read_failure_surfaces: a failing reader never yields a spectrum. -/
theorem create_read_failure_surfaces (inflate3 : List Nat → Option (List Nat)) (decode : Container → List Nat → Option CallSet)
    (a : CreateArgs) (data sched : List Nat) (k : Nat) (hk : k ≤ data.length) :
    createFromRd inflate3 decode a (Rd.fresh data sched (some k)) = none :=
  createFromRd_fail inflate3 decode a (Rd.fresh data sched (some k)) k ⟨rfl, Nat.zero_le _, hk⟩

/-- … in particular with the concrete container codecs. -/
theorem create_read_failure_surfaces_bytes (a : CreateArgs) (data sched : List Nat) (k : Nat) (hk : k ≤ data.length) :
    createFromRd Sfs.inflate3 decodeContainer a (Rd.fresh data sched (some k)) = none :=
  create_read_failure_surfaces Sfs.inflate3 decodeContainer a data sched k hk

/-! non-vacuity: without the failure the same stream yields a result -/
example : (createFromRd Sfs.inflate3 decodeContainer {} (Rd.fresh (encodeContainer 7 ["s0"] ["1"] [("1", 5, [.genotype 1])] .vcf) [1, 2, 3] none)).isSome = true := by
  have hwf : WfCallSet ["s0"] ["1"] [("1", 5, [.genotype 1])] := by
    refine ⟨by decide, ?_, by decide, ?_, by decide, ?_, ?_⟩
    · simp only [List.mem_cons, List.not_mem_nil, or_false]
      rintro c rfl; unfold WfName; decide
    · simp only [List.mem_cons, List.not_mem_nil, or_false]
      rintro c rfl; unfold WfContig; decide
    · simp only [List.mem_cons, List.not_mem_nil, or_false]
      rintro r rfl; simp [WfGt]
    · simp only [List.mem_cons, List.not_mem_nil, or_false]
      rintro r rfl; decide
  have hfits : FitsBcf ["s0"] ["1"] [("1", 5, [.genotype 1])] := by
    refine ⟨by decide, by decide, by decide +kernel, ?_⟩
    simp only [List.mem_cons, List.not_mem_nil, or_false]
    rintro r rfl; decide
  show (createFromRd Sfs.inflate3 decodeContainer {}
    { data := encodeContainer 7 ["s0"] ["1"] [("1", 5, [.genotype 1])] .vcf, sched := [1, 2, 3], avail := 0, failAt := none }).isSome = true
  rw [Sfs.C12.create_schedule_free_bytes, Sfs.C12.containers_agree_bytes {} 7 (by omega) _ _ _ hwf hfits .vcf]
  rfl

end Sfs.C18
