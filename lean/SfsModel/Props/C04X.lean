/-
C04 (extension) — marginalizing populations out of the joint spectrum of a call set gives the spectrum of the same sites
with those populations ignored: for call sets that are complete on all selected samples this is the spectrum `create`
produces for the remaining populations. Property theorems only.
-/
import SfsModel.Props.C04
import SfsModel.Props.C06G
import SfsModel.Lemmas.MargSites
namespace Sfs.C04
open Sfs Sfs.C06

variable {α : Type} [Field α] [CharZero α]

/-- marginal_is_spectrum: if `x` is the spectrum of the sites `ks` (per-population ALT counts), then its marginal over
    the removed axes is the spectrum of the sites with those populations dropped, over the remaining axes. -/
theorem marginal_is_spectrum (shape : List Nat) (ks : List (List Nat)) (x : List α) (h : IsSpectrumOf shape ks x)
    (axes : List Nat) (m : Arr α) (hm : marginalize ⟨x, shape⟩ axes = .ok m) :
    IsSpectrumOf (dropAxes axes shape) (ks.map (dropAxes axes)) m.data ∧ m.shape = dropAxes axes shape := by
  obtain ⟨hnd, hb, hl⟩ := marginalize_ok_inv _ m axes hm
  rw [marginalize_ok _ axes hnd hb hl] at hm
  cases hm
  have hM := (marginalize_isMarg (⟨x, shape⟩ : Arr α) axes h.1 hnd hb).1
  exact ⟨ms_spec axes ⟨x, shape⟩ _ ks h hM, hM.1⟩

/-- … in particular the joint spectrum of populations (A, B) marginalized over B counts, in cell `k_A`, the sites with
    `k_A` ALT alleles in A whatever B carries. -/
theorem marginal_counts (shape : List Nat) (ks : List (List Nat)) (x : List α) (h : IsSpectrumOf shape ks x)
    (axes : List Nat) (m : Arr α) (hm : marginalize ⟨x, shape⟩ axes = .ok m) (k' : List Nat)
    (hk : InB (dropAxes axes shape) k') :
    m.data.getD (flat (dropAxes axes shape) k') 0 = (((ks.filter (fun k => dropAxes axes k = k')).length : Nat) : α) := by
  obtain ⟨hnd, hb, hl⟩ := marginalize_ok_inv _ m axes hm
  rw [marginalize_ok _ axes hnd hb hl] at hm
  cases hm
  have hM := (marginalize_isMarg (⟨x, shape⟩ : Arr α) axes h.1 hnd hb).1
  exact ms_counts axes ⟨x, shape⟩ _ ks h hM k' hk

/-! non-vacuity -/
example : (marginalize (⟨[0, 0, 0, 2, 0, 0, 0, 1, 0, 0, 0, 0, 0, 0, 1], [5, 3]⟩ : Arr Rat) [1]).toOption.map (·.data) = some [0, 2, 1, 0, 1] := by
  decide +kernel

end Sfs.C04
