/-
C09 — axes follow first appearance of population labels; only listed samples count.
Property theorems only.
-/
import SfsModel.Model.Create
import SfsModel.Lemmas.Samples
namespace Sfs.C09
open Sfs

/-- Labels are numbered in order of first appearance: the result has no duplicates, the same members, and
    `idxOf` compares like the position of the first occurrence. -/
theorem distinct_first_appearance {κ} [DecidableEq κ] (l : List κ) :
    (distinctInOrder l).Nodup ∧ (∀ x, x ∈ distinctInOrder l ↔ x ∈ l) ∧
      ∀ x y, x ∈ l → y ∈ l → ((distinctInOrder l).idxOf x < (distinctInOrder l).idxOf y ↔ l.idxOf x < l.idxOf y) := by
  exact distinct_spec l

/-- ids_first_appearance: for a list without repeated samples, sample `s` with label `p` gets the position of `p`
    among the distinct labels in first-appearance order (unnamed is one label like any other). -/
theorem ids_first_appearance (l : List (String × Pop)) (hnd : (l.map (·.1)).Nodup) :
    sampleMap l = l.map (fun sp => (sp.1, (distinctInOrder (l.map (·.2))).idxOf sp.2)) := by
  exact sampleMap_of_nodup l hnd

/-- A sample listed twice counts once, the last entry deciding its population, at the position of the first. -/
theorem duplicate_sample_last_wins (pre post : List (String × Pop)) (s : String) (p : Pop)
    (hpost : s ∉ post.map (·.1)) :
    (indexMapOfList (pre ++ (s, p) :: post)).lookup s = some p ∧
    ((indexMapOfList (pre ++ (s, p) :: post)).map (·.1)) = distinctInOrder ((pre ++ (s, p) :: post).map (·.1)) := by
  exact ⟨lookup_indexMapOfList_last pre post s p hpost, keys_indexMapOfList _⟩

/-- axis_len: axis `j` has length `2 * (number of listed samples with the j-th label) + 1`, and there is one axis
    per distinct label. -/
theorem axis_len (l : List (String × Pop)) (hnd : (l.map (·.1)).Nodup) :
    mapShape (sampleMap l) =
      (distinctInOrder (l.map (·.2))).map (fun p => 2 * (l.filter (fun sp => sp.2 = p)).length + 1) := by
  exact mapShape_sampleMap_of_nodup l hnd

/-- The site classification (counts per population, or skip, or abort). -/
def siteOf (cfg : SiteCfg) (gts : List GtRes) : Option Site :=
  (readSite cfg (SiteSt.fresh (numPops cfg.map)) gts).1

/-- column_perm_invariant: reordering the sample columns of the input (names and genotypes together) leaves every
    site unchanged — lookup is by name. -/
theorem column_perm_invariant (map : List (String × Nat)) (pt : Option (List Nat))
    (cols cols' : List String) (gts gts' : List GtRes)
    (hl : cols.length = gts.length) (hl' : cols'.length = gts'.length)
    (hp : (cols.zip gts).Perm (cols'.zip gts')) :
    siteOf ⟨map, cols, pt⟩ gts = siteOf ⟨map, cols', pt⟩ gts' := by
  -- the length hypotheses are not needed: `tally` and `List.zip` both stop at the shorter list
  have _ := hl; have _ := hl'
  unfold siteOf
  refine readSite_fst_congr ⟨map, cols, pt⟩ ⟨map, cols', pt⟩ _ _ gts gts' rfl ?_
  show summ (tally map cols gts _) = summ (tally map cols' gts' _)
  rw [tally_eq_tallyP, tally_eq_tallyP]
  exact tallyP_perm map hp _

/-- list_reorder_invariant: two sample lists with the same (sample, label) pairs and the same first-appearance
    order of labels give the same map up to entry order, hence the same shape and the same sites. -/
theorem list_reorder_invariant (l l' : List (String × Pop)) (hnd : (l.map (·.1)).Nodup) (hp : l.Perm l')
    (ho : distinctInOrder (l.map (·.2)) = distinctInOrder (l'.map (·.2))) :
    (∀ s, lookupPop (sampleMap l) s = lookupPop (sampleMap l') s) ∧ mapShape (sampleMap l) = mapShape (sampleMap l')
      ∧ numPops (sampleMap l) = numPops (sampleMap l') := by
  exact sampleMap_reorder l l' hnd hp ho

/-- The site only depends on the map through `lookupPop` (and the number of populations). -/
theorem site_depends_on_lookup (m m' : List (String × Nat)) (pt : Option (List Nat)) (cols : List String) (gts : List GtRes)
    (hlk : ∀ s, lookupPop m s = lookupPop m' s) (hn : numPops m = numPops m') :
    siteOf ⟨m, cols, pt⟩ gts = siteOf ⟨m', cols, pt⟩ gts := by
  unfold siteOf
  show (readSite ⟨m, cols, pt⟩ (SiteSt.fresh (numPops m)) gts).1 =
    (readSite ⟨m', cols, pt⟩ (SiteSt.fresh (numPops m')) gts).1
  rw [← hn]
  refine readSite_fst_congr ⟨m, cols, pt⟩ ⟨m', cols, pt⟩ _ _ gts gts rfl ?_
  show summ (tally m cols gts _) = summ (tally m' cols gts _)
  rw [tally_eq_tallyP, tally_eq_tallyP]
  exact tallyP_congr m m' hlk _ _ _ rfl

/-- samples_arg_eq_file: for names and labels free of `,` `=` tab and newline the two spellings denote the same list. -/
def renderArgItem (sp : List Char × Option (List Char)) : List Char :=
  match sp.2 with
  | some p => sp.1 ++ '=' :: p
  | none => sp.1

def renderFileItem (sp : List Char × Option (List Char)) : List Char :=
  match sp.2 with
  | some p => sp.1 ++ '\t' :: p
  | none => sp.1

def asEntry (sp : List Char × Option (List Char)) : String × Pop :=
  (String.ofList sp.1, match sp.2 with | some p => .named (String.ofList p) | none => .unnamed)

def clean (l : List Char) : Prop := ',' ∉ l ∧ '=' ∉ l ∧ '\t' ∉ l ∧ '\n' ∉ l

theorem arg_item (sp : List Char × Option (List Char)) (h1 : clean sp.1) (h2 : ∀ p, sp.2 = some p → clean p) :
    parseSampleArg (renderArgItem sp) = asEntry sp ∧ parseSampleLine (renderFileItem sp) = asEntry sp := by
  obtain ⟨k, o⟩ := sp
  have hk : clean k := h1
  cases o with
  | none =>
    exact ⟨parseSampleArg_unnamed k hk.2.1, parseSampleLine_unnamed k hk.2.2.1⟩
  | some p =>
    exact ⟨parseSampleArg_named k p hk.2.1, parseSampleLine_named k p hk.2.2.1⟩

/-- what the hypotheses of the two theorems below say about the rendered items (short glue) -/
private theorem items_facts (L : List (List Char × Option (List Char)))
    (h1 : ∀ sp ∈ L, clean sp.1 ∧ sp.1 ≠ []) (h2 : ∀ sp ∈ L, ∀ p, sp.2 = some p → clean p)
    (h3 : ∀ sp ∈ L, (renderFileItem sp).getLast? ≠ some '\r') :
    (∀ sp ∈ L, (parseSampleArg ∘ renderArgItem) sp = asEntry sp) ∧
    (∀ sp ∈ L, (parseSampleLine ∘ renderFileItem) sp = asEntry sp) ∧
    (∀ t ∈ L.map renderFileItem, '\n' ∉ t) ∧ (∀ t ∈ L.map renderFileItem, t ≠ []) ∧
    (∀ t ∈ L.map renderFileItem, t.getLast? ≠ some '\r') := by
  refine ⟨fun sp hsp => (arg_item sp (h1 sp hsp).1 (h2 sp hsp)).1, fun sp hsp => (arg_item sp (h1 sp hsp).1 (h2 sp hsp)).2,
    ?_, ?_, ?_⟩
  · intro t ht
    obtain ⟨⟨k, o⟩, hsp, rfl⟩ := List.mem_map.1 ht
    have hk := (h1 _ hsp).1
    cases o with
    | none => exact hk.2.2.2
    | some p =>
      have hp := h2 _ hsp p rfl
      have hk' : '\n' ∉ k := hk.2.2.2
      have hp' : '\n' ∉ p := hp.2.2.2
      simp [renderFileItem, hk', hp']
  · intro t ht
    obtain ⟨⟨k, o⟩, hsp, rfl⟩ := List.mem_map.1 ht
    have hk : k ≠ [] := (h1 _ hsp).2
    cases o <;> simp [renderFileItem, hk]
  · intro t ht
    obtain ⟨sp, hsp, rfl⟩ := List.mem_map.1 ht
    exact h3 sp hsp

private theorem items_no_comma (L : List (List Char × Option (List Char)))
    (h1 : ∀ sp ∈ L, clean sp.1 ∧ sp.1 ≠ []) (h2 : ∀ sp ∈ L, ∀ p, sp.2 = some p → clean p) :
    ∀ t ∈ L.map renderArgItem, ',' ∉ t := by
  intro t ht
  obtain ⟨⟨k, o⟩, hsp, rfl⟩ := List.mem_map.1 ht
  have hk := (h1 _ hsp).1
  cases o with
  | none => exact hk.1
  | some p =>
    have hp := h2 _ hsp p rfl
    have hk' : ',' ∉ k := hk.1
    have hp' : ',' ∉ p := hp.1
    simp [renderArgItem, hk', hp']

theorem samples_arg_eq_file (L : List (List Char × Option (List Char))) (hne : L ≠ [])
    (h1 : ∀ sp ∈ L, clean sp.1 ∧ sp.1 ≠ []) (h2 : ∀ sp ∈ L, ∀ p, sp.2 = some p → clean p)
    (h3 : ∀ sp ∈ L, (renderFileItem sp).getLast? ≠ some '\r') :
    parseSamplesArg (List.intercalate [','] (L.map renderArgItem)) = L.map asEntry ∧
    parseSamplesFile (List.intercalate ['\n'] (L.map renderFileItem) ++ ['\n']) = L.map asEntry ∧
    parseSamplesFile (List.intercalate ['\n'] (L.map renderFileItem)) = L.map asEntry := by
  obtain ⟨ha, hf, hnl, hne', hcr⟩ := items_facts L h1 h2 h3
  have hLne : L.map renderFileItem ≠ [] := by simpa using hne
  refine ⟨?_, ?_, ?_⟩
  · rw [parseSamplesArg_intercalate _ (by simpa using hne) (items_no_comma L h1 h2), List.map_map]
    exact List.map_congr_left ha
  · rw [parseSamplesFile_intercalate_nl _ hLne hnl hcr, List.map_map]
    exact List.map_congr_left hf
  · rw [parseSamplesFile_intercalate _ hLne hnl hne' (fun t ht => hcr t (List.dropLast_subset _ ht)), List.map_map]
    exact List.map_congr_left hf

/-- The same file with Windows line endings (`\r\n` after every line, the last one included or not) gives the same map:
    `str::lines` drops the carriage return together with the line feed. -/
theorem samples_file_crlf (L : List (List Char × Option (List Char))) (hne : L ≠ [])
    (h1 : ∀ sp ∈ L, clean sp.1 ∧ sp.1 ≠ []) (h2 : ∀ sp ∈ L, ∀ p, sp.2 = some p → clean p)
    (h3 : ∀ sp ∈ L, (renderFileItem sp).getLast? ≠ some '\r') :
    parseSamplesFile (List.intercalate ['\r', '\n'] (L.map renderFileItem) ++ ['\r', '\n']) = L.map asEntry ∧
    parseSamplesFile (List.intercalate ['\r', '\n'] (L.map renderFileItem)) = L.map asEntry := by
  obtain ⟨_, hf, hnl, hne', _⟩ := items_facts L h1 h2 h3
  have hLne : L.map renderFileItem ≠ [] := by simpa using hne
  refine ⟨?_, ?_⟩
  · rw [parseSamplesFile_intercalate_crnl _ hLne hnl, List.map_map]
    exact List.map_congr_left hf
  · rw [parseSamplesFile_intercalate_cr _ hLne hnl hne', List.map_map]
    exact List.map_congr_left hf

example : parseSamplesFile "a\tX\r\nb\r\nc\tY".toList = [("a", .named "X"), ("b", .unnamed), ("c", .named "Y")] ∧
    parseSamplesFile "a\tX\r\n".toList = [("a", .named "X")] ∧ parseSamplesFile "a\tX\r".toList = [("a", .named "X\r")] := by decide

/-- unknown_or_empty_is_error. -/
theorem empty_list_is_error (project : Option (List Nat)) (cols : List String) :
    buildSite (some []) project cols = .error .emptySamplesMap := by
  exact buildSite_nil project cols

theorem unknown_sample_is_error (l : List (String × Pop)) (project : Option (List Nat)) (cols : List String)
    (h : ∃ sp ∈ l, sp.1 ∉ cols) :
    ∃ s, buildSite (some l) project cols = .error (.unknownSample s) ∧ s ∉ cols ∧ s ∈ l.map (·.1) := by
  exact buildSite_unknown l project cols h

/-! non-vacuity: list `s0=B,s1,s4=A,s2=B` -/
example : sampleMap [("s0", .named "B"), ("s1", .unnamed), ("s4", .named "A"), ("s2", .named "B")]
      = [("s0", 0), ("s1", 1), ("s4", 2), ("s2", 0)] ∧
    mapShape (sampleMap [("s0", .named "B"), ("s1", .unnamed), ("s4", .named "A"), ("s2", .named "B")]) = [5, 3, 3] := by
  decide

end Sfs.C09
