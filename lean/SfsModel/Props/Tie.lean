/-
Source tie for constants — regenerated from the repository on every run. `SfsModel/Generated/SourceConsts.lean` is written
by `tools/extract_consts.py` from the Rust source as it is now; the theorems below state that every constant that was
located there has the value the model (and hence every theorem about the model) is built on. A changed alignment, magic
number, detection-prefix length or option default therefore breaks a proof obligation of the property it belongs to even
if no generated input happens to distinguish the two values. A constant that can no longer be located is `none` and
satisfies the statements vacuously (the check reports it as a note).
Property theorems only; one namespace per property.
-/
import SfsModel.Generated.SourceConsts
import SfsModel.Model.Npy
import SfsModel.Model.Text
import SfsModel.Model.Detect
import SfsModel.Model.Cli
namespace Sfs

/-- `o` is absent or holds `v`. -/
def Src.agrees {α} [DecidableEq α] (o : Option α) (v : α) : Bool := o.all (· == v)

namespace C15
/-- the header alignment and the magic string the writer model uses are the ones the source declares -/
theorem source_constants :
    Src.agrees Src.npyAlign 64 = true ∧ Src.agrees Src.npyMagic Sfs.npyMagic = true := by decide
/-- … and 64 is what the writer model aligns to: the padded header length is a multiple of the declared alignment -/
theorem source_alignment (a : Nat) (h : Src.npyAlign = some a) (len : Nat) : (len + (64 - len % 64)) % a = 0 := by
  have hd : Src.agrees Src.npyAlign 64 = true := by decide
  rw [h] at hd
  have : a = 64 := by simpa [Src.agrees] using hd
  subst this; omega
end C15

namespace C07
/-- format detection: both magic prefixes of the model are the declared ones -/
theorem source_constants :
    Src.agrees Src.textStart Sfs.textStart = true ∧ Src.agrees Src.npyMagic Sfs.npyMagic = true := by decide
end C07

namespace C12
/-- gzip and BCF magic numbers, and the length of the detection prefix -/
theorem source_constants :
    Src.agrees Src.gzipMagic Sfs.gzipMagic = true ∧ Src.agrees Src.bcfMagic Sfs.bcfMagic = true ∧
    Src.agrees Src.detectPrefixLen 65536 = true := by decide
end C12

namespace C18
/-- the read-ahead of the genotype reader is the declared number of bytes -/
theorem source_prefix_len (n : Nat) (h : Src.detectPrefixLen = some n) (r : Rd) : readPrefix r = r.readUpTo n n := by
  have hd : Src.agrees Src.detectPrefixLen 65536 = true := by decide
  rw [h] at hd
  have : n = 65536 := by simpa [Src.agrees] using hd
  subst this; rfl
end C18

namespace C02
/-- `--precision` defaults of `create` (used only when projecting) -/
theorem source_constants : Src.agrees Src.createPrecision ({} : CreateArgs).precision = true := by decide
end C02

end Sfs
