/-
C06 (estimators) — for any count spectrum of `n` chromosomes, Watterson's theta, pi, Tajima's D and Fu and Li's D as the
code computes them equal the published estimator formulas (`Spec.pub*`). The D statistics are compared as
`(numerator, variance)` pairs, i.e. before the square root. Property theorems only.
-/
import SfsModel.Model.Stat
import SfsModel.Spec.Stat
import SfsModel.Lemmas.StatPublished
import Mathlib.Algebra.Order.Field.Basic
import Mathlib.Algebra.Order.Field.Rat
namespace Sfs.C06
open Sfs Sfs.Spec

variable {α : Type} [Field α] [LinearOrder α] [IsStrictOrderedRing α]

/-- the entries of a count spectrum as a function of the class `i` -/
def xiOf (x : List α) : Nat → α := fun i => x.getD i 0

/-- `a_n` as the code computes it (`harmonic`) is the published `a_n`, and it is positive for `n ≥ 2`. -/
theorem harmonic_eq (n : Nat) : harmonic (α := α) n = aN n ∧ harmonicP (α := α) n 2 = bN n ∧ (2 ≤ n → 0 < aN (α := α) n) :=
  ⟨sp_harmonic_eq n, sp_harmonicP_two n, sp_aN_pos n⟩

/-- Watterson (1975): `θ_W = S / a_n`. -/
theorem watterson_published (n : Nat) (x : List α) (hlen : x.length = n + 1) :
    statTheta x = pubThetaW n (xiOf x) :=
  sp_statTheta n x hlen

/-- `S = Σ_{i=1}^{n-1} ξ_i`. -/
theorem segregating_published (n : Nat) (x : List α) (hlen : x.length = n + 1) :
    segregating x = pubS n (xiOf x) :=
  sp_segregating n x hlen

/-- Tajima (1983): `π = Σ_i i (n - i) ξ_i / C(n, 2)`. -/
theorem pi_published (n : Nat) (x : List α) (hlen : x.length = n + 1) :
    statPi x = pubPi n (xiOf x) :=
  sp_statPi n x hlen

/-- Tajima (1989): `D = (π - θ_W) / sqrt(e1 S + e2 S (S - 1))` with the published constants. -/
theorem tajimaD_published (n : Nat) (hn : 3 ≤ n) (x : List α) (hlen : x.length = n + 1) :
    (dTajima x).num = (pubTajimaD n (xiOf x)).num ∧ (dTajima x).var = (pubTajimaD n (xiOf x)).var := by
  have h := sp_dTajima n x hlen
  exact ⟨congrArg DParts.num h, congrArg DParts.var h⟩

/-- Fu and Li (1993): `D = (S - a_n ξ_1) / sqrt(u_D S + v_D S²)`; the code's `(θ_W - ξ_1) / (sqrt(·) / a_n)` is the same
    number: same variance term, numerator `(θ_W - ξ_1) · a_n = S - a_n ξ_1`. -/
theorem fuLiD_published (n : Nat) (hn : 3 ≤ n) (x : List α) (hlen : x.length = n + 1) :
    ∃ p, dFuLi x = some p ∧ p.num = (pubFuLiD n (xiOf x)).num ∧ p.var = (pubFuLiD n (xiOf x)).var :=
  sp_dFuLi n hn x hlen

/-! non-vacuity: the hypotheses are `3 ≤ n` and `x.length = n + 1` only (any list of at least four entries). -/

/-- On `ξ = [10, 3, 1, 0, 2, 7]` (`n = 5`, `S = 6`, `a_5 = 25/12`): `π - θ_W = 13/5 - 72/25 = -7/25` and the variance is
    `9108/51875 ≠ 0`, the same on the code side and on the published side. -/
example :
    (dTajima ([10, 3, 1, 0, 2, 7] : List Rat)).num = -7 / 25 ∧
    (pubTajimaD 5 (xiOf ([10, 3, 1, 0, 2, 7] : List Rat))).num = -7 / 25 ∧
    (dTajima ([10, 3, 1, 0, 2, 7] : List Rat)).var = 9108 / 51875 ∧
    (pubTajimaD 5 (xiOf ([10, 3, 1, 0, 2, 7] : List Rat))).var = 9108 / 51875 ∧
    (9108 / 51875 : Rat) ≠ 0 := by
  decide +kernel

end Sfs.C06
