/-
C01 / C06 (input text) — only the GT values decide a site. In the VCF decoder model (`Model/Vcf.lean`, what `sfs create`
gets out of a record) a record's contribution does not depend on its INFO column (summary counts such as AC / AN may be
stale), on further FORMAT keys and their per-sample values, or on the phasing separators; a sample whose field is `.`,
whose GT value is `.` or which has fewer values than keys is missing. Property theorems only.
-/
import SfsModel.Model.Container
import SfsModel.Lemmas.VcfIrrelevant
namespace Sfs.C01
open Sfs

/-- a field of a record line: no tab, no newline -/
def FieldOk (l : List Nat) : Prop := 9 ∉ l ∧ 10 ∉ l

/-- one record line from its ten-plus fields -/
def recLine (chrom pos id ref alt qual filter info format : List Nat) (samples : List (List Nat)) : List Nat :=
  joinTab ([chrom, pos, id, ref, alt, qual, filter, info, format] ++ samples)

/-- An INFO column the parser accepts as far as the model knows its grammar: not empty, and either `.` or `;`-separated entries
    whose keys (the part before `=`) are pairwise different. (Empty and repeated-key INFO columns make the parser refuse the record:
    `Rec.corrupt`.) -/
def InfoOk (info : List Nat) : Prop :=
  info ≠ [] ∧ (info = [46] ∨ hasDupEntry ((splitBytes 59 info).map (fun f => f.takeWhile (· ≠ 61))) = false)

/-- info_irrelevant: the content of an (accepted) INFO column never influences what a record decodes to. -/
theorem info_irrelevant (n prev : Nat) (chrom pos id ref alt qual filter info info' format : List Nat) (samples : List (List Nat))
    (hf : ∀ f ∈ [chrom, pos, id, ref, alt, qual, filter, info, info', format] ++ samples, FieldOk f)
    (hi : InfoOk info) (hi' : InfoOk info') :
    parseVcfRecord n prev (recLine chrom pos id ref alt qual filter info format samples) =
      parseVcfRecord n prev (recLine chrom pos id ref alt qual filter info' format samples) :=
  parseVcfRecord_info n prev chrom pos id ref alt qual filter info info' format samples (fun f hm => (hf f hm).1)
    (infoRefused_false info hi.1 hi.2) (infoRefused_false info' hi'.1 hi'.2)

/-- A sample value: no tab, newline or colon. -/
def ValueOk (l : List Nat) : Prop := 9 ∉ l ∧ 10 ∉ l ∧ 58 ∉ l

/-- extra_format_irrelevant: further FORMAT keys after GT, with arbitrary per-sample values, change nothing. -/
theorem extra_format_irrelevant (gt : List Nat) (extra : List (List Nat)) (hgt : ValueOk gt) (he : ∀ v ∈ extra, ValueOk v) :
    sampleGt (some 0) (gt ++ extra.flatMap (fun v => 58 :: v)) = sampleGt (some 0) gt :=
  sampleGt_append_values gt hgt.2.2 extra

/-- phasing_irrelevant: `/` and `|` are interchangeable in a GT value. -/
theorem phasing_irrelevant (a b : List Nat) (ha : ∀ c ∈ a, c ≠ 47 ∧ c ≠ 124) (hb : ∀ c ∈ b, c ≠ 47 ∧ c ≠ 124) :
    sampleGt (some 0) (a ++ 47 :: b) = sampleGt (some 0) (a ++ 124 :: b) :=
  sampleGt_sep a b

/-- missing_spellings: a sample field `.`, a GT value `.`, and — with GT not the only key — a field that stops before the
    GT position all mean "missing"; a record without any GT key makes every sample missing. -/
theorem missing_spellings (field : List Nat) :
    sampleGt (some 0) [46] = some (.skipped .missing) ∧
    sampleGt (some 0) ([46] ++ 58 :: field) = some (.skipped .missing) ∧
    sampleGt none field = some (.skipped .missing) :=
  ⟨by decide, sampleGt_dot_value _ (splitBytes_head_append_sep 58 [46] field (by decide)), rfl⟩

/-! non-vacuity: a stale AC on a real line -/
example : parseVcfRecord 2 1 (strBytes "1\t5\t.\tA\tC\t.\t.\tAC=7;AN=4\tGT:DP\t0/1:3\t1|1:9") =
    some (.gts "1" 5 [.genotype 1, .genotype 2]) := by
  decide

example : InfoOk (strBytes "AC=7;AN=4") ∧ InfoOk (strBytes ".") ∧ ¬ InfoOk (strBytes "DP=1;DP=2") := by
  unfold InfoOk; decide

end Sfs.C01
