/-
C14 — statistics are invariant under the transformations that must not matter.
The property theorems live in `Props/C14F.lean` (folding), `Props/C14D.lean` (f2 decompositions of f3 / f4) and
`Props/C14M.lean` (monomorphic entries, swapping, scaling), namespace `Sfs.C14`.
-/
import SfsModel.Props.C14F
import SfsModel.Props.C14D
import SfsModel.Props.C14M
