/-
C06 (genotype level) — the statistics computed from the spectrum that `create` produces equal the same quantities
computed directly from the genotypes of the call set. Property theorems only. `α` is any field of characteristic zero.
-/
import SfsModel.Model.Stat
import SfsModel.Spec.Stat
import SfsModel.Props.C01
import SfsModel.Lemmas.StatGeno
namespace Sfs.C06
open Sfs Sfs.Spec

variable {α : Type} [Field α] [CharZero α]

/-- `x` is the spectrum of the sites `ks` over `shape`: one cell per in-bounds index, holding the number of sites with
    that vector of per-population ALT counts. -/
def IsSpectrumOf (shape : List Nat) (ks : List (List Nat)) (x : List α) : Prop :=
  x.length = size shape ∧ (∀ k ∈ ks, InB shape k) ∧ ∀ k, InB shape k → x.getD (flat shape k) 0 = ((ks.count k : Nat) : α)

/-- create_is_spectrum: without projection, what `create` outputs is the spectrum of the complete sites of the call
    set (from `C01.run_eq_spec`). -/
theorem create_is_spectrum (cfg : SiteCfg) (hc : CfgOk cfg) (hnp : cfg.projectTo = none) (recs : List Rec)
    (hwf : ∀ r ∈ recs, RecWf cfg r) (hok : ∀ r ∈ recs, recOk cfg r = true) :
    ∃ scs sites skipped, createRun (α := α) cfg false recs = .ok (scs, sites, skipped) ∧
      IsSpectrumOf cfg.outShape (sitesOf cfg recs) scs := by
  obtain ⟨scs, hrun, hlen, hcnt⟩ := C01.run_eq_spec (α := α) cfg hc hnp recs hwf hok
  refine ⟨scs, _, _, hrun, hlen, sg_sitesOf_inB cfg hc.1 hnp recs hwf hok, fun k hk => ?_⟩
  rw [hcnt k hk, sg_sitesOf_count cfg hnp recs hok k]
  rfl

/-- linear_stat (key lemma): any statistic that is a weighted sum over the cells of the spectrum is the sum of the
    weight over the sites. -/
theorem linear_stat (shape : List Nat) (hpos : ∀ v ∈ shape, 0 < v) (ks : List (List Nat)) (x : List α)
    (h : IsSpectrumOf shape ks x) (w : List Nat → α) :
    ((List.range (size shape)).map (fun i => x.getD i 0 * w (indexFromFlat shape i))).sum = (ks.map w).sum := by
  exact sg_linear_iff shape ks x h w

/-- `ns` chromosomes per population ↔ axis lengths `ns + 1`. -/
def shapeOf (ns : List Nat) : List Nat := ns.map (· + 1)

/-- sum = the number of sites. -/
theorem sum_def (ns : List Nat) (ks : List (List Nat)) (x : List α) (h : IsSpectrumOf (shapeOf ns) ks x) :
    sumList x = gSum ks := by
  exact sg_sum _ ks x h

/-- S = the number of sites that are polymorphic in the sample. -/
theorem S_def (ns : List Nat) (hne : ns ≠ []) (hns : ∀ n ∈ ns, 0 < n) (ks : List (List Nat)) (x : List α)
    (h : IsSpectrumOf (shapeOf ns) ks x) :
    segregating x = gS ns ks := by
  exact sg_S ns ks x h

/-- A site with `k` ALT alleles among `n` chromosomes has `k (n - k)` differing pairs of chromosomes … -/
theorem diffPairs_eq (c : List Bool) : diffPairs c = altCount c * (c.length - altCount c) := by
  exact sg_diffPairs c

/-- … and between two populations `k1 (n2 - k2) + k2 (n1 - k1)` differing pairs. -/
theorem diffBetween_eq (c d : List Bool) :
    diffBetween c d = altCount c * (d.length - altCount d) + altCount d * (c.length - altCount c) := by
  exact sg_diffBetween c d

/-- pi = mean number of pairwise differences between the sampled chromosomes. -/
theorem pi_def (n : Nat) (ks : List (List Nat)) (x : List α) (h : IsSpectrumOf [n + 1] ks x) :
    statPi x = gPi n (ks.map (fun k => k.getD 0 0)) := by
  exact sg_pi n ks x h

/-- pi_xy = mean number of differences between a chromosome of population 1 and one of population 2. -/
theorem pixy_def (n1 n2 : Nat) (ks : List (List Nat)) (x : List α) (h : IsSpectrumOf [n1 + 1, n2 + 1] ks x) :
    statPiXY ⟨x, [n1 + 1, n2 + 1]⟩ = gPiXY n1 n2 ks := by
  exact sg_pixy n1 n2 ks x h

/-- f2 / f3 / f4 (computed on the normalised spectrum, as `sfs stat` does) = site averages of products of sample
    allele-frequency differences. -/
theorem f2_def (ns : List Nat) (h2 : ns.length = 2) (hns : ∀ n ∈ ns, 0 < n) (ks : List (List Nat)) (hks : ks ≠ [])
    (x : List α) (h : IsSpectrumOf (shapeOf ns) ks x) :
    statF2 (normalized ⟨x, shapeOf ns⟩) = gF2 ns ks := by
  exact sg_f2 ns ks x h

theorem f3_def (ns : List Nat) (h3 : ns.length = 3) (hns : ∀ n ∈ ns, 0 < n) (ks : List (List Nat)) (hks : ks ≠ [])
    (x : List α) (h : IsSpectrumOf (shapeOf ns) ks x) :
    statF3 (normalized ⟨x, shapeOf ns⟩) = gF3 ns ks := by
  exact sg_f3 ns ks x h

theorem f4_def (ns : List Nat) (h4 : ns.length = 4) (hns : ∀ n ∈ ns, 0 < n) (ks : List (List Nat)) (hks : ks ≠ [])
    (x : List α) (h : IsSpectrumOf (shapeOf ns) ks x) :
    statF4 (normalized ⟨x, shapeOf ns⟩) = gF4 ns ks := by
  exact sg_f4 ns ks x h

/-- Hudson's Fst = ratio of the summed per-site numerators and denominators over the polymorphic sites. -/
theorem fst_def (ns : List Nat) (h2 : ns.length = 2) (hns : ∀ n ∈ ns, 0 < n) (ks : List (List Nat)) (hks : ks ≠ [])
    (x : List α) (h : IsSpectrumOf (shapeOf ns) ks x) :
    statFst (normalized ⟨x, shapeOf ns⟩) = gFst ns ks := by
  exact sg_fst ns ks x h h2 hns hks

/-- KING, R0, R1 = ratios of two-individual genotype-pair counts. -/
theorem king_def (ks : List (List Nat)) (x : List α) (h : IsSpectrumOf [3, 3] ks x) :
    statKing ⟨x, [3, 3]⟩ = gKing ks := by
  exact sg_king ks x h

theorem r0_def (ks : List (List Nat)) (x : List α) (h : IsSpectrumOf [3, 3] ks x) :
    statR0 ⟨x, [3, 3]⟩ = gR0 ks := by
  exact sg_r0 ks x h

theorem r1_def (ks : List (List Nat)) (x : List α) (h : IsSpectrumOf [3, 3] ks x) :
    statR1 ⟨x, [3, 3]⟩ = gR1 ks := by
  exact sg_r1 ks x h

/-! non-vacuity: 2 populations (4 and 2 chromosomes), 4 sites, one of them monomorphic -/
example : IsSpectrumOf (α := Rat) [5, 3] [[1, 0], [4, 2], [1, 0], [2, 1]]
    [0, 0, 0, 2, 0, 0, 0, 1, 0, 0, 0, 0, 0, 0, 1] := by
  refine ⟨by decide, by decide, ?_⟩
  intro k hk
  have : k ∈ allIndices [5, 3] := by
    exact List.mem_map.mpr ⟨flat [5, 3] k, List.mem_range.mpr (Sfs.flat_lt _ _ hk), Sfs.unflat_flat _ _ hk⟩
  have hall : ∀ k ∈ allIndices [5, 3],
      ([0, 0, 0, 2, 0, 0, 0, 1, 0, 0, 0, 0, 0, 0, 1] : List Rat).getD (flat [5, 3] k) 0
        = ((([[1, 0], [4, 2], [1, 0], [2, 1]] : List (List Nat)).count k : Nat) : Rat) := by
    decide +kernel
  exact hall k this

example : statPiXY (α := Rat) ⟨[0, 0, 0, 2, 0, 0, 0, 1, 0, 0, 0, 0, 0, 0, 1], [5, 3]⟩ = gPiXY 4 2 [[1, 0], [4, 2], [1, 0], [2, 1]] := by
  decide +kernel

end Sfs.C06
