/-
C14 (folding) — pi, Watterson's theta, S, Tajima's D, pi_xy, f2, f3, f4, Fst, KING, R0 and R1 are unchanged by folding
with fill zero. Property theorems only. `α` is any field of characteristic zero.
-/
import SfsModel.Model.Stat
import SfsModel.Spec.Stat
import SfsModel.Props.C05
import SfsModel.Lemmas.StatFold
import Mathlib.Algebra.Field.Basic
import Mathlib.Algebra.CharZero.Defs
namespace Sfs.C14
open Sfs Sfs.Spec

variable {α : Type} [Field α] [CharZero α]

/-- A well-formed spectrum: one value per cell, every population has at least one chromosome. -/
def Wf (a : Arr α) : Prop := a.data.length = size a.shape ∧ ∀ v ∈ a.shape, 2 ≤ v

theorem fold_invariant_S (a : Arr α) (h : Wf a) : segregating (foldZero a).data = segregating a.data :=
  sf_fold_segregating a h.1

theorem fold_invariant_pi (a : Arr α) (h : Wf a) (h1 : a.shape.length = 1) : statPi (foldZero a).data = statPi a.data :=
  sf_fold_pi a h.1

theorem fold_invariant_theta (a : Arr α) (h : Wf a) (h1 : a.shape.length = 1) :
    statTheta (foldZero a).data = statTheta a.data :=
  sf_fold_theta a h.1

theorem fold_invariant_tajimaD (a : Arr α) (h : Wf a) (h1 : a.shape.length = 1) :
    (dTajima (foldZero a).data).num = (dTajima a.data).num ∧ (dTajima (foldZero a).data).var = (dTajima a.data).var := by
  rw [sf_fold_dTajima a h.1]; exact ⟨rfl, rfl⟩

theorem fold_invariant_pixy (a : Arr α) (h : Wf a) (h2 : a.shape.length = 2) : statPiXY (foldZero a) = statPiXY a :=
  sf_fold_pixy a h.1 h.2 h2

theorem fold_invariant_f2 (a : Arr α) (h : Wf a) (h2 : a.shape.length = 2) :
    statF2 (normalized (foldZero a)) = statF2 (normalized a) :=
  sf_fold_f2 a h.1 h.2 h2

theorem fold_invariant_f3 (a : Arr α) (h : Wf a) (h3 : a.shape.length = 3) :
    statF3 (normalized (foldZero a)) = statF3 (normalized a) :=
  sf_fold_f3 a h.1 h.2 h3

theorem fold_invariant_f4 (a : Arr α) (h : Wf a) (h4 : a.shape.length = 4) :
    statF4 (normalized (foldZero a)) = statF4 (normalized a) :=
  sf_fold_f4 a h.1 h.2 h4

theorem fold_invariant_fst (a : Arr α) (h : Wf a) (h2 : a.shape.length = 2) :
    statFst (normalized (foldZero a)) = statFst (normalized a) :=
  sf_fold_fst a h.1 h.2 h2

theorem fold_invariant_king (a : Arr α) (h : Wf a) (h33 : a.shape = [3, 3]) : statKing (foldZero a) = statKing a :=
  sf_fold_king a h33

theorem fold_invariant_r0 (a : Arr α) (h : Wf a) (h33 : a.shape = [3, 3]) : statR0 (foldZero a) = statR0 a :=
  sf_fold_r0 a h33

theorem fold_invariant_r1 (a : Arr α) (h : Wf a) (h33 : a.shape = [3, 3]) : statR1 (foldZero a) = statR1 a :=
  sf_fold_r1 a h33

/-! non-vacuity -/
example : statPiXY (α := Rat) (foldZero ⟨[5, 1, 4, 2, 8, 3, 0, 7, 6, 9, 2, 1], [4, 3]⟩) = statPiXY ⟨[5, 1, 4, 2, 8, 3, 0, 7, 6, 9, 2, 1], [4, 3]⟩ ∧
    (foldZero (α := Rat) ⟨[5, 1, 4, 2, 8, 3, 0, 7, 6, 9, 2, 1], [4, 3]⟩).data ≠ [5, 1, 4, 2, 8, 3, 0, 7, 6, 9, 2, 1] := by
  decide +kernel

end Sfs.C14
