/-
C12 (byte level) — the container codecs made concrete. `Props/C12.lean` proves that `sfs create` factors through the decoded
call set for *any* codecs satisfying a round-trip hypothesis; here the hypothesis is discharged for the executable models
of the four containers (`Model/Inflate.lean`, `Model/Bgzf.lean`, `Model/Vcf.lean`, `Model/Container.lean`):
DEFLATE stored blocks are inverted by the full inflate model, BGZF framing is independent of the block partition, the gzip
peek of `Format::detect` sees the first payload bytes, VCF text and BCF records decode to the call set they encode, and
therefore `createFromBytesC` — the whole pipeline from input bytes to stdout — gives the same result for the same call set
in every container and for every block size.
What stays outside: that noodles / flate2 implement these formats (validated by the byte-level correspondence cases
`ct.create`, in both directions: the model decodes the bytes given to the binary, and the binary reads bytes the model
encoded), compressed DEFLATE blocks in the theorems (the inflate model handles them and is exercised on flate2 output; the
round-trip theorem is for the stored encoder), threads, transports.
-/
import SfsModel.Spec.Container
import SfsModel.Lemmas.Inflate
import SfsModel.Lemmas.VcfHeader
import SfsModel.Lemmas.VcfCodec
import SfsModel.Lemmas.BcfCodec
import SfsModel.Lemmas.ContainerGlue
import SfsModel.Lemmas.BgzfFrames
import SfsModel.Lemmas.BcfDict
import SfsModel.Props.C12
namespace Sfs.C12
open Sfs

/-- inflate_stored: the inflate model inverts the stored-block encoder and leaves what follows the stream untouched. -/
theorem inflate_stored (data rest : List Nat) (k : Nat) (hk : data.length ≤ 65535 * (k + 1)) :
    inflate (deflateStored k data ++ rest) = some (data, rest) :=
  inflate_deflateStored data rest k hk

/-- bgzf_block_roundtrip: one block written around a stored payload is read back as that payload. -/
theorem bgzf_block_roundtrip (payload rest : List Nat) (hb : IsBytes payload) (hl : payload.length ≤ 65280) :
    bgzfBlock (bgzfFrame (deflateStored 0 payload) payload ++ rest) = some (payload, rest) :=
  bgzfBlock_stored payload rest hb hl

/-- bgzf_roundtrip: the decoded stream is the concatenation of the chunk payloads (empty chunks included), whatever the partition. -/
theorem bgzf_roundtrip (chunks : List (List Nat)) (h : ∀ c ∈ chunks, IsBytes c ∧ c.length ≤ 65280) :
    bgzfDecodeAll (bgzfEncodeStored chunks) = some chunks.flatten :=
  bgzfDecodeAll_encodeStored chunks h

/-- bgzf_partition_free: two block partitions of the same payload decode to the same stream. -/
theorem bgzf_partition_free (chunks chunks' : List (List Nat)) (h : ∀ c ∈ chunks, IsBytes c ∧ c.length ≤ 65280)
    (h' : ∀ c ∈ chunks', IsBytes c ∧ c.length ≤ 65280) (hflat : chunks.flatten = chunks'.flatten) :
    bgzfDecodeAll (bgzfEncodeStored chunks) = bgzfDecodeAll (bgzfEncodeStored chunks') := by
  rw [bgzfDecodeAll_encodeStored chunks h, bgzfDecodeAll_encodeStored chunks' h', hflat]

/-- gzip_peek: the three bytes `Format::detect` reads through the gzip decoder are the first three payload bytes, as soon
    as the first block holds them (and the detection prefix of 64 KiB holds that block, which every BGZF block satisfies). -/
theorem gzip_peek (c : List Nat) (cs : List (List Nat)) (hb : IsBytes c) (hc : 3 ≤ c.length ∧ c.length ≤ 65280) :
    inflate3 ((bgzfEncodeStored (c :: cs)).take 65536) = some (c.take 3) :=
  inflate3_encodeStored c cs hb hc

/-- vcf_roundtrip: VCF text decodes to the call set it was written from. -/
theorem vcf_roundtrip (cols contigs : List String) (recs : List (String × Nat × List GtRes))
    (h : WfCallSet cols contigs recs) :
    vcfDecode (vcfEncode cols contigs recs) = some (cols, toRecs recs) :=
  vcfDecode_vcfEncode cols contigs recs h

/-- bcf_roundtrip: BCF records decode to the same call set (contig by dictionary index, position 0-based on disk, GT as
    int8 vectors). -/
theorem bcf_roundtrip (cols contigs : List String) (recs : List (String × Nat × List GtRes))
    (h : WfCallSet cols contigs recs) (hs : FitsBcf cols contigs recs) :
    bcfDecode (bcfEncode cols contigs recs) = some (cols, toRecs recs) := by
  exact bcfDecode_bcfEncode cols contigs recs h hs

/-- detect_encoded: detection on the 64 KiB prefix picks the container that was written. -/
theorem detect_encoded (blk : Nat) (hblk : 3 ≤ blk ∧ blk ≤ 65280) (cols contigs : List String)
    (recs : List (String × Nat × List GtRes)) (c : Container) :
    detectContainer inflate3 ((encodeContainer blk cols contigs recs c).take 65536) = .ok c :=
  detectContainer_encodeContainer blk hblk cols contigs recs c

/-- containers_agree_bytes: for every well-formed call set, every container and every BGZF block size, the whole
    pipeline from input bytes to stdout / exit status computes `createCli` of the call set. -/
theorem containers_agree_bytes (a : CreateArgs) (blk : Nat) (hblk : 3 ≤ blk ∧ blk ≤ 65280) (cols contigs : List String)
    (recs : List (String × Nat × List GtRes)) (h : WfCallSet cols contigs recs) (hs : FitsBcf cols contigs recs)
    (c : Container) :
    createFromBytesC a (encodeContainer blk cols contigs recs c) = some (createCli a cols (toRecs recs)) :=
  createFromBytesC_encodeContainer a blk hblk cols contigs recs h (vcf_roundtrip cols contigs recs h)
    (bcf_roundtrip cols contigs recs h hs) c

/-- … hence two containers / two block sizes give the same outcome. -/
theorem same_bytes_outcome (a : CreateArgs) (blk blk' : Nat) (hblk : 3 ≤ blk ∧ blk ≤ 65280) (hblk' : 3 ≤ blk' ∧ blk' ≤ 65280)
    (cols contigs : List String) (recs : List (String × Nat × List GtRes)) (h : WfCallSet cols contigs recs)
    (hs : FitsBcf cols contigs recs) (c c' : Container) :
    createFromBytesC a (encodeContainer blk cols contigs recs c) =
      createFromBytesC a (encodeContainer blk' cols contigs recs c') := by
  rw [containers_agree_bytes a blk hblk cols contigs recs h hs c, containers_agree_bytes a blk' hblk' cols contigs recs h hs c']

/-- bgzf_concat_any: BGZF frames around *any* DEFLATE data — stored, fixed or dynamic Huffman blocks, as a real compressor
    writes them — decode to the concatenation of the payloads those data inflate to. The hypothesis `inflate cdata = payload`
    is what the driver evaluates on every flate2-compressed block of the byte-level cases. -/
theorem bgzf_concat_any (blocks : List (List Nat × List Nat))
    (h : ∀ b ∈ blocks, (∃ t, inflate b.1 = some (b.2, t)) ∧ b.1.length + 25 < 65536 ∧ IsBytes b.2 ∧ b.2.length < 2 ^ 32) :
    bgzfDecodeAll (bgzfFrames blocks) = some (blocks.map (·.2)).flatten := by
  unfold bgzfDecodeAll
  exact bgzfDecode_frames blocks _ (by have := bgzfFrames_length_ge blocks; omega) h

/-- create_schedule_free_bytes: with the concrete codecs, `sfs create` over any chunk schedule of the input stream (first
    chunk of one byte, one byte at a time, …) equals `createFromBytesC` on the whole byte string. -/
theorem create_schedule_free_bytes (a : CreateArgs) (data sched : List Nat) :
    createFromRd inflate3 decodeContainer a { data := data, sched := sched, avail := 0, failAt := none } =
      createFromBytesC a data := by
  exact create_schedule_free inflate3 decodeContainer a data sched

/-- dict_idx_honoured: a header line carrying `IDX=i` puts its id at position `i` of the BCF dictionary (whatever the order of
    the lines), and an id that is already known must sit there — the keys of the records are resolved by position. -/
theorem dict_idx_honoured (d d' : List (Option String)) (id : String) (i : Nat)
    (h : dictInsert d id (some i) = some d') : d'[i]? = some (some id) := by
  exact dictInsert_idx d d' id i h

/-- dict_order_of_appearance: without `IDX`, a new id goes to the end of the dictionary and a known one changes nothing: the
    dictionary is the order of first appearance of the header lines (F36). -/
theorem dict_order_of_appearance (d : List (Option String)) (id : String) :
    dictInsert d id none = some (if d.contains (some id) then d else d ++ [some id]) := by
  exact dictInsert_none d id

/-- … in particular an id's position never depends on the lines that FOLLOW its own: later insertions keep every earlier entry in
    place. -/
theorem dict_insert_keeps_earlier (d d' : List (Option String)) (id : String) (idx : Option Nat) (j : Nat) (x : String)
    (h : dictInsert d id idx = some d') (hj : d[j]? = some (some x)) : d'[j]? = some (some x) := by
  exact dictInsert_keeps d d' id idx j x h hj

example : dictInsert [some "PASS"] "GT" (some 3) = some [some "PASS", none, none, some "GT"] ∧
    dictInsert [some "PASS", none, none, some "GT"] "DP" (some 1) = some [some "PASS", some "DP", none, some "GT"] ∧
    dictInsert [some "PASS", some "DP"] "DP" (some 2) = none ∧ dictInsert [some "PASS"] "GT" none = some [some "PASS", some "GT"] := by
  decide

/-! non-vacuity: a two-population call set with every genotype class satisfies the hypotheses -/
example : WfCallSet ["s0", "s1 x"] ["chr1", "2"]
    [("chr1", 5, [.genotype 0, .genotype 2]), ("2", 17, [.skipped .missing, .ploidyError]), ("2", 17, [.genotype 1, .skipped .multiallelic])] := by
  refine ⟨by decide, ?_, by decide, ?_, by decide, ?_, ?_⟩
  · simp only [List.mem_cons, List.not_mem_nil, or_false]
    rintro c (rfl | rfl) <;> (unfold WfName; decide)
  · simp only [List.mem_cons, List.not_mem_nil, or_false]
    rintro c (rfl | rfl) <;> (unfold WfContig; decide)
  · simp only [List.mem_cons, List.not_mem_nil, or_false]
    rintro r (rfl | rfl | rfl) <;> simp [WfGt]
  · simp only [List.mem_cons, List.not_mem_nil, or_false]
    rintro r (rfl | rfl | rfl) <;> decide

end Sfs.C12
