/-
C15 (reader half) — framing of header versions 1.0 / 2.0 / 3.0, Fortran order rejected, the value loop, and the twenty
(type, byte order) decoders. Property theorems only.
-/
import SfsModel.Model.Npy
import SfsModel.Lemmas.Bytes
import SfsModel.Lemmas.NpyDecode
namespace Sfs.C15
open Sfs

def sp' (n : Nat) : List Char := List.replicate n ' '

/-! ## reader: framing -/

/-- A complete file with header version `(major, minor)`, a `w`-byte little-endian header length, the dict bytes
    (already including padding and newline) and the value bytes. -/
def frame (major minor w : Nat) (dictBytes body : List Nat) : List Nat :=
  npyMagic ++ [major, minor] ++ leBytes w dictBytes.length ++ dictBytes ++ body

/-- What the reader makes of a parsed dict and a body (the part after the header). -/
def bodyResult (d : NpyDict) (body : List Nat) : Except IoErr (List Nat × List Nat) :=
  if d.fortran then .error .invalid
  else match readValues d.endian d.ty (body.length + 1) body with
    | .error e => .error e
    | .ok vals => if checkedSize d.shape = some vals.length then .ok (d.shape, vals) else .error .invalid

/-- header_len_width: version 1.x has a 2-byte header length, versions 2.x and 3.x a 4-byte one; after that all three
    are read the same way. -/
theorem header_len_width (major minor : Nat) (dictBytes body : List Nat) (d : NpyDict)
    (hascii : allAscii dictBytes = true) (hd : parseNpyDict (bytesToChars dictBytes) = some d)
    (hmaj : major = 1 ∧ dictBytes.length < 2 ^ 16 ∨ (major = 2 ∨ major = 3) ∧ dictBytes.length < 2 ^ 32) :
    readNpy (frame major minor (if major = 1 then 2 else 4) dictBytes body) = bodyResult d body := by
  have hw : npyLenWidth major = some (if major = 1 then 2 else 4) := by
    rcases hmaj with ⟨rfl, _⟩ | ⟨rfl | rfl, _⟩ <;> rfl
  have hL : dictBytes.length < 256 ^ (if major = 1 then 2 else 4) := by
    rcases hmaj with ⟨rfl, h⟩ | ⟨rfl | rfl, h⟩ <;> simpa using h
  rw [frame, readNpy_framed major minor _ dictBytes body hw hL]
  simp only [npyAfterHeader, hascii, hd, bodyResult, Bool.not_true, Bool.false_eq_true, if_false]
  rfl

/-- Any other major version is rejected. -/
theorem bad_version_rejected (major minor : Nat) (tail : List Nat) (h : major ≠ 1 ∧ major ≠ 2 ∧ major ≠ 3) :
    readNpy (npyMagic ++ [major, minor] ++ tail) = .error .invalid := by
  exact readNpy_bad_version major minor tail (npyLenWidth_none major h)

/-- fortran_rejected: Fortran-ordered files are rejected whatever else they contain. -/
theorem fortran_rejected (d : NpyDict) (body : List Nat) (h : d.fortran = true) :
    bodyResult d body = .error .invalid := by
  simp only [bodyResult, h, if_true]

/-- The value loop reads exactly `body.length / width` values, in order, each from its own `width` bytes, and rejects a
    trailing partial value. -/
theorem readValues_spec (en : Endian) (t : NpyTy) (body : List Nat) :
    readValues en t (body.length + 1) body =
      if body.length % t.width = 0 then
        .ok ((List.range (body.length / t.width)).map (fun i => decodeValue en t ((body.drop (i * t.width)).take t.width)))
      else .error .eof := by
  exact readValues_fuel en t body.length body (body.length + 1) rfl (Nat.lt_succ_self _)

/-! ## reader: the 20 decoders -/

/-- Exact value of a binary32 pattern. -/
def f32OfBits (b : Nat) : XR :=
  let sign : Bool := b / 2 ^ 31 % 2 == 1
  let e : Nat := b / 2 ^ 23 % 2 ^ 8
  let m : Nat := b % 2 ^ 23
  if e == 255 then (if m == 0 then .inf sign else .nan)
  else
    let mag : Rat := if e == 0 then (m : Rat) / ((2 ^ 149 : Nat) : Rat)
      else if e ≥ 150 then (((2 ^ 23 + m) * 2 ^ (e - 150) : Nat) : Rat)
      else ((2 ^ 23 + m : Nat) : Rat) / ((2 ^ (150 - e) : Nat) : Rat)
    .fin (if sign then -mag else mag)

/-- Big-endian decoding is little-endian decoding of the reversed bytes (so ten theorems cover twenty decoders). -/
theorem decode_big_eq (t : NpyTy) (bytes : List Nat) :
    decodeValue .big t bytes = decodeValue .little t bytes.reverse := by
  exact decodeValue_big t bytes

/-- f8: the pattern is transported unchanged (NaN payloads, infinities, signed zeros included). -/
theorem decode_f8 (b : Nat) (hb : b < 2 ^ 64) : decodeValue .little .f8 (leBytes 8 b) = b := by
  exact ofLeBytes_leBytes8 b hb

/-- f4: widened exactly (every binary32 value, subnormals included, is a binary64 value); NaN stays NaN. -/
theorem decode_f4 (b : Nat) (hb : b < 2 ^ 32) :
    f64OfBits (decodeValue .little .f4 (leBytes 4 b)) = f32OfBits b := by
  have h4 : ofLeBytes (leBytes 4 b) = b := ofLeBytes_leBytes_of_lt 4 b (by simpa using hb)
  show f64OfBits (f64BitsOfF32Bits (ofLeBytes (leBytes 4 b))) = _
  rw [h4]
  exact widen_bits b

/-- The integer a `k`-byte little-endian pattern denotes as an unsigned / two's complement number. -/
theorem signedOf_spec (k n : Nat) (hk : 0 < k) (hn : n < 2 ^ (8 * k)) :
    -(2 ^ (8 * k - 1) : Int) ≤ signedOf k n ∧ signedOf k n < (2 ^ (8 * k - 1) : Int) ∧
      (signedOf k n - (n : Int)) % (2 ^ (8 * k) : Int) = 0 := by
  exact signedOf_bounds k n hk hn

/-- u1, u2, u4 and every u8 below 2^53: the value is exactly the unsigned integer. -/
theorem decode_unsigned_exact (n : Nat) (hn : n ≤ 2 ^ 53) : f64OfBits (f64BitsOfNat false n) = .fin (n : Rat) := by
  exact f64OfBits_ofNat_unsigned n hn

/-- i1, i2, i4 and every i8 of magnitude at most 2^53: the value is exactly the signed integer. -/
theorem decode_signed_exact (i : Int) (hi : i.natAbs ≤ 2 ^ 53) : f64OfBits (f64BitsOfInt i) = .fin (i : Rat) := by
  exact f64OfBits_ofInt i hi

/-- 64-bit integers beyond 2^53 are converted to a nearest binary64 (what numpy's `astype(float64)` and Rust's `as f64`
    do): the result is a finite value of the form `m·2^s` with `2^52 ≤ m ≤ 2^53`, within half a unit `2^s/2` of `n`. -/
theorem decode_unsigned_nearest (n : Nat) (hn : 2 ^ 53 < n) (hlt : n < 2 ^ 64) :
    ∃ m s : Nat, 2 ^ 52 ≤ m ∧ m ≤ 2 ^ 53 ∧ s = Nat.log2 n - 52 ∧
      f64OfBits (f64BitsOfNat false n) = .fin ((m * 2 ^ s : Nat) : Rat) ∧
      2 * (if m * 2 ^ s ≤ n then n - m * 2 ^ s else m * 2 ^ s - n) ≤ 2 ^ s := by
  exact f64OfBits_ofNat_nearest n hn hlt

/-- The table: which conversion each of the ten type codes uses, and its byte width (`descr` itemsize). -/
theorem decoder_table (bytes : List Nat) :
    decodeValue .little .f8 bytes = ofLeBytes bytes ∧
    decodeValue .little .f4 bytes = f64BitsOfF32Bits (ofLeBytes bytes) ∧
    (∀ t ∈ [NpyTy.u1, .u2, .u4, .u8], decodeValue .little t bytes = f64BitsOfNat false (ofLeBytes bytes)) ∧
    (∀ t ∈ [NpyTy.i1, .i2, .i4, .i8], decodeValue .little t bytes = f64BitsOfInt (signedOf t.width (ofLeBytes bytes))) ∧
    [NpyTy.f4, .f8, .i1, .i2, .i4, .i8, .u1, .u2, .u4, .u8].map NpyTy.width = [4, 8, 1, 2, 4, 8, 1, 2, 4, 8] := by
  refine ⟨rfl, rfl, ?_, ?_, rfl⟩
  · intro t ht
    simp only [List.mem_cons, List.not_mem_nil, or_false] at ht
    rcases ht with rfl | rfl | rfl | rfl <;> rfl
  · intro t ht
    simp only [List.mem_cons, List.not_mem_nil, or_false] at ht
    rcases ht with rfl | rfl | rfl | rfl <;> rfl

/-! non-vacuity -/
/-- numpy's own spelling of a big-endian i2 header, v2.0 framing, one value `-2`. -/
example :
    (readNpy (frame 2 0 4 (asciiBytes ("{'descr': '>i2', 'fortran_order': False, 'shape': (1,), }".toList ++ sp' 5 ++ ['\n'])) [0xff, 0xfe])).toOption
      = some ([1], [0xc000000000000000]) := by decide +kernel

end Sfs.C15
