/-
Helper lemmas for C14 (StatRel): the statistics as weighted sums over flat positions (`sr_fsum`: all positions,
`sr_isum`: all but the first and last), and how these sums behave under `setMono`, `swapPops`, `scaleBy`, `normalize`.
-/
import SfsModel.Model.Stat
import SfsModel.Spec.Stat
import SfsModel.Lemmas.View
import SfsModel.Lemmas.Index
import SfsModel.Lemmas.SumBox
import Mathlib.Algebra.BigOperators.Group.Finset.Basic
import Mathlib.Algebra.BigOperators.Group.List.Basic
import Mathlib.Algebra.BigOperators.Ring.List
import Mathlib.Algebra.Field.Basic
import Mathlib.Algebra.CharZero.Defs
import Mathlib.Tactic.Ring
namespace Sfs
open Sfs.Spec

/-! ### lists: `interior`, `withIdx` -/

theorem sr_interior_map {β γ : Type} (f : β → γ) (l : List β) : interior (l.map f) = (interior l).map f := by
  simp [interior, List.map_take]

theorem sr_interior_range (n : Nat) : interior (List.range n) = List.range' 1 (n - 2) := by
  apply List.ext_getElem?
  intro i
  simp only [interior, List.length_range, List.getElem?_drop, List.getElem?_take]
  grind

theorem sr_self_eq_map_range {α : Type} [Zero α] (l : List α) :
    l = (List.range l.length).map (fun k => l.getD k 0) := by
  apply List.ext_getElem?
  intro i
  simp only [List.getElem?_map, List.getD_eq_getElem?_getD]
  by_cases h : i < l.length
  · simp [h]
  · simp [h]

theorem sr_withIdx_eq {α : Type} [Zero α] (l : List α) :
    withIdx l = (List.range l.length).map (fun k => (k, l.getD k 0)) := by
  apply List.ext_getElem?
  intro i
  simp only [withIdx, List.getElem?_map, List.getD_eq_getElem?_getD]
  by_cases h : i < l.length
  · simp [h, List.zip_eq_zipWith]
  · simp [h, List.zip_eq_zipWith]

theorem sr_interior_withIdx {α : Type} [Zero α] (l : List α) :
    interior (withIdx l) = (List.range' 1 (l.length - 2)).map (fun k => (k, l.getD k 0)) := by
  rw [sr_withIdx_eq, sr_interior_map, sr_interior_range]

theorem sr_interior_eq {α : Type} [Zero α] (l : List α) :
    interior l = (List.range' 1 (l.length - 2)).map (fun k => l.getD k 0) := by
  conv_lhs => rw [sr_self_eq_map_range l]
  rw [sr_interior_map, sr_interior_range]

/-! ### weighted sums over flat positions -/

section
variable {α : Type} [Field α]

/-- `Σ_k x_k · W k` over all positions -/
def sr_fsum (x : List α) (W : Nat → α) : α := ((List.range x.length).map (fun k => x.getD k 0 * W k)).sum

/-- `Σ_k x_k · W k` over all positions but the first and the last -/
def sr_isum (x : List α) (W : Nat → α) : α := ((List.range' 1 (x.length - 2)).map (fun k => x.getD k 0 * W k)).sum

theorem sr_isum_congr (x y : List α) (W V : Nat → α) (hl : x.length = y.length)
    (h : ∀ k, 1 ≤ k → k + 1 < x.length → x.getD k 0 * W k = y.getD k 0 * V k) : sr_isum x W = sr_isum y V := by
  unfold sr_isum
  rw [← hl]
  congr 1
  apply List.map_congr_left
  intro k hk
  rw [List.mem_range'_1] at hk
  exact h k hk.1 (by omega)

theorem sr_fsum_congr (x y : List α) (W V : Nat → α) (hl : x.length = y.length)
    (h : ∀ k, k < x.length → x.getD k 0 * W k = y.getD k 0 * V k) : sr_fsum x W = sr_fsum y V := by
  unfold sr_fsum
  rw [← hl]
  congr 1
  apply List.map_congr_left
  intro k hk
  exact h k (List.mem_range.mp hk)

theorem sr_fsum_split (x : List α) (W : Nat → α) (h : 2 ≤ x.length) :
    sr_fsum x W = x.getD 0 0 * W 0 + sr_isum x W + x.getD (x.length - 1) 0 * W (x.length - 1) := by
  unfold sr_fsum sr_isum
  obtain ⟨n, hn⟩ : ∃ n, x.length = n + 2 := ⟨x.length - 2, by omega⟩
  rw [hn, List.range_eq_range', List.range'_succ, List.range'_concat]
  simp [add_assoc, Nat.add_comm 1 n]

theorem sr_getD_setMono (x : List α) (p q : α) (k : Nat) (h1 : 1 ≤ k) (h2 : k + 1 < x.length) :
    ((x.set 0 p).set (x.length - 1) q).getD k 0 = x.getD k 0 := by
  simp only [List.getD_eq_getElem?_getD, List.getElem?_set]
  rw [if_neg (by omega), if_neg (by omega)]

theorem sr_isum_setMono (x : List α) (p q : α) (W : Nat → α) :
    sr_isum ((x.set 0 p).set (x.length - 1) q) W = sr_isum x W := by
  apply sr_isum_congr _ _ _ _ (by simp)
  intro k h1 h2
  simp only [List.length_set] at h2
  rw [sr_getD_setMono x p q k h1 h2]

theorem sr_getD_map_mul (c : α) (x : List α) (k : Nat) : (x.map (fun v => c * v)).getD k 0 = c * x.getD k 0 := by
  simp only [List.getD_eq_getElem?_getD, List.getElem?_map]
  cases x[k]? <;> simp

theorem sr_getD_map_div (s : α) (x : List α) (k : Nat) : (x.map (fun v => v / s)).getD k 0 = x.getD k 0 / s := by
  simp only [List.getD_eq_getElem?_getD, List.getElem?_map]
  cases x[k]? <;> simp

theorem sr_isum_scale (c : α) (x : List α) (W : Nat → α) : sr_isum (x.map (fun v => c * v)) W = c * sr_isum x W := by
  unfold sr_isum
  rw [List.length_map, ← List.sum_map_mul_left]
  congr 1
  apply List.map_congr_left
  intro k _
  rw [sr_getD_map_mul, mul_assoc]

theorem sr_fsum_scale (c : α) (x : List α) (W : Nat → α) : sr_fsum (x.map (fun v => c * v)) W = c * sr_fsum x W := by
  unfold sr_fsum
  rw [List.length_map, ← List.sum_map_mul_left]
  congr 1
  apply List.map_congr_left
  intro k _
  rw [sr_getD_map_mul, mul_assoc]

theorem sr_isum_div (s : α) (x : List α) (W : Nat → α) : sr_isum (x.map (fun v => v / s)) W = sr_isum x W / s := by
  unfold sr_isum
  rw [List.length_map, div_eq_mul_inv, ← List.sum_map_mul_right]
  congr 1
  apply List.map_congr_left
  intro k _
  rw [sr_getD_map_div, div_eq_mul_inv]
  ring

theorem sr_fsum_div (s : α) (x : List α) (W : Nat → α) : sr_fsum (x.map (fun v => v / s)) W = sr_fsum x W / s := by
  unfold sr_fsum
  rw [List.length_map, div_eq_mul_inv, ← List.sum_map_mul_right]
  congr 1
  apply List.map_congr_left
  intro k _
  rw [sr_getD_map_div, div_eq_mul_inv]
  ring

theorem sr_sum_eq_fsum (x : List α) : x.sum = sr_fsum x (fun _ => 1) := by
  unfold sr_fsum
  conv_lhs => rw [sr_self_eq_map_range x]
  simp

/-! ### the statistics as weighted sums -/

theorem sr_segregating_eq (x : List α) : segregating x = sr_isum x (fun _ => 1) := by
  unfold segregating sr_isum
  rw [sumList_eq_sum, sr_interior_eq]
  simp

theorem sr_thetaEstimate_eq (w : Nat → Nat → α) (x : List α) :
    thetaEstimate w x = sr_isum x (fun k => w k (x.length - 1)) := by
  unfold thetaEstimate sr_isum
  simp only [sumList_eq_sum, sr_interior_withIdx, List.map_map]
  congr 1
  apply List.map_congr_left
  intro k _
  simp [mul_comm]

theorem sr_freqSum_eq (w : List α → α) (a : Arr α) : freqSum w a = sr_fsum a.data (fun k => w (freqs a.shape k)) := by
  unfold freqSum sr_fsum
  simp only [sumList_eq_sum, sr_withIdx_eq, List.map_map]
  rfl

theorem sr_foldl_pair {β : Type} (f g : β → α) (l : List β) (z : α × α) :
    l.foldl (fun acc p => (acc.1 + f p, acc.2 + g p)) z = (z.1 + (l.map f).sum, z.2 + (l.map g).sum) := by
  induction l generalizing z with
  | nil => simp
  | cons b l ih => simp [List.foldl_cons, ih, add_assoc]

/-- per-cell numerator weight of Hudson's Fst -/
def sr_fstNum (shape : List Nat) (k : Nat) : α :=
  let f := freqs (α := α) shape k
  (nth f 0 - nth f 1) * (nth f 0 - nth f 1)
    - nth f 0 * (1 - nth f 0) / (((shape.getD 0 0 : Nat) : α) - ((2 : Nat) : α))
    - nth f 1 * (1 - nth f 1) / (((shape.getD 1 0 : Nat) : α) - ((2 : Nat) : α))

/-- per-cell denominator weight of Hudson's Fst -/
def sr_fstDen (shape : List Nat) (k : Nat) : α :=
  let f := freqs (α := α) shape k
  nth f 0 * (1 - nth f 1) + nth f 1 * (1 - nth f 0)

theorem sr_fstParts_eq (a : Arr α) :
    fstParts a = (sr_isum a.data (sr_fstNum a.shape), sr_isum a.data (sr_fstDen a.shape)) := by
  refine (sr_foldl_pair (fun p : Nat × α => p.2 * sr_fstNum a.shape p.1)
    (fun p : Nat × α => p.2 * sr_fstDen a.shape p.1) _ _).trans ?_
  simp only [sr_interior_withIdx, List.map_map, zero_add]
  rfl

/-! ### the two monomorphic entries: one-population statistics -/

theorem sr_segregating_setMono (x : List α) (p q : α) :
    segregating ((x.set 0 p).set (x.length - 1) q) = segregating x := by
  rw [sr_segregating_eq, sr_segregating_eq, sr_isum_setMono]

theorem sr_thetaEstimate_setMono (w : Nat → Nat → α) (x : List α) (p q : α) :
    thetaEstimate w ((x.set 0 p).set (x.length - 1) q) = thetaEstimate w x := by
  rw [sr_thetaEstimate_eq, sr_thetaEstimate_eq, sr_isum_setMono]
  simp only [List.length_set]

theorem sr_dTajima_setMono (x : List α) (p q : α) :
    dTajima ((x.set 0 p).set (x.length - 1) q) = dTajima x := by
  simp only [dTajima, statPi, statTheta, sr_thetaEstimate_setMono, sr_segregating_setMono, List.length_set]

theorem sr_dFuLi_setMono (x : List α) (p q : α) (h3 : 3 ≤ x.length) :
    dFuLi ((x.set 0 p).set (x.length - 1) q) = dFuLi x := by
  have h1 : thetaFuLi ((x.set 0 p).set (x.length - 1) q) = thetaFuLi x := by
    simp only [thetaFuLi, List.getElem?_set]
    rw [if_neg (by omega), if_neg (by omega)]
  simp only [dFuLi, h1, statTheta, sr_thetaEstimate_setMono, sr_segregating_setMono, List.length_set]

/-! ### normalisation -/

theorem sr_normalize_eq (x : List α) : normalize x = x.map (fun v => v / sumList x) := rfl

theorem sr_fstParts_normalized (a : Arr α) :
    fstParts (normalized a) = ((fstParts a).1 / sumList a.data, (fstParts a).2 / sumList a.data) := by
  rw [sr_fstParts_eq, sr_fstParts_eq]
  simp only [normalized, sr_normalize_eq, sr_isum_div]

theorem sr_freqSum_normalized (w : List α → α) (a : Arr α) :
    freqSum w (normalized a) = freqSum w a / sumList a.data := by
  rw [sr_freqSum_eq, sr_freqSum_eq]
  simp only [normalized, sr_normalize_eq, sr_fsum_div]

theorem sr_statFst_normalized (a : Arr α) (hs : sumList a.data ≠ 0) : statFst (normalized a) = statFst a := by
  unfold statFst
  rw [sr_fstParts_normalized]
  exact div_div_div_cancel_right₀ hs _ _

theorem sr_fstParts_setMono (a : Arr α) (p q : α) : fstParts (setMono a p q) = fstParts a := by
  rw [sr_fstParts_eq, sr_fstParts_eq]
  simp only [setMono, sr_isum_setMono]

theorem sr_normalized_scaleBy (c : α) (hc : c ≠ 0) (a : Arr α) : normalized (scaleBy c a) = normalized a := by
  simp only [normalized, scaleBy, sr_normalize_eq, sumList_eq_sum, List.map_map]
  congr 1
  apply List.map_congr_left
  intro v _
  have hsum : (List.map (fun x => c * x) a.data).sum = c * a.data.sum := by
    rw [List.sum_map_mul_left]; simp
  simp only [Function.comp, hsum]
  exact mul_div_mul_left _ _ hc

/-! ### row-major enumeration, transposition -/

theorem sr_div_mod (c i j : Nat) (hj : j < c) : (i * c + j) / c = i ∧ (i * c + j) % c = j := by
  have hc : 0 < c := by omega
  constructor
  · rw [Nat.mul_comm, Nat.mul_add_div hc, Nat.div_eq_of_lt hj]; simp
  · rw [Nat.mul_comm, Nat.mul_add_mod]; exact Nat.mod_eq_of_lt hj

theorem sr_flatMap_range {β : Type} (f : Nat → Nat → β) (r c : Nat) :
    (List.range r).flatMap (fun i => (List.range c).map (f i)) = (List.range (r * c)).map (fun k => f (k / c) (k % c)) := by
  induction r with
  | zero => simp
  | succ r ih =>
    rw [List.range_succ, List.flatMap_append, ih, Nat.succ_mul, List.range_add, List.map_append]
    congr 1
    simp only [List.flatMap_cons, List.flatMap_nil, List.append_nil, List.map_map]
    apply List.map_congr_left
    intro j hj
    have hj' : j < c := List.mem_range.mp hj
    have := sr_div_mod c r j hj'
    simp only [Function.comp]
    rw [this.1, this.2]

theorem sr_swap_data (a : Arr α) (r c : Nat) (hs : a.shape = [r, c]) :
    (swapPops a).data = (List.range (c * r)).map (fun k => a.data.getD ((k % r) * c + k / r) 0) := by
  simp only [swapPops, hs, List.getD_cons_zero, List.getD_cons_succ]
  exact sr_flatMap_range (fun j i => a.data.getD (i * c + j) 0) c r

theorem sr_swap_shape (a : Arr α) (r c : Nat) (hs : a.shape = [r, c]) : (swapPops a).shape = [c, r] := by
  simp [swapPops, hs]

theorem sr_swap_length (a : Arr α) (r c : Nat) (hs : a.shape = [r, c]) : (swapPops a).data.length = c * r := by
  rw [sr_swap_data a r c hs]; simp

theorem sr_swap_getD (a : Arr α) (r c : Nat) (hs : a.shape = [r, c]) (i j : Nat) (hi : i < r) (hj : j < c) :
    (swapPops a).data.getD (j * r + i) 0 = a.data.getD (i * c + j) 0 := by
  have hlt : j * r + i < c * r := by
    calc j * r + i < j * r + r := by omega
      _ = (j + 1) * r := by rw [Nat.succ_mul]
      _ ≤ c * r := Nat.mul_le_mul_right r hj
  have hdm := sr_div_mod r j i hi
  rw [sr_swap_data a r c hs]
  simp only [List.getD_eq_getElem?_getD, List.getElem?_map, List.getElem?_range hlt, Option.map_some,
    Option.getD_some, hdm.1, hdm.2]

theorem sr_fsum_swap (a : Arr α) (r c : Nat) (hs : a.shape = [r, c]) (hl : a.data.length = r * c) (W W' : Nat → α)
    (hW : ∀ i j, i < r → j < c → W' (j * r + i) = W (i * c + j)) :
    sr_fsum (swapPops a).data W' = sr_fsum a.data W := by
  unfold sr_fsum
  rw [sr_swap_length a r c hs, hl, list_range_sum, list_range_sum, sum_range_mul, sum_range_mul, Finset.sum_comm]
  apply Finset.sum_congr rfl
  intro i hi
  apply Finset.sum_congr rfl
  intro j hj
  rw [Finset.mem_range] at hi hj
  rw [sr_swap_getD a r c hs i j hi hj, hW i j hi hj]

theorem sr_last (r c : Nat) (hr : 1 ≤ r) (hc : 1 ≤ c) : r * c - 1 = (r - 1) * c + (c - 1) := by
  obtain ⟨r, rfl⟩ : ∃ k, r = k + 1 := ⟨r - 1, by omega⟩
  obtain ⟨c, rfl⟩ : ∃ k, c = k + 1 := ⟨c - 1, by omega⟩
  simp only [Nat.add_sub_cancel, Nat.succ_mul, Nat.mul_succ]
  omega

theorem sr_isum_swap (a : Arr α) (r c : Nat) (hs : a.shape = [r, c]) (hl : a.data.length = r * c)
    (hr : 2 ≤ r) (hc : 2 ≤ c) (W W' : Nat → α)
    (hW : ∀ i j, i < r → j < c → W' (j * r + i) = W (i * c + j)) :
    sr_isum (swapPops a).data W' = sr_isum a.data W := by
  have h4 : 2 ≤ r * c := by
    calc 2 ≤ 2 * 2 := by omega
      _ ≤ r * c := Nat.mul_le_mul hr hc
  have hl' := sr_swap_length a r c hs
  have hf := sr_fsum_swap a r c hs hl W W' hW
  rw [sr_fsum_split _ _ (by rw [hl']; rw [Nat.mul_comm]; exact h4), sr_fsum_split _ _ (by rw [hl]; exact h4)] at hf
  have h0 : (swapPops a).data.getD 0 0 * W' 0 = a.data.getD 0 0 * W 0 := by
    have h1 := sr_swap_getD a r c hs 0 0 (by omega) (by omega)
    have h2 := hW 0 0 (by omega) (by omega)
    simp only [Nat.zero_mul, Nat.add_zero] at h1 h2
    rw [h1, h2]
  have hlast : (swapPops a).data.getD ((swapPops a).data.length - 1) 0 * W' ((swapPops a).data.length - 1)
      = a.data.getD (a.data.length - 1) 0 * W (a.data.length - 1) := by
    rw [hl', hl, sr_last c r (by omega) (by omega), sr_last r c (by omega) (by omega),
      sr_swap_getD a r c hs (r - 1) (c - 1) (by omega) (by omega), hW (r - 1) (c - 1) (by omega) (by omega)]
  rw [h0, hlast] at hf
  exact add_left_cancel (add_right_cancel hf)

/-! ### frequencies of a two-population spectrum -/

theorem sr_indexFromFlat2 (r c k : Nat) (hr : 0 < r) (hc : 0 < c) : indexFromFlat [r, c] k = [k / c, k % c] := by
  simp only [indexFromFlat, unflatLoop, size, Nat.mul_one, Nat.mul_div_cancel_left c hr, Nat.div_self hc, Nat.div_one]

theorem sr_freqs2 (r c k : Nat) (hr : 0 < r) (hc : 0 < c) :
    freqs (α := α) [r, c] k = [((k / c : Nat) : α) / ((r - 1 : Nat) : α), ((k % c : Nat) : α) / ((c - 1 : Nat) : α)] := by
  simp [freqs, sr_indexFromFlat2 r c k hr hc]

theorem sr_freqs2_nth (r c i j : Nat) (hr : 0 < r) (hj : j < c) :
    nth (freqs (α := α) [r, c] (i * c + j)) 0 = ((i : Nat) : α) / ((r - 1 : Nat) : α) ∧
    nth (freqs (α := α) [r, c] (i * c + j)) 1 = ((j : Nat) : α) / ((c - 1 : Nat) : α) := by
  have hdm := sr_div_mod c i j hj
  rw [sr_freqs2 r c _ hr (by omega), hdm.1, hdm.2]
  simp [nth]

omit [Field α] in
theorem sr_two (a : Arr α) (hl : a.data.length = size a.shape) (hv : ∀ v ∈ a.shape, 2 ≤ v) (h2 : a.shape.length = 2) :
    ∃ r c, a.shape = [r, c] ∧ a.data.length = r * c ∧ 2 ≤ r ∧ 2 ≤ c := by
  obtain ⟨data, shape⟩ := a
  match shape, h2 with
  | [r, c], _ =>
    refine ⟨r, c, rfl, ?_, hv r (by simp), hv c (by simp)⟩
    simpa [size] using hl

/-! ### swapping the two populations -/

theorem sr_sumList_swap (a : Arr α) (r c : Nat) (hs : a.shape = [r, c]) (hl : a.data.length = r * c) :
    sumList (swapPops a).data = sumList a.data := by
  rw [sumList_eq_sum, sumList_eq_sum, sr_sum_eq_fsum, sr_sum_eq_fsum]
  exact sr_fsum_swap a r c hs hl _ _ (fun _ _ _ _ => rfl)

theorem sr_statF2_swap (a : Arr α) (hl : a.data.length = size a.shape) (hv : ∀ v ∈ a.shape, 2 ≤ v)
    (h2 : a.shape.length = 2) : statF2 (normalized (swapPops a)) = statF2 (normalized a) := by
  obtain ⟨r, c, hs, hl', hr, hc⟩ := sr_two a hl hv h2
  unfold statF2
  rw [sr_freqSum_normalized, sr_freqSum_normalized, sr_sumList_swap a r c hs hl', sr_freqSum_eq, sr_freqSum_eq,
    sr_swap_shape a r c hs, hs]
  congr 1
  apply sr_fsum_swap a r c hs hl'
  intro i j hi hj
  have h1 := sr_freqs2_nth (α := α) c r j i (by omega) hi
  have h2 := sr_freqs2_nth (α := α) r c i j (by omega) hj
  simp only [h1.1, h1.2, h2.1, h2.2]
  ring

theorem sr_fstParts_swap (a : Arr α) (hl : a.data.length = size a.shape) (hv : ∀ v ∈ a.shape, 2 ≤ v)
    (h2 : a.shape.length = 2) : fstParts (swapPops a) = fstParts a := by
  obtain ⟨r, c, hs, hl', hr, hc⟩ := sr_two a hl hv h2
  rw [sr_fstParts_eq, sr_fstParts_eq, sr_swap_shape a r c hs, hs]
  congr 1
  · apply sr_isum_swap a r c hs hl' hr hc
    intro i j hi hj
    have h1 := sr_freqs2_nth (α := α) c r j i (by omega) hi
    have h2 := sr_freqs2_nth (α := α) r c i j (by omega) hj
    simp only [sr_fstNum, h1.1, h1.2, h2.1, h2.2, List.getD_cons_zero, List.getD_cons_succ]
    ring
  · apply sr_isum_swap a r c hs hl' hr hc
    intro i j hi hj
    have h1 := sr_freqs2_nth (α := α) c r j i (by omega) hi
    have h2 := sr_freqs2_nth (α := α) r c i j (by omega) hj
    simp only [sr_fstDen, h1.1, h1.2, h2.1, h2.2]
    ring

theorem sr_statFst_swap (a : Arr α) (hl : a.data.length = size a.shape) (hv : ∀ v ∈ a.shape, 2 ≤ v)
    (h2 : a.shape.length = 2) : statFst (normalized (swapPops a)) = statFst (normalized a) := by
  obtain ⟨r, c, hs, hl', hr, hc⟩ := sr_two a hl hv h2
  unfold statFst
  rw [sr_fstParts_normalized, sr_fstParts_normalized, sr_sumList_swap a r c hs hl', sr_fstParts_swap a hl hv h2]

/-! ### pi_xy -/

/-- the weight of cell `k` (row-major, `c` columns) in the numerator of pi_xy -/
def sr_pixyW (r c k : Nat) : α := ((k / c * ((c - 1) - k % c) + k % c * ((r - 1) - k / c) : Nat) : α)

theorem sr_statPiXY_eq (a : Arr α) (r c : Nat) (hs : a.shape = [r, c]) (hl : a.data.length = r * c)
    (hr : 1 ≤ r) (hc : 1 ≤ c) :
    statPiXY a = sr_isum a.data (sr_pixyW r c) / (((r - 1) * (c - 1) : Nat) : α) := by
  unfold statPiXY sr_isum
  simp only [hs, List.getD_cons_zero, List.getD_cons_succ, Nat.sub_add_cancel hr, Nat.sub_add_cancel hc]
  rw [sr_flatMap_range (fun m1 m2 => (m1, m2)) r c]
  have hint : List.drop 1 (List.take (a.data.length - 1) (List.map (fun k => (k / c, k % c)) (List.range (r * c))))
      = (List.range' 1 (a.data.length - 2)).map (fun k => (k / c, k % c)) := by
    rw [← sr_interior_range, ← sr_interior_map, hl]
    simp [interior]
  rw [hint, sumList_eq_sum, List.map_map]
  congr 2
  apply List.map_congr_left
  intro k _
  simp only [Function.comp, nth, sr_pixyW, Nat.div_add_mod']

theorem sr_statPiXY_setMono (a : Arr α) (hl : a.data.length = size a.shape) (hv : ∀ v ∈ a.shape, 2 ≤ v)
    (h2 : a.shape.length = 2) (p q : α) : statPiXY (setMono a p q) = statPiXY a := by
  obtain ⟨r, c, hs, hl', hr, hc⟩ := sr_two a hl hv h2
  rw [sr_statPiXY_eq a r c hs hl' (by omega) (by omega),
    sr_statPiXY_eq (setMono a p q) r c hs (by simpa [setMono] using hl') (by omega) (by omega)]
  simp only [setMono, sr_isum_setMono]

theorem sr_statPiXY_swap (a : Arr α) (hl : a.data.length = size a.shape) (hv : ∀ v ∈ a.shape, 2 ≤ v)
    (h2 : a.shape.length = 2) : statPiXY (swapPops a) = statPiXY a := by
  obtain ⟨r, c, hs, hl', hr, hc⟩ := sr_two a hl hv h2
  rw [sr_statPiXY_eq a r c hs hl' (by omega) (by omega),
    sr_statPiXY_eq (swapPops a) c r (sr_swap_shape a r c hs) (sr_swap_length a r c hs) (by omega) (by omega),
    Nat.mul_comm (c - 1) (r - 1)]
  congr 1
  apply sr_isum_swap a r c hs hl' hr hc
  intro i j hi hj
  have h1 := sr_div_mod r j i hi
  have h2 := sr_div_mod c i j hj
  simp only [sr_pixyW, h1.1, h1.2, h2.1, h2.2]
  rw [Nat.add_comm]

theorem sr_sum_map_mul (c : α) (l : List α) : (l.map (fun x => c * x)).sum = c * l.sum := by
  induction l with
  | nil => simp
  | cons b l ih => simp [ih, mul_add]

theorem sr_statPiXY_scale (c : α) (a : Arr α) : statPiXY (scaleBy c a) = c * statPiXY a := by
  unfold statPiXY
  simp only [scaleBy, List.length_map, nth, sr_getD_map_mul, sumList_eq_sum]
  rw [← mul_div_assoc, ← List.sum_map_mul_left]
  simp only [mul_assoc]

theorem sr_statFst_setMono (a : Arr α) (p q : α) (hs : sumList a.data ≠ 0) (hs' : sumList (setMono a p q).data ≠ 0) :
    statFst (normalized (setMono a p q)) = statFst (normalized a) := by
  rw [sr_statFst_normalized _ hs, sr_statFst_normalized _ hs']
  unfold statFst
  rw [sr_fstParts_setMono]

/-! ### KING, R0, R1 -/

theorem sr_at33_setMono (a : Arr α) (hl : a.data.length = 9) (p q : α) (r c : Nat) (h1 : 1 ≤ 3 * r + c)
    (h2 : 3 * r + c < 8) : at33 (setMono a p q) r c = at33 a r c := by
  unfold at33 nth setMono
  exact sr_getD_setMono a.data p q _ h1 (by omega)

theorem sr_king_setMono (a : Arr α) (hl : a.data.length = 9) (p q : α) :
    statKing (setMono a p q) = statKing a ∧ statR0 (setMono a p q) = statR0 a ∧ statR1 (setMono a p q) = statR1 a := by
  have e01 := sr_at33_setMono a hl p q 0 1 (by omega) (by omega)
  have e02 := sr_at33_setMono a hl p q 0 2 (by omega) (by omega)
  have e10 := sr_at33_setMono a hl p q 1 0 (by omega) (by omega)
  have e11 := sr_at33_setMono a hl p q 1 1 (by omega) (by omega)
  have e12 := sr_at33_setMono a hl p q 1 2 (by omega) (by omega)
  have e20 := sr_at33_setMono a hl p q 2 0 (by omega) (by omega)
  have e21 := sr_at33_setMono a hl p q 2 1 (by omega) (by omega)
  simp only [statKing, statR0, statR1, e01, e02, e10, e11, e12, e20, e21, and_self]

theorem sr_at33_swap (a : Arr α) (hs : a.shape = [3, 3]) (r c : Nat) (hr : r < 3) (hc : c < 3) :
    at33 (swapPops a) r c = at33 a c r := by
  unfold at33 nth
  rw [Nat.mul_comm 3 r, Nat.mul_comm 3 c]
  exact sr_swap_getD a 3 3 hs c r hc hr

theorem sr_king_swap (a : Arr α) (hs : a.shape = [3, 3]) :
    statKing (swapPops a) = statKing a ∧ statR0 (swapPops a) = statR0 a ∧ statR1 (swapPops a) = statR1 a := by
  have e01 := sr_at33_swap a hs 0 1 (by omega) (by omega)
  have e02 := sr_at33_swap a hs 0 2 (by omega) (by omega)
  have e10 := sr_at33_swap a hs 1 0 (by omega) (by omega)
  have e11 := sr_at33_swap a hs 1 1 (by omega) (by omega)
  have e12 := sr_at33_swap a hs 1 2 (by omega) (by omega)
  have e20 := sr_at33_swap a hs 2 0 (by omega) (by omega)
  have e21 := sr_at33_swap a hs 2 1 (by omega) (by omega)
  simp only [statKing, statR0, statR1, e01, e02, e10, e11, e12, e20, e21, sumList_eq_sum, List.sum_cons, List.sum_nil]
  refine ⟨?_, ?_, ?_⟩
  · congr 1 <;> ring
  · congr 1; ring
  · congr 1; ring

theorem sr_at33_scale (c : α) (a : Arr α) (r k : Nat) : at33 (scaleBy c a) r k = c * at33 a r k := by
  unfold at33 nth scaleBy
  exact sr_getD_map_mul c a.data _

theorem sr_king_scale (c : α) (hc : c ≠ 0) (a : Arr α) :
    statKing (scaleBy c a) = statKing a ∧ statR0 (scaleBy c a) = statR0 a ∧ statR1 (scaleBy c a) = statR1 a := by
  simp only [statKing, statR0, statR1, sr_at33_scale, sumList_eq_sum, List.sum_cons, List.sum_nil]
  refine ⟨?_, ?_, ?_⟩
  · conv_rhs => rw [← mul_div_mul_left _ _ hc]
    congr 1 <;> ring
  · conv_rhs => rw [← mul_div_mul_left _ _ hc]
    congr 1; ring
  · conv_rhs => rw [← mul_div_mul_left _ _ hc]
    congr 1; ring

/-! ### scaling: linear statistics -/

theorem sr_scale_linear (c : α) (a : Arr α) :
    sumList (scaleBy c a).data = c * sumList a.data ∧ segregating (scaleBy c a).data = c * segregating a.data ∧
    statPi (scaleBy c a).data = c * statPi a.data ∧ statTheta (scaleBy c a).data = c * statTheta a.data ∧
    statPiXY (scaleBy c a) = c * statPiXY a := by
  refine ⟨?_, ?_, ?_, ?_, sr_statPiXY_scale c a⟩
  · simp only [scaleBy, sumList_eq_sum, sr_sum_map_mul]
  · simp only [scaleBy, sr_segregating_eq, sr_isum_scale]
  · simp only [scaleBy, statPi, sr_thetaEstimate_eq, sr_isum_scale, List.length_map]
  · simp only [scaleBy, statTheta, sr_thetaEstimate_eq, sr_isum_scale, List.length_map]

end

end Sfs
