/-
Helper lemmas for C14 (StatRel).
-/
import SfsModel.Model.Stat
import SfsModel.Spec.Stat
namespace Sfs

end Sfs
