/-
Strided odometer lemmas (view iterator / projection iterator): one transcribed step from the
digits of `j` yields the digits of `j+1`. Core Lean only.
-/
import SfsModel.Model.Array
import SfsModel.Lemmas.Index
namespace Sfs

/-! ### generic iterator traces -/

/-- If `S j` is the state after `j` calls and `out j` the item of call `j`, then `runIter` from
    `S k` records `out k, out (k+1), …` and ends in `S (k+n)`. -/
theorem runIter_trace {σ β} (next : σ → Option β × σ) (S : Nat → σ) (out : Nat → Option β)
    (h : ∀ j, next (S j) = (out j, S (j + 1))) : ∀ n k,
    runIter next n (S k) = ((List.range n).map (fun j => out (k + j)), S (k + n))
  | 0, k => by simp [runIter]
  | n + 1, k => by
    have ih := runIter_trace next S out h n (k + 1)
    simp only [runIter, h, ih, List.range_succ_eq_map, List.map_cons, List.map_map]
    refine Prod.ext ?_ ?_
    · simp only [Nat.add_zero, List.cons.injEq, true_and]
      apply List.map_congr_left
      intro j _
      simp only [Function.comp, Nat.succ_eq_add_one]
      rw [Nat.add_assoc, Nat.add_comm 1 j]
    · show S (k + 1 + n) = S (k + (n + 1))
      rw [Nat.add_assoc, Nat.add_comm 1 n]

/-- A counting iterator: state is the position, saturating at `N`. -/
theorem runIter_counter {β} (next : Nat → Option β × Nat) (N : Nat) (g : Nat → Option β)
    (hlt : ∀ k, k < N → next k = (g k, k + 1)) (hge : ∀ k, N ≤ k → next k = (none, k)) (n : Nat) :
    runIter next n 0
      = ((List.range n).map (fun j => if j < N then g j else none), min n N) := by
  have h : ∀ j, next (min j N) = ((if j < N then g j else none), min (j + 1) N) := by
    intro j
    by_cases hj : j < N
    · rw [Nat.min_eq_left (Nat.le_of_lt hj), hlt j hj, if_pos hj, Nat.min_eq_left hj]
    · have hj' : N ≤ j := Nat.le_of_not_lt hj
      rw [Nat.min_eq_right hj', hge N (Nat.le_refl _), if_neg hj,
        Nat.min_eq_right (Nat.le_succ_of_le hj')]
  have := runIter_trace next (fun j => min j N) (fun j => if j < N then g j else none) h n 0
  simpa using this

/-! ### little-endian digits -/

/-- little-endian mixed-radix digits: last axis first -/
def unflatR : List Nat → Nat → List Nat
  | [], _ => []
  | v :: s, j => (j % v) :: unflatR s (j / v)

theorem unflatR_zero : ∀ s, unflatR s 0 = List.replicate s.length 0
  | [] => rfl
  | _ :: s => by simp [unflatR, unflatR_zero s, List.replicate_succ]

/-- One `stepR` from the digits of `j` (and the matching strided offset) gives the digits and
    offset of `j + 1`, or `none` at the end. -/
theorem stepR_spec : ∀ (shR stR : List Nat) (j : Nat), shR.length = stR.length →
    (∀ v ∈ shR, 0 < v) → j < size shR →
    stepR shR stR (unflatR shR j) (dot (unflatR shR j) stR)
      = if j + 1 < size shR then some (unflatR shR (j + 1), dot (unflatR shR (j + 1)) stR) else none
  | [], [], j, _, _, hj => by simp [size] at hj; simp [stepR, size, hj]
  | v :: sh, st :: sts, j, hl, hpos, hj => by
    have hv : 0 < v := hpos v (by simp)
    have hpos' : ∀ w ∈ sh, 0 < w := fun w hw => hpos w (by simp [hw])
    have hl' : sh.length = sts.length := by simpa using hl
    simp only [size] at hj ⊢
    have hq : j / v < size sh := Nat.div_lt_of_lt_mul hj
    have ih := stepR_spec sh sts (j / v) hl' hpos' hq
    have hr := Nat.mod_lt j hv
    have hdm := Nat.div_add_mod j v
    simp only [unflatR, stepR, dot]
    by_cases hc : j % v + 1 < v
    · have e1 : (j + 1) % v = j % v + 1 := by
        have : j + 1 = v * (j / v) + (j % v + 1) := by omega
        rw [this, Nat.mul_add_mod, Nat.mod_eq_of_lt hc]
      have e2 : (j + 1) / v = j / v := by
        have : j + 1 = v * (j / v) + (j % v + 1) := by omega
        rw [this, Nat.mul_add_div hv, Nat.div_eq_of_lt hc]; simp
      have e3 : j + 1 < v * size sh := by
        have : v * (j / v + 1) ≤ v * size sh := Nat.mul_le_mul_left _ hq
        rw [Nat.mul_add, Nat.mul_one] at this
        omega
      simp only [hc, if_true, e1, e2, e3]
      congr 2
      rw [Nat.add_mul, Nat.one_mul]; omega
    · have hS : j % v + 1 = v := by omega
      have e0 : j + 1 = v * (j / v + 1) := by rw [Nat.mul_add, Nat.mul_one]; omega
      have e1 : (j + 1) % v = 0 := by rw [e0]; exact Nat.mul_mod_right _ _
      have e2 : (j + 1) / v = j / v + 1 := by rw [e0, Nat.mul_div_cancel_left _ hv]
      have e3 : (j + 1 < v * size sh) ↔ (j / v + 1 < size sh) := by
        rw [e0]; exact Nat.mul_lt_mul_left hv
      have hoff : j % v * st + dot (unflatR sh (j / v)) sts - st * (v - 1)
          = dot (unflatR sh (j / v)) sts := by
        have : j % v = v - 1 := by omega
        rw [this, Nat.mul_comm]; omega
      simp only [hc, if_false, hoff, ih, e1, e2]
      by_cases hn : j / v + 1 < size sh
      · simp [hn, e3.mpr hn]
      · simp [hn, mt e3.mp hn]
  | [], _ :: _, _, hl, _, _ => by simp at hl
  | _ :: _, [], _, hl, _, _ => by simp at hl

/-- digits over `a ++ [v]`: the low digits only see `j mod size a`, the top digit is the quotient -/
theorem unflatR_snoc : ∀ (a : List Nat) (v j : Nat), (∀ w ∈ a, 0 < w) → j < size a * v →
    unflatR (a ++ [v]) j = unflatR a (j % size a) ++ [j / size a]
  | [], v, j, _, hj => by
    simp [size] at hj
    simp [unflatR, size, Nat.mod_eq_of_lt hj]
  | x :: a, v, j, hpos, hj => by
    have hx : 0 < x := hpos x (by simp)
    have hpos' : ∀ w ∈ a, 0 < w := fun w hw => hpos w (by simp [hw])
    simp only [size] at hj
    have hj' : j / x < size a * v := by
      apply Nat.div_lt_of_lt_mul
      rw [← Nat.mul_assoc]; exact hj
    have ih := unflatR_snoc a v (j / x) hpos' hj'
    simp only [List.cons_append, unflatR, size, ih]
    rw [Nat.mod_mul_right_mod, Nat.mod_mul_right_div_self, Nat.div_div_eq_div_mul]

theorem unflatR_reverse : ∀ (s : List Nat) (j : Nat), (∀ w ∈ s, 0 < w) → j < size s →
    unflatR s.reverse j = (unflat s j).reverse
  | [], j, _, _ => by simp [unflatR, unflat]
  | v :: s, j, hpos, hj => by
    have hpos' : ∀ w ∈ s, 0 < w := fun w hw => hpos w (by simp [hw])
    have hposr : ∀ w ∈ s.reverse, 0 < w := fun w hw => hpos' w (by simpa using hw)
    simp only [size] at hj
    have hS : 0 < size s := by
      rcases Nat.eq_zero_or_pos (size s) with h0 | h0
      · rw [h0] at hj; simp at hj
      · exact h0
    rw [List.reverse_cons, unflatR_snoc s.reverse v j hposr (by rw [size_reverse, Nat.mul_comm]; exact hj)]
    rw [size_reverse, unflatR_reverse s (j % size s) hpos' (Nat.mod_lt _ hS)]
    simp [unflat]

theorem unflat_length : ∀ (s : List Nat) (j : Nat), (unflat s j).length = s.length
  | [], _ => rfl
  | _ :: s, j => by simp [unflat, unflat_length s]

/-- The strided offset of the reversed digits is the stride dot product of the multi-index. -/
theorem dot_unflatR_reverse (sh st : List Nat) (j : Nat) (hl : sh.length = st.length)
    (hj : j < size sh) : dot (unflatR sh.reverse j) st.reverse = dot st (unflat sh j) := by
  have hpos := pos_of_size_pos sh (by omega)
  rw [unflatR_reverse sh j hpos hj, dot_reverse _ _ (by rw [unflat_length, hl]), dot_comm]

/-! ### the view iterator -/

/-- State of `view::Iter` after `j` calls of `next`. -/
def viewState {α} (v : View α) (j : Nat) : ViewIter :=
  ⟨unflatR v.shape.reverse (min j (size v.shape) - 1),
   dot (unflatR v.shape.reverse (min j (size v.shape) - 1)) v.strides.reverse,
   min j (size v.shape)⟩

/-- Item returned by call number `j` (0-based) of `view::Iter::next`. -/
def viewOut {α} (v : View α) (j : Nat) : Option α :=
  if j < size v.shape then v.data[dot v.strides (unflat v.shape j)]? else none

theorem viewState_zero {α} (v : View α) : viewState v 0 = ViewIter.init v := by
  simp [viewState, ViewIter.init, unflatR_zero, dot_replicate_zero]

theorem view_next_state {α} (v : View α) (hl : v.shape.length = v.strides.length) (j : Nat) :
    v.next (viewState v j) = (viewOut v j, viewState v (j + 1)) := by
  by_cases hj : j < size v.shape
  · have hm : min j (size v.shape) = j := Nat.min_eq_left (Nat.le_of_lt hj)
    have hm1 : min (j + 1) (size v.shape) = j + 1 := Nat.min_eq_left hj
    have hout : viewOut v j = v.data[dot (unflatR v.shape.reverse j) v.strides.reverse]? := by
      rw [viewOut, if_pos hj, dot_unflatR_reverse _ _ _ hl hj]
    rw [hout]
    cases j with
    | zero =>
      have hne : size v.shape ≠ 0 := by omega
      have hm1' : min 1 (size v.shape) = 1 := by omega
      simp [View.next, viewState, hne, hm1', unflatR_zero, dot_replicate_zero,
        List.head?_eq_getElem?]
    | succ j =>
      have hpos := pos_of_size_pos v.shape (by omega)
      have hposr : ∀ w ∈ v.shape.reverse, 0 < w := fun w hw => hpos w (by simpa using hw)
      have hspec := stepR_spec v.shape.reverse v.strides.reverse j (by simpa using hl) hposr
        (by rw [size_reverse]; omega)
      rw [size_reverse, if_pos hj] at hspec
      simp only [View.next, viewState, hm, hm1, Nat.add_sub_cancel]
      rw [if_neg (by omega), if_neg (by omega), hspec]
  · have hj' : size v.shape ≤ j := Nat.le_of_not_lt hj
    have hm : min j (size v.shape) = size v.shape := Nat.min_eq_right hj'
    have hm1 : min (j + 1) (size v.shape) = size v.shape := Nat.min_eq_right (Nat.le_succ_of_le hj')
    simp only [View.next, viewState, viewOut, hm, hm1, if_neg hj]
    rw [if_pos (Nat.le_refl _)]

/-- Call history and final state of a view iterator. -/
theorem view_runIter {α} (v : View α) (hl : v.shape.length = v.strides.length) (n : Nat) :
    runIter v.next n (ViewIter.init v) = ((List.range n).map (viewOut v), viewState v n) := by
  have := runIter_trace v.next (viewState v) (viewOut v) (view_next_state v hl) n 0
  rw [viewState_zero] at this
  simpa using this

/-- `collect` stops at the first `None`: if the first `N` items are `some`, it gathers them. -/
theorem view_collect {α} (v : View α) (hl : v.shape.length = v.strides.length)
    (hs : ∀ j, j < size v.shape → (viewOut v j).isSome) : ∀ fuel k,
    (v.collect fuel (viewState v k)).map some
      = (List.range (min fuel (size v.shape - k))).map (fun j => viewOut v (k + j))
  | 0, k => by simp [View.collect]
  | fuel + 1, k => by
    have ih := view_collect v hl hs fuel (k + 1)
    rw [View.collect, view_next_state v hl k]
    by_cases hk : k < size v.shape
    · obtain ⟨x, hx⟩ := Option.isSome_iff_exists.mp (hs k hk)
      have hmin : min (fuel + 1) (size v.shape - k) = min fuel (size v.shape - (k + 1)) + 1 := by
        omega
      simp only [hx, List.map_cons, ih, hmin, List.range_succ_eq_map, List.map_map, Nat.add_zero]
      congr 1
      apply List.map_congr_left
      intro j _
      simp only [Function.comp, Nat.succ_eq_add_one]
      rw [Nat.add_assoc, Nat.add_comm 1 j]
    · have hnone : viewOut v k = none := by simp [viewOut, hk]
      have hmin : min (fuel + 1) (size v.shape - k) = 0 := by omega
      simp [hnone, hmin]

theorem view_toList_map_some {α} (v : View α) (hl : v.shape.length = v.strides.length)
    (hs : ∀ j, j < size v.shape → (viewOut v j).isSome) :
    v.toList.map some = (List.range (size v.shape)).map (viewOut v) := by
  have := view_collect v hl hs (size v.shape + 1) 0
  rw [viewState_zero] at this
  rw [View.toList, this]
  have hmin : min (size v.shape + 1) (size v.shape - 0) = size v.shape := by omega
  rw [hmin]
  simp

/-! ### axis views of an array -/

/-- The view `get_axis(axis, i)` returns when in range. -/
def axisView {α} (a : Arr α) (axis i : Nat) : View α :=
  ⟨a.data.drop (i * (strides a.shape).getD axis 0), removeAt a.shape axis,
   removeAt (strides a.shape) axis⟩

theorem getAxis_eq_some {α} (a : Arr α) (axis i : Nat) (hax : axis < a.shape.length)
    (hi : i < a.shape.getD axis 0) : a.getAxis axis i = some (axisView a axis i) := by
  rw [Arr.getAxis, if_neg (by omega)]; rfl

theorem getAxis_some_inv {α} (a : Arr α) (axis i : Nat) (v : View α)
    (hv : a.getAxis axis i = some v) :
    axis < a.shape.length ∧ i < a.shape.getD axis 0 ∧ v = axisView a axis i := by
  unfold Arr.getAxis at hv
  split at hv
  · cases hv
  · refine ⟨by omega, by omega, ?_⟩
    simpa [axisView] using hv.symm

theorem axisView_lengths {α} (a : Arr α) (axis i : Nat) (hax : axis < a.shape.length) :
    (axisView a axis i).shape.length = (axisView a axis i).strides.length := by
  simp only [axisView]
  rw [removeAt_length _ _ hax, removeAt_length _ _ (by rw [strides_length]; exact hax),
    strides_length]

/-- The `j`-th item of the axis view is the array element whose index has `i` inserted at `axis`. -/
theorem axisView_out {α} (a : Arr α) (axis i j : Nat) (hax : axis < a.shape.length)
    (hj : j < size (removeAt a.shape axis)) :
    viewOut (axisView a axis i) j
      = a.data[flat a.shape (insertAt (unflat (removeAt a.shape axis) j) axis i)]? := by
  have hk := unflat_inB _ j hj
  have hf := flat_insertAt a.shape axis _ i hax hk
  unfold viewOut
  rw [if_pos (show j < size (axisView a axis i).shape from hj)]
  simp only [axisView]
  rw [List.getElem?_drop, hf]

theorem filterMap_eq_map_of_some {α β} (f : α → Option β) (g : α → β) : ∀ (l : List α),
    (∀ x ∈ l, f x = some (g x)) → l.filterMap f = l.map g
  | [], _ => rfl
  | x :: l, h => by
    have ih := filterMap_eq_map_of_some f g l (fun y hy => h y (by simp [hy]))
    simp [h x (by simp), ih]

theorem axisViews_eq {α} (a : Arr α) (axis : Nat) (hax : axis < a.shape.length) :
    a.axisViews axis = (List.range (a.shape.getD axis 0)).map (axisView a axis) := by
  unfold Arr.axisViews
  apply filterMap_eq_map_of_some
  intro i hi
  exact getAxis_eq_some a axis i hax (List.mem_range.mp hi)

/-! ### counting iterators: `iter_indices`, `iter_axis` -/

theorem indices_runIter (s : List Nat) (n : Nat) :
    runIter (indicesNext s) n 0
      = ((List.range n).map (fun j => if j < size s then some (unflat s j) else none),
         min n (size s)) := by
  apply runIter_counter (indicesNext s) (size s) (fun j => some (unflat s j))
  · intro k hk
    simp [indicesNext, hk, indexFromFlat, unflatLoop_eq s k hk]
  · intro k hk
    simp [indicesNext, Nat.not_lt.mpr hk]

theorem axis_runIter {α} (a : Arr α) (axis n : Nat) :
    runIter (a.axisNext axis) n 0
      = ((List.range n).map (fun i => a.getAxis axis i),
         min n (if axis < a.shape.length then a.shape.getD axis 0 else 0)) := by
  have hnone : ∀ k, (if axis < a.shape.length then a.shape.getD axis 0 else 0) ≤ k →
      a.getAxis axis k = none := by
    intro k hk
    unfold Arr.getAxis
    rw [if_pos]
    by_cases hax : axis < a.shape.length
    · rw [if_pos hax] at hk; exact Or.inr hk
    · exact Or.inl (Nat.le_of_not_lt hax)
  rw [runIter_counter (a.axisNext axis) (if axis < a.shape.length then a.shape.getD axis 0 else 0)
    (fun i => a.getAxis axis i)]
  · refine Prod.ext ?_ rfl
    apply List.map_congr_left
    intro j _
    by_cases hj : j < (if axis < a.shape.length then a.shape.getD axis 0 else 0)
    · exact if_pos hj
    · exact (if_neg hj).trans (hnone j (Nat.le_of_not_lt hj)).symm
  · intro k hk
    have hax : axis < a.shape.length := by
      by_cases hax : axis < a.shape.length
      · exact hax
      · rw [if_neg hax] at hk; omega
    rw [if_pos hax] at hk
    simp [Arr.axisNext, getAxis_eq_some a axis k hax hk]
  · intro k hk
    simp [Arr.axisNext, hnone k hk]

end Sfs
