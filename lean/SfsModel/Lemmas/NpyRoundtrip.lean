/-
Helper lemmas (NpyRoundtrip): the npy header written by `npyHeader` is walked back exactly by `readNpy`;
the dictionary printed by `npyDict` parses back; `readValues` on concatenated 8-byte little-endian values.
-/
import SfsModel.Model.Text
import SfsModel.Lemmas.Bytes
namespace Sfs


theorem npyHeader_magic (shape : List Nat) (h : List Nat) (hh : npyHeader shape = some h) :
    ∃ t, h = npyMagic ++ t := by
  unfold npyHeader at hh
  simp only at hh
  split at hh
  · cases hh; simp only [List.append_assoc]; exact ⟨_, rfl⟩
  · cases hh

theorem detectFormat_npyMagic (t : List Nat) : detectFormat (npyMagic ++ t) = some .npy := by
  simp [detectFormat, npyMagic, textStart, asciiBytes]

theorem detectFormat_text (t : List Char) : detectFormat (asciiBytes ("#SHAPE=<".toList ++ t)) = some .text := by
  simp [detectFormat, npyMagic, textStart, asciiBytes]


theorem npyHeader_isSome (shape : List Nat) (h : (npyDict shape).length + 64 < 65536) :
    ∃ hd, npyHeader shape = some hd := by
  unfold npyHeader
  have : (npyDict shape).length + (64 - (6 + 2 + 2 + (npyDict shape).length) % 64) < 65536 := by omega
  simp only [this, if_true]
  exact ⟨_, rfl⟩

/-- `writeNpy` succeeds exactly with the header followed by the values. -/
theorem writeNpy_eq_ok (shape bits bytes : List Nat) (hw : writeNpy shape bits = .ok bytes) :
    ∃ hd, npyHeader shape = some hd ∧ bytes = hd ++ (bits.map (leBytes 8)).flatten := by
  unfold writeNpy at hw
  split at hw
  · rename_i hd hh
    cases hw
    exact ⟨hd, hh, rfl⟩
  · cases hw

/-! ## the dictionary printed by `npyDict` parses back -/

theorem pDescrEntry_lit (rest : List Char) :
    pDescrEntry ("'descr': '<f8'".toList ++ rest) = some (.descr .little .f8, rest) := by
  simp [pDescrEntry, pTargetString, pString, pQuote, pEntrySep, pWsSep, pSpace0, pTag, pDescrValue, pEndian, pType]

theorem pFortranEntry_lit (rest : List Char) :
    pFortranEntry ("'fortran_order': False".toList ++ rest) = some (.fortran false, rest) := by
  simp [pFortranEntry, pTargetString, pString, pQuote, pEntrySep, pWsSep, pSpace0, pTag, pBool]

theorem pDescrEntry_fortran (rest : List Char) :
    pDescrEntry ("'fortran_order'".toList ++ rest) = none := by
  simp [pDescrEntry, pTargetString, pString, pQuote]

theorem pDescrEntry_shape (rest : List Char) :
    pDescrEntry ("'shape'".toList ++ rest) = none := by
  simp [pDescrEntry, pTargetString, pString, pQuote]

theorem pFortranEntry_shape (rest : List Char) :
    pFortranEntry ("'shape'".toList ++ rest) = none := by
  simp [pFortranEntry, pTargetString, pString, pQuote]


theorem pSepList1Opt_fail {α} (sep : P Unit) (f : P α) (fuel : Nat) (inp : List Char) (h : f inp = none) :
    pSepList1Opt sep f fuel inp = none := by
  cases fuel with
  | zero => rfl
  | succ n => simp [pSepList1Opt, h]

/-- the separator `", "` in front of something that does not start with a blank. -/
theorem pWsSep_comma_space (x : List Char) (hx : ∀ c, x.head? = some c → c ≠ ' ' ∧ c ≠ '\t') :
    pWsSep [','] (", ".toList ++ x) = some ((), x) := by
  cases x with
  | nil => simp [pWsSep, pSpace0, pTag]
  | cons c t =>
    have := hx c rfl
    simp [pWsSep, pSpace0, pTag, this.1, this.2]

theorem pWsSep_comma (x : List Char) (hx : ∀ c, x.head? = some c → c ≠ ' ' ∧ c ≠ '\t') :
    pWsSep [','] (',' :: x) = some ((), x) := by
  cases x with
  | nil => simp [pWsSep, pSpace0, pTag]
  | cons c t =>
    have := hx c rfl
    simp [pWsSep, pSpace0, pTag, this.1, this.2]

theorem npy_joinNats_cons_cons (sep : List Char) (a b : Nat) (r : List Nat) :
    joinNats sep (a :: b :: r) = showNat a ++ sep ++ joinNats sep (b :: r) := rfl

theorem npy_joinNats_head (sep : List Char) (s : List Nat) (hne : s ≠ []) :
    ∃ c t, joinNats sep s = c :: t ∧ c.isDigit = true := by
  match s, hne with
  | [a], _ =>
    obtain ⟨c, t, h, hc⟩ := showNat_head a
    exact ⟨c, t, by simpa [joinNats] using h, hc⟩
  | a :: b :: r, _ =>
    obtain ⟨c, t, h, hc⟩ := showNat_head a
    exact ⟨c, _, by rw [npy_joinNats_cons_cons, h]; rfl, hc⟩

theorem joinNats_length_ge (sep : List Char) : ∀ (s : List Nat), s.length ≤ (joinNats sep s).length
  | [] => by simp [joinNats]
  | [a] => by
    obtain ⟨c, t, h, _⟩ := showNat_head a
    simp [joinNats, h]
  | a :: b :: r => by
    obtain ⟨c, t, h, _⟩ := showNat_head a
    have := joinNats_length_ge sep (b :: r)
    rw [npy_joinNats_cons_cons, h]
    simp only [List.length_append, List.length_cons] at *
    omega

theorem isDigit_not_blank {c : Char} (h : c.isDigit = true) : c ≠ ' ' ∧ c ≠ '\t' := by
  constructor <;> (rintro rfl; revert h; decide)

/-- the shape tuple body `d1, d2, …, dn,` followed by `)`. -/
theorem pShapeList (tail : List Char) : ∀ (shape : List Nat) (fuel : Nat), shape ≠ [] → (∀ v ∈ shape, v < 2 ^ 64) →
    shape.length ≤ fuel →
    pSepList1Opt (pWsSep [',']) pU64 fuel (joinNats ", ".toList shape ++ ',' :: ')' :: tail) = some (shape, ')' :: tail)
  | [a], fuel, _, hb, hf => by
    obtain ⟨f, rfl⟩ : ∃ f, fuel = f + 1 := ⟨fuel - 1, by simp at hf; omega⟩
    have h1 : pU64 (showNat a ++ ',' :: ')' :: tail) = some (a, ',' :: ')' :: tail) :=
      pU64_showNat a _ (hb a (by simp)) (by simp)
    have h2 : pWsSep [','] (',' :: ')' :: tail) = some ((), ')' :: tail) :=
      pWsSep_comma _ (by simp)
    have h3 : pSepList1Opt (pWsSep [',']) pU64 f (')' :: tail) = none :=
      pSepList1Opt_fail _ _ _ _ (pU64_nondigit _ (by simp))
    simp only [joinNats, pSepList1Opt, h1, h2, h3]
  | a :: b :: r, fuel, _, hb, hf => by
    obtain ⟨f, rfl⟩ : ∃ f, fuel = f + 1 := ⟨fuel - 1, by simp at hf; omega⟩
    have ih := pShapeList tail (b :: r) f (by simp) (fun v hv => hb v (by simp [hv])) (by simp at hf ⊢; omega)
    obtain ⟨c, t, hj, hc⟩ := npy_joinNats_head ", ".toList (b :: r) (by simp)
    have h1 : pU64 (showNat a ++ (", ".toList ++ (joinNats ", ".toList (b :: r) ++ ',' :: ')' :: tail)))
        = some (a, ", ".toList ++ (joinNats ", ".toList (b :: r) ++ ',' :: ')' :: tail)) :=
      pU64_showNat a _ (hb a (by simp)) (by simp)
    have h2 : pWsSep [','] (", ".toList ++ (joinNats ", ".toList (b :: r) ++ ',' :: ')' :: tail))
        = some ((), joinNats ", ".toList (b :: r) ++ ',' :: ')' :: tail) :=
      pWsSep_comma_space _ (by rw [hj]; intro c' hc'; simp at hc'; subst hc'; exact isDigit_not_blank hc)
    rw [npy_joinNats_cons_cons, List.append_assoc, List.append_assoc]
    simp only [pSepList1Opt, h1, h2, ih]


theorem pShape_lit (shape : List Nat) (tail : List Char) (hne : shape ≠ []) (hb : ∀ v ∈ shape, v < 2 ^ 64) :
    pShape ('(' :: (joinNats ", ".toList shape ++ ',' :: ')' :: tail)) = some (shape, tail) := by
  have hlen : shape.length ≤ (joinNats ", ".toList shape ++ ',' :: ')' :: tail).length + 1 := by
    have := joinNats_length_ge ", ".toList shape
    simp only [List.length_append]; omega
  have h := pShapeList tail shape _ hne hb hlen
  generalize joinNats ", ".toList shape ++ ',' :: ')' :: tail = X at h
  simp [pShape, pTag, h]

theorem pShapeEntry_lit (shape : List Nat) (tail : List Char) (hne : shape ≠ []) (hb : ∀ v ∈ shape, v < 2 ^ 64) :
    pShapeEntry ("'shape': (".toList ++ (joinNats ", ".toList shape ++ ',' :: ')' :: tail)) = some (.shape shape, tail) := by
  have h := pShape_lit shape tail hne hb
  generalize joinNats ", ".toList shape ++ ',' :: ')' :: tail = X at h
  simp [pShapeEntry, pTargetString, pString, pQuote, pEntrySep, pWsSep, pSpace0, pTag, h]

theorem pEntry_descr (rest : List Char) :
    pEntry ("'descr': '<f8'".toList ++ rest) = some (.descr .little .f8, rest) := by
  simp only [pEntry, pDescrEntry_lit]

theorem pEntry_fortran (rest : List Char) :
    pEntry ("'fortran_order': False".toList ++ rest) = some (.fortran false, rest) := by
  have h : pDescrEntry ("'fortran_order': False".toList ++ rest) = none := pDescrEntry_fortran (": False".toList ++ rest)
  simp only [pEntry, h, pFortranEntry_lit]

theorem pEntry_shape (shape : List Nat) (tail : List Char) (hne : shape ≠ []) (hb : ∀ v ∈ shape, v < 2 ^ 64) :
    pEntry ("'shape': (".toList ++ (joinNats ", ".toList shape ++ ',' :: ')' :: tail)) = some (.shape shape, tail) := by
  have h1 : pDescrEntry ("'shape': (".toList ++ (joinNats ", ".toList shape ++ ',' :: ')' :: tail)) = none :=
    pDescrEntry_shape (": (".toList ++ _)
  have h2 : pFortranEntry ("'shape': (".toList ++ (joinNats ", ".toList shape ++ ',' :: ')' :: tail)) = none :=
    pFortranEntry_shape (": (".toList ++ _)
  simp only [pEntry, h1, h2, pShapeEntry_lit shape tail hne hb]

theorem pEntry_brace (rest : List Char) : pEntry ('}' :: rest) = none := by
  simp [pEntry, pDescrEntry, pFortranEntry, pShapeEntry, pTargetString, pString, pQuote]

/-- the three entries of the dictionary the writer prints, for any sufficient fuel. -/
theorem pEntries_lit (shape : List Nat) (tail : List Char) (hne : shape ≠ []) (hb : ∀ v ∈ shape, v < 2 ^ 64) (f : Nat) :
    pSepList1Opt (pWsSep [',']) pEntry (f + 3)
      ("'descr': '<f8'".toList ++ (", ".toList ++ ("'fortran_order': False".toList ++ (", ".toList ++
        ("'shape': (".toList ++ (joinNats ", ".toList shape ++ ',' :: ')' :: (", ".toList ++ '}' :: tail)))))))
      = some ([.descr .little .f8, .fortran false, .shape shape], '}' :: tail) := by
  have h4 : pSepList1Opt (pWsSep [',']) pEntry f ('}' :: tail) = none :=
    pSepList1Opt_fail _ _ _ _ (pEntry_brace tail)
  have s3 : pWsSep [','] (", ".toList ++ '}' :: tail) = some ((), '}' :: tail) := pWsSep_comma_space _ (by simp)
  have e3 := pEntry_shape shape (", ".toList ++ '}' :: tail) hne hb
  have s2 : ∀ R, pWsSep [','] (", ".toList ++ ("'shape': (".toList ++ R)) = some ((), "'shape': (".toList ++ R) :=
    fun R => pWsSep_comma_space _ (by simp)
  have s1 : ∀ R, pWsSep [','] (", ".toList ++ ("'fortran_order': False".toList ++ R))
      = some ((), "'fortran_order': False".toList ++ R) :=
    fun R => pWsSep_comma_space _ (by simp)
  simp only [pSepList1Opt, pEntry_descr, s1, pEntry_fortran, s2, e3, s3, h4]

theorem npyDict_lit1 : "{'descr': '<f8', 'fortran_order': False, 'shape': (".toList =
   '{' :: ("'descr': '<f8'".toList ++ (", ".toList ++ ("'fortran_order': False".toList ++ (", ".toList ++ "'shape': (".toList)))) := by
  simp

theorem npyDict_lit2 : ",), }".toList = ',' :: ')' :: (", ".toList ++ ['}']) := by simp

theorem npyDict_eq (shape : List Nat) (tail : List Char) :
    npyDict shape ++ tail = '{' :: ("'descr': '<f8'".toList ++ (", ".toList ++ ("'fortran_order': False".toList ++ (", ".toList ++
        ("'shape': (".toList ++ (joinNats ", ".toList shape ++ ',' :: ')' :: (", ".toList ++ '}' :: tail))))))) := by
  unfold npyDict
  rw [npyDict_lit1, npyDict_lit2]
  simp only [List.append_assoc, List.cons_append, List.nil_append]

theorem pDict_npyDict (shape : List Nat) (tail : List Char) (hne : shape ≠ []) (hb : ∀ v ∈ shape, v < 2 ^ 64) :
    pDict (npyDict shape ++ tail) = some ([.descr .little .f8, .fortran false, .shape shape], tail) := by
  rw [npyDict_eq]
  generalize hX : "'descr': '<f8'".toList ++ (", ".toList ++ ("'fortran_order': False".toList ++ (", ".toList ++
        ("'shape': (".toList ++ (joinNats ", ".toList shape ++ ',' :: ')' :: (", ".toList ++ '}' :: tail)))))) = X
  have hsp : pSpace0 X = some ((), X) := by subst hX; simp [pSpace0]
  obtain ⟨f, hf⟩ : ∃ f, X.length + 1 = f + 3 := ⟨X.length - 2, by subst hX; simp⟩
  have he := pEntries_lit shape tail hne hb f
  rw [hX] at he
  have ht : pTag ['{'] ('{' :: X) = some ((), X) := by simp [pTag]
  have hsp2 : pSpace0 ('}' :: tail) = some ((), '}' :: tail) := by simp [pSpace0]
  have ht2 : pTag ['}'] ('}' :: tail) = some ((), tail) := by simp [pTag]
  simp only [pDict, ht, hsp, hf, he, hsp2, ht2]

/-- generalized `writer_dict_parses`: whatever follows the closing brace is ignored. -/
theorem parseNpyDict_npyDict (shape : List Nat) (tail : List Char) (hne : shape ≠ []) (hb : ∀ v ∈ shape, v < 2 ^ 64) :
    parseNpyDict (npyDict shape ++ tail) = some ⟨.little, .f8, false, shape⟩ := by
  simp only [parseNpyDict, pDict_npyDict shape tail hne hb, List.foldl]


/-! ## header layout -/

theorem flatten_leBytes8_length (bits : List Nat) : ((bits.map (leBytes 8)).flatten).length = 8 * bits.length := by
  induction bits with
  | nil => rfl
  | cons b bs ih => simp only [List.map_cons, List.flatten_cons, List.length_append, leBytes_length, ih, List.length_cons]; omega

theorem npyHeader_layout (shape hd : List Nat) (hh : npyHeader shape = some hd) :
    ∃ L pad, hd = npyMagic ++ [1, 0] ++ leBytes 2 L ++ asciiBytes (npyDict shape) ++ List.replicate pad 32 ++ [10] ∧
      L = (npyDict shape).length + pad + 1 ∧ (10 + L) % 64 = 0 ∧ pad < 64 ∧ L < 65536 := by
  unfold npyHeader at hh
  simp only at hh
  split at hh
  · rename_i hlt
    cases hh
    refine ⟨_, _, rfl, ?_, ?_, ?_, hlt⟩ <;> omega
  · cases hh

theorem npyHeader_none_iff (shape : List Nat) :
    npyHeader shape = none ↔ 65536 ≤ (npyDict shape).length + (64 - (10 + (npyDict shape).length) % 64) := by
  unfold npyHeader
  simp only
  split
  · rename_i h; constructor
    · intro h'; cases h'
    · intro h'; omega
  · rename_i h; constructor
    · intro _; omega
    · intro _; rfl

/-! ## reader: walking the header -/

/-- `readNpy` on a file whose v1.0 header (length field `L`, `L` header bytes) is intact. -/
theorem readNpy_header (L : Nat) (dictBytes body : List Nat) (hL : L < 65536) (hlen : dictBytes.length = L) :
    readNpy (npyMagic ++ [1, 0] ++ leBytes 2 L ++ dictBytes ++ body) =
      if !allAscii dictBytes then .error .invalid
      else match parseNpyDict (bytesToChars dictBytes) with
        | none => .error .invalid
        | some d =>
          if d.fortran then .error .invalid
          else match readValues d.endian d.ty (body.length + 1) body with
            | .error e => .error e
            | .ok vals => if checkedSize d.shape = some vals.length then .ok (d.shape, vals) else .error .invalid := by
  obtain ⟨b0, b1, hb⟩ : ∃ b0 b1, leBytes 2 L = [b0, b1] := ⟨_, _, rfl⟩
  have hof : ofLeBytes [b0, b1] = L := by rw [← hb]; exact ofLeBytes_leBytes2 L hL
  have h1 : ¬ (dictBytes ++ body).length < L := by simp [hlen]
  have h2 : List.take L (dictBytes ++ body) = dictBytes := List.take_left' hlen
  have h3 : List.drop L (dictBytes ++ body) = body := List.drop_left' hlen
  have h4 : ¬ (dictBytes ++ body).length + 1 + 1 + 1 + 1 + 1 + 1 + 1 + 1 + 1 + 1 < 6 := by omega
  have h5 : ¬ (dictBytes ++ body).length + 1 + 1 + 1 + 1 < 2 := by omega
  have h6 : ¬ (dictBytes ++ body).length + 1 + 1 < 2 := by omega
  simp only [readNpy, hb, npyMagic, List.cons_append, List.nil_append, List.length_cons,
    List.take_succ_cons, List.take_zero, List.drop_succ_cons, List.drop_zero, List.getD_cons_zero, hof,
    h1, h2, h3, h4, h5, h6, if_false, ne_eq, not_true_eq_false]
  rfl

/-- the file ends inside the header bytes announced by the length field. -/
theorem readNpy_short_header (L : Nat) (t : List Nat) (hL : L < 65536) (hlen : t.length < L) :
    readNpy (npyMagic ++ [1, 0] ++ leBytes 2 L ++ t) = .error .eof := by
  obtain ⟨b0, b1, hb⟩ : ∃ b0 b1, leBytes 2 L = [b0, b1] := ⟨_, _, rfl⟩
  have hof : ofLeBytes [b0, b1] = L := by rw [← hb]; exact ofLeBytes_leBytes2 L hL
  have h4 : ¬ t.length + 1 + 1 + 1 + 1 + 1 + 1 + 1 + 1 + 1 + 1 < 6 := by omega
  have h5 : ¬ t.length + 1 + 1 + 1 + 1 < 2 := by omega
  have h6 : ¬ t.length + 1 + 1 < 2 := by omega
  simp only [readNpy, hb, npyMagic, List.cons_append, List.nil_append, List.length_cons,
    List.take_succ_cons, List.take_zero, List.drop_succ_cons, List.drop_zero, List.getD_cons_zero, hof,
    hlen, h4, h5, h6, if_false, if_true, ne_eq, not_true_eq_false]

/-- fewer than 10 bytes never form a header. -/
theorem readNpy_lt10 (b : List Nat) (h : b.length < 10) : ∃ e, readNpy b = .error e := by
  unfold readNpy
  simp only
  split
  · exact ⟨_, rfl⟩
  split
  · exact ⟨_, rfl⟩
  split
  · exact ⟨_, rfl⟩
  split
  · exact ⟨_, rfl⟩
  · rename_i w hw
    have hw2 : 2 ≤ w := by
      split at hw <;> first | (cases hw; omega) | cases hw
    have : ((List.drop 6 b).drop 2).length < w := by simp only [List.length_drop]; omega
    simp only [this, if_true]
    exact ⟨_, rfl⟩

/-! ## reader: the value loop for `<f8` -/

theorem readValues_le_f8_flatten : ∀ (bits : List Nat) (fuel : Nat), (∀ b ∈ bits, b < 2 ^ 64) → bits.length ≤ fuel →
    readValues .little .f8 fuel ((bits.map (leBytes 8)).flatten) = .ok bits
  | [], fuel, _, _ => by cases fuel <;> simp [readValues]
  | b :: bs, fuel, hb, hf => by
    obtain ⟨f, rfl⟩ : ∃ f, fuel = f + 1 := ⟨fuel - 1, by simp at hf; omega⟩
    have ih := readValues_le_f8_flatten bs f (fun x hx => hb x (by simp [hx])) (by simp at hf; omega)
    have h8 : (leBytes 8 b).length = 8 := leBytes_length 8 b
    have hne : (leBytes 8 b ++ (bs.map (leBytes 8)).flatten).isEmpty = false := by
      cases h : leBytes 8 b with
      | nil => rw [h] at h8; cases h8
      | cons _ _ => rfl
    have hl : ¬ (leBytes 8 b ++ (bs.map (leBytes 8)).flatten).length < 8 := by
      simp only [List.length_append, h8]; omega
    simp only [List.map_cons, List.flatten_cons, readValues, NpyTy.width, hne, hl, if_false, Bool.false_eq_true,
      List.drop_left' h8, List.take_left' h8, ih, decodeValue, ofLeBytes_leBytes8 b (hb b (by simp))]

/-- the value loop on any body: a whole number of 8-byte values, or `UnexpectedEof`. -/
theorem readValues_f8_len (en : Endian) : ∀ (fuel : Nat) (body : List Nat), body.length < fuel →
    (body.length % 8 = 0 → ∃ vals, readValues en .f8 fuel body = .ok vals ∧ vals.length = body.length / 8) ∧
    (body.length % 8 ≠ 0 → readValues en .f8 fuel body = .error .eof)
  | 0, _, h => by omega
  | fuel + 1, body, h => by
    by_cases he : body = []
    · subst he; simp [readValues]
    · have hne : body.isEmpty = false := by cases body <;> simp_all
      have hpos : 0 < body.length := by cases body <;> simp_all
      by_cases hl : body.length < 8
      · constructor
        · intro h0; omega
        · intro _; simp only [readValues, hne, NpyTy.width, hl, if_true, Bool.false_eq_true, if_false]
      · have ih := readValues_f8_len en fuel (body.drop 8) (by simp only [List.length_drop]; omega)
        have hd : (body.drop 8).length = body.length - 8 := List.length_drop
        rw [hd] at ih
        constructor
        · intro h0
          obtain ⟨vals, hv, hvl⟩ := ih.1 (by omega)
          refine ⟨decodeValue en .f8 (body.take 8) :: vals, ?_, ?_⟩
          · simp only [readValues, hne, NpyTy.width, hl, if_false, Bool.false_eq_true, hv]
          · simp only [List.length_cons, hvl]; omega
        · intro h0
          have hv := ih.2 (by omega)
          simp only [readValues, hne, NpyTy.width, hl, if_false, Bool.false_eq_true, hv]


/-! ## the written header read back -/

theorem joinNats_mem (sep : List Char) : ∀ (s : List Nat) (c : Char), c ∈ joinNats sep s → c.isDigit = true ∨ c ∈ sep
  | [], c, h => by simp [joinNats] at h
  | [a], c, h => Or.inl (showNat_isDigit a c (by simpa [joinNats] using h))
  | a :: b :: r, c, h => by
    rw [npy_joinNats_cons_cons] at h
    simp only [List.mem_append] at h
    rcases h with (h | h) | h
    · exact Or.inl (showNat_isDigit a c h)
    · exact Or.inr h
    · exact joinNats_mem sep (b :: r) c h

theorem npyDict_ascii (shape : List Nat) : ∀ c ∈ npyDict shape, c.toNat < 128 := by
  intro c hc
  unfold npyDict at hc
  simp only [List.mem_append] at hc
  rcases hc with (hc | hc) | hc
  · revert c; decide
  · rcases joinNats_mem _ _ _ hc with h | h
    · exact isDigit_lt128 h
    · clear hc; revert c; decide
  · revert c; decide

/-- `readNpy` on the header the writer emits followed by any `body`: only the value loop and the size check remain. -/
theorem readNpy_written (shape : List Nat) (hne : shape ≠ []) (hb : ∀ v ∈ shape, v < 2 ^ 64) (L pad : Nat)
    (hL : L = (npyDict shape).length + pad + 1) (hlt : L < 65536) (body : List Nat) :
    readNpy (npyMagic ++ [1, 0] ++ leBytes 2 L ++ asciiBytes (npyDict shape) ++ List.replicate pad 32 ++ [10] ++ body) =
      match readValues .little .f8 (body.length + 1) body with
      | .error e => .error e
      | .ok vals => if checkedSize shape = some vals.length then .ok (shape, vals) else .error .invalid := by
  have hlen : (asciiBytes (npyDict shape) ++ (List.replicate pad 32 ++ [10])).length = L := by
    simp only [List.length_append, asciiBytes_length, List.length_replicate, List.length_cons, List.length_nil]; omega
  have hasc : allAscii (asciiBytes (npyDict shape) ++ (List.replicate pad 32 ++ [10])) = true := by
    rw [allAscii_append, allAscii_asciiBytes _ (npyDict_ascii shape)]
    simp [allAscii]
  have hparse : parseNpyDict (bytesToChars (asciiBytes (npyDict shape) ++ (List.replicate pad 32 ++ [10])))
      = some ⟨.little, .f8, false, shape⟩ := by
    rw [bytesToChars_append, bytesToChars_asciiBytes]
    exact parseNpyDict_npyDict shape _ hne hb
  have h := readNpy_header L _ body hlt hlen
  simp only [List.append_assoc] at h ⊢
  rw [h]
  simp only [hasc, hparse, Bool.not_true, Bool.false_eq_true, if_false]

end Sfs
