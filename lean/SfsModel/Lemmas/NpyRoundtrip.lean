/-
Helper lemmas (NpyRoundtrip).
-/
import SfsModel.Model.Text
namespace Sfs
end Sfs
