/-
Helper lemmas (NpyRoundtrip): the npy header written by `npyHeader` is walked back exactly by `readNpy`;
the dictionary printed by `npyDict` parses back; `readValues` on concatenated 8-byte little-endian values.
-/
import SfsModel.Model.Text
import SfsModel.Lemmas.Bytes
namespace Sfs


theorem npyHeader_magic (shape : List Nat) (h : List Nat) (hh : npyHeader shape = some h) :
    ∃ t, h = npyMagic ++ t := by
  unfold npyHeader at hh
  simp only at hh
  split at hh
  · cases hh; simp only [List.append_assoc]; exact ⟨_, rfl⟩
  · cases hh

theorem detectFormat_npyMagic (t : List Nat) : detectFormat (npyMagic ++ t) = some .npy := by
  simp [detectFormat, npyMagic, textStart, asciiBytes]

theorem detectFormat_text (t : List Char) : detectFormat (asciiBytes ("#SHAPE=<".toList ++ t)) = some .text := by
  simp [detectFormat, npyMagic, textStart, asciiBytes]


theorem npyHeader_isSome (shape : List Nat) (h : (npyDict shape).length + 64 < 65536) :
    ∃ hd, npyHeader shape = some hd := by
  unfold npyHeader
  have : (npyDict shape).length + (64 - (6 + 2 + 2 + (npyDict shape).length) % 64) < 65536 := by omega
  simp only [this, if_true]
  exact ⟨_, rfl⟩

/-- `writeNpy` succeeds exactly with the header followed by the values. -/
theorem writeNpy_eq_ok (shape bits bytes : List Nat) (hw : writeNpy shape bits = .ok bytes) :
    ∃ hd, npyHeader shape = some hd ∧ bytes = hd ++ (bits.map (leBytes 8)).flatten := by
  unfold writeNpy at hw
  split at hw
  · rename_i hd hh
    cases hw
    exact ⟨hd, hh, rfl⟩
  · cases hw

end Sfs
