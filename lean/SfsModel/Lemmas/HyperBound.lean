/-
Helper lemmas for Props/C03B.lean.
-/
import SfsModel.Lemmas.Hyper
namespace Sfs

end Sfs
