/-
Helper lemmas for Props/C03B.lean: the hypergeometric pmf and the projection coefficients lie in [0, 1]; an entry of a
list of non-negative numbers is at most the sum of the list.
-/
import SfsModel.Lemmas.Hyper
import Mathlib.Algebra.Order.Ring.Defs
import Mathlib.Algebra.Order.Field.Basic
import Mathlib.Algebra.Order.BigOperators.Group.Finset
import Mathlib.Algebra.Order.Field.Rat
import Mathlib.Data.Nat.Choose.Basic
namespace Sfs

section ordered
variable {β : Type} [Field β] [LinearOrder β] [IsStrictOrderedRing β]

/-- A hypergeometric probability is one (non-negative) term of a sum that equals one. -/
theorem hyper_le_one (N K n k : Nat) (hK : K ≤ N) (hn : n ≤ N) : (hyper N K n k : β) ≤ 1 := by
  by_cases hk : k ≤ n
  · rw [← hyper_sum_one (α := β) N K n hK hn]
    exact Finset.single_le_sum (f := fun i => (hyper N K n i : β))
      (fun i _ => hyper_nonneg N K n i) (Finset.mem_range.mpr (by omega))
  · rw [hyper_eq, if_neg hk]
    exact zero_le_one

/-- Strict positivity inside the support. -/
theorem hyper_pos (N K n k : Nat) (hn : n ≤ N) (hk : k ≤ n) (hkK : k ≤ K) (hr : n - k ≤ N - K) :
    (0 : β) < hyper N K n k := by
  rw [hyper_eq, if_pos hk]
  apply div_pos
  · exact Nat.cast_pos.mpr (Nat.mul_pos (Nat.choose_pos hkK) (Nat.choose_pos hr))
  · exact Nat.cast_pos.mpr (Nat.choose_pos hn)

/-- A product of hypergeometric probabilities is at most one. -/
theorem projectValue_le_one : ∀ (pf from_ pt to_ : List Nat),
    (∀ j, j < pf.length → from_.getD j 0 ≤ pf.getD j 0 ∧ pt.getD j 0 ≤ pf.getD j 0) →
    (projectValue pf from_ pt to_ : β) ≤ 1
  | n :: ns, k :: ks, m :: ms, t :: ts, h => by
    have h0 := h 0 (by simp)
    simp only [List.getD_cons_zero] at h0
    have ih := projectValue_le_one ns ks ms ts (fun j hj => by
      simpa using h (j + 1) (by simpa using hj))
    rw [projectValue_cons]
    exact mul_le_one₀ (hyper_le_one n k m t h0.1 h0.2) (projectValue_nonneg ns ks ms ts) ih
  | [], _, _, _, _ => by simp [projectValue]
  | _ :: _, [], _, _, _ => by simp [projectValue]
  | _ :: _, _ :: _, [], _, _ => by simp [projectValue]
  | _ :: _, _ :: _, _ :: _, [], _ => by simp [projectValue]

/-- An entry of a list of non-negative numbers is at most the sum of the list. -/
theorem list_mem_le_sum : ∀ (l : List β), (∀ x ∈ l, 0 ≤ x) → ∀ y ∈ l, y ≤ l.sum
  | [], _, y, hy => by simp at hy
  | x :: l, h, y, hy => by
    have hx : 0 ≤ x := h x (by simp)
    have hl : ∀ z ∈ l, 0 ≤ z := fun z hz => h z (by simp [hz])
    have hs : 0 ≤ l.sum := List.sum_nonneg hl
    rw [List.sum_cons]
    rcases List.mem_cons.mp hy with e | hm
    · subst e
      exact le_add_of_nonneg_right hs
    · exact le_trans (list_mem_le_sum l hl y hm) (le_add_of_nonneg_left hx)

theorem project_le_sum (a b : Arr β) (toShape : List Nat) (hlen : a.data.length = size a.shape)
    (h : project a toShape = .ok b) (hnn : ∀ x ∈ a.data, 0 ≤ x) : ∀ y ∈ b.data, y ≤ a.data.sum := by
  rw [← project_sum a b toShape hlen h]
  exact list_mem_le_sum b.data (project_nonneg a b toShape hlen h hnn)

end ordered
end Sfs
