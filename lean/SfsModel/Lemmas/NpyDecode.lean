/-
Helper lemmas (NpyDecode).
-/
import SfsModel.Lemmas.Bytes
namespace Sfs

end Sfs
