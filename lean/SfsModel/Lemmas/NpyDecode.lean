/-
Helper lemmas (NpyDecode): framing of `readNpy`, the value loop, exact values of the binary64 patterns produced by the
integer / binary32 conversions.
-/
import SfsModel.Lemmas.Bytes
import Mathlib.Algebra.Order.Field.Basic
import Mathlib.Algebra.Order.Field.Rat
import Mathlib.Tactic.Ring
import Mathlib.Tactic.Linarith
import Mathlib.Tactic.FieldSimp
import Mathlib.Tactic.NormNum
namespace Sfs


/-! ## framing -/

theorem decodeValue_big (t : NpyTy) (bytes : List Nat) :
    decodeValue .big t bytes = decodeValue .little t bytes.reverse := by
  cases t <;> rfl

theorem npyTy_width_pos (t : NpyTy) : 0 < t.width := by cases t <;> decide

theorem readValues_fuel (en : Endian) (t : NpyTy) : ∀ (n : Nat) (body : List Nat) (fuel : Nat),
    body.length = n → body.length < fuel →
    readValues en t fuel body =
      if body.length % t.width = 0 then
        .ok ((List.range (body.length / t.width)).map (fun i => decodeValue en t ((body.drop (i * t.width)).take t.width)))
      else .error .eof := by
  intro n
  induction n using Nat.strongRecOn with
  | _ n ih =>
    intro body fuel hn hf
    have hw := npyTy_width_pos t
    cases fuel with
    | zero => omega
    | succ fuel =>
      unfold readValues
      by_cases he : body = []
      · subst he; simp
      · have hlen : 0 < body.length := List.length_pos_iff.mpr he
        have he' : body.isEmpty = false := by cases body <;> simp_all
        simp only [he', Bool.false_eq_true, if_false]
        by_cases hlt : body.length < t.width
        · have : body.length % t.width ≠ 0 := by rw [Nat.mod_eq_of_lt hlt]; omega
          simp [hlt, this]
        · simp only [hlt, if_false]
          have hdl : (body.drop t.width).length = body.length - t.width := List.length_drop
          rw [ih (body.length - t.width) (by omega) (body.drop t.width) fuel hdl (by omega)]
          have hmod : body.length % t.width = (body.length - t.width) % t.width := by
            rw [Nat.mod_eq_sub_mod (by omega)]
          have hdiv : body.length / t.width = (body.length - t.width) / t.width + 1 := by
            rw [Nat.div_eq_sub_div hw (by omega)]
          rw [hdl, ← hmod]
          by_cases hm : body.length % t.width = 0
          · simp only [hm, if_true]
            rw [hdiv, List.range_succ_eq_map]
            simp only [List.map_cons, List.map_map, Nat.zero_mul, List.drop_zero]
            congr 2
            apply List.map_congr_left
            intro i _
            simp only [Function.comp, List.drop_drop, Nat.succ_mul]
            congr 3; omega
          · simp [hm]

/-- the tail of `readNpy` after the framing. -/
def npyAfterHeader (dictBytes body : List Nat) : Except IoErr (List Nat × List Nat) :=
  if !allAscii dictBytes then .error .invalid
  else match parseNpyDict (bytesToChars dictBytes) with
    | none => .error .invalid
    | some d =>
      if d.fortran then .error .invalid
      else match readValues d.endian d.ty (body.length + 1) body with
        | .error e => .error e
        | .ok vals =>
          if checkedSize d.shape = some vals.length then .ok (d.shape, vals) else .error .invalid

def npyLenWidth (major : Nat) : Option Nat := match major with
  | 1 => some 2 | 2 => some 4 | 3 => some 4 | _ => none

theorem readNpy_magic (major minor : Nat) (tail : List Nat) :
    readNpy (npyMagic ++ [major, minor] ++ tail) =
      match npyLenWidth major with
      | none => .error .invalid
      | some w =>
        if tail.length < w then .error .eof
        else
          let headerLen := ofLeBytes (tail.take w)
          let r := tail.drop w
          if r.length < headerLen then .error .eof
          else npyAfterHeader (r.take headerLen) (r.drop headerLen) := by
  unfold readNpy
  have h1 : ¬ (npyMagic ++ [major, minor] ++ tail).length < 6 := by simp [npyMagic]
  have h2 : (npyMagic ++ [major, minor] ++ tail).take 6 = npyMagic := by simp [npyMagic]
  have h3 : (npyMagic ++ [major, minor] ++ tail).drop 6 = major :: minor :: tail := by simp [npyMagic]
  simp only [h1, h2, h3, if_false, ne_eq, not_true_eq_false]
  have h4 : ¬ (major :: minor :: tail).length < 2 := by simp
  simp only [h4, if_false, List.getD_cons_zero, List.drop_succ_cons, List.drop_zero]
  rfl

theorem readNpy_framed (major minor w : Nat) (dictBytes body : List Nat) (hw : npyLenWidth major = some w)
    (hL : dictBytes.length < 256 ^ w) :
    readNpy (npyMagic ++ [major, minor] ++ leBytes w dictBytes.length ++ dictBytes ++ body) =
      npyAfterHeader dictBytes body := by
  have := readNpy_magic major minor (leBytes w dictBytes.length ++ dictBytes ++ body)
  simp only [← List.append_assoc] at this
  rw [this, hw]
  simp only [List.append_assoc]
  have h1 : ¬ (leBytes w dictBytes.length ++ (dictBytes ++ body)).length < w := by simp
  have h2 : (leBytes w dictBytes.length ++ (dictBytes ++ body)).take w = leBytes w dictBytes.length := by
    exact List.take_left' (by simp)
  have h3 : (leBytes w dictBytes.length ++ (dictBytes ++ body)).drop w = dictBytes ++ body := by
    exact List.drop_left' (by simp)
  simp only [h1, h2, h3, if_false, ofLeBytes_leBytes_of_lt w _ hL]
  have h4 : ¬ (dictBytes ++ body).length < dictBytes.length := by simp
  simp only [h4, if_false, List.take_left, List.drop_left]

theorem readNpy_bad_version (major minor : Nat) (tail : List Nat) (h : npyLenWidth major = none) :
    readNpy (npyMagic ++ [major, minor] ++ tail) = .error .invalid := by
  rw [readNpy_magic, h]

theorem npyLenWidth_none (major : Nat) (h : major ≠ 1 ∧ major ≠ 2 ∧ major ≠ 3) : npyLenWidth major = none := by
  unfold npyLenWidth
  split <;> simp_all
/-! ## binary64 values -/

/-- `f64OfBits` on the three fields. -/
def f64Val (sign : Bool) (e m : Nat) : XR :=
  if e == 2047 then (if m == 0 then .inf sign else .nan)
  else
    let num : Nat := if e == 0 then m else if e ≥ 1075 then (2 ^ 52 + m) * 2 ^ (e - 1075) else 2 ^ 52 + m
    let den : Nat := if e == 0 then 2 ^ 1074 else if e ≥ 1075 then 1 else 2 ^ (1075 - e)
    let mag : Rat := (num : Rat) / (den : Rat)
    .fin (if sign then -mag else mag)

set_option exponentiation.threshold 1100 in
theorem f64OfBits_eq (b : Nat) :
    f64OfBits b = f64Val (b / 2 ^ 63 % 2 == 1) (b / 2 ^ 52 % 2 ^ 11) (b % 2 ^ 52) := rfl

theorem f64OfBits_mk (s E m : Nat) (hs : s < 2) (hE : E < 2 ^ 11) (hm : m < 2 ^ 52) :
    f64OfBits (s * 2 ^ 63 + E * 2 ^ 52 + m) = f64Val (s == 1) E m := by
  rw [f64OfBits_eq]
  have h1 : (s * 2 ^ 63 + E * 2 ^ 52 + m) / 2 ^ 63 % 2 = s := by omega
  have h2 : (s * 2 ^ 63 + E * 2 ^ 52 + m) / 2 ^ 52 % 2 ^ 11 = E := by omega
  have h3 : (s * 2 ^ 63 + E * 2 ^ 52 + m) % 2 ^ 52 = m := by omega
  rw [h1, h2, h3]

/-- a normal pattern whose value is the integer `N`. -/
theorem f64Val_int (sign : Bool) (E m N : Nat) (hE0 : 0 < E) (hE : E < 2047)
    (h1 : E < 1075 → 2 ^ 52 + m = N * 2 ^ (1075 - E)) (h2 : 1075 ≤ E → N = (2 ^ 52 + m) * 2 ^ (E - 1075)) :
    f64Val sign E m = .fin (if sign then -(N : Rat) else N) := by
  have e1 : (E == 2047) = false := by simp; omega
  have e2 : (E == 0) = false := by simp; omega
  unfold f64Val
  simp only [e1, e2, Bool.false_eq_true, if_false]
  by_cases h : 1075 ≤ E
  · simp only [ge_iff_le, h, if_true, ← h2 h, Nat.cast_one, div_one]
  · simp only [ge_iff_le, h, if_false, h1 (by omega)]
    have : ((2 ^ (1075 - E) : Nat) : Rat) ≠ 0 := by positivity
    rw [Nat.cast_mul, mul_div_assoc, div_self this, mul_one]

theorem log2_bounds (n : Nat) (hn : n ≠ 0) : 2 ^ Nat.log2 n ≤ n ∧ n < 2 ^ (Nat.log2 n + 1) :=
  ⟨Nat.log2_self_le hn, Nat.lt_log2_self⟩

/-- normalising a number with `e = log2 n ≤ k` to `k+1` bits. -/
theorem normalise_bounds (n k : Nat) (hn : n ≠ 0) (he : Nat.log2 n ≤ k) :
    2 ^ k ≤ n * 2 ^ (k - Nat.log2 n) ∧ n * 2 ^ (k - Nat.log2 n) < 2 ^ (k + 1) := by
  obtain ⟨h1, h2⟩ := log2_bounds n hn
  have hp : 0 < 2 ^ (k - Nat.log2 n) := Nat.pow_pos (by decide)
  constructor
  · calc 2 ^ k = 2 ^ Nat.log2 n * 2 ^ (k - Nat.log2 n) := by rw [← Nat.pow_add]; congr 1; omega
      _ ≤ n * 2 ^ (k - Nat.log2 n) := Nat.mul_le_mul_right _ h1
  · calc n * 2 ^ (k - Nat.log2 n) < 2 ^ (Nat.log2 n + 1) * 2 ^ (k - Nat.log2 n) := Nat.mul_lt_mul_of_pos_right h2 hp
      _ = 2 ^ (k + 1) := by rw [← Nat.pow_add]; congr 1; omega

theorem shiftRoundEven_spec (n s : Nat) (hs : 0 < s) :
    (shiftRoundEven n s = n / 2 ^ s ∨ shiftRoundEven n s = n / 2 ^ s + 1) ∧
    2 * (if shiftRoundEven n s * 2 ^ s ≤ n then n - shiftRoundEven n s * 2 ^ s else shiftRoundEven n s * 2 ^ s - n) ≤ 2 ^ s := by
  have hdm := Nat.div_add_mod n (2 ^ s)
  have hlt : n % 2 ^ s < 2 ^ s := Nat.mod_lt _ (Nat.pow_pos (by decide))
  have hp : 2 ^ s = 2 * 2 ^ (s - 1) := by rw [← Nat.pow_succ']; congr 1; omega
  have hq1 : (n / 2 ^ s + 1) * 2 ^ s = 2 ^ s * (n / 2 ^ s) + 2 ^ s := by rw [Nat.add_mul, Nat.one_mul, Nat.mul_comm]
  have hq0 : (n / 2 ^ s) * 2 ^ s = 2 ^ s * (n / 2 ^ s) := Nat.mul_comm _ _
  unfold shiftRoundEven
  simp only [show s ≠ 0 by omega, if_false]
  generalize 2 ^ (s - 1) = P at *
  generalize n % 2 ^ s = r at *
  split
  · refine ⟨.inr rfl, ?_⟩
    rw [hq1]; split <;> omega
  · split
    · refine ⟨.inl rfl, ?_⟩
      rw [hq0]; split <;> omega
    · split
      · refine ⟨.inr rfl, ?_⟩
        rw [hq1]; split <;> omega
      · refine ⟨.inl rfl, ?_⟩
        rw [hq0]; split <;> omega

/-- the rounded mantissa of a number with more than 53 bits. -/
theorem shiftRoundEven_mant (n : Nat) (hn : n ≠ 0) (he : 52 < Nat.log2 n) :
    2 ^ 52 ≤ shiftRoundEven n (Nat.log2 n - 52) ∧ shiftRoundEven n (Nat.log2 n - 52) ≤ 2 ^ 53 := by
  obtain ⟨h1, h2⟩ := log2_bounds n hn
  have hs := (shiftRoundEven_spec n (Nat.log2 n - 52) (by omega)).1
  have hp : 0 < 2 ^ (Nat.log2 n - 52) := Nat.pow_pos (by decide)
  have e1 : 2 ^ Nat.log2 n = 2 ^ 52 * 2 ^ (Nat.log2 n - 52) := by rw [← Nat.pow_add]; congr 1; omega
  have e2 : 2 ^ (Nat.log2 n + 1) = 2 ^ 53 * 2 ^ (Nat.log2 n - 52) := by rw [← Nat.pow_add]; congr 1; omega
  have q1 : 2 ^ 52 ≤ n / 2 ^ (Nat.log2 n - 52) := (Nat.le_div_iff_mul_le hp).mpr (by omega)
  have q2 : n / 2 ^ (Nat.log2 n - 52) < 2 ^ 53 := (Nat.div_lt_iff_lt_mul hp).mpr (by omega)
  omega


def signNat (neg : Bool) : Nat := if neg then 1 else 0

theorem signNat_lt (neg : Bool) : signNat neg < 2 := by cases neg <;> decide
theorem signNat_beq (neg : Bool) : (signNat neg == 1) = neg := by cases neg <;> decide
theorem signNat_mul (neg : Bool) : (if neg then 2 ^ 63 else 0) = signNat neg * 2 ^ 63 := by cases neg <;> rfl

/-- integers with at most 53 significant bits are represented exactly. -/
theorem f64OfBits_ofNat_small (neg : Bool) (n : Nat) (hn : n ≠ 0) (he : Nat.log2 n ≤ 52) :
    f64OfBits (f64BitsOfNat neg n) = .fin (if neg then -(n : Rat) else n) := by
  obtain ⟨b1, b2⟩ := normalise_bounds n 52 hn he
  unfold f64BitsOfNat log2Nat
  simp only [hn, if_false, he, if_true, signNat_mul]
  rw [f64OfBits_mk _ _ _ (signNat_lt neg) (by omega) (by omega), signNat_beq]
  apply f64Val_int _ _ _ _ (by omega) (by omega)
  · intro _
    rw [show 1075 - (1023 + Nat.log2 n) = 52 - Nat.log2 n by omega]; omega
  · intro h
    have h52 : Nat.log2 n = 52 := by omega
    rw [h52] at b1 ⊢
    omega

/-- larger integers are rounded to 53 bits. -/
theorem f64OfBits_ofNat_large (neg : Bool) (n : Nat) (hn : n ≠ 0) (he : 52 < Nat.log2 n) (hlt : n < 2 ^ 64) :
    f64OfBits (f64BitsOfNat neg n) =
      .fin (if neg then -((shiftRoundEven n (Nat.log2 n - 52) * 2 ^ (Nat.log2 n - 52) : Nat) : Rat)
        else ((shiftRoundEven n (Nat.log2 n - 52) * 2 ^ (Nat.log2 n - 52) : Nat) : Rat)) := by
  obtain ⟨b1, b2⟩ := shiftRoundEven_mant n hn he
  have h64 : Nat.log2 n < 64 := (Nat.log2_lt hn).mpr hlt
  unfold f64BitsOfNat log2Nat
  simp only [hn, if_false, show ¬ Nat.log2 n ≤ 52 by omega, signNat_mul]
  generalize shiftRoundEven n (Nat.log2 n - 52) = m at *
  split
  · rename_i hm
    have := f64OfBits_mk (signNat neg) (1023 + Nat.log2 n + 1) 0 (signNat_lt neg) (by omega) (by omega)
    rw [Nat.add_zero] at this
    rw [this, signNat_beq]
    apply f64Val_int _ _ _ _ (by omega) (by omega)
    · intro h; omega
    · intro _
      rw [hm, show 1023 + Nat.log2 n + 1 - 1075 = (Nat.log2 n - 52) + 1 by omega, Nat.pow_succ]
      omega
  · rename_i hm
    rw [f64OfBits_mk _ _ _ (signNat_lt neg) (by omega) (by omega), signNat_beq]
    apply f64Val_int _ _ _ _ (by omega) (by omega)
    · intro h; omega
    · intro _
      rw [show 1023 + Nat.log2 n - 1075 = Nat.log2 n - 52 by omega, show 2 ^ 52 + (m - 2 ^ 52) = m by omega]


/-! ## binary32 → binary64 -/

/-- the exact value of a binary32 pattern, on its three fields. -/
def f32Val (sign : Bool) (e m : Nat) : XR :=
  if e == 255 then (if m == 0 then .inf sign else .nan)
  else
    let mag : Rat := if e == 0 then (m : Rat) / ((2 ^ 149 : Nat) : Rat)
      else if e ≥ 150 then (((2 ^ 23 + m) * 2 ^ (e - 150) : Nat) : Rat)
      else ((2 ^ 23 + m : Nat) : Rat) / ((2 ^ (150 - e) : Nat) : Rat)
    .fin (if sign then -mag else mag)

/-- `f64BitsOfF32Bits` on the three fields. -/
def widenFields (sign e m : Nat) : Nat :=
  let s64 := sign * 2 ^ 63
  if e = 255 then
    if m = 0 then s64 + 2047 * 2 ^ 52 else s64 + 2047 * 2 ^ 52 + 2 ^ 51 + (m % 2 ^ 22) * 2 ^ 29
  else if e = 0 then
    if m = 0 then s64
    else
      let l := log2Nat m
      s64 + (1023 - 149 + l) * 2 ^ 52 + (m * 2 ^ (52 - l) - 2 ^ 52)
  else s64 + (e + 896) * 2 ^ 52 + m * 2 ^ 29

theorem f64BitsOfF32Bits_eq (b : Nat) :
    f64BitsOfF32Bits b = widenFields (b / 2 ^ 31 % 2) (b / 2 ^ 23 % 2 ^ 8) (b % 2 ^ 23) := rfl

theorem f64Val_zero (sign : Bool) : f64Val sign 0 0 = .fin 0 := by
  unfold f64Val
  have z : ((0 : Nat) == 0) = true := rfl
  have z2 : ((0 : Nat) == 2047) = false := by decide
  rw [z2, z]
  simp only [Bool.false_eq_true, if_false, if_true, Nat.cast_zero, zero_div, neg_zero, ite_self]

theorem f32Val_zero (sign : Bool) : f32Val sign 0 0 = .fin 0 := by
  unfold f32Val
  have z : ((0 : Nat) == 0) = true := rfl
  have z2 : ((0 : Nat) == 255) = false := by decide
  rw [z2, z]
  simp only [Bool.false_eq_true, if_false, if_true, Nat.cast_zero, zero_div, neg_zero, ite_self]

theorem f64Val_frac (sign : Bool) (E m : Nat) (hE0 : 0 < E) (hE : E < 1075) :
    f64Val sign E m = .fin (if sign then -(((2 ^ 52 + m : Nat) : Rat) / ((2 ^ (1075 - E) : Nat) : Rat))
      else ((2 ^ 52 + m : Nat) : Rat) / ((2 ^ (1075 - E) : Nat) : Rat)) := by
  have e1 : (E == 2047) = false := by simp; omega
  have e2 : (E == 0) = false := by simp; omega
  unfold f64Val
  simp only [e1, e2, Bool.false_eq_true, if_false, ge_iff_le, show ¬ 1075 ≤ E by omega]

theorem rat_div_pow (a b i j : Nat) (h : a * 2 ^ j = b * 2 ^ i) :
    (a : Rat) / ((2 ^ i : Nat) : Rat) = (b : Rat) / ((2 ^ j : Nat) : Rat) := by
  have hi : ((2 ^ i : Nat) : Rat) ≠ 0 := by positivity
  have hj : ((2 ^ j : Nat) : Rat) ≠ 0 := by positivity
  rw [div_eq_div_iff hi hj]
  exact_mod_cast h

theorem pow_split (a b c : Nat) (h : a = b + c) : 2 ^ a = 2 ^ b * 2 ^ c := by rw [h, Nat.pow_add]

theorem widen_val (s e m : Nat) (hs : s < 2) (he : e < 256) (hm : m < 2 ^ 23) :
    f64OfBits (widenFields s e m) = f32Val (s == 1) e m := by
  unfold widenFields
  simp only
  split
  · rename_i h255
    subst h255
    split
    · rename_i hm0
      subst hm0
      have := f64OfBits_mk s 2047 0 hs (by omega) (by omega)
      rw [Nat.add_zero] at this
      rw [this]
      simp [f64Val, f32Val]
    · rename_i hm0
      have := f64OfBits_mk s 2047 (2 ^ 51 + (m % 2 ^ 22) * 2 ^ 29) hs (by omega) (by omega)
      rw [← Nat.add_assoc] at this
      rw [this]
      have h2 : (m == 0) = false := by simpa using hm0
      simp [f64Val, f32Val, h2]
  · rename_i h255
    split
    · rename_i h0
      subst h0
      split
      · rename_i hm0
        subst hm0
        have := f64OfBits_mk s 0 0 hs (by omega) (by omega)
        simp only [Nat.zero_mul, Nat.add_zero] at this
        rw [this, f64Val_zero, f32Val_zero]
      · rename_i hm0
        simp only [log2Nat]
        have hl : Nat.log2 m < 23 := (Nat.log2_lt hm0).mpr hm
        obtain ⟨b1, b2⟩ := normalise_bounds m 52 hm0 (by omega)
        rw [f64OfBits_mk _ _ _ hs (by omega) (by omega), f64Val_frac _ _ _ (by omega) (by omega)]
        have h2 : (m == 0) = false := by simpa using hm0
        have key : ((2 ^ 52 + (m * 2 ^ (52 - Nat.log2 m) - 2 ^ 52) : Nat) : Rat) /
            ((2 ^ (1075 - (1023 - 149 + Nat.log2 m)) : Nat) : Rat) = (m : Rat) / ((2 ^ 149 : Nat) : Rat) := by
          apply rat_div_pow
          rw [show 2 ^ 52 + (m * 2 ^ (52 - Nat.log2 m) - 2 ^ 52) = m * 2 ^ (52 - Nat.log2 m) by omega,
            Nat.mul_assoc, ← Nat.pow_add]
          congr 2; omega
        rw [key]
        have z : ((0 : Nat) == 0) = true := rfl
        have z2 : ((0 : Nat) == 255) = false := by decide
        unfold f32Val
        rw [z2, z]
        simp only [Bool.false_eq_true, if_false, if_true]
    · rename_i h0
      have hmm : m * 2 ^ 29 < 2 ^ 52 := by omega
      rw [f64OfBits_mk _ _ _ hs (by omega) hmm]
      have e1 : (e == 255) = false := by simpa using h255
      have e2 : (e == 0) = false := by simpa using h0
      by_cases h150 : 150 ≤ e
      · rw [f64Val_int _ _ _ ((2 ^ 23 + m) * 2 ^ (e - 150)) (by omega) (by omega)]
        · simp only [f32Val, e1, e2, Bool.false_eq_true, if_false, ge_iff_le, h150, if_true]
        · intro h
          rw [Nat.mul_assoc, ← Nat.pow_add, show e - 150 + (1075 - (e + 896)) = 29 by omega]
          omega
        · intro h
          rw [pow_split (e - 150) 29 (e + 896 - 1075) (by omega), ← Nat.mul_assoc]
          congr 1; omega
      · rw [f64Val_frac _ _ _ (by omega) (by omega)]
        have key : ((2 ^ 52 + m * 2 ^ 29 : Nat) : Rat) / ((2 ^ (1075 - (e + 896)) : Nat) : Rat) =
            ((2 ^ 23 + m : Nat) : Rat) / ((2 ^ (150 - e) : Nat) : Rat) := by
          apply rat_div_pow
          rw [pow_split (1075 - (e + 896)) 29 (150 - e) (by omega), ← Nat.mul_assoc]
          congr 1; omega
        rw [key]
        simp only [f32Val, e1, e2, Bool.false_eq_true, if_false, ge_iff_le, h150]

/-- widening is exact. -/
theorem widen_bits (b : Nat) :
    f64OfBits (f64BitsOfF32Bits b) = f32Val (b / 2 ^ 31 % 2 == 1) (b / 2 ^ 23 % 2 ^ 8) (b % 2 ^ 23) := by
  rw [f64BitsOfF32Bits_eq]
  exact widen_val _ _ _ (Nat.mod_lt _ (by decide)) (Nat.mod_lt _ (by decide)) (Nat.mod_lt _ (by decide))

/-! ## integers -/

theorem f64OfBits_zero : f64OfBits 0 = .fin 0 := by
  have := f64OfBits_mk 0 0 0 (by omega) (by omega) (by omega)
  rw [f64Val_zero] at this
  exact this

theorem f64OfBits_ofNat_pow53 (neg : Bool) :
    f64OfBits (f64BitsOfNat neg (2 ^ 53)) = .fin (if neg then -((2 ^ 53 : Nat) : Rat) else ((2 ^ 53 : Nat) : Rat)) := by
  cases neg <;> decide +kernel

theorem f64OfBits_ofNat_exact (neg : Bool) (n : Nat) (hn0 : n ≠ 0) (hn : n ≤ 2 ^ 53) :
    f64OfBits (f64BitsOfNat neg n) = .fin (if neg then -(n : Rat) else n) := by
  by_cases h : n = 2 ^ 53
  · subst h; exact f64OfBits_ofNat_pow53 neg
  · have : Nat.log2 n < 53 := (Nat.log2_lt hn0).mpr (by omega)
    exact f64OfBits_ofNat_small neg n hn0 (by omega)

theorem f64OfBits_ofNat_unsigned (n : Nat) (hn : n ≤ 2 ^ 53) : f64OfBits (f64BitsOfNat false n) = .fin (n : Rat) := by
  by_cases h0 : n = 0
  · subst h0
    simp only [f64BitsOfNat, if_true, f64OfBits_zero, Nat.cast_zero]
  · simpa using f64OfBits_ofNat_exact false n h0 hn

theorem f64OfBits_ofInt (i : Int) (hi : i.natAbs ≤ 2 ^ 53) : f64OfBits (f64BitsOfInt i) = .fin (i : Rat) := by
  unfold f64BitsOfInt
  split
  · rename_i hneg
    have h : i = -(i.natAbs : Int) := by omega
    have hc : (i : Rat) = -((i.natAbs : Nat) : Rat) := by
      exact (congrArg (Int.cast (R := Rat)) h).trans (by rw [Int.cast_neg, Int.cast_natCast])
    rw [f64OfBits_ofNat_exact true _ (by omega) hi, hc]
    simp
  · rename_i hneg
    have h : i = (i.natAbs : Int) := by omega
    have hc : (i : Rat) = ((i.natAbs : Nat) : Rat) := by
      exact (congrArg (Int.cast (R := Rat)) h).trans (by rw [Int.cast_natCast])
    rw [f64OfBits_ofNat_unsigned _ hi, hc]

theorem signedOf_bounds (k n : Nat) (hk : 0 < k) (hn : n < 2 ^ (8 * k)) :
    -(2 ^ (8 * k - 1) : Int) ≤ signedOf k n ∧ signedOf k n < (2 ^ (8 * k - 1) : Int) ∧
      (signedOf k n - (n : Int)) % (2 ^ (8 * k) : Int) = 0 := by
  have hp : (2 : Nat) ^ (8 * k) = 2 * 2 ^ (8 * k - 1) := by rw [← Nat.pow_succ']; congr 1; omega
  have hpI : (2 : Int) ^ (8 * k) = ((2 ^ (8 * k) : Nat) : Int) := by push_cast; rfl
  have hqI : (2 : Int) ^ (8 * k - 1) = ((2 ^ (8 * k - 1) : Nat) : Int) := by push_cast; rfl
  rw [hpI, hqI]
  unfold signedOf
  split
  · refine ⟨by omega, by omega, ?_⟩
    rw [Int.sub_self]; rfl
  · refine ⟨by omega, by omega, ?_⟩
    apply Int.emod_eq_zero_of_dvd
    exact ⟨-1, by omega⟩

/-- the nearest-value statement for 64-bit integers beyond 2^53. -/
theorem f64OfBits_ofNat_nearest (n : Nat) (hn : 2 ^ 53 < n) (hlt : n < 2 ^ 64) :
    ∃ m s : Nat, 2 ^ 52 ≤ m ∧ m ≤ 2 ^ 53 ∧ s = Nat.log2 n - 52 ∧
      f64OfBits (f64BitsOfNat false n) = .fin ((m * 2 ^ s : Nat) : Rat) ∧
      2 * (if m * 2 ^ s ≤ n then n - m * 2 ^ s else m * 2 ^ s - n) ≤ 2 ^ s := by
  have hn0 : n ≠ 0 := by omega
  have he : 52 < Nat.log2 n := by
    have : 53 ≤ Nat.log2 n := (Nat.le_log2 hn0).mpr (by omega)
    omega
  obtain ⟨b1, b2⟩ := shiftRoundEven_mant n hn0 he
  refine ⟨shiftRoundEven n (Nat.log2 n - 52), Nat.log2 n - 52, b1, b2, rfl, ?_, ?_⟩
  · simpa using f64OfBits_ofNat_large false n hn0 he hlt
  · exact (shiftRoundEven_spec n _ (by omega)).2

end Sfs
