/-
Helper lemmas for C06 (genotype level).
-/
import SfsModel.Model.Stat
import SfsModel.Spec.Stat
import SfsModel.Lemmas.Create
namespace Sfs

end Sfs
