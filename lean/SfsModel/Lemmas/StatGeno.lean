/-
Helper lemmas for C06 (genotype level).
-/
import SfsModel.Model.Stat
import SfsModel.Spec.Stat
import SfsModel.Lemmas.Create
import SfsModel.Lemmas.View
import Mathlib.Algebra.Field.Basic
import Mathlib.Algebra.CharZero.Defs
import Mathlib.Algebra.BigOperators.Group.List.Basic
import Mathlib.Algebra.BigOperators.Ring.List
import Mathlib.Tactic.Ring
import Mathlib.Tactic.FieldSimp
namespace Sfs
open Sfs.Spec

/-- Same content as `C06.IsSpectrumOf` (which is definitionally this). -/
def SgSpec {α : Type} [Field α] (shape : List Nat) (ks : List (List Nat)) (x : List α) : Prop :=
  x.length = size shape ∧ (∀ k ∈ ks, InB shape k) ∧ ∀ k, InB shape k → x.getD (flat shape k) 0 = ((ks.count k : Nat) : α)

section
variable {α : Type} [Field α]

/-! ### sums over `List.range` -/

theorem sg_sum_range_ite (n j : Nat) (c : α) (hj : j < n) :
    ((List.range n).map (fun i => if i = j then c else 0)).sum = c := by
  induction n with
  | zero => omega
  | succ n ih =>
    rw [List.range_succ, List.map_append, List.sum_append]
    by_cases h : j = n
    · subst h
      have : ((List.range j).map (fun i => if i = j then c else 0)) = (List.range j).map (fun _ => (0 : α)) := by
        apply List.map_congr_left
        intro i hi
        have := List.mem_range.mp hi
        rw [if_neg (by omega)]
      rw [this]
      simp
    · rw [ih (by omega)]
      simp [Ne.symm h]

theorem sg_sum_map_add {β} (l : List β) (f g : β → α) :
    (l.map (fun b => f b + g b)).sum = (l.map f).sum + (l.map g).sum := by
  induction l with
  | nil => simp
  | cons b l ih => simp only [List.map_cons, List.sum_cons, ih]; ring

theorem sg_sum_map_zero {β} (l : List β) : (l.map (fun _ => (0 : α))).sum = 0 := by
  induction l with
  | nil => simp
  | cons b l ih => simp

/-- Counting form of the key lemma. -/
theorem sg_linear_count (shape : List Nat) (ks : List (List Nat)) (hin : ∀ k ∈ ks, InB shape k) (w : List Nat → α) :
    ((List.range (size shape)).map (fun i => ((ks.count (unflat shape i) : Nat) : α) * w (unflat shape i))).sum
      = (ks.map w).sum := by
  induction ks with
  | nil => simp
  | cons k ks ih =>
    have hk : InB shape k := hin k (List.mem_cons_self)
    have ih' := ih (fun k' hk' => hin k' (List.mem_cons_of_mem _ hk'))
    rw [List.map_cons, List.sum_cons, ← ih', ← sg_sum_range_ite (size shape) (flat shape k) (w k) (flat_lt _ _ hk),
      ← sg_sum_map_add]
    congr 1
    apply List.map_congr_left
    intro i hi
    have hi' := List.mem_range.mp hi
    rw [List.count_cons]
    by_cases h : i = flat shape k
    · subst h
      rw [unflat_flat _ _ hk]
      simp
      ring
    · have : ¬ (k = unflat shape i) := by
        intro e
        apply h
        rw [e, flat_unflat _ _ hi']
      simp [h, this]

/-- The key lemma: a weighted sum over the cells is the sum of the weight over the sites. -/
theorem sg_linear (shape : List Nat) (ks : List (List Nat)) (x : List α) (h : SgSpec shape ks x) (w : List Nat → α) :
    ((List.range (size shape)).map (fun i => x.getD i 0 * w (unflat shape i))).sum = (ks.map w).sum := by
  rw [← sg_linear_count shape ks h.2.1 w]
  congr 1
  apply List.map_congr_left
  intro i hi
  have hi' := List.mem_range.mp hi
  have := h.2.2 (unflat shape i) (unflat_inB _ _ hi')
  rw [flat_unflat _ _ hi'] at this
  rw [this]

theorem sg_linear_iff (shape : List Nat) (ks : List (List Nat)) (x : List α) (h : SgSpec shape ks x) (w : List Nat → α) :
    ((List.range (size shape)).map (fun i => x.getD i 0 * w (indexFromFlat shape i))).sum = (ks.map w).sum := by
  rw [← sg_linear shape ks x h w]
  congr 1
  apply List.map_congr_left
  intro i hi
  rw [show indexFromFlat shape i = unflat shape i from unflatLoop_eq shape i (List.mem_range.mp hi)]

theorem sg_sum_eq_range (x : List α) : x.sum = ((List.range x.length).map (fun i => x.getD i 0)).sum := by
  conv_lhs => rw [list_eq_range_map (0:α) x]

theorem sg_sum (shape : List Nat) (ks : List (List Nat)) (x : List α) (h : SgSpec shape ks x) :
    sumList x = ((ks.length : Nat) : α) := by
  rw [sumList_eq_sum, sg_sum_eq_range, h.1]
  have := sg_linear shape ks x h (fun _ => 1)
  simp only [mul_one] at this
  rw [this]
  simp

theorem sg_sum_filter {β} (p : β → Bool) (f : β → α) (l : List β) :
    ((l.filter p).map f).sum = (l.map (fun b => if p b then f b else 0)).sum := by
  induction l with
  | nil => simp
  | cons b l ih =>
    rw [List.filter_cons]
    by_cases h : p b = true
    · simp [h, ih]
    · simp [h, ih]

/-! ### `interior` and `withIdx` -/

theorem sg_withIdx {β} (d : β) (x : List β) : withIdx x = (List.range x.length).map (fun i => (i, x.getD i d)) := by
  unfold withIdx
  apply List.ext_getElem
  · simp
  · intro i h1 h2
    simp at h1
    simp [List.getD_eq_getElem?_getD, h1]

theorem sg_interior_map {β γ} (f : β → γ) (l : List β) : interior (l.map f) = (interior l).map f := by
  unfold interior
  simp [List.map_take]

theorem sg_interior_range (n : Nat) : interior (List.range n) = List.range' 1 (n - 2) := by
  unfold interior
  rw [List.length_range, List.take_range, List.range_eq_range']
  simp
  omega

theorem sg_sum_interior (n : Nat) (g : Nat → α) :
    ((List.range' 1 (n - 2)).map g).sum
      = ((List.range n).map (fun i => if i = 0 ∨ i = n - 1 then 0 else g i)).sum := by
  match n with
  | 0 => simp
  | 1 => simp
  | m + 2 =>
    rw [List.range_succ, List.range_eq_range', List.range'_succ]
    simp only [List.map_append, List.map_cons, List.sum_append, List.sum_cons, List.map_nil, List.sum_nil]
    simp
    apply congrArg
    apply List.map_congr_left
    intro i hi
    have := List.mem_range'_1.mp hi
    rw [if_neg (by omega)]

theorem sg_interior_withIdx_sum (x : List α) (f : Nat × α → α) :
    sumList ((interior (withIdx x)).map f)
      = ((List.range x.length).map (fun i => if i = 0 ∨ i = x.length - 1 then 0 else f (i, x.getD i 0))).sum := by
  rw [sumList_eq_sum, sg_withIdx 0 x, sg_interior_map, sg_interior_range, List.map_map, sg_sum_interior]
  rfl

theorem sg_interior_sum (x : List α) :
    sumList (interior x)
      = ((List.range x.length).map (fun i => if i = 0 ∨ i = x.length - 1 then 0 else x.getD i 0)).sum := by
  rw [sumList_eq_sum]
  conv_lhs => rw [list_eq_range_map (0:α) x, sg_interior_map, sg_interior_range]
  rw [sg_sum_interior]

/-! ### the two monomorphic cells -/

theorem sg_size_pos (ns : List Nat) : 0 < size (ns.map (· + 1)) := by
  induction ns with
  | nil => simp [size]
  | cons n ns ih => simp only [List.map_cons, size]; exact Nat.mul_pos (by omega) ih

theorem sg_zeros (ns : List Nat) :
    InB (ns.map (· + 1)) (ns.map (fun _ => 0)) ∧ flat (ns.map (· + 1)) (ns.map (fun _ => 0)) = 0 := by
  induction ns with
  | nil => simp [InB, flat]
  | cons n ns ih =>
    simp only [List.map_cons, InB, flat, ih.2]
    exact ⟨⟨Nat.succ_pos n, ih.1⟩, by simp⟩

theorem sg_top (ns : List Nat) :
    InB (ns.map (· + 1)) ns ∧ flat (ns.map (· + 1)) ns = size (ns.map (· + 1)) - 1 := by
  induction ns with
  | nil => simp [InB, flat, size]
  | cons n ns ih =>
    refine ⟨⟨Nat.lt_succ_self n, ih.1⟩, ?_⟩
    have hp := sg_size_pos ns
    simp only [List.map_cons, flat, size, ih.2, Nat.add_mul, Nat.one_mul]
    omega

theorem sg_polymorphic (ns : List Nat) (i : Nat) (hi : i < size (ns.map (· + 1))) :
    polymorphic ns (unflat (ns.map (· + 1)) i) = !(decide (i = 0 ∨ i = size (ns.map (· + 1)) - 1)) := by
  have hz := sg_zeros ns
  have ht := sg_top ns
  have e1 : unflat (ns.map (· + 1)) i = ns.map (fun _ => 0) ↔ i = 0 := by
    constructor
    · intro e
      have := flat_unflat _ _ hi
      rw [e, hz.2] at this
      exact this.symm
    · intro e
      subst e
      have := unflat_flat _ _ hz.1
      rwa [hz.2] at this
  have e2 : unflat (ns.map (· + 1)) i = ns ↔ i = size (ns.map (· + 1)) - 1 := by
    constructor
    · intro e
      have := flat_unflat _ _ hi
      rw [e, ht.2] at this
      exact this.symm
    · intro e
      subst e
      have := unflat_flat _ _ ht.1
      rwa [ht.2] at this
  unfold polymorphic
  by_cases h1 : i = 0
  · rw [e1.mpr h1]
    simp [h1]
  · by_cases h2 : i = size (ns.map (· + 1)) - 1
    · rw [e2.mpr h2]
      simp [← h2]
    · have b1 : (unflat (ns.map (· + 1)) i != ns.map (fun _ => 0)) = true := bne_iff_ne.mpr (mt e1.mp h1)
      have b2 : (unflat (ns.map (· + 1)) i != ns) = true := bne_iff_ne.mpr (mt e2.mp h2)
      rw [b1, b2]
      simp [h1, h2]

/-- Weighted sum over the interior cells = sum of the weight over the polymorphic sites. -/
theorem sg_interior_linear (ns : List Nat) (ks : List (List Nat)) (x : List α) (h : SgSpec (ns.map (· + 1)) ks x)
    (w : List Nat → α) :
    ((List.range x.length).map (fun i => if i = 0 ∨ i = x.length - 1 then 0
        else x.getD i 0 * w (unflat (ns.map (· + 1)) i))).sum
      = ((ks.filter (polymorphic ns)).map w).sum := by
  rw [sg_sum_filter, ← sg_linear _ ks x h, h.1]
  congr 1
  apply List.map_congr_left
  intro i hi
  rw [sg_polymorphic ns i (List.mem_range.mp hi)]
  by_cases hc : i = 0 ∨ i = size (ns.map (· + 1)) - 1
  · simp [hc]
  · simp [hc]

theorem sg_S (ns : List Nat) (ks : List (List Nat)) (x : List α) (h : SgSpec (ns.map (· + 1)) ks x) :
    segregating x = gS ns ks := by
  unfold segregating gS
  rw [sg_interior_sum]
  have := sg_interior_linear ns ks x h (fun _ => 1)
  simp only [mul_one] at this
  rw [this]
  simp

theorem sg_binom2 (n : Nat) : binom2 n = n * (n - 1) / 2 := by
  unfold binom2
  split
  · have : n = 0 ∨ n = 1 := by omega
    rcases this with rfl | rfl <;> rfl
  · rfl

theorem sg_sum_map_div {β} (l : List β) (f : β → α) (c : α) : (l.map (fun b => f b / c)).sum = (l.map f).sum / c := by
  simp only [div_eq_mul_inv]
  rw [List.sum_map_mul_right]

theorem sg_pi (n : Nat) (ks : List (List Nat)) (x : List α) (h : SgSpec [n + 1] ks x) :
    statPi x = gPi n (ks.map (fun k => k.getD 0 0)) := by
  have hl : x.length = n + 1 := by rw [h.1]; simp [size]
  have hlin := sg_linear [n+1] ks x h (fun k => ((k.getD 0 0 * (n - k.getD 0 0) : Nat) : α) / ((binom2 n : Nat) : α))
  have hs : size [n+1] = n+1 := by simp [size]
  rw [hs, sg_sum_map_div] at hlin
  unfold statPi thetaEstimate gPi sumOver
  simp only []
  rw [sg_interior_withIdx_sum, sumList_eq_sum, List.map_map, ← sg_binom2, hl]
  simp only [Function.comp_def]
  rw [← hlin]
  congr 1
  apply List.map_congr_left
  intro i hi
  have hi' := List.mem_range.mp hi
  simp only [unflat, size, Nat.div_one, List.getD_cons_zero, Nat.add_sub_cancel]
  by_cases h0 : i = 0
  · simp [h0]
  · by_cases h1 : i = n
    · simp [h1]
    · rw [if_neg (by omega)]
      unfold tajimaWeight
      ring

theorem sg_cells (a b : Nat) (hb : 0 < b) :
    (List.range a).flatMap (fun m1 => (List.range b).map (fun m2 => (m1, m2)))
      = (List.range (a * b)).map (fun i => (i / b, i % b)) := by
  induction a with
  | zero => simp
  | succ a ih =>
    rw [List.range_succ, List.flatMap_append, ih, Nat.succ_mul, List.range_add, List.map_append]
    congr 1
    simp only [List.flatMap_cons, List.flatMap_nil, List.append_nil, List.map_map]
    apply List.map_congr_left
    intro m hm
    have hm' := List.mem_range.mp hm
    simp only [Function.comp_def]
    rw [Nat.mul_comm a b, Nat.mul_add_div hb, Nat.mul_add_mod, Nat.div_eq_of_lt hm', Nat.mod_eq_of_lt hm']
    simp

theorem sg_sum_filter_all {β} (p : β → Bool) (f : β → α) (l : List β) (hz : ∀ b ∈ l, p b = false → f b = 0) :
    ((l.filter p).map f).sum = (l.map f).sum := by
  rw [sg_sum_filter]
  congr 1
  apply List.map_congr_left
  intro b hb
  by_cases h : p b = true
  · simp [h]
  · simp [h, hz b hb (by simpa using h)]

theorem sg_not_poly2 (n1 n2 : Nat) (k : List Nat) (h : polymorphic [n1, n2] k = false) : k = [0, 0] ∨ k = [n1, n2] := by
  unfold polymorphic at h
  simp only [List.map_cons, List.map_nil, Bool.and_eq_false_iff, bne_eq_false_iff_eq] at h
  exact h

theorem sg_pixy (n1 n2 : Nat) (ks : List (List Nat)) (x : List α) (h : SgSpec [n1 + 1, n2 + 1] ks x) :
    statPiXY ⟨x, [n1 + 1, n2 + 1]⟩ = gPiXY n1 n2 ks := by
  have hl : x.length = (n1 + 1) * (n2 + 1) := by rw [h.1]; simp [size]
  let w : List Nat → α := fun k => ((k.getD 0 0 * (n2 - k.getD 1 0) + k.getD 1 0 * (n1 - k.getD 0 0) : Nat) : α)
  have hlin := sg_interior_linear [n1, n2] ks x h w
  rw [sg_sum_filter_all] at hlin
  · unfold statPiXY gPiXY sumOver
    simp only [List.getD_cons_zero, List.getD_cons_succ, Nat.add_sub_cancel]
    rw [sg_cells _ _ (Nat.succ_pos n2)]
    congr 1
    rw [sumList_eq_sum, sumList_eq_sum, ← hlin, hl]
    have : ∀ l : List (Nat × Nat), l.length = (n1 + 1) * (n2 + 1) →
        (l.take ((n1 + 1) * (n2 + 1) - 1)).drop 1 = interior l := by
      intro l hl; unfold interior; rw [hl]
    rw [this _ (by simp), sg_interior_map, sg_interior_range, List.map_map, sg_sum_interior]
    congr 1
    apply List.map_congr_left
    intro i hi
    simp only [Function.comp_def, nth, Nat.div_add_mod', unflat, size, Nat.mul_one, Nat.div_one,
      List.map_cons, List.map_nil, w, List.getD_cons_zero, List.getD_cons_succ]
  · intro k _ hk
    rcases sg_not_poly2 n1 n2 k hk with rfl | rfl <;> simp [w]

/-- per-population sample frequencies of a site, as `freqs` computes them from the cell index -/
def sgFreq (ns k : List Nat) : List α :=
  (List.zip k (ns.map (· + 1))).map (fun p => ((p.1 : Nat) : α) / ((p.2 - 1 : Nat) : α))

theorem sg_freqs (ns : List Nat) (i : Nat) (hi : i < size (ns.map (· + 1))) :
    freqs (α := α) (ns.map (· + 1)) i = sgFreq ns (unflat (ns.map (· + 1)) i) := by
  unfold freqs sgFreq
  rw [show indexFromFlat (ns.map (· + 1)) i = unflat (ns.map (· + 1)) i from unflatLoop_eq _ i hi]

theorem sg_nth_freq : ∀ (ns k : List Nat) (j : Nat), nth (sgFreq (α := α) ns k) j = pfreq ns k j
  | _, [], j => by simp [nth, sgFreq, pfreq]
  | [], _ :: _, j => by simp [nth, sgFreq, pfreq]
  | n :: ns, k :: ks, 0 => by simp [nth, sgFreq, pfreq]
  | n :: ns, k :: ks, j + 1 => by
    have ih : nth (sgFreq (α := α) ns ks) j = pfreq ns ks j := sg_nth_freq ns ks j
    simp only [nth, sgFreq, pfreq] at ih ⊢
    simpa using ih

theorem sg_freqSum (ns : List Nat) (ks : List (List Nat)) (x : List α) (h : SgSpec (ns.map (· + 1)) ks x)
    (W : List α → α) :
    freqSum W (normalized ⟨x, ns.map (· + 1)⟩)
      = (ks.map (fun k => W (sgFreq ns k))).sum / ((ks.length : Nat) : α) := by
  have hlin := sg_linear _ ks x h (fun k => W (sgFreq ns k))
  have hs := sg_sum _ ks x h
  rw [sumList_eq_sum] at hs
  unfold freqSum normalized
  simp only []
  rw [sg_withIdx 0, List.map_map, sumList_eq_sum, normalize_length, h.1, ← hlin, ← sg_sum_map_div]
  apply congrArg
  apply List.map_congr_left
  intro i hi
  simp only [Function.comp_def]
  rw [normalize_getD, sg_freqs ns i (List.mem_range.mp hi), hs, div_mul_eq_mul_div]

theorem sg_f2 (ns : List Nat) (ks : List (List Nat)) (x : List α) (h : SgSpec (ns.map (· + 1)) ks x) :
    statF2 (normalized ⟨x, ns.map (· + 1)⟩) = gF2 ns ks := by
  unfold statF2 gF2 sumOver gSum
  rw [sg_freqSum ns ks x h, sumList_eq_sum]
  simp only [sg_nth_freq]

theorem sg_f3 (ns : List Nat) (ks : List (List Nat)) (x : List α) (h : SgSpec (ns.map (· + 1)) ks x) :
    statF3 (normalized ⟨x, ns.map (· + 1)⟩) = gF3 ns ks := by
  unfold statF3 gF3 sumOver gSum
  rw [sg_freqSum ns ks x h, sumList_eq_sum]
  simp only [sg_nth_freq]

theorem sg_f4 (ns : List Nat) (ks : List (List Nat)) (x : List α) (h : SgSpec (ns.map (· + 1)) ks x) :
    statF4 (normalized ⟨x, ns.map (· + 1)⟩) = gF4 ns ks := by
  unfold statF4 gF4 sumOver gSum
  rw [sg_freqSum ns ks x h, sumList_eq_sum]
  simp only [sg_nth_freq]


theorem sg_foldl_pair {β} (l : List β) (f g : β → α) (a b : α) :
    l.foldl (fun (acc : α × α) p => (acc.1 + f p, acc.2 + g p)) (a, b) = (a + (l.map f).sum, b + (l.map g).sum) := by
  induction l generalizing a b with
  | nil => simp
  | cons p l ih => simp [List.foldl_cons, ih, add_assoc]

theorem sg_interior_norm (ns : List Nat) (ks : List (List Nat)) (x : List α) (h : SgSpec (ns.map (· + 1)) ks x)
    (W : List α → α) :
    ((interior (withIdx (normalize x))).map (fun p => p.2 * W (freqs (ns.map (· + 1)) p.1))).sum
      = ((ks.filter (polymorphic ns)).map (fun k => W (sgFreq ns k))).sum / ((ks.length : Nat) : α) := by
  have hlin := sg_interior_linear ns ks x h (fun k => W (sgFreq ns k))
  have hs := sg_sum _ ks x h
  rw [sumList_eq_sum] at hs
  have := sg_interior_withIdx_sum (normalize x) (fun p => p.2 * W (freqs (ns.map (· + 1)) p.1))
  rw [sumList_eq_sum] at this
  rw [this, normalize_length, ← hlin, ← sg_sum_map_div, h.1]
  apply congrArg
  apply List.map_congr_left
  intro i hi
  by_cases hc : i = 0 ∨ i = size (ns.map (· + 1)) - 1
  · simp [hc]
  · rw [if_neg hc, if_neg hc, normalize_getD, sg_freqs ns i (List.mem_range.mp hi), hs, div_mul_eq_mul_div]

theorem sg_fstParts (ns : List Nat) (ks : List (List Nat)) (x : List α) (h : SgSpec (ns.map (· + 1)) ks x)
    (h2 : ns.length = 2) (hns : ∀ n ∈ ns, 0 < n) :
    fstParts (normalized ⟨x, ns.map (· + 1)⟩)
      = (((ks.filter (polymorphic ns)).map (hudsonNum ns)).sum / ((ks.length : Nat) : α),
         ((ks.filter (polymorphic ns)).map (hudsonDen ns)).sum / ((ks.length : Nat) : α)) := by
  match ns, h2 with
  | [a, b], _ =>
    obtain ⟨a, rfl⟩ : ∃ a', a = a' + 1 := ⟨a - 1, by have := hns a (by simp); omega⟩
    obtain ⟨b, rfl⟩ : ∃ b', b = b' + 1 := ⟨b - 1, by have := hns b (by simp); omega⟩
    let Wn : List α → α := fun f =>
      (nth f 0 - nth f 1) * (nth f 0 - nth f 1)
        - nth f 0 * (1 - nth f 0) / ((((List.map (· + 1) [a + 1, b + 1]).getD 0 0 : Nat) : α) - ((2 : Nat) : α))
        - nth f 1 * (1 - nth f 1) / ((((List.map (· + 1) [a + 1, b + 1]).getD 1 0 : Nat) : α) - ((2 : Nat) : α))
    let Wd : List α → α := fun f => nth f 0 * (1 - nth f 1) + nth f 1 * (1 - nth f 0)
    have e1 := sg_interior_norm [a + 1, b + 1] ks x h Wn
    have e2 := sg_interior_norm [a + 1, b + 1] ks x h Wd
    unfold fstParts normalized
    simp only []
    rw [sg_foldl_pair, zero_add, zero_add]
    refine Prod.ext (e1.trans ?_) (e2.trans ?_)
    · congr 2
      apply List.map_congr_left
      intro k _
      unfold hudsonNum
      simp only [Wn, sg_nth_freq, List.map_cons, List.getD_cons_zero, List.getD_cons_succ, Nat.add_sub_cancel]
      push_cast
      ring
    · congr 2
      apply List.map_congr_left
      intro k _
      unfold hudsonDen
      simp only [Wd, sg_nth_freq]

theorem sg_fst [CharZero α] (ns : List Nat) (ks : List (List Nat)) (x : List α) (h : SgSpec (ns.map (· + 1)) ks x)
    (h2 : ns.length = 2) (hns : ∀ n ∈ ns, 0 < n) (hks : ks ≠ []) :
    statFst (normalized ⟨x, ns.map (· + 1)⟩) = gFst ns ks := by
  unfold statFst gFst sumOver
  rw [sg_fstParts ns ks x h h2 hns, sumList_eq_sum, sumList_eq_sum]
  simp only []
  have : ((ks.length : Nat) : α) ≠ 0 := by
    rw [Nat.cast_ne_zero]
    intro e
    exact hks (List.length_eq_zero_iff.mp e)
  rw [div_div_div_cancel_right₀ this]

theorem sg_at33 (ks : List (List Nat)) (x : List α) (h : SgSpec [3, 3] ks x) (r c : Nat) (hr : r < 3) (hc : c < 3) :
    at33 ⟨x, [3, 3]⟩ r c = pairCount ks r c := by
  have := h.2.2 [r, c] ⟨hr, hc, trivial⟩
  unfold at33 nth pairCount
  simp only [flat, size] at this
  rw [show 3 * r + c = r * (3 * 1) + (c * 1 + 0) by omega, this, List.count_eq_countP, List.countP_eq_length_filter]

theorem sg_king (ks : List (List Nat)) (x : List α) (h : SgSpec [3, 3] ks x) : statKing ⟨x, [3, 3]⟩ = gKing ks := by
  unfold statKing gKing
  simp only [sg_at33 ks x h _ _ (by omega : (0:Nat) < 3) (by omega : (1:Nat) < 3),
    sg_at33 ks x h 0 2 (by omega) (by omega), sg_at33 ks x h 1 0 (by omega) (by omega),
    sg_at33 ks x h 1 1 (by omega) (by omega), sg_at33 ks x h 1 2 (by omega) (by omega),
    sg_at33 ks x h 2 0 (by omega) (by omega), sg_at33 ks x h 2 1 (by omega) (by omega)]

theorem sg_r0 (ks : List (List Nat)) (x : List α) (h : SgSpec [3, 3] ks x) : statR0 ⟨x, [3, 3]⟩ = gR0 ks := by
  unfold statR0 gR0
  simp only [sg_at33 ks x h 0 2 (by omega) (by omega), sg_at33 ks x h 1 1 (by omega) (by omega),
    sg_at33 ks x h 2 0 (by omega) (by omega)]

theorem sg_r1 (ks : List (List Nat)) (x : List α) (h : SgSpec [3, 3] ks x) : statR1 ⟨x, [3, 3]⟩ = gR1 ks := by
  unfold statR1 gR1
  simp only [sg_at33 ks x h 0 1 (by omega) (by omega),
    sg_at33 ks x h 0 2 (by omega) (by omega), sg_at33 ks x h 1 0 (by omega) (by omega),
    sg_at33 ks x h 1 1 (by omega) (by omega), sg_at33 ks x h 1 2 (by omega) (by omega),
    sg_at33 ks x h 2 0 (by omega) (by omega), sg_at33 ks x h 2 1 (by omega) (by omega)]

end

/-! ### chromosome level -/

theorem sg_altCount_le (c : List Bool) : altCount c ≤ c.length := List.length_filter_le _ _

theorem sg_altCount_cons (a : Bool) (c : List Bool) : altCount (a :: c) = (if a then 1 else 0) + altCount c := by
  unfold altCount
  cases a <;> simp [List.filter_cons] <;> omega

theorem sg_filter_ne (a : Bool) (d : List Bool) :
    (d.filter (· != a)).length = if a then d.length - altCount d else altCount d := by
  induction d with
  | nil => cases a <;> simp [altCount]
  | cons b d ih =>
    have hle := sg_altCount_le d
    rw [List.filter_cons, sg_altCount_cons]
    cases a <;> cases b <;> simp at ih ⊢ <;> omega

theorem sg_diffPairs (c : List Bool) : diffPairs c = altCount c * (c.length - altCount c) := by
  induction c with
  | nil => simp [diffPairs, altCount]
  | cons a c ih =>
    have hle := sg_altCount_le c
    rw [diffPairs, ih, sg_filter_ne, sg_altCount_cons]
    obtain ⟨D, hD⟩ : ∃ D, c.length = altCount c + D := ⟨c.length - altCount c, by omega⟩
    cases a
    · simp only [Bool.false_eq_true, if_false, List.length_cons, Nat.zero_add]
      rw [hD, show altCount c + D + 1 - altCount c = D + 1 by omega, show altCount c + D - altCount c = D by omega,
        Nat.mul_succ]
      omega
    · simp only [if_true, List.length_cons]
      rw [hD, show altCount c + D + 1 - (1 + altCount c) = D by omega, show altCount c + D - altCount c = D by omega,
        Nat.add_mul, Nat.one_mul]

theorem sg_diffBetween (c d : List Bool) :
    diffBetween c d = altCount c * (d.length - altCount d) + altCount d * (c.length - altCount c) := by
  induction c with
  | nil => simp [diffBetween, altCount]
  | cons a c ih =>
    have hle := sg_altCount_le c
    unfold diffBetween at ih ⊢
    rw [List.map_cons, List.sum_cons, ih, sg_filter_ne, sg_altCount_cons]
    obtain ⟨D, hD⟩ : ∃ D, c.length = altCount c + D := ⟨c.length - altCount c, by omega⟩
    cases a
    · simp only [Bool.false_eq_true, if_false, List.length_cons, Nat.zero_add]
      rw [hD, show altCount c + D + 1 - altCount c = D + 1 by omega, show altCount c + D - altCount c = D by omega,
        Nat.mul_succ]
      omega
    · simp only [if_true, List.length_cons]
      rw [hD, show altCount c + D + 1 - (1 + altCount c) = D by omega, show altCount c + D - altCount c = D by omega,
        Nat.add_mul, Nat.one_mul]
      omega

/-! ### from `create` to its sites -/

/-- the site of one record, as `sitesOf` selects it -/
def sgSite (cfg : SiteCfg) (r : Rec) : Option (List Nat) :=
  match r with
  | .gts _ _ l => match siteSpec cfg l with
    | some (.standard k) => some k
    | _ => none
  | .corrupt _ _ => none

theorem sg_sitesOf (cfg : SiteCfg) (recs : List Rec) : sitesOf cfg recs = recs.filterMap (sgSite cfg) := rfl

theorem sg_site_iff (cfg : SiteCfg) (hnp : cfg.projectTo = none) (r : Rec) (hok : recOk cfg r = true) (k : List Nat) :
    sgSite cfg r = some k ↔ countsAt cfg k r = true := by
  cases r with
  | corrupt a b => simp [sgSite, countsAt, gtsOf]
  | gts a b l =>
    unfold recOk at hok
    simp only [sgSite, countsAt, gtsOf] at hok ⊢
    rw [siteSpec_noproj cfg hnp l] at hok ⊢
    cases hp : hasPloidyError (selected cfg.map cfg.cols l)
    · cases hcmp : complete (selected cfg.map cfg.cols l) <;> simp
    · rw [hp] at hok; simp at hok

theorem sg_count_filterMap {β γ} [BEq γ] [LawfulBEq γ] [DecidableEq γ] (g : β → Option γ) (k : γ) (l : List β) :
    (l.filterMap g).count k = (l.filter (fun r => decide (g r = some k))).length := by
  induction l with
  | nil => simp
  | cons r l ih =>
    rw [List.filterMap_cons, List.filter_cons]
    cases hg : g r with
    | none => simp [ih]
    | some k' =>
      simp only [List.count_cons, ih]
      by_cases e : k' = k
      · simp [e]
      · simp [e]

theorem sg_sitesOf_count (cfg : SiteCfg) (hnp : cfg.projectTo = none) (recs : List Rec)
    (hok : ∀ r ∈ recs, recOk cfg r = true) (k : List Nat) :
    (sitesOf cfg recs).count k = (recs.filter (countsAt cfg k)).length := by
  rw [sg_sitesOf, sg_count_filterMap]
  congr 1
  apply List.filter_congr
  intro r hr
  have := sg_site_iff cfg hnp r (hok r hr) k
  by_cases h : countsAt cfg k r = true
  · simp [h, this.mpr h]
  · simp [h, mt this.mp h]

theorem sg_sitesOf_inB (cfg : SiteCfg) (hnd : cfg.cols.Nodup) (hnp : cfg.projectTo = none) (recs : List Rec)
    (hwf : ∀ r ∈ recs, RecWf cfg r) (hok : ∀ r ∈ recs, recOk cfg r = true) :
    ∀ k ∈ sitesOf cfg recs, InB cfg.outShape k := by
  intro k hk
  rw [sg_sitesOf, List.mem_filterMap] at hk
  obtain ⟨r, hr, hs⟩ := hk
  have hc := (sg_site_iff cfg hnp r (hok r hr) k).mp hs
  have hw := hwf r hr
  cases r with
  | corrupt a b => simp [countsAt, gtsOf] at hc
  | gts a b l =>
    simp only [countsAt, gtsOf, decide_eq_true_eq] at hc
    rw [← hc.2]
    exact alt_in_bounds cfg hnd hnp l hw.1 hw.2

end Sfs
