/-
Helper lemmas for Props/C12B.lean (BcfCodec): the BCF decoder model inverts the BCF encoder model — length words,
one record (shared block, per-sample GT block), the record loop, the whole file.
-/
import SfsModel.Lemmas.VcfHeader
namespace Sfs

/-! ## little-endian words, `takeN` -/

theorem leNat_toLe32 (n : Nat) (h : n < 2 ^ 32) : leNat (toLe32 n) = n := by
  simp only [toLe32, leNat]; omega

theorem toLe32_length (n : Nat) : (toLe32 n).length = 4 := rfl

theorem takeN_append (a b : List Nat) : takeN a.length (a ++ b) = some (a, b) := by
  simp [takeN]

theorem takeN_append_of_eq (n : Nat) (a b : List Nat) (h : n = a.length) : takeN n (a ++ b) = some (a, b) := by
  subst h; exact takeN_append a b

/-! ## the GT block -/

theorem bcfGtRes_render (g : GtRes) (h : WfGt g) : bcfGtRes (renderGtBcf g) = some g := by
  cases g with
  | genotype k =>
    have hk : k ≤ 2 := h
    match k, hk with
    | 0, _ => decide
    | 1, _ => decide
    | 2, _ => decide
  | skipped s => cases s <;> decide
  | ploidyError => decide

theorem renderGtBcf_pair (g : GtRes) : ∃ a b, renderGtBcf g = [a, b] := by
  cases g with
  | genotype k =>
    match k with
    | 0 => exact ⟨_, _, rfl⟩
    | 1 => exact ⟨_, _, rfl⟩
    | _ + 2 => exact ⟨_, _, rfl⟩
  | skipped s => cases s <;> exact ⟨_, _, rfl⟩
  | ploidyError => exact ⟨_, _, rfl⟩

theorem flatMap_renderGtBcf_length (gts : List GtRes) : (gts.flatMap renderGtBcf).length = 2 * gts.length := by
  induction gts with
  | nil => rfl
  | cons g gs ih =>
    obtain ⟨a, b, hab⟩ := renderGtBcf_pair g
    simp only [List.flatMap_cons, List.length_append, ih, hab, List.length_cons, List.length_nil]; omega

theorem chunksOf_render (gts : List GtRes) :
    chunksOf 2 gts.length (gts.flatMap renderGtBcf) = gts.map renderGtBcf := by
  induction gts with
  | nil => rfl
  | cons g gs ih =>
    obtain ⟨a, b, hab⟩ := renderGtBcf_pair g
    simp only [List.flatMap_cons, List.length_cons, chunksOf, hab, List.map_cons]
    simp only [List.cons_append, List.nil_append, List.take_succ_cons, List.take_zero, List.drop_succ_cons, List.drop_zero, ih]

theorem mapM_bcfGtRes_render (gts : List GtRes) (hw : ∀ g ∈ gts, WfGt g) :
    (gts.map renderGtBcf).mapM bcfGtRes = some gts := by
  induction gts with
  | nil => rfl
  | cons g gs ih =>
    have h1 := bcfGtRes_render g (hw g (by simp))
    have h2 := ih (fun x hx => hw x (by simp [hx]))
    simp [List.mapM_cons, h1, h2]

theorem bcfIndiv_render (gts : List GtRes) (hw : ∀ g ∈ gts, WfGt g) :
    bcfIndiv (some 1) [some "PASS", some "GT"] gts.length 1 ([0x11, 1, 0x21] ++ gts.flatMap renderGtBcf) = some gts := by
  have hlen := flatMap_renderGtBcf_length gts
  have ht : takeN (gts.length * 2) (gts.flatMap renderGtBcf) = some (gts.flatMap renderGtBcf, []) := by
    have := takeN_append_of_eq (gts.length * 2) (gts.flatMap renderGtBcf) [] (by omega)
    simpa using this
  simp [bcfIndiv, bcfIndivGo, bcfTypedInt, bcfDescriptor, bcfTypeSize, ht, chunksOf_render, mapM_bcfGtRes_render gts hw]

/-! ## one record -/

theorem bcfRecord_encode (h : VcfHeader) (ci pos : Nat) (contig : String) (gts : List GtRes)
    (hci : ci < 2 ^ 31) (hpos : pos < 2 ^ 31 - 1) (hn : gts.length < 2 ^ 24) (hs : h.samples.length = gts.length)
    (hc : h.contigs[ci]? = some (some contig)) (hstr : h.strings = [some "PASS", some "GT"]) (hw : ∀ g ∈ gts, WfGt g) :
    bcfRecord h (toLe32 ci ++ toLe32 pos ++ toLe32 1 ++ [0x01, 0x00, 0x80, 0x7f] ++ toLe32 (2 * 65536) ++
        toLe32 (16777216 + gts.length) ++ [0x07, 0x17, 65, 0x17, 67, 0x00])
      ([0x11, 1, 0x21] ++ gts.flatMap renderGtBcf) = some (Rec.gts contig (pos + 1) gts) := by
  have e1 : leNat [ci % 256, ci / 256 % 256, ci / 65536 % 256, ci / 16777216 % 256] = ci := by
    simp only [leNat]; omega
  have e2 : leNat [pos % 256, pos / 256 % 256, pos / 65536 % 256, pos / 16777216 % 256] = pos := by
    simp only [leNat]; omega
  have e3 : leNat [(16777216 + gts.length) % 256, (16777216 + gts.length) / 256 % 256,
      (16777216 + gts.length) / 65536 % 256] = gts.length := by
    simp only [leNat]; omega
  have e4 : (16777216 + gts.length) / 16777216 % 256 = 1 := by omega
  have c3 : ¬ ci / 16777216 % 256 ≥ 128 := by omega
  have p3 : ¬ pos / 16777216 % 256 ≥ 128 := by omega
  have p4 : ¬ pos ≥ 2 ^ 31 - 1 := by omega
  have hi := bcfIndiv_render gts hw
  simp only [List.cons_append, List.nil_append] at hi
  have hidx : ([some "PASS", some "GT"] : List (Option String)).idxOf? (some "GT") = some 1 := by decide
  have htl : bcfSharedTailOk (leNat [2 * 65536 / 65536 % 256, 2 * 65536 / 16777216 % 256])
      (leNat [2 * 65536 % 256, 2 * 65536 / 256 % 256]) [0x07, 0x17, 65, 0x17, 67, 0x00] = true := by decide
  have hal : ¬ leNat [2 * 65536 / 65536 % 256, 2 * 65536 / 16777216 % 256] = 0 := by decide
  have hr3 : ¬ 1 / 16777216 % 256 ≥ 128 := by decide
  have hq : ¬ ([0x01, 0x00, 0x80, 0x7f] : List Nat) ≠ [0x01, 0x00, 0x80, 0x7f] := by decide
  have htk : ∀ (a : List Nat) (t : List Nat), a.length = 24 → takeN 24 (a ++ t) = some (a, t) :=
    fun a t ha => takeN_append_of_eq 24 a t ha.symm
  unfold bcfRecord
  rw [show toLe32 ci ++ toLe32 pos ++ toLe32 1 ++ [0x01, 0x00, 0x80, 0x7f] ++ toLe32 (2 * 65536) ++
      toLe32 (16777216 + gts.length) ++ [0x07, 0x17, 65, 0x17, 67, 0x00] =
    (toLe32 ci ++ toLe32 pos ++ toLe32 1 ++ [0x01, 0x00, 0x80, 0x7f] ++ toLe32 (2 * 65536) ++
      toLe32 (16777216 + gts.length)) ++ [0x07, 0x17, 65, 0x17, 67, 0x00] from rfl, htk _ _ rfl]
  simp only [toLe32, List.cons_append, List.nil_append, e1, e2, e3, e4, c3, p3, p4, hr3, hq, hal, htl, hs, hc, hstr, hidx,
    hi, Option.join_some, ne_eq, not_true_eq_false, or_self, if_false, Option.map_some, Bool.not_true, Bool.false_eq_true]

/-! ## the record loop -/

theorem bcfRecords_step (h : VcfHeader) (fuel : Nat) (shared indiv rest : List Nat) (r : Rec) (rs : List Rec)
    (hs : shared.length < 2 ^ 32) (hi : indiv.length < 2 ^ 32)
    (hr : bcfRecord h shared indiv = some r) (hrs : bcfRecords h fuel rest = some rs) :
    bcfRecords h (fuel + 1) (toLe32 shared.length ++ toLe32 indiv.length ++ shared ++ indiv ++ rest) =
      some (r :: rs) := by
  have e1 := leNat_toLe32 shared.length hs
  have e2 := leNat_toLe32 indiv.length hi
  simp only [toLe32] at e1 e2
  have t1 : takeN shared.length (shared ++ (indiv ++ rest)) = some (shared, indiv ++ rest) := takeN_append _ _
  have t2 : takeN indiv.length (indiv ++ rest) = some (indiv, rest) := takeN_append _ _
  simp only [toLe32, List.cons_append, List.nil_append, List.append_assoc, bcfRecords, List.isEmpty_cons,
    Bool.false_eq_true, if_false, e1, e2, t1, t2, hr, hrs]

theorem bcfEncodeRec_eq (contigs : List String) (ncols : Nat) (contig : String) (pos : Nat) (gts : List GtRes) :
    bcfEncodeRec contigs ncols contig pos gts =
      toLe32 (toLe32 (contigs.idxOf contig) ++ toLe32 (pos - 1) ++ toLe32 1 ++ [0x01, 0x00, 0x80, 0x7f] ++
          toLe32 (2 * 65536) ++ toLe32 (16777216 + ncols) ++ [0x07, 0x17, 65, 0x17, 67, 0x00]).length ++
        toLe32 ([0x11, 1, 0x21] ++ gts.flatMap renderGtBcf).length ++
        (toLe32 (contigs.idxOf contig) ++ toLe32 (pos - 1) ++ toLe32 1 ++ [0x01, 0x00, 0x80, 0x7f] ++
          toLe32 (2 * 65536) ++ toLe32 (16777216 + ncols) ++ [0x07, 0x17, 65, 0x17, 67, 0x00]) ++
        ([0x11, 1, 0x21] ++ gts.flatMap renderGtBcf) := rfl

theorem getElem?_idxOf_of_mem (l : List String) (s : String) (hm : s ∈ l) : l[l.idxOf s]? = some s := by
  have hlt : l.idxOf s < l.length := List.idxOf_lt_length_of_mem hm
  rw [List.getElem?_eq_getElem hlt]
  simp

theorem bcfRecords_encode (cols contigs : List String) (recs : List (String × Nat × List GtRes))
    (hn : cols.length < 2 ^ 24) (hc : contigs.length < 2 ^ 31)
    (hw : ∀ r ∈ recs, r.1 ∈ contigs ∧ 1 ≤ r.2.1 ∧ r.2.2.length = cols.length ∧ ∀ g ∈ r.2.2, WfGt g)
    (hp : ∀ r ∈ recs, r.2.1 < 2 ^ 31) (fuel : Nat) (hf : recs.length < fuel) :
    bcfRecords ⟨cols, contigs.map some, [some "PASS", some "GT"]⟩ fuel
      (recs.flatMap (fun r => bcfEncodeRec contigs cols.length r.1 r.2.1 r.2.2)) = some (toRecs recs) := by
  induction recs generalizing fuel with
  | nil =>
    match fuel, hf with
    | f + 1, _ => simp [bcfRecords, toRecs]
  | cons r rs ih =>
    match fuel, hf with
    | f + 1, hf =>
      obtain ⟨contig, pos, gts⟩ := r
      obtain ⟨hmem, hpos1, hlen, hgt⟩ := hw (contig, pos, gts) (by simp)
      have hpos2 := hp (contig, pos, gts) (by simp)
      simp only at hmem hpos1 hlen hgt hpos2
      have ih' := ih (fun x hx => hw x (by simp [hx])) (fun x hx => hp x (by simp [hx])) f
        (by simp only [List.length_cons] at hf; omega)
      have hidx : contigs.idxOf contig < contigs.length := List.idxOf_lt_length_of_mem hmem
      have hrec := bcfRecord_encode ⟨cols, contigs.map some, [some "PASS", some "GT"]⟩ (contigs.idxOf contig) (pos - 1) contig gts
        (by omega) (by omega) (by omega) hlen.symm
        (by simp only [List.getElem?_map, getElem?_idxOf_of_mem contigs contig hmem, Option.map_some]) rfl hgt
      have hposeq : pos - 1 + 1 = pos := by omega
      rw [hlen, hposeq] at hrec
      have hfl := flatMap_renderGtBcf_length gts
      simp only [List.flatMap_cons]
      rw [bcfEncodeRec_eq]
      rw [bcfRecords_step _ f _ _ _ _ _ (by simp [toLe32]) (by simp only [List.length_append, hfl]; simp; omega)
        hrec ih']
      simp [toRecs]

/-! ## the whole file -/

theorem length_le_flatMap_bcfEncodeRec (contigs : List String) (ncols : Nat) (recs : List (String × Nat × List GtRes)) :
    recs.length ≤ (recs.flatMap (fun r => bcfEncodeRec contigs ncols r.1 r.2.1 r.2.2)).length := by
  induction recs with
  | nil => simp
  | cons r rs ih =>
    simp only [List.flatMap_cons, List.length_append, List.length_cons]
    rw [bcfEncodeRec_eq]
    simp only [List.length_append, toLe32_length]
    omega

theorem bcfDecode_bcfEncode (cols contigs : List String) (recs : List (String × Nat × List GtRes))
    (h : WfCallSet cols contigs recs) (hs : FitsBcf cols contigs recs) :
    bcfDecode (bcfEncode cols contigs recs) = some (cols, toRecs recs) := by
  have hhdr := parseVcfHeaderLines_headerText cols contigs h.cols_ne h.cols_wf h.cols_nodup h.contigs_wf h.contigs_nodup []
  rw [List.append_nil] at hhdr
  have htext := hs.text
  have hlenText : (headerText cols contigs ++ [0]).length = (headerText cols contigs).length + 1 := by simp
  have e1 := leNat_toLe32 (headerText cols contigs ++ [0]).length (by rw [hlenText]; exact htext)
  simp only [toLe32] at e1
  have t1 := takeN_append (headerText cols contigs ++ [0])
    (recs.flatMap (fun r => bcfEncodeRec contigs cols.length r.1 r.2.1 r.2.2))
  have hrecs := bcfRecords_encode cols contigs recs hs.ncols hs.ncontigs h.recs_wf hs.pos
    ((recs.flatMap (fun r => bcfEncodeRec contigs cols.length r.1 r.2.1 r.2.2)).length + 1) (by
      have := length_le_flatMap_bcfEncodeRec contigs cols.length recs; omega)
  simp only [bcfEncode, toLe32, List.cons_append, List.nil_append, bcfDecode, e1, t1]
  have hl : (headerText cols contigs ++ [0]).getLast? = some 0 := by simp
  have hd : (headerText cols contigs ++ [0]).dropLast = headerText cols contigs := by simp
  simp only [hl, hd, hhdr, hrecs, ne_eq, not_true_eq_false, and_false, if_false, Option.map_some]

end Sfs
