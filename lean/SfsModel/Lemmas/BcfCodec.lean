/-
Helper lemmas for Props/C12B.lean (BcfCodec).
-/
import SfsModel.Model.Container
namespace Sfs

end Sfs
