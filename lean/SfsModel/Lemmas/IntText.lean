/-
Helper lemmas for C06E (integers through the text format).
-/
import SfsModel.Lemmas.TextValue
namespace Sfs

end Sfs
