/-
Helper lemmas for C06E (integers through the text format).
-/
import SfsModel.Lemmas.TextValue
import SfsModel.Lemmas.NpyDecode
namespace Sfs

/-- the body of `f64BitsOfRatNonneg` on a numerator / denominator pair. -/
def it_core (num den : Nat) : Nat :=
  let e0 : Int := (log2Nat num : Int) - (log2Nat den : Int)
  let ge (e : Int) : Bool := if e ≥ 0 then num ≥ den * 2 ^ e.toNat else num * 2 ^ (-e).toNat ≥ den
  let e : Int := if ge e0 then (if ge (e0 + 1) then e0 + 1 else e0) else e0 - 1
  let eeff : Int := if e < -1022 then -1022 else e
  let sh : Int := eeff - 52
  let (n2, d2) : Nat × Nat := if sh ≥ 0 then (num, den * 2 ^ sh.toNat) else (num * 2 ^ (-sh).toNat, den)
  let qf := n2 / d2
  let r := n2 % d2
  let m := if 2 * r > d2 then qf + 1 else if 2 * r < d2 then qf else (if qf % 2 = 1 then qf + 1 else qf)
  if e < -1022 then m
  else
    let (m, ee) := if m = 2 ^ 53 then (2 ^ 52, eeff + 1) else (m, eeff)
    if ee > 1023 then 2047 * 2 ^ 52
    else ((ee + 1023).toNat) * 2 ^ 52 + (m - 2 ^ 52)

theorem it_nonneg_eq (q : Rat) (hq : 0 < q) : f64BitsOfRatNonneg q = it_core q.num.natAbs q.den := by
  unfold f64BitsOfRatNonneg it_core
  rw [if_neg (not_le.2 hq)]

theorem it_log2_one : log2Nat 1 = 0 := by decide

theorem it_core_int (n : Nat) (hn : n ≠ 0) (he : Nat.log2 n ≤ 52) :
    it_core n 1 = (1023 + Nat.log2 n) * 2 ^ 52 + (n * 2 ^ (52 - Nat.log2 n) - 2 ^ 52) := by
  obtain ⟨l1, l2⟩ := log2_bounds n hn
  obtain ⟨b1, b2⟩ := normalise_bounds n 52 hn he
  unfold it_core
  rw [it_log2_one]
  unfold log2Nat
  generalize Nat.log2 n = L at *
  extract_lets e0 ge e eeff sh
  have he0 : e0 = (L : Int) := by simp only [e0]; omega
  have hge0 : ge e0 = true := by
    simp only [ge, he0]
    rw [if_pos (by omega), Int.toNat_natCast, Nat.one_mul]
    exact decide_eq_true l1
  have hge1 : ge (e0 + 1) = false := by
    simp only [ge, he0]
    rw [if_pos (by omega), show ((L : Int) + 1).toNat = L + 1 by omega, Nat.one_mul]
    exact decide_eq_false (by omega)
  have hee : e = (L : Int) := by simp only [e]; rw [if_pos hge0, if_neg (by rw [hge1]; decide)]; exact he0
  have heeff : eeff = (L : Int) := by simp only [eeff, hee]; rw [if_neg (by omega)]
  have hsh : sh = (L : Int) - 52 := by simp only [sh, heeff]
  have hpair : (if sh ≥ 0 then (n, 1 * 2 ^ sh.toNat) else (n * 2 ^ (-sh).toNat, 1)) = (n * 2 ^ (52 - L), 1) := by
    by_cases h52 : L = 52
    · rw [if_pos (by omega), show sh.toNat = 0 by omega, h52]; simp
    · rw [if_neg (by omega), show (-sh).toNat = 52 - L by omega]
  have hnl : ¬ (e < -1022) := by omega
  clear_value sh e ge e0
  rw [hpair]
  generalize n * 2 ^ (52 - L) = M at *
  dsimp only
  rw [if_neg hnl]
  simp only [Nat.mod_one, Nat.div_one, Nat.mul_zero]
  rw [if_neg (show ¬ (0 > 1) by omega), if_pos (show 0 < 1 by omega), if_neg (show ¬ M = 2 ^ 53 by omega)]
  dsimp only
  rw [if_neg (show ¬ eeff > 1023 by omega), show (eeff + 1023).toNat = 1023 + L by omega]

theorem it_log2_le (n : Nat) (h0 : n ≠ 0) (hn : n < 2 ^ 53) : Nat.log2 n ≤ 52 := by
  have : Nat.log2 n < 53 := (Nat.log2_lt h0).mpr hn
  omega

theorem it_nonneg_nat (n : Nat) (hn : n < 2 ^ 53) : f64BitsOfRatNonneg (n : Rat) = f64BitsOfNat false n := by
  by_cases h0 : n = 0
  · subst h0
    rw [f64BitsOfRatNonneg_zero _ (by simp)]
    simp [f64BitsOfNat]
  · have hL := it_log2_le n h0 hn
    have hpos : (0 : Rat) < (n : Rat) := by exact_mod_cast Nat.pos_of_ne_zero h0
    rw [it_nonneg_eq _ hpos, Rat.num_natCast, Int.natAbs_natCast, Rat.den_natCast, it_core_int n h0 hL]
    unfold f64BitsOfNat log2Nat
    simp only [h0, if_false, hL, if_true, Bool.false_eq_true, Nat.zero_add]

/-- a count below 2^53 has the same pattern whether converted as a rational or as an integer. -/
theorem it_bitsOfRat_nat (n : Nat) (hn : n < 2 ^ 53) : f64BitsOfRat (n : Rat) = f64BitsOfNat false n := by
  unfold f64BitsOfRat
  rw [if_neg (not_lt.2 (Nat.cast_nonneg n))]
  exact it_nonneg_nat n hn

theorem it_bitsOfNat_lt (n : Nat) (hn : n < 2 ^ 53) : f64BitsOfNat false n < 2 ^ 63 := by
  by_cases h0 : n = 0
  · subst h0; simp [f64BitsOfNat]
  · have hL := it_log2_le n h0 hn
    obtain ⟨b1, b2⟩ := normalise_bounds n 52 h0 hL
    unfold f64BitsOfNat log2Nat
    simp only [h0, if_false, hL, if_true, Bool.false_eq_true, Nat.zero_add]
    omega

theorem it_bits_lt (n : Nat) (hn : n < 2 ^ 53) : f64BitsOfRat (n : Rat) < 2 ^ 63 := by
  rw [it_bitsOfRat_nat n hn]; exact it_bitsOfNat_lt n hn

theorem it_sign (n : Nat) (hn : n < 2 ^ 53) : f64Sign (f64BitsOfRat (n : Rat)) = false := by
  have := it_bits_lt n hn
  unfold f64Sign
  rw [Nat.div_eq_of_lt this]
  rfl

theorem it_value (n : Nat) (hn : n < 2 ^ 53) : f64OfBits (f64BitsOfRat (n : Rat)) = .fin (n : Rat) := by
  rw [it_bitsOfRat_nat n hn]
  exact f64OfBits_ofNat_unsigned n (by omega)

theorem it_roundHE_one (m : Nat) : roundHE m 1 = m := by
  unfold roundHE
  simp only [Nat.mod_one, Nat.div_one, Nat.mul_zero]
  rw [if_neg (show ¬ (0 > 1) by omega), if_pos (show 0 < 1 by omega)]

theorem it_absRat_nat (n : Nat) : absRat (n : Rat) = (n : Rat) := absRat_of_nonneg _ (Nat.cast_nonneg n)

theorem it_prints (n : Nat) (hn : n < 2 ^ 53) : fmtFixed (f64BitsOfRat (n : Rat)) 0 = Nat.toDigits 10 n := by
  rw [fmtFixed_fin _ 0 _ (it_value n hn), it_sign n hn, it_absRat_nat, fmtRatFixed_eq, Rat.num_natCast,
    Int.natAbs_natCast, Rat.den_natCast, Nat.pow_zero, Nat.mul_one, it_roundHE_one]
  simp [fmtScaled]

theorem it_roundtrip (n : Nat) (hn : n < 2 ^ 53) :
    parseF64 (fmtFixed (f64BitsOfRat (n : Rat)) 0) = some (f64BitsOfRat (n : Rat)) := by
  rw [parseF64_fmtFixed_fin _ 0 _ (it_value n hn), it_sign n hn, it_absRat_nat, Rat.num_natCast,
    Int.natAbs_natCast, Rat.den_natCast, Nat.pow_zero, Nat.mul_one, it_roundHE_one, Nat.cast_one, div_one]
  simp only [Bool.false_eq_true, if_false, Nat.zero_add]
  congr 1
  unfold f64BitsOfRat
  rw [if_neg (not_lt.2 (Nat.cast_nonneg n))]

theorem it_map_some_inj {α} (l1 l2 : List α) (h : l1.map some = l2.map some) : l1 = l2 := by
  induction l1 generalizing l2 with
  | nil => cases l2 with
    | nil => rfl
    | cons _ _ => cases h
  | cons a r ih => cases l2 with
    | nil => cases h
    | cons b r2 =>
      simp only [List.map_cons, List.cons.injEq, Option.some.injEq] at h
      rw [h.1, ih r2 h.2]

/-- `counts.map (fun c => g (c : Rat))` with an unannotated binder elaborates to a map over the list coerced through the
    `List` monad; this is the plain map over the casts. -/
theorem it_coe (counts : List Nat) :
    (counts >>= fun (a : Nat) => (pure (a : Rat) : List Rat)) = List.map (fun (a : Nat) => (a : Rat)) counts := by
  induction counts with
  | nil => rfl
  | cons a r ih => simpa using ih

theorem it_map_coe (counts : List Nat) (f : Rat → Nat) :
    List.map f (counts >>= fun (a : Nat) => (pure (a : Rat) : List Rat)) =
      List.map (fun (a : Nat) => f (a : Rat)) counts := by
  rw [it_coe, List.map_map]; rfl

end Sfs
