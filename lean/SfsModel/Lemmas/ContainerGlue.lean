/-
Helper lemmas for Props/C12B.lean (ContainerGlue): the block partition `chunkBytes`, the first bytes and the value range of
the plain encoders, detection on an encoded container and decoding of an encoded container given the codec round trips.
-/
import SfsModel.Lemmas.Inflate
import SfsModel.Lemmas.VcfHeader
import SfsModel.Lemmas.Detect
namespace Sfs

/-! ## value ranges -/

/-- every value of the list is below `N` (`IsBytes = AllLt 256`) -/
def AllLt (N : Nat) (l : List Nat) : Prop := ∀ b ∈ l, b < N

theorem isBytes_iff_allLt (l : List Nat) : IsBytes l ↔ AllLt 256 l := Iff.rfl

theorem AllLt.mono {N M : Nat} {l : List Nat} (h : AllLt N l) (hNM : N ≤ M) : AllLt M l :=
  fun b hb => Nat.lt_of_lt_of_le (h b hb) hNM

theorem AllLt.append {N : Nat} {a b : List Nat} (ha : AllLt N a) (hb : AllLt N b) : AllLt N (a ++ b) := by
  intro x hx
  rcases List.mem_append.1 hx with h | h
  · exact ha x h
  · exact hb x h

theorem AllLt.cons {N a : Nat} {l : List Nat} (ha : a < N) (hl : AllLt N l) : AllLt N (a :: l) := by
  intro x hx
  rcases List.mem_cons.1 hx with rfl | h
  · exact ha
  · exact hl x h

theorem AllLt.nil {N : Nat} : AllLt N [] := by
  intro x hx; simp at hx

theorem AllLt.flatMap {α : Type} {N : Nat} (xs : List α) (f : α → List Nat) (h : ∀ x ∈ xs, AllLt N (f x)) :
    AllLt N (xs.flatMap f) := by
  intro b hb
  obtain ⟨x, hx, hbx⟩ := List.mem_flatMap.1 hb
  exact h x hx b hbx

theorem allLt_toLe32 (n : Nat) : AllLt 256 (toLe32 n) := by
  intro b hb
  simp only [toLe32, List.mem_cons, List.not_mem_nil, or_false] at hb
  omega

theorem allLt_natBytes (n : Nat) : AllLt 256 (natBytes n) := by
  intro b hb
  simp only [natBytes, List.mem_map] at hb
  obtain ⟨c, hc, rfl⟩ := hb
  have h : c.isDigit = true := Nat.isDigit_of_mem_toDigits (by decide) (by decide) hc
  simp only [Char.isDigit, Bool.and_eq_true, decide_eq_true_eq] at h
  have h2 : c.val ≤ '9'.val := h.2
  rw [UInt32.le_iff_toNat_le] at h2
  have : c.toNat ≤ 57 := h2
  omega

theorem allLt_renderGt (g : GtRes) : AllLt 256 (renderGt g) := by
  unfold renderGt
  split <;> (show ∀ b ∈ _, b < 256) <;> decide

theorem allLt_renderGtBcf (g : GtRes) : AllLt 256 (renderGtBcf g) := by
  unfold renderGtBcf
  split <;> (show ∀ b ∈ _, b < 256) <;> decide

/-- a code point is below 2³² -/
theorem allLt_strBytes_wide (s : String) : AllLt (2 ^ 32) (strBytes s) := by
  intro b hb
  obtain ⟨c, _, rfl⟩ := mem_strBytes.1 hb
  exact UInt32.toNat_lt c.val

theorem allLt_strBytes_name {s : String} (h : WfName s) : AllLt 256 (strBytes s) := by
  intro b hb
  obtain ⟨c, hc, rfl⟩ := mem_strBytes.1 hb
  have := (h.2 c hc).1
  omega

theorem allLt_strBytes_contig {s : String} (h : WfContig s) : AllLt 256 (strBytes s) := by
  intro b hb
  have := wfContig_bytes h hb
  omega

theorem allLt_joinTab {N : Nat} (hN : 256 ≤ N) (ls : List (List Nat)) (h : ∀ l ∈ ls, AllLt N l) : AllLt N (joinTab ls) := by
  intro b hb
  rcases mem_joinTab hb with rfl | ⟨l, hl, hbl⟩
  · omega
  · exact h l hl b hbl

theorem allLt_headerText {N : Nat} (hN : 256 ≤ N) (cols contigs : List String)
    (hcols : ∀ s ∈ cols, AllLt N (strBytes s)) (hctg : ∀ s ∈ contigs, AllLt N (strBytes s)) :
    AllLt N (headerText cols contigs) := by
  have l1 : AllLt 256 (strBytes "##fileformat=VCFv4.3\n") := by show ∀ b ∈ _, b < 256; decide
  have l2 : AllLt 256 (strBytes "##contig=<ID=") := by show ∀ b ∈ _, b < 256; decide
  have l3 : AllLt 256 (strBytes ">\n") := by show ∀ b ∈ _, b < 256; decide
  have l4 : AllLt 256 (strBytes "##FORMAT=<ID=GT,Number=1,Type=String,Description=\"Genotype\">\n") := by
    show ∀ b ∈ _, b < 256; decide
  have l5 : AllLt 256 chromLinePrefix := by show ∀ b ∈ _, b < 256; decide
  unfold headerText
  refine AllLt.append (AllLt.append (AllLt.append (AllLt.append (AllLt.append (l1.mono hN) ?_) (l4.mono hN)) (l5.mono hN))
    (allLt_joinTab hN _ ?_)) (AllLt.cons (by omega) AllLt.nil)
  · exact AllLt.flatMap _ _ (fun c hc => AllLt.append (AllLt.append (l2.mono hN) (hctg c hc)) (l3.mono hN))
  · intro l hl
    obtain ⟨s, hs, rfl⟩ := List.mem_map.1 hl
    exact hcols s hs

theorem allLt_vcfEncodeRec {N : Nat} (hN : 256 ≤ N) (contig : String) (pos : Nat) (gts : List GtRes)
    (hc : AllLt N (strBytes contig)) : AllLt N (vcfEncodeRec contig pos gts) := by
  have l1 : AllLt 256 (strBytes "\t.\tA\tC\t.\t.\t.\tGT") := by show ∀ b ∈ _, b < 256; decide
  unfold vcfEncodeRec
  refine AllLt.append (AllLt.append (AllLt.append (AllLt.append (AllLt.append hc ?_) ((allLt_natBytes pos).mono hN))
    (l1.mono hN)) ?_) (AllLt.cons (by omega) AllLt.nil)
  · exact AllLt.cons (by omega) AllLt.nil
  · exact AllLt.flatMap _ _ (fun g _ => AllLt.cons (by omega) ((allLt_renderGt g).mono hN))

theorem allLt_vcfEncode {N : Nat} (hN : 256 ≤ N) (cols contigs : List String) (recs : List (String × Nat × List GtRes))
    (hcols : ∀ s ∈ cols, AllLt N (strBytes s)) (hctg : ∀ s ∈ contigs, AllLt N (strBytes s))
    (hrec : ∀ r ∈ recs, AllLt N (strBytes r.1)) : AllLt N (vcfEncode cols contigs recs) := by
  unfold vcfEncode
  exact AllLt.append (allLt_headerText hN cols contigs hcols hctg)
    (AllLt.flatMap _ _ (fun r hr => allLt_vcfEncodeRec hN r.1 r.2.1 r.2.2 (hrec r hr)))

theorem allLt_bcfEncodeRec (contigs : List String) (ncols : Nat) (contig : String) (pos : Nat) (gts : List GtRes) :
    AllLt 256 (bcfEncodeRec contigs ncols contig pos gts) := by
  have l1 : AllLt 256 [0x01, 0x00, 0x80, 0x7f] := by show ∀ b ∈ _, b < 256; decide
  have l2 : AllLt 256 [0x07, 0x17, 65, 0x17, 67, 0x00] := by show ∀ b ∈ _, b < 256; decide
  have l3 : AllLt 256 [0x11, 1, 0x21] := by show ∀ b ∈ _, b < 256; decide
  unfold bcfEncodeRec
  dsimp only
  have hshared : AllLt 256 (toLe32 (contigs.idxOf contig) ++ toLe32 (pos - 1) ++ toLe32 1 ++ [0x01, 0x00, 0x80, 0x7f] ++
      toLe32 (2 * 65536) ++ toLe32 (16777216 + ncols) ++ [0x07, 0x17, 65, 0x17, 67, 0x00]) :=
    AllLt.append (AllLt.append (AllLt.append (AllLt.append (AllLt.append (AllLt.append (allLt_toLe32 _) (allLt_toLe32 _))
      (allLt_toLe32 _)) l1) (allLt_toLe32 _)) (allLt_toLe32 _)) l2
  have hindiv : AllLt 256 ([0x11, 1, 0x21] ++ gts.flatMap renderGtBcf) :=
    AllLt.append l3 (AllLt.flatMap _ _ (fun g _ => allLt_renderGtBcf g))
  exact AllLt.append (AllLt.append (AllLt.append (allLt_toLe32 _) (allLt_toLe32 _)) hshared) hindiv

theorem allLt_bcfEncode {N : Nat} (hN : 256 ≤ N) (cols contigs : List String) (recs : List (String × Nat × List GtRes))
    (hcols : ∀ s ∈ cols, AllLt N (strBytes s)) (hctg : ∀ s ∈ contigs, AllLt N (strBytes s)) :
    AllLt N (bcfEncode cols contigs recs) := by
  have l1 : AllLt 256 [66, 67, 70, 2, 2] := by show ∀ b ∈ _, b < 256; decide
  unfold bcfEncode
  dsimp only
  refine AllLt.append (AllLt.append (AllLt.append (l1.mono hN) ((allLt_toLe32 _).mono hN)) ?_) ?_
  · exact AllLt.append (allLt_headerText hN cols contigs hcols hctg) (AllLt.cons (by omega) AllLt.nil)
  · exact AllLt.flatMap _ _ (fun r _ => (allLt_bcfEncodeRec contigs cols.length r.1 r.2.1 r.2.2).mono hN)

/-- whatever the names, the encoders write values below 2³² (code points) -/
theorem allLt_vcfEncode_wide (cols contigs : List String) (recs : List (String × Nat × List GtRes)) :
    AllLt (2 ^ 32) (vcfEncode cols contigs recs) :=
  allLt_vcfEncode (by omega) cols contigs recs (fun s _ => allLt_strBytes_wide s) (fun s _ => allLt_strBytes_wide s)
    (fun r _ => allLt_strBytes_wide r.1)

theorem allLt_bcfEncode_wide (cols contigs : List String) (recs : List (String × Nat × List GtRes)) :
    AllLt (2 ^ 32) (bcfEncode cols contigs recs) :=
  allLt_bcfEncode (by omega) cols contigs recs (fun s _ => allLt_strBytes_wide s) (fun s _ => allLt_strBytes_wide s)

/-- for a well-formed call set the VCF text consists of bytes -/
theorem isBytes_vcfEncode (cols contigs : List String) (recs : List (String × Nat × List GtRes))
    (h : WfCallSet cols contigs recs) : IsBytes (vcfEncode cols contigs recs) :=
  allLt_vcfEncode (Nat.le_refl _) cols contigs recs (fun s hs => allLt_strBytes_name (h.cols_wf s hs))
    (fun s hs => allLt_strBytes_contig (h.contigs_wf s hs))
    (fun r hr => allLt_strBytes_contig (h.contigs_wf r.1 (h.recs_wf r hr).1))

theorem isBytes_bcfEncode (cols contigs : List String) (recs : List (String × Nat × List GtRes))
    (h : WfCallSet cols contigs recs) : IsBytes (bcfEncode cols contigs recs) :=
  allLt_bcfEncode (Nat.le_refl _) cols contigs recs (fun s hs => allLt_strBytes_name (h.cols_wf s hs))
    (fun s hs => allLt_strBytes_contig (h.contigs_wf s hs))

/-! ## first bytes of the encoders -/

theorem vcfEncode_head (cols contigs : List String) (recs : List (String × Nat × List GtRes)) :
    ∃ rest, vcfEncode cols contigs recs = 35 :: 35 :: 102 :: rest := by
  have e : strBytes "##fileformat=VCFv4.3\n" = 35 :: 35 :: 102 :: (strBytes "##fileformat=VCFv4.3\n").drop 3 := by decide
  unfold vcfEncode headerText
  rw [e]
  exact ⟨_, by simp only [List.cons_append]; rfl⟩

theorem bcfEncode_head (cols contigs : List String) (recs : List (String × Nat × List GtRes)) :
    ∃ rest, bcfEncode cols contigs recs = 66 :: 67 :: 70 :: rest := by
  unfold bcfEncode
  exact ⟨_, by simp only [List.cons_append]; rfl⟩

theorem take3_cons3 (a b c : Nat) (rest : List Nat) (n : Nat) :
    (a :: b :: c :: rest).take (n + 3) = a :: b :: c :: rest.take n := rfl

/-! ## the block partition -/

theorem chunkBytes_flatten (n : Nat) (hn : 1 ≤ n) : ∀ (fuel : Nat) (l : List Nat), l.length ≤ fuel →
    (chunkBytes n fuel l).flatten = l := by
  intro fuel
  induction fuel with
  | zero =>
    intro l h
    have : l = [] := List.eq_nil_of_length_eq_zero (by omega)
    subst this; rfl
  | succ f ih =>
    intro l h
    rw [chunkBytes]
    split
    · next he => rw [List.isEmpty_iff.1 he]; rfl
    · next he =>
      have hne : l ≠ [] := fun e => he (by rw [e]; rfl)
      have hpos : 0 < l.length := List.length_pos_iff.2 hne
      rw [List.flatten_cons, ih (l.drop n) (by rw [List.length_drop]; omega), List.take_append_drop]

theorem chunkBytes_mem (n : Nat) : ∀ (fuel : Nat) (l : List Nat), ∀ c ∈ chunkBytes n fuel l,
    c.length ≤ n ∧ ∀ b ∈ c, b ∈ l := by
  intro fuel
  induction fuel with
  | zero => intro l c hc; simp [chunkBytes] at hc
  | succ f ih =>
    intro l c hc
    rw [chunkBytes] at hc
    split at hc
    · simp at hc
    · rcases List.mem_cons.1 hc with rfl | hc'
      · exact ⟨by rw [List.length_take]; omega, fun b hb => List.mem_of_mem_take hb⟩
      · obtain ⟨h1, h2⟩ := ih _ c hc'
        exact ⟨h1, fun b hb => List.mem_of_mem_drop (h2 b hb)⟩

theorem chunkBytes_head (n : Nat) (hn : 3 ≤ n) (l : List Nat) (hl : 3 ≤ l.length) :
    ∃ c cs, chunkBytes n l.length l = c :: cs ∧ 3 ≤ c.length ∧ c.length ≤ n ∧ c.take 3 = l.take 3 ∧ ∀ b ∈ c, b ∈ l := by
  obtain ⟨f, hf⟩ : ∃ f, l.length = f + 1 := ⟨l.length - 1, by omega⟩
  have hne : l.isEmpty = false := by
    cases l with
    | nil => simp at hl
    | cons a t => rfl
  refine ⟨l.take n, chunkBytes n f (l.drop n), ?_, ?_, ?_, ?_, ?_⟩
  · rw [hf, chunkBytes, hne]; rfl
  · rw [List.length_take]; omega
  · rw [List.length_take]; omega
  · rw [List.take_take, Nat.min_eq_left hn]
  · exact fun b hb => List.mem_of_mem_take hb

/-! ## gzip peek with code-point values (`detect_encoded` carries no well-formedness hypothesis) -/

theorem crcByte_lt_wide (c b : Nat) (h : c < 2 ^ 32) (hb : b < 2 ^ 32) : crcByte c b < 2 ^ 32 := by
  unfold crcByte
  have h0 : c ^^^ b < 2 ^ 32 := Nat.xor_lt_two_pow h hb
  exact crcStep_lt _ (crcStep_lt _ (crcStep_lt _ (crcStep_lt _ (crcStep_lt _ (crcStep_lt _ (crcStep_lt _
    (crcStep_lt _ h0)))))))

theorem foldl_crcByte_lt_wide (data : List Nat) : ∀ c, c < 2 ^ 32 → AllLt (2 ^ 32) data →
    data.foldl crcByte c < 2 ^ 32 := by
  induction data with
  | nil => intro c h _; simpa using h
  | cons b t ih =>
    intro c h hb
    simp only [List.foldl_cons]
    exact ih _ (crcByte_lt_wide c b h (hb b (by simp))) (fun x hx => hb x (by simp [hx]))

theorem crc32_lt_wide (data : List Nat) (hb : AllLt (2 ^ 32) data) : crc32 data < 2 ^ 32 := by
  unfold crc32
  exact Nat.xor_lt_two_pow (foldl_crcByte_lt_wide data _ (by omega) hb) (by omega)

theorem gunzipMember_frame_wide (c tail : List Nat) (hb : AllLt (2 ^ 32) c) (hl : c.length ≤ 65280) :
    gunzipMember (bgzfFrame (deflateStored 0 c) c ++ tail) = some (c, tail) := by
  rw [bgzfFrame_eq]
  have hi := inflate_deflateStored c (toLe32 (crc32 c) ++ toLe32 c.length ++ tail) 0 (by omega)
  have hcrc := le32_toLe32 _ (crc32_lt_wide c hb)
  have hlen := le32_toLe32 c.length (by omega)
  have hmod : c.length % 4294967296 = c.length := by omega
  simp only [toLe32, List.cons_append, List.nil_append] at hi ⊢
  exact gunzipMember_bgzf _ _ _ _ _ _ _ _ _ _ _ _ _ _ _ _ _ _ _ _ _ _ _ hi hcrc (by rw [hmod]; exact hlen)

theorem inflate3_encodeStored_wide (c : List Nat) (cs : List (List Nat)) (hb : AllLt (2 ^ 32) c)
    (hc : 3 ≤ c.length ∧ c.length ≤ 65280) :
    inflate3 ((bgzfEncodeStored (c :: cs)).take 65536) = some (c.take 3) := by
  have hfl : (bgzfFrame (deflateStored 0 c) c).length ≤ 65536 := by
    rw [bgzfFrame_length, deflateStored_zero_length c (by omega)]; omega
  rw [bgzfEncodeStored_cons, List.take_append, List.take_of_length_le hfl]
  unfold inflate3
  rw [gunzipPrefix]
  rw [gunzipMember_frame_wide c _ hb hc.2]
  simp
  omega

theorem gzipMagic_prefix_encodeStored (c : List Nat) (cs : List (List Nat)) :
    gzipMagic.isPrefixOf ((bgzfEncodeStored (c :: cs)).take 65536) = true := by
  rw [bgzfEncodeStored_cons, bgzfFrame_eq]
  rfl

/-! ## detection on an encoded container -/

theorem detect_gz_payload (blk : Nat) (hblk : 3 ≤ blk ∧ blk ≤ 65280) (p : List Nat) (hp : AllLt (2 ^ 32) p)
    (h3 : 3 ≤ p.length) :
    detectContainer inflate3 ((bgzfEncodeStored (chunkBytes blk p.length p)).take 65536) =
      .ok (if p.take 3 = bcfMagic then .bcfGz else .vcfGz) := by
  obtain ⟨c, cs, he, hc3, hcn, htake, hmem⟩ := chunkBytes_head blk hblk.1 p h3
  rw [he, detectContainer_gz inflate3 _ (c.take 3) (gzipMagic_prefix_encodeStored c cs)
    (inflate3_encodeStored_wide c cs (fun b hb => hp b (hmem b hb)) ⟨hc3, by omega⟩), htake]

theorem detectContainer_encodeContainer (blk : Nat) (hblk : 3 ≤ blk ∧ blk ≤ 65280) (cols contigs : List String)
    (recs : List (String × Nat × List GtRes)) (c : Container) :
    detectContainer inflate3 ((encodeContainer blk cols contigs recs c).take 65536) = .ok c := by
  obtain ⟨rv, hv⟩ := vcfEncode_head cols contigs recs
  obtain ⟨rb, hb⟩ := bcfEncode_head cols contigs recs
  cases c with
  | vcf =>
    show detectContainer inflate3 ((vcfEncode cols contigs recs).take 65536) = _
    rw [hv, take3_cons3 35 35 102 rv 65533]
    exact detectContainer_vcf _ _ rfl rfl
  | bcfRaw =>
    show detectContainer inflate3 ((bcfEncode cols contigs recs).take 65536) = _
    rw [hb, take3_cons3 66 67 70 rb 65533]
    exact detectContainer_bcfRaw _ _ rfl rfl
  | vcfGz =>
    show detectContainer inflate3 ((bgzfEncodeStored (chunkBytes blk (vcfEncode cols contigs recs).length
      (vcfEncode cols contigs recs))).take 65536) = _
    rw [detect_gz_payload blk hblk _ (allLt_vcfEncode_wide cols contigs recs) (by rw [hv]; simp), hv]
    rfl
  | bcfGz =>
    show detectContainer inflate3 ((bgzfEncodeStored (chunkBytes blk (bcfEncode cols contigs recs).length
      (bcfEncode cols contigs recs))).take 65536) = _
    rw [detect_gz_payload blk hblk _ (allLt_bcfEncode_wide cols contigs recs) (by rw [hb]; simp), hb]
    rfl

/-! ## decoding an encoded container, given the codec round trips -/

theorem bgzfDecodeAll_chunkBytes (blk : Nat) (hblk : 1 ≤ blk ∧ blk ≤ 65280) (p : List Nat) (hp : IsBytes p) :
    bgzfDecodeAll (bgzfEncodeStored (chunkBytes blk p.length p)) = some p := by
  rw [bgzfDecodeAll_encodeStored _ (fun c hc => by
    obtain ⟨h1, h2⟩ := chunkBytes_mem blk p.length p c hc
    exact ⟨fun b hb => hp b (h2 b hb), by omega⟩)]
  rw [chunkBytes_flatten blk hblk.1 p.length p (Nat.le_refl _)]

theorem decodeContainer_encodeContainer (blk : Nat) (hblk : 1 ≤ blk ∧ blk ≤ 65280) (cols contigs : List String)
    (recs : List (String × Nat × List GtRes)) (cs : CallSet)
    (hv : vcfDecode (vcfEncode cols contigs recs) = some cs) (hb : bcfDecode (bcfEncode cols contigs recs) = some cs)
    (hvb : IsBytes (vcfEncode cols contigs recs)) (hbb : IsBytes (bcfEncode cols contigs recs)) (c : Container) :
    decodeContainer c (encodeContainer blk cols contigs recs c) = some cs := by
  cases c with
  | vcf => exact hv
  | bcfRaw => exact hb
  | vcfGz =>
    show (bgzfDecodeAll (bgzfEncodeStored (chunkBytes blk (vcfEncode cols contigs recs).length
      (vcfEncode cols contigs recs)))).bind vcfDecode = _
    rw [bgzfDecodeAll_chunkBytes blk hblk _ hvb]
    exact hv
  | bcfGz =>
    show (bgzfDecodeAll (bgzfEncodeStored (chunkBytes blk (bcfEncode cols contigs recs).length
      (bcfEncode cols contigs recs)))).bind bcfDecode = _
    rw [bgzfDecodeAll_chunkBytes blk hblk _ hbb]
    exact hb

/-- the whole pipeline on an encoded container, given the codec round trips -/
theorem createFromBytesC_encodeContainer (a : CreateArgs) (blk : Nat) (hblk : 3 ≤ blk ∧ blk ≤ 65280)
    (cols contigs : List String) (recs : List (String × Nat × List GtRes)) (h : WfCallSet cols contigs recs)
    (hv : vcfDecode (vcfEncode cols contigs recs) = some (cols, toRecs recs))
    (hb : bcfDecode (bcfEncode cols contigs recs) = some (cols, toRecs recs)) (c : Container) :
    createFromBytesC a (encodeContainer blk cols contigs recs c) = some (createCli a cols (toRecs recs)) := by
  unfold createFromBytesC
  exact createFromBytes_of_detect inflate3 decodeContainer a _ c (cols, toRecs recs)
    (detectContainer_encodeContainer blk hblk cols contigs recs c)
    (decodeContainer_encodeContainer blk ⟨by omega, hblk.2⟩ cols contigs recs _ hv hb
      (isBytes_vcfEncode cols contigs recs h) (isBytes_bcfEncode cols contigs recs h) c)

end Sfs
