/-
Helper lemmas for Props/C12B.lean (ContainerGlue).
-/
import SfsModel.Model.Container
namespace Sfs

end Sfs
