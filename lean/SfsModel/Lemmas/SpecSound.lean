/-
Helper lemmas (SpecSound): what the two spectrum readers accept has the declared (checked) number of values;
`readText` on the text writer's output.
-/
import SfsModel.Lemmas.TextRoundtrip
import SfsModel.Lemmas.NpyDecode
namespace Sfs

/-! ## `checkedSize` never exceeds 64 bits -/

theorem readNpy_ok_inv (bytes shape vals : List Nat) (h : readNpy bytes = .ok (shape, vals)) :
    ∃ (d : NpyDict) (hdr : Nat) (body : List Nat), bytes.length = hdr + body.length ∧ d.shape = shape ∧
      readValues d.endian d.ty (body.length + 1) body = .ok vals ∧ checkedSize shape = some vals.length := by
  unfold readNpy at h
  simp only at h
  split at h; · cases h
  split at h; · cases h
  split at h; · cases h
  split at h
  · cases h
  · rename_i w hw
    split at h; · cases h
    split at h; · cases h
    split at h; · cases h
    split at h
    · cases h
    · rename_i d hd
      split at h; · cases h
      split at h
      · cases h
      · rename_i vs hvs
        split at h
        · rename_i hcs
          simp only [Except.ok.injEq, Prod.mk.injEq] at h
          obtain ⟨h1, h2⟩ := h
          subst h2
          refine ⟨d, 6 + 2 + w + ofLeBytes (((bytes.drop 6).drop 2).take w), _, ?_, h1, hvs, h1 ▸ hcs⟩
          simp only [List.length_drop] at *
          omega
        · cases h

theorem readNpy_accept (bytes shape vals : List Nat) (h : readNpy bytes = .ok (shape, vals)) :
    checkedSize shape = some vals.length ∧ vals.length = size shape ∧ size shape < 2 ^ 64 ∧
      ∃ hdr w, w ∈ [1, 2, 4, 8] ∧ bytes.length = hdr + w * vals.length := by
  obtain ⟨d, hdr, body, hlen, _, hrv, hcs⟩ := readNpy_ok_inv bytes shape vals h
  have hsz := checkedSize_eq_some shape _ hcs
  have hlt := checkedSize_lt shape _ hcs
  refine ⟨hcs, hsz, by omega, hdr, d.ty.width, by cases d.ty <;> simp [NpyTy.width], ?_⟩
  rw [readValues_fuel d.endian d.ty body.length body _ rfl (Nat.lt_succ_self _)] at hrv
  split at hrv
  · rename_i hmod
    simp only [Except.ok.injEq] at hrv
    have hl : vals.length = body.length / d.ty.width := by rw [← hrv]; simp
    have := Nat.div_add_mod body.length d.ty.width
    rw [hl, hlen]; omega
  · cases hrv


/-! ## what `readText` accepts -/

theorem mapM_option_length {α β} (f : α → Option β) : ∀ (l : List α) (r : List β), l.mapM f = some r → r.length = l.length
  | [], r, h => by
    simp only [List.mapM_nil] at h
    cases h; rfl
  | a :: l, r, h => by
    rw [List.mapM_cons] at h
    cases hfa : f a with
    | none => rw [hfa] at h; cases h
    | some b =>
      cases hl : l.mapM f with
      | none => rw [hfa, hl] at h; cases h
      | some r' =>
        rw [hfa, hl] at h
        cases h
        simp [mapM_option_length f l r' hl]

theorem splitWs_dropWhile_nl (chars : List Char) :
    splitWs ((chars.dropWhile (· ≠ '\n')).drop 1) = splitWs (chars.dropWhile (· ≠ '\n')) := by
  cases hd : chars.dropWhile (· ≠ '\n') with
  | nil => rfl
  | cons c r =>
    have hc : c = '\n' := by
      have h := List.head?_dropWhile_not (p := fun c => decide (c ≠ '\n')) (l := chars)
      rw [hd] at h
      simpa using h
    subst hc
    rw [List.drop_one, List.tail_cons, splitWs_ws_cons _ _ (by decide)]

theorem readText_accept (bytes shape vals : List Nat) (h : readText bytes = .ok (shape, vals)) :
    checkedSize shape = some vals.length ∧ vals.length = size shape ∧
      (splitWs ((bytesToChars bytes).dropWhile (· ≠ '\n'))).length = vals.length := by
  unfold readText at h
  simp only at h
  split at h; · cases h
  split at h
  · cases h
  · rename_i sh hsh
    split at h
    · cases h
    · rename_i vs hvs
      split at h
      · rename_i hcs
        simp only [Except.ok.injEq, Prod.mk.injEq] at h
        obtain ⟨h1, h2⟩ := h
        subst h1 h2
        refine ⟨hcs, checkedSize_eq_some _ _ hcs, ?_⟩
        rw [← splitWs_dropWhile_nl]
        exact (mapM_option_length _ _ _ hvs).symm
      · cases h


/-! ## reading back what the text writer wrote -/

theorem spec_joinNats_chars (sep : List Char) : ∀ (shape : List Nat), ∀ c ∈ joinNats sep shape, c.isDigit = true ∨ c ∈ sep
  | [], c, hc => by simp [joinNats] at hc
  | [a], c, hc => .inl (showNat_isDigit a c (by simpa [joinNats] using hc))
  | a :: b :: rest, c, hc => by
    rw [joinNats_cons_cons] at hc
    simp only [List.mem_append] at hc
    rcases hc with (hc | hc) | hc
    · exact .inl (showNat_isDigit a c hc)
    · exact .inr hc
    · exact spec_joinNats_chars sep (b :: rest) c hc

theorem textHeader_no_nl (shape : List Nat) : ∀ c ∈ textHeader shape, (decide (c ≠ '\n')) = true := by
  intro c hc
  unfold textHeader at hc
  simp only [List.mem_append] at hc
  rcases hc with (hc | hc) | hc
  · revert c; decide
  · rcases spec_joinNats_chars _ shape c hc with h | h
    · have := isDigit_toNat h
      simp only [decide_eq_true_eq]
      rintro rfl
      simp at this
    · simp only [List.mem_singleton] at h; subst h; decide
  · simp only [List.mem_singleton] at hc; subst hc; decide

/-- `readText` on the writer's output, up to the three remaining checks. -/
theorem readText_written (shape bits : List Nat) (p : Nat) (hne : shape ≠ []) (hb : ∀ v ∈ shape, v < 2 ^ 64) :
    readText (asciiBytes (writeText shape bits p)) =
      if !allAscii (asciiBytes (writeText shape bits p)) then .error .invalid
      else match (bits.map (fun b => fmtFixed b p)).mapM parseF64 with
        | none => .error .invalid
        | some vals => if checkedSize shape = some vals.length then .ok (shape, vals) else .error .invalid := by
  obtain ⟨line, hw, htok⟩ := writeText_tokens shape bits p (fun b => fmtFixed_tok b p)
  unfold readText
  simp only [bytesToChars_asciiBytes]
  have hsplit := takeWhile_append_stop (fun c => decide (c ≠ '\n')) (textHeader shape) ('\n' :: (line ++ ['\n']))
    (textHeader_no_nl shape) (by intro x hx; simp at hx; subst hx; decide)
  have hw' : writeText shape bits p = textHeader shape ++ '\n' :: (line ++ ['\n']) := by
    rw [hw]; simp
  rw [hw', hsplit.1, hsplit.2, parseTextHeader_textHeader shape hne hb]
  simp only [List.drop_one, List.tail_cons, htok]
  rfl

theorem readText_written_reject (shape bits : List Nat) (p : Nat) (hne : shape ≠ []) (hb : ∀ v ∈ shape, v < 2 ^ 64)
    (hsz : checkedSize shape ≠ some bits.length) :
    ∃ e, readText (asciiBytes (writeText shape bits p)) = .error e := by
  rw [readText_written shape bits p hne hb]
  split
  · exact ⟨_, rfl⟩
  · split
    · exact ⟨_, rfl⟩
    · rename_i vals hv
      have hl := mapM_option_length _ _ _ hv
      rw [List.length_map] at hl
      rw [hl, if_neg hsz]
      exact ⟨_, rfl⟩

end Sfs
