/-
Helper lemmas (SpecSound).
-/
import SfsModel.Lemmas.TextRoundtrip
namespace Sfs

end Sfs
