/-
Helper lemmas for C12: container detection on the read-ahead prefix, factorisation of `createFromBytes` through the
decoded call set, and invariance of `numPops` / `mapShape` under reordering of the sample map.
-/
import SfsModel.Model.Detect
import SfsModel.Lemmas.IoModel
import SfsModel.Lemmas.Samples
namespace Sfs

/-! ## detection -/

theorem detectContainer_gz (inflate3 : List Nat → Option (List Nat)) (pfx b : List Nat)
    (hg : gzipMagic.isPrefixOf pfx = true) (hb : inflate3 pfx = some b) :
    detectContainer inflate3 pfx = .ok (if b = bcfMagic then .bcfGz else .vcfGz) := by
  unfold detectContainer
  rw [if_pos hg, hb]
  dsimp only
  split <;> rfl

theorem detectContainer_bcfGz (inflate3 : List Nat → Option (List Nat)) (pfx : List Nat)
    (hg : gzipMagic.isPrefixOf pfx = true) (hb : inflate3 pfx = some bcfMagic) :
    detectContainer inflate3 pfx = .ok .bcfGz := by
  rw [detectContainer_gz inflate3 pfx bcfMagic hg hb, if_pos rfl]

theorem detectContainer_vcfGz (inflate3 : List Nat → Option (List Nat)) (pfx b : List Nat)
    (hg : gzipMagic.isPrefixOf pfx = true) (hb : inflate3 pfx = some b) (hne : b ≠ bcfMagic) :
    detectContainer inflate3 pfx = .ok .vcfGz := by
  rw [detectContainer_gz inflate3 pfx b hg hb, if_neg hne]

theorem detectContainer_bcfRaw (inflate3 : List Nat → Option (List Nat)) (pfx : List Nat)
    (hg : gzipMagic.isPrefixOf pfx = false) (hb : bcfMagic.isPrefixOf pfx = true) :
    detectContainer inflate3 pfx = .ok .bcfRaw := by
  unfold detectContainer
  rw [hg, hb]
  rfl

theorem detectContainer_vcf (inflate3 : List Nat → Option (List Nat)) (pfx : List Nat)
    (hg : gzipMagic.isPrefixOf pfx = false) (hb : bcfMagic.isPrefixOf pfx = false) :
    detectContainer inflate3 pfx = .ok .vcf := by
  unfold detectContainer
  rw [hg, hb]
  rfl

/-! ## the read-ahead prefix -/

theorem readPrefix_schedule_free (r : Rd) (h : Rd.Ok r) :
    ∃ r', readPrefix r = .ok (r.data.take 65536, r') := by
  obtain ⟨r', he, _⟩ := readPrefix_ok_rest r h
  exact ⟨r', he⟩

/-! ## factorisation through the call set -/

/-- If detection on the prefix yields container `c` and the codec of `c` decodes the bytes to `cs`, the result is the
    pure pipeline on `cs`. -/
theorem createFromBytes_of_detect (inflate3 : List Nat → Option (List Nat))
    (decode : Container → List Nat → Option CallSet) (a : CreateArgs) (bytes : List Nat) (c : Container) (cs : CallSet)
    (hd : detectContainer inflate3 (bytes.take 65536) = .ok c) (hdec : decode c bytes = some cs) :
    createFromBytes inflate3 decode a bytes = some (createCli a cs.1 cs.2) := by
  unfold createFromBytes
  rw [hd]
  dsimp only
  rw [hdec]
  rfl

/-! ## shape under reordering of the sample map -/

theorem distinctInOrder_perm {κ} [DecidableEq κ] {l l' : List κ} (hp : l.Perm l') :
    (distinctInOrder l).Perm (distinctInOrder l') := by
  obtain ⟨hnd, hmem, _⟩ := distinct_spec l
  obtain ⟨hnd', hmem', _⟩ := distinct_spec l'
  rw [List.perm_ext_iff_of_nodup hnd hnd']
  intro x
  rw [hmem x, hmem' x]
  exact hp.mem_iff

theorem numPops_perm {m m' : List (String × Nat)} (hp : m.Perm m') : numPops m = numPops m' := by
  unfold numPops
  exact (distinctInOrder_perm (hp.map _)).length_eq

theorem mapShape_perm {m m' : List (String × Nat)} (hp : m.Perm m') : mapShape m = mapShape m' := by
  unfold mapShape
  rw [numPops_perm hp]
  apply List.map_congr_left
  intro id _
  rw [(hp.filter _).length_eq]

end Sfs
