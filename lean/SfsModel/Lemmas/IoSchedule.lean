/-
Helper lemmas for C18: schedule independence and failure propagation over the `Rd` / `Wr` models.
-/
import SfsModel.Lemmas.IoModel
import SfsModel.Model.Detect
namespace Sfs

/-! ## readers without failure -/

theorem List.isEmpty_false_of_length_pos {α} (l : List α) (h : 0 < l.length) : l.isEmpty = false := by
  cases l with
  | nil => simp at h
  | cons _ _ => rfl

/-- `read_exact(n)` on an `Ok` reader: the next `n` bytes, or EOF. -/
theorem Rd.readExact_ok (fuel : Nat) (r : Rd) (h : Rd.Ok r) (n : Nat) (hfuel : n ≤ fuel) :
    (n ≤ r.data.length → ∃ r', r.readExact fuel n = .ok (r.data.take n, r') ∧ Rd.Ok r' ∧ r'.data = r.data.drop n) ∧
    (r.data.length < n → r.readExact fuel n = .error .eof) := by
  induction fuel generalizing r n with
  | zero =>
    have : n = 0 := by omega
    subst this
    refine ⟨fun _ => ⟨r, by simp [Rd.readExact], h, by simp⟩, fun hlt => by omega⟩
  | succ fuel ih =>
    cases n with
    | zero => exact ⟨fun _ => ⟨r, by simp [Rd.readExact], h, by simp⟩, fun hlt => by omega⟩
    | succ n =>
      unfold Rd.readExact
      by_cases hne : r.data = []
      · obtain ⟨r', he, hok, hd, _, _, h0⟩ := Rd.fillBuf_ok r h
        rw [he, h0 hne, hne]
        refine ⟨fun hle => by simp at hle, fun _ => by simp⟩
      · obtain ⟨r', he, hok, hd, h1, hlen⟩ := Rd.fillBuf_ok_nonempty r h hne
        rw [he]
        have hnemp : (r.data.take r'.avail).isEmpty = false :=
          List.isEmpty_false_of_length_pos _ (by omega)
        simp only [hnemp, Bool.false_eq_true, if_false, hlen]
        have hle : r'.avail ≤ r.data.length := hd ▸ hok.1
        have hok2 := Rd.consume_ok r' (min r'.avail (n + 1)) hok
        have hd2 : (r'.consume (min r'.avail (n + 1))).data = r.data.drop (min r'.avail (n + 1)) := by
          rw [Rd.consume_data, hd]
        obtain ⟨ih1, ih2⟩ := ih (r'.consume (min r'.avail (n + 1))) hok2 (n + 1 - min r'.avail (n + 1)) (by omega)
        rw [hd2, List.length_drop] at ih1 ih2
        refine ⟨fun hn => ?_, fun hn => ?_⟩
        · obtain ⟨r'', he2, hok3, hd3⟩ := ih1 (by omega)
          rw [he2]
          refine ⟨r'', ?_, hok3, ?_⟩
          · dsimp only
            have hm : min (min r'.avail (n + 1)) r'.avail = min r'.avail (n + 1) := by omega
            rw [List.take_take, hm, ← List.take_add]
            congr 3
            omega
          · rw [hd3, List.drop_drop]; congr 1; omega
        · rw [ih2 (by omega)]

/-! ### `read_line` -/

theorem List.takeWhile_length_le {α} (p : α → Bool) (l : List α) : (l.takeWhile p).length ≤ l.length := by
  induction l with
  | nil => simp
  | cons x xs ih => simp only [List.takeWhile_cons]; split <;> simp <;> omega

/-- the chunk contains an element failing `p`: the first such element of the whole list is in the chunk. -/
theorem List.takeWhile_take_of_lt {α} (p : α → Bool) (l : List α) (a : Nat)
    (h : ((l.take a).takeWhile p).length < (l.take a).length) : (l.take a).takeWhile p = l.takeWhile p := by
  conv => rhs; rw [← List.take_append_drop a l, List.takeWhile_append]
  rw [if_neg (by omega)]

/-- the chunk has no element failing `p`. -/
theorem List.takeWhile_of_take_all {α} (p : α → Bool) (l : List α) (a : Nat)
    (h : ¬ ((l.take a).takeWhile p).length < (l.take a).length) :
    l.takeWhile p = l.take a ++ (l.drop a).takeWhile p := by
  have := List.takeWhile_length_le p (l.take a)
  conv => lhs; rw [← List.take_append_drop a l, List.takeWhile_append]
  rw [if_pos (by omega)]

theorem Rd.readLine_ok (fuel : Nat) (r : Rd) (h : Rd.Ok r) (hfuel : r.data.length < fuel) :
    ∃ r', r.readLine fuel =
        .ok (r.data.takeWhile (· ≠ 10) ++ (if (r.data.takeWhile (· ≠ 10)).length < r.data.length then [10] else []), r') ∧
      Rd.Ok r' ∧ r'.data = r.data.drop ((r.data.takeWhile (· ≠ 10)).length + 1) := by
  induction fuel generalizing r with
  | zero => omega
  | succ fuel ih =>
    unfold Rd.readLine
    by_cases hne : r.data = []
    · obtain ⟨r', he, hok, hd, _, _, h0⟩ := Rd.fillBuf_ok r h
      rw [he, h0 hne, hne]
      exact ⟨r', by simp, hok, by rw [hd, hne]; simp⟩
    · obtain ⟨r', he, hok, hd, h1, hlen⟩ := Rd.fillBuf_ok_nonempty r h hne
      rw [he]
      have hnemp : (r.data.take r'.avail).isEmpty = false :=
        List.isEmpty_false_of_length_pos _ (by omega)
      simp only [hnemp, Bool.false_eq_true, if_false]
      have hle : r'.avail ≤ r.data.length := hd ▸ hok.1
      by_cases hlt : ((r.data.take r'.avail).takeWhile (· ≠ 10)).length < (r.data.take r'.avail).length
      · rw [if_pos hlt]
        have heq := List.takeWhile_take_of_lt (· ≠ 10) r.data r'.avail hlt
        rw [heq] at hlt ⊢
        refine ⟨r'.consume ((r.data.takeWhile (· ≠ 10)).length + 1), ?_, Rd.consume_ok _ _ hok, ?_⟩
        · rw [if_pos (by omega)]
        · rw [Rd.consume_data, hd]
      · rw [if_neg hlt]
        have heq := List.takeWhile_of_take_all (· ≠ 10) r.data r'.avail hlt
        have hok2 := Rd.consume_ok r' r'.avail hok
        have hd2 : (r'.consume r'.avail).data = r.data.drop r'.avail := by rw [Rd.consume_data, hd]
        obtain ⟨r'', he2, hok3, hd3⟩ := ih (r'.consume r'.avail) hok2 (by rw [hd2, List.length_drop]; omega)
        rw [hlen, he2]
        refine ⟨r'', ?_, hok3, ?_⟩
        · dsimp only
          rw [hd2, heq, List.length_append, hlen, List.length_drop, List.append_assoc]
          congr 3
          by_cases hc : ((r.data.drop r'.avail).takeWhile (· ≠ 10)).length < r.data.length - r'.avail
          · rw [if_pos hc, if_pos (by omega)]
          · rw [if_neg hc, if_neg (by omega)]
        · rw [hd3, hd2, heq, List.length_append, hlen, List.drop_drop]
          rfl

/-! ### the npy reader -/

theorem readValuesRd_ok (en : Endian) (t : NpyTy) (fuel : Nat) (r : Rd) (h : Rd.Ok r) :
    readValuesRd en t fuel r = readValues en t fuel r.data := by
  induction fuel generalizing r with
  | zero => rfl
  | succ fuel ih =>
    unfold readValuesRd readValues
    by_cases hne : r.data = []
    · obtain ⟨r', he, hok, hd, _, _, h0⟩ := Rd.fillBuf_ok r h
      rw [he, h0 hne, hne]
      simp
    · obtain ⟨r', he, hok, hd, h1, hlen⟩ := Rd.fillBuf_ok_nonempty r h hne
      rw [he]
      have hnemp : (r.data.take r'.avail).isEmpty = false :=
        List.isEmpty_false_of_length_pos _ (by omega)
      have hnemp2 : r.data.isEmpty = false := by
        cases hd' : r.data with
        | nil => exact absurd hd' hne
        | cons _ _ => rfl
      simp only [hnemp, hnemp2, Bool.false_eq_true, if_false]
      obtain ⟨h1, h2⟩ := Rd.readExact_ok t.width r' hok t.width (Nat.le_refl _)
      rw [hd] at h1 h2
      by_cases hw : r.data.length < t.width
      · rw [if_pos hw, h2 hw]
      · rw [if_neg hw]
        obtain ⟨r'', he2, hok2, hd2⟩ := h1 (by omega)
        rw [he2]
        dsimp only
        rw [ih r'' hok2, hd2]
        cases readValues en t fuel (List.drop t.width r.data) <;> rfl

/-- the detection prefix (`Model/Detect.lean`) is the first 64 KiB whatever the chunk schedule. -/
theorem readPrefix_ok (r : Rd) (h : Rd.Ok r) : ∃ r', readPrefix r = .ok (r.data.take 65536, r') := by
  obtain ⟨r', he, _⟩ := readPrefix_ok_rest r h
  exact ⟨r', he⟩

/-! ## readers with a failure offset -/

/-- A reader that fails after `k` more bytes: the buffer never extends past the failure point, which is not beyond
    the end of the data. -/
def Rd.Fail (r : Rd) (k : Nat) : Prop := r.failAt = some k ∧ r.avail ≤ k ∧ k ≤ r.data.length

theorem Rd.fillBuf_fail (r : Rd) (k : Nat) (h : Rd.Fail r k) :
    (k = 0 ∧ r.fillBuf = .error .io) ∨
    (0 < k ∧ ∃ r', r.fillBuf = .ok (r.data.take r'.avail, r') ∧ Rd.Fail r' k ∧ r'.data = r.data ∧ 1 ≤ r'.avail) := by
  obtain ⟨hf, ha, hk⟩ := h
  unfold Rd.fillBuf
  by_cases hav : r.avail > 0
  · rw [if_pos hav]
    exact Or.inr ⟨by omega, r, rfl, ⟨hf, ha, hk⟩, rfl, hav⟩
  · rw [if_neg hav, hf]
    cases k with
    | zero => exact Or.inl ⟨rfl, rfl⟩
    | succ k =>
      right
      refine ⟨by omega, ?_⟩
      have hemp : r.data.isEmpty = false := List.isEmpty_false_of_length_pos _ (by omega)
      simp only [hemp, Bool.false_eq_true, if_false]
      refine ⟨{ data := r.data, sched := r.sched.tail, failAt := some (k + 1),
                avail := min (min (max 1 (r.sched.headD r.data.length)) r.data.length) (k + 1) },
              rfl, ⟨rfl, ?_, hk⟩, rfl, ?_⟩
      · exact Nat.min_le_right _ _
      · show 1 ≤ min (min (max 1 (r.sched.headD r.data.length)) r.data.length) (k + 1)
        omega

theorem Rd.consume_fail (r : Rd) (k n : Nat) (h : Rd.Fail r k) (hn : n ≤ r.avail) : Rd.Fail (r.consume n) (k - n) := by
  obtain ⟨hf, ha, hk⟩ := h
  refine ⟨?_, ?_, ?_⟩
  · simp only [Rd.consume, hf, Option.map_some]
  · simp only [Rd.consume]; omega
  · simp only [Rd.consume, List.length_drop]; omega

/-- `read_exact(n)` on a failing reader: the next `n` bytes if the failure point is not before their end, the I/O error
    otherwise (never EOF). -/
theorem Rd.readExact_fail (fuel : Nat) (r : Rd) (k : Nat) (h : Rd.Fail r k) (n : Nat) (hfuel : n ≤ fuel) :
    (k < n ∧ r.readExact fuel n = .error .io) ∨
    (n ≤ k ∧ ∃ r', r.readExact fuel n = .ok (r.data.take n, r') ∧ Rd.Fail r' (k - n) ∧ r'.data = r.data.drop n) := by
  induction fuel generalizing r n k with
  | zero =>
    have : n = 0 := by omega
    subst this
    exact Or.inr ⟨by omega, r, by simp [Rd.readExact], h, by simp⟩
  | succ fuel ih =>
    cases n with
    | zero => exact Or.inr ⟨by omega, r, by simp [Rd.readExact], h, by simp⟩
    | succ n =>
      unfold Rd.readExact
      rcases Rd.fillBuf_fail r k h with ⟨hk0, he⟩ | ⟨hkpos, r', he, hF, hd, h1⟩
      · rw [he]; exact Or.inl ⟨by omega, rfl⟩
      · rw [he]
        have hle : r'.avail ≤ r.data.length := by have := hF.2.1; have := h.2.2; omega
        have hlen : (r.data.take r'.avail).length = r'.avail := by simp only [List.length_take]; omega
        have hnemp : (r.data.take r'.avail).isEmpty = false :=
          List.isEmpty_false_of_length_pos _ (by omega)
        simp only [hnemp, Bool.false_eq_true, if_false, hlen]
        have hF2 := Rd.consume_fail r' k (min r'.avail (n + 1)) hF (by omega)
        have hd2 : (r'.consume (min r'.avail (n + 1))).data = r.data.drop (min r'.avail (n + 1)) := by
          rw [Rd.consume_data, hd]
        have hak : r'.avail ≤ k := hF.2.1
        rcases ih (r'.consume (min r'.avail (n + 1))) _ hF2 (n + 1 - min r'.avail (n + 1)) (by omega) with
          ⟨hlt, he2⟩ | ⟨hle2, r'', he2, hF3, hd3⟩
        · rw [he2]; exact Or.inl ⟨by omega, rfl⟩
        · rw [he2]
          refine Or.inr ⟨by omega, r'', ?_, ?_, ?_⟩
          · dsimp only
            have hm : min (min r'.avail (n + 1)) r'.avail = min r'.avail (n + 1) := by omega
            rw [hd2, List.take_take, hm, ← List.take_add]
            congr 3
            omega
          · have : k - min r'.avail (n + 1) - (n + 1 - min r'.avail (n + 1)) = k - (n + 1) := by omega
            rw [← this]; exact hF3
          · rw [hd3, hd2, List.drop_drop]; congr 1; omega

/-- `read_to_end` on a failing reader reports the I/O error. -/
theorem Rd.readToEnd_fail (fuel : Nat) (r : Rd) (k : Nat) (h : Rd.Fail r k) (hfuel : r.data.length < fuel) :
    r.readToEnd fuel = .error .io := by
  induction fuel generalizing r k with
  | zero => omega
  | succ fuel ih =>
    unfold Rd.readToEnd
    rcases Rd.fillBuf_fail r k h with ⟨hk0, he⟩ | ⟨hkpos, r', he, hF, hd, h1⟩
    · rw [he]
    · rw [he]
      have hle : r'.avail ≤ r.data.length := by have := hF.2.1; have := h.2.2; omega
      have hlen : (r.data.take r'.avail).length = r'.avail := by simp only [List.length_take]; omega
      have hnemp : (r.data.take r'.avail).isEmpty = false :=
        List.isEmpty_false_of_length_pos _ (by omega)
      simp only [hnemp, Bool.false_eq_true, if_false, hlen]
      have hF2 := Rd.consume_fail r' k r'.avail hF (Nat.le_refl _)
      rw [ih (r'.consume r'.avail) _ hF2 (by rw [Rd.consume_data, hd, List.length_drop]; omega)]

/-- `read_line` on a failing reader: the I/O error, or the same line as without the failure (it ends in a newline found
    before the failure point) with the reader still failing later. -/
theorem Rd.readLine_fail (fuel : Nat) (r : Rd) (k : Nat) (h : Rd.Fail r k) (hfuel : r.data.length < fuel) :
    r.readLine fuel = .error .io ∨ ∃ r' k', r.readLine fuel =
        .ok (r.data.takeWhile (· ≠ 10) ++ (if (r.data.takeWhile (· ≠ 10)).length < r.data.length then [10] else []), r') ∧
      Rd.Fail r' k' ∧ r'.data = r.data.drop ((r.data.takeWhile (· ≠ 10)).length + 1) := by
  induction fuel generalizing r k with
  | zero => omega
  | succ fuel ih =>
    unfold Rd.readLine
    rcases Rd.fillBuf_fail r k h with ⟨hk0, he⟩ | ⟨hkpos, r', he, hF, hd, h1⟩
    · rw [he]; exact Or.inl rfl
    · rw [he]
      have hle : r'.avail ≤ r.data.length := by have := hF.2.1; have := h.2.2; omega
      have hlen : (r.data.take r'.avail).length = r'.avail := by simp only [List.length_take]; omega
      have hnemp : (r.data.take r'.avail).isEmpty = false :=
        List.isEmpty_false_of_length_pos _ (by omega)
      simp only [hnemp, Bool.false_eq_true, if_false]
      by_cases hlt : ((r.data.take r'.avail).takeWhile (· ≠ 10)).length < (r.data.take r'.avail).length
      · rw [if_pos hlt]
        have heq := List.takeWhile_take_of_lt (· ≠ 10) r.data r'.avail hlt
        rw [heq] at hlt ⊢
        refine Or.inr ⟨r'.consume ((r.data.takeWhile (· ≠ 10)).length + 1), _, ?_,
          Rd.consume_fail r' k _ hF (by omega), ?_⟩
        · rw [if_pos (by omega)]
        · rw [Rd.consume_data, hd]
      · rw [if_neg hlt, hlen]
        have heq := List.takeWhile_of_take_all (· ≠ 10) r.data r'.avail hlt
        have hF2 := Rd.consume_fail r' k r'.avail hF (Nat.le_refl _)
        have hd2 : (r'.consume r'.avail).data = r.data.drop r'.avail := by rw [Rd.consume_data, hd]
        rcases ih (r'.consume r'.avail) _ hF2 (by rw [hd2, List.length_drop]; omega) with
          he2 | ⟨r'', k', he2, hF3, hd3⟩
        · rw [he2]; exact Or.inl rfl
        · rw [he2]
          refine Or.inr ⟨r'', k', ?_, hF3, ?_⟩
          · dsimp only
            rw [hd2, heq, List.length_append, hlen, List.length_drop, List.append_assoc]
            congr 3
            by_cases hc : ((r.data.drop r'.avail).takeWhile (· ≠ 10)).length < r.data.length - r'.avail
            · rw [if_pos hc, if_pos (by omega)]
            · rw [if_neg hc, if_neg (by omega)]
          · rw [hd3, hd2, heq, List.length_append, hlen, List.drop_drop]
            rfl

/-- the npy value loop on a failing reader reports the I/O error (it only stops on an empty `fill_buf`). -/
theorem readValuesRd_fail (en : Endian) (t : NpyTy) (fuel : Nat) (r : Rd) (k : Nat) (h : Rd.Fail r k)
    (hfuel : r.data.length < fuel) : readValuesRd en t fuel r = .error .io := by
  induction fuel generalizing r k with
  | zero => omega
  | succ fuel ih =>
    unfold readValuesRd
    rcases Rd.fillBuf_fail r k h with ⟨hk0, he⟩ | ⟨hkpos, r', he, hF, hd, h1⟩
    · rw [he]
    · rw [he]
      have hle : r'.avail ≤ r.data.length := by have := hF.2.1; have := h.2.2; omega
      have hnemp : (r.data.take r'.avail).isEmpty = false :=
        List.isEmpty_false_of_length_pos _ (by simp only [List.length_take]; omega)
      simp only [hnemp, Bool.false_eq_true, if_false]
      have hw : 1 ≤ t.width := by cases t <;> decide
      rcases Rd.readExact_fail t.width r' k hF t.width (Nat.le_refl _) with ⟨_, he2⟩ | ⟨hle2, r'', he2, hF2, hd2⟩
      · rw [he2]
      · rw [he2]
        dsimp only
        rw [ih r'' _ hF2 (by rw [hd2, hd, List.length_drop]; omega)]

/-! ## the npy reader: one walk for both kinds of reader -/

/-- no failure, or a failure offset inside the remaining data. -/
def Rd.Inv (r : Rd) : Prop := Rd.Ok r ∨ ∃ k, Rd.Fail r k

/-- `x` (through a reader that fails iff `b`) against `y` (on the whole byte string): equal without failure; with a
    failure, the I/O error or the same error as on the whole string. -/
def IoRel {α} (b : Bool) (x y : Except IoErr α) : Prop :=
  (b = false ∧ x = y) ∨ (b = true ∧ (x = .error .io ∨ ∃ e, x = .error e ∧ y = .error e))

theorem IoRel.err {α} (b : Bool) (e : IoErr) : IoRel (α := α) b (.error e) (.error e) := by
  cases b
  · exact Or.inl ⟨rfl, rfl⟩
  · exact Or.inr ⟨rfl, Or.inr ⟨e, rfl, rfl⟩⟩

theorem IoRel.io {α} (y : Except IoErr α) : IoRel true (.error .io) y := Or.inr ⟨rfl, Or.inl rfl⟩

theorem Rd.readExact_inv (r : Rd) (hI : Rd.Inv r) (n : Nat) :
    (r.failAt.isSome = true ∧ r.readExact n n = .error .io) ∨
    (r.failAt.isSome = false ∧ r.data.length < n ∧ r.readExact n n = .error .eof) ∨
    (n ≤ r.data.length ∧ ∃ r', r.readExact n n = .ok (r.data.take n, r') ∧ Rd.Inv r' ∧ r'.data = r.data.drop n ∧
      r'.failAt.isSome = r.failAt.isSome) := by
  rcases hI with hok | ⟨k, hF⟩
  · obtain ⟨h1, h2⟩ := Rd.readExact_ok n r hok n (Nat.le_refl _)
    by_cases hl : r.data.length < n
    · exact Or.inr (Or.inl ⟨by rw [hok.2]; rfl, hl, h2 hl⟩)
    · obtain ⟨r', he, hok', hd⟩ := h1 (by omega)
      exact Or.inr (Or.inr ⟨by omega, r', he, Or.inl hok', hd, by rw [hok.2, hok'.2]⟩)
  · rcases Rd.readExact_fail n r k hF n (Nat.le_refl _) with ⟨_, he⟩ | ⟨hle, r', he, hF', hd⟩
    · exact Or.inl ⟨by rw [hF.1]; rfl, he⟩
    · exact Or.inr (Or.inr ⟨by have := hF.2.2; omega, r', he, Or.inr ⟨_, hF'⟩, hd, by rw [hF.1, hF'.1]; rfl⟩)

theorem readNpyRd_rel (r : Rd) (hI : Rd.Inv r) : IoRel r.failAt.isSome (readNpyRd r) (readNpy r.data) := by
  generalize hb : r.failAt.isSome = b
  unfold readNpyRd readNpy
  rcases Rd.readExact_inv r hI 6 with ⟨hs, he⟩ | ⟨hs, hlt, he⟩ | ⟨hle, r1, he, hI1, hd1, hs1⟩
  · rw [he]; rw [hb] at hs; subst hs; exact IoRel.io _
  · rw [he, if_pos hlt]; exact IoRel.err _ _
  rw [he, if_neg (by omega)]; dsimp only
  by_cases hm : List.take 6 r.data ≠ npyMagic
  · rw [if_pos hm, if_pos hm]; exact IoRel.err _ _
  rw [if_neg hm, if_neg hm, ← hd1]
  rw [← hs1] at hb
  clear he hs1 hm hle
  rcases Rd.readExact_inv r1 hI1 2 with ⟨hs, he⟩ | ⟨hs, hlt, he⟩ | ⟨hle, r2, he, hI2, hd2, hs2⟩
  · rw [he]; rw [hb] at hs; subst hs; exact IoRel.io _
  · rw [he, if_pos hlt]; exact IoRel.err _ _
  rw [he, if_neg (by omega)]; dsimp only
  have hv : (List.take 2 r1.data).getD 0 0 = r1.data.getD 0 0 := by
    cases hh : r1.data with
    | nil => rfl
    | cons x xs => rfl
  rw [hv]
  generalize r1.data.getD 0 0 = v
  rw [← hs2] at hb
  clear he hv hs2 hle
  rcases v with _ | _ | _ | _ | v
  all_goals simp only []
  all_goals first
    | exact IoRel.err _ _
    | (rw [← hd2]
       rcases Rd.readExact_inv r2 hI2 _ with ⟨hs, he⟩ | ⟨hs, hlt, he⟩ | ⟨hle, r3, he, hI3, hd3, hs3⟩
       · rw [he]; rw [hb] at hs; subst hs; exact IoRel.io _
       · rw [he, if_pos hlt]; exact IoRel.err _ _
       rw [he, if_neg (by omega)]; dsimp only
       rw [← hd3]
       rw [← hs3] at hb
       clear he hs3 hle
       rcases Rd.readExact_inv r3 hI3 (ofLeBytes (List.take _ r2.data)) with
         ⟨hs, he⟩ | ⟨hs, hlt, he⟩ | ⟨hle, r4, he, hI4, hd4, hs4⟩
       · rw [he]; rw [hb] at hs; subst hs; exact IoRel.io _
       · rw [he, if_pos hlt]; exact IoRel.err _ _
       rw [he, if_neg (by omega)]; dsimp only
       rw [← hd4]
       rw [← hs4] at hb
       clear he hs4 hle
       generalize List.take (ofLeBytes (List.take _ r2.data)) r3.data = dictBytes
       by_cases ha : (!allAscii dictBytes) = true
       · rw [if_pos ha, if_pos ha]; exact IoRel.err _ _
       rw [if_neg ha, if_neg ha]
       cases parseNpyDict (bytesToChars dictBytes) with
       | none => exact IoRel.err _ _
       | some d =>
         dsimp only
         by_cases hfo : d.fortran = true
         · rw [if_pos hfo, if_pos hfo]; exact IoRel.err _ _
         rw [if_neg hfo, if_neg hfo]
         rcases hI4 with hok | ⟨k, hF⟩
         · rw [readValuesRd_ok _ _ _ _ hok]
           rw [hok.2] at hb
           refine Or.inl ⟨hb.symm, ?_⟩
           cases readValues d.endian d.ty (r4.data.length + 1) r4.data <;> rfl
         · rw [readValuesRd_fail _ _ _ _ k hF (Nat.lt_succ_self _)]
           rw [hF.1] at hb
           subst hb
           exact IoRel.io _)

theorem readNpyRd_ok (r : Rd) (h : Rd.Ok r) : readNpyRd r = readNpy r.data := by
  rcases readNpyRd_rel r (Or.inl h) with ⟨_, he⟩ | ⟨hb, _⟩
  · exact he
  · rw [h.2] at hb; cases hb

theorem readNpyRd_fail (r : Rd) (k : Nat) (hF : Rd.Fail r k) :
    readNpyRd r = .error .io ∨ ∃ e, readNpyRd r = .error e ∧ readNpy r.data = .error e := by
  rcases readNpyRd_rel r (Or.inr ⟨k, hF⟩) with ⟨hb, _⟩ | ⟨_, he⟩
  · rw [hF.1] at hb; cases hb
  · exact he

/-! ## the text reader -/

theorem Char.ofNat_ne_newline : ∀ x, x < 128 → x ≠ 10 → Char.ofNat x ≠ '\n' := by decide +kernel

/-- the line read by `read_line` followed by the rest is the whole input. -/
theorem List.line_append_rest (l : List Nat) :
    (l.takeWhile (· ≠ 10) ++ (if (l.takeWhile (· ≠ 10)).length < l.length then [10] else [])) ++
      l.drop ((l.takeWhile (· ≠ 10)).length + 1) = l := by
  induction l with
  | nil => rfl
  | cons x xs ih =>
    by_cases hx : x = 10
    · subst hx; simp
    · have : (decide (x ≠ 10)) = true := by simpa using hx
      rw [List.takeWhile_cons, if_pos this]
      simp only [List.length_cons, Nat.add_lt_add_iff_right, List.drop_succ_cons, List.cons_append]
      rw [ih]

/-- header characters: those of the line read by `read_line`, up to the newline. -/
theorem bytesToChars_line (l : List Nat) (ha : allAscii l = true) :
    (bytesToChars (l.takeWhile (· ≠ 10) ++ (if (l.takeWhile (· ≠ 10)).length < l.length then [10] else []))).takeWhile
        (· ≠ '\n') = (bytesToChars l).takeWhile (· ≠ '\n') := by
  induction l with
  | nil => rfl
  | cons x xs ih =>
    have hx128 : x < 128 := by simp [allAscii] at ha; exact ha.1
    have ha' : allAscii xs = true := by simp [allAscii] at ha ⊢; exact ha.2
    by_cases hx : x = 10
    · subst hx; simp [bytesToChars]
    · have h1 : (decide (x ≠ 10)) = true := by simpa using hx
      have h2 : (decide (Char.ofNat x ≠ '\n')) = true := by simpa using Char.ofNat_ne_newline x hx128 hx
      rw [List.takeWhile_cons, if_pos h1]
      simp only [List.length_cons, Nat.add_lt_add_iff_right, List.cons_append]
      have := ih ha'
      simp only [bytesToChars, List.map_cons, List.takeWhile_cons, h2, if_true] at this ⊢
      rw [this]

/-- value characters: those of the bytes after the line. -/
theorem bytesToChars_rest (l : List Nat) (ha : allAscii l = true) :
    bytesToChars (l.drop ((l.takeWhile (· ≠ 10)).length + 1)) = ((bytesToChars l).dropWhile (· ≠ '\n')).drop 1 := by
  induction l with
  | nil => rfl
  | cons x xs ih =>
    have hx128 : x < 128 := by simp [allAscii] at ha; exact ha.1
    have ha' : allAscii xs = true := by simp [allAscii] at ha ⊢; exact ha.2
    by_cases hx : x = 10
    · subst hx; simp [bytesToChars]
    · have h1 : (decide (x ≠ 10)) = true := by simpa using hx
      have h2 : (decide (Char.ofNat x ≠ '\n')) = true := by simpa using Char.ofNat_ne_newline x hx128 hx
      rw [List.takeWhile_cons, if_pos h1]
      have := ih ha'
      simp only [bytesToChars, List.map_cons, List.dropWhile_cons, h2, if_true, List.length_cons,
        List.drop_succ_cons] at this ⊢
      rw [this]

theorem allAscii_append (a b : List Nat) : allAscii (a ++ b) = (allAscii a && allAscii b) := by
  simp [allAscii, List.all_append]

/-- `readText` (ASCII check on the whole input first) in the order of `read_scs`: the header line checked and parsed
    first, then the rest checked and parsed. -/
theorem readText_split (l : List Nat) :
    readText l =
      (if !allAscii (l.takeWhile (· ≠ 10) ++ (if (l.takeWhile (· ≠ 10)).length < l.length then [10] else []))
       then .error .invalid
       else match parseTextHeader ((bytesToChars
            (l.takeWhile (· ≠ 10) ++ (if (l.takeWhile (· ≠ 10)).length < l.length then [10] else []))).takeWhile
              (· ≠ '\n')) with
        | none => .error .invalid
        | some shape =>
          if !allAscii (l.drop ((l.takeWhile (· ≠ 10)).length + 1)) then .error .invalid
          else match (splitWs (bytesToChars (l.drop ((l.takeWhile (· ≠ 10)).length + 1)))).mapM parseF64 with
            | none => .error .invalid
            | some vals => if checkedSize shape = some vals.length then .ok (shape, vals) else .error .invalid) := by
  have hsplit := List.line_append_rest l
  have hall := allAscii_append
    (l.takeWhile (· ≠ 10) ++ (if (l.takeWhile (· ≠ 10)).length < l.length then [10] else []))
    (l.drop ((l.takeWhile (· ≠ 10)).length + 1))
  rw [hsplit] at hall
  unfold readText
  by_cases ha : allAscii l = true
  · rw [ha] at hall
    have hL : allAscii (l.takeWhile (· ≠ 10) ++ (if (l.takeWhile (· ≠ 10)).length < l.length then [10] else [])) = true := by
      revert hall; cases allAscii (l.takeWhile (· ≠ 10) ++ (if (l.takeWhile (· ≠ 10)).length < l.length then [10] else [])) <;> simp
    have hR : allAscii (l.drop ((l.takeWhile (· ≠ 10)).length + 1)) = true := by
      rw [hL] at hall; simpa using hall.symm
    rw [hL, hR, ha, bytesToChars_line _ ha, bytesToChars_rest _ ha]
    rfl
  · have ha' : allAscii l = false := by simpa using ha
    rw [ha'] at hall
    rw [ha', if_pos (show (!false) = true from rfl)]
    by_cases hL : allAscii (l.takeWhile (· ≠ 10) ++ (if (l.takeWhile (· ≠ 10)).length < l.length then [10] else [])) = true
    · have hR : allAscii (l.drop ((l.takeWhile (· ≠ 10)).length + 1)) = false := by
        rw [hL] at hall; simpa using hall.symm
      rw [hL, hR]
      cases parseTextHeader (List.takeWhile (· ≠ '\n') (bytesToChars
        (l.takeWhile (· ≠ 10) ++ (if (l.takeWhile (· ≠ 10)).length < l.length then [10] else [])))) <;> rfl
    · have hL' : allAscii (l.takeWhile (· ≠ 10) ++ (if (l.takeWhile (· ≠ 10)).length < l.length then [10] else [])) = false := by
        simpa using hL
      rw [hL']; rfl

theorem readTextRd_ok (r : Rd) (h : Rd.Ok r) : readTextRd r = readText r.data := by
  rw [readText_split]
  unfold readTextRd
  obtain ⟨r1, he1, hok1, hd1⟩ := Rd.readLine_ok (r.data.length + 1) r h (Nat.lt_succ_self _)
  rw [he1]; dsimp only
  obtain ⟨r2, he2, _⟩ := Rd.readToEnd_schedule_free (r1.data.length + 1) r1 hok1 (Nat.lt_succ_self _)
  rw [he2]; dsimp only
  rw [hd1]
  rfl

/-- the text reader on a failing reader reports the I/O error, or (bad header line before the failure point) the error
    it reports on the whole byte string. -/
theorem readTextRd_fail (r : Rd) (k : Nat) (hF : Rd.Fail r k) :
    readTextRd r = .error .io ∨ ∃ e, readTextRd r = .error e ∧ readText r.data = .error e := by
  rw [readText_split]
  unfold readTextRd
  rcases Rd.readLine_fail (r.data.length + 1) r k hF (Nat.lt_succ_self _) with he | ⟨r1, k1, he, hF1, _⟩
  · rw [he]; exact Or.inl rfl
  · rw [he]; dsimp only
    rw [Rd.readToEnd_fail (r1.data.length + 1) r1 k1 hF1 (Nat.lt_succ_self _)]
    by_cases hL : (!allAscii (r.data.takeWhile (· ≠ 10) ++
        (if (r.data.takeWhile (· ≠ 10)).length < r.data.length then [10] else []))) = true
    · rw [if_pos hL, if_pos hL]; exact Or.inr ⟨_, rfl, rfl⟩
    · rw [if_neg hL, if_neg hL]
      cases parseTextHeader (List.takeWhile (· ≠ '\n') (bytesToChars (r.data.takeWhile (· ≠ 10) ++
        (if (r.data.takeWhile (· ≠ 10)).length < r.data.length then [10] else [])))) with
      | none => exact Or.inr ⟨_, rfl, rfl⟩
      | some shape => exact Or.inl rfl

/-! ## writers -/

theorem Wr.writeAll_none (fuel : Nat) (buf : List Nat) (w : Wr) (hf : w.failAt = none) (hfuel : buf.length ≤ fuel) :
    ∃ w', Wr.writeAll fuel buf w = .ok w' ∧ w'.out = w.out ++ buf ∧ w'.failAt = none := by
  induction fuel generalizing buf w with
  | zero =>
    cases buf with
    | nil => exact ⟨w, rfl, by simp, hf⟩
    | cons x xs => simp at hfuel
  | succ fuel ih =>
    cases buf with
    | nil => exact ⟨w, rfl, by simp, hf⟩
    | cons x xs =>
      rw [Wr.writeAll]
      · simp only [Wr.write, hf, Option.map_none]
        have hc : min (max 1 (w.sched.headD (x :: xs).length)) (x :: xs).length ≠ 0 := by
          simp only [List.length_cons]; omega
        rw [if_neg hc]
        obtain ⟨w', he, ho, hf'⟩ := ih (List.drop (min (max 1 (w.sched.headD (x :: xs).length)) (x :: xs).length) (x :: xs))
          { out := w.out ++ List.take (min (max 1 (w.sched.headD (x :: xs).length)) (x :: xs).length) (x :: xs),
            sched := w.sched.tail, failAt := none } rfl
          (by simp only [List.length_drop, List.length_cons] at hfuel ⊢; omega)
        refine ⟨w', he, ?_, hf'⟩
        rw [ho, List.append_assoc, List.take_append_drop]
      · intro h; cases h

theorem Wr.writePieces_none (ps : List (List Nat)) (w : Wr) (hf : w.failAt = none) :
    ∃ w', w.writePieces ps = .ok w' ∧ w'.out = w.out ++ ps.flatten ∧ w'.failAt = none := by
  induction ps generalizing w with
  | nil => exact ⟨w, rfl, by simp, hf⟩
  | cons p ps ih =>
    obtain ⟨w1, he1, ho1, hf1⟩ := Wr.writeAll_none p.length p w hf (Nat.le_refl _)
    obtain ⟨w2, he2, ho2, hf2⟩ := ih w1 hf1
    refine ⟨w2, ?_, ?_, hf2⟩
    · rw [Wr.writePieces, Wr.writeAllOf, he1]; exact he2
    · rw [ho2, ho1, List.flatten_cons, List.append_assoc]

/-- `write_all` through a writer failing after `k` more bytes. -/
theorem Wr.writeAll_fail (fuel : Nat) (buf : List Nat) (w : Wr) (k : Nat) (hf : w.failAt = some k)
    (hfuel : buf.length ≤ fuel) :
    (k < buf.length ∧ Wr.writeAll fuel buf w = .error .io) ∨
    (buf.length ≤ k ∧ ∃ w', Wr.writeAll fuel buf w = .ok w' ∧ w'.failAt = some (k - buf.length)) := by
  induction fuel generalizing buf w k with
  | zero =>
    cases buf with
    | nil => exact Or.inr ⟨Nat.zero_le _, w, rfl, by simpa using hf⟩
    | cons x xs => simp at hfuel
  | succ fuel ih =>
    cases buf with
    | nil => exact Or.inr ⟨Nat.zero_le _, w, rfl, by simpa using hf⟩
    | cons x xs =>
      rw [Wr.writeAll]
      · cases k with
        | zero =>
          left
          refine ⟨by simp, ?_⟩
          simp [Wr.write, hf]
        | succ k =>
          simp only [Wr.write, hf, Option.map_some]
          have hc : min (min (max 1 (w.sched.headD (x :: xs).length)) (x :: xs).length) (k + 1) ≠ 0 := by
            simp only [List.length_cons]; omega
          rw [if_neg hc]
          have hcl : min (min (max 1 (w.sched.headD (x :: xs).length)) (x :: xs).length) (k + 1) ≤ (x :: xs).length := by
            omega
          have hck : min (min (max 1 (w.sched.headD (x :: xs).length)) (x :: xs).length) (k + 1) ≤ k + 1 := by
            omega
          generalize min (min (max 1 (w.sched.headD (x :: xs).length)) (x :: xs).length) (k + 1) = c at hc hcl hck
          rcases ih (List.drop c (x :: xs))
              { out := w.out ++ List.take c (x :: xs), sched := w.sched.tail, failAt := some (k + 1 - c) }
              (k + 1 - c) rfl (by simp only [List.length_drop, List.length_cons] at hfuel hcl ⊢; omega) with
            ⟨hlt, he⟩ | ⟨hle, w', he, hf'⟩
          · rw [List.length_drop] at hlt
            exact Or.inl ⟨by omega, he⟩
          · rw [List.length_drop] at hle hf'
            refine Or.inr ⟨by omega, w', he, ?_⟩
            rw [hf']; congr 1; omega
      · intro h; cases h

theorem Wr.writePieces_fail (ps : List (List Nat)) (w : Wr) (k : Nat) (hf : w.failAt = some k) :
    (k < ps.flatten.length ∧ w.writePieces ps = .error .io) ∨
    (ps.flatten.length ≤ k ∧ ∃ w', w.writePieces ps = .ok w' ∧ w'.failAt = some (k - ps.flatten.length)) := by
  induction ps generalizing w k with
  | nil => exact Or.inr ⟨Nat.zero_le _, w, rfl, by simpa using hf⟩
  | cons p ps ih =>
    rw [Wr.writePieces, Wr.writeAllOf, List.flatten_cons, List.length_append]
    rcases Wr.writeAll_fail p.length p w k hf (Nat.le_refl _) with ⟨hlt, he⟩ | ⟨hle, w1, he, hf1⟩
    · rw [he]; exact Or.inl ⟨by omega, rfl⟩
    · rw [he]
      dsimp only
      rcases ih w1 (k - p.length) hf1 with ⟨hlt, he2⟩ | ⟨hle2, w2, he2, hf2⟩
      · exact Or.inl ⟨by omega, he2⟩
      · refine Or.inr ⟨by omega, w2, he2, ?_⟩
        rw [hf2]; congr 1; omega

theorem writeNpyWr_none (shape bits : List Nat) (w : Wr) (hf : w.failAt = none) :
    (∀ bytes, writeNpy shape bits = .ok bytes →
      ∃ w', writeNpyWr shape bits w = .ok w' ∧ w'.out = w.out ++ bytes) ∧
    (∀ e, writeNpy shape bits = .error e → writeNpyWr shape bits w = .error e) := by
  unfold writeNpyWr writeNpy npyHeader
  dsimp only
  obtain ⟨w1, he1, ho1, hf1⟩ := Wr.writePieces_none [npyMagic, [1, 0]] w hf
  rw [he1]
  dsimp only
  by_cases hlen : (npyDict shape).length + (64 - (6 + 2 + 2 + (npyDict shape).length) % 64) < 65536
  · rw [if_pos hlen, if_pos hlen]
    dsimp only
    obtain ⟨w2, he2, ho2, hf2⟩ := Wr.writePieces_none
      ([leBytes 2 ((npyDict shape).length + (64 - (6 + 2 + 2 + (npyDict shape).length) % 64)),
            asciiBytes (npyDict shape),
            List.replicate (64 - (6 + 2 + 2 + (npyDict shape).length) % 64 - 1) 32 ++ [10]] ++
          List.map (leBytes 8) bits) w1 hf1
    refine ⟨fun bytes hb => ⟨w2, he2, ?_⟩, fun e he => by cases he⟩
    cases hb
    rw [ho2, ho1]
    simp only [List.flatten_cons, List.flatten_nil, List.flatten_append, List.append_assoc, List.append_nil]
  · rw [if_neg hlen, if_neg hlen]
    dsimp only
    refine ⟨fun bytes hb => ?_, fun e he => ?_⟩
    · cases hb
    · cases he; rfl

theorem writeNpyWr_fail (shape bits bytes : List Nat) (w : Wr) (k : Nat) (hf : w.failAt = some k)
    (hw : writeNpy shape bits = .ok bytes) (hk : k < bytes.length) : writeNpyWr shape bits w = .error .io := by
  unfold writeNpy npyHeader at hw
  unfold writeNpyWr
  dsimp only at hw ⊢
  by_cases hlen : (npyDict shape).length + (64 - (6 + 2 + 2 + (npyDict shape).length) % 64) < 65536
  · rw [if_pos hlen] at hw
    dsimp only at hw
    have hbytes : bytes = [npyMagic, [1, 0]].flatten ++
        ([leBytes 2 ((npyDict shape).length + (64 - (6 + 2 + 2 + (npyDict shape).length) % 64)),
            asciiBytes (npyDict shape),
            List.replicate (64 - (6 + 2 + 2 + (npyDict shape).length) % 64 - 1) 32 ++ [10]] ++
          List.map (leBytes 8) bits).flatten := by
      cases hw
      simp only [List.flatten_cons, List.flatten_nil, List.flatten_append, List.append_assoc, List.append_nil]
    rw [hbytes, List.length_append] at hk
    rcases Wr.writePieces_fail [npyMagic, [1, 0]] w k hf with ⟨hlt, he⟩ | ⟨hle, w1, he, hf1⟩
    · rw [he]
    · rw [he]
      dsimp only
      rw [if_pos hlen]
      rcases Wr.writePieces_fail
        ([leBytes 2 ((npyDict shape).length + (64 - (6 + 2 + 2 + (npyDict shape).length) % 64)),
            asciiBytes (npyDict shape),
            List.replicate (64 - (6 + 2 + 2 + (npyDict shape).length) % 64 - 1) 32 ++ [10]] ++
          List.map (leBytes 8) bits) w1 _ hf1 with ⟨hlt, he2⟩ | ⟨hle2, _⟩
      · exact he2
      · omega
  · rw [if_neg hlen] at hw
    cases hw

theorem asciiBytes_append (a b : List Char) : asciiBytes (a ++ b) = asciiBytes a ++ asciiBytes b := by
  simp [asciiBytes]

/-- the byte string of `writeText` as the concatenation of the pieces `write_spectrum` writes. -/
theorem writeText_pieces (shape bits : List Nat) (p : Nat) :
    asciiBytes (writeText shape bits p) =
      (match bits with
       | [] => [asciiBytes (textHeader shape), [10], [10]]
       | b :: rest => [asciiBytes (textHeader shape), [10],
          asciiBytes (rest.foldl (fun s x => s ++ ' ' :: fmtFixed x p) (fmtFixed b p)), [10]]).flatten := by
  unfold writeText
  cases bits with
  | nil => simp [asciiBytes]
  | cons b rest => simp [asciiBytes]

theorem writeTextWr_none (shape bits : List Nat) (p : Nat) (w : Wr) (hf : w.failAt = none) :
    ∃ w', writeTextWr shape bits p w = .ok w' ∧ w'.out = w.out ++ asciiBytes (writeText shape bits p) := by
  rw [writeText_pieces]
  unfold writeTextWr
  cases bits with
  | nil =>
    obtain ⟨w', he, ho, _⟩ := Wr.writePieces_none [asciiBytes (textHeader shape), [10], [10]] w hf
    exact ⟨w', he, ho⟩
  | cons b rest =>
    obtain ⟨w', he, ho, _⟩ := Wr.writePieces_none [asciiBytes (textHeader shape), [10],
      asciiBytes (rest.foldl (fun s x => s ++ ' ' :: fmtFixed x p) (fmtFixed b p)), [10]] w hf
    exact ⟨w', he, ho⟩

theorem writeTextWr_fail (shape bits : List Nat) (p k : Nat) (w : Wr) (hf : w.failAt = some k)
    (hk : k < (writeText shape bits p).length) : writeTextWr shape bits p w = .error .io := by
  have hl : (writeText shape bits p).length = (asciiBytes (writeText shape bits p)).length := by
    simp [asciiBytes]
  rw [hl, writeText_pieces] at hk
  unfold writeTextWr
  cases bits with
  | nil =>
    rcases Wr.writePieces_fail [asciiBytes (textHeader shape), [10], [10]] w k hf with ⟨_, he⟩ | ⟨hle, _⟩
    · exact he
    · dsimp only at hk; omega
  | cons b rest =>
    rcases Wr.writePieces_fail [asciiBytes (textHeader shape), [10],
      asciiBytes (rest.foldl (fun s x => s ++ ' ' :: fmtFixed x p) (fmtFixed b p)), [10]] w k hf with
      ⟨_, he⟩ | ⟨hle, _⟩
    · exact he
    · dsimp only at hk; omega

end Sfs
