/-
Helper lemmas for C18: schedule independence and failure propagation over the `Rd` / `Wr` models.
-/
import SfsModel.Lemmas.IoModel
import SfsModel.Model.Detect
namespace Sfs

/-! ## readers without failure -/

theorem List.isEmpty_false_of_length_pos {α} (l : List α) (h : 0 < l.length) : l.isEmpty = false := by
  cases l with
  | nil => simp at h
  | cons _ _ => rfl

/-- `read_exact(n)` on an `Ok` reader: the next `n` bytes, or EOF. -/
theorem Rd.readExact_ok (fuel : Nat) (r : Rd) (h : Rd.Ok r) (n : Nat) (hfuel : n ≤ fuel) :
    (n ≤ r.data.length → ∃ r', r.readExact fuel n = .ok (r.data.take n, r') ∧ Rd.Ok r' ∧ r'.data = r.data.drop n) ∧
    (r.data.length < n → r.readExact fuel n = .error .eof) := by
  induction fuel generalizing r n with
  | zero =>
    have : n = 0 := by omega
    subst this
    refine ⟨fun _ => ⟨r, by simp [Rd.readExact], h, by simp⟩, fun hlt => by omega⟩
  | succ fuel ih =>
    cases n with
    | zero => exact ⟨fun _ => ⟨r, by simp [Rd.readExact], h, by simp⟩, fun hlt => by omega⟩
    | succ n =>
      unfold Rd.readExact
      by_cases hne : r.data = []
      · obtain ⟨r', he, hok, hd, _, _, h0⟩ := Rd.fillBuf_ok r h
        rw [he, h0 hne, hne]
        refine ⟨fun hle => by simp at hle, fun _ => by simp⟩
      · obtain ⟨r', he, hok, hd, h1, hlen⟩ := Rd.fillBuf_ok_nonempty r h hne
        rw [he]
        have hnemp : (r.data.take r'.avail).isEmpty = false :=
          List.isEmpty_false_of_length_pos _ (by omega)
        simp only [hnemp, Bool.false_eq_true, if_false, hlen]
        have hle : r'.avail ≤ r.data.length := hd ▸ hok.1
        have hok2 := Rd.consume_ok r' (min r'.avail (n + 1)) hok
        have hd2 : (r'.consume (min r'.avail (n + 1))).data = r.data.drop (min r'.avail (n + 1)) := by
          rw [Rd.consume_data, hd]
        obtain ⟨ih1, ih2⟩ := ih (r'.consume (min r'.avail (n + 1))) hok2 (n + 1 - min r'.avail (n + 1)) (by omega)
        rw [hd2, List.length_drop] at ih1 ih2
        refine ⟨fun hn => ?_, fun hn => ?_⟩
        · obtain ⟨r'', he2, hok3, hd3⟩ := ih1 (by omega)
          rw [he2]
          refine ⟨r'', ?_, hok3, ?_⟩
          · dsimp only
            have hm : min (min r'.avail (n + 1)) r'.avail = min r'.avail (n + 1) := by omega
            rw [List.take_take, hm, ← List.take_add]
            congr 3
            omega
          · rw [hd3, List.drop_drop]; congr 1; omega
        · rw [ih2 (by omega)]

end Sfs
