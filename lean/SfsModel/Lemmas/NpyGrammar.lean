/-
Helper lemmas (NpyGrammar).
-/
import SfsModel.Lemmas.Bytes
namespace Sfs

end Sfs
