/-
Helper lemmas (NpyGrammar): the nom-combinator model of the npy header dictionary (`SfsModel/Model/Npy.lean`)
run on rendered spellings. The renderers here (`entryG`, `tupleG`, `entriesG`, `renderG`) mirror the ones of
`Props/C15Grammar.lean` field by field (there: `Spelling.entry`, …), so that the glue there is `rfl`.
-/
import SfsModel.Lemmas.Bytes
import Mathlib.Data.List.Permutation
namespace Sfs

/-! ## spaces and "does not start with" -/

def spc (n : Nat) : List Char := List.replicate n ' '

/-- the predicate of `space0`. -/
def wsB (c : Char) : Bool := decide (c = ' ' ∨ c = '\t')

/-- the list does not start with a character satisfying `p` (the side condition of `takeWhile_append_stop`). -/
def HeadNot (p : Char → Bool) (l : List Char) : Prop := ∀ c, l.head? = some c → p c = false

theorem headNot_nil (p : Char → Bool) : HeadNot p [] := by simp [HeadNot]

theorem headNot_cons (p : Char → Bool) (c : Char) (l : List Char) : HeadNot p (c :: l) ↔ p c = false := by
  simp [HeadNot]

theorem headNot_cons_append (p : Char → Bool) (c : Char) (l r : List Char) (h : p c = false) :
    HeadNot p (c :: l ++ r) := by
  simp [HeadNot, h]

theorem headNot_spc_append (p : Char → Bool) (n : Nat) (l : List Char) (h : p ' ' = false) (hl : HeadNot p l) :
    HeadNot p (spc n ++ l) := by
  cases n with
  | zero => simpa [spc] using hl
  | succ n => simp [spc, List.replicate_succ, HeadNot, h]

theorem spc_append_spc (a b : Nat) (r : List Char) : spc a ++ (spc b ++ r) = spc (a + b) ++ r := by
  rw [← List.append_assoc]; simp only [spc, List.replicate_append_replicate]

theorem spc_zero_append (r : List Char) : spc 0 ++ r = r := rfl

/-! ## `space0`, `tag`, separators -/

theorem pSpace0_eq (inp : List Char) : pSpace0 inp = some ((), inp.dropWhile wsB) := rfl

theorem pSpace0_spc (n : Nat) (rest : List Char) (h : HeadNot wsB rest) :
    pSpace0 (spc n ++ rest) = some ((), rest) := by
  rw [pSpace0_eq, (takeWhile_append_stop wsB (spc n) rest ?_ h).2]
  intro x hx
  obtain ⟨_, rfl⟩ := List.mem_replicate.mp hx
  rfl

theorem pSpace0_id (rest : List Char) (h : HeadNot wsB rest) : pSpace0 rest = some ((), rest) :=
  pSpace0_spc 0 rest h

theorem pTag_one_hit (c : Char) (r : List Char) : pTag [c] (c :: r) = some ((), r) := by
  simp [pTag, List.isPrefixOf]

theorem pTag_one_miss (c c' : Char) (r : List Char) (h : c' ≠ c) : pTag [c] (c' :: r) = none := by
  simp [pTag, List.isPrefixOf, Ne.symm h]

theorem pWsSep_spc (c : Char) (hc : wsB c = false) (a b : Nat) (rest : List Char) (h : HeadNot wsB rest) :
    pWsSep [c] (spc a ++ c :: (spc b ++ rest)) = some ((), rest) := by
  unfold pWsSep
  rw [pSpace0_spc a _ ((headNot_cons _ _ _).mpr hc)]
  simp only [pTag_one_hit, pSpace0_spc b rest h]

theorem pWsSep_spc2 (c : Char) (hc : wsB c = false) (a b b' : Nat) (rest : List Char) (h : HeadNot wsB rest) :
    pWsSep [c] (spc a ++ c :: (spc b ++ (spc b' ++ rest))) = some ((), rest) := by
  rw [spc_append_spc]; exact pWsSep_spc c hc a _ rest h

theorem pWsSep_miss (c c' : Char) (hc' : wsB c' = false) (hne : c' ≠ c) (n : Nat) (r : List Char) :
    pWsSep [c] (spc n ++ c' :: r) = none := by
  unfold pWsSep
  rw [pSpace0_spc n _ ((headNot_cons _ _ _).mpr hc')]
  simp only [pTag_one_miss c c' r hne]

/-! ## quoted strings -/

theorem pQuote_hit (q : Char) (body rest : List Char) (hne : body ≠ []) (hfree : ∀ c ∈ body, c ≠ q) :
    pQuote q (q :: (body ++ q :: rest)) = some (body, rest) := by
  have h := takeWhile_append_stop (fun c => decide (c ≠ q)) body (q :: rest)
    (fun x hx => by simpa using hfree x hx) (fun x hx => by simp at hx; simp [hx])
  have hb : body.isEmpty = false := by cases body with
    | nil => exact absurd rfl hne
    | cons _ _ => rfl
  simp only [pQuote, if_true, h.1, h.2, hb, Bool.false_eq_true, if_false]

theorem pQuote_miss (q c : Char) (r : List Char) (h : c ≠ q) : pQuote q (c :: r) = none := by
  simp [pQuote, h]

theorem pString_hit (q : Char) (hq : q = '\'' ∨ q = '"') (body rest : List Char) (hne : body ≠ [])
    (hfree : ∀ c ∈ body, c ≠ q) : pString (q :: (body ++ q :: rest)) = some (body, rest) := by
  unfold pString
  rcases hq with rfl | rfl
  · rw [pQuote_hit _ body rest hne hfree]
  · rw [pQuote_miss '\'' '"' _ (by decide), pQuote_hit _ body rest hne hfree]

theorem pString_miss (c : Char) (r : List Char) (h1 : c ≠ '\'') (h2 : c ≠ '"') : pString (c :: r) = none := by
  unfold pString
  rw [pQuote_miss _ _ _ h1, pQuote_miss _ _ _ h2]

theorem pTargetString_hit (q : Char) (hq : q = '\'' ∨ q = '"') (key rest : List Char) (hne : key ≠ [])
    (hfree : ∀ c ∈ key, c ≠ q) : pTargetString key (q :: (key ++ q :: rest)) = some ((), rest) := by
  unfold pTargetString
  rw [pString_hit q hq key rest hne hfree]
  simp

theorem pTargetString_miss (q : Char) (hq : q = '\'' ∨ q = '"') (key key' rest : List Char) (hne : key ≠ [])
    (hfree : ∀ c ∈ key, c ≠ q) (hk : key ≠ key') : pTargetString key' (q :: (key ++ q :: rest)) = none := by
  unfold pTargetString
  rw [pString_hit q hq key rest hne hfree]
  simp [hk]

theorem pTargetString_nostring (key : List Char) (c : Char) (r : List Char) (h1 : c ≠ '\'') (h2 : c ≠ '"') :
    pTargetString key (c :: r) = none := by
  unfold pTargetString
  rw [pString_miss c r h1 h2]

/-! ## descr values -/

theorem pType_name (t : NpyTy) (r : List Char) : pType (t.name ++ r) = some (t, r) := by
  cases t <;> rfl

theorem pType_eq_some (inp s : List Char) (t : NpyTy) : pType inp = some (t, s) ↔ inp = t.name ++ s := by
  constructor
  · intro h
    unfold pType at h
    split at h <;> first
      | (simp only [Option.some.injEq, Prod.mk.injEq] at h; obtain ⟨rfl, rfl⟩ := h; rfl)
      | cases h
  · rintro rfl; exact pType_name t s

/-- the byte-order characters and what they mean. -/
def EndianOf (c : Char) (e : Endian) : Prop := (c = '<' ∨ c = '|') ∧ e = .little ∨ c = '>' ∧ e = .big

theorem pEndian_eq_some (inp s : List Char) (e : Endian) :
    pEndian inp = some (e, s) ↔ ∃ c, inp = c :: s ∧ EndianOf c e := by
  unfold EndianOf
  constructor
  · intro h
    unfold pEndian at h
    split at h <;> simp_all
  · rintro ⟨c, rfl, (⟨rfl | rfl, rfl⟩ | ⟨rfl, rfl⟩)⟩ <;> rfl

/-- the part of `pDescrValue` after the string has been cut out. -/
def descrOfString (s : List Char) : Option (Endian × NpyTy) :=
  match pEndian s with
  | some (e, s1) => match pType s1 with
    | some (t, []) => some (e, t)
    | _ => none
  | none => none

theorem descrOfString_eq_some (s : List Char) (e : Endian) (t : NpyTy) :
    descrOfString s = some (e, t) ↔ ∃ c, s = c :: t.name ∧ EndianOf c e := by
  unfold descrOfString
  constructor
  · intro h
    split at h
    · rename_i e' s1 hE
      split at h
      · rename_i t' hT
        simp only [Option.some.injEq, Prod.mk.injEq] at h
        obtain ⟨rfl, rfl⟩ := h
        obtain ⟨c, rfl, hc⟩ := (pEndian_eq_some _ _ _).mp hE
        have := (pType_eq_some _ _ _).mp hT
        exact ⟨c, by simpa using this, hc⟩
      · cases h
    · cases h
  · rintro ⟨c, rfl, hc⟩
    have hE : pEndian (c :: t.name) = some (e, t.name) := (pEndian_eq_some _ _ _).mpr ⟨c, rfl, hc⟩
    have hT : pType t.name = some (t, []) := by simpa using pType_name t []
    simp only [hE, hT]

theorem pDescrValue_string (q : Char) (hq : q = '\'' ∨ q = '"') (body rest : List Char) (hne : body ≠ [])
    (hfree : ∀ c ∈ body, c ≠ q) :
    pDescrValue (q :: (body ++ q :: rest)) = (descrOfString body).map (fun x => (x, rest)) := by
  unfold pDescrValue descrOfString
  rw [pString_hit q hq body rest hne hfree]
  simp only
  split
  · split <;> simp_all
  · simp_all

/-- general form of `descr_accepted_iff` (either quote character). -/
theorem pDescrValue_eq_some_iff (q : Char) (hq : q = '\'' ∨ q = '"') (body r : List Char) (e : Endian) (t : NpyTy)
    (hne : body ≠ []) (hfree : ∀ c ∈ body, c ≠ q) :
    pDescrValue (q :: (body ++ q :: r)) = some ((e, t), r) ↔ ∃ c, body = c :: t.name ∧ EndianOf c e := by
  rw [pDescrValue_string q hq body r hne hfree, ← descrOfString_eq_some]
  cases descrOfString body <;> simp

theorem name_free (q : Char) (hq : q = '\'' ∨ q = '"') (c : Char) (e : Endian) (t : NpyTy) (hc : EndianOf c e) :
    ∀ x ∈ c :: t.name, x ≠ q := by
  have hcq : c ≠ q := by
    rcases hq with rfl | rfl <;> rcases hc with ⟨rfl | rfl, _⟩ | ⟨rfl, _⟩ <;> decide
  have ht : ∀ x ∈ t.name, x ≠ q := by
    rcases hq with rfl | rfl <;> cases t <;> decide
  intro x hx
  rcases List.mem_cons.mp hx with rfl | hx
  · exact hcq
  · exact ht x hx

theorem pDescrValue_hit (q : Char) (hq : q = '\'' ∨ q = '"') (c : Char) (e : Endian) (t : NpyTy)
    (hc : EndianOf c e) (rest : List Char) :
    pDescrValue (q :: (c :: t.name ++ q :: rest)) = some ((e, t), rest) :=
  (pDescrValue_eq_some_iff q hq (c :: t.name) rest e t (by simp) (name_free q hq c e t hc)).mpr ⟨c, rfl, hc⟩

/-! ## booleans -/

theorem pBool_ite (b : Bool) (r : List Char) :
    pBool ((if b then "True".toList else "False".toList) ++ r) = some (b, r) := by
  cases b <;> simp [pBool, pTag, List.isPrefixOf]

/-! ## separated lists -/

def joinG (sep : List Char) : List (List Char) → List Char
  | [] => []
  | [a] => a
  | a :: rest => a ++ sep ++ joinG sep rest

theorem joinG_cons_cons (sep a b : List Char) (l : List (List Char)) :
    joinG sep (a :: b :: l) = a ++ sep ++ joinG sep (b :: l) := rfl

theorem joinNats_eq_joinG (sep : List Char) : ∀ l : List Nat, joinNats sep l = joinG sep (l.map showNat)
  | [] => rfl
  | [_] => rfl
  | a :: b :: l => by
    have ih := joinNats_eq_joinG sep (b :: l)
    simp only [List.map_cons] at ih
    simp only [joinNats, List.map_cons, joinG_cons_cons, ih]

theorem joinG_head (sep x : List Char) (l : List (List Char)) (tl : List Char) :
    ∃ r, joinG sep (x :: l) ++ tl = x ++ r := by
  cases l with
  | nil => exact ⟨tl, rfl⟩
  | cons y l => exact ⟨sep ++ joinG sep (y :: l) ++ tl, by simp [joinG_cons_cons]⟩

theorem joinG_length (sep : List Char) : ∀ l : List (List Char), (∀ x ∈ l, x ≠ []) → l.length ≤ (joinG sep l).length
  | [], _ => by simp
  | [a], h => by
    have : a ≠ [] := h a (by simp)
    have := List.length_pos_iff.mpr this
    simp only [joinG, List.length_cons, List.length_nil]
    omega
  | a :: b :: l, h => by
    have ha : a ≠ [] := h a (by simp)
    have := List.length_pos_iff.mpr ha
    have ih := joinG_length sep (b :: l) (fun x hx => h x (by simp [hx]))
    simp only [joinG_cons_cons, List.length_append, List.length_cons] at ih ⊢
    omega

theorem sepList_none {α} (sep : P Unit) (f : P α) (inp : List Char) (h : f inp = none) :
    ∀ fuel, pSepList1Opt sep f fuel inp = none
  | 0 => rfl
  | fuel + 1 => by simp [pSepList1Opt, h]

/-- `separated_list1(sep, f)` + `opt(sep)` on a rendered list: `cm` is the spelled separator, `tl` what follows the
    last item, `out` what is left (either `tl` itself or `tl` without the optional trailing separator). -/
theorem sepList_join {α} (sep : P Unit) (f : P α) (cm tl out : List Char)
    (hsep : ∀ r, HeadNot wsB r → sep (cm ++ r) = some ((), r))
    (hcm : ∀ r, HeadNot Char.isDigit (cm ++ r))
    (htl : HeadNot Char.isDigit tl)
    (hterm : (sep tl = none ∧ out = tl) ∨ (sep tl = some ((), out) ∧ f out = none)) :
    ∀ (items : List (List Char × α)) (fuel : Nat), items ≠ [] → items.length < fuel →
      (∀ p ∈ items, (∀ r, HeadNot wsB (p.1 ++ r)) ∧ ∀ r, HeadNot Char.isDigit r → f (p.1 ++ r) = some (p.2, r)) →
      pSepList1Opt sep f fuel (joinG cm (items.map Prod.fst) ++ tl) = some (items.map Prod.snd, out)
  | [], _, h, _, _ => absurd rfl h
  | [p], fuel, _, hfuel, hp => by
    obtain ⟨k, rfl⟩ : ∃ k, fuel = k + 1 := ⟨fuel - 1, by simp at hfuel; omega⟩
    have hf := (hp p (by simp)).2 tl htl
    simp only [List.map_cons, List.map_nil, joinG, pSepList1Opt, hf]
    rcases hterm with ⟨h1, rfl⟩ | ⟨h1, h2⟩
    · simp only [h1]
    · simp only [h1, sepList_none sep f out h2 k]
  | p :: p' :: more, fuel, _, hfuel, hp => by
    obtain ⟨k, rfl⟩ : ∃ k, fuel = k + 1 := ⟨fuel - 1, by simp at hfuel; omega⟩
    have ih := sepList_join sep f cm tl out hsep hcm htl hterm (p' :: more) k (by simp)
      (by simp at hfuel ⊢; omega) (fun x hx => hp x (by simp [hx]))
    have hw : HeadNot wsB (joinG cm ((p' :: more).map Prod.fst) ++ tl) := by
      obtain ⟨r, hr⟩ := joinG_head cm p'.1 (more.map Prod.fst) tl
      rw [List.map_cons, hr]
      exact (hp p' (by simp)).1 r
    have hf := (hp p (by simp)).2 _ (hcm (joinG cm ((p' :: more).map Prod.fst) ++ tl))
    have hs := hsep _ hw
    have e : joinG cm ((p :: p' :: more).map Prod.fst) ++ tl
        = p.1 ++ (cm ++ (joinG cm ((p' :: more).map Prod.fst) ++ tl)) := by
      simp [joinG_cons_cons]
    rw [e]
    unfold pSepList1Opt
    simp only [List.map_cons] at ih hf hs ⊢
    simp only [hf, hs, ih]

/-! ## the spelled separator, tuples -/

def commaG (a b : Nat) : List Char := spc a ++ [','] ++ spc b

theorem commaG_append (a b : Nat) (r : List Char) : commaG a b ++ r = spc a ++ ',' :: (spc b ++ r) := by
  simp [commaG]

theorem commaG_sep (a b : Nat) (r : List Char) (h : HeadNot wsB r) :
    pWsSep [','] (commaG a b ++ r) = some ((), r) := by
  rw [commaG_append]; exact pWsSep_spc ',' (by decide) a b r h

theorem commaG_nondigit (a b : Nat) (r : List Char) : HeadNot Char.isDigit (commaG a b ++ r) := by
  rw [commaG_append]
  exact headNot_spc_append _ _ _ (by decide) ((headNot_cons _ _ _).mpr (by decide))

theorem isDigit_not_ws {c : Char} (h : c.isDigit = true) : wsB c = false := by
  have := isDigit_toNat h
  simp only [wsB, decide_eq_false_iff_not, not_or]
  constructor <;> rintro rfl <;> simp at this

theorem showNat_headNot_ws (n : Nat) (r : List Char) : HeadNot wsB (showNat n ++ r) := by
  obtain ⟨c, t, h, hc⟩ := showNat_head n
  rw [h]; exact headNot_cons_append _ _ _ _ (isDigit_not_ws hc)

def tupleG (a b : Nat) (tt : Bool) (shape : List Nat) : List Char :=
  ['('] ++ joinNats (commaG a b) shape ++ (if tt then commaG a b else []) ++ [')']

theorem pShape_tuple (a b : Nat) (tt : Bool) (shape : List Nat) (rest : List Char) (hne : shape ≠ [])
    (hb : ∀ v ∈ shape, v < 2 ^ 64) : pShape (tupleG a b tt shape ++ rest) = some (shape, rest) := by
  let items : List (List Char × Nat) := shape.map fun n => (showNat n, n)
  have hfst : items.map Prod.fst = shape.map showNat := by simp [items, Function.comp_def]
  have hsnd : items.map Prod.snd = shape := by simp [items, Function.comp_def]
  let tl : List Char := (if tt then commaG a b else []) ++ ')' :: rest
  have e : tupleG a b tt shape ++ rest = '(' :: (joinG (commaG a b) (items.map Prod.fst) ++ tl) := by
    simp [tupleG, joinNats_eq_joinG, hfst, tl]
  have hparen : HeadNot wsB (')' :: rest) := (headNot_cons _ _ _).mpr (by decide)
  have htl : HeadNot Char.isDigit tl := by
    cases tt
    · exact (headNot_cons _ _ _).mpr (by decide)
    · exact commaG_nondigit a b _
  have hterm : (pWsSep [','] tl = none ∧ ')' :: rest = tl) ∨
      (pWsSep [','] tl = some ((), ')' :: rest) ∧ pU64 (')' :: rest) = none) := by
    cases tt
    · exact Or.inl ⟨pWsSep_miss ',' ')' (by decide) (by decide) 0 rest, rfl⟩
    · exact Or.inr ⟨commaG_sep a b _ hparen, pU64_nondigit _ ((headNot_cons _ _ _).mpr (by decide))⟩
  have hitems : ∀ p ∈ items, (∀ r, HeadNot wsB (p.1 ++ r)) ∧
      ∀ r, HeadNot Char.isDigit r → pU64 (p.1 ++ r) = some (p.2, r) := by
    intro p hp
    obtain ⟨n, hn, rfl⟩ := List.mem_map.mp hp
    exact ⟨showNat_headNot_ws n, fun r hr => pU64_showNat n r (hb n hn) hr⟩
  have hlen : items.length < (joinG (commaG a b) (items.map Prod.fst) ++ tl).length + 1 := by
    have := joinG_length (commaG a b) (items.map Prod.fst) (by
      rw [hfst]; intro x hx
      obtain ⟨n, _, rfl⟩ := List.mem_map.mp hx
      exact showNat_ne_nil n)
    simp only [List.length_append, List.length_map] at this ⊢
    omega
  have key := sepList_join (pWsSep [',']) pU64 (commaG a b) tl (')' :: rest) (commaG_sep a b)
    (commaG_nondigit a b) htl hterm items _ (by simpa [items] using hne) hlen hitems
  rw [e]
  unfold pShape
  simp only [pTag_one_hit, key, hsnd]

/-! ## entries -/

def entryG (q : Char) (bc ac : Nat) (key value : List Char) : List Char :=
  [q] ++ key ++ [q] ++ spc bc ++ [':'] ++ spc ac ++ value

theorem entryG_append (q : Char) (bc ac : Nat) (key value rest : List Char) :
    entryG q bc ac key value ++ rest = q :: (key ++ q :: (spc bc ++ ':' :: (spc ac ++ (value ++ rest)))) := by
  simp [entryG]

theorem pEntrySep_spc (bc ac : Nat) (v : List Char) (hv : HeadNot wsB v) :
    pEntrySep (spc bc ++ ':' :: (spc ac ++ v)) = some ((), v) :=
  pWsSep_spc ':' (by decide) bc ac v hv

theorem quote_not_ws (q : Char) (hq : q = '\'' ∨ q = '"') : wsB q = false := by
  rcases hq with rfl | rfl <;> decide

theorem keyD_free (q : Char) (hq : q = '\'' ∨ q = '"') : ∀ c ∈ "descr".toList, c ≠ q := by
  rcases hq with rfl | rfl <;> decide

theorem keyF_free (q : Char) (hq : q = '\'' ∨ q = '"') : ∀ c ∈ "fortran_order".toList, c ≠ q := by
  rcases hq with rfl | rfl <;> decide

theorem keyS_free (q : Char) (hq : q = '\'' ∨ q = '"') : ∀ c ∈ "shape".toList, c ≠ q := by
  rcases hq with rfl | rfl <;> decide

theorem gEntry_descr (q : Char) (hq : q = '\'' ∨ q = '"') (bc ac : Nat) (c : Char) (e : Endian) (t : NpyTy)
    (hc : EndianOf c e) (rest : List Char) :
    pEntry (entryG q bc ac "descr".toList ([q] ++ [c] ++ t.name ++ [q]) ++ rest) = some (.descr e t, rest) := by
  have e1 : [q] ++ [c] ++ t.name ++ [q] ++ rest = q :: (c :: t.name ++ q :: rest) := by simp
  rw [entryG_append, e1]
  unfold pEntry pDescrEntry
  rw [pTargetString_hit q hq _ _ (by decide) (keyD_free q hq)]
  simp only [pEntrySep_spc bc ac _ ((headNot_cons _ _ _).mpr (quote_not_ws q hq)), pDescrValue_hit q hq c e t hc rest]

theorem gEntry_fortran (q : Char) (hq : q = '\'' ∨ q = '"') (bc ac : Nat) (b : Bool) (rest : List Char) :
    pEntry (entryG q bc ac "fortran_order".toList (if b then "True".toList else "False".toList) ++ rest)
      = some (.fortran b, rest) := by
  rw [entryG_append]
  unfold pEntry pDescrEntry pFortranEntry
  rw [pTargetString_miss q hq _ "descr".toList _ (by decide) (keyF_free q hq) (by decide),
    pTargetString_hit q hq _ _ (by decide) (keyF_free q hq)]
  have hv : HeadNot wsB ((if b then "True".toList else "False".toList) ++ rest) := by
    cases b <;> exact (headNot_cons _ _ _).mpr (by decide)
  simp only [pEntrySep_spc bc ac _ hv, pBool_ite]

theorem gEntry_shape (q : Char) (hq : q = '\'' ∨ q = '"') (bc ac a b : Nat) (tt : Bool) (shape : List Nat)
    (rest : List Char) (hne : shape ≠ []) (hb : ∀ v ∈ shape, v < 2 ^ 64) :
    pEntry (entryG q bc ac "shape".toList (tupleG a b tt shape) ++ rest) = some (.shape shape, rest) := by
  rw [entryG_append]
  unfold pEntry pDescrEntry pFortranEntry pShapeEntry
  rw [pTargetString_miss q hq _ "descr".toList _ (by decide) (keyS_free q hq) (by decide),
    pTargetString_miss q hq _ "fortran_order".toList _ (by decide) (keyS_free q hq) (by decide),
    pTargetString_hit q hq _ _ (by decide) (keyS_free q hq)]
  have hv : HeadNot wsB (tupleG a b tt shape ++ rest) := by
    simp only [tupleG, List.append_assoc, List.cons_append, List.nil_append]
    exact (headNot_cons _ _ _).mpr (by decide)
  simp only [pEntrySep_spc bc ac _ hv, pShape_tuple a b tt shape rest hne hb]

theorem gEntry_brace (rest : List Char) : pEntry ('}' :: rest) = none := by
  unfold pEntry pDescrEntry pFortranEntry pShapeEntry
  simp only [pTargetString_nostring _ '}' rest (by decide) (by decide)]

/-! ## the dictionary -/

def renderG (a b : Nat) (trailing : Bool) (lead trail : Nat) (es : List (List Char)) : List Char :=
  ['{'] ++ spc lead ++ joinG (commaG a b) es ++ (if trailing then commaG a b else []) ++ spc trail ++ ['}']

theorem pDict_render (a b : Nat) (trailing : Bool) (lead trail : Nat) (g : List Char → NpyEntry)
    (es : List (List Char)) (rest : List Char) (hne : es ≠ [])
    (H : ∀ x ∈ es, (∃ c t, x = c :: t ∧ wsB c = false) ∧ ∀ r, pEntry (x ++ r) = some (g x, r)) :
    pDict (renderG a b trailing lead trail es ++ rest) = some (es.map g, rest) := by
  let items : List (List Char × NpyEntry) := es.map fun x => (x, g x)
  have hfst : items.map Prod.fst = es := by simp [items, Function.comp_def]
  have hsnd : items.map Prod.snd = es.map g := by simp [items, Function.comp_def]
  have hbrace : HeadNot wsB ('}' :: rest) := (headNot_cons _ _ _).mpr (by decide)
  have hitems : ∀ p ∈ items, (∀ r, HeadNot wsB (p.1 ++ r)) ∧
      ∀ r, HeadNot Char.isDigit r → pEntry (p.1 ++ r) = some (p.2, r) := by
    intro p hp
    obtain ⟨x, hx, rfl⟩ := List.mem_map.mp hp
    obtain ⟨⟨c, t, rfl, hc⟩, h2⟩ := H x hx
    exact ⟨fun r => headNot_cons_append _ _ _ _ hc, fun r _ => h2 r⟩
  have hine : items ≠ [] := by simpa [items] using hne
  have hhead : ∀ tl, HeadNot wsB (joinG (commaG a b) (items.map Prod.fst) ++ tl) := by
    intro tl
    cases hi : items with
    | nil => exact absurd hi hine
    | cons p more =>
      obtain ⟨r, hr⟩ := joinG_head (commaG a b) p.1 (more.map Prod.fst) tl
      rw [List.map_cons, hr]
      exact (hitems p (by simp [hi])).1 r
  have hlen : ∀ tl, items.length < (joinG (commaG a b) (items.map Prod.fst) ++ tl).length + 1 := by
    intro tl
    have := joinG_length (commaG a b) (items.map Prod.fst) (by
      rw [hfst]; intro x hx
      obtain ⟨⟨c, t, rfl, _⟩, _⟩ := H x hx
      simp)
    simp only [List.length_append, List.length_map] at this ⊢
    omega
  cases trailing
  · -- no trailing comma: the separator fails on `sp trail ++ "}"` and nothing of it is consumed
    let tl : List Char := spc trail ++ '}' :: rest
    have e : renderG a b false lead trail es ++ rest
        = '{' :: (spc lead ++ (joinG (commaG a b) (items.map Prod.fst) ++ tl)) := by
      simp [renderG, hfst, tl]
    have htl : HeadNot Char.isDigit tl :=
      headNot_spc_append _ _ _ (by decide) ((headNot_cons _ _ _).mpr (by decide))
    have key := sepList_join (pWsSep [',']) pEntry (commaG a b) tl tl (commaG_sep a b)
      (commaG_nondigit a b) htl (Or.inl ⟨pWsSep_miss ',' '}' (by decide) (by decide) trail rest, rfl⟩)
      items _ hine (hlen tl) hitems
    rw [e]
    unfold pDict
    simp only [pTag_one_hit, pSpace0_spc lead _ (hhead tl), key, hsnd]
    simp only [tl, pSpace0_spc trail _ hbrace, pTag_one_hit]
  · -- trailing comma: the separator also eats the spaces before `}`; `pEntry` fails on `}`
    let tl : List Char := commaG a b ++ (spc trail ++ '}' :: rest)
    have e : renderG a b true lead trail es ++ rest
        = '{' :: (spc lead ++ (joinG (commaG a b) (items.map Prod.fst) ++ tl)) := by
      simp [renderG, hfst, tl]
    have hs : pWsSep [','] tl = some ((), '}' :: rest) := by
      simp only [tl, commaG_append]
      exact pWsSep_spc2 ',' (by decide) a b trail _ hbrace
    have key := sepList_join (pWsSep [',']) pEntry (commaG a b) tl ('}' :: rest) (commaG_sep a b)
      (commaG_nondigit a b) (commaG_nondigit a b _) (Or.inr ⟨hs, gEntry_brace rest⟩)
      items _ hine (hlen tl) hitems
    rw [e]
    unfold pDict
    simp only [pTag_one_hit, pSpace0_spc lead _ (hhead tl), key, hsnd]
    simp only [pSpace0_id _ hbrace, pTag_one_hit]

/-! ## all orders -/

theorem perm3 {α} {a b c : α} {l : List α} (h : l.Perm [a, b, c]) :
    l = [a, b, c] ∨ l = [b, a, c] ∨ l = [c, b, a] ∨ l = [b, c, a] ∨ l = [c, a, b] ∨ l = [a, c, b] := by
  have := List.mem_permutations.mpr h
  simpa [List.permutations, List.permutationsAux, List.permutationsAux.rec, List.permutationsAux2] using this

theorem parse_of_pDict (inp rest : List Char) (es : List NpyEntry) (d : NpyDict) (h : pDict inp = some (es, rest))
    (hes : es.Perm [.descr d.endian d.ty, .fortran d.fortran, .shape d.shape]) : parseNpyDict inp = some d := by
  unfold parseNpyDict
  rw [h]
  rcases perm3 hes with rfl | rfl | rfl | rfl | rfl | rfl <;> rfl

/-- what `pEntry` reads from a complete entry string. -/
def entryVal (x : List Char) : NpyEntry :=
  match pEntry x with
  | some (e, _) => e
  | none => .fortran false

theorem entryVal_of (x : List Char) (e : NpyEntry) (h : ∀ r, pEntry (x ++ r) = some (e, r)) : entryVal x = e := by
  have := h []
  rw [List.append_nil] at this
  simp [entryVal, this]

def entriesG (q : Char) (bc ac a b : Nat) (tt : Bool) (c : Char) (d : NpyDict) : List (List Char) :=
  [entryG q bc ac "descr".toList ([q] ++ [c] ++ d.ty.name ++ [q]),
   entryG q bc ac "fortran_order".toList (if d.fortran then "True".toList else "False".toList),
   entryG q bc ac "shape".toList (tupleG a b tt d.shape)]

theorem entryG_head (q : Char) (hq : q = '\'' ∨ q = '"') (bc ac : Nat) (key value : List Char) :
    ∃ c t, entryG q bc ac key value = c :: t ∧ wsB c = false :=
  ⟨q, _, by simp [entryG]; rfl, quote_not_ws q hq⟩

/-- every spelling, every order. -/
theorem parse_renderG (q : Char) (hq : q = '\'' ∨ q = '"') (bc ac a b : Nat) (trailing tt : Bool) (lead trail : Nat)
    (c : Char) (d : NpyDict) (hc : EndianOf c d.endian) (es : List (List Char)) (rest : List Char)
    (hperm : es.Perm (entriesG q bc ac a b tt c d)) (hne : d.shape ≠ []) (hb : ∀ v ∈ d.shape, v < 2 ^ 64) :
    parseNpyDict (renderG a b trailing lead trail es ++ rest) = some d := by
  have hD := gEntry_descr q hq bc ac c d.endian d.ty hc
  have hF := gEntry_fortran q hq bc ac d.fortran
  have hS := fun rest => gEntry_shape q hq bc ac a b tt d.shape rest hne hb
  have H0 : ∀ x ∈ entriesG q bc ac a b tt c d,
      (∃ c t, x = c :: t ∧ wsB c = false) ∧ ∀ r, pEntry (x ++ r) = some (entryVal x, r) := by
    intro x hx
    simp only [entriesG, List.mem_cons, List.not_mem_nil, or_false] at hx
    rcases hx with rfl | rfl | rfl
    · exact ⟨entryG_head q hq _ _ _ _, by rw [entryVal_of _ _ hD]; exact hD⟩
    · exact ⟨entryG_head q hq _ _ _ _, by rw [entryVal_of _ _ hF]; exact hF⟩
    · exact ⟨entryG_head q hq _ _ _ _, by rw [entryVal_of _ _ hS]; exact hS⟩
  have hes : es ≠ [] := by
    intro h; rw [h] at hperm; simpa [entriesG] using hperm.length_eq
  have hp := pDict_render a b trailing lead trail entryVal es rest hes (fun x hx => H0 x (hperm.mem_iff.mp hx))
  refine parse_of_pDict _ rest _ d hp ?_
  have := hperm.map entryVal
  unfold entriesG at this
  rw [List.map_cons, List.map_cons, List.map_cons, List.map_nil,
    entryVal_of _ _ hD, entryVal_of _ _ hF, entryVal_of _ _ hS] at this
  exact this

end Sfs
