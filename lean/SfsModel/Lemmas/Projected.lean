/-
Helper lemmas for C02 (projected sites, builder logic, create-then-project).
-/
import SfsModel.Model.Create
import SfsModel.Spec.Create
import SfsModel.Lemmas.Create
import SfsModel.Lemmas.Hyper
import SfsModel.Props.C11
namespace Sfs
open Sfs.Spec

/-! ### classification of a site under projection -/

theorem zipWith_le_all : ∀ (a b : List Nat), a.length = b.length →
    ((List.zipWith (fun t m => decide (m ≤ t)) a b).all id = true ↔
      ∀ j, j < b.length → b.getD j 0 ≤ a.getD j 0)
  | [], [], _ => by simp
  | x :: a, y :: b, h => by
    have ih := zipWith_le_all a b (by simpa using h)
    simp only [List.zipWith_cons_cons, List.all_cons, Bool.and_eq_true, id, decide_eq_true_eq, ih]
    constructor
    · rintro ⟨h0, h1⟩ j hj
      cases j with
      | zero => simpa using h0
      | succ j => simpa using h1 j (by simpa using hj)
    · intro h
      exact ⟨by simpa using h 0 (by simp), fun j hj => by simpa using h (j + 1) (by simpa using hj)⟩
  | [], _ :: _, h => by simp at h
  | _ :: _, [], h => by simp at h

theorem calledTotals_length (npop : Nat) (sel : List (Nat × GtRes)) : (calledTotals npop sel).length = npop := by
  simp [calledTotals]

theorem altCounts_length (npop : Nat) (sel : List (Nat × GtRes)) : (altCounts npop sel).length = npop := by
  simp [altCounts]

theorem siteSpec_proj (cfg : SiteCfg) (pt : List Nat) (hp : cfg.projectTo = some pt)
    (hl : pt.length = numPops cfg.map) (gts : List GtRes)
    (hne : hasPloidyError (selected cfg.map cfg.cols gts) = false) :
    siteSpec cfg gts =
      some (if calledTotals (numPops cfg.map) (selected cfg.map cfg.cols gts) = pt
            then .standard (altCounts (numPops cfg.map) (selected cfg.map cfg.cols gts))
            else if ∀ j, j < pt.length →
                pt.getD j 0 ≤ (calledTotals (numPops cfg.map) (selected cfg.map cfg.cols gts)).getD j 0
              then .projected (calledTotals (numPops cfg.map) (selected cfg.map cfg.cols gts))
                (altCounts (numPops cfg.map) (selected cfg.map cfg.cols gts))
            else .insufficient) := by
  unfold siteSpec
  simp only [hne, hp, Bool.false_eq_true, if_false]
  have hz := zipWith_le_all (calledTotals (numPops cfg.map) (selected cfg.map cfg.cols gts)) pt
    (by rw [calledTotals_length, hl])
  by_cases h1 : calledTotals (numPops cfg.map) (selected cfg.map cfg.cols gts) = pt
  · rw [if_pos h1, if_pos h1]
  · rw [if_neg h1, if_neg h1]
    by_cases h2 : ∀ j, j < pt.length →
        pt.getD j 0 ≤ (calledTotals (numPops cfg.map) (selected cfg.map cfg.cols gts)).getD j 0
    · rw [if_pos h2, if_pos (hz.mpr h2)]
    · rw [if_neg h2, if_neg (mt hz.mp h2)]

/-! ### contributions of projected sites -/

theorem map_succ_pred : ∀ (pt : List Nat), (pt.map (· + 1)).map (· - 1) = pt
  | [] => rfl
  | v :: s => by simp only [List.map_cons, map_succ_pred s, Nat.add_sub_cancel]

theorem getD_map_succ : ∀ (s : List Nat) (j : Nat), j < s.length → (s.map (· + 1)).getD j 0 = s.getD j 0 + 1
  | [], j, h => by simp at h
  | v :: s, 0, _ => by simp
  | v :: s, j + 1, h => by simpa using getD_map_succ s j (by simpa using h)

theorem InB_succ_of_le (pt a : List Nat) (hl : a.length = pt.length)
    (hle : ∀ j, j < pt.length → a.getD j 0 ≤ pt.getD j 0) : InB (pt.map (· + 1)) a := by
  rw [InB_iff_getD]
  refine ⟨by simpa using hl, ?_⟩
  intro j hj
  have hj' : j < pt.length := by simpa using hj
  rw [getD_map_succ pt j hj']
  have := hle j hj'
  omega

section field
variable {α : Type} [Field α]

theorem outShape_proj (cfg : SiteCfg) (pt : List Nat) (hp : cfg.projectTo = some pt) :
    cfg.outShape = pt.map (· + 1) := by
  simp only [SiteCfg.outShape, hp]

theorem contribOfSite_projected_getD (cfg : SiteCfg) (pt t a : List Nat) (hp : cfg.projectTo = some pt)
    (f : Nat) (hf : f < size (pt.map (· + 1))) :
    (contribOfSite (α := α) cfg (some (.projected t a))).getD f 0
      = projectValue t a pt (unflat (pt.map (· + 1)) f) := by
  simp only [contribOfSite, SiteCfg.outShape, hp, Option.getD_some]
  rw [getD_range_map, if_pos hf]

theorem contribOfSite_projected_flat (cfg : SiteCfg) (pt t a : List Nat) (hp : cfg.projectTo = some pt)
    (k : List Nat) (hk : InB (pt.map (· + 1)) k) :
    (contribOfSite (α := α) cfg (some (.projected t a))).getD (flat (pt.map (· + 1)) k) 0
      = projectValue t a pt k := by
  rw [contribOfSite_projected_getD cfg pt t a hp _ (flat_lt _ _ hk), unflat_flat _ _ hk]

theorem contribOfSite_exact_eq_projected (cfg : SiteCfg) (pt a : List Nat) (hp : cfg.projectTo = some pt)
    (hl : a.length = pt.length) (hle : ∀ j, j < pt.length → a.getD j 0 ≤ pt.getD j 0) :
    contribOfSite (α := α) cfg (some (.standard a)) = contribOfSite (α := α) cfg (some (.projected pt a)) := by
  have hin := InB_succ_of_le pt a hl hle
  simp only [contribOfSite, SiteCfg.outShape, hp, Option.getD_some]
  apply List.map_congr_left
  intro f hf
  have hf' := List.mem_range.mp hf
  have hpv := projectValue_self (α := α) (pt.map (· + 1)) a (unflat (pt.map (· + 1)) f) hin
    (unflat_inB _ f hf')
  rw [map_succ_pred] at hpv
  rw [hpv]
  by_cases e : flat (pt.map (· + 1)) a = f
  · rw [if_pos ⟨e, hin⟩, if_pos (by rw [← e]; exact unflat_flat _ _ hin)]
  · rw [if_neg (fun h => e h.1), if_neg]
    intro h
    apply e
    rw [← h, flat_unflat _ _ hf']

end field

/-! ### `--project-individuals` -/

theorem individualsToShape_eq (is : List Nat) (h : ∀ i ∈ is, i < 2 ^ 62) :
    individualsToShape is = is.map (fun i => 2 * i + 1) := by
  unfold individualsToShape
  apply List.map_congr_left
  intro i hi
  have := h i hi
  omega

/-! ### builder decision logic -/

theorem buildSite_some_of_none_some (l : List (String × Pop)) (toShape : List Nat) (cols : List String)
    (cfg0 : SiteCfg) (h0 : buildSite (some l) none cols = .ok cfg0) :
    buildSite (some l) (some toShape) cols =
      if (mapShape cfg0.map).length ≠ toShape.length then
        .error (.projection (.unequalDimensions (mapShape cfg0.map).length toShape.length))
      else match firstSmaller (mapShape cfg0.map) toShape 0 with
        | some (d, f, t) => .error (.projection (.invalidProjection d f t))
        | none => match countOfShape toShape with
          | some pt => .ok ⟨cfg0.map, cfg0.cols, some pt⟩
          | none => .error (.projection .zero) := by
  simp only [buildSite] at h0 ⊢
  generalize sampleMap l = map at h0 ⊢
  by_cases hemp : map.isEmpty = true
  · rw [if_pos hemp] at h0; cases h0
  · rw [if_neg hemp] at h0 ⊢
    cases hfind : map.find? (fun p => !cols.contains p.1) with
    | some p => rw [hfind] at h0; cases h0
    | none =>
      rw [hfind] at h0
      simp only at h0
      injection h0 with h0
      subst h0
      rfl

theorem buildSite_some_of_none (samples : Option (List (String × Pop))) (toShape : List Nat) (cols : List String)
    (cfg0 : SiteCfg) (h0 : buildSite samples none cols = .ok cfg0) :
    buildSite samples (some toShape) cols =
      if (mapShape cfg0.map).length ≠ toShape.length then
        .error (.projection (.unequalDimensions (mapShape cfg0.map).length toShape.length))
      else match firstSmaller (mapShape cfg0.map) toShape 0 with
        | some (d, f, t) => .error (.projection (.invalidProjection d f t))
        | none => match countOfShape toShape with
          | some pt => .ok ⟨cfg0.map, cfg0.cols, some pt⟩
          | none => .error (.projection .zero) := by
  cases samples with
  | none => exact buildSite_some_of_none_some _ toShape cols cfg0 h0
  | some l => exact buildSite_some_of_none_some l toShape cols cfg0 h0

/-! ### complete records: called totals are the full sample sizes -/

theorem lookupPop_of_mem : ∀ (map : List (String × Nat)), (map.map (·.1)).Nodup →
    ∀ p ∈ map, lookupPop map p.1 = some p.2
  | [], _, p, hp => by simp at hp
  | q :: m, hnd, p, hp => by
    simp only [List.map_cons, List.nodup_cons] at hnd
    by_cases e : q.1 = p.1
    · have hpq : p = q := by
        rcases List.mem_cons.mp hp with h | h
        · exact h
        · exact absurd (List.mem_map.mpr ⟨p, h, e.symm⟩) hnd.1
      subst hpq
      simp [lookupPop]
    · have hp' : p ∈ m := by
        rcases List.mem_cons.mp hp with h | h
        · subst h; exact absurd rfl e
        · exact h
      have ih := lookupPop_of_mem m hnd.2 p hp'
      unfold lookupPop at ih ⊢
      simpa [List.find?_cons, e] using ih

/-- With distinct sample names that all occur among the columns, the columns looked up into population `j` are at
    least the listed samples of population `j`. -/
theorem cols_filter_ge (map : List (String × Nat)) (cols : List String) (hk : (map.map (·.1)).Nodup)
    (hmem : ∀ p ∈ map, p.1 ∈ cols) (j : Nat) :
    (map.filter (fun p => p.2 = j)).length ≤ (cols.filter (fun c => lookupPop map c = some j)).length := by
  have hnd' : ((map.filter (fun p => p.2 = j)).map (·.1)).Nodup :=
    hk.sublist (List.filter_sublist.map _)
  have hsub : (map.filter (fun p => p.2 = j)).map (·.1) ⊆ cols.filter (fun c => lookupPop map c = some j) := by
    intro c hc
    obtain ⟨p, hp, rfl⟩ := List.mem_map.mp hc
    obtain ⟨hp1, hp2⟩ := List.mem_filter.mp hp
    have hp2' : p.2 = j := by simpa using hp2
    refine List.mem_filter.mpr ⟨hmem p hp1, ?_⟩
    rw [lookupPop_of_mem map hk p hp1, hp2']
    simp
  have := (List.subperm_of_subset hnd' hsub).length_le
  simpa using this

theorem popSum_calledOf_complete : ∀ (sel : List (Nat × GtRes)) (j : Nat), complete sel = true →
    popSum calledOf sel j = 2 * (sel.filter (fun p => p.1 = j)).length
  | [], j, _ => by simp [popSum_nil]
  | p :: sel, j, h => by
    simp only [complete, List.all_cons, Bool.and_eq_true] at h
    have ih := popSum_calledOf_complete sel j h.2
    rw [popSum_cons, ih, List.filter_cons]
    obtain ⟨pid, g⟩ := p
    cases g with
    | genotype k =>
      by_cases e : pid = j
      · simp [e, calledOf]; omega
      · simp [e]
    | skipped s => simp at h
    | ploidyError => simp at h

theorem filter_filterMap_length (map : List (String × Nat)) (j : Nat) : ∀ Z : List (String × GtRes),
    ((Z.filterMap (fun cg => (lookupPop map cg.1).map (fun pid => (pid, cg.2)))).filter (fun p => p.1 = j)).length
      = (Z.filter (fun cg => lookupPop map cg.1 = some j)).length
  | [] => by simp
  | cg :: Z => by
    have ih := filter_filterMap_length map j Z
    cases hp : lookupPop map cg.1 with
    | none => simpa [List.filterMap_cons, hp, List.filter_cons] using ih
    | some pid =>
      simp only [List.filterMap_cons, hp, Option.map_some, List.filter_cons]
      by_cases e : pid = j
      · subst e; simp [ih]
      · have : ¬ (some pid = some j) := by simpa using e
        simp [e, ih]

/-- For a complete aligned record every listed sample of population `j` contributes two called chromosomes. -/
theorem popSum_calledOf_eq (cfg : SiteCfg) (hc : CfgOk cfg) (l : List GtRes) (hl : l.length = cfg.cols.length)
    (hcomp : complete (selected cfg.map cfg.cols l) = true) (j : Nat) :
    popSum calledOf (selected cfg.map cfg.cols l) j = 2 * (cfg.map.filter (fun p => p.2 = j)).length := by
  rw [popSum_calledOf_complete _ j hcomp]
  unfold selected
  rw [filter_filterMap_length]
  have h2 : ((cfg.cols.zip l).filter (fun cg => lookupPop cfg.map cg.1 = some j)).length
      = (cfg.cols.filter (fun c => lookupPop cfg.map c = some j)).length := by
    have := List.filter_map (f := Prod.fst) (p := fun c => decide (lookupPop cfg.map c = some j))
      (l := cfg.cols.zip l)
    rw [List.map_fst_zip (by omega)] at this
    rw [this, List.length_map]
    rfl
  have h3 := cols_filter_le cfg.map cfg.cols hc.1 j
  have h4 := cols_filter_ge cfg.map cfg.cols hc.2.2.1 hc.2.1 j
  omega

theorem calledTotals_complete (cfg : SiteCfg) (hc : CfgOk cfg) (l : List GtRes) (hl : l.length = cfg.cols.length)
    (hcomp : complete (selected cfg.map cfg.cols l) = true) :
    calledTotals (numPops cfg.map) (selected cfg.map cfg.cols l) = (mapShape cfg.map).map (· - 1) := by
  rw [calledTotals_eq, mapShape, List.map_map]
  apply List.map_congr_left
  intro j _
  rw [popSum_calledOf_eq cfg hc l hl hcomp j]
  simp only [Function.comp]
  omega

/-! ### create, then project = create with projection (complete data) -/

theorem recOk_of_noPloidy (cfg : SiteCfg) (c : String) (p : Nat) (l : List GtRes)
    (h : hasPloidyError (selected cfg.map cfg.cols l) = false) : recOk cfg (.gts c p l) = true := by
  simp only [recOk]
  cases hs : siteSpec cfg l with
  | none => rw [(siteSpec_none_iff cfg l).mp hs] at h; cases h
  | some s => rfl

section field
variable {α : Type} [Field α]

/-- One complete record: its unprojected contribution pushed through the projection operator is its projected
    contribution. -/
theorem contrib_project_complete (cfg : SiteCfg) (hc : CfgOk cfg) (hnp : cfg.projectTo = none) (pt : List Nat)
    (hl : pt.length = numPops cfg.map)
    (hle : ∀ j, j < pt.length → pt.getD j 0 + 1 ≤ (mapShape cfg.map).getD j 0)
    (l : List GtRes) (hwf : l.length = cfg.cols.length) (hwf2 : ∀ k, GtRes.genotype k ∈ l → k ≤ 2)
    (hpe : hasPloidyError (selected cfg.map cfg.cols l) = false)
    (hcomp : complete (selected cfg.map cfg.cols l) = true) (t : Nat) (ht : t < size (pt.map (· + 1))) :
    ∑ f ∈ Finset.range (size (mapShape cfg.map)), (contrib (α := α) cfg l).getD f 0 *
        projectValue ((mapShape cfg.map).map (· - 1)) (unflat (mapShape cfg.map) f) pt (unflat (pt.map (· + 1)) t)
      = (contrib (α := α) ⟨cfg.map, cfg.cols, some pt⟩ l).getD t 0 := by
  have hS : cfg.outShape = mapShape cfg.map := by simp only [SiteCfg.outShape, hnp]
  have hin := alt_in_bounds cfg hc.1 hnp l hwf hwf2
  rw [hS] at hin
  have hs : siteSpec cfg l = some (.standard (altCounts (numPops cfg.map) (selected cfg.map cfg.cols l))) := by
    rw [siteSpec_noproj cfg hnp l, hpe, hcomp]; simp
  have hct := calledTotals_complete cfg hc l hwf hcomp
  have hsp := siteSpec_proj ⟨cfg.map, cfg.cols, some pt⟩ pt rfl hl l hpe
  dsimp only at hsp
  rw [hct] at hsp
  generalize altCounts (numPops cfg.map) (selected cfg.map cfg.cols l) = a at hin hs hsp
  have hL : ∀ f, (contrib (α := α) cfg l).getD f 0 = if flat (mapShape cfg.map) a = f then 1 else 0 := by
    intro f
    unfold contrib
    rw [hs, contribOfSite_standard_getD, hS]
    simp only [hin, and_true]
  simp only [hL, ite_mul, one_mul, zero_mul]
  rw [Finset.sum_ite_eq, if_pos (Finset.mem_range.mpr (flat_lt _ _ hin)), unflat_flat _ _ hin]
  obtain ⟨hal, hab⟩ := (InB_iff_getD _ _).mp hin
  rw [mapShape_length] at hal hab
  unfold contrib
  rw [hsp]
  by_cases h1 : (mapShape cfg.map).map (· - 1) = pt
  · rw [if_pos h1, contribOfSite_exact_eq_projected _ pt a rfl (by omega) ?_,
      contribOfSite_projected_getD _ pt pt a rfl t ht, h1]
    intro j hj
    have := hab j (by omega)
    rw [← h1, getD_map_pred]
    omega
  · rw [if_neg h1, if_pos ?_, contribOfSite_projected_getD _ pt _ a rfl t ht]
    intro j hj
    have := hle j hj
    rw [getD_map_pred]
    omega

theorem sumContrib_project_complete (cfg : SiteCfg) (hc : CfgOk cfg) (hnp : cfg.projectTo = none) (pt : List Nat)
    (hl : pt.length = numPops cfg.map)
    (hle : ∀ j, j < pt.length → pt.getD j 0 + 1 ≤ (mapShape cfg.map).getD j 0)
    (t : Nat) (ht : t < size (pt.map (· + 1))) : ∀ (recs : List Rec), (∀ r ∈ recs, RecWf cfg r) →
    (∀ r ∈ recs, ∃ c p l, r = .gts c p l ∧ hasPloidyError (selected cfg.map cfg.cols l) = false ∧
        complete (selected cfg.map cfg.cols l) = true) →
    ∑ f ∈ Finset.range (size (mapShape cfg.map)), (sumContrib (α := α) cfg recs).getD f 0 *
        projectValue ((mapShape cfg.map).map (· - 1)) (unflat (mapShape cfg.map) f) pt (unflat (pt.map (· + 1)) t)
      = (sumContrib (α := α) ⟨cfg.map, cfg.cols, some pt⟩ recs).getD t 0
  | [], _, _ => by
    simp only [sumContrib_nil, getD_replicate, zero_mul, Finset.sum_const_zero]
  | r :: rs, hwf, hcm => by
    obtain ⟨c, p, l, rfl, hpe, hcomp⟩ := hcm r (by simp)
    have ih := sumContrib_project_complete cfg hc hnp pt hl hle t ht rs (fun x hx => hwf x (by simp [hx]))
      (fun x hx => hcm x (by simp [hx]))
    have hw := hwf _ (List.mem_cons_self)
    have hr := contrib_project_complete (α := α) cfg hc hnp pt hl hle l hw.1 hw.2 hpe hcomp t ht
    rw [sumContrib_cons, sumContrib_cons, zipWith_add_getD _ _ (by rw [recContrib_length, sumContrib_length]),
      ← ih]
    simp only [recContrib]
    rw [← hr, ← Finset.sum_add_distrib]
    apply Finset.sum_congr rfl
    intro f _
    rw [zipWith_add_getD _ _ (by rw [contrib_length, sumContrib_length]), add_mul]

theorem create_then_project_full (cfg : SiteCfg) (hc : CfgOk cfg) (hnp : cfg.projectTo = none)
    (toShape pt : List Nat) (hpt : countOfShape toShape = some pt)
    (hd : (mapShape cfg.map).length = toShape.length)
    (hle : ∀ i, i < toShape.length → toShape.getD i 0 ≤ (mapShape cfg.map).getD i 0)
    (recs : List Rec) (hwf : ∀ r ∈ recs, RecWf cfg r)
    (hcomplete : ∀ r ∈ recs, ∃ c p l, r = .gts c p l ∧ hasPloidyError (selected cfg.map cfg.cols l) = false ∧
        complete (selected cfg.map cfg.cols l) = true)
    (scs scs' : List α) (n k n' k' : Nat)
    (h1 : createRun (α := α) cfg false recs = .ok (scs, n, k))
    (h2 : createRun (α := α) ⟨cfg.map, cfg.cols, some pt⟩ false recs = .ok (scs', n', k')) :
    project (⟨scs, mapShape cfg.map⟩ : Arr α) toShape = .ok ⟨scs', toShape⟩ := by
  obtain ⟨hpos, hpteq⟩ := (countOfShape_some_iff toShape pt).mp hpt
  have hts : pt.map (· + 1) = toShape := by rw [hpteq]; exact map_pred_succ toShape hpos
  have hlpt : pt.length = numPops cfg.map := by rw [hpteq, List.length_map, ← hd, mapShape_length]
  have hok1 : ∀ r ∈ recs, recOk cfg r = true := by
    intro r hr
    obtain ⟨c, p, l, rfl, hpe, _⟩ := hcomplete r hr
    exact recOk_of_noPloidy cfg c p l hpe
  have hok2 : ∀ r ∈ recs, recOk ⟨cfg.map, cfg.cols, some pt⟩ r = true := by
    intro r hr
    obtain ⟨c, p, l, rfl, hpe, _⟩ := hcomplete r hr
    exact recOk_of_noPloidy ⟨cfg.map, cfg.cols, some pt⟩ c p l hpe
  rw [createRun_spec cfg hc.2.2.2.2 false recs hok1 (fun h => by cases h)] at h1
  rw [createRun_spec ⟨cfg.map, cfg.cols, some pt⟩
    (fun pt' h => by injection h with h; subst h; exact hlpt) false recs hok2 (fun h => by cases h)] at h2
  injection h1 with h1; injection h1 with h1 _
  injection h2 with h2; injection h2 with h2 _
  subst h1; subst h2
  subst hts
  have hposS : ∀ v ∈ mapShape cfg.map, 0 < v := by
    intro v hv
    obtain ⟨j, _, rfl⟩ := List.mem_map.mp hv
    omega
  have hok : ProjOk (mapShape cfg.map) (pt.map (· + 1)) := ⟨hd, hposS, hpos, hle⟩
  have hS : cfg.outShape = mapShape cfg.map := by simp only [SiteCfg.outShape, hnp]
  have hlen : (sumContrib (α := α) cfg recs).length = size (mapShape cfg.map) := by rw [sumContrib_length, hS]
  obtain ⟨b, hb⟩ := (project_isOk_iff (⟨sumContrib (α := α) cfg recs, mapShape cfg.map⟩ : Arr α) (pt.map (· + 1))).mpr hok
  obtain ⟨_, hs, hdd⟩ := project_spec _ b _ hlen hb
  rw [hb]
  obtain ⟨bd, bs⟩ := b
  simp only at hs hdd
  subst hs
  congr 2
  rw [hdd, map_succ_pred]
  apply list_ext_getD 0
  · rw [sumContrib_length]; simp [SiteCfg.outShape]
  · intro j hj
    have hj' : j < size (pt.map (· + 1)) := by simpa using hj
    rw [getD_range_map, if_pos hj']
    apply sumContrib_project_complete cfg hc hnp pt hlpt _ j hj' recs hwf hcomplete
    intro i hi
    have := hle i (by simpa using hi)
    rw [getD_map_succ pt i hi] at this
    exact this

end field

end Sfs
