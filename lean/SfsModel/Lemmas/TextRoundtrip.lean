/-
Helper lemmas (TextRoundtrip).
-/
import SfsModel.Model.Text
namespace Sfs
end Sfs
