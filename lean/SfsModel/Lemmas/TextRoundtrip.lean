/-
Helper lemmas (TextRoundtrip): printed values are tokens, special values, header line round trip,
whitespace tokenisation of the value line, `{:.p}` / `from_str` round trip.
-/
import SfsModel.Model.Text
import SfsModel.Lemmas.Bytes
namespace Sfs


theorem isAsciiWs_false_of_isDigit {c : Char} (h : c.isDigit = true) : isAsciiWs c = false := by
  have := isDigit_toNat h
  simp only [isAsciiWs, decide_eq_false_iff_not]
  rintro (rfl | rfl | rfl | rfl | rfl) <;> simp at this

theorem padDigits_isDigit (n w : Nat) : ∀ c ∈ padDigits n w, c.isDigit = true := by
  intro c hc
  simp only [padDigits, List.mem_append, List.mem_replicate] at hc
  rcases hc with ⟨_, rfl⟩ | hc
  · rfl
  · exact toDigits_isDigit n c hc

/-- characters of a printed non-negative number: digits and at most the point. -/
theorem fmtRatFixed_chars (q : Rat) (p : Nat) : ∀ c ∈ fmtRatFixed q p, c.isDigit = true ∨ c = '.' := by
  intro c hc
  unfold fmtRatFixed at hc
  simp only at hc
  split at hc
  · exact .inl (toDigits_isDigit _ c hc)
  · simp only [List.mem_append, List.mem_cons] at hc
    rcases hc with hc | rfl | hc
    · exact .inl (toDigits_isDigit _ c hc)
    · exact .inr rfl
    · exact .inl (padDigits_isDigit _ _ c hc)

/-- a printed non-negative number starts with a digit. -/
theorem fmtRatFixed_head (q : Rat) (p : Nat) : ∃ c t, fmtRatFixed q p = c :: t ∧ c.isDigit = true := by
  unfold fmtRatFixed
  simp only
  split
  · exact showNat_head _
  · obtain ⟨c, t, h, hc⟩ := showNat_head
      ((if 2 * (q.num.natAbs * 10 ^ p % q.den) > q.den then q.num.natAbs * 10 ^ p / q.den + 1
        else if 2 * (q.num.natAbs * 10 ^ p % q.den) < q.den then q.num.natAbs * 10 ^ p / q.den
        else if q.num.natAbs * 10 ^ p / q.den % 2 = 1 then q.num.natAbs * 10 ^ p / q.den + 1
        else q.num.natAbs * 10 ^ p / q.den) / 10 ^ p)
    unfold showNat at h
    exact ⟨c, t ++ _, by rw [h]; rfl, hc⟩

theorem fmtFixed_nan (b p : Nat) (h : f64OfBits b = .nan) : fmtFixed b p = "NaN".toList := by
  simp only [fmtFixed, h]

theorem fmtFixed_inf (b p : Nat) (s : Bool) (h : f64OfBits b = .inf s) :
    fmtFixed b p = if s then "-inf".toList else "inf".toList := by
  simp only [fmtFixed, h]

theorem fmtFixed_fin (b p : Nat) (q : Rat) (h : f64OfBits b = .fin q) :
    fmtFixed b p = (if f64Sign b then ['-'] else []) ++ fmtRatFixed (absRat q) p := by
  simp only [fmtFixed, h]

theorem parseF64_NaN : parseF64 "NaN".toList = some (2047 * 2 ^ 52 + 2 ^ 51) := by decide +kernel
theorem parseF64_inf : parseF64 "inf".toList = some (2047 * 2 ^ 52) := by decide +kernel
theorem parseF64_neg_inf : parseF64 "-inf".toList = some (2 ^ 63 + 2047 * 2 ^ 52) := by decide +kernel
theorem f64OfBits_qnan : f64OfBits (2047 * 2 ^ 52 + 2 ^ 51) = .nan := by decide +kernel
theorem f64OfBits_pinf : f64OfBits (2047 * 2 ^ 52) = .inf false := by decide +kernel
theorem f64OfBits_ninf : f64OfBits (2 ^ 63 + 2047 * 2 ^ 52) = .inf true := by decide +kernel

theorem fmtFixed_tok (b p : Nat) : fmtFixed b p ≠ [] ∧ ∀ c ∈ fmtFixed b p, isAsciiWs c = false := by
  unfold fmtFixed
  split
  · exact ⟨by decide, by decide⟩
  · split <;> exact ⟨by decide, by decide⟩
  · rename_i q _
    obtain ⟨c, t, h, hc⟩ := fmtRatFixed_head (absRat q) p
    refine ⟨by rw [h]; split <;> simp, ?_⟩
    intro c hc
    simp only [List.mem_append] at hc
    rcases hc with hc | hc
    · split at hc
      · simp only [List.mem_singleton] at hc; subst hc; decide
      · cases hc
    · rcases fmtRatFixed_chars _ _ c hc with h | rfl
      · exact isAsciiWs_false_of_isDigit h
      · decide



/-! ## joinNats structure -/

theorem joinNats_cons_cons (sep : List Char) (a b : Nat) (rest : List Nat) :
    joinNats sep (a :: b :: rest) = showNat a ++ sep ++ joinNats sep (b :: rest) := rfl

theorem joinNats_head (sep : List Char) (shape : List Nat) (hne : shape ≠ []) :
    ∃ c t, joinNats sep shape = c :: t ∧ c.isDigit = true := by
  cases shape with
  | nil => exact absurd rfl hne
  | cons a rest =>
    obtain ⟨c, t, h, hc⟩ := showNat_head a
    cases rest with
    | nil => exact ⟨c, t, by simp [joinNats, h], hc⟩
    | cons b rest => exact ⟨c, t ++ sep ++ joinNats sep (b :: rest), by simp [joinNats_cons_cons, h], hc⟩

theorem joinNats_last (sep : List Char) (shape : List Nat) (hne : shape ≠ []) :
    ∃ t c, joinNats sep shape = t ++ [c] ∧ c.isDigit = true := by
  induction shape with
  | nil => exact absurd rfl hne
  | cons a rest ih =>
    cases rest with
    | nil => simpa [joinNats] using showNat_last a
    | cons b rest =>
      obtain ⟨t, c, h, hc⟩ := ih (by simp)
      exact ⟨showNat a ++ sep ++ t, c, by simp [joinNats_cons_cons, h], hc⟩

/-! ## splitOnChar -/

theorem splitOnChar_ne_nil (c : Char) (l : List Char) : splitOnChar c l ≠ [] := by
  cases l with
  | nil => simp [splitOnChar]
  | cons x xs =>
    simp only [splitOnChar]
    split
    · simp
    · split <;> simp

theorem splitOnChar_no_sep (c : Char) (l : List Char) (h : ∀ x ∈ l, x ≠ c) : splitOnChar c l = [l] := by
  induction l with
  | nil => rfl
  | cons x xs ih =>
    have hx : x ≠ c := h x (by simp)
    simp only [splitOnChar, ih (fun y hy => h y (by simp [hy])), hx, if_false]

theorem splitOnChar_append_sep (c : Char) (l r : List Char) (h : ∀ x ∈ l, x ≠ c) :
    splitOnChar c (l ++ c :: r) = l :: splitOnChar c r := by
  induction l with
  | nil =>
    simp only [List.nil_append, splitOnChar]
    cases hr : splitOnChar c r with
    | nil => exact absurd hr (splitOnChar_ne_nil c r)
    | cons cur rest => simp
  | cons x xs ih =>
    have hx : x ≠ c := h x (by simp)
    simp only [List.cons_append, splitOnChar, ih (fun y hy => h y (by simp [hy])), hx, if_false]

theorem showNat_no_slash (n : Nat) : ∀ x ∈ showNat n, x ≠ '/' := by
  intro x hx hs
  subst hs
  have := showNat_isDigit n _ hx
  simp at this

theorem splitOnChar_joinNats (shape : List Nat) (hne : shape ≠ []) :
    splitOnChar '/' (joinNats ['/'] shape) = shape.map showNat := by
  induction shape with
  | nil => exact absurd rfl hne
  | cons a rest ih =>
    cases rest with
    | nil => simpa [joinNats] using splitOnChar_no_sep '/' (showNat a) (showNat_no_slash a)
    | cons b rest =>
      rw [joinNats_cons_cons, List.append_assoc, List.singleton_append,
        splitOnChar_append_sep _ _ _ (showNat_no_slash a), ih (by simp)]
      rfl

/-! ## parseUsize -/

theorem parseUsize_of_digits (s : List Char) (hne : s ≠ []) (hall : ∀ c ∈ s, c.isDigit = true)
    (hv : digitsVal s < 2 ^ 64) : parseUsize s = some (digitsVal s) := by
  have hall' : s.all Char.isDigit = true := by simpa [List.all_eq_true] using hall
  have hne' : s.isEmpty = false := by cases s with | nil => exact absurd rfl hne | cons _ _ => rfl
  unfold parseUsize
  split
  · have := hall '+' (by simp)
    simp at this
  · simp only [hne', hall', hv, Bool.not_true, Bool.or_self, Bool.false_eq_true, if_false, if_true]

theorem parseUsize_showNat (v : Nat) (hv : v < 2 ^ 64) : parseUsize (showNat v) = some v := by
  have := parseUsize_of_digits (showNat v) (showNat_ne_nil v) (showNat_isDigit v) (by rwa [digitsVal_showNat])
  rwa [digitsVal_showNat] at this

theorem mapM_parseUsize_showNat (shape : List Nat) (hb : ∀ v ∈ shape, v < 2 ^ 64) :
    (shape.map showNat).mapM parseUsize = some shape := by
  induction shape with
  | nil => rfl
  | cons a rest ih =>
    simp only [List.map_cons, List.mapM_cons, parseUsize_showNat a (hb a (by simp)),
      ih (fun v hv => hb v (by simp [hv]))]
    rfl

/-! ## trimming -/

theorem trimStart_header (c : Char) (t : List Char) (hc : c.isDigit = true) :
    trimStartNonDigit ("#SHAPE=<".toList ++ c :: t) = c :: t := by
  simp [trimStartNonDigit, List.dropWhile, hc]

theorem trimEnd_gt (t : List Char) (c : Char) (hc : c.isDigit = true) :
    trimEndNonDigit (t ++ [c] ++ ['>']) = t ++ [c] := by
  simp [trimEndNonDigit, List.dropWhile, hc]

theorem parseTextHeader_textHeader (shape : List Nat) (hne : shape ≠ []) (hb : ∀ v ∈ shape, v < 2 ^ 64) :
    parseTextHeader (textHeader shape) = some shape := by
  unfold parseTextHeader textHeader
  obtain ⟨c, t, h, hc⟩ := joinNats_head ['/'] shape hne
  obtain ⟨t', c', h', hc'⟩ := joinNats_last ['/'] shape hne
  have h1 : trimStartNonDigit ("#SHAPE=<".toList ++ joinNats ['/'] shape ++ ['>']) = joinNats ['/'] shape ++ ['>'] := by
    rw [h, List.append_assoc, List.cons_append, trimStart_header c _ hc]
  rw [h1, h', trimEnd_gt t' c' hc', ← h', splitOnChar_joinNats shape hne]
  exact mapM_parseUsize_showNat shape hb



/-- a token: non-empty, no ASCII whitespace. -/
def IsTok (t : List Char) : Prop := t ≠ [] ∧ ∀ c ∈ t, isAsciiWs c = false

theorem splitWs_ws_cons (c : Char) (cs : List Char) (h : isAsciiWs c = true) : splitWs (c :: cs) = splitWs cs := by
  simp [splitWs, h]

/-- a token followed by end of input or whitespace is split off whole. -/
theorem splitWs_tok_append (tok rest : List Char) (ht : IsTok tok)
    (hr : ∀ d, rest.head? = some d → isAsciiWs d = true) :
    splitWs (tok ++ rest) = tok :: splitWs rest := by
  obtain ⟨hne, hws⟩ := ht
  induction tok with
  | nil => exact absurd rfl hne
  | cons c t ih =>
    have hc : isAsciiWs c = false := hws c (by simp)
    cases t with
    | nil =>
      cases rest with
      | nil => simp [splitWs, hc]
      | cons d r =>
        have hd := hr d rfl
        simp only [List.cons_append, List.nil_append, splitWs, hc, hd, if_true, Bool.false_eq_true, if_false]
        cases splitWs r <;> rfl
    | cons c' t' =>
      have ih' := ih (by simp) (fun x hx => hws x (by simp [hx]))
      have hc' : isAsciiWs c' = false := hws c' (by simp)
      rw [List.cons_append, splitWs]
      simp only [hc, Bool.false_eq_true, if_false, ih']
      simp [hc']

/-- tokens each preceded by a space and the whole terminated by a newline. -/
theorem splitWs_sep_toks (toks : List (List Char)) (h : ∀ t ∈ toks, IsTok t) :
    splitWs (toks.flatMap (fun t => ' ' :: t) ++ ['\n']) = toks := by
  induction toks with
  | nil => decide
  | cons t ts ih =>
    have ih' := ih (fun x hx => h x (by simp [hx]))
    simp only [List.flatMap_cons, List.cons_append, List.append_assoc]
    rw [splitWs_ws_cons _ _ (by decide), splitWs_tok_append t _ (h t (by simp)), ih']
    intro d hd
    cases ts with
    | nil => simp at hd; subst hd; decide
    | cons t2 ts2 => simp at hd; subst hd; decide

theorem foldl_sep_eq {α} (f : α → List Char) (acc : List Char) (rest : List α) :
    rest.foldl (fun s x => s ++ ' ' :: f x) acc = acc ++ rest.flatMap (fun x => ' ' :: f x) := by
  induction rest generalizing acc with
  | nil => simp
  | cons x xs ih => simp [ih]

/-- the value line: tokens joined by single spaces, then the newline, split back into the tokens. -/
theorem splitWs_value_line {α} (f : α → List Char) (hf : ∀ x, IsTok (f x)) (b : α) (rest : List α) :
    splitWs (rest.foldl (fun s x => s ++ ' ' :: f x) (f b) ++ ['\n']) = (b :: rest).map f := by
  simp only [foldl_sep_eq, List.append_assoc, List.map_cons]
  have h2 : rest.flatMap (fun x => ' ' :: f x) = (rest.map f).flatMap (fun t => ' ' :: t) := by
    simp [List.flatMap_map]
  rw [splitWs_tok_append _ _ (hf b), h2, splitWs_sep_toks]
  · intro t ht
    simp only [List.mem_map] at ht
    obtain ⟨x, _, rfl⟩ := ht
    exact hf x
  · intro d hd
    cases rest with
    | nil => simp at hd; subst hd; decide
    | cons t2 ts2 => simp at hd; subst hd; decide

theorem writeText_tokens (shape bits : List Nat) (p : Nat) (hf : ∀ b, IsTok (fmtFixed b p)) :
    ∃ line : List Char, writeText shape bits p = textHeader shape ++ ['\n'] ++ line ++ ['\n'] ∧
      splitWs (line ++ ['\n']) = bits.map (fun b => fmtFixed b p) := by
  cases bits with
  | nil => exact ⟨[], rfl, by simp [splitWs, isAsciiWs]⟩
  | cons b rest => exact ⟨_, rfl, splitWs_value_line (fun b => fmtFixed b p) hf b rest⟩
end Sfs
