/-
Helper lemmas for marginalization (sumAxis in indicator form, composition with the `original - removed` shift,
sorting, error order).
-/
import SfsModel.Model.Spectrum
import SfsModel.Lemmas.Index
import SfsModel.Lemmas.Odometer
import SfsModel.Lemmas.SumBox
import Mathlib.Algebra.BigOperators.Group.Finset.Basic
namespace Sfs
end Sfs
