/-
Helper lemmas for marginalization (sumAxis in indicator form, composition with the `original - removed` shift,
sorting, error order).
-/
import SfsModel.Model.Spectrum
import SfsModel.Lemmas.Index
import SfsModel.Lemmas.Odometer
import SfsModel.Lemmas.SumBox
import SfsModel.Props.C19
import Mathlib.Algebra.BigOperators.Group.Finset.Basic
namespace Sfs
open Finset

/-! ### dropping a set of positions from a list -/

/-- `dropFrom A l n`: delete from `l` the entries whose position (counted from `n`) is listed in `A`. -/
def dropFrom {β} (A : List Nat) (l : List β) (n : Nat) : List β :=
  ((l.zipIdx n).filter (fun p => !A.contains p.2)).map (·.1)

/-- Same body as `Sfs.C04.dropAxes` (definitionally equal). -/
def dropIdx {β} (A : List Nat) (l : List β) : List β := dropFrom A l 0

theorem dropFrom_nil {β} (A : List Nat) (n : Nat) : dropFrom A ([] : List β) n = [] := rfl

theorem dropFrom_cons {β} (A : List Nat) (y : β) (l : List β) (n : Nat) :
    dropFrom A (y :: l) n = if n ∈ A then dropFrom A l (n + 1) else y :: dropFrom A l (n + 1) := by
  unfold dropFrom
  rw [List.zipIdx_cons, List.filter_cons]
  by_cases h : n ∈ A <;> simp [h]

theorem dropFrom_congr {β} (A B : List Nat) : ∀ (l : List β) (n m : Nat),
    (∀ i, i < l.length → (n + i ∈ A ↔ m + i ∈ B)) → dropFrom A l n = dropFrom B l m
  | [], _, _, _ => rfl
  | y :: l, n, m, h => by
    have h0 := h 0 (by simp)
    have ih := dropFrom_congr A B l (n + 1) (m + 1) (fun i hi => by
      have := h (i + 1) (by simpa using hi)
      rwa [show n + 1 + i = n + (i + 1) by omega, show m + 1 + i = m + (i + 1) by omega])
    simp only [Nat.add_zero] at h0
    rw [dropFrom_cons, dropFrom_cons, ih]
    by_cases hn : n ∈ A
    · rw [if_pos hn, if_pos (h0.mp hn)]
    · rw [if_neg hn, if_neg (fun hm => hn (h0.mpr hm))]

theorem dropFrom_removeAt {β} (A B : List Nat) : ∀ (l : List β) (x n : Nat),
    (∀ i, i < x → (n + i ∈ A ↔ n + i ∈ B)) → n + x ∈ B →
    (∀ i, x ≤ i → (n + i ∈ A ↔ n + i + 1 ∈ B)) →
    dropFrom A (removeAt l x) n = dropFrom B l n
  | [], x, n, _, _, _ => by simp [removeAt, dropFrom_nil]
  | y :: l, 0, n, _, h2, h3 => by
    rw [removeAt_zero, dropFrom_cons, if_pos (by simpa using h2)]
    apply dropFrom_congr
    intro i _
    have := h3 i (Nat.zero_le _)
    rwa [show n + 1 + i = n + i + 1 by omega]
  | y :: l, x + 1, n, h1, h2, h3 => by
    have ih := dropFrom_removeAt A B l x (n + 1)
      (fun i hi => by
        have := h1 (i + 1) (by omega)
        rwa [show n + 1 + i = n + (i + 1) by omega])
      (by rwa [show n + 1 + x = n + (x + 1) by omega])
      (fun i hi => by
        have := h3 (i + 1) (by omega)
        rwa [show n + 1 + i = n + (i + 1) by omega])
    have h0 := h1 0 (by omega)
    simp only [Nat.add_zero] at h0
    rw [removeAt_succ, dropFrom_cons, dropFrom_cons, ih]
    by_cases hn : n ∈ A
    · rw [if_pos hn, if_pos (h0.mp hn)]
    · rw [if_neg hn, if_neg (fun hm => hn (h0.mpr hm))]

theorem dropIdx_nil_left {β} (l : List β) : dropIdx [] l = l := by
  unfold dropIdx
  generalize 0 = n
  induction l generalizing n with
  | nil => rfl
  | cons y l ih => rw [dropFrom_cons, if_neg (by simp), ih]

theorem dropIdx_congr {β} (A B : List Nat) (l : List β) (h : ∀ i, i ∈ A ↔ i ∈ B) :
    dropIdx A l = dropIdx B l :=
  dropFrom_congr A B l 0 0 (fun i _ => by simpa using h i)

/-- Removing position `x` first and then the re-indexed remaining positions is the joint removal. -/
theorem dropIdx_removeAt {β} (x : Nat) (A : List Nat) (hx : x ∉ A) (l : List β) :
    dropIdx (A.map (fun y => if y > x then y - 1 else y)) (removeAt l x) = dropIdx (x :: A) l := by
  apply dropFrom_removeAt
  · intro i hi
    simp only [Nat.zero_add, List.mem_map, List.mem_cons]
    constructor
    · rintro ⟨y, hy, rfl⟩
      by_cases hyx : y > x
      · rw [if_pos hyx] at hi; omega
      · rw [if_neg hyx]; exact Or.inr hy
    · rintro (rfl | h)
      · omega
      · exact ⟨i, h, by rw [if_neg (by omega)]⟩
  · simp
  · intro i hi
    simp only [Nat.zero_add, List.mem_map, List.mem_cons]
    constructor
    · rintro ⟨y, hy, rfl⟩
      by_cases hyx : y > x
      · rw [if_pos hyx]; right; rwa [show y - 1 + 1 = y by omega]
      · rw [if_neg hyx] at hi
        have : y = x := by omega
        subst this; exact absurd hy hx
    · rintro (h | h)
      · omega
      · exact ⟨i + 1, h, by rw [if_pos (by omega)]; omega⟩

theorem dropIdx_singleton {β} (x : Nat) (l : List β) : dropIdx [x] l = removeAt l x := by
  have := dropIdx_removeAt x [] (by simp) l
  rw [List.map_nil, dropIdx_nil_left] at this
  exact this.symm

/-! ### `removeAt` / `insertAt` on multi-indices -/

theorem removeAt_inB : ∀ (s idx : List Nat) (x : Nat), InB s idx → InB (removeAt s x) (removeAt idx x)
  | [], [], x, _ => by simp [removeAt, InB]
  | v :: s, i :: idx, 0, h => by rw [removeAt_zero, removeAt_zero]; exact h.2
  | v :: s, i :: idx, x + 1, h => by
    rw [removeAt_succ, removeAt_succ]; exact ⟨h.1, removeAt_inB s idx x h.2⟩
  | [], _ :: _, _, h => by simp [InB] at h
  | _ :: _, [], _, h => by simp [InB] at h

theorem removeAt_insertAt {β} : ∀ (k : List β) (x : Nat) (i : β), x ≤ k.length →
    removeAt (insertAt k x i) x = k
  | k, 0, i, _ => by rw [insertAt_zero, removeAt_zero]
  | [], x + 1, i, h => by simp at h
  | y :: k, x + 1, i, h => by
    rw [insertAt_succ, removeAt_succ, removeAt_insertAt k x i (by simpa using h)]

theorem getD_insertAt {β} : ∀ (k : List β) (x : Nat) (i d : β), x ≤ k.length →
    (insertAt k x i).getD x d = i
  | k, 0, i, d, _ => by rw [insertAt_zero]; rfl
  | [], x + 1, i, d, h => by simp at h
  | y :: k, x + 1, i, d, h => by
    rw [insertAt_succ, List.getD_cons_succ, getD_insertAt k x i d (by simpa using h)]

theorem insertAt_removeAt {β} : ∀ (l : List β) (x : Nat) (d : β), x < l.length →
    insertAt (removeAt l x) x (l.getD x d) = l
  | [], x, d, h => by simp at h
  | y :: l, 0, d, _ => by rw [removeAt_zero, insertAt_zero]; rfl
  | y :: l, x + 1, d, h => by
    rw [removeAt_succ, insertAt_succ, List.getD_cons_succ, insertAt_removeAt l x d (by simpa using h)]

theorem getD_lt_of_inB : ∀ (s idx : List Nat) (x : Nat), InB s idx → x < s.length →
    idx.getD x 0 < s.getD x 0
  | [], [], x, _, h => by simp at h
  | v :: s, i :: idx, 0, h, _ => by simpa using h.1
  | v :: s, i :: idx, x + 1, h, hx => by
    rw [List.getD_cons_succ, List.getD_cons_succ]
    exact getD_lt_of_inB s idx x h.2 (by simpa using hx)
  | [], _ :: _, _, h, _ => by simp [InB] at h
  | _ :: _, [], _, h, _ => by simp [InB] at h

/-- On flat positions of the box, the multi-index determines the position. -/
theorem unflat_eq_iff (s : List Nat) (idx : List Nat) (hidx : InB s idx) (t : Nat) (ht : t < size s) :
    idx = unflat s t ↔ t = flat s idx := by
  constructor
  · intro h; rw [h, flat_unflat s t ht]
  · intro h; rw [h, unflat_flat s idx hidx]

/-! ### sums of indicator sums -/

theorem sum_indicator_comp {α} [AddCommMonoid α] (S S' : Nat) (P : Nat → Prop) [DecidablePred P]
    (Q : Nat → Nat → Prop) [∀ f t, Decidable (Q f t)] (g : Nat → α) (τ : Nat → Nat)
    (hτ : ∀ f, f < S → τ f < S') (hQ : ∀ f, f < S → ∀ t, t < S' → (Q f t ↔ t = τ f)) :
    ∑ t ∈ range S', (if P t then ∑ f ∈ range S, (if Q f t then g f else 0) else 0)
      = ∑ f ∈ range S, if P (τ f) then g f else 0 := by
  have h1 : ∀ t ∈ range S', (if P t then ∑ f ∈ range S, (if Q f t then g f else 0) else 0)
      = ∑ f ∈ range S, (if t = τ f then (if P (τ f) then g f else 0) else 0) := by
    intro t ht
    have ht' := mem_range.mp ht
    by_cases hp : P t
    · rw [if_pos hp]
      apply Finset.sum_congr rfl
      intro f hf
      have hq := hQ f (mem_range.mp hf) t ht'
      by_cases he : t = τ f
      · rw [if_pos (hq.mpr he), if_pos he, if_pos (he ▸ hp)]
      · rw [if_neg (fun h => he (hq.mp h)), if_neg he]
    · rw [if_neg hp]
      symm
      apply Finset.sum_eq_zero
      intro f _
      by_cases he : t = τ f
      · rw [if_pos he, if_neg (he ▸ hp)]
      · rw [if_neg he]
  rw [Finset.sum_congr rfl h1, Finset.sum_comm]
  apply Finset.sum_congr rfl
  intro f hf
  rw [Finset.sum_ite_eq', if_pos (mem_range.mpr (hτ f (mem_range.mp hf)))]

theorem sum_indicator_mass {α} [AddCommMonoid α] (S S' : Nat)
    (Q : Nat → Nat → Prop) [∀ f t, Decidable (Q f t)] (g : Nat → α) (τ : Nat → Nat)
    (hτ : ∀ f, f < S → τ f < S') (hQ : ∀ f, f < S → ∀ t, t < S' → (Q f t ↔ t = τ f)) :
    ∑ t ∈ range S', ∑ f ∈ range S, (if Q f t then g f else 0) = ∑ f ∈ range S, g f := by
  have := sum_indicator_comp S S' (fun _ => True) Q g τ hτ hQ
  simpa using this

theorem list_eq_map_getD {β} (l : List β) (d : β) : l = (List.range l.length).map (fun i => l.getD i d) := by
  apply List.ext_getElem
  · simp
  · intro i h1 h2
    simp [List.getD_eq_getElem?_getD, List.getElem?_eq_getElem h1]

theorem list_sum_eq_sum_getD {α} [AddCommMonoid α] (l : List α) :
    l.sum = ∑ i ∈ range l.length, l.getD i 0 := by
  conv_lhs => rw [list_eq_map_getD l 0]
  exact list_range_sum _ _

/-! ### one `Array::sum` step in indicator form -/

theorem sumAxis_indicator {α} [AddCommMonoid α] (a : Arr α) (x : Nat)
    (hlen : a.data.length = size a.shape) (hx : x < a.shape.length) :
    (a.sumAxis x).shape = removeAt a.shape x ∧
    (a.sumAxis x).data = (List.range (size (removeAt a.shape x))).map (fun t =>
      ∑ f ∈ range (size a.shape),
        if removeAt (unflat a.shape f) x = unflat (removeAt a.shape x) t then a.data.getD f 0 else 0) := by
  obtain ⟨hs, hd⟩ := C19.sumAxis_eq a x hlen hx
  refine ⟨hs, ?_⟩
  rw [hd]
  apply List.map_congr_left
  intro t ht
  have ht' : t < size (removeAt a.shape x) := List.mem_range.mp ht
  have hk : InB (removeAt a.shape x) (unflat (removeAt a.shape x) t) := unflat_inB _ _ ht'
  have hkl : x ≤ (unflat (removeAt a.shape x) t).length := by
    rw [InB_length _ _ hk, removeAt_length _ _ hx]; omega
  rw [← Finset.sum_filter]
  apply Finset.sum_nbij' (fun i => flat a.shape (insertAt (unflat (removeAt a.shape x) t) x i))
    (fun f => (unflat a.shape f).getD x 0)
  · intro i hi
    have hb := insertAt_inB a.shape x _ i hx (mem_range.mp hi) hk
    simp only [mem_filter, mem_range]
    refine ⟨flat_lt _ _ hb, ?_⟩
    rw [unflat_flat _ _ hb, removeAt_insertAt _ _ _ hkl]
  · intro f hf
    simp only [mem_filter, mem_range] at hf
    exact mem_range.mpr (getD_lt_of_inB _ _ x (unflat_inB _ _ hf.1) hx)
  · intro i hi
    have hb := insertAt_inB a.shape x _ i hx (mem_range.mp hi) hk
    simp only []
    rw [unflat_flat _ _ hb, getD_insertAt _ _ _ _ hkl]
  · intro f hf
    simp only [mem_filter, mem_range] at hf
    have hb := unflat_inB _ _ hf.1
    simp only []
    rw [← hf.2, insertAt_removeAt _ _ _ (by rw [InB_length _ _ hb]; exact hx), flat_unflat _ _ hf.1]
  · intro i _
    simp only [C19.viewElem, List.getD_eq_getElem?_getD]

theorem sumAxis_data_length {α} [AddCommMonoid α] (a : Arr α) (x : Nat)
    (hlen : a.data.length = size a.shape) (hx : x < a.shape.length) :
    (a.sumAxis x).data.length = size (a.sumAxis x).shape := by
  obtain ⟨hs, hd⟩ := sumAxis_indicator a x hlen hx
  rw [hs, hd]; simp

/-- position of the reduced index of `f` -/
theorem removeAt_unflat_eq_iff (s : List Nat) (x f t : Nat) (hf : f < size s)
    (ht : t < size (removeAt s x)) :
    removeAt (unflat s f) x = unflat (removeAt s x) t ↔ t = flat (removeAt s x) (removeAt (unflat s f) x) :=
  unflat_eq_iff _ _ (removeAt_inB _ _ x (unflat_inB _ _ hf)) t ht

theorem sumAxis_mass {α} [AddCommMonoid α] (a : Arr α) (x : Nat)
    (hlen : a.data.length = size a.shape) (hx : x < a.shape.length) :
    (a.sumAxis x).data.sum = a.data.sum := by
  obtain ⟨_, hd⟩ := sumAxis_indicator a x hlen hx
  rw [hd, list_range_sum, list_sum_eq_sum_getD a.data, hlen]
  exact sum_indicator_mass _ _ _ _ (fun f => flat (removeAt a.shape x) (removeAt (unflat a.shape f) x))
    (fun f hf => flat_lt _ _ (removeAt_inB _ _ x (unflat_inB _ _ hf)))
    (fun f hf t ht => removeAt_unflat_eq_iff _ _ _ _ hf ht)

end Sfs
