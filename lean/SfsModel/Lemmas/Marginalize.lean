/-
Helper lemmas for marginalization (sumAxis in indicator form, composition with the `original - removed` shift,
sorting, error order).
-/
import SfsModel.Model.Spectrum
import SfsModel.Lemmas.Index
import SfsModel.Lemmas.Odometer
import SfsModel.Lemmas.SumBox
import SfsModel.Props.C19
import Mathlib.Algebra.BigOperators.Group.Finset.Basic
namespace Sfs
open Finset

/-! ### dropping a set of positions from a list -/

/-- `dropFrom A l n`: delete from `l` the entries whose position (counted from `n`) is listed in `A`. -/
def dropFrom {β} (A : List Nat) (l : List β) (n : Nat) : List β :=
  ((l.zipIdx n).filter (fun p => !A.contains p.2)).map (·.1)

/-- Same body as `Sfs.C04.dropAxes` (definitionally equal). -/
def dropIdx {β} (A : List Nat) (l : List β) : List β := dropFrom A l 0

theorem dropFrom_nil {β} (A : List Nat) (n : Nat) : dropFrom A ([] : List β) n = [] := rfl

theorem dropFrom_cons {β} (A : List Nat) (y : β) (l : List β) (n : Nat) :
    dropFrom A (y :: l) n = if n ∈ A then dropFrom A l (n + 1) else y :: dropFrom A l (n + 1) := by
  unfold dropFrom
  rw [List.zipIdx_cons, List.filter_cons]
  by_cases h : n ∈ A <;> simp [h]

theorem dropFrom_congr {β} (A B : List Nat) : ∀ (l : List β) (n m : Nat),
    (∀ i, i < l.length → (n + i ∈ A ↔ m + i ∈ B)) → dropFrom A l n = dropFrom B l m
  | [], _, _, _ => rfl
  | y :: l, n, m, h => by
    have h0 := h 0 (by simp)
    have ih := dropFrom_congr A B l (n + 1) (m + 1) (fun i hi => by
      have := h (i + 1) (by simpa using hi)
      rwa [show n + 1 + i = n + (i + 1) by omega, show m + 1 + i = m + (i + 1) by omega])
    simp only [Nat.add_zero] at h0
    rw [dropFrom_cons, dropFrom_cons, ih]
    by_cases hn : n ∈ A
    · rw [if_pos hn, if_pos (h0.mp hn)]
    · rw [if_neg hn, if_neg (fun hm => hn (h0.mpr hm))]

theorem dropFrom_removeAt {β} (A B : List Nat) : ∀ (l : List β) (x n : Nat),
    (∀ i, i < x → (n + i ∈ A ↔ n + i ∈ B)) → n + x ∈ B →
    (∀ i, x ≤ i → (n + i ∈ A ↔ n + i + 1 ∈ B)) →
    dropFrom A (removeAt l x) n = dropFrom B l n
  | [], x, n, _, _, _ => by simp [removeAt, dropFrom_nil]
  | y :: l, 0, n, _, h2, h3 => by
    rw [removeAt_zero, dropFrom_cons, if_pos (by simpa using h2)]
    apply dropFrom_congr
    intro i _
    have := h3 i (Nat.zero_le _)
    rwa [show n + 1 + i = n + i + 1 by omega]
  | y :: l, x + 1, n, h1, h2, h3 => by
    have ih := dropFrom_removeAt A B l x (n + 1)
      (fun i hi => by
        have := h1 (i + 1) (by omega)
        rwa [show n + 1 + i = n + (i + 1) by omega])
      (by rwa [show n + 1 + x = n + (x + 1) by omega])
      (fun i hi => by
        have := h3 (i + 1) (by omega)
        rwa [show n + 1 + i = n + (i + 1) by omega])
    have h0 := h1 0 (by omega)
    simp only [Nat.add_zero] at h0
    rw [removeAt_succ, dropFrom_cons, dropFrom_cons, ih]
    by_cases hn : n ∈ A
    · rw [if_pos hn, if_pos (h0.mp hn)]
    · rw [if_neg hn, if_neg (fun hm => hn (h0.mpr hm))]

theorem dropIdx_nil_left {β} (l : List β) : dropIdx [] l = l := by
  unfold dropIdx
  generalize 0 = n
  induction l generalizing n with
  | nil => rfl
  | cons y l ih => rw [dropFrom_cons, if_neg (by simp), ih]

theorem dropIdx_congr {β} (A B : List Nat) (l : List β) (h : ∀ i, i ∈ A ↔ i ∈ B) :
    dropIdx A l = dropIdx B l :=
  dropFrom_congr A B l 0 0 (fun i _ => by simpa using h i)

/-- Removing position `x` first and then the re-indexed remaining positions is the joint removal. -/
theorem dropIdx_removeAt {β} (x : Nat) (A : List Nat) (hx : x ∉ A) (l : List β) :
    dropIdx (A.map (fun y => if y > x then y - 1 else y)) (removeAt l x) = dropIdx (x :: A) l := by
  apply dropFrom_removeAt
  · intro i hi
    simp only [Nat.zero_add, List.mem_map, List.mem_cons]
    constructor
    · rintro ⟨y, hy, rfl⟩
      by_cases hyx : y > x
      · rw [if_pos hyx] at hi; omega
      · rw [if_neg hyx]; exact Or.inr hy
    · rintro (rfl | h)
      · omega
      · exact ⟨i, h, by rw [if_neg (by omega)]⟩
  · simp
  · intro i hi
    simp only [Nat.zero_add, List.mem_map, List.mem_cons]
    constructor
    · rintro ⟨y, hy, rfl⟩
      by_cases hyx : y > x
      · rw [if_pos hyx]; right; rwa [show y - 1 + 1 = y by omega]
      · rw [if_neg hyx] at hi
        have : y = x := by omega
        subst this; exact absurd hy hx
    · rintro (h | h)
      · omega
      · exact ⟨i + 1, h, by rw [if_pos (by omega)]; omega⟩

theorem dropIdx_singleton {β} (x : Nat) (l : List β) : dropIdx [x] l = removeAt l x := by
  have := dropIdx_removeAt x [] (by simp) l
  rw [List.map_nil, dropIdx_nil_left] at this
  exact this.symm

/-! ### `removeAt` / `insertAt` on multi-indices -/

theorem removeAt_inB : ∀ (s idx : List Nat) (x : Nat), InB s idx → InB (removeAt s x) (removeAt idx x)
  | [], [], x, _ => by simp [removeAt, InB]
  | v :: s, i :: idx, 0, h => by rw [removeAt_zero, removeAt_zero]; exact h.2
  | v :: s, i :: idx, x + 1, h => by
    rw [removeAt_succ, removeAt_succ]; exact ⟨h.1, removeAt_inB s idx x h.2⟩
  | [], _ :: _, _, h => by simp [InB] at h
  | _ :: _, [], _, h => by simp [InB] at h

theorem removeAt_insertAt {β} : ∀ (k : List β) (x : Nat) (i : β), x ≤ k.length →
    removeAt (insertAt k x i) x = k
  | k, 0, i, _ => by rw [insertAt_zero, removeAt_zero]
  | [], x + 1, i, h => by simp at h
  | y :: k, x + 1, i, h => by
    rw [insertAt_succ, removeAt_succ, removeAt_insertAt k x i (by simpa using h)]

theorem getD_insertAt {β} : ∀ (k : List β) (x : Nat) (i d : β), x ≤ k.length →
    (insertAt k x i).getD x d = i
  | k, 0, i, d, _ => by rw [insertAt_zero]; rfl
  | [], x + 1, i, d, h => by simp at h
  | y :: k, x + 1, i, d, h => by
    rw [insertAt_succ, List.getD_cons_succ, getD_insertAt k x i d (by simpa using h)]

theorem insertAt_removeAt {β} : ∀ (l : List β) (x : Nat) (d : β), x < l.length →
    insertAt (removeAt l x) x (l.getD x d) = l
  | [], x, d, h => by simp at h
  | y :: l, 0, d, _ => by rw [removeAt_zero, insertAt_zero]; rfl
  | y :: l, x + 1, d, h => by
    rw [removeAt_succ, insertAt_succ, List.getD_cons_succ, insertAt_removeAt l x d (by simpa using h)]

theorem getD_lt_of_inB : ∀ (s idx : List Nat) (x : Nat), InB s idx → x < s.length →
    idx.getD x 0 < s.getD x 0
  | [], [], x, _, h => by simp at h
  | v :: s, i :: idx, 0, h, _ => by simpa using h.1
  | v :: s, i :: idx, x + 1, h, hx => by
    rw [List.getD_cons_succ, List.getD_cons_succ]
    exact getD_lt_of_inB s idx x h.2 (by simpa using hx)
  | [], _ :: _, _, h, _ => by simp [InB] at h
  | _ :: _, [], _, h, _ => by simp [InB] at h

/-- On flat positions of the box, the multi-index determines the position. -/
theorem unflat_eq_iff (s : List Nat) (idx : List Nat) (hidx : InB s idx) (t : Nat) (ht : t < size s) :
    idx = unflat s t ↔ t = flat s idx := by
  constructor
  · intro h; rw [h, flat_unflat s t ht]
  · intro h; rw [h, unflat_flat s idx hidx]

/-! ### sums of indicator sums -/

theorem sum_indicator_comp {α} [AddCommMonoid α] (S S' : Nat) (P : Nat → Prop) [DecidablePred P]
    (Q : Nat → Nat → Prop) [∀ f t, Decidable (Q f t)] (g : Nat → α) (τ : Nat → Nat)
    (hτ : ∀ f, f < S → τ f < S') (hQ : ∀ f, f < S → ∀ t, t < S' → (Q f t ↔ t = τ f)) :
    ∑ t ∈ range S', (if P t then ∑ f ∈ range S, (if Q f t then g f else 0) else 0)
      = ∑ f ∈ range S, if P (τ f) then g f else 0 := by
  have h1 : ∀ t ∈ range S', (if P t then ∑ f ∈ range S, (if Q f t then g f else 0) else 0)
      = ∑ f ∈ range S, (if t = τ f then (if P (τ f) then g f else 0) else 0) := by
    intro t ht
    have ht' := mem_range.mp ht
    by_cases hp : P t
    · rw [if_pos hp]
      apply Finset.sum_congr rfl
      intro f hf
      have hq := hQ f (mem_range.mp hf) t ht'
      by_cases he : t = τ f
      · rw [if_pos (hq.mpr he), if_pos he, if_pos (he ▸ hp)]
      · rw [if_neg (fun h => he (hq.mp h)), if_neg he]
    · rw [if_neg hp]
      symm
      apply Finset.sum_eq_zero
      intro f _
      by_cases he : t = τ f
      · rw [if_pos he, if_neg (he ▸ hp)]
      · rw [if_neg he]
  rw [Finset.sum_congr rfl h1, Finset.sum_comm]
  apply Finset.sum_congr rfl
  intro f hf
  rw [Finset.sum_ite_eq', if_pos (mem_range.mpr (hτ f (mem_range.mp hf)))]

theorem sum_indicator_mass {α} [AddCommMonoid α] (S S' : Nat)
    (Q : Nat → Nat → Prop) [∀ f t, Decidable (Q f t)] (g : Nat → α) (τ : Nat → Nat)
    (hτ : ∀ f, f < S → τ f < S') (hQ : ∀ f, f < S → ∀ t, t < S' → (Q f t ↔ t = τ f)) :
    ∑ t ∈ range S', ∑ f ∈ range S, (if Q f t then g f else 0) = ∑ f ∈ range S, g f := by
  have := sum_indicator_comp S S' (fun _ => True) Q g τ hτ hQ
  simpa using this

theorem marg_list_eq_map_getD {β} (l : List β) (d : β) : l = (List.range l.length).map (fun i => l.getD i d) := by
  apply List.ext_getElem
  · simp
  · intro i h1 h2
    simp [List.getD_eq_getElem?_getD, List.getElem?_eq_getElem h1]

theorem list_sum_eq_sum_getD {α} [AddCommMonoid α] (l : List α) :
    l.sum = ∑ i ∈ range l.length, l.getD i 0 := by
  conv_lhs => rw [marg_list_eq_map_getD l 0]
  exact list_range_sum _ _

/-! ### one `Array::sum` step in indicator form -/

theorem sumAxis_indicator {α} [AddCommMonoid α] (a : Arr α) (x : Nat)
    (hlen : a.data.length = size a.shape) (hx : x < a.shape.length) :
    (a.sumAxis x).shape = removeAt a.shape x ∧
    (a.sumAxis x).data = (List.range (size (removeAt a.shape x))).map (fun t =>
      ∑ f ∈ range (size a.shape),
        if removeAt (unflat a.shape f) x = unflat (removeAt a.shape x) t then a.data.getD f 0 else 0) := by
  obtain ⟨hs, hd⟩ := C19.sumAxis_eq a x hlen hx
  refine ⟨hs, ?_⟩
  rw [hd]
  apply List.map_congr_left
  intro t ht
  have ht' : t < size (removeAt a.shape x) := List.mem_range.mp ht
  have hk : InB (removeAt a.shape x) (unflat (removeAt a.shape x) t) := unflat_inB _ _ ht'
  have hkl : x ≤ (unflat (removeAt a.shape x) t).length := by
    rw [InB_length _ _ hk, removeAt_length _ _ hx]; omega
  rw [← Finset.sum_filter]
  apply Finset.sum_nbij' (fun i => flat a.shape (insertAt (unflat (removeAt a.shape x) t) x i))
    (fun f => (unflat a.shape f).getD x 0)
  · intro i hi
    have hb := insertAt_inB a.shape x _ i hx (mem_range.mp hi) hk
    simp only [mem_filter, mem_range]
    refine ⟨flat_lt _ _ hb, ?_⟩
    rw [unflat_flat _ _ hb, removeAt_insertAt _ _ _ hkl]
  · intro f hf
    simp only [mem_filter, mem_range] at hf
    exact mem_range.mpr (getD_lt_of_inB _ _ x (unflat_inB _ _ hf.1) hx)
  · intro i hi
    have hb := insertAt_inB a.shape x _ i hx (mem_range.mp hi) hk
    rw [unflat_flat _ _ hb, getD_insertAt _ _ _ _ hkl]
  · intro f hf
    simp only [mem_filter, mem_range] at hf
    have hb := unflat_inB _ _ hf.1
    rw [← hf.2, insertAt_removeAt _ _ _ (by rw [InB_length _ _ hb]; exact hx), flat_unflat _ _ hf.1]
  · intro i _
    simp only [C19.viewElem, List.getD_eq_getElem?_getD]

theorem sumAxis_data_length {α} [AddCommMonoid α] (a : Arr α) (x : Nat)
    (hlen : a.data.length = size a.shape) (hx : x < a.shape.length) :
    (a.sumAxis x).data.length = size (a.sumAxis x).shape := by
  obtain ⟨hs, hd⟩ := sumAxis_indicator a x hlen hx
  rw [hs, hd]; simp

/-- position of the reduced index of `f` -/
theorem removeAt_unflat_eq_iff (s : List Nat) (x f t : Nat) (hf : f < size s)
    (ht : t < size (removeAt s x)) :
    removeAt (unflat s f) x = unflat (removeAt s x) t ↔ t = flat (removeAt s x) (removeAt (unflat s f) x) :=
  unflat_eq_iff _ _ (removeAt_inB _ _ x (unflat_inB _ _ hf)) t ht

theorem sumAxis_mass {α} [AddCommMonoid α] (a : Arr α) (x : Nat)
    (hlen : a.data.length = size a.shape) (hx : x < a.shape.length) :
    (a.sumAxis x).data.sum = a.data.sum := by
  obtain ⟨_, hd⟩ := sumAxis_indicator a x hlen hx
  rw [hd, list_range_sum, list_sum_eq_sum_getD a.data, hlen]
  exact sum_indicator_mass _ _ _ _ (fun f => flat (removeAt a.shape x) (removeAt (unflat a.shape f) x))
    (fun f hf => flat_lt _ _ (removeAt_inB _ _ x (unflat_inB _ _ hf)))
    (fun f hf t ht => removeAt_unflat_eq_iff _ _ _ _ hf ht)

/-! ### the marginal specification and its composition -/

/-- `b` is the marginal of `a` over the axes listed in `A`: shape = remaining axes in original order, entry `t` =
    sum of the entries of `a` whose index agrees with `t` on the remaining axes. -/
def IsMarg {α} [AddCommMonoid α] (A : List Nat) (a b : Arr α) : Prop :=
  b.shape = dropIdx A a.shape ∧
  b.data = (List.range (size (dropIdx A a.shape))).map (fun t =>
    ∑ f ∈ range (size a.shape),
      if dropIdx A (unflat a.shape f) = unflat (dropIdx A a.shape) t then a.data.getD f 0 else 0)

theorem IsMarg.unique {α} [AddCommMonoid α] {A : List Nat} {a b c : Arr α}
    (hb : IsMarg A a b) (hc : IsMarg A a c) : b = c := by
  cases b; cases c
  obtain ⟨h1, h2⟩ := hb
  obtain ⟨h3, h4⟩ := hc
  simp only at h1 h2 h3 h4
  rw [h1, h2, h3, h4]

theorem IsMarg.congr {α} [AddCommMonoid α] {A B : List Nat} {a b : Arr α}
    (h : ∀ i, i ∈ A ↔ i ∈ B) (hb : IsMarg A a b) : IsMarg B a b := by
  unfold IsMarg at hb ⊢
  simp only [dropIdx_congr A B _ h] at hb
  exact hb

theorem IsMarg.data_length {α} [AddCommMonoid α] {A : List Nat} {a b : Arr α}
    (hb : IsMarg A a b) : b.data.length = size b.shape := by
  rw [hb.1, hb.2]; simp

theorem IsMarg_nil {α} [AddCommMonoid α] (a : Arr α) (hlen : a.data.length = size a.shape) :
    IsMarg [] a a := by
  refine ⟨(dropIdx_nil_left _).symm, ?_⟩
  simp only [dropIdx_nil_left]
  conv_lhs => rw [marg_list_eq_map_getD a.data 0, hlen]
  apply List.map_congr_left
  intro t ht
  have ht' := List.mem_range.mp ht
  have : ∀ f ∈ range (size a.shape),
      (if unflat a.shape f = unflat a.shape t then a.data.getD f 0 else 0)
        = if t = f then a.data.getD f 0 else 0 := by
    intro f hf
    have hf' := mem_range.mp hf
    by_cases he : t = f
    · subst he; simp
    · rw [if_neg he, if_neg]
      intro h
      apply he
      rw [← flat_unflat _ _ ht', ← flat_unflat _ _ hf', h]
  rw [Finset.sum_congr rfl this, Finset.sum_ite_eq, if_pos (mem_range.mpr ht')]

theorem IsMarg_step {α} [AddCommMonoid α] (a c : Arr α) (x : Nat) (A : List Nat)
    (hlen : a.data.length = size a.shape) (hx : x < a.shape.length) (hxA : x ∉ A)
    (hc : IsMarg (A.map (fun y => if y > x then y - 1 else y)) (a.sumAxis x) c) :
    IsMarg (x :: A) a c := by
  obtain ⟨hs, hd⟩ := sumAxis_indicator a x hlen hx
  obtain ⟨hcs, hcd⟩ := hc
  rw [hs] at hcs hcd
  simp only [dropIdx_removeAt x A hxA] at hcs hcd
  refine ⟨hcs, ?_⟩
  rw [hcd]
  apply List.map_congr_left
  intro u _
  simp only [← dropIdx_removeAt x A hxA (unflat a.shape _)]
  have hget : ∀ t ∈ range (size (removeAt a.shape x)),
      (if dropIdx (A.map (fun y => if y > x then y - 1 else y)) (unflat (removeAt a.shape x) t)
            = unflat (dropIdx (x :: A) a.shape) u then (a.sumAxis x).data.getD t 0 else 0)
      = (if dropIdx (A.map (fun y => if y > x then y - 1 else y)) (unflat (removeAt a.shape x) t)
            = unflat (dropIdx (x :: A) a.shape) u then
          ∑ f ∈ range (size a.shape),
            (if removeAt (unflat a.shape f) x = unflat (removeAt a.shape x) t then a.data.getD f 0 else 0)
          else 0) := by
    intro t ht
    have ht' := mem_range.mp ht
    rw [hd, List.getD_eq_getElem?_getD, List.getElem?_map, List.getElem?_range ht']
    rfl
  rw [Finset.sum_congr rfl hget]
  rw [sum_indicator_comp (size a.shape) (size (removeAt a.shape x))
    (fun t => dropIdx (A.map (fun y => if y > x then y - 1 else y)) (unflat (removeAt a.shape x) t)
            = unflat (dropIdx (x :: A) a.shape) u)
    (fun f t => removeAt (unflat a.shape f) x = unflat (removeAt a.shape x) t)
    (fun f => a.data.getD f 0)
    (fun f => flat (removeAt a.shape x) (removeAt (unflat a.shape f) x))
    (fun f hf => flat_lt _ _ (removeAt_inB _ _ x (unflat_inB _ _ hf)))
    (fun f hf t ht => removeAt_unflat_eq_iff _ _ _ _ hf ht)]
  apply Finset.sum_congr rfl
  intro f hf
  rw [unflat_flat _ _ (removeAt_inB _ _ x (unflat_inB _ _ (mem_range.mp hf)))]

/-! ### `marginalize_unchecked` on a strictly increasing list -/

theorem foldl_zipIdx_succ {α} [Add α] [OfNat α 0] : ∀ (xs : List Nat) (b : Arr α) (k : Nat),
    (xs.zipIdx (k + 1)).foldl (fun sp (p : Nat × Nat) => sp.sumAxis (p.1 - p.2)) b
      = ((xs.map (· - 1)).zipIdx k).foldl (fun sp (p : Nat × Nat) => sp.sumAxis (p.1 - p.2)) b
  | [], _, _ => rfl
  | y :: xs, b, k => by
    simp only [List.map_cons, List.zipIdx_cons, List.foldl_cons]
    rw [show y - (k + 1) = y - 1 - k by omega]
    exact foldl_zipIdx_succ xs _ (k + 1)

theorem marginalizeUnchecked_nil {α} [Add α] [OfNat α 0] (a : Arr α) : marginalizeUnchecked a [] = a := rfl

theorem marginalizeUnchecked_cons {α} [Add α] [OfNat α 0] (a : Arr α) (x : Nat) (xs : List Nat) :
    marginalizeUnchecked a (x :: xs) = marginalizeUnchecked (a.sumAxis x) (xs.map (· - 1)) := by
  unfold marginalizeUnchecked
  rw [List.zipIdx_cons, List.foldl_cons, Nat.zero_add, foldl_zipIdx_succ]
  rfl

theorem map_pred_eq_shift (x : Nat) (xs : List Nat) (h : ∀ y ∈ xs, x < y) :
    xs.map (· - 1) = xs.map (fun y => if y > x then y - 1 else y) := by
  apply List.map_congr_left
  intro y hy
  rw [if_pos (h y hy)]

theorem marginalizeUnchecked_spec {α} [AddCommMonoid α] : ∀ (l : List Nat) (a : Arr α),
    l.Pairwise (· < ·) → (∀ y ∈ l, y < a.shape.length) → a.data.length = size a.shape →
    IsMarg l a (marginalizeUnchecked a l) ∧ (marginalizeUnchecked a l).data.sum = a.data.sum
  | [], a, _, _, hlen => ⟨IsMarg_nil a hlen, rfl⟩
  | x :: xs, a, hp, hb, hlen => by
    have hx : x < a.shape.length := hb x List.mem_cons_self
    have hgt : ∀ y ∈ xs, x < y := (List.pairwise_cons.mp hp).1
    have hxA : x ∉ xs := fun h => Nat.lt_irrefl _ (hgt x h)
    obtain ⟨hs, _⟩ := sumAxis_indicator a x hlen hx
    have ih := marginalizeUnchecked_spec (xs.map (· - 1)) (a.sumAxis x)
      (by
        rw [List.pairwise_map]
        exact (List.pairwise_cons.mp hp).2.imp_of_mem (fun {p q} hp' hq' hpq => by
          have := hgt p hp'; have := hgt q hq'; omega))
      (by
        intro y hy
        obtain ⟨z, hz, rfl⟩ := List.mem_map.mp hy
        have := hgt z hz
        have := hb z (List.mem_cons_of_mem _ hz)
        rw [hs, removeAt_length _ _ hx]; omega)
      (sumAxis_data_length a x hlen hx)
    rw [marginalizeUnchecked_cons]
    refine ⟨?_, ?_⟩
    · apply IsMarg_step a _ x xs hlen hx hxA
      rw [← map_pred_eq_shift x xs hgt]
      exact ih.1
    · rw [ih.2, sumAxis_mass a x hlen hx]
termination_by l => l.length
decreasing_by simp

/-! ### decision logic: duplicates, sortedness, sorting -/

theorem firstDuplicate_eq_none_iff : ∀ (l : List Nat), firstDuplicate l = none ↔ l.Nodup
  | [] => by simp [firstDuplicate]
  | x :: l => by
    have ih := firstDuplicate_eq_none_iff l
    by_cases h : x ∈ l
    · simp [firstDuplicate, h]
    · simp [firstDuplicate, h, ih]

theorem firstDuplicate_some_count : ∀ (l : List Nat) (d : Nat), firstDuplicate l = some d → 2 ≤ l.count d
  | [], d, h => by simp [firstDuplicate] at h
  | x :: l, d, h => by
    by_cases hx : x ∈ l
    · simp only [firstDuplicate, List.contains_eq_mem, hx, decide_true, if_true, Option.some.injEq] at h
      subst h
      have := List.count_pos_iff.mpr hx
      rw [List.count_cons_self]; omega
    · simp only [firstDuplicate, List.contains_eq_mem, hx, decide_false] at h
      have := firstDuplicate_some_count l d h
      have := List.count_le_count_cons (a := d) (b := x) (l := l)
      omega

theorem isSortedLe_iff : ∀ (l : List Nat), isSortedLe l = true ↔ l.Pairwise (· ≤ ·)
  | [] => by simp [isSortedLe]
  | [x] => by simp [isSortedLe]
  | x :: y :: l => by
    have ih := isSortedLe_iff (y :: l)
    simp only [isSortedLe, Bool.and_eq_true, decide_eq_true_eq, ih]
    constructor
    · rintro ⟨hxy, hp⟩
      refine List.pairwise_cons.mpr ⟨?_, hp⟩
      intro z hz
      rcases List.mem_cons.mp hz with rfl | hz
      · exact hxy
      · exact Nat.le_trans hxy ((List.pairwise_cons.mp hp).1 z hz)
    · intro hp
      exact ⟨(List.pairwise_cons.mp hp).1 y List.mem_cons_self, (List.pairwise_cons.mp hp).2⟩

theorem insertNat_perm (x : Nat) : ∀ (l : List Nat), (insertNat x l).Perm (x :: l)
  | [] => List.Perm.refl _
  | y :: l => by
    by_cases h : x ≤ y
    · simp only [insertNat, h, if_true]; exact List.Perm.refl _
    · simp only [insertNat, h, if_false]
      exact ((insertNat_perm x l).cons y).trans (List.Perm.swap x y l)

theorem sortNat_perm : ∀ (l : List Nat), (sortNat l).Perm l
  | [] => List.Perm.refl _
  | x :: l => (insertNat_perm x (sortNat l)).trans ((sortNat_perm l).cons x)

theorem insertNat_sorted (x : Nat) : ∀ (l : List Nat), l.Pairwise (· ≤ ·) → (insertNat x l).Pairwise (· ≤ ·)
  | [], _ => by simp [insertNat]
  | y :: l, hp => by
    by_cases h : x ≤ y
    · simp only [insertNat, h, if_true]
      refine List.pairwise_cons.mpr ⟨?_, hp⟩
      intro z hz
      rcases List.mem_cons.mp hz with rfl | hz
      · exact h
      · exact Nat.le_trans h ((List.pairwise_cons.mp hp).1 z hz)
    · simp only [insertNat, h, if_false]
      refine List.pairwise_cons.mpr ⟨?_, insertNat_sorted x l (List.pairwise_cons.mp hp).2⟩
      intro z hz
      rcases List.mem_cons.mp ((insertNat_perm x l).subset hz) with rfl | hz
      · omega
      · exact (List.pairwise_cons.mp hp).1 z hz

theorem sortNat_sorted : ∀ (l : List Nat), (sortNat l).Pairwise (· ≤ ·)
  | [] => List.Pairwise.nil
  | x :: l => insertNat_sorted x _ (sortNat_sorted l)

theorem sorted_perm_eq {l₁ l₂ : List Nat} (h₁ : l₁.Pairwise (· ≤ ·)) (h₂ : l₂.Pairwise (· ≤ ·))
    (hp : l₁.Perm l₂) : l₁ = l₂ :=
  List.Perm.eq_of_pairwise (le := (· ≤ ·)) (fun _ _ _ _ h1 h2 => Nat.le_antisymm h1 h2) h₁ h₂ hp

theorem sortNat_eq_self (l : List Nat) (h : l.Pairwise (· ≤ ·)) : sortNat l = l :=
  sorted_perm_eq (sortNat_sorted l) h (sortNat_perm l)

theorem sortNat_eq_of_perm {l₁ l₂ : List Nat} (hp : l₁.Perm l₂) : sortNat l₁ = sortNat l₂ :=
  sorted_perm_eq (sortNat_sorted l₁) (sortNat_sorted l₂)
    ((sortNat_perm l₁).trans (hp.trans (sortNat_perm l₂).symm))

theorem sortNat_strict (l : List Nat) (hnd : l.Nodup) : (sortNat l).Pairwise (· < ·) := by
  have h1 := sortNat_sorted l
  have h2 : (sortNat l).Nodup := (sortNat_perm l).symm.nodup hnd
  exact (h1.and h2).imp (fun ⟨hle, hne⟩ => Nat.lt_of_le_of_ne hle hne)

/-- On valid input `marginalize` is `marginalize_unchecked` on the sorted axes (both branches). -/
theorem marginalize_ok {α} [Add α] [OfNat α 0] (a : Arr α) (axes : List Nat) (hnd : axes.Nodup)
    (hb : ∀ ax ∈ axes, ax < a.shape.length) (hl : axes.length < a.shape.length) :
    marginalize a axes = .ok (marginalizeUnchecked a (sortNat axes)) := by
  unfold marginalize
  rw [(firstDuplicate_eq_none_iff axes).mpr hnd]
  have hf : axes.find? (fun ax => decide (ax ≥ a.shape.length)) = none := by
    rw [List.find?_eq_none]
    intro x hx
    have := hb x hx
    simp; omega
  simp only [hf]
  rw [if_neg (by omega)]
  by_cases hs : isSortedLe axes = true
  · rw [if_pos hs, sortNat_eq_self axes ((isSortedLe_iff axes).mp hs)]
  · rw [if_neg hs]

theorem marginalize_too_many {α} [Add α] [OfNat α 0] (a : Arr α) (axes : List Nat) (hnd : axes.Nodup)
    (hb : ∀ ax ∈ axes, ax < a.shape.length) (hl : a.shape.length ≤ axes.length) :
    marginalize a axes = .error (.tooManyAxes axes.length a.shape.length) := by
  unfold marginalize
  rw [(firstDuplicate_eq_none_iff axes).mpr hnd]
  have hf : axes.find? (fun ax => decide (ax ≥ a.shape.length)) = none := by
    rw [List.find?_eq_none]
    intro x hx
    have := hb x hx
    simp; omega
  simp only [hf]
  rw [if_pos hl]

theorem marginalize_ok_inv {α} [Add α] [OfNat α 0] (a b : Arr α) (axes : List Nat)
    (h : marginalize a axes = .ok b) :
    axes.Nodup ∧ (∀ ax ∈ axes, ax < a.shape.length) ∧ axes.length < a.shape.length := by
  unfold marginalize at h
  cases hd : firstDuplicate axes with
  | some d => rw [hd] at h; cases h
  | none =>
    rw [hd] at h
    cases hf : axes.find? (fun ax => decide (ax ≥ a.shape.length)) with
    | some ax => simp only [hf] at h; cases h
    | none =>
      simp only [hf] at h
      by_cases hl : axes.length ≥ a.shape.length
      · rw [if_pos hl] at h; cases h
      · refine ⟨(firstDuplicate_eq_none_iff axes).mp hd, ?_, by omega⟩
        intro ax hax
        have := (List.find?_eq_none.mp hf) ax hax
        simpa using this

theorem marginalize_isMarg {α} [AddCommMonoid α] (a : Arr α) (axes : List Nat)
    (hlen : a.data.length = size a.shape) (hnd : axes.Nodup)
    (hb : ∀ ax ∈ axes, ax < a.shape.length) :
    IsMarg axes a (marginalizeUnchecked a (sortNat axes)) ∧
      (marginalizeUnchecked a (sortNat axes)).data.sum = a.data.sum := by
  have h := marginalizeUnchecked_spec (sortNat axes) a (sortNat_strict axes hnd)
    (fun y hy => hb y ((sortNat_perm axes).subset hy)) hlen
  exact ⟨h.1.congr (fun i => (sortNat_perm axes).mem_iff), h.2⟩

/-! ### one axis first, then the re-indexed others -/

theorem marginalize_single {α} [AddCommMonoid α] (a : Arr α) (x : Nat)
    (hx : x < a.shape.length) (hl : 1 < a.shape.length) : marginalize a [x] = .ok (a.sumAxis x) := by
  rw [marginalize_ok a [x] (List.nodup_singleton x) (by simpa using hx) (by simpa using hl)]
  rfl

theorem shift_valid (x : Nat) (rest : List Nat) (n : Nat) (hnd : (x :: rest).Nodup)
    (hb : ∀ ax ∈ x :: rest, ax < n) :
    (rest.map (fun y => if y > x then y - 1 else y)).Nodup ∧
      ∀ ax ∈ rest.map (fun y => if y > x then y - 1 else y), ax < n - 1 := by
  have hxr : x ∉ rest := (List.nodup_cons.mp hnd).1
  have hx := hb x List.mem_cons_self
  constructor
  · unfold List.Nodup
    rw [List.pairwise_map]
    refine (List.nodup_cons.mp hnd).2.imp_of_mem ?_
    intro p q hp hq hpq
    have : p ≠ x := fun h => hxr (h ▸ hp)
    have : q ≠ x := fun h => hxr (h ▸ hq)
    by_cases h1 : p > x <;> by_cases h2 : q > x <;> simp only [h1, h2, if_true, if_false] <;> omega
  · intro ax hax
    obtain ⟨y, hy, rfl⟩ := List.mem_map.mp hax
    have := hb y (List.mem_cons_of_mem _ hy)
    have : y ≠ x := fun h => hxr (h ▸ hy)
    by_cases h1 : y > x <;> simp only [h1, if_true, if_false] <;> omega

theorem marginalize_stepwise_aux {α} [AddCommMonoid α] (a : Arr α) (x : Nat) (rest : List Nat)
    (hlen : a.data.length = size a.shape) (hnd : (x :: rest).Nodup)
    (hb : ∀ ax ∈ x :: rest, ax < a.shape.length) (hl : (x :: rest).length < a.shape.length) (hr : rest ≠ []) :
    marginalize a (x :: rest) =
      (match marginalize a [x] with
       | .ok b => marginalize b (rest.map (fun y => if y > x then y - 1 else y))
       | .error e => .error e) := by
  have hx := hb x List.mem_cons_self
  have hxr : x ∉ rest := (List.nodup_cons.mp hnd).1
  have hrl : 0 < rest.length := List.length_pos_iff.mpr hr
  simp only [List.length_cons] at hl
  rw [marginalize_single a x hx (by omega)]
  simp only []
  obtain ⟨hs, _⟩ := sumAxis_indicator a x hlen hx
  obtain ⟨hnd', hb'⟩ := shift_valid x rest a.shape.length hnd hb
  have hlen' := sumAxis_data_length a x hlen hx
  have hshl : (a.sumAxis x).shape.length = a.shape.length - 1 := by rw [hs, removeAt_length _ _ hx]
  rw [marginalize_ok a (x :: rest) hnd hb (by simpa using hl),
    marginalize_ok (a.sumAxis x) _ hnd' (by rw [hshl]; exact hb') (by rw [hshl, List.length_map]; omega)]
  congr 1
  have h1 := (marginalize_isMarg a (x :: rest) hlen hnd hb).1
  have h2 := (marginalize_isMarg (a.sumAxis x) _ hlen' hnd' (by rw [hshl]; exact hb')).1
  exact h1.unique (IsMarg_step a _ x rest hlen hx hxr h2)

end Sfs
