/-
Helper lemmas for Props/C12B.lean (Inflate / BGZF / gzip peek): the inflate model inverts the stored-block encoder,
CRC-32 stays below 2^32 on bytes, little-endian field round trips, one BGZF frame is read back by `bgzfBlock` and by
`gunzipMember`, and the block loop of `bgzfDecode` concatenates the payloads. Core Lean only.
-/
import SfsModel.Spec.Container
namespace Sfs

theorem readHdr_final (xs : List Nat) :
    BitRd.readBits 1 ⟨1 :: xs, 0⟩ = some (1, ⟨1 :: xs, 1⟩) := by
  simp [BitRd.readBits, BitRd.readBit]

theorem readHdr_final2 (xs : List Nat) :
    BitRd.readBits 2 ⟨1 :: xs, 1⟩ = some (0, ⟨1 :: xs, 3⟩) := by
  simp [BitRd.readBits, BitRd.readBit]

theorem readHdr_nf (xs : List Nat) :
    BitRd.readBits 1 ⟨0 :: xs, 0⟩ = some (0, ⟨0 :: xs, 1⟩) := by
  simp [BitRd.readBits, BitRd.readBit]

theorem readHdr_nf2 (xs : List Nat) :
    BitRd.readBits 2 ⟨0 :: xs, 1⟩ = some (0, ⟨0 :: xs, 3⟩) := by
  simp [BitRd.readBits, BitRd.readBit]

theorem inflateStored_block (b : Nat) (chunk rest : List Nat) (out : Array Nat) (hl : chunk.length ≤ 65535) :
    inflateStored ⟨b :: chunk.length % 256 :: chunk.length / 256 :: (65535 - chunk.length) % 256 ::
        (65535 - chunk.length) / 256 :: (chunk ++ rest), 3⟩ out
      = some (⟨rest, 0⟩, out ++ chunk.toArray) := by
  have h2 : chunk.length % 256 + 256 * (chunk.length / 256) = chunk.length := by omega
  simp [inflateStored, BitRd.align, h2]
  omega

theorem inflateBlocks_storedBlock (fin : Bool) (f : Nat) (chunk rest : List Nat) (out : Array Nat)
    (hl : chunk.length ≤ 65535) :
    inflateBlocks (f + 1) ⟨deflateStoredBlock fin chunk ++ rest, 0⟩ out =
      if fin then some (⟨rest, 0⟩, out ++ chunk.toArray)
      else inflateBlocks f ⟨rest, 0⟩ (out ++ chunk.toArray) := by
  cases fin
  · simp only [deflateStoredBlock, inflateBlocks, List.cons_append, List.nil_append, Bool.false_eq_true, if_false,
      readHdr_nf, readHdr_nf2, if_true, inflateStored_block _ _ _ _ hl]
    simp
  · simp only [deflateStoredBlock, inflateBlocks, List.cons_append, List.nil_append, if_true,
      readHdr_final, readHdr_final2, inflateStored_block _ _ _ _ hl]

theorem deflateStored_length_ge (k : Nat) : ∀ data : List Nat, data.length ≤ 65535 * (k + 1) →
    data.length ≤ (deflateStored k data).length := by
  induction k with
  | zero => intro data h; simp [deflateStored, deflateStoredBlock]; omega
  | succ k ih =>
    intro data h
    unfold deflateStored
    split
    · simp [deflateStoredBlock]; omega
    · have := ih (data.drop 65535) (by simp; omega)
      simp [deflateStoredBlock] at this ⊢; omega

theorem inflateBlocks_deflateStored (k : Nat) : ∀ (fuel : Nat) (data rest : List Nat) (out : Array Nat),
    data.length ≤ 65535 * (k + 1) → 1 ≤ fuel → data.length ≤ 65535 * fuel →
    inflateBlocks fuel ⟨deflateStored k data ++ rest, 0⟩ out = some (⟨rest, 0⟩, out ++ data.toArray) := by
  induction k with
  | zero =>
    intro fuel data rest out h h1 _
    obtain ⟨f, rfl⟩ : ∃ f, fuel = f + 1 := ⟨fuel - 1, by omega⟩
    have ht : data.take 65535 = data := List.take_of_length_le (by omega)
    rw [deflateStored, ht, inflateBlocks_storedBlock _ _ _ _ _ (by omega)]; rfl
  | succ k ih =>
    intro fuel data rest out h h1 h2
    obtain ⟨f, rfl⟩ : ∃ f, fuel = f + 1 := ⟨fuel - 1, by omega⟩
    unfold deflateStored
    split
    · rename_i hle
      rw [inflateBlocks_storedBlock _ _ _ _ _ hle]; rfl
    · rename_i hgt
      rw [List.append_assoc, inflateBlocks_storedBlock _ _ _ _ _ (by simp; omega)]
      simp only [Bool.false_eq_true, if_false]
      rw [ih f _ _ _ (by simp; omega) (by omega) (by simp; omega)]
      simp

theorem inflate_deflateStored (data rest : List Nat) (k : Nat) (hk : data.length ≤ 65535 * (k + 1)) :
    inflate (deflateStored k data ++ rest) = some (data, rest) := by
  have hl := deflateStored_length_ge k data hk
  unfold inflate
  rw [inflateBlocks_deflateStored k _ data rest #[] hk (by omega) (by simp; omega)]
  simp [BitRd.align]


theorem crcStep_lt (c : Nat) (h : c < 2 ^ 32) : crcStep c < 2 ^ 32 := by
  unfold crcStep
  split
  · exact Nat.xor_lt_two_pow (by omega) (by omega)
  · omega

theorem crcByte_lt (c b : Nat) (h : c < 2 ^ 32) (hb : b < 256) : crcByte c b < 2 ^ 32 := by
  unfold crcByte
  have h0 : c ^^^ b < 2 ^ 32 := Nat.xor_lt_two_pow h (by omega)
  exact crcStep_lt _ (crcStep_lt _ (crcStep_lt _ (crcStep_lt _ (crcStep_lt _ (crcStep_lt _ (crcStep_lt _
    (crcStep_lt _ h0)))))))

theorem foldl_crcByte_lt (data : List Nat) : ∀ c, c < 2 ^ 32 → IsBytes data →
    data.foldl crcByte c < 2 ^ 32 := by
  induction data with
  | nil => intro c h _; simpa using h
  | cons b t ih =>
    intro c h hb
    simp only [List.foldl_cons]
    exact ih _ (crcByte_lt c b h (hb b (by simp))) (fun x hx => hb x (by simp [hx]))

theorem crc32_lt (data : List Nat) (hb : IsBytes data) : crc32 data < 2 ^ 32 := by
  unfold crc32
  exact Nat.xor_lt_two_pow (foldl_crcByte_lt data _ (by omega) hb) (by omega)

theorem le32_toLe32 (n : Nat) (h : n < 2 ^ 32) :
    le32 (n % 256) (n / 256 % 256) (n / 65536 % 256) (n / 16777216 % 256) = n := by
  unfold le32; omega

theorem le16_toLe16 (n : Nat) (h : n < 65536) : le16 (n % 256) (n / 256 % 256) = n := by
  unfold le16; omega

theorem bgzfFrame_eq (cdata payload : List Nat) (rest : List Nat) :
    bgzfFrame cdata payload ++ rest =
      0x1f :: 0x8b :: 8 :: 4 :: 0 :: 0 :: 0 :: 0 :: 0 :: 0xff :: 6 :: 0 :: 66 :: 67 :: 2 :: 0 ::
        ((cdata.length + 25) % 256) :: ((cdata.length + 25) / 256 % 256) ::
        (cdata ++ (toLe32 (crc32 payload) ++ toLe32 payload.length ++ rest)) := by
  simp [bgzfFrame, toLe16]

theorem bgzfBlock_frame (cdata payload t rest : List Nat) (hinf : inflate cdata = some (payload, t))
    (hc : cdata.length + 25 < 65536) (hb : IsBytes payload) (hl : payload.length < 2 ^ 32) :
    bgzfBlock (bgzfFrame cdata payload ++ rest) = some (payload, rest) := by
  rw [bgzfFrame_eq]
  have hcrc := le32_toLe32 _ (crc32_lt payload hb)
  have hlen := le32_toLe32 _ hl
  have h16 := le16_toLe16 _ hc
  simp [bgzfBlock, h16, toLe32, hinf, hcrc, hlen]


theorem deflateStored_zero_length (c : List Nat) (h : c.length ≤ 65535) :
    (deflateStored 0 c).length = c.length + 5 := by
  simp [deflateStored, deflateStoredBlock]; omega

theorem bgzfBlock_stored (payload rest : List Nat) (hb : IsBytes payload) (hl : payload.length ≤ 65280) :
    bgzfBlock (bgzfFrame (deflateStored 0 payload) payload ++ rest) = some (payload, rest) := by
  have hi := inflate_deflateStored payload [] 0 (by omega)
  rw [List.append_nil] at hi
  exact bgzfBlock_frame _ _ _ _ hi (by rw [deflateStored_zero_length _ (by omega)]; omega) hb (by omega)

theorem bgzfFrame_isEmpty (cdata payload rest : List Nat) :
    (bgzfFrame cdata payload ++ rest).isEmpty = false := by
  rw [bgzfFrame_eq]; rfl

theorem bgzfEncodeStored_cons (c : List Nat) (cs : List (List Nat)) :
    bgzfEncodeStored (c :: cs) = bgzfFrame (deflateStored 0 c) c ++ bgzfEncodeStored cs := by
  simp [bgzfEncodeStored]

theorem bgzfFrame_length (cdata payload : List Nat) :
    (bgzfFrame cdata payload).length = cdata.length + 26 := by
  simp [bgzfFrame, toLe16, toLe32]

theorem bgzfEncodeStored_length_ge (chunks : List (List Nat)) :
    chunks.length + 1 ≤ (bgzfEncodeStored chunks).length := by
  induction chunks with
  | nil => simp [bgzfEncodeStored, bgzfFrame_length]
  | cons c cs ih => rw [bgzfEncodeStored_cons]; simp [bgzfFrame_length]; omega

theorem bgzfDecode_encodeStored (chunks : List (List Nat)) :
    ∀ fuel, chunks.length + 2 ≤ fuel → (∀ c ∈ chunks, IsBytes c ∧ c.length ≤ 65280) →
    bgzfDecode fuel (bgzfEncodeStored chunks) = some chunks.flatten := by
  induction chunks with
  | nil =>
    intro fuel hf _
    obtain ⟨f, rfl⟩ : ∃ f, fuel = f + 2 := ⟨fuel - 2, by omega⟩
    have : bgzfEncodeStored [] = bgzfFrame (deflateStored 0 []) [] ++ [] := by simp [bgzfEncodeStored]
    rw [this, bgzfDecode, bgzfFrame_isEmpty, bgzfBlock_stored [] [] (by intro b hb; simp at hb) (by simp)]
    simp [bgzfDecode]
  | cons c cs ih =>
    intro fuel hf h
    obtain ⟨f, rfl⟩ : ∃ f, fuel = f + 1 := ⟨fuel - 1, by omega⟩
    have hc := h c (by simp)
    rw [bgzfEncodeStored_cons, bgzfDecode, bgzfFrame_isEmpty, bgzfBlock_stored c _ hc.1 hc.2]
    simp only [Bool.false_eq_true, if_false]
    rw [ih f (by simp at hf; omega) (fun x hx => h x (by simp [hx]))]
    simp

theorem bgzfDecodeAll_encodeStored (chunks : List (List Nat))
    (h : ∀ c ∈ chunks, IsBytes c ∧ c.length ≤ 65280) :
    bgzfDecodeAll (bgzfEncodeStored chunks) = some chunks.flatten := by
  unfold bgzfDecodeAll
  exact bgzfDecode_encodeStored chunks _ (by have := bgzfEncodeStored_length_ge chunks; omega) h

theorem gunzipMember_bgzf (m0 m1 m2 m3 m4 m5 e0 e1 e2 e3 e4 e5 c0 c1 c2 c3 s0 s1 s2 s3 : Nat)
    (r data after : List Nat)
    (hi : inflate r = some (data, c0 :: c1 :: c2 :: c3 :: s0 :: s1 :: s2 :: s3 :: after))
    (hcrc : le32 c0 c1 c2 c3 = crc32 data) (hlen : le32 s0 s1 s2 s3 = data.length % 4294967296) :
    gunzipMember (0x1f :: 0x8b :: 8 :: 4 :: m0 :: m1 :: m2 :: m3 :: m4 :: m5 :: 6 :: 0 ::
      e0 :: e1 :: e2 :: e3 :: e4 :: e5 :: r) = some (data, after) := by
  have h6 : ¬ (r.length + 1 + 1 + 1 + 1 + 1 + 1 < 6) := by omega
  simp [gunzipMember, le16, h6, hi, hcrc, hlen]

theorem gunzipMember_frame (c tail : List Nat) (hb : IsBytes c) (hl : c.length ≤ 65280) :
    gunzipMember (bgzfFrame (deflateStored 0 c) c ++ tail) = some (c, tail) := by
  rw [bgzfFrame_eq]
  have hi := inflate_deflateStored c (toLe32 (crc32 c) ++ toLe32 c.length ++ tail) 0 (by omega)
  have hcrc := le32_toLe32 _ (crc32_lt c hb)
  have hlen := le32_toLe32 c.length (by omega)
  have hmod : c.length % 4294967296 = c.length := by omega
  simp only [toLe32, List.cons_append, List.nil_append] at hi ⊢
  exact gunzipMember_bgzf _ _ _ _ _ _ _ _ _ _ _ _ _ _ _ _ _ _ _ _ _ _ _ hi hcrc (by rw [hmod]; exact hlen)

theorem inflate3_encodeStored (c : List Nat) (cs : List (List Nat)) (hb : IsBytes c)
    (hc : 3 ≤ c.length ∧ c.length ≤ 65280) :
    inflate3 ((bgzfEncodeStored (c :: cs)).take 65536) = some (c.take 3) := by
  have hfl : (bgzfFrame (deflateStored 0 c) c).length ≤ 65536 := by
    rw [bgzfFrame_length, deflateStored_zero_length c (by omega)]; omega
  rw [bgzfEncodeStored_cons, List.take_append, List.take_of_length_le hfl]
  unfold inflate3
  rw [gunzipPrefix]
  rw [gunzipMember_frame c _ hb hc.2]
  simp
  omega

end Sfs
