/-
Helper lemmas for Props/C12B.lean (Inflate).
-/
import SfsModel.Model.Container
namespace Sfs

end Sfs
