/-
Helper lemmas (ProjMarg): projection commutes with marginalization.
The projection kernel summed over the removed target axes is the kernel of the remaining axes
(each hypergeometric row sums to one).
-/
import SfsModel.Lemmas.Marginalize
import SfsModel.Lemmas.Hyper
import SfsModel.Lemmas.StatDecomp
namespace Sfs
open Finset

section field
variable {α : Type} [Field α]

theorem pm_sumBox_zero : ∀ (s : List Nat), sumBox s (fun _ => (0 : α)) = 0
  | [] => rfl
  | v :: s => by
    simp only [sumBox]
    exact Finset.sum_eq_zero (fun i _ => pm_sumBox_zero s)

/-- The kernel of the full projection, summed over all target indices that agree with `u` on the remaining axes,
    is the kernel of the projection of the remaining axes. -/
theorem pm_sumBox_drop [CharZero α] (A : List Nat) : ∀ (fs ts fidx u : List Nat) (k : Nat),
    InB fs fidx → fs.length = ts.length → (∀ v ∈ ts, 0 < v) →
    (∀ j, j < ts.length → ts.getD j 0 ≤ fs.getD j 0) → InB (dropFrom A ts k) u →
    sumBox ts (fun tidx => if dropFrom A tidx k = u then
        (projectValue (fs.map (· - 1)) fidx (ts.map (· - 1)) tidx : α) else 0)
      = projectValue ((dropFrom A fs k).map (· - 1)) (dropFrom A fidx k) ((dropFrom A ts k).map (· - 1)) u
  | [], [], [], u, k, _, _, _, _, hu => by
    rw [dropFrom_nil] at hu
    cases u with
    | nil => simp [sumBox, projectValue, dropFrom_nil]
    | cons _ _ => simp [InB] at hu
  | v :: fs, w :: ts, i :: fidx, u, k, hin, hl, hpos, hle, hu => by
    have hw : 0 < w := hpos w (by simp)
    have hwv : w ≤ v := by simpa using hle 0 (by simp)
    have hi : i < v := hin.1
    have ih := fun u' hu' => pm_sumBox_drop A fs ts fidx u' (k + 1) hin.2 (by simpa using hl)
      (fun x hx => hpos x (by simp [hx])) (fun j hj => by simpa using hle (j + 1) (by simpa using hj)) hu'
    simp only [sumBox, List.map_cons]
    by_cases hk : k ∈ A
    · rw [dropFrom_cons, if_pos hk] at hu
      rw [dropFrom_cons, dropFrom_cons, dropFrom_cons, if_pos hk, if_pos hk, if_pos hk]
      have hterm : ∀ t ∈ Finset.range w, sumBox ts (fun tidx => if dropFrom A (t :: tidx) k = u then
          (projectValue ((v - 1) :: fs.map (· - 1)) (i :: fidx) ((w - 1) :: ts.map (· - 1)) (t :: tidx) : α) else 0)
          = hyper (v - 1) i (w - 1) t *
            projectValue ((dropFrom A fs (k + 1)).map (· - 1)) (dropFrom A fidx (k + 1))
              ((dropFrom A ts (k + 1)).map (· - 1)) u := by
        intro t _
        rw [← ih u hu, ← sumBox_mul_left]
        congr 1
        funext tidx
        rw [dropFrom_cons, if_pos hk, projectValue_cons]
        by_cases e : dropFrom A tidx (k + 1) = u
        · rw [if_pos e, if_pos e]
        · rw [if_neg e, if_neg e, mul_zero]
      rw [Finset.sum_congr rfl hterm, ← Finset.sum_mul]
      have hw' : w = (w - 1) + 1 := by omega
      rw [hw']
      simp only [Nat.add_sub_cancel]
      rw [hyper_sum_one (v - 1) i (w - 1) (by omega) (by omega), one_mul]
    · rw [dropFrom_cons, if_neg hk] at hu
      rw [dropFrom_cons, dropFrom_cons, dropFrom_cons, if_neg hk, if_neg hk, if_neg hk]
      cases u with
      | nil => simp [InB] at hu
      | cons t0 u' =>
        have ht0 : t0 < w := hu.1
        have hterm : ∀ t ∈ Finset.range w, sumBox ts (fun tidx => if dropFrom A (t :: tidx) k = t0 :: u' then
            (projectValue ((v - 1) :: fs.map (· - 1)) (i :: fidx) ((w - 1) :: ts.map (· - 1)) (t :: tidx) : α) else 0)
            = if t0 = t then hyper (v - 1) i (w - 1) t0 *
              projectValue ((dropFrom A fs (k + 1)).map (· - 1)) (dropFrom A fidx (k + 1))
                ((dropFrom A ts (k + 1)).map (· - 1)) u' else 0 := by
          intro t _
          by_cases e0 : t0 = t
          · subst e0
            rw [if_pos rfl, ← ih u' hu.2, ← sumBox_mul_left]
            congr 1
            funext tidx
            rw [dropFrom_cons, if_neg hk, projectValue_cons]
            by_cases e : dropFrom A tidx (k + 1) = u'
            · rw [if_pos (by rw [e]), if_pos e]
            · rw [if_neg (by intro h; exact e (List.cons.inj h).2), if_neg e, mul_zero]
          · rw [if_neg e0]
            refine Eq.trans ?_ (pm_sumBox_zero ts)
            congr 1
            funext tidx
            rw [dropFrom_cons, if_neg hk, if_neg (by intro h; exact e0 (List.cons.inj h).1.symm)]
        rw [Finset.sum_congr rfl hterm, Finset.sum_ite_eq, if_pos (Finset.mem_range.mpr ht0), List.map_cons,
          List.map_cons, projectValue_cons]
  | [], _ :: _, _, _, _, _, hl, _, _, _ => by simp at hl
  | _ :: _, [], _, _, _, _, hl, _, _, _ => by simp at hl
  | [], [], _ :: _, _, _, hin, _, _, _, _ => by simp [InB] at hin
  | _ :: _, _ :: _, [], _, _, hin, _, _, _, _ => by simp [InB] at hin

/-- flat form of `pm_sumBox_drop` -/
theorem pm_sum_drop [CharZero α] (A fs ts : List Nat) (f t' : Nat) (hok : ProjOk fs ts)
    (hf : f < size fs) (ht' : t' < size (dropIdx A ts)) :
    ∑ t ∈ range (size ts), (if dropIdx A (unflat ts t) = unflat (dropIdx A ts) t' then
        (projectValue (fs.map (· - 1)) (unflat fs f) (ts.map (· - 1)) (unflat ts t) : α) else 0)
      = projectValue ((dropIdx A fs).map (· - 1)) (dropIdx A (unflat fs f)) ((dropIdx A ts).map (· - 1))
          (unflat (dropIdx A ts) t') := by
  rw [sum_unflat ts (fun tidx => if dropIdx A tidx = unflat (dropIdx A ts) t' then
        (projectValue (fs.map (· - 1)) (unflat fs f) (ts.map (· - 1)) tidx : α) else 0)]
  exact pm_sumBox_drop A fs ts (unflat fs f) (unflat (dropIdx A ts) t') 0 (unflat_inB fs f hf)
    hok.1 hok.2.2.1 hok.2.2.2 (unflat_inB _ t' ht')

/-- Projection commutes with marginalization (stated with `dropIdx`). -/
theorem pm_project_marginalize [CharZero α] (a : Arr α) (hlen : a.data.length = size a.shape) (A ts : List Nat)
    (p pm m mp : Arr α)
    (h1 : project a ts = .ok p) (h2 : marginalize p A = .ok pm)
    (h3 : marginalize a A = .ok m) (h4 : project m (dropIdx A ts) = .ok mp) : pm = mp := by
  obtain ⟨ok1, hs1, hd1⟩ := project_spec a p ts hlen h1
  have hlenp : p.data.length = size p.shape := by rw [hd1, hs1]; simp
  obtain ⟨hnd2, hb2, hl2⟩ := marginalize_ok_inv p pm A h2
  rw [marginalize_ok p A hnd2 hb2 hl2] at h2
  have hpm := (marginalize_isMarg p A hlenp hnd2 hb2).1
  rw [Except.ok.inj h2] at hpm
  obtain ⟨hnd3, hb3, hl3⟩ := marginalize_ok_inv a m A h3
  rw [marginalize_ok a A hnd3 hb3 hl3] at h3
  have hm := (marginalize_isMarg a A hlen hnd3 hb3).1
  rw [Except.ok.inj h3] at hm
  have hlenm := hm.data_length
  obtain ⟨ok4, hs4, hd4⟩ := project_spec m mp (dropIdx A ts) hlenm h4
  obtain ⟨hps, hpd⟩ := hpm
  rw [hs1] at hps hpd
  obtain ⟨pmd, pms⟩ := pm
  obtain ⟨mpd, mps⟩ := mp
  simp only at hps hpd hs4 hd4
  rw [hps, hpd, hs4, hd4]
  congr 1
  apply List.map_congr_left
  intro t' ht'
  have ht'' : t' < size (dropIdx A ts) := List.mem_range.mp ht'
  have hR := sd_marg_push A a m hm (fun idx =>
    (projectValue ((dropIdx A a.shape).map (· - 1)) idx ((dropIdx A ts).map (· - 1))
      (unflat (dropIdx A ts) t') : α))
  rw [hm.1] at hR ⊢
  rw [hR]
  have hL : ∀ t ∈ range (size ts),
      (if dropIdx A (unflat ts t) = unflat (dropIdx A ts) t' then p.data.getD t 0 else 0)
        = ∑ f ∈ range (size a.shape), a.data.getD f 0 *
            (if dropIdx A (unflat ts t) = unflat (dropIdx A ts) t' then
              (projectValue (a.shape.map (· - 1)) (unflat a.shape f) (ts.map (· - 1)) (unflat ts t) : α) else 0) := by
    intro t ht
    rw [hd1, getD_map_range _ _ _ (mem_range.mp ht)]
    by_cases e : dropIdx A (unflat ts t) = unflat (dropIdx A ts) t'
    · simp only [if_pos e]
    · simp only [if_neg e, mul_zero, Finset.sum_const_zero]
  rw [Finset.sum_congr rfl hL, Finset.sum_comm]
  apply Finset.sum_congr rfl
  intro f hf
  rw [← Finset.mul_sum, pm_sum_drop A a.shape ts f t' ok1 (mem_range.mp hf) ht'']

end field
end Sfs
