/-
Reader lemmas over the `std::io::BufRead` model of `Model/IoModel.lean`: the no-failure invariant `Rd.Ok`,
its preservation by `fill_buf` / `consume`, and schedule independence of `read_to_end`.
Used by C12 (detection prefix) and C18.
-/
import SfsModel.Model.IoModel
import SfsModel.Model.Detect
namespace Sfs

/-- A reader that never fails and whose current buffer lies inside the remaining data. -/
def Rd.Ok (r : Rd) : Prop := r.avail ≤ r.data.length ∧ r.failAt = none

theorem Rd.ok_of_avail_zero (r : Rd) (h0 : r.avail = 0) (hf : r.failAt = none) : Rd.Ok r :=
  ⟨by omega, hf⟩

/-- `fill_buf` on an `Ok` reader: succeeds, leaves `data` untouched, keeps `Ok`, returns the prefix of `data` of the
    new buffer length, which is at least one byte unless the data is exhausted. -/
theorem Rd.fillBuf_ok (r : Rd) (h : Rd.Ok r) :
    ∃ r', r.fillBuf = .ok (r.data.take r'.avail, r') ∧ Rd.Ok r' ∧ r'.data = r.data ∧ r'.failAt = r.failAt ∧
      (r.data ≠ [] → 1 ≤ r'.avail) ∧ (r.data = [] → r'.avail = 0) := by
  obtain ⟨ha, hf⟩ := h
  unfold Rd.fillBuf
  by_cases hav : r.avail > 0
  · rw [if_pos hav]
    refine ⟨r, rfl, ⟨ha, hf⟩, rfl, rfl, fun _ => hav, ?_⟩
    intro hd; rw [hd] at ha; simp at ha; omega
  · rw [if_neg hav, hf]
    cases hd : r.data with
    | nil =>
      refine ⟨r, ?_, ⟨by omega, hf⟩, hd, hf, fun h => absurd rfl h, fun _ => by omega⟩
      simp
    | cons x xs =>
      simp only [List.isEmpty_cons, Bool.false_eq_true, if_false]
      refine ⟨{ r with avail := min (max 1 (r.sched.headD (x :: xs).length)) (x :: xs).length,
                       sched := r.sched.tail }, ?_, ⟨?_, hf⟩, hd, hf, ?_, ?_⟩
      · simp only [hd, hf]
      · simp only [hd]; exact Nat.min_le_right _ _
      · intro _; simp only [List.length_cons]; omega
      · intro h; exact absurd h (by simp)

theorem Rd.consume_ok (r : Rd) (n : Nat) (h : Rd.Ok r) : Rd.Ok (r.consume n) := by
  obtain ⟨ha, hf⟩ := h
  refine ⟨?_, ?_⟩
  · simp only [Rd.consume, List.length_drop]; omega
  · simp only [Rd.consume, hf, Option.map_none]

theorem Rd.consume_data (r : Rd) (n : Nat) : (r.consume n).data = r.data.drop n := rfl

/-- `fill_buf` on an `Ok` reader with data left returns a non-empty prefix of `data`. -/
theorem Rd.fillBuf_ok_nonempty (r : Rd) (h : Rd.Ok r) (hne : r.data ≠ []) :
    ∃ r', r.fillBuf = .ok (r.data.take r'.avail, r') ∧ Rd.Ok r' ∧ r'.data = r.data ∧
      1 ≤ r'.avail ∧ (r.data.take r'.avail).length = r'.avail := by
  obtain ⟨r', he, hok, hd, _, h1, _⟩ := Rd.fillBuf_ok r h
  refine ⟨r', he, hok, hd, h1 hne, ?_⟩
  have := hok.1
  rw [hd] at this
  simp only [List.length_take]; omega

/-- `read_to_end` on an `Ok` reader returns all the remaining data whatever the chunk schedule (each round consumes at
    least one byte, so `data.length + 1` rounds suffice). -/
theorem Rd.readToEnd_schedule_free_ok (fuel : Nat) (r : Rd) (h : Rd.Ok r) (hfuel : r.data.length < fuel) :
    ∃ r', r.readToEnd fuel = .ok (r.data, r') ∧ r'.data = [] ∧ Rd.Ok r' := by
  induction fuel generalizing r with
  | zero => omega
  | succ fuel ih =>
    unfold Rd.readToEnd
    by_cases hne : r.data = []
    · obtain ⟨r', he, hok, hd, _, _, h0⟩ := Rd.fillBuf_ok r h
      rw [he, h0 hne, hne]
      exact ⟨r', by simp, by rw [hd, hne], hok⟩
    · obtain ⟨r', he, hok, hd, h1, hlen⟩ := Rd.fillBuf_ok_nonempty r h hne
      rw [he]
      have hnemp : (r.data.take r'.avail).isEmpty = false := by
        cases hb : r.data.take r'.avail with
        | nil => rw [hb] at hlen; simp at hlen; omega
        | cons _ _ => rfl
      simp only [hnemp, Bool.false_eq_true, if_false, hlen]
      have hok2 := Rd.consume_ok r' r'.avail hok
      have hle : r'.avail ≤ r.data.length := hd ▸ hok.1
      have hlt : (r'.consume r'.avail).data.length < fuel := by
        rw [Rd.consume_data, hd, List.length_drop]; omega
      obtain ⟨r'', he2, hd2, hok3⟩ := ih (r'.consume r'.avail) hok2 hlt
      rw [he2, Rd.consume_data, hd]
      dsimp only
      rw [List.take_append_drop]
      exact ⟨r'', rfl, hd2, hok3⟩

theorem Rd.readToEnd_schedule_free (fuel : Nat) (r : Rd) (h : Rd.Ok r) (hfuel : r.data.length < fuel) :
    ∃ r', r.readToEnd fuel = .ok (r.data, r') ∧ r'.data = [] := by
  obtain ⟨r', he, hd, _⟩ := Rd.readToEnd_schedule_free_ok fuel r h hfuel
  exact ⟨r', he, hd⟩

/-- `take(limit).read_to_end` on an `Ok` reader: exactly the first `limit` bytes of the remaining data (all of it if
    shorter) whatever the chunk schedule, and the reader is left `Ok` right behind them. -/
theorem Rd.readUpTo_ok (fuel : Nat) (r : Rd) (h : Rd.Ok r) (limit : Nat) (hfuel : limit ≤ fuel) :
    ∃ r', r.readUpTo fuel limit = .ok (r.data.take limit, r') ∧ Rd.Ok r' ∧ r'.data = r.data.drop limit := by
  induction fuel generalizing r limit with
  | zero =>
    have : limit = 0 := by omega
    subst this
    exact ⟨r, by simp [Rd.readUpTo], h, by simp⟩
  | succ fuel ih =>
    cases limit with
    | zero => exact ⟨r, by simp [Rd.readUpTo], h, by simp⟩
    | succ n =>
      unfold Rd.readUpTo
      by_cases hne : r.data = []
      · obtain ⟨r', he, hok, hd, _, _, h0⟩ := Rd.fillBuf_ok r h
        rw [he, h0 hne, hne]
        exact ⟨r', by simp, hok, by rw [hd, hne]; simp⟩
      · obtain ⟨r', he, hok, hd, h1, hlen⟩ := Rd.fillBuf_ok_nonempty r h hne
        rw [he]
        have hnemp : (r.data.take r'.avail).isEmpty = false := by
          cases hb : r.data.take r'.avail with
          | nil => rw [hb] at hlen; simp at hlen; omega
          | cons _ _ => rfl
        simp only [hnemp, Bool.false_eq_true, if_false, hlen]
        have hle : r'.avail ≤ r.data.length := hd ▸ hok.1
        have hok2 := Rd.consume_ok r' (min r'.avail (n + 1)) hok
        have hd2 : (r'.consume (min r'.avail (n + 1))).data = r.data.drop (min r'.avail (n + 1)) := by
          rw [Rd.consume_data, hd]
        obtain ⟨r'', he2, hok3, hd3⟩ :=
          ih (r'.consume (min r'.avail (n + 1))) hok2 (n + 1 - min r'.avail (n + 1)) (by omega)
        rw [he2]
        refine ⟨r'', ?_, hok3, ?_⟩
        · dsimp only
          have hm : min (min r'.avail (n + 1)) r'.avail = min r'.avail (n + 1) := by omega
          rw [hd2, List.take_take, hm, ← List.take_add]
          congr 3
          omega
        · rw [hd3, hd2, List.drop_drop]; congr 1; omega

/-- the detection prefix (`Model/Detect.lean`) on an `Ok` reader: the first 64 KiB whatever the chunk schedule, with the
    reader left `Ok` on the rest of the data. -/
theorem readPrefix_ok_rest (r : Rd) (h : Rd.Ok r) :
    ∃ r', readPrefix r = .ok (r.data.take 65536, r') ∧ Rd.Ok r' ∧ r'.data = r.data.drop 65536 :=
  Rd.readUpTo_ok 65536 r h 65536 (Nat.le_refl _)

end Sfs
