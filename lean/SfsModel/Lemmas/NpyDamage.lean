/-
Helper lemmas (NpyDamage): a written npy file cut short or extended is rejected by `readNpy`; format detection
on a damaged npy file never selects the text reader.
-/
import SfsModel.Lemmas.NpyRoundtrip
namespace Sfs

/-- intact written header, but the body is not exactly the declared number of 8-byte values. -/
theorem readNpy_written_bad_body (shape : List Nat) (hne : shape ≠ []) (hb : ∀ v ∈ shape, v < 2 ^ 64) (L pad : Nat)
    (hL : L = (npyDict shape).length + pad + 1) (hlt : L < 65536) (n : Nat) (hsz : checkedSize shape = some n)
    (body : List Nat) (hbody : body.length ≠ 8 * n) :
    ∃ e, readNpy (npyMagic ++ [1, 0] ++ leBytes 2 L ++ asciiBytes (npyDict shape) ++ List.replicate pad 32 ++ [10]
      ++ body) = .error e := by
  rw [readNpy_written shape hne hb L pad hL hlt]
  have h := readValues_f8_len .little (body.length + 1) body (Nat.lt_succ_self _)
  by_cases h8 : body.length % 8 = 0
  · obtain ⟨vals, hv, hvl⟩ := h.1 h8
    have : ¬ n = vals.length := by clear hv h; omega
    simp only [hv, hsz, Option.some.injEq, this, if_false]
    exact ⟨_, rfl⟩
  · simp only [h.2 h8]
    exact ⟨_, rfl⟩

/-- every strict prefix of header ++ values is rejected. -/
theorem readNpy_take_written (shape bits : List Nat) (hne : shape ≠ []) (hb : ∀ v ∈ shape, v < 2 ^ 64) (L pad : Nat)
    (hL : L = (npyDict shape).length + pad + 1) (hlt : L < 65536) (hsz : checkedSize shape = some bits.length)
    (n : Nat)
    (hn : n < (npyMagic ++ [1, 0] ++ leBytes 2 L ++ asciiBytes (npyDict shape) ++ List.replicate pad 32 ++ [10]
      ++ (bits.map (leBytes 8)).flatten).length) :
    ∃ e, readNpy ((npyMagic ++ [1, 0] ++ leBytes 2 L ++ asciiBytes (npyDict shape) ++ List.replicate pad 32 ++ [10]
      ++ (bits.map (leBytes 8)).flatten).take n) = .error e := by
  have hv := flatten_leBytes8_length bits
  generalize (bits.map (leBytes 8)).flatten = vals at hv hn ⊢
  by_cases h10 : n < 10
  · exact readNpy_lt10 _ (by simp only [List.length_take]; omega)
  by_cases hh : n < 10 + L
  · -- the cut falls inside dict / padding
    have hpl : (npyMagic ++ [1, 0] ++ leBytes 2 L).length = 10 := by simp [npyMagic]
    have e1 : npyMagic ++ [1, 0] ++ leBytes 2 L ++ asciiBytes (npyDict shape) ++ List.replicate pad 32 ++ [10] ++ vals
        = (npyMagic ++ [1, 0] ++ leBytes 2 L) ++ (asciiBytes (npyDict shape) ++ List.replicate pad 32 ++ [10] ++ vals) := by
      simp only [List.append_assoc]
    rw [e1, List.take_append, List.take_of_length_le (l := npyMagic ++ [1, 0] ++ leBytes 2 L) (i := n) (by omega)]
    exact ⟨_, readNpy_short_header L _ hlt (by simp only [List.length_take, hpl]; omega)⟩
  · -- the header is intact, the cut falls into the values
    have hl : (npyMagic ++ [1, 0] ++ leBytes 2 L ++ asciiBytes (npyDict shape) ++ List.replicate pad 32 ++ [10]).length
        = 10 + L := by
      simp only [List.length_append, npyMagic, List.length_cons, List.length_nil, leBytes_length, asciiBytes_length,
        List.length_replicate]
      omega
    rw [List.length_append, hl] at hn
    rw [List.take_append, List.take_of_length_le
      (l := npyMagic ++ [1, 0] ++ leBytes 2 L ++ asciiBytes (npyDict shape) ++ List.replicate pad 32 ++ [10]) (i := n)
      (by omega)]
    exact readNpy_written_bad_body shape hne hb L pad hL hlt bits.length hsz _
      (by simp only [List.length_take, hl]; omega)

/-- a file that does not start with `#` is either handed to the npy reader or rejected by detection. -/
theorem readSpectrum_not_text (b : List Nat) (h : b.head? ≠ some 35) :
    readSpectrum b = readNpy b ∨ readSpectrum b = .error .invalid := by
  have ht : textStart.isPrefixOf b = false := by
    cases b with
    | nil => rfl
    | cons x t =>
      have hx : x ≠ 35 := by simpa using h
      simp [textStart, asciiBytes, List.isPrefixOf, Ne.symm hx]
  unfold readSpectrum detectFormat
  simp only [ht]
  cases npyMagic.isPrefixOf b <;> simp

theorem readSpectrum_error_of_readNpy (b : List Nat) (h : b.head? ≠ some 35) (he : ∃ e, readNpy b = .error e) :
    ∃ e, readSpectrum b = .error e := by
  rcases readSpectrum_not_text b h with h' | h'
  · rw [h']; exact he
  · exact ⟨_, h'⟩

theorem writeNpy_magic (shape bits bytes : List Nat) (hw : writeNpy shape bits = .ok bytes) :
    ∃ t, bytes = npyMagic ++ t := by
  obtain ⟨hd, hh, rfl⟩ := writeNpy_eq_ok shape bits bytes hw
  obtain ⟨t, rfl⟩ := npyHeader_magic shape hd hh
  exact ⟨t ++ _, by rw [List.append_assoc]⟩

theorem npyMagic_take_head (t : List Nat) (n : Nat) : ((npyMagic ++ t).take n).head? ≠ some 35 := by
  rw [List.head?_take]
  split <;> simp [npyMagic]

theorem npyMagic_append_head (t extra : List Nat) : (npyMagic ++ t ++ extra).head? ≠ some 35 := by
  simp [npyMagic]

end Sfs
