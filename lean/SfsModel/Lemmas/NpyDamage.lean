/-
Helper lemmas (NpyDamage).
-/
import SfsModel.Lemmas.NpyRoundtrip
namespace Sfs

end Sfs
