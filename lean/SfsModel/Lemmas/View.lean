/-
Helper lemmas for the view pipeline (mask, normalize).
-/
import SfsModel.Model.Spectrum
import SfsModel.Lemmas.Index
import Mathlib.Algebra.Field.Basic
import Mathlib.Algebra.BigOperators.Group.List.Basic
import Mathlib.Algebra.BigOperators.Ring.List
namespace Sfs

/-! ### sum / normalize -/

theorem foldl_add_eq_sum {α} [AddCommMonoid α] (l : List α) (z : α) :
    l.foldl (· + ·) z = z + l.sum := by
  induction l generalizing z with
  | nil => simp
  | cons a l ih => simp [List.foldl_cons, ih, add_assoc]

theorem sumList_eq_sum {α} [AddCommMonoid α] (x : List α) : sumList x = x.sum := by
  unfold sumList
  rw [foldl_add_eq_sum, zero_add]

theorem normalize_eq_map {α} [Field α] (x : List α) : normalize x = x.map (· / x.sum) := by
  unfold normalize
  simp only [sumList_eq_sum]

theorem normalize_length {α} [Field α] (x : List α) : (normalize x).length = x.length := by
  rw [normalize_eq_map, List.length_map]

theorem normalize_sum {α} [Field α] (x : List α) (h : x.sum ≠ 0) :
    (normalize x).sum = 1 := by
  rw [normalize_eq_map]
  rw [show (fun a : α => a / x.sum) = (fun a => a * (x.sum)⁻¹) by funext a; rw [div_eq_mul_inv]]
  rw [List.sum_map_mul_right]
  simp [mul_inv_cancel₀ h]

theorem normalize_getD {α} [Field α] (x : List α) (i : Nat) :
    (normalize x).getD i 0 = x.getD i 0 / x.sum := by
  rw [normalize_eq_map]
  simp only [List.getD_eq_getElem?_getD, List.getElem?_map]
  cases x[i]? <;> simp

theorem normalize_ratio {α} [Field α] (x : List α) (i j : Nat) :
    (normalize x).getD i 0 * x.getD j 0 = (normalize x).getD j 0 * x.getD i 0 := by
  rw [normalize_getD, normalize_getD, div_mul_eq_mul_div, div_mul_eq_mul_div, mul_comm]

/-! ### mask -/

theorem maskMonomorphic_length {α} [OfNat α 0] (x : List α) :
    (maskMonomorphic x).length = x.length := by
  cases x with
  | nil => rfl
  | cons a l => simp [maskMonomorphic]

theorem maskMonomorphic_getElem? {α} [OfNat α 0] (x : List α) (i : Nat) (h : i < x.length) :
    (maskMonomorphic x)[i]? = if i = 0 ∨ i = x.length - 1 then some 0 else x[i]? := by
  cases x with
  | nil => simp at h
  | cons a l =>
    simp only [List.length_cons] at h
    simp only [maskMonomorphic, List.getElem?_set, List.length_set, List.length_cons,
      Nat.add_sub_cancel]
    grind

/-! ### first / last index -/

theorem pred_inB : ∀ s, 0 < size s → InB s (s.map (· - 1))
  | [], _ => by simp [InB]
  | v :: s, h => by
    simp only [size] at h
    have hv : 0 < v := Nat.pos_of_mul_pos_right h
    have hs : 0 < size s := Nat.pos_of_mul_pos_left h
    simp only [List.map_cons, InB]
    exact ⟨by omega, pred_inB s hs⟩

theorem flat_pred : ∀ s, 0 < size s → flat s (s.map (· - 1)) = size s - 1
  | [], _ => by simp [flat, size]
  | v :: s, h => by
    simp only [size] at h
    have hv : 0 < v := Nat.pos_of_mul_pos_right h
    have hs : 0 < size s := Nat.pos_of_mul_pos_left h
    have ih := flat_pred s hs
    simp only [List.map_cons, flat, size, ih]
    obtain ⟨k, rfl⟩ : ∃ k, v = k + 1 := ⟨v - 1, by omega⟩
    rw [Nat.add_mul, Nat.one_mul]
    simp only [Nat.add_sub_cancel]
    omega

theorem unflat_last (s : List Nat) (h : 0 < size s) : unflat s (size s - 1) = s.map (· - 1) := by
  rw [← flat_pred s h]
  exact unflat_flat s _ (pred_inB s h)

theorem unflat_zero_map (s : List Nat) : unflat s 0 = s.map (fun _ => 0) := by
  rw [unflat_zero]
  induction s with
  | nil => rfl
  | cons v s ih => rw [List.length_cons, List.replicate_succ, ih, List.map_cons]

/-! ### the option pipeline, stage by stage -/

section Pipeline
variable {α : Type} [Add α] [Mul α] [Div α] [NatCast α] [OfNat α 0] [OfNat α 1]

/-- Stage 1 of `viewRun`: marginalization (`keep` wins over `remove`). -/
def margStage (r k : Option (List Nat)) (a : Arr α) : Except ViewErr (Arr α) :=
  match (match k, r with
    | some k, _ => some (keepToRemove a.shape.length k)
    | none, some r => some r
    | none, none => none : Option (List Nat)) with
  | some axes => match marginalize a axes with
    | .ok b => .ok b
    | .error e => .error (.marg e)
  | none => .ok a

/-- Stage 2 of `viewRun`: projection (`projectIndividuals` wins over `projectShape`). -/
def projStage (ps pi : Option (List Nat)) (b : Arr α) : Except ViewErr (Arr α) :=
  match (match pi, ps with
    | some is, _ => some (individualsToShape is)
    | none, some sh => some sh
    | none, none => none : Option (List Nat)) with
  | some t => match project b t with
    | .ok c => .ok c
    | .error e => .error (.proj e)
  | none => .ok b

/-- Stages 3 and 4 of `viewRun`: mask, then normalize. -/
def finStage (m n : Bool) (c : Arr α) : Arr α :=
  ⟨if n then normalize (if m then maskMonomorphic c.data else c.data)
    else (if m then maskMonomorphic c.data else c.data), c.shape⟩

theorem viewRun_eq_stages (o : ViewOpts) (a : Arr α) :
    viewRun o a =
      match margStage o.remove o.keep a with
      | .error e => .error e
      | .ok b =>
        match projStage o.projectShape o.projectIndividuals b with
        | .error e => .error e
        | .ok c => .ok (finStage o.mask o.normalize c) := rfl

omit [Mul α] [NatCast α] [OfNat α 1] in
theorem finStage_ff (c : Arr α) : finStage false false c = c := by
  cases c; rfl

theorem projStage_none (b : Arr α) : projStage none none b = .ok b := rfl

omit [Mul α] [Div α] [NatCast α] [OfNat α 1] in
theorem margStage_none (a : Arr α) : margStage none none a = .ok a := rfl

theorem viewRun_marg (r k : Option (List Nat)) (a : Arr α) :
    viewRun { remove := r, keep := k } a = margStage r k a := by
  rw [viewRun_eq_stages]
  cases margStage r k a with
  | error e => rfl
  | ok b => simp only [projStage_none, finStage_ff]

theorem viewRun_proj (ps pi : Option (List Nat)) (b : Arr α) :
    viewRun { projectShape := ps, projectIndividuals := pi } b = projStage ps pi b := by
  rw [viewRun_eq_stages]
  simp only [margStage_none]
  cases projStage ps pi b with
  | error e => rfl
  | ok c => simp only [finStage_ff]

theorem viewRun_mask (m : Bool) (c : Arr α) :
    viewRun { mask := m } c = .ok (finStage m false c) := by
  rw [viewRun_eq_stages]
  simp only [margStage_none, projStage_none]

theorem viewRun_norm (n : Bool) (c : Arr α) :
    viewRun { normalize := n } c = .ok (finStage false n c) := by
  rw [viewRun_eq_stages]
  simp only [margStage_none, projStage_none]

omit [Mul α] [NatCast α] [OfNat α 1] in
theorem finStage_split (m n : Bool) (c : Arr α) :
    finStage false n (finStage m false c) = finStage m n c := by
  cases m <;> cases n <;> rfl

theorem viewRun_noop (a : Arr α) : viewRun {} a = .ok a := by
  rw [viewRun_eq_stages]
  simp only [margStage_none, projStage_none, finStage_ff]

end Pipeline

end Sfs
