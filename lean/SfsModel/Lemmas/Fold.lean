/-
Helper lemmas for folding (weight form `cw`, cell lemma, index-sum of the mirror).
-/
import SfsModel.Model.Spectrum
import SfsModel.Lemmas.Index
import Mathlib.Algebra.Field.Basic
import Mathlib.Algebra.CharZero.Defs
import Mathlib.Algebra.BigOperators.Group.Finset.Basic
import Mathlib.Algebra.BigOperators.Group.List.Basic
import Mathlib.Algebra.BigOperators.Intervals
import Mathlib.Tactic.Ring
import Mathlib.Tactic.Linarith
import Mathlib.Algebra.Order.Field.Basic
namespace Sfs
open Finset

/-! ### index sum: the running-quotient loop, the mirror partner -/

theorem indexSumLoop_eq : ∀ s i, i < size s → indexSumLoop (size s) i s = (unflat s i).sum
  | [], i, _ => by simp [indexSumLoop, unflat]
  | v :: s, i, h => by
    simp only [size] at h
    have hpos : 0 < size s := Nat.pos_of_mul_pos_left (by omega : 0 < v * size s)
    have hv : 0 < v := Nat.pos_of_mul_pos_right (by omega : 0 < v * size s)
    have e : v * size s / v = size s := Nat.mul_div_cancel_left _ hv
    simp only [indexSumLoop, unflat, size, e, List.sum_cons]
    rw [indexSumLoop_eq s _ (Nat.mod_lt _ hpos)]

theorem indexSumFromFlat_eq_sum (shape : List Nat) (i : Nat) (h : i < size shape) :
    indexSumFromFlat shape i = (unflat shape i).sum :=
  indexSumLoop_eq shape i h

/-- The flat partner `n - 1 - i` is the flat position of the mirrored multi-index. -/
theorem rev_eq_flat_mirror (shape : List Nat) (i : Nat) (h : i < size shape) :
    size shape - 1 - i = flat shape (mirror shape (unflat shape i)) := by
  rw [flat_mirror shape _ (unflat_inB shape i h), flat_unflat shape i h]

theorem indexSum_rev (s : List Nat) (i : Nat) (h : i < size s) :
    indexSumFromFlat s (size s - 1 - i) + indexSumFromFlat s i = s.sum - s.length := by
  have h' : size s - 1 - i < size s := by omega
  rw [indexSumFromFlat_eq_sum s _ h', indexSumFromFlat_eq_sum s _ h]
  have hb := unflat_inB s i h
  rw [rev_eq_flat_mirror s i h, unflat_flat s _ (mirror_inB s _ hb)]
  exact sum_mirror s _ hb

/-! ### the weight form -/

/-- weight form: c = 1 above the fold line, 1/2 on the diagonal, 0 below -/
def cw {α} [Field α] (total count : Nat) : α :=
  if 2 * count < total then 1 else if 2 * count = total then 1/2 else 0

theorem cw_add {α} [Field α] [CharZero α] (total a b : Nat) (h : a + b = total) :
    (cw total a : α) + cw total b = 1 := by
  unfold cw
  by_cases h1 : 2 * a < total
  · have : ¬ 2 * b < total := by omega
    have : ¬ 2 * b = total := by omega
    simp [*]
  · by_cases h2 : 2 * a = total
    · have : ¬ 2 * b < total := by omega
      have : 2 * b = total := by omega
      simp [*]; norm_num
    · have : 2 * b < total := by omega
      simp [*]

/-! ### one cell of the fold -/

/-- One cell of `foldOpt` (the body of the `map`). -/
def foldCellOpt {α} [Add α] [Mul α] [OfNat α 0] (half : α) (shape : List Nat) (x : List α) (i : Nat) :
    Option α :=
  match compare (indexSumFromFlat shape i) ((shape.sum - shape.length) / 2),
        ((shape.sum - shape.length) % 2 == 0) with
  | .lt, _ | .eq, false => some (x.getD i 0 + x.getD (size shape - 1 - i) 0)
  | .eq, true => some (half * x.getD i 0 + half * x.getD (size shape - 1 - i) 0)
  | .gt, _ => none

theorem foldOpt_eq {α} [Add α] [Mul α] [OfNat α 0] (half : α) (shape : List Nat) (x : List α) :
    foldOpt half shape x = (List.range (size shape)).map (foldCellOpt half shape x) := rfl

theorem foldSpectrum_eq {α} [Add α] [Mul α] [OfNat α 0] (half fill : α) (shape : List Nat) (x : List α) :
    foldSpectrum half fill shape x
      = (List.range (size shape)).map (fun i => (foldCellOpt half shape x i).getD fill) := by
  rw [foldSpectrum, foldOpt_eq, List.map_map]; rfl

theorem foldSpectrum_length {α} [Add α] [Mul α] [OfNat α 0] (half fill : α) (shape : List Nat)
    (x : List α) : (foldSpectrum half fill shape x).length = size shape := by
  rw [foldSpectrum_eq]; simp

theorem foldSpectrum_getElem? {α} [Add α] [Mul α] [OfNat α 0] (half fill : α) (shape : List Nat)
    (x : List α) (i : Nat) (h : i < size shape) :
    (foldSpectrum half fill shape x)[i]? = some ((foldCellOpt half shape x i).getD fill) := by
  rw [foldSpectrum_eq, List.getElem?_map, List.getElem?_range h]; rfl

theorem foldSpectrum_getD {α} [Add α] [Mul α] [OfNat α 0] (half fill : α) (shape : List Nat)
    (x : List α) (i : Nat) (h : i < size shape) :
    (foldSpectrum half fill shape x).getD i 0 = (foldCellOpt half shape x i).getD fill := by
  rw [List.getD_eq_getElem?_getD, foldSpectrum_getElem? half fill shape x i h]; rfl

/-- The code's three-way match as an `if` on `2 * count` against the maximal total. -/
theorem foldCell_if {α} [Field α] [CharZero α] (fill : α) (shape : List Nat) (x : List α) (i : Nat) :
    (foldCellOpt (1/2 : α) shape x i).getD fill
      = if 2 * indexSumFromFlat shape i < shape.sum - shape.length then
          x.getD i 0 + x.getD (size shape - 1 - i) 0
        else if 2 * indexSumFromFlat shape i = shape.sum - shape.length then
          (x.getD i 0 + x.getD (size shape - 1 - i) 0) / 2
        else fill := by
  unfold foldCellOpt
  generalize shape.sum - shape.length = T
  generalize indexSumFromFlat shape i = c
  generalize x.getD i 0 = a
  generalize x.getD (size shape - 1 - i) 0 = b
  rcases Nat.lt_trichotomy c (T / 2) with h | h | h
  · have h2 : 2 * c < T := by omega
    simp [Nat.compare_eq_lt.mpr h, h2]
  · by_cases hp : T % 2 = 0
    · have h2 : ¬ 2 * c < T := by omega
      have h3 : 2 * c = T := by omega
      simp [Nat.compare_eq_eq.mpr h, hp, h3]; ring
    · have h2 : 2 * c < T := by omega
      have hb : (T % 2 == 0) = false := by simpa using hp
      simp [Nat.compare_eq_eq.mpr h, hb, h2]
  · have h2 : ¬ 2 * c < T := by omega
    have h3 : ¬ 2 * c = T := by omega
    simp [Nat.compare_eq_gt.mpr h, h2, h3]

/-- The code's three-way match is the weight form (fill 0). -/
theorem foldCell_cw {α} [Field α] [CharZero α] (shape : List Nat) (x : List α) (i : Nat) :
    (foldCellOpt (1/2 : α) shape x i).getD 0
      = cw (shape.sum - shape.length) (indexSumFromFlat shape i)
          * (x.getD i 0 + x.getD (size shape - 1 - i) 0) := by
  rw [foldCell_if]
  unfold cw
  split
  · simp
  · split
    · ring
    · simp

/-- The cell depends on the data only through the sum of the pair. -/
theorem foldCell_congr {α} [Field α] [CharZero α] (fill : α) (shape : List Nat) (x y : List α) (i : Nat)
    (h : x.getD i 0 + x.getD (size shape - 1 - i) 0 = y.getD i 0 + y.getD (size shape - 1 - i) 0) :
    (foldCellOpt (1/2 : α) shape x i).getD fill = (foldCellOpt (1/2 : α) shape y i).getD fill := by
  rw [foldCell_if, foldCell_if, h]

theorem foldSpectrum_congr {α} [Field α] [CharZero α] (fill : α) (shape : List Nat) (x y : List α)
    (h : ∀ i, i < size shape →
      x.getD i 0 + x.getD (size shape - 1 - i) 0 = y.getD i 0 + y.getD (size shape - 1 - i) 0) :
    foldSpectrum (1/2 : α) fill shape x = foldSpectrum (1/2 : α) fill shape y := by
  rw [foldSpectrum_eq, foldSpectrum_eq]
  apply List.map_congr_left
  intro i hi
  exact foldCell_congr fill shape x y i (h i (List.mem_range.mp hi))

/-! ### list sums as range sums -/

theorem fold_list_range_sum {α} [AddCommMonoid α] (f : Nat → α) (n : Nat) :
    ((List.range n).map f).sum = ∑ i ∈ Finset.range n, f i := by
  induction n with
  | zero => simp
  | succ n ih => rw [List.range_succ, List.map_append, List.sum_append, ih, Finset.sum_range_succ]; simp

theorem list_eq_map_getD {α} (d : α) (x : List α) :
    x = (List.range x.length).map (fun i => x.getD i d) := by
  apply List.ext_getElem
  · simp
  · intro i h1 h2
    simp [List.getD_eq_getElem?_getD, List.getElem?_eq_getElem h1]

theorem list_sum_eq_range {α} [AddCommMonoid α] (x : List α) :
    x.sum = ∑ i ∈ Finset.range x.length, x.getD i 0 := by
  conv_lhs => rw [list_eq_map_getD 0 x]
  exact fold_list_range_sum _ _

/-! ### mass -/

theorem fold_mass_range {α} [Field α] [CharZero α] (shape : List Nat) (x : Nat → α) :
    ∑ i ∈ range (size shape),
        cw (shape.sum - shape.length) (indexSumFromFlat shape i) * (x i + x (size shape - 1 - i))
      = ∑ i ∈ range (size shape), x i := by
  set n := size shape with hn
  set T := shape.sum - shape.length with hT
  have hsplit : ∀ i, cw T (indexSumFromFlat shape i) * (x i + x (n - 1 - i))
      = cw T (indexSumFromFlat shape i) * x i + cw T (indexSumFromFlat shape i) * x (n - 1 - i) := by
    intro i; ring
  simp only [hsplit, Finset.sum_add_distrib]
  have hrefl : ∑ i ∈ range n, cw T (indexSumFromFlat shape i) * x (n - 1 - i)
      = ∑ i ∈ range n, cw T (indexSumFromFlat shape (n - 1 - i)) * x i := by
    rw [← Finset.sum_range_reflect (fun i => cw T (indexSumFromFlat shape (n - 1 - i)) * x i) n]
    apply Finset.sum_congr rfl
    intro i hi
    have hi' : i < n := Finset.mem_range.mp hi
    have : n - 1 - (n - 1 - i) = i := by omega
    rw [this]
  rw [hrefl, ← Finset.sum_add_distrib]
  apply Finset.sum_congr rfl
  intro i hi
  have hi' : i < size shape := Finset.mem_range.mp hi
  rw [← add_mul, add_comm, cw_add T _ _ (indexSum_rev shape i hi'), one_mul]

theorem foldSpectrum_mass {α} [Field α] [CharZero α] (shape : List Nat) (x : List α)
    (hlen : x.length = size shape) :
    (foldSpectrum (1/2 : α) 0 shape x).sum = x.sum := by
  rw [foldSpectrum_eq, fold_list_range_sum, list_sum_eq_range x, hlen]
  rw [← fold_mass_range shape (fun i => x.getD i 0)]
  exact Finset.sum_congr rfl (fun i _ => foldCell_cw shape x i)

/-! ### idempotence -/

theorem foldSpectrum_idem {α} [Field α] [CharZero α] (shape : List Nat) (x : List α) :
    foldSpectrum (1/2 : α) 0 shape (foldSpectrum (1/2 : α) 0 shape x)
      = foldSpectrum (1/2 : α) 0 shape x := by
  apply foldSpectrum_congr
  intro i hi
  have hr : size shape - 1 - i < size shape := by omega
  have hrr : size shape - 1 - (size shape - 1 - i) = i := by omega
  rw [foldSpectrum_getD _ _ _ _ i hi, foldSpectrum_getD _ _ _ _ _ hr, foldCell_cw, foldCell_cw, hrr]
  have hc := cw_add (α := α) (shape.sum - shape.length) _ _ (indexSum_rev shape i hi)
  generalize (cw (shape.sum - shape.length) (indexSumFromFlat shape i) : α) = c at *
  generalize (cw (shape.sum - shape.length) (indexSumFromFlat shape (size shape - 1 - i)) : α) = c' at *
  generalize x.getD i 0 = a
  generalize x.getD (size shape - 1 - i) 0 = b
  have : c * (a + b) + c' * (b + a) = (c' + c) * (a + b) := by ring
  rw [this, hc, one_mul]

/-! ### polarity -/

theorem reverse_getD {α} (d : α) (x : List α) (i : Nat) (h : i < x.length) :
    x.reverse.getD i d = x.getD (x.length - 1 - i) d := by
  simp [List.getD_eq_getElem?_getD, List.getElem?_reverse h]

theorem foldSpectrum_reverse {α} [Field α] [CharZero α] (fill : α) (shape : List Nat) (x : List α)
    (hlen : x.length = size shape) :
    foldSpectrum (1/2 : α) fill shape x.reverse = foldSpectrum (1/2 : α) fill shape x := by
  apply foldSpectrum_congr
  intro i hi
  have hr : size shape - 1 - i < size shape := by omega
  have hrr : size shape - 1 - (size shape - 1 - i) = i := by omega
  rw [reverse_getD 0 x i (by omega), reverse_getD 0 x _ (by omega), hlen, hrr, add_comm]

end Sfs
