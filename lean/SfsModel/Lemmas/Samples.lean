/-
Helper lemmas for genotype classification, GT parsing, the sample/population map and the column loop.
-/
import SfsModel.Model.Create
namespace Sfs

/-! ## GT parsing -/

def isSep (c : Char) : Prop := c = '/' ∨ c = '|'

theorem splitGT_ne_nil (s : List Char) : splitGT s ≠ [] := by
  induction s with
  | nil => simp [splitGT]
  | cons c cs ih =>
    unfold splitGT
    split
    · simp
    · split <;> simp

/-- the phasing normalisation used by `parseGT_phasing` -/
def unphase (c : Char) : Char := if c = '|' then '/' else c

theorem splitGT_map_unphase (s : List Char) : splitGT (s.map unphase) = splitGT s := by
  induction s with
  | nil => rfl
  | cons c cs ih =>
    simp only [List.map_cons, splitGT, ih]
    split
    · rename_i h0; exact absurd h0 (splitGT_ne_nil cs)
    · by_cases hc : c = '|'
      · subst hc; simp [unphase]
      · simp [unphase, hc]

theorem stripLeadSep_map_unphase (s : List Char) : stripLeadSep (s.map unphase) = (stripLeadSep s).map unphase := by
  cases s with
  | nil => rfl
  | cons c r =>
    by_cases hc : c = '|'
    · subst hc; simp [stripLeadSep, unphase]
    · by_cases hc' : c = '/'
      · subst hc'; simp [stripLeadSep, unphase]
      · simp [stripLeadSep, unphase, hc, hc']

theorem map_unphase_eq_dot (s : List Char) : s.map unphase = ['.'] ↔ s = ['.'] := by
  match s with
  | [] => simp
  | [c] =>
    by_cases hc : c = '|'
    · subst hc; simp [unphase]
    · simp [unphase, hc]
  | _ :: _ :: _ => simp

theorem splitGT_token (tok : List Char) (h : ∀ c ∈ tok, c ≠ '/' ∧ c ≠ '|') : splitGT tok = [tok] := by
  induction tok with
  | nil => rfl
  | cons c cs ih =>
    have hc := h c (by simp)
    simp only [splitGT, ih (fun x hx => h x (by simp [hx]))]
    simp [hc.1, hc.2]

theorem splitGT_token_sep (tok rest : List Char) (sep : Char) (h : ∀ c ∈ tok, c ≠ '/' ∧ c ≠ '|')
    (hs : sep = '/' ∨ sep = '|') : splitGT (tok ++ sep :: rest) = tok :: splitGT rest := by
  induction tok with
  | nil =>
    simp only [List.nil_append, splitGT]
    split
    · rename_i h0; exact absurd h0 (splitGT_ne_nil rest)
    · rename_i h0; simp [hs, h0]
  | cons c cs ih =>
    have hc := h c (by simp)
    simp only [List.cons_append, splitGT, ih (fun x hx => h x (by simp [hx]))]
    simp [hc.1, hc.2]


/-- spelling of one allele (copy of `C08.renderAllele`) -/
def gtAlleleStr : Option Nat → List Char
  | none => ['.']
  | some n => Nat.toDigits 10 n

/-- spelling of an allele list with chosen separators (copy of `C08.renderGT`) -/
def gtStr : List (Option Nat) → List Char → List Char
  | [], _ => []
  | [a], _ => gtAlleleStr a
  | a :: rest, sep :: seps => gtAlleleStr a ++ sep :: gtStr rest seps
  | a :: rest, [] => gtAlleleStr a ++ '/' :: gtStr rest []

theorem digit_ne_special (c : Char) (h : c.isDigit = true) : c ≠ '.' ∧ c ≠ '/' ∧ c ≠ '|' := by
  refine ⟨?_, ?_, ?_⟩ <;> (intro hc; subst hc; revert h; decide)

theorem gtAlleleStr_no_sep (a : Option Nat) : ∀ c ∈ gtAlleleStr a, c ≠ '/' ∧ c ≠ '|' := by
  intro c hc
  cases a with
  | none => simp [gtAlleleStr] at hc; subst hc; decide
  | some n =>
    have := digit_ne_special c (Nat.isDigit_of_mem_toDigits (by decide) (by decide) hc)
    exact this.2

theorem gtAlleleStr_ne_nil (a : Option Nat) : gtAlleleStr a ≠ [] := by
  cases a with
  | none => simp [gtAlleleStr]
  | some n => exact Nat.toDigits_ne_nil

theorem digitsToNat_toDigits (n : Nat) : digitsToNat (Nat.toDigits 10 n) = n :=
  Nat.ofDigitChars_toDigits (b := 10) (by decide) (by decide)

theorem toDigits_ne_dot (n : Nat) : Nat.toDigits 10 n ≠ ['.'] := by
  intro h
  have : '.' ∈ Nat.toDigits 10 n := by rw [h]; simp
  exact (digit_ne_special _ (Nat.isDigit_of_mem_toDigits (by decide) (by decide) this)).1 rfl

theorem isDigits_toDigits (n : Nat) : isDigits (Nat.toDigits 10 n) = true := by
  unfold isDigits
  have hne : (Nat.toDigits 10 n).isEmpty = false := by
    cases hd : Nat.toDigits 10 n with
    | nil => exact absurd hd Nat.toDigits_ne_nil
    | cons _ _ => rfl
  simp only [hne, Bool.not_false, Bool.true_and, List.all_eq_true]
  exact fun c hc => Nat.isDigit_of_mem_toDigits (by decide) (by decide) hc

theorem parseAlleleIndex_digits (l : List Char) (hd : isDigits l = true) :
    parseAlleleIndex l = if digitsToNat l < 2 ^ 64 then some (digitsToNat l) else none := by
  unfold parseAlleleIndex
  split
  · rename_i r
    exfalso; revert hd; simp [isDigits]
  · simp [hd]

theorem parseAlleleIndex_plus (l : List Char) :
    parseAlleleIndex ('+' :: l) = if isDigits l ∧ digitsToNat l < 2 ^ 64 then some (digitsToNat l) else none := rfl

theorem parseAlleleIndex_toDigits (n : Nat) :
    parseAlleleIndex (Nat.toDigits 10 n) = if n < 2 ^ 64 then some n else none := by
  rw [parseAlleleIndex_digits _ (isDigits_toDigits n), digitsToNat_toDigits]

theorem parseAlleleIndex_plus_toDigits (n : Nat) :
    parseAlleleIndex ('+' :: Nat.toDigits 10 n) = if n < 2 ^ 64 then some n else none := by
  rw [parseAlleleIndex_plus, isDigits_toDigits, digitsToNat_toDigits]
  simp

theorem parseAllele_toDigits (n : Nat) (h : n < 2 ^ 64) : parseAllele (Nat.toDigits 10 n) = some (some n) := by
  simp [parseAllele, toDigits_ne_dot n, parseAlleleIndex_toDigits, h]

theorem parseAllele_plus_toDigits (n : Nat) (h : n < 2 ^ 64) :
    parseAllele ('+' :: Nat.toDigits 10 n) = some (some n) := by
  have : ('+' :: Nat.toDigits 10 n) ≠ ['.'] := by simp
  simp [parseAllele, this, parseAlleleIndex_plus_toDigits, h]

/-- an index that does not fit 64 bits is no allele -/
theorem parseAllele_toDigits_big (n : Nat) (h : 2 ^ 64 ≤ n) : parseAllele (Nat.toDigits 10 n) = none := by
  have : ¬ n < 2 ^ 64 := by omega
  simp [parseAllele, toDigits_ne_dot n, parseAlleleIndex_toDigits, this]

theorem parseAllele_gtAlleleStr (a : Option Nat) (h : ∀ n, a = some n → n < 2 ^ 64) :
    parseAllele (gtAlleleStr a) = some a := by
  cases a with
  | none => simp [gtAlleleStr, parseAllele]
  | some n => exact parseAllele_toDigits n (h n rfl)

theorem splitGT_gtStr (al : List (Option Nat)) (seps : List Char) (hne : al ≠ [])
    (hs : ∀ c ∈ seps, c = '/' ∨ c = '|') : splitGT (gtStr al seps) = al.map gtAlleleStr := by
  induction al generalizing seps with
  | nil => exact absurd rfl hne
  | cons a rest ih =>
    cases rest with
    | nil => simp [gtStr, splitGT_token _ (gtAlleleStr_no_sep a)]
    | cons b rest =>
      cases seps with
      | nil =>
        simp only [gtStr]
        rw [splitGT_token_sep _ _ _ (gtAlleleStr_no_sep a) (Or.inl rfl), ih [] (by simp) (by simp)]
        simp
      | cons sep seps =>
        simp only [gtStr]
        rw [splitGT_token_sep _ _ _ (gtAlleleStr_no_sep a) (hs sep (by simp)),
          ih seps (by simp) (fun c hc => hs c (by simp [hc]))]
        simp

theorem mapM_parseAllele (al : List (Option Nat)) (hfit : ∀ n, some n ∈ al → n < 2 ^ 64) :
    (al.map gtAlleleStr).mapM parseAllele = some al := by
  induction al with
  | nil => simp
  | cons a rest ih =>
    have h1 := parseAllele_gtAlleleStr a (fun n hn => hfit n (by simp [hn]))
    have h2 := ih (fun n hn => hfit n (by simp [hn]))
    simp [List.mapM_cons, h1, h2]

theorem mapM_parseAllele_big (al : List (Option Nat)) (hbig : ∃ n, some n ∈ al ∧ 2 ^ 64 ≤ n) :
    (al.map gtAlleleStr).mapM parseAllele = none := by
  induction al with
  | nil => obtain ⟨n, hn, _⟩ := hbig; simp at hn
  | cons a rest ih =>
    obtain ⟨n, hn, hb⟩ := hbig
    simp only [List.mem_cons] at hn
    rw [List.map_cons, List.mapM_cons]
    rcases hn with hn | hn
    · subst hn
      simp [gtAlleleStr, parseAllele_toDigits_big n hb]
    · rw [ih ⟨n, hn, hb⟩]
      cases parseAllele (gtAlleleStr a) <;> simp

theorem stripLeadSep_of_head (s : List Char) (h : ∀ d, s.head? = some d → d ≠ '/' ∧ d ≠ '|') :
    stripLeadSep s = s := by
  cases s with
  | nil => rfl
  | cons c r =>
    have := h c rfl
    simp [stripLeadSep, this.1, this.2]

theorem stripLeadSep_cons_sep (c : Char) (hc : c = '/' ∨ c = '|') (s : List Char) : stripLeadSep (c :: s) = s := by
  simp [stripLeadSep, hc]

theorem gtStr_head (al : List (Option Nat)) (seps : List Char) :
    ∀ d, (gtStr al seps).head? = some d → d ≠ '/' ∧ d ≠ '|' := by
  intro d hd
  have key : ∀ (a : Option Nat) (t : List Char), (gtAlleleStr a ++ t).head? = some d → d ≠ '/' ∧ d ≠ '|' := by
    intro a t h
    cases hg : gtAlleleStr a with
    | nil => exact absurd hg (gtAlleleStr_ne_nil a)
    | cons x xs =>
      rw [hg] at h
      simp at h
      subst h
      exact gtAlleleStr_no_sep a x (by rw [hg]; simp)
  match al, seps with
  | [], _ => simp [gtStr] at hd
  | [a], _ => exact key a [] (by simpa only [gtStr, List.append_nil] using hd)
  | a :: b :: rest, [] => simp only [gtStr] at hd; exact key a _ hd
  | a :: b :: rest, s :: seps => simp only [gtStr] at hd; exact key a _ hd

theorem gtStr_ne_dot (al : List (Option Nat)) (seps : List Char) (hne : al ≠ []) (hdot : al ≠ [none]) :
    gtStr al seps ≠ ['.'] := by
  match al, seps with
  | [], _ => exact absurd rfl hne
  | [none], _ => exact absurd rfl hdot
  | [some n], _ => simpa [gtStr, gtAlleleStr] using toDigits_ne_dot n
  | a :: b :: rest, [] =>
    intro h
    have := congrArg List.length h
    have h1 : (gtAlleleStr a).length ≠ 0 := by simpa using gtAlleleStr_ne_nil a
    simp [gtStr] at this
    omega
  | a :: b :: rest, s :: seps =>
    intro h
    have := congrArg List.length h
    have h1 : (gtAlleleStr a).length ≠ 0 := by simpa using gtAlleleStr_ne_nil a
    simp [gtStr] at this
    omega

theorem parseGT_gtStr (al : List (Option Nat)) (seps : List Char) (hne : al ≠ [])
    (hs : ∀ c ∈ seps, c = '/' ∨ c = '|') (hdot : al ≠ [none]) (hfit : ∀ n, some n ∈ al → n < 2 ^ 64) :
    parseGT (gtStr al seps) = some (some al) := by
  unfold parseGT
  rw [if_neg (gtStr_ne_dot al seps hne hdot), stripLeadSep_of_head _ (gtStr_head al seps),
    splitGT_gtStr al seps hne hs, mapM_parseAllele al hfit]
  rfl

theorem parseGT_gtStr_big (al : List (Option Nat)) (seps : List Char) (hne : al ≠ [])
    (hs : ∀ c ∈ seps, c = '/' ∨ c = '|') (hbig : ∃ n, some n ∈ al ∧ 2 ^ 64 ≤ n) :
    parseGT (gtStr al seps) = none := by
  have hdot : al ≠ [none] := by
    rintro rfl
    obtain ⟨n, hn, _⟩ := hbig
    simp at hn
  unfold parseGT
  rw [if_neg (gtStr_ne_dot al seps hne hdot), stripLeadSep_of_head _ (gtStr_head al seps),
    splitGT_gtStr al seps hne hs, mapM_parseAllele_big al hbig]
  rfl

/-- a leading separator: same classification (the lone `.` becomes the one-allele list `[none]`, which is missing as well) -/
theorem parseGT_cons_sep (c : Char) (hc : c = '/' ∨ c = '|') (s : List Char)
    (hs : ∀ d, s.head? = some d → d ≠ '/' ∧ d ≠ '|') :
    (parseGT (c :: s)).map classifyField = (parseGT s).map classifyField := by
  have hcs : c :: s ≠ ['.'] := by
    intro h
    injection h with h1 _
    rcases hc with hc | hc <;> (rw [hc] at h1; revert h1; decide)
  unfold parseGT
  rw [if_neg hcs, stripLeadSep_cons_sep c hc]
  by_cases hdot : s = ['.']
  · subst hdot; rfl
  · rw [if_neg hdot, stripLeadSep_of_head s hs]


/-! ## the column loop -/

theorem exists_lt_succ_iff {n : Nat} {P : Nat → Prop} :
    (∃ i, i < n + 1 ∧ P i) ↔ P 0 ∨ ∃ i, i < n ∧ P (i + 1) := by
  constructor
  · rintro ⟨i, hi, hp⟩
    cases i with
    | zero => exact Or.inl hp
    | succ j => exact Or.inr ⟨j, by omega, hp⟩
  · rintro (hp | ⟨i, hi, hp⟩)
    · exact ⟨0, by omega, hp⟩
    · exact ⟨i + 1, by omega, hp⟩

theorem tally_none_iff_aux (map : List (String × Nat)) (cols : List String) (gts : List GtRes) (st : SiteSt)
    (hl : cols.length = gts.length) :
    tally map cols gts st = none ↔
      ∃ i, i < cols.length ∧ (lookupPop map (cols.getD i "")).isSome ∧
        gts.getD i (.skipped .missing) = .ploidyError := by
  induction cols generalizing gts st with
  | nil => simp [tally]
  | cons c cs ih =>
    cases gts with
    | nil => simp at hl
    | cons g gs =>
      have hl' : cs.length = gs.length := by simpa using hl
      rw [List.length_cons, exists_lt_succ_iff]
      simp only [List.getD_cons_zero, List.getD_cons_succ]
      unfold tally
      cases hlk : lookupPop map c with
      | none => simp [ih gs st hl']
      | some pid =>
        cases g with
        | genotype k => simp [ih gs _ hl']
        | skipped s => simp [ih gs _ hl']
        | ploidyError => simp

theorem tally_congr_selected (map : List (String × Nat)) (cols : List String) (gts gts' : List GtRes) (st : SiteSt)
    (hl : cols.length = gts.length) (hl' : cols.length = gts'.length)
    (h : ∀ i, i < cols.length → (lookupPop map (cols.getD i "")).isSome →
      gts.getD i .ploidyError = gts'.getD i .ploidyError) :
    tally map cols gts st = tally map cols gts' st := by
  induction cols generalizing gts gts' st with
  | nil => simp [tally]
  | cons c cs ih =>
    cases gts with
    | nil => simp at hl
    | cons g gs =>
      cases gts' with
      | nil => simp at hl'
      | cons g' gs' =>
        have h0 := h 0 (by simp)
        have hs : ∀ i, i < cs.length → (lookupPop map (cs.getD i "")).isSome →
            gs.getD i .ploidyError = gs'.getD i .ploidyError := by
          intro i hi hsel
          have := h (i + 1) (by simp; omega)
          simpa using this hsel
        have ihh := fun st => ih gs gs' st (by simpa using hl) (by simpa using hl') hs
        simp only [List.getD_cons_zero] at h0
        unfold tally
        cases hlk : lookupPop map c with
        | none => simp [ihh]
        | some pid =>
          have : g = g' := h0 (by simp [hlk])
          subst this
          cases g <;> simp [ihh]


/-! ## distinct labels in order of first appearance -/

theorem snoc_induction {α} {P : List α → Prop} (nil : P []) (snoc : ∀ l a, P l → P (l ++ [a])) : ∀ l, P l := by
  intro l
  rw [← List.reverse_reverse l]
  induction l.reverse with
  | nil => exact nil
  | cons a t ih => rw [List.reverse_cons]; exact snoc _ _ ih

theorem distinctInOrder_nil {κ} [DecidableEq κ] : distinctInOrder ([] : List κ) = [] := rfl

theorem distinctInOrder_snoc {κ} [DecidableEq κ] (l : List κ) (a : κ) :
    distinctInOrder (l ++ [a]) = if a ∈ distinctInOrder l then distinctInOrder l else distinctInOrder l ++ [a] := by
  simp [distinctInOrder, List.foldl_append]

theorem distinct_spec {κ} [DecidableEq κ] (l : List κ) :
    (distinctInOrder l).Nodup ∧ (∀ x, x ∈ distinctInOrder l ↔ x ∈ l) ∧
      ∀ x y, x ∈ l → y ∈ l →
        ((distinctInOrder l).idxOf x < (distinctInOrder l).idxOf y ↔ l.idxOf x < l.idxOf y) := by
  induction l using snoc_induction with
  | nil => simp [distinctInOrder_nil]
  | snoc l a ih =>
    obtain ⟨hnd, hmem, hidx⟩ := ih
    rw [distinctInOrder_snoc]
    by_cases ha : a ∈ distinctInOrder l
    · have hal : a ∈ l := (hmem a).1 ha
      rw [if_pos ha]
      refine ⟨hnd, ?_, ?_⟩
      · intro x; rw [hmem x]; simp only [List.mem_append, List.mem_singleton]
        constructor
        · exact Or.inl
        · rintro (h | rfl); exact h; exact hal
      · intro x y hx hy
        have hx' : x ∈ l := by
          simp only [List.mem_append, List.mem_singleton] at hx; rcases hx with h | rfl; exact h; exact hal
        have hy' : y ∈ l := by
          simp only [List.mem_append, List.mem_singleton] at hy; rcases hy with h | rfl; exact h; exact hal
        rw [List.idxOf_append, List.idxOf_append, if_pos hx', if_pos hy']
        exact hidx x y hx' hy'
    · have hal : a ∉ l := fun h => ha ((hmem a).2 h)
      rw [if_neg ha]
      refine ⟨?_, ?_, ?_⟩
      · rw [List.nodup_append]
        refine ⟨hnd, by simp, ?_⟩
        intro x hx y hy
        simp only [List.mem_singleton] at hy
        subst hy
        intro hxy; subst hxy; exact ha hx
      · intro x; simp only [List.mem_append, List.mem_singleton, hmem x]
      · intro x y hx hy
        simp only [List.idxOf_append]
        by_cases hx' : x ∈ l <;> by_cases hy' : y ∈ l
        · rw [if_pos ((hmem x).2 hx'), if_pos ((hmem y).2 hy'), if_pos hx', if_pos hy']
          exact hidx x y hx' hy'
        · have hya : y = a := by
            simp only [List.mem_append, List.mem_singleton] at hy; rcases hy with h | h; exact absurd h hy'; exact h
          subst hya
          rw [if_pos ((hmem x).2 hx'), if_neg ha, if_pos hx', if_neg hy']
          have h1 := List.idxOf_lt_length_of_mem ((hmem x).2 hx')
          have h2 := List.idxOf_lt_length_of_mem hx'
          simp only [List.idxOf_cons, beq_self_eq_true, cond_true]
          omega
        · have hxa : x = a := by
            simp only [List.mem_append, List.mem_singleton] at hx; rcases hx with h | h; exact absurd h hx'; exact h
          subst hxa
          rw [if_neg ha, if_pos ((hmem y).2 hy'), if_neg hx', if_pos hy']
          have h1 := List.idxOf_lt_length_of_mem ((hmem y).2 hy')
          have h2 := List.idxOf_lt_length_of_mem hy'
          simp only [List.idxOf_cons, beq_self_eq_true, cond_true]
          omega
        · have hxa : x = a := by
            simp only [List.mem_append, List.mem_singleton] at hx; rcases hx with h | h; exact absurd h hx'; exact h
          have hya : y = a := by
            simp only [List.mem_append, List.mem_singleton] at hy; rcases hy with h | h; exact absurd h hy'; exact h
          subst hxa; subst hya
          simp


/-! ## `IndexMap` -/

theorem indexMapOfList_nil {κ ν} [DecidableEq κ] : indexMapOfList ([] : List (κ × ν)) = [] := rfl

theorem indexMapOfList_snoc {κ ν} [DecidableEq κ] (l : List (κ × ν)) (p : κ × ν) :
    indexMapOfList (l ++ [p]) = indexMapInsert (indexMapOfList l) p.1 p.2 := by
  simp [indexMapOfList, List.foldl_append]

theorem any_key_iff {κ ν} [DecidableEq κ] (m : List (κ × ν)) (k : κ) :
    m.any (fun p => p.1 = k) = true ↔ k ∈ m.map (·.1) := by
  simp only [List.any_eq_true, decide_eq_true_eq, List.mem_map]

theorem keys_indexMapInsert {κ ν} [DecidableEq κ] (m : List (κ × ν)) (k : κ) (v : ν) :
    (indexMapInsert m k v).map (·.1) = if k ∈ m.map (·.1) then m.map (·.1) else m.map (·.1) ++ [k] := by
  unfold indexMapInsert
  by_cases h : k ∈ m.map (·.1)
  · rw [if_pos ((any_key_iff m k).2 h), if_pos h, List.map_map]
    apply List.map_congr_left
    intro p _
    by_cases hp : p.1 = k <;> simp [hp]
  · rw [if_neg (fun h' => h ((any_key_iff m k).1 h')), if_neg h]
    simp

theorem keys_indexMapOfList {κ ν} [DecidableEq κ] (l : List (κ × ν)) :
    (indexMapOfList l).map (·.1) = distinctInOrder (l.map (·.1)) := by
  induction l using snoc_induction with
  | nil => rfl
  | snoc l p ih =>
    rw [indexMapOfList_snoc, keys_indexMapInsert, List.map_append, List.map_singleton, distinctInOrder_snoc, ih]

theorem indexMapOfList_of_nodup {κ ν} [DecidableEq κ] (l : List (κ × ν)) (hnd : (l.map (·.1)).Nodup) :
    indexMapOfList l = l := by
  induction l using snoc_induction with
  | nil => rfl
  | snoc l p ih =>
    rw [List.map_append, List.nodup_append] at hnd
    obtain ⟨h1, _, h3⟩ := hnd
    rw [indexMapOfList_snoc, ih h1]
    unfold indexMapInsert
    have : ¬ (l.any (fun q => q.1 = p.1) = true) := by
      rw [any_key_iff]
      intro h
      exact h3 _ h p.1 (by simp) rfl
    rw [if_neg this]

theorem lookup_map_replace_ne {κ ν} [DecidableEq κ] (m : List (κ × ν)) (k s : κ) (v : ν)
    (hs : s ≠ k) : (m.map (fun p => if p.1 = k then (k, v) else p)).lookup s = m.lookup s := by
  induction m with
  | nil => rfl
  | cons q m ih =>
    obtain ⟨k', v'⟩ := q
    by_cases hk : k' = k
    · subst hk
      simp only [List.map_cons, if_pos, List.lookup_cons, ih]
      have : (s == k') = false := by simpa using hs
      simp [this]
    · simp only [List.map_cons, hk, if_false, List.lookup_cons, ih]

theorem lookup_map_replace_self {κ ν} [DecidableEq κ] (m : List (κ × ν)) (k : κ) (v : ν)
    (h : k ∈ m.map (·.1)) : (m.map (fun p => if p.1 = k then (k, v) else p)).lookup k = some v := by
  induction m with
  | nil => simp at h
  | cons q m ih =>
    obtain ⟨k', v'⟩ := q
    by_cases hk : k' = k
    · subst hk; simp
    · have h' : k ∈ m.map (·.1) := by
        simp only [List.map_cons, List.mem_cons] at h
        rcases h with h | h
        · exact absurd h.symm hk
        · exact h
      have : (k == k') = false := by simpa using fun h => hk h.symm
      simp only [List.map_cons, hk, if_false, List.lookup_cons, this, ih h']

theorem lookup_eq_none_of_not_key {κ ν} [DecidableEq κ] (m : List (κ × ν)) (k : κ)
    (h : k ∉ m.map (·.1)) : m.lookup k = none := by
  rw [List.lookup_eq_none_iff]
  intro p hp
  simp only [bne_iff_ne, ne_eq]
  intro hk
  exact h (by rw [hk]; exact List.mem_map_of_mem hp)

theorem lookup_indexMapInsert_self {κ ν} [DecidableEq κ] (m : List (κ × ν)) (k : κ) (v : ν) :
    (indexMapInsert m k v).lookup k = some v := by
  unfold indexMapInsert
  by_cases h : k ∈ m.map (·.1)
  · rw [if_pos ((any_key_iff m k).2 h)]
    exact lookup_map_replace_self m k v h
  · rw [if_neg (fun h' => h ((any_key_iff m k).1 h')), List.lookup_append, lookup_eq_none_of_not_key m k h]
    simp

theorem lookup_indexMapInsert_ne {κ ν} [DecidableEq κ] (m : List (κ × ν)) (k s : κ) (v : ν) (hs : s ≠ k) :
    (indexMapInsert m k v).lookup s = m.lookup s := by
  unfold indexMapInsert
  split
  · exact lookup_map_replace_ne m k s v hs
  · rw [List.lookup_append]
    have : (s == k) = false := by simpa using hs
    simp [List.lookup_cons, this]

theorem lookup_indexMapOfList_last {κ ν} [DecidableEq κ] (pre post : List (κ × ν)) (s : κ) (p : ν)
    (hpost : s ∉ post.map (·.1)) : (indexMapOfList (pre ++ (s, p) :: post)).lookup s = some p := by
  induction post using snoc_induction with
  | nil => rw [indexMapOfList_snoc]; exact lookup_indexMapInsert_self _ _ _
  | snoc post q ih =>
    have h1 : s ∉ post.map (·.1) := fun h => hpost (by simp only [List.map_append, List.mem_append]; exact Or.inl h)
    have h2 : s ≠ q.1 := fun h => hpost (by simp [h])
    have : pre ++ (s, p) :: (post ++ [q]) = (pre ++ (s, p) :: post) ++ [q] := by simp
    rw [this, indexMapOfList_snoc, lookup_indexMapInsert_ne _ _ _ _ h2, ih h1]


theorem bump_comm (l : List Nat) (i j a b : Nat) : bump (bump l i a) j b = bump (bump l j b) i a := by
  unfold bump
  apply List.ext_getElem?
  intro n
  simp only [List.getElem?_set, List.getD_eq_getElem?_getD, List.length_set]
  grind


theorem isEmpty_append_cons {α} (l r : List α) (a : α) : (l ++ a :: r).isEmpty = false := by
  cases l <;> rfl

/-- one column of the loop of `tally` -/
def tallyStep (map : List (String × Nat)) (p : String × GtRes) (st : SiteSt) : Option SiteSt :=
  match lookupPop map p.1 with
  | none => some st
  | some pid =>
    match p.2 with
    | .genotype k => some { st with counts := bump st.counts pid k, totals := bump st.totals pid 2 }
    | .skipped s => some { st with skipped := st.skipped ++ [((lookupSampleId map p.1).getD 0, s)] }
    | .ploidyError => none

/-- `tally` over (column, genotype) pairs -/
def tallyP (map : List (String × Nat)) : List (String × GtRes) → SiteSt → Option SiteSt
  | [], st => some st
  | p :: ps, st =>
    match tallyStep map p st with
    | none => none
    | some st' => tallyP map ps st'

theorem tally_eq_tallyP (map : List (String × Nat)) (cols : List String) (gts : List GtRes) (st : SiteSt) :
    tally map cols gts st = tallyP map (cols.zip gts) st := by
  induction cols generalizing gts st with
  | nil => simp [tally, tallyP]
  | cons c cs ih =>
    cases gts with
    | nil => simp [tally, tallyP]
    | cons g gs =>
      simp only [List.zip_cons_cons, tallyP, tallyStep]
      unfold tally
      cases lookupPop map c with
      | none => simp [ih]
      | some pid => cases g <;> simp [ih]

/-- what the site classification looks at -/
def stSumm (s : SiteSt) : List Nat × List Nat × Bool := (s.counts, s.totals, s.skipped.isEmpty)

def summ (o : Option SiteSt) : Option (List Nat × List Nat × Bool) := o.map stSumm

theorem tallyStep_congr (m m' : List (String × Nat)) (hlk : ∀ s, lookupPop m s = lookupPop m' s)
    (p : String × GtRes) (st st' : SiteSt) (h : stSumm st = stSumm st') :
    summ (tallyStep m p st) = summ (tallyStep m' p st') := by
  obtain ⟨c, g⟩ := p
  obtain ⟨c1, t1, s1⟩ := st
  obtain ⟨c2, t2, s2⟩ := st'
  simp only [stSumm, Prod.mk.injEq] at h
  obtain ⟨rfl, rfl, hs⟩ := h
  simp only [tallyStep, ← hlk c]
  cases lookupPop m c with
  | none => simp [summ, stSumm, hs]
  | some pid => cases g <;> simp [summ, stSumm, hs, isEmpty_append_cons]

theorem tallyP_congr (m m' : List (String × Nat)) (hlk : ∀ s, lookupPop m s = lookupPop m' s)
    (ps : List (String × GtRes)) (st st' : SiteSt) (h : stSumm st = stSumm st') :
    summ (tallyP m ps st) = summ (tallyP m' ps st') := by
  induction ps generalizing st st' with
  | nil => simp [tallyP, summ, h]
  | cons p ps ih =>
    have hstep := tallyStep_congr m m' hlk p st st' h
    simp only [tallyP]
    cases h1 : tallyStep m p st with
    | none =>
      cases h2 : tallyStep m' p st' with
      | none => rfl
      | some s2 => rw [h1, h2] at hstep; simp [summ] at hstep
    | some s1 =>
      cases h2 : tallyStep m' p st' with
      | none => rw [h1, h2] at hstep; simp [summ] at hstep
      | some s2 =>
        rw [h1, h2] at hstep
        simp only [summ, Option.map_some, Option.some.injEq] at hstep
        exact ih s1 s2 hstep

theorem tallyP_swap (m : List (String × Nat)) (a b : String × GtRes) (ps : List (String × GtRes)) (st : SiteSt) :
    summ (tallyP m (a :: b :: ps) st) = summ (tallyP m (b :: a :: ps) st) := by
  obtain ⟨ca, ga⟩ := a
  obtain ⟨cb, gb⟩ := b
  simp only [tallyP, tallyStep]
  cases lookupPop m ca with
  | none => cases lookupPop m cb with
    | none => rfl
    | some pb => cases gb <;> rfl
  | some pa => cases lookupPop m cb with
    | none => cases ga <;> rfl
    | some pb =>
      cases ga <;> cases gb <;> try rfl
      · apply tallyP_congr m m (fun _ => rfl)
        simp [stSumm, bump_comm]
      · apply tallyP_congr m m (fun _ => rfl)
        simp [stSumm, isEmpty_append_cons]

theorem tallyP_perm (m : List (String × Nat)) {ps ps' : List (String × GtRes)} (hp : ps.Perm ps') (st : SiteSt) :
    summ (tallyP m ps st) = summ (tallyP m ps' st) := by
  induction hp generalizing st with
  | nil => rfl
  | cons p _ ih =>
    simp only [tallyP]
    cases tallyStep m p st with
    | none => rfl
    | some s => exact ih s
  | swap a b ps => exact tallyP_swap m b a ps st
  | trans _ _ ih1 ih2 => exact (ih1 st).trans (ih2 st)

/-- the site is a function of the summary of the tally -/
theorem readSite_fst_congr (cfg cfg' : SiteCfg) (st st' : SiteSt) (gts gts' : List GtRes)
    (hpt : cfg.projectTo = cfg'.projectTo)
    (h : summ (tally cfg.map cfg.cols gts ⟨st.counts.map (fun _ => 0), st.totals.map (fun _ => 0), []⟩) =
         summ (tally cfg'.map cfg'.cols gts' ⟨st'.counts.map (fun _ => 0), st'.totals.map (fun _ => 0), []⟩)) :
    (readSite cfg st gts).1 = (readSite cfg' st' gts').1 := by
  simp only [readSite, hpt]
  revert h
  cases tally cfg.map cfg.cols gts ⟨st.counts.map (fun _ => 0), st.totals.map (fun _ => 0), []⟩ with
  | none =>
    cases tally cfg'.map cfg'.cols gts' ⟨st'.counts.map (fun _ => 0), st'.totals.map (fun _ => 0), []⟩ with
    | none => intro _; rfl
    | some s2 => intro h; simp [summ] at h
  | some s1 =>
    cases tally cfg'.map cfg'.cols gts' ⟨st'.counts.map (fun _ => 0), st'.totals.map (fun _ => 0), []⟩ with
    | none => intro h; simp [summ] at h
    | some s2 =>
      intro h
      simp only [summ, Option.map_some, Option.some.injEq, stSumm, Prod.mk.injEq] at h
      obtain ⟨h1, h2, h3⟩ := h
      simp only [h1, h2, h3]


/-! ## sample map -/

theorem distinctInOrder_map_inj {κ ι} [DecidableEq κ] [DecidableEq ι] (L : List κ) (f : κ → ι)
    (hinj : ∀ x ∈ L, ∀ y ∈ L, f x = f y → x = y) :
    distinctInOrder (L.map f) = (distinctInOrder L).map f := by
  induction L using snoc_induction with
  | nil => rfl
  | snoc L a ih =>
    have ih' := ih (fun x hx y hy => hinj x (by simp [hx]) y (by simp [hy]))
    rw [List.map_append, List.map_singleton, distinctInOrder_snoc, distinctInOrder_snoc, ih']
    have hiff : f a ∈ (distinctInOrder L).map f ↔ a ∈ distinctInOrder L := by
      constructor
      · intro h
        obtain ⟨x, hx, hfx⟩ := List.mem_map.1 h
        have hxL : x ∈ L := ((distinct_spec L).2.1 x).1 hx
        have := hinj x (by simp [hxL]) a (by simp) hfx
        exact this ▸ hx
      · exact fun h => List.mem_map_of_mem h
    by_cases ha : a ∈ distinctInOrder L
    · rw [if_pos (hiff.2 ha), if_pos ha]
    · rw [if_neg (fun h => ha (hiff.1 h)), if_neg ha]; simp

theorem idxOf_inj_of_mem {κ} [DecidableEq κ] (D : List κ) (x y : κ) (hx : x ∈ D)
    (h : D.idxOf x = D.idxOf y) : x = y := by
  have h1 : D.idxOf x < D.length := List.idxOf_lt_length_of_mem hx
  have h2 : D.idxOf y < D.length := h ▸ h1
  have e1 := List.getElem_idxOf h1
  have e2 := List.getElem_idxOf h2
  rw [← e1, ← e2]
  simp only [h]

/-- the general shape of `sampleMap` -/
theorem sampleMap_eq (l : List (String × Pop)) :
    sampleMap l = (indexMapOfList l).map
      (fun p => (p.1, (distinctInOrder ((indexMapOfList l).map (·.2))).idxOf p.2)) := rfl

theorem keys_sampleMap (l : List (String × Pop)) : (sampleMap l).map (·.1) = distinctInOrder (l.map (·.1)) := by
  rw [sampleMap_eq, List.map_map, ← keys_indexMapOfList]
  rfl

/-- population ids of `R.map (p.1, D.idxOf p.2)`, `D` the distinct labels of `R` -/
theorem numPops_idx (R : List (String × Pop)) :
    numPops (R.map (fun p => (p.1, (distinctInOrder (R.map (·.2))).idxOf p.2))) =
      (distinctInOrder (R.map (·.2))).length := by
  unfold numPops
  rw [List.map_map]
  have : ((fun p : String × Nat => p.2) ∘ fun p : String × Pop => (p.1, (distinctInOrder (R.map (·.2))).idxOf p.2))
      = (fun x => (distinctInOrder (R.map (·.2))).idxOf x) ∘ (fun p : String × Pop => p.2) := rfl
  rw [this, ← List.map_map, distinctInOrder_map_inj, List.length_map]
  intro x hx y _ hxy
  exact idxOf_inj_of_mem _ x y (((distinct_spec _).2.1 x).2 hx) hxy

theorem mapShape_idx (R : List (String × Pop)) :
    mapShape (R.map (fun p => (p.1, (distinctInOrder (R.map (·.2))).idxOf p.2))) =
      (distinctInOrder (R.map (·.2))).map (fun p => 2 * (R.filter (fun sp => sp.2 = p)).length + 1) := by
  unfold mapShape
  rw [numPops_idx]
  apply List.ext_getElem
  · simp
  · intro i h1 h2
    have hi : i < (distinctInOrder (R.map (·.2))).length := by simpa using h2
    simp only [List.getElem_map, List.getElem_range, List.filter_map, List.length_map]
    have : R.filter ((fun p : String × Nat => decide (p.2 = i)) ∘
          fun p : String × Pop => (p.1, (distinctInOrder (R.map (·.2))).idxOf p.2))
        = R.filter (fun sp => decide (sp.2 = (distinctInOrder (R.map (·.2)))[i])) := by
      apply List.filter_congr
      intro sp hsp
      have hmem : sp.2 ∈ distinctInOrder (R.map (·.2)) :=
        ((distinct_spec _).2.1 sp.2).2 (List.mem_map_of_mem hsp)
      simp only [Function.comp]
      congr 1
      apply propext
      constructor
      · intro h
        have hlt : (distinctInOrder (R.map (·.2))).idxOf sp.2 < (distinctInOrder (R.map (·.2))).length :=
          List.idxOf_lt_length_of_mem hmem
        have := List.getElem_idxOf hlt
        rw [← this]
        simp only [h]
      · intro h
        rw [h]
        exact (distinct_spec (R.map (·.2))).1.idxOf_getElem i hi
    rw [this]
    omega

theorem sampleMap_of_nodup (l : List (String × Pop)) (hnd : (l.map (·.1)).Nodup) :
    sampleMap l = l.map (fun sp => (sp.1, (distinctInOrder (l.map (·.2))).idxOf sp.2)) := by
  rw [sampleMap_eq, indexMapOfList_of_nodup l hnd]

theorem mapShape_sampleMap_of_nodup (l : List (String × Pop)) (hnd : (l.map (·.1)).Nodup) :
    mapShape (sampleMap l) =
      (distinctInOrder (l.map (·.2))).map (fun p => 2 * (l.filter (fun sp => sp.2 = p)).length + 1) := by
  rw [sampleMap_of_nodup l hnd, mapShape_idx]

theorem numPops_sampleMap_of_nodup (l : List (String × Pop)) (hnd : (l.map (·.1)).Nodup) :
    numPops (sampleMap l) = (distinctInOrder (l.map (·.2))).length := by
  rw [sampleMap_of_nodup l hnd, numPops_idx]

/-! ## lookup under reordering -/

theorem filter_key_length_le_one {ν} (m : List (String × ν)) (hnd : (m.map (·.1)).Nodup) (s : String) :
    (m.filter (fun p => p.1 = s)).length ≤ 1 := by
  induction m with
  | nil => simp
  | cons q m ih =>
    simp only [List.map_cons, List.nodup_cons] at hnd
    by_cases hq : q.1 = s
    · have : m.filter (fun p => decide (p.1 = s)) = [] := by
        rw [List.filter_eq_nil_iff]
        intro a ha hk
        simp only [decide_eq_true_eq] at hk
        exact hnd.1 (by rw [hq, ← hk]; exact List.mem_map_of_mem ha)
      simp [hq, this]
    · simp only [List.filter_cons, hq, decide_false, Bool.false_eq_true, if_false]
      exact ih hnd.2

theorem perm_eq_of_length_le_one {α} {l l' : List α} (hp : l.Perm l') (h : l.length ≤ 1) : l = l' := by
  match l, h with
  | [], _ => exact (List.nil_perm.1 hp).symm
  | [a], _ => exact List.singleton_perm.1 hp

theorem find?_key_perm {ν} {m m' : List (String × ν)} (hp : m.Perm m') (hnd : (m.map (·.1)).Nodup) (s : String) :
    m.find? (fun p => p.1 = s) = m'.find? (fun p => p.1 = s) := by
  rw [← List.head?_filter, ← List.head?_filter,
    perm_eq_of_length_le_one (hp.filter _) (filter_key_length_le_one m hnd s)]

theorem lookupPop_perm {m m' : List (String × Nat)} (hp : m.Perm m') (hnd : (m.map (·.1)).Nodup) (s : String) :
    lookupPop m s = lookupPop m' s := by
  unfold lookupPop
  rw [find?_key_perm hp hnd s]

theorem sampleMap_reorder (l l' : List (String × Pop)) (hnd : (l.map (·.1)).Nodup) (hp : l.Perm l')
    (ho : distinctInOrder (l.map (·.2)) = distinctInOrder (l'.map (·.2))) :
    (∀ s, lookupPop (sampleMap l) s = lookupPop (sampleMap l') s) ∧ mapShape (sampleMap l) = mapShape (sampleMap l')
      ∧ numPops (sampleMap l) = numPops (sampleMap l') := by
  have hnd' : (l'.map (·.1)).Nodup := (hp.map _).nodup hnd
  refine ⟨?_, ?_, ?_⟩
  · intro s
    apply lookupPop_perm
    · rw [sampleMap_of_nodup l hnd, sampleMap_of_nodup l' hnd', ho]
      exact hp.map _
    · rw [keys_sampleMap]
      rw [← keys_indexMapOfList, indexMapOfList_of_nodup l hnd]; exact hnd
  · rw [mapShape_sampleMap_of_nodup l hnd, mapShape_sampleMap_of_nodup l' hnd', ho]
    apply List.map_congr_left
    intro p _
    rw [(hp.filter _).length_eq]
  · rw [numPops_sampleMap_of_nodup l hnd, numPops_sampleMap_of_nodup l' hnd', ho]


/-! ## `--samples` / `--samples-file` parsing -/

theorem splitOnce_none (c : Char) (l : List Char) (h : c ∉ l) : splitOnce c l = none := by
  induction l with
  | nil => rfl
  | cons x xs ih =>
    simp only [List.mem_cons, not_or] at h
    have hxc : ¬ x = c := fun hx => h.1 hx.symm
    simp [splitOnce, hxc, ih h.2]

theorem splitOnce_append (c : Char) (k v : List Char) (h : c ∉ k) : splitOnce c (k ++ c :: v) = some (k, v) := by
  induction k with
  | nil => simp [splitOnce]
  | cons x xs ih =>
    simp only [List.mem_cons, not_or] at h
    have hxc : ¬ x = c := fun hx => h.1 hx.symm
    simp [splitOnce, hxc, ih h.2]

theorem parseSampleArg_named (k v : List Char) (h : '=' ∉ k) :
    parseSampleArg (k ++ '=' :: v) = (String.ofList k, .named (String.ofList v)) := by
  simp [parseSampleArg, splitOnce_append _ k v h]

theorem parseSampleArg_unnamed (k : List Char) (h : '=' ∉ k) :
    parseSampleArg k = (String.ofList k, .unnamed) := by
  simp [parseSampleArg, splitOnce_none _ k h]

theorem parseSampleLine_named (k v : List Char) (h : '\t' ∉ k) :
    parseSampleLine (k ++ '\t' :: v) = (String.ofList k, .named (String.ofList v)) := by
  simp [parseSampleLine, splitOnce_append _ k v h]

theorem parseSampleLine_unnamed (k : List Char) (h : '\t' ∉ k) :
    parseSampleLine k = (String.ofList k, .unnamed) := by
  simp [parseSampleLine, splitOnce_none _ k h]

theorem splitAll_ne_nil (c : Char) (s : List Char) : splitAll c s ≠ [] := by
  induction s with
  | nil => simp [splitAll]
  | cons x xs ih =>
    unfold splitAll
    split
    · simp
    · split <;> simp

theorem splitAll_token (c : Char) (tok : List Char) (h : c ∉ tok) : splitAll c tok = [tok] := by
  induction tok with
  | nil => rfl
  | cons x xs ih =>
    simp only [List.mem_cons, not_or] at h
    have hxc : ¬ x = c := fun hx => h.1 hx.symm
    simp only [splitAll, ih h.2]
    simp [hxc]

theorem splitAll_token_sep (c : Char) (tok rest : List Char) (h : c ∉ tok) :
    splitAll c (tok ++ c :: rest) = tok :: splitAll c rest := by
  induction tok with
  | nil =>
    simp only [List.nil_append, splitAll]
    split
    · rename_i h0; exact absurd h0 (splitAll_ne_nil c rest)
    · rename_i h0; simp [h0]
  | cons x xs ih =>
    simp only [List.mem_cons, not_or] at h
    have hxc : ¬ x = c := fun hx => h.1 hx.symm
    simp only [List.cons_append, splitAll, ih h.2]
    simp [hxc]

theorem splitAll_intercalate (c : Char) (items : List (List Char)) (hne : items ≠ [])
    (h : ∀ t ∈ items, c ∉ t) : splitAll c (List.intercalate [c] items) = items := by
  induction items with
  | nil => exact absurd rfl hne
  | cons t rest ih =>
    cases rest with
    | nil => simp [List.intercalate, splitAll_token c t (h t (by simp))]
    | cons u rest =>
      have := ih (by simp) (fun x hx => h x (by simp [hx]))
      simp only [List.intercalate, List.intersperse_cons_cons, List.flatten_cons, List.singleton_append] at this ⊢
      rw [splitAll_token_sep c t _ (h t (by simp)), this]

theorem splitAll_intercalate_nl (c : Char) (items : List (List Char)) (hne : items ≠ [])
    (h : ∀ t ∈ items, c ∉ t) : splitAll c (List.intercalate [c] items ++ [c]) = items ++ [[]] := by
  induction items with
  | nil => exact absurd rfl hne
  | cons t rest ih =>
    cases rest with
    | nil =>
      simp only [List.intercalate, List.intersperse_singleton, List.flatten_cons, List.flatten_nil,
        List.append_nil]
      rw [splitAll_token_sep c t [] (h t (by simp))]
      rfl
    | cons u rest =>
      have := ih (by simp) (fun x hx => h x (by simp [hx]))
      simp only [List.intercalate, List.intersperse_cons_cons, List.flatten_cons,
        List.append_assoc, List.cons_append, List.nil_append] at this ⊢
      rw [splitAll_token_sep c t _ (h t (by simp)), this]

theorem parseSamplesArg_intercalate (items : List (List Char)) (hne : items ≠ []) (h : ∀ t ∈ items, ',' ∉ t) :
    parseSamplesArg (List.intercalate [','] items) = items.map parseSampleArg := by
  rw [parseSamplesArg, splitAll_intercalate ',' items hne h]

/-! `str::lines`: the text is a sequence of lines each ended by the line feed, then a last piece without one -/

theorem stripCr_of_not_cr (l : List Char) (h : l.getLast? ≠ some '\r') : stripCr l = l := by
  simp [stripCr, h]

theorem stripCr_append_cr (l : List Char) : stripCr (l ++ ['\r']) = l := by
  simp [stripCr]

theorem map_eq_self_of_mem {α} (f : α → α) (l : List α) (h : ∀ x ∈ l, f x = x) : l.map f = l :=
  (List.map_congr_left h).trans (List.map_id _)

theorem splitAll_lines (c : Char) (ended : List (List Char)) (last : List Char)
    (h : ∀ t ∈ ended, c ∉ t) (hl : c ∉ last) :
    splitAll c ((ended.map (· ++ [c])).flatten ++ last) = ended ++ [last] := by
  induction ended with
  | nil => simpa using splitAll_token c last hl
  | cons t rest ih =>
    have := ih (fun x hx => h x (by simp [hx]))
    simp only [List.map_cons, List.flatten_cons, List.append_assoc, List.cons_append, List.nil_append]
    rw [splitAll_token_sep c t _ (h t (by simp)), this]

/-- the general form: every ended line loses one carriage return, the unended rest is a line unless it is empty -/
theorem parseSamplesFile_lines (ended : List (List Char)) (last : List Char)
    (h : ∀ t ∈ ended, '\n' ∉ t) (hl : '\n' ∉ last) :
    parseSamplesFile ((ended.map (· ++ ['\n'])).flatten ++ last) =
      (ended.map stripCr ++ (if last = [] then [] else [last])).map parseSampleLine := by
  unfold parseSamplesFile
  rw [splitAll_lines '\n' ended last h hl]
  cases last with
  | nil => simp
  | cons x xs => simp

theorem intercalate_snoc {α} (sep : List α) (init : List (List α)) (last : List α) :
    List.intercalate sep (init ++ [last]) = (init.map (· ++ sep)).flatten ++ last := by
  induction init with
  | nil => simp [List.intercalate]
  | cons t rest ih =>
    cases rest with
    | nil => simp [List.intercalate]
    | cons u rest =>
      simp only [List.intercalate, List.cons_append, List.intersperse_cons_cons, List.flatten_cons,
        List.map_cons, List.append_assoc] at ih ⊢
      rw [ih]

theorem intercalate_append_sep {α} (sep : List α) (items : List (List α)) (hne : items ≠ []) :
    List.intercalate sep items ++ sep = (items.map (· ++ sep)).flatten := by
  rw [← List.dropLast_concat_getLast hne, intercalate_snoc]
  simp

theorem parseSamplesFile_intercalate_nl (items : List (List Char)) (hne : items ≠ [])
    (h : ∀ t ∈ items, '\n' ∉ t) (hcr : ∀ t ∈ items, t.getLast? ≠ some '\r') :
    parseSamplesFile (List.intercalate ['\n'] items ++ ['\n']) = items.map parseSampleLine := by
  have := parseSamplesFile_lines items [] h (by simp)
  rw [intercalate_append_sep _ items hne]
  simp only [List.append_nil, if_true] at this
  rw [this]
  congr 1
  exact map_eq_self_of_mem _ _ (fun t ht => stripCr_of_not_cr t (hcr t ht))

theorem parseSamplesFile_intercalate (items : List (List Char)) (hne : items ≠ [])
    (h : ∀ t ∈ items, '\n' ∉ t) (hlast : ∀ t ∈ items, t ≠ [])
    (hcr : ∀ t ∈ items.dropLast, t.getLast? ≠ some '\r') :
    parseSamplesFile (List.intercalate ['\n'] items) = items.map parseSampleLine := by
  have hsplit := List.dropLast_concat_getLast hne
  have hl : items.getLast hne ∈ items := List.getLast_mem hne
  have hd : ∀ t ∈ items.dropLast, t ∈ items := fun t ht => List.dropLast_subset _ ht
  have := parseSamplesFile_lines items.dropLast (items.getLast hne) (fun t ht => h t (hd t ht)) (h _ hl)
  rw [if_neg (hlast _ hl)] at this
  conv => lhs; rw [← hsplit, intercalate_snoc]
  rw [this]
  conv => rhs; rw [← hsplit]
  congr 2
  exact map_eq_self_of_mem _ _ (fun t ht => stripCr_of_not_cr t (hcr t ht))

/-- Windows line endings, the last line ended as well: nothing is asked of the items beyond being free of line feeds -/
theorem parseSamplesFile_intercalate_crnl (items : List (List Char)) (hne : items ≠ [])
    (h : ∀ t ∈ items, '\n' ∉ t) :
    parseSamplesFile (List.intercalate ['\r', '\n'] items ++ ['\r', '\n']) = items.map parseSampleLine := by
  have hnl : ∀ t ∈ items.map (· ++ ['\r']), '\n' ∉ t := by
    intro t ht
    obtain ⟨u, hu, rfl⟩ := List.mem_map.1 ht
    have := h u hu
    simp [this]
  have := parseSamplesFile_lines (items.map (· ++ ['\r'])) [] hnl (by simp)
  rw [intercalate_append_sep _ items hne]
  simp only [List.append_nil, if_true] at this
  have e : (fun t : List Char => t ++ ['\r', '\n']) = (fun t => t ++ ['\n']) ∘ (fun t => t ++ ['\r']) := by
    funext t; simp
  rw [e, ← List.map_map, this]
  congr 1
  rw [List.map_map]
  exact map_eq_self_of_mem _ _ (fun t _ => stripCr_append_cr t)

/-- Windows line endings, the last line not ended -/
theorem parseSamplesFile_intercalate_cr (items : List (List Char)) (hne : items ≠ [])
    (h : ∀ t ∈ items, '\n' ∉ t) (hlast : ∀ t ∈ items, t ≠ []) :
    parseSamplesFile (List.intercalate ['\r', '\n'] items) = items.map parseSampleLine := by
  have hsplit := List.dropLast_concat_getLast hne
  have hl : items.getLast hne ∈ items := List.getLast_mem hne
  have hd : ∀ t ∈ items.dropLast, t ∈ items := fun t ht => List.dropLast_subset _ ht
  have hnl : ∀ t ∈ items.dropLast.map (· ++ ['\r']), '\n' ∉ t := by
    intro t ht
    obtain ⟨u, hu, rfl⟩ := List.mem_map.1 ht
    have := h u (hd u hu)
    simp [this]
  have := parseSamplesFile_lines (items.dropLast.map (· ++ ['\r'])) (items.getLast hne) hnl (h _ hl)
  rw [if_neg (hlast _ hl)] at this
  have e : (fun t : List Char => t ++ ['\r', '\n']) = (fun t => t ++ ['\n']) ∘ (fun t => t ++ ['\r']) := by
    funext t; simp
  conv => lhs; rw [← hsplit, intercalate_snoc, e, ← List.map_map]
  rw [this]
  conv => rhs; rw [← hsplit]
  congr 2
  rw [List.map_map]
  exact map_eq_self_of_mem _ _ (fun t _ => stripCr_append_cr t)

/-! ## builder -/

theorem buildSite_nil (project : Option (List Nat)) (cols : List String) :
    buildSite (some []) project cols = .error .emptySamplesMap := rfl


theorem buildSite_unknown (l : List (String × Pop)) (project : Option (List Nat)) (cols : List String)
    (h : ∃ sp ∈ l, sp.1 ∉ cols) :
    ∃ s, buildSite (some l) project cols = .error (.unknownSample s) ∧ s ∉ cols ∧ s ∈ l.map (·.1) := by
  obtain ⟨sp, hsp, hnc⟩ := h
  have hk : sp.1 ∈ (sampleMap l).map (·.1) := by
    rw [keys_sampleMap, (distinct_spec _).2.1]
    exact List.mem_map_of_mem hsp
  obtain ⟨q, hq, hq1⟩ := List.mem_map.1 hk
  have hne : (sampleMap l).isEmpty = false := by
    cases hm : sampleMap l with
    | nil => rw [hm] at hq; simp at hq
    | cons _ _ => rfl
  cases hf : (sampleMap l).find? (fun p => !cols.contains p.1) with
  | none =>
    rw [List.find?_eq_none] at hf
    have := hf q hq
    simp only [hq1] at this
    simp [hnc] at this
  | some r =>
    have hr := List.find?_some hf
    have hrm := List.mem_of_find?_eq_some hf
    refine ⟨r.1, ?_, ?_, ?_⟩
    · simp only [buildSite, hne, hf]
      simp
    · simpa using hr
    · have : r.1 ∈ (sampleMap l).map (·.1) := List.mem_map_of_mem hrm
      rw [keys_sampleMap, (distinct_spec _).2.1] at this
      exact this

end Sfs
