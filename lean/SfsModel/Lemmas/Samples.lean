/-
Helper lemmas for genotype classification, GT parsing, the sample/population map and the column loop.
-/
import SfsModel.Model.Create
namespace Sfs

/-! ## GT parsing -/

def isSep (c : Char) : Prop := c = '/' ∨ c = '|'

theorem splitGT_ne_nil (s : List Char) : splitGT s ≠ [] := by
  induction s with
  | nil => simp [splitGT]
  | cons c cs ih =>
    unfold splitGT
    split
    · simp
    · split <;> simp

/-- the phasing normalisation used by `parseGT_phasing` -/
def unphase (c : Char) : Char := if c = '|' then '/' else c

theorem splitGT_map_unphase (s : List Char) : splitGT (s.map unphase) = splitGT s := by
  induction s with
  | nil => rfl
  | cons c cs ih =>
    simp only [List.map_cons, splitGT, ih]
    split
    · rename_i h0; exact absurd h0 (splitGT_ne_nil cs)
    · by_cases hc : c = '|'
      · subst hc; simp [unphase]
      · simp [unphase, hc]

theorem map_unphase_eq_dot (s : List Char) : s.map unphase = ['.'] ↔ s = ['.'] := by
  match s with
  | [] => simp
  | [c] =>
    by_cases hc : c = '|'
    · subst hc; simp [unphase]
    · simp [unphase, hc]
  | _ :: _ :: _ => simp

theorem splitGT_token (tok : List Char) (h : ∀ c ∈ tok, c ≠ '/' ∧ c ≠ '|') : splitGT tok = [tok] := by
  induction tok with
  | nil => rfl
  | cons c cs ih =>
    have hc := h c (by simp)
    simp only [splitGT, ih (fun x hx => h x (by simp [hx]))]
    simp [hc.1, hc.2]

theorem splitGT_token_sep (tok rest : List Char) (sep : Char) (h : ∀ c ∈ tok, c ≠ '/' ∧ c ≠ '|')
    (hs : sep = '/' ∨ sep = '|') : splitGT (tok ++ sep :: rest) = tok :: splitGT rest := by
  induction tok with
  | nil =>
    simp only [List.nil_append, splitGT]
    split
    · rename_i h0; exact absurd h0 (splitGT_ne_nil rest)
    · rename_i h0; simp [hs, h0]
  | cons c cs ih =>
    have hc := h c (by simp)
    simp only [List.cons_append, splitGT, ih (fun x hx => h x (by simp [hx]))]
    simp [hc.1, hc.2]


/-- spelling of one allele (copy of `C08.renderAllele`) -/
def gtAlleleStr : Option Nat → List Char
  | none => ['.']
  | some n => Nat.toDigits 10 n

/-- spelling of an allele list with chosen separators (copy of `C08.renderGT`) -/
def gtStr : List (Option Nat) → List Char → List Char
  | [], _ => []
  | [a], _ => gtAlleleStr a
  | a :: rest, sep :: seps => gtAlleleStr a ++ sep :: gtStr rest seps
  | a :: rest, [] => gtAlleleStr a ++ '/' :: gtStr rest []

theorem digit_ne_special (c : Char) (h : c.isDigit = true) : c ≠ '.' ∧ c ≠ '/' ∧ c ≠ '|' := by
  refine ⟨?_, ?_, ?_⟩ <;> (intro hc; subst hc; revert h; decide)

theorem gtAlleleStr_no_sep (a : Option Nat) : ∀ c ∈ gtAlleleStr a, c ≠ '/' ∧ c ≠ '|' := by
  intro c hc
  cases a with
  | none => simp [gtAlleleStr] at hc; subst hc; decide
  | some n =>
    have := digit_ne_special c (Nat.isDigit_of_mem_toDigits (by decide) (by decide) hc)
    exact this.2

theorem gtAlleleStr_ne_nil (a : Option Nat) : gtAlleleStr a ≠ [] := by
  cases a with
  | none => simp [gtAlleleStr]
  | some n => exact Nat.toDigits_ne_nil

theorem digitsToNat_toDigits (n : Nat) : digitsToNat (Nat.toDigits 10 n) = n :=
  Nat.ofDigitChars_toDigits (b := 10) (by decide) (by decide)

theorem toDigits_ne_dot (n : Nat) : Nat.toDigits 10 n ≠ ['.'] := by
  intro h
  have : '.' ∈ Nat.toDigits 10 n := by rw [h]; simp
  exact (digit_ne_special _ (Nat.isDigit_of_mem_toDigits (by decide) (by decide) this)).1 rfl

theorem isDigits_toDigits (n : Nat) : isDigits (Nat.toDigits 10 n) = true := by
  unfold isDigits
  have hne : (Nat.toDigits 10 n).isEmpty = false := by
    cases hd : Nat.toDigits 10 n with
    | nil => exact absurd hd Nat.toDigits_ne_nil
    | cons _ _ => rfl
  simp only [hne, Bool.not_false, Bool.true_and, List.all_eq_true]
  exact fun c hc => Nat.isDigit_of_mem_toDigits (by decide) (by decide) hc

theorem parseAllele_gtAlleleStr (a : Option Nat) : parseAllele (gtAlleleStr a) = some a := by
  cases a with
  | none => simp [gtAlleleStr, parseAllele]
  | some n =>
    simp only [gtAlleleStr, parseAllele, toDigits_ne_dot n, isDigits_toDigits n, digitsToNat_toDigits n]
    simp

theorem splitGT_gtStr (al : List (Option Nat)) (seps : List Char) (hne : al ≠ [])
    (hs : ∀ c ∈ seps, c = '/' ∨ c = '|') : splitGT (gtStr al seps) = al.map gtAlleleStr := by
  induction al generalizing seps with
  | nil => exact absurd rfl hne
  | cons a rest ih =>
    cases rest with
    | nil => simp [gtStr, splitGT_token _ (gtAlleleStr_no_sep a)]
    | cons b rest =>
      cases seps with
      | nil =>
        simp only [gtStr]
        rw [splitGT_token_sep _ _ _ (gtAlleleStr_no_sep a) (Or.inl rfl), ih [] (by simp) (by simp)]
        simp
      | cons sep seps =>
        simp only [gtStr]
        rw [splitGT_token_sep _ _ _ (gtAlleleStr_no_sep a) (hs sep (by simp)),
          ih seps (by simp) (fun c hc => hs c (by simp [hc]))]
        simp

theorem mapM_parseAllele (al : List (Option Nat)) : (al.map gtAlleleStr).mapM parseAllele = some al := by
  induction al with
  | nil => simp
  | cons a rest ih => simp [List.mapM_cons, parseAllele_gtAlleleStr, ih]

theorem gtStr_ne_dot (al : List (Option Nat)) (seps : List Char) (hne : al ≠ []) (hdot : al ≠ [none]) :
    gtStr al seps ≠ ['.'] := by
  match al, seps with
  | [], _ => exact absurd rfl hne
  | [none], _ => exact absurd rfl hdot
  | [some n], _ => simpa [gtStr, gtAlleleStr] using toDigits_ne_dot n
  | a :: b :: rest, [] =>
    intro h
    have := congrArg List.length h
    have h1 : (gtAlleleStr a).length ≠ 0 := by simpa using gtAlleleStr_ne_nil a
    simp [gtStr] at this
    omega
  | a :: b :: rest, s :: seps =>
    intro h
    have := congrArg List.length h
    have h1 : (gtAlleleStr a).length ≠ 0 := by simpa using gtAlleleStr_ne_nil a
    simp [gtStr] at this
    omega

theorem parseGT_gtStr (al : List (Option Nat)) (seps : List Char) (hne : al ≠ [])
    (hs : ∀ c ∈ seps, c = '/' ∨ c = '|') (hdot : al ≠ [none]) :
    parseGT (gtStr al seps) = some (some al) := by
  unfold parseGT
  rw [if_neg (gtStr_ne_dot al seps hne hdot), splitGT_gtStr al seps hne hs, mapM_parseAllele]
  rfl


/-! ## the column loop -/

theorem exists_lt_succ_iff {n : Nat} {P : Nat → Prop} :
    (∃ i, i < n + 1 ∧ P i) ↔ P 0 ∨ ∃ i, i < n ∧ P (i + 1) := by
  constructor
  · rintro ⟨i, hi, hp⟩
    cases i with
    | zero => exact Or.inl hp
    | succ j => exact Or.inr ⟨j, by omega, hp⟩
  · rintro (hp | ⟨i, hi, hp⟩)
    · exact ⟨0, by omega, hp⟩
    · exact ⟨i + 1, by omega, hp⟩

theorem tally_none_iff_aux (map : List (String × Nat)) (cols : List String) (gts : List GtRes) (st : SiteSt)
    (hl : cols.length = gts.length) :
    tally map cols gts st = none ↔
      ∃ i, i < cols.length ∧ (lookupPop map (cols.getD i "")).isSome ∧
        gts.getD i (.skipped .missing) = .ploidyError := by
  induction cols generalizing gts st with
  | nil => simp [tally]
  | cons c cs ih =>
    cases gts with
    | nil => simp at hl
    | cons g gs =>
      have hl' : cs.length = gs.length := by simpa using hl
      rw [List.length_cons, exists_lt_succ_iff]
      simp only [List.getD_cons_zero, List.getD_cons_succ]
      unfold tally
      cases hlk : lookupPop map c with
      | none => simp [ih gs st hl']
      | some pid =>
        cases g with
        | genotype k => simp [ih gs _ hl']
        | skipped s => simp [ih gs _ hl']
        | ploidyError => simp

theorem tally_congr_selected (map : List (String × Nat)) (cols : List String) (gts gts' : List GtRes) (st : SiteSt)
    (hl : cols.length = gts.length) (hl' : cols.length = gts'.length)
    (h : ∀ i, i < cols.length → (lookupPop map (cols.getD i "")).isSome →
      gts.getD i .ploidyError = gts'.getD i .ploidyError) :
    tally map cols gts st = tally map cols gts' st := by
  induction cols generalizing gts gts' st with
  | nil => simp [tally]
  | cons c cs ih =>
    cases gts with
    | nil => simp at hl
    | cons g gs =>
      cases gts' with
      | nil => simp at hl'
      | cons g' gs' =>
        have h0 := h 0 (by simp)
        have hs : ∀ i, i < cs.length → (lookupPop map (cs.getD i "")).isSome →
            gs.getD i .ploidyError = gs'.getD i .ploidyError := by
          intro i hi hsel
          have := h (i + 1) (by simp; omega)
          simpa using this hsel
        have ihh := fun st => ih gs gs' st (by simpa using hl) (by simpa using hl') hs
        simp only [List.getD_cons_zero] at h0
        unfold tally
        cases hlk : lookupPop map c with
        | none => simp [ihh]
        | some pid =>
          have : g = g' := h0 (by simp [hlk])
          subst this
          cases g <;> simp [ihh]

end Sfs
